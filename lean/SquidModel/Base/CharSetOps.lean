/-
Additions to the `CharSet` model (src/base/CharacterSet.{h,cc}) that `Base/CharSet.lean` does not have:
`add`, `remove`, `addRange` (following the C++ loop, including its behaviour for low > high),
the constructors from a C string and from a list of ranges, well-formedness (mask < 2^256),
extensionality (`operator==` is equality of member sets), the member list used by the line protocol,
and the usual corollaries of the membership lemmas. Core-only.
-/
import SquidModel.Base.CharSet
namespace SquidModel
namespace CharSet

/-- every mask produced by the operations has only the 256 low bits -/
def WF (c : CharSet) : Prop := c.mask < 2 ^ 256

/-- `CharacterSet::add` -/
def add (c : CharSet) (b : UInt8) : CharSet := ⟨c.mask ||| (1 <<< b.toNat)⟩

/-- `CharacterSet::remove` -/
def remove (c : CharSet) (b : UInt8) : CharSet := ⟨c.mask &&& ((1 <<< b.toNat) ^^^ full)⟩

/-- the `while (low < high) { chars_[low] = 1; ++low; }` loop of `addRange`, `n` iterations starting at `low` -/
def addRangeLoop (c : CharSet) (low : Nat) : Nat → CharSet
  | 0 => c
  | n + 1 => addRangeLoop ⟨c.mask ||| (1 <<< low)⟩ (low + 1) n

/-- `CharacterSet::addRange(low, high)`: the loop runs `high - low` times (not at all when low ≥ high),
then `chars_[high] = 1` unconditionally. -/
def addRange (c : CharSet) (low high : UInt8) : CharSet :=
  (addRangeLoop c low.toNat (high.toNat - low.toNat)).add high

/-- the `for … add(c[i])` loop of the C-string constructor -/
def addAll (c : CharSet) (l : Bytes) : CharSet := l.foldl add c

/-- `CharacterSet(label, const char *)`: the characters up to the first NUL (`strlen`) -/
def ofCString (l : Bytes) : CharSet := addAll empty (l.takeWhile (· != 0))

/-- `CharacterSet(label, {{lo,hi}, …})` -/
def ofRanges (rs : List (UInt8 × UInt8)) : CharSet := rs.foldl (fun c r => c.addRange r.1 r.2) empty

/-- the members in increasing order (what `printChars` prints) -/
def members (c : CharSet) : Bytes :=
  ((List.range 256).filter fun i => c.mask.testBit i).map UInt8.ofNat

/-- `CharacterSet::operator==` (the label is ignored) -/
def beq (a b : CharSet) : Bool := a.mask == b.mask

/-! ### membership lemmas -/

theorem mem_empty (x : UInt8) : empty.mem x = false := by simp [mem, empty]

theorem toNat_inj {a b : UInt8} : a.toNat = b.toNat ↔ a = b :=
  ⟨fun h => UInt8.toNat_inj.mp h, fun h => h ▸ rfl⟩

theorem testBit_one_shiftLeft (i j : Nat) : (1 <<< i).testBit j = decide (i = j) := by
  rw [Nat.one_shiftLeft, Nat.testBit_two_pow]

theorem mem_add (c : CharSet) (b x : UInt8) : (c.add b).mem x = (c.mem x || x == b) := by
  simp only [mem, add, Nat.testBit_or, testBit_one_shiftLeft]
  congr 1
  by_cases h : x = b
  · subst h; simp
  · have : ¬ b.toNat = x.toNat := fun e => h (toNat_inj.mp e.symm)
    simp [h, this]

theorem mem_remove (c : CharSet) (b x : UInt8) : (c.remove b).mem x = (c.mem x && x != b) := by
  simp only [mem, remove, Nat.testBit_and, Nat.testBit_xor, testBit_one_shiftLeft, testBit_full x.toNat_lt]
  congr 1
  by_cases h : x = b
  · subst h; simp
  · have : ¬ b.toNat = x.toNat := fun e => h (toNat_inj.mp e.symm)
    simp [h, this]

theorem testBit_addRangeLoop (c : CharSet) (low n i : Nat) :
    (addRangeLoop c low n).mask.testBit i = (c.mask.testBit i || (decide (low ≤ i) && decide (i < low + n))) := by
  induction n generalizing c low with
  | zero =>
    simp only [addRangeLoop, Nat.add_zero]
    by_cases h : low ≤ i <;> simp [h]; omega
  | succ n ih =>
    simp only [addRangeLoop, ih, Nat.testBit_or, testBit_one_shiftLeft]
    by_cases h1 : low = i
    · subst h1; simp
    · by_cases h2 : low ≤ i
      · have h3 : low + 1 ≤ i := by omega
        have e : low + 1 + n = low + (n + 1) := by omega
        simp [h1, h2, h3, e]
      · have h3 : ¬ low + 1 ≤ i := by omega
        simp [h1, h2, h3]

/-- `addRange(low, high)` adds `[low, high)` and `high`; for `low ≤ high` that is the closed range,
for `low > high` it is `{high}` alone (the C++ code does the same). -/
theorem mem_addRange (c : CharSet) (low high x : UInt8) :
    (c.addRange low high).mem x = (c.mem x || (decide (low ≤ x) && decide (x < high)) || x == high) := by
  simp only [addRange, mem_add]
  congr 1
  simp only [mem, testBit_addRangeLoop, UInt8.le_iff_toNat_le, UInt8.lt_iff_toNat_lt]
  congr 1
  by_cases h1 : low.toNat ≤ x.toNat <;> by_cases h2 : x.toNat < high.toNat <;> simp [h1, h2] <;> omega

theorem mem_addRange_of_le (c : CharSet) {low high : UInt8} (h : low ≤ high) (x : UInt8) :
    (c.addRange low high).mem x = (c.mem x || (decide (low ≤ x) && decide (x ≤ high))) := by
  rw [mem_addRange, Bool.or_assoc]
  congr 1
  simp only [UInt8.le_iff_toNat_le, UInt8.lt_iff_toNat_lt] at *
  by_cases hx : x = high
  · subst hx; simp [h]
  · have : x.toNat ≠ high.toNat := fun e => hx (toNat_inj.mp e)
    have hb : (x == high) = false := by simp [hx]
    rw [hb, Bool.or_false]
    by_cases h1 : low.toNat ≤ x.toNat
    · by_cases h2 : x.toNat < high.toNat
      · have h3 : x.toNat ≤ high.toNat := by omega
        simp [h1, h2, h3]
      · have h3 : ¬ x.toNat ≤ high.toNat := by omega
        simp [h1, h2, h3]
    · simp [h1]

theorem mem_addAll (c : CharSet) (l : Bytes) (x : UInt8) : (c.addAll l).mem x = (c.mem x || l.contains x) := by
  induction l generalizing c with
  | nil => simp [addAll]
  | cons b r ih =>
    have : (c.addAll (b :: r)) = (c.add b).addAll r := rfl
    rw [this, ih, mem_add, List.contains_cons, Bool.or_assoc]

theorem mem_ofCString (l : Bytes) (x : UInt8) : (ofCString l).mem x = (l.takeWhile (· != 0)).contains x := by
  simp [ofCString, mem_addAll, mem_empty]

theorem mem_add_op (a b : CharSet) (x : UInt8) : (a + b).mem x = (a.mem x || b.mem x) := mem_union a b x
theorem mem_sub_op (a b : CharSet) (x : UInt8) : (a - b).mem x = (a.mem x && !b.mem x) := mem_diff a b x

/-! ### well-formedness is preserved, and well-formed sets are determined by their members -/

theorem full_lt : full < 2 ^ 256 := by decide
theorem one_shiftLeft_lt (b : UInt8) : 1 <<< b.toNat < 2 ^ 256 := by
  rw [Nat.one_shiftLeft]; exact Nat.pow_lt_pow_right (by decide) b.toNat_lt

theorem WF_empty : WF empty := by simp [WF, empty]
theorem WF_union {a b : CharSet} (ha : WF a) (hb : WF b) : WF (a.union b) := Nat.or_lt_two_pow ha hb
theorem WF_complement {a : CharSet} (ha : WF a) : WF a.complement := Nat.xor_lt_two_pow ha full_lt
theorem WF_diff {a : CharSet} (b : CharSet) (ha : WF a) : WF (a.diff b) :=
  Nat.lt_of_le_of_lt Nat.and_le_left ha
theorem WF_add {a : CharSet} (b : UInt8) (ha : WF a) : WF (a.add b) := Nat.or_lt_two_pow ha (one_shiftLeft_lt b)
theorem WF_remove {a : CharSet} (b : UInt8) (ha : WF a) : WF (a.remove b) :=
  Nat.lt_of_le_of_lt Nat.and_le_left ha
theorem WF_addAll {a : CharSet} (l : Bytes) (ha : WF a) : WF (a.addAll l) := by
  induction l generalizing a with
  | nil => exact ha
  | cons b r ih => exact ih (WF_add b ha)

theorem WF_addRangeLoop {a : CharSet} (low n : Nat) (h : low + n ≤ 256) (ha : WF a) : WF (addRangeLoop a low n) := by
  induction n generalizing a low with
  | zero => exact ha
  | succ n ih =>
    apply ih (low + 1) (by omega)
    apply Nat.or_lt_two_pow ha
    rw [Nat.one_shiftLeft]; exact Nat.pow_lt_pow_right (by decide) (by omega)

theorem WF_addRange {a : CharSet} (low high : UInt8) (ha : WF a) : WF (a.addRange low high) := by
  apply WF_add
  apply WF_addRangeLoop _ _ _ ha
  have := high.toNat_lt; have := low.toNat_lt; omega

theorem WF_ofCString (l : Bytes) : WF (ofCString l) := WF_addAll _ WF_empty

theorem WF_ofRanges (rs : List (UInt8 × UInt8)) : WF (ofRanges rs) := by
  unfold ofRanges
  suffices h : ∀ (c : CharSet), WF c → WF (rs.foldl (fun c r => c.addRange r.1 r.2) c) from h _ WF_empty
  induction rs with
  | nil => intro c hc; exact hc
  | cons r rs ih => intro c hc; exact ih _ (WF_addRange _ _ hc)

/-- Two well-formed sets with the same members are the same set: `operator==` compares member sets. -/
theorem ext {a b : CharSet} (ha : WF a) (hb : WF b) (h : ∀ x, a.mem x = b.mem x) : a = b := by
  cases a with | mk ma => cases b with | mk mb =>
  congr 1
  apply Nat.eq_of_testBit_eq
  intro i
  by_cases hi : i < 256
  · have := h (UInt8.ofNat i)
    simp only [mem] at this
    have e : (UInt8.ofNat i).toNat = i := by simp [UInt8.toNat_ofNat']; omega
    rwa [e] at this
  · have hp : (2:Nat) ^ 256 ≤ 2 ^ i := Nat.pow_le_pow_right (by decide) (by omega)
    rw [Nat.testBit_lt_two_pow (Nat.lt_of_lt_of_le ha hp), Nat.testBit_lt_two_pow (Nat.lt_of_lt_of_le hb hp)]

theorem beq_iff {a b : CharSet} (ha : WF a) (hb : WF b) : a.beq b = true ↔ ∀ x, a.mem x = b.mem x := by
  constructor
  · intro h x
    have : a.mask = b.mask := by simpa [beq] using h
    simp [mem, this]
  · intro h
    have := ext ha hb h
    simp [beq, this]

theorem mem_members (c : CharSet) (x : UInt8) : x ∈ c.members ↔ c.mem x = true := by
  simp only [members, List.mem_map, List.mem_filter, List.mem_range, mem]
  constructor
  · rintro ⟨i, ⟨hi, hb⟩, rfl⟩
    have e : (UInt8.ofNat i).toNat = i := by simp [UInt8.toNat_ofNat']; omega
    rwa [e]
  · intro h
    exact ⟨x.toNat, ⟨x.toNat_lt, h⟩, by simp⟩

/-! ### the algebra that follows from the pointwise lemmas (for well-formed sets) -/

theorem union_comm' {a b : CharSet} (ha : WF a) (hb : WF b) : a.union b = b.union a :=
  ext (WF_union ha hb) (WF_union hb ha) fun x => by simp [mem_union, Bool.or_comm]

theorem complement_complement {a : CharSet} (ha : WF a) : a.complement.complement = a :=
  ext (WF_complement (WF_complement ha)) ha fun x => by simp [mem_complement]

theorem diff_eq_inter_complement (a b : CharSet) (x : UInt8) :
    (a.diff b).mem x = (a.mem x && b.complement.mem x) := by simp [mem_diff, mem_complement]

theorem union_diff_cancel_mem (a b : CharSet) (x : UInt8) : ((a.union b).diff b).mem x = (a.mem x && !b.mem x) := by
  simp [mem_diff, mem_union]; cases a.mem x <;> cases b.mem x <;> rfl

end CharSet
end SquidModel
