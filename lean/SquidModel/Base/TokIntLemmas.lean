/-
Refinement proof: the machine-integer model of `Tokenizer::int64` (`Base/TokInt.lean`) equals the arbitrary-precision
specification (`Base/TokIntSpec.lean`) on every input, except that with a signed accumulator the inputs in `inUbZone`
produce `ub`. Core-only.
-/
import SquidModel.Base.TokIntSpec
set_option linter.unusedSimpArgs false
namespace SquidModel
namespace Tok

/-! ### arithmetic -/

/-- The strtoll overflow test: with `A ≤ L` not needed, `A > L/b ∨ (A = L/b ∧ d > L%b)` says exactly `A*b + d > L`. -/
theorem cutoff_test (L b A d : Nat) (hb : 0 < b) (hd : d < b) :
    (A > L / b ∨ (A = L / b ∧ d > L % b)) ↔ A * b + d > L := by
  have h := Nat.div_add_mod L b
  have hm := Nat.mod_lt L hb
  constructor
  · rintro (h1 | ⟨h1, h2⟩)
    · have h3 : (L / b + 1) * b ≤ A * b := Nat.mul_le_mul_right b h1
      rw [Nat.add_mul, Nat.one_mul, Nat.mul_comm] at h3
      omega
    · subst h1; rw [Nat.mul_comm]; omega
  · intro h1
    by_cases h2 : A > L / b
    · exact Or.inl h2
    · by_cases h3 : A = L / b
      · right; subst h3; refine ⟨rfl, ?_⟩; rw [Nat.mul_comm] at h1; omega
      · exfalso
        have h4 : A + 1 ≤ L / b := by omega
        have h5 : (A + 1) * b ≤ (L / b) * b := Nat.mul_le_mul_right b h4
        rw [Nat.add_mul, Nat.one_mul, Nat.mul_comm (L / b) b] at h5
        omega

theorem toU64_natCast (A : Nat) (h : A < two64) : toU64 (A : Int) = A := by
  unfold toU64
  have : (A : Int) % ((two64 : Nat) : Int) = (A : Int) := Int.emod_eq_of_lt (by omega) (by omega)
  rw [this]; simp

theorem le_mul_add (A b d : Nat) (hb : 0 < b) : A ≤ A * b + d := by
  have : A * 1 ≤ A * b := Nat.mul_le_mul_left A hb
  omega

/-! ### digits -/

theorem validDigit_iff (b : Int) (c : UInt8) :
    validDigit b c = true ↔ ∃ d, digitVal c = some d ∧ (d : Int) < b := by
  unfold validDigit
  cases h : digitVal c with
  | none => simp
  | some d => simp

theorem digitOf_of_some {c : UInt8} {d : Nat} (h : digitVal c = some d) : digitOf c = d := by
  simp [digitOf, h]

theorem hitsFrom_of_gt (b bound : Nat) (hb : 0 < b) (ds : Bytes) (A : Nat) (h : bound < A) :
    hitsFrom b bound A ds = false := by
  induction ds generalizing A with
  | nil => rfl
  | cons c r ih =>
    have h1 : A ≤ A * b + digitOf c := le_mul_add A b _ hb
    have h2 : bound < A * b + digitOf c := by omega
    simp only [hitsFrom, ih _ h2, Bool.or_false]
    have : A * b + digitOf c ≠ bound := by omega
    simp [this]

/-! ### the loop -/

/-- what the loop state `(any, acc)` means relative to the unbounded value `A` of the digits read so far -/
def LoopInv (L : Nat) (any acc : Int) (A : Nat) : Prop :=
  (any = 0 ∨ any = 1 ∨ any = -1) ∧ (0 ≤ any → acc = (A : Int) ∧ A ≤ L) ∧ (any < 0 → L < A)

/-- postcondition of the loop started in a state meaning `A`, over the maximal digit run `ds` -/
def LoopPost (signed : Bool) (b L : Nat) (any : Int) (n A : Nat) (ds : Bytes) : LoopOut → Prop
  | .ub => signed = true ∧ L = two63 ∧ hitsFrom b two63 A ds = true
  | .done any' acc' n' =>
    n' = n + ds.length ∧ LoopInv L any' acc' (hornerFrom b A ds) ∧ (any' = 0 ↔ any = 0 ∧ ds = []) ∧
    ¬ (signed = true ∧ L = two63 ∧ hitsFrom b two63 A ds = true)

theorem LoopPost_step {signed : Bool} {b L : Nat} {any any1 : Int} {n A A1 : Nat} {c : UInt8} {ds : Bytes} {out : LoopOut}
    (h1 : A1 = A * b + digitOf c) (hne : signed = true → L = two63 → A1 ≠ two63) (hany : any1 ≠ 0)
    (h : LoopPost signed b L any1 (n + 1) A1 ds out) : LoopPost signed b L any n A (c :: ds) out := by
  have hh : hitsFrom b two63 A (c :: ds) = (A1 == two63 || hitsFrom b two63 A1 ds) := by
    simp only [hitsFrom, h1]
  cases out with
  | ub =>
    obtain ⟨hs, hL, hit⟩ := h
    refine ⟨hs, hL, ?_⟩
    rw [hh, hit]; simp
  | done any' acc' n' =>
    obtain ⟨hn, hinv, h0, hnot⟩ := h
    refine ⟨?_, ?_, ?_, ?_⟩
    · simp only [List.length_cons]; omega
    · have : hornerFrom b A (c :: ds) = hornerFrom b A1 ds := by simp [hornerFrom, h1]
      rw [this]; exact hinv
    · constructor
      · intro e; exact absurd (h0.mp e).1 hany
      · intro e; exact absurd e.2 (by simp)
    · rintro ⟨hs, hL, hit⟩
      apply hnot
      refine ⟨hs, hL, ?_⟩
      rw [hh] at hit
      have : (A1 == two63) = false := by simpa using hne hs hL
      simpa [this] using hit

theorem int64Loop_spec (signed : Bool) (b : Nat) (hb : 0 < b) (L : Nat) (hL : L = two63 ∨ L = two63 - 1)
    (s : Bytes) (any acc : Int) (n A : Nat) (hinv : LoopInv L any acc A) :
    LoopPost signed b L any n A (s.takeWhile (validDigit (b : Int)))
      (int64Loop signed (b : Int) (L / b) ((L % b : Nat) : Int) s any acc n) := by
  induction s generalizing any acc n A with
  | nil =>
    simp only [List.takeWhile_nil, int64Loop]
    exact ⟨by simp, by simpa [hornerFrom] using hinv, by simp, by simp [hitsFrom]⟩
  | cons c r ih =>
    have stop : validDigit (b : Int) c = false →
        LoopPost signed b L any n A ((c :: r).takeWhile (validDigit (b : Int))) (.done any acc n) := by
      intro hv
      simp only [List.takeWhile_cons, hv]
      exact ⟨by simp, by simpa [hornerFrom] using hinv, by simp, by simp [hitsFrom]⟩
    cases hd : digitVal c with
    | none =>
      have hv : validDigit (b : Int) c = false := by simp [validDigit, hd]
      simp only [int64Loop, hd]
      exact stop hv
    | some d =>
      by_cases hge : (d : Int) ≥ (b : Int)
      · have hv : validDigit (b : Int) c = false := by simp [validDigit, hd]; omega
        simp only [int64Loop, hd, hge, if_true]
        exact stop hv
      · have hv : validDigit (b : Int) c = true := by simp [validDigit, hd]; omega
        have hdb : d < b := by omega
        have hdo : digitOf c = d := digitOf_of_some hd
        have htw : (c :: r).takeWhile (validDigit (b : Int)) = c :: r.takeWhile (validDigit (b : Int)) := by
          simp [hv]
        rw [htw]
        have hL63 : L ≤ two63 := by unfold two63 at *; omega
        have hmono : A ≤ A * b + d := le_mul_add A b d hb
        simp only [int64Loop, hd, hge, if_false]
        obtain ⟨hany3, hpos, hneg⟩ := hinv
        by_cases hlt : any < 0
        · -- already out of range: stays out of range
          have hA : L < A := hneg hlt
          have hc : (any < 0 ∨ toU64 acc > L / b ∨ (toU64 acc = L / b ∧ (d : Int) > ((L % b : Nat) : Int))) := Or.inl hlt
          simp only [hc, if_true]
          apply LoopPost_step (A1 := A * b + d) (any1 := -1) (by rw [hdo]) (by intro _ e; unfold two63 at *; omega) (by decide)
          apply ih
          exact ⟨by simp, by intro h; omega, by intro _; omega⟩
        · have hge0 : 0 ≤ any := by omega
          obtain ⟨hacc, hAL⟩ := hpos hge0
          have hA64 : A < two64 := by unfold two64 two63 at *; omega
          have hu : toU64 acc = A := by rw [hacc]; exact toU64_natCast A hA64
          have htest := cutoff_test L b A d hb hdb
          by_cases hov : A * b + d > L
          · have hc : (any < 0 ∨ toU64 acc > L / b ∨ (toU64 acc = L / b ∧ (d : Int) > ((L % b : Nat) : Int))) := by
              right
              rw [hu]
              rcases htest.mpr hov with h1 | ⟨h1, h2⟩
              · exact Or.inl h1
              · exact Or.inr ⟨h1, by omega⟩
            simp only [hc, if_true]
            apply LoopPost_step (A1 := A * b + d) (any1 := -1) (by rw [hdo]) (by intro _ e; unfold two63 at *; omega) (by decide)
            apply ih
            exact ⟨by simp, by intro h; omega, by intro _; omega⟩
          · have hc : ¬ (any < 0 ∨ toU64 acc > L / b ∨ (toU64 acc = L / b ∧ (d : Int) > ((L % b : Nat) : Int))) := by
              rw [hu]
              rintro (h1 | h1 | ⟨h1, h2⟩)
              · omega
              · exact hov (htest.mp (Or.inl h1))
              · exact hov (htest.mp (Or.inr ⟨h1, by omega⟩))
            simp only [hc, if_false]
            have hle : A * b + d ≤ L := by omega
            have hmul : A * b ≤ A * b + d := by omega
            cases signed with
            | true =>
              simp only [if_true]
              have hm : acc * (b : Int) = ((A * b : Nat) : Int) := by rw [hacc]; simp
              by_cases h63 : A * b + d = two63
              · -- the overflow: either the multiplication or the addition leaves int64
                have hLe : L = two63 := by unfold two63 at *; omega
                have hit : hitsFrom b two63 A (c :: r.takeWhile (validDigit (b : Int))) = true := by
                  simp [hitsFrom, hdo, h63]
                by_cases hm63 : A * b = two63
                · have : inI64 (acc * (b : Int)) = false := by
                    rw [hm, hm63]; decide
                  simp only [this, Bool.not_false, if_true]
                  exact ⟨rfl, hLe, hit⟩
                · have h1 : inI64 (acc * (b : Int)) = true := by
                    rw [hm]; unfold inI64 i64Min i64Max; unfold two63 at *
                    simp only [Bool.and_eq_true, decide_eq_true_eq]; omega
                  have h2 : inI64 (acc * (b : Int) + (d : Int)) = false := by
                    rw [hm]
                    have : ((A * b : Nat) : Int) + (d : Int) = ((two63 : Nat) : Int) := by rw [← h63]; simp
                    rw [this]; decide
                  simp only [h1, h2, Bool.not_true, Bool.not_false, if_true]
                  exact ⟨rfl, hLe, hit⟩
              · have hlt63 : A * b + d < two63 := by unfold two63 at *; omega
                have h1 : inI64 (acc * (b : Int)) = true := by
                  rw [hm]; unfold inI64 i64Min i64Max; unfold two63 at *
                  simp only [Bool.and_eq_true, decide_eq_true_eq]; omega
                have h2 : inI64 (acc * (b : Int) + (d : Int)) = true := by
                  rw [hm]; unfold inI64 i64Min i64Max; unfold two63 at *
                  simp only [Bool.and_eq_true, decide_eq_true_eq]; omega
                simp only [h1, h2, Bool.not_true]
                apply LoopPost_step (A1 := A * b + d) (any1 := 1) (by rw [hdo]) (by intro _ _; exact h63) (by decide)
                apply ih
                refine ⟨by simp, ?_, by intro h; omega⟩
                intro _
                exact ⟨by rw [hm]; simp, hle⟩
            | false =>
              simp only [Bool.false_eq_true, if_false]
              have hb64 : b < two64 ∨ two64 ≤ b := by omega
              have hbu : toU64 (b : Int) = b ∨ A = 0 := by
                rcases hb64 with h | h
                · exact Or.inl (toU64_natCast b h)
                · right
                  by_cases hA0 : A = 0
                  · exact hA0
                  · exfalso
                    have : 1 * b ≤ A * b := Nat.mul_le_mul_right b (by omega)
                    unfold two64 two63 at *; omega
              have hnew : ((acc * ((toU64 (b : Int) : Nat) : Int)) % ((two64 : Nat) : Int) + (d : Int)) % ((two64 : Nat) : Int)
                  = ((A * b + d : Nat) : Int) := by
                rcases hbu with h | h
                · rw [h, hacc]
                  have e1 : ((A : Int) * (b : Int)) % ((two64 : Nat) : Int) = ((A * b : Nat) : Int) := by
                    have : ((A : Int) * (b : Int)) = ((A * b : Nat) : Int) := by simp
                    rw [this]
                    exact Int.emod_eq_of_lt (by omega) (by unfold two64 two63 at *; omega)
                  rw [e1]
                  have e2 : (((A * b : Nat) : Int) + (d : Int)) = ((A * b + d : Nat) : Int) := by simp
                  rw [e2]
                  exact Int.emod_eq_of_lt (by omega) (by unfold two64 two63 at *; omega)
                · subst h
                  rw [hacc]
                  simp only [Nat.zero_mul, Nat.zero_add, Int.natCast_zero, Int.zero_mul, Int.zero_emod, Int.zero_add]
                  exact Int.emod_eq_of_lt (by omega) (by unfold two64 two63 at *; omega)
              rw [hnew]
              apply LoopPost_step (A1 := A * b + d) (any1 := 1) (by rw [hdo])
              · intro e; exact absurd e (by decide)
              · decide
              · apply ih
                refine ⟨by simp, ?_, by intro h; omega⟩
                intro _
                exact ⟨rfl, hle⟩

/-! ### from the loop to the function -/

theorem toI32_small (n : Nat) (h : n < 2147483648) : toI32 n = (n : Int) := by
  unfold toI32
  have : n % 4294967296 = n := Nat.mod_eq_of_lt (by omega)
  rw [this]; simp [h]

theorem validDigit_nonpos (base : Int) (h : base ≤ 0) (c : UInt8) : validDigit base c = false := by
  unfold validDigit
  cases digitVal c with
  | none => rfl
  | some d => simp; omega

theorem takeWhile_validDigit_nonpos (base : Int) (h : base ≤ 0) (s : Bytes) : s.takeWhile (validDigit base) = [] := by
  cases s with
  | nil => rfl
  | cons c r => simp [validDigit_nonpos base h c]

theorem int64Loop_nonpos (signed : Bool) (base : Int) (h : base ≤ 0) (cutoff : Nat) (cutlim : Int) (s : Bytes) :
    int64Loop signed base cutoff cutlim s 0 0 0 = .done 0 0 0 := by
  cases s with
  | nil => rfl
  | cons c r =>
    unfold int64Loop
    cases hd : digitVal c with
    | none => rfl
    | some d =>
      have : (d : Int) ≥ base := by omega
      simp [this]

/-- The digit part of `int64` computes the specification, or overflows exactly on `ubDigits`. -/
theorem int64Digits_eq (signed neg : Bool) (base : Int) (hb0 : base ≠ 0) (hhi : base < 2147483648) (s : Bytes) (off : Nat) :
    int64Digits signed neg base s off = if signed && ubDigits neg base s then .ub else specDigits neg base s off := by
  by_cases hneg : base ≤ 0
  · have h1 := takeWhile_validDigit_nonpos base hneg s
    simp only [int64Digits, int64Loop_nonpos signed base hneg, ubDigits, specDigits, h1, hitsFrom]
    simp
  · have hpos : 0 < base := by omega
    obtain ⟨b, rfl⟩ : ∃ b : Nat, base = (b : Int) := ⟨base.toNat, by omega⟩
    have hb : 0 < b := by omega
    have hb31 : b < 2147483648 := by omega
    have hbu : toU64 (b : Int) = b := toU64_natCast b (by unfold two64; omega)
    let L : Nat := if neg then two63 else two63 - 1
    have hL : L = two63 ∨ L = two63 - 1 := by cases neg <;> simp [L]
    have hLneg : L = two63 ↔ neg = true := by cases neg <;> simp [L, two63]
    have hmod : L % b < 2147483648 := Nat.lt_trans (Nat.mod_lt L hb) hb31
    have hspec := int64Loop_spec signed b hb L hL s 0 0 0 0 ⟨by simp, by intro _; exact ⟨rfl, Nat.zero_le _⟩, by intro h; omega⟩
    have hcl : toI32 (L % b) = ((L % b : Nat) : Int) := toI32_small _ hmod
    have hunf : int64Digits signed neg (b : Int) s off =
        (match int64Loop signed (b : Int) (L / b) ((L % b : Nat) : Int) s 0 0 0 with
          | .ub => .ub
          | .done any acc n =>
            if any = 0 then .fail else if any < 0 then .fail
            else if signed then (if neg then (if acc = i64Min then .ub else .ok (-acc) (off + n)) else .ok acc (off + n))
            else (if neg then .ok (if toU64 acc > two63 - 1 then i64Min else -toI64 (toU64 acc)) (off + n) else .ok (toI64 (toU64 acc)) (off + n))) := by
      simp only [int64Digits, hbu, L, hcl]
      rfl
    rw [hunf]
    have htn : (b : Int).toNat = b := by simp
    simp only [ubDigits, specDigits, htn, digitsValue]
    generalize int64Loop signed (b : Int) (L / b) ((L % b : Nat) : Int) s 0 0 0 = out at hspec
    generalize s.takeWhile (validDigit (b : Int)) = ds at hspec
    cases out with
    | ub =>
      obtain ⟨hs, hL2, hit⟩ := hspec
      have hn : neg = true := hLneg.mp hL2
      simp [hs, hn, hit]
    | done any acc n =>
      obtain ⟨hn, ⟨hany3, hpos2, hneg2⟩, h0, hnot⟩ := hspec
      have hcond : (signed && (neg && hitsFrom b two63 0 ds)) = false := by
        cases hsg : signed with
        | false => simp
        | true =>
          cases hng : neg with
          | false => simp
          | true =>
            have : hitsFrom b two63 0 ds = false := by
              cases hh : hitsFrom b two63 0 ds with
              | false => rfl
              | true => exact absurd ⟨hsg, hLneg.mpr hng, hh⟩ hnot
            simp [this]
      rw [hcond]
      simp only [Bool.false_eq_true, if_false]
      by_cases ha0 : any = 0
      · have : ds = [] := (h0.mp ha0).2
        simp [ha0, this]
      · have hds : ds ≠ [] := fun e => ha0 (h0.mpr ⟨rfl, e⟩)
        have hemp : ds.isEmpty = false := by cases ds with | nil => exact absurd rfl hds | cons _ _ => rfl
        simp only [ha0, if_false, hemp, Bool.false_eq_true]
        by_cases hlt : any < 0
        · have hbig : L < hornerFrom b 0 ds := hneg2 hlt
          simp only [hlt, if_true]
          have : ¬ (i64Min ≤ (if neg = true then -((hornerFrom b 0 ds : Nat) : Int) else ((hornerFrom b 0 ds : Nat) : Int)) ∧
              (if neg = true then -((hornerFrom b 0 ds : Nat) : Int) else ((hornerFrom b 0 ds : Nat) : Int)) ≤ i64Max) := by
            cases neg <;> simp [L, two63] at hbig <;> simp [i64Min, i64Max] <;> omega
          simp [this]
        · have hge0 : 0 ≤ any := by omega
          obtain ⟨hacc, hle⟩ := hpos2 hge0
          simp only [hlt, if_false]
          have hn0 : n = ds.length := by omega
          subst hn0
          cases hsg : signed with
          | true =>
            cases hng : neg with
            | true =>
              have hle2 : hornerFrom b 0 ds ≤ two63 := by simpa [L, hng] using hle
              have : ¬ ((hornerFrom b 0 ds : Nat) : Int) = i64Min := by unfold i64Min; omega
              have hr : i64Min ≤ -((hornerFrom b 0 ds : Nat) : Int) ∧ -((hornerFrom b 0 ds : Nat) : Int) ≤ i64Max := by
                unfold i64Min i64Max; unfold two63 at hle2; omega
              simp [this, hr, hacc]
            | false =>
              have hle2 : hornerFrom b 0 ds ≤ two63 - 1 := by simpa [L, hng] using hle
              have hr : i64Min ≤ ((hornerFrom b 0 ds : Nat) : Int) ∧ ((hornerFrom b 0 ds : Nat) : Int) ≤ i64Max := by
                unfold i64Min i64Max; unfold two63 at hle2; omega
              simp [hr, hacc]
          | false =>
            cases hng : neg with
            | true =>
              have hle2 : hornerFrom b 0 ds ≤ two63 := by simpa [L, hng] using hle
              have hr : i64Min ≤ -((hornerFrom b 0 ds : Nat) : Int) ∧ -((hornerFrom b 0 ds : Nat) : Int) ≤ i64Max := by
                unfold i64Min i64Max; unfold two63 at hle2; omega
              have hu : toU64 acc = hornerFrom b 0 ds := by
                rw [hacc]; exact toU64_natCast _ (by unfold two64; unfold two63 at hle2; omega)
              have hv : (if hornerFrom b 0 ds > two63 - 1 then i64Min else -toI64 (hornerFrom b 0 ds)) = -((hornerFrom b 0 ds : Nat) : Int) := by
                unfold toI64 i64Min
                unfold two63 at hle2
                unfold two64 two63
                have e : hornerFrom b 0 ds % 18446744073709551616 = hornerFrom b 0 ds := Nat.mod_eq_of_lt (by omega)
                rw [e]
                by_cases hz : hornerFrom b 0 ds > 9223372036854775808 - 1
                · simp only [hz, if_true]; omega
                · have : hornerFrom b 0 ds < 9223372036854775808 := by omega
                  simp only [hz, if_false, this, if_true]
              simp [hr, hu, hv]
            | false =>
              have hle2 : hornerFrom b 0 ds ≤ two63 - 1 := by simpa [L, hng] using hle
              have hr : i64Min ≤ ((hornerFrom b 0 ds : Nat) : Int) ∧ ((hornerFrom b 0 ds : Nat) : Int) ≤ i64Max := by
                unfold i64Min i64Max; unfold two63 at hle2; omega
              have hu : toU64 acc = hornerFrom b 0 ds := by
                rw [hacc]; exact toU64_natCast _ (by unfold two64; unfold two63 at hle2; omega)
              have hv : toI64 (hornerFrom b 0 ds) = ((hornerFrom b 0 ds : Nat) : Int) := by
                unfold toI64
                unfold two63 at hle2
                unfold two64 two63
                have e : hornerFrom b 0 ds % 18446744073709551616 = hornerFrom b 0 ds := Nat.mod_eq_of_lt (by omega)
                rw [e]
                have : hornerFrom b 0 ds < 9223372036854775808 := by omega
                simp [this]
              simp [hr, hu, hv]

theorem resolveBase_ne_zero (base : Int) (s : Bytes) : resolveBase base s ≠ 0 := by
  unfold resolveBase
  split
  · split
    · split <;> decide
    · decide
  · assumption

theorem resolveBase_lt (base : Int) (s : Bytes) (h : base < 2147483648) : resolveBase base s < 2147483648 := by
  unfold resolveBase
  split
  · split
    · split <;> decide
    · decide
  · assumption

theorem lexPrefix_base_lt (base : Int) (s : Bytes) (off : Nat) (h : base < 2147483648) : (lexPrefix base s off).1 < 2147483648 := by
  unfold lexPrefix
  split
  · split
    · split
      · simp
      · exact h
    · exact h
  · exact h

/-- **Refinement**: for every buffer, every C `int` base, sign setting and limit, `int64` returns what the
arbitrary-precision specification says — unless the accumulator is signed and the input is in the overflow zone. -/
theorem int64Core_eq (signed : Bool) (buf : Bytes) (base : Int) (hhi : base < 2147483648) (allowSign : Bool) (limit : Nat) :
    int64Core signed buf base allowSign limit =
      if signed && inUbZone buf base allowSign limit then .ub else specInt64 buf base allowSign limit := by
  unfold int64Core inUbZone specInt64
  by_cases h1 : (buf.isEmpty || limit == 0) = true
  · simp [h1]
  · simp only [h1, if_false]
    by_cases h2 : (allowSign && (lexSign allowSign (takeLim limit buf)).2.1.isEmpty) = true
    · simp [h2]
    · simp only [h2]
      by_cases h3 : (lexPrefix base (lexSign allowSign (takeLim limit buf)).2.1 (lexSign allowSign (takeLim limit buf)).2.2).2.1.isEmpty = true
      · simp [h3]
      · simp only [h3]
        exact int64Digits_eq signed _ _ (resolveBase_ne_zero _ _) (resolveBase_lt _ _ (lexPrefix_base_lt _ _ _ hhi)) _ _

/-! ### reading the specification: what `ok` and `fail` mean -/

theorem lexSign_spec (a : Bool) (r : Bytes) :
    ∃ sg, sg ++ (lexSign a r).2.1 = r ∧ (lexSign a r).2.2 = sg.length ∧
      ((sg = [] ∧ (lexSign a r).1 = false) ∨ (a = true ∧ sg = [45] ∧ (lexSign a r).1 = true) ∨
       (a = true ∧ sg = [43] ∧ (lexSign a r).1 = false)) := by
  unfold lexSign
  cases a with
  | false => exact ⟨[], by simp⟩
  | true =>
    cases r with
    | nil => exact ⟨[], by simp⟩
    | cons c r =>
      by_cases h1 : c = 45
      · subst h1; exact ⟨[45], by simp⟩
      · by_cases h2 : c = 43
        · subst h2; exact ⟨[43], by simp⟩
        · exact ⟨[], by simp [h1, h2]⟩

theorem lexPrefix_spec (base : Int) (s : Bytes) (off : Nat) :
    ∃ pre, pre ++ (lexPrefix base s off).2.1 = s ∧ (lexPrefix base s off).2.2 = off + pre.length ∧
      ((pre = [] ∧ (lexPrefix base s off).1 = base) ∨
       ((base = 0 ∨ base = 16) ∧ (pre = [48, 120] ∨ pre = [48, 88]) ∧ (lexPrefix base s off).1 = 16)) := by
  unfold lexPrefix
  by_cases hb : base = 0 ∨ base = 16
  · simp only [hb, if_true]
    match s with
    | [] => exact ⟨[], by simp⟩
    | [c] => exact ⟨[], by simp⟩
    | c :: x :: r =>
      by_cases hc : c = 48 ∧ (x = 120 ∨ x = 88)
      · obtain ⟨rfl, hx⟩ := hc
        rcases hx with rfl | rfl
        · exact ⟨[48, 120], by simp [hb]⟩
        · exact ⟨[48, 88], by simp [hb]⟩
      · exact ⟨[], by simp [hc]⟩
  · exact ⟨[], by simp [hb]⟩

theorem takeWhile_decomp {α} (p : α → Bool) (s : List α) :
    ∃ ds rest, ds ++ rest = s ∧ ds = s.takeWhile p ∧ (∀ c ∈ ds, p c = true) ∧
      (rest = [] ∨ ∃ c r, rest = c :: r ∧ p c = false) := by
  refine ⟨s.takeWhile p, s.dropWhile p, List.takeWhile_append_dropWhile, rfl, ?_, ?_⟩
  · intro c hc
    induction s with
    | nil => simp at hc
    | cons a r ih =>
      by_cases ha : p a = true
      · simp only [List.takeWhile_cons, ha, if_true, List.mem_cons] at hc
        rcases hc with rfl | hc
        · exact ha
        · exact ih hc
      · simp [List.takeWhile_cons, ha] at hc
  · induction s with
    | nil => exact Or.inl rfl
    | cons a r ih =>
      by_cases ha : p a = true
      · simpa [List.dropWhile_cons, ha] using ih
      · right; exact ⟨a, r, by simp [List.dropWhile_cons, ha], by simpa using ha⟩

/-- the value the specification assigns to a digit run -/
def signedValue (neg : Bool) (base : Int) (ds : Bytes) : Int :=
  if neg then -((digitsValue base.toNat ds : Nat) : Int) else ((digitsValue base.toNat ds : Nat) : Int)

theorem specDigits_def (neg : Bool) (base : Int) (s : Bytes) (off : Nat) :
    specDigits neg base s off =
      if (s.takeWhile (validDigit base)).isEmpty then .fail
      else if i64Min ≤ signedValue neg base (s.takeWhile (validDigit base)) ∧
              signedValue neg base (s.takeWhile (validDigit base)) ≤ i64Max
        then .ok (signedValue neg base (s.takeWhile (validDigit base))) (off + (s.takeWhile (validDigit base)).length)
        else .fail := rfl

theorem specDigits_ok {neg : Bool} {base : Int} {s : Bytes} {off : Nat} {v : Int} {k : Nat}
    (h : specDigits neg base s off = .ok v k) :
    s.takeWhile (validDigit base) ≠ [] ∧ k = off + (s.takeWhile (validDigit base)).length ∧
    v = signedValue neg base (s.takeWhile (validDigit base)) ∧ i64Min ≤ v ∧ v ≤ i64Max := by
  rw [specDigits_def] at h
  by_cases he : (s.takeWhile (validDigit base)).isEmpty = true
  · simp [he] at h
  · simp only [he, Bool.false_eq_true, if_false] at h
    by_cases hr : i64Min ≤ signedValue neg base (s.takeWhile (validDigit base)) ∧
        signedValue neg base (s.takeWhile (validDigit base)) ≤ i64Max
    · simp only [hr, and_self, if_true] at h
      injection h with h1 h2
      have hne : s.takeWhile (validDigit base) ≠ [] := by
        intro e; rw [e] at he; simp at he
      exact ⟨hne, h2.symm, h1.symm, h1 ▸ hr.1, h1 ▸ hr.2⟩
    · simp [hr] at h

theorem specDigits_fail_iff (neg : Bool) (base : Int) (s : Bytes) (off : Nat) :
    specDigits neg base s off = .fail ↔
      (s.takeWhile (validDigit base) = [] ∨
       ¬ (i64Min ≤ signedValue neg base (s.takeWhile (validDigit base)) ∧
          signedValue neg base (s.takeWhile (validDigit base)) ≤ i64Max)) := by
  rw [specDigits_def]
  by_cases he : s.takeWhile (validDigit base) = []
  · simp [he]
  · have : (s.takeWhile (validDigit base)).isEmpty = false := by
      cases h : s.takeWhile (validDigit base) with
      | nil => exact absurd h he
      | cons _ _ => rfl
    simp only [this, Bool.false_eq_true, if_false, he, false_or]
    by_cases hr : i64Min ≤ signedValue neg base (s.takeWhile (validDigit base)) ∧
        signedValue neg base (s.takeWhile (validDigit base)) ≤ i64Max
    · simp [hr]
    · simp [hr]

theorem specDigits_ne_ub (neg : Bool) (base : Int) (s : Bytes) (off : Nat) : specDigits neg base s off ≠ .ub := by
  rw [specDigits_def]
  split
  · simp
  · split <;> simp

theorem specInt64_ne_ub (buf : Bytes) (base : Int) (allowSign : Bool) (limit : Nat) :
    specInt64 buf base allowSign limit ≠ .ub := by
  unfold specInt64
  simp only
  split
  · simp
  · split
    · simp
    · split
      · simp
      · exact specDigits_ne_ub _ _ _ _

end Tok
end SquidModel
