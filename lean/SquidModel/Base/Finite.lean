/-
Deciding statements over all 256 octets (or all n < N) by kernel evaluation, then lifting them to ∀.
-/
namespace SquidModel

def allBelow : Nat → (Nat → Bool) → Bool
  | 0, _ => true
  | n + 1, p => p n && allBelow n p

theorem allBelow_spec {n : Nat} {p : Nat → Bool} (h : allBelow n p = true) : ∀ k, k < n → p k = true := by
  induction n with
  | zero => intro k hk; omega
  | succ n ih =>
    simp only [allBelow, Bool.and_eq_true] at h
    intro k hk
    by_cases hkn : k = n
    · subst hkn; exact h.1
    · exact ih h.2 k (by omega)

/-- usage: `forall_octet p (by decide +kernel)` -/
theorem forall_octet (p : UInt8 → Bool) (h : allBelow 256 (fun n => p (UInt8.ofNat n)) = true) :
    ∀ b : UInt8, p b = true := by
  intro b
  have := allBelow_spec h b.toNat b.toNat_lt
  simpa using this

end SquidModel
