/-
Model of `Parser::Tokenizer` (src/parser/Tokenizer.{h,cc}), function by function, over `Bytes`.
Core-only. The integer parser `int64`/`udec64` is in `Base/TokInt.lean`; lemmas are in `Base/TokLemmas.lean`.

Conventions
* A tokenizer is its unparsed buffer `buf_` and the counter `parsed_`.
* Methods that return `false` in C++ return `none` here and the caller keeps the old tokenizer
  ("Methods returning false have no side-effects"; `token()` restores `*this = saved` explicitly).
* `SBuf::npos` (0xffffffff) is an ordinary `Nat`; a *limit* argument equal to `npos` means "no limit"
  (`takeLim`/`dropLim`), exactly as `SBuf::substr(0, npos)` and `SBuf::consume(npos)` behave.
* Positions returned by the `find*` searches are `Option Nat` (`none` = `npos` = not found). They are always
  smaller than the buffer length, which `SBuf` keeps ≤ `maxSize` < `npos`; so when such a position is passed
  to `SBuf::consume` its `n == npos` test is false: that call is modelled by `consumeN` (plain `take`/`drop`).
* The SBuf primitives (`substr`, `consume`, `findFirstOf`, `findFirstNotOf`, `findLastNotOf`, `startsWith`, `cmp`)
  are specified here as list functions; they are outside the anchored code and tied by the differential run.
-/
import SquidModel.Base.CharSet
namespace SquidModel

structure Tok where
  /-- `buf_`: yet unparsed input -/
  buf : Bytes
  /-- `parsed_`: bytes successfully parsed, including skipped -/
  parsed : Nat
  deriving DecidableEq, Repr

/-- errors thrown by the throwing wrappers -/
inductive TokErr where
  | insufficient   -- `InsufficientInput`
  | parse          -- `TextException("cannot parse …")`
  deriving DecidableEq, Repr

namespace Tok

/-- `SBuf::npos` -/
def npos : Nat := 0xffffffff
/-- `SBuf::maxSize` -/
def maxSize : Nat := 0xfffffff

def ofBytes (b : Bytes) : Tok := ⟨b, 0⟩

/-- `atEnd()` -/
def atEnd (t : Tok) : Bool := t.buf.isEmpty

/-! ### SBuf primitives -/

/-- `SBuf::substr(0, n)` / the bytes `SBuf::consume(n)` returns: everything when `n == npos`, else the first `min(n, length)` -/
def takeLim (n : Nat) (l : Bytes) : Bytes := if n = npos then l else l.take n
/-- what `SBuf::consume(n)` leaves -/
def dropLim (n : Nat) (l : Bytes) : Bytes := if n = npos then [] else l.drop n

/-- `SBuf::findFirstOf(set)`: index of the first member, `none` = npos -/
def findFirstOf (cs : CharSet) : Bytes → Option Nat
  | [] => none
  | b :: r => if cs.mem b then some 0 else (findFirstOf cs r).map (· + 1)

/-- `SBuf::findFirstNotOf(set)`: index of the first non-member, `none` = npos -/
def findFirstNotOf (cs : CharSet) : Bytes → Option Nat
  | [] => none
  | b :: r => if cs.mem b then (findFirstNotOf cs r).map (· + 1) else some 0

/-- `SBuf::findLastNotOf(set)`: index of the last non-member, `none` = npos -/
def findLastNotOf (cs : CharSet) : Bytes → Option Nat
  | [] => none
  | b :: r =>
    match findLastNotOf cs r with
    | some i => some (i + 1)
    | none => if cs.mem b then none else some 0

/-! ### protected helpers -/

/-- `consume(n)` with a limit-like `n` (may be npos) -/
def consume (t : Tok) (n : Nat) : Bytes × Tok :=
  let r := takeLim n t.buf
  (r, ⟨dropLim n t.buf, t.parsed + r.length⟩)

/-- `consume(n)` with a position `n` found by a search (never npos, see the header) -/
def consumeN (t : Tok) (n : Nat) : Bytes × Tok :=
  let r := t.buf.take n
  (r, ⟨t.buf.drop n, t.parsed + r.length⟩)

/-- `consumeTrailing(n)`: `parsed = (n == npos) ? length : n; result = buf_; buf_ = result.consume(length - parsed);
parsed_ += parsed`. Every caller passes `n ≤ length` (lemmas `*_count_le`), so the unsigned subtraction does not wrap. -/
def consumeTrailing (t : Tok) (n : Nat) : Bytes × Tok :=
  let p := if n = npos then t.buf.length else n
  let k := t.buf.length - p
  (t.buf.drop k, ⟨t.buf.take k, t.parsed + p⟩)

/-! ### public methods -/

/-- `skipAll(set)` → (number skipped, tokenizer) -/
def skipAll (t : Tok) (cs : CharSet) : Nat × Tok :=
  match findFirstNotOf cs t.buf with
  | some 0 => (0, t)
  | some n => let (r, t') := consumeN t n; (r.length, t')
  | none => let (r, t') := consume t npos; (r.length, t')

/-- `token(returnedToken, delimiters)` -/
def token (t : Tok) (delims : CharSet) : Option (Bytes × Tok) :=
  let t1 := (skipAll t delims).2
  match findFirstOf delims t1.buf with
  | none => none                      -- `*this = saved; return false`
  | some n =>
    let (tok, t2) := consumeN t1 n
    some (tok, (skipAll t2 delims).2)

/-- `prefix(returnedToken, tokenChars, limit)` -/
def prefixOf (t : Tok) (cs : CharSet) (limit : Nat := npos) : Option (Bytes × Tok) :=
  match findFirstNotOf cs (takeLim limit t.buf) with
  | some 0 => none
  | some n => some (consumeN t n)
  | none =>
    if t.atEnd || limit == 0 then none
    else some (consume t limit)        -- `prefixLen = limit`

/-- the reverse-iterator loop of `suffix()`: how many leading elements (of the reversed span) are members -/
def countWhile (cs : CharSet) : Bytes → Nat
  | [] => 0
  | b :: r => if cs.mem b then countWhile cs r + 1 else 0

/-- `suffix(returnedToken, tokenChars, limit)` -/
def suffixOf (t : Tok) (cs : CharSet) (limit : Nat := npos) : Option (Bytes × Tok) :=
  let span := if limit < t.buf.length then t.buf.drop (t.buf.length - limit) else t.buf
  let found := countWhile cs span.reverse
  if found = 0 then none else some (consumeTrailing t found)

/-- `skip(const SBuf &)`: note `return success(length)` is converted to bool, so an empty token "fails" -/
def skip (t : Tok) (tok : Bytes) : Option Tok :=
  if tok.isPrefixOf t.buf then
    let (r, t') := consumeN t tok.length
    if r.length = 0 then none else some t'
  else none

/-- `skip(char)` -/
def skipChar (t : Tok) (c : UInt8) : Option Tok :=
  match t.buf with
  | b :: _ => if b = c then some (consumeN t 1).2 else none
  | [] => none

/-- `skipOne(set)` -/
def skipOne (t : Tok) (cs : CharSet) : Option Tok :=
  match t.buf with
  | b :: _ => if cs.mem b then some (consumeN t 1).2 else none
  | [] => none

/-- `skipRequired(description, tokenToSkip)` -/
def skipRequired (t : Tok) (tok : Bytes) : Except TokErr Tok :=
  match skip t tok with
  | some t' => .ok t'
  | none =>
    if tok.isEmpty then .ok t
    else if t.buf.isPrefixOf tok then .error .insufficient
    else .error .parse

/-- `skipSuffix(tokenToSkip)` -/
def skipSuffix (t : Tok) (tok : Bytes) : Option Tok :=
  if t.buf.length < tok.length then none else
  let offset := if tok.length < t.buf.length then t.buf.length - tok.length else 0
  if t.buf.drop offset = tok then
    let (r, t') := consumeTrailing t tok.length
    if r.length = 0 then none else some t'
  else none

/-- `skipOneTrailing(set)` -/
def skipOneTrailing (t : Tok) (cs : CharSet) : Option Tok :=
  match t.buf.getLast? with
  | some b => if cs.mem b then some (consumeTrailing t 1).2 else none
  | none => none

/-- `skipAllTrailing(set)` → (number removed, tokenizer) -/
def skipAllTrailing (t : Tok) (cs : CharSet) : Nat × Tok :=
  let prefixLen := match findLastNotOf cs t.buf with
    | none => 0
    | some e => e + 1
  let suffixLen := t.buf.length - prefixLen
  if suffixLen = 0 then (0, t)
  else let (r, t') := consumeTrailing t suffixLen; (r.length, t')

/-- throwing `prefix(description, tokenChars, limit)` -/
def prefixThrow (t : Tok) (cs : CharSet) (limit : Nat := npos) : Except TokErr (Bytes × Tok) :=
  if t.atEnd then .error .insufficient else
  match prefixOf t cs limit with
  | none => .error .parse
  | some (r, t') => if t'.atEnd then .error .insufficient else .ok (r, t')

end Tok
end SquidModel
