/-
Byte strings as lists of `UInt8`, with the hex token form used by the line protocol.
Core-only (no Mathlib) so that the driver executable links.
-/
namespace SquidModel

abbrev Bytes := List UInt8

namespace Bytes

def hexDigit (n : Nat) : Char :=
  if n < 10 then Char.ofNat (48 + n) else Char.ofNat (87 + n)

/-- hex token; `-` stands for the empty string so that a token is never empty -/
def toHex (b : Bytes) : String :=
  if b.isEmpty then "-" else
  String.ofList (b.flatMap fun x => [hexDigit (x.toNat / 16), hexDigit (x.toNat % 16)])

def hexVal (c : Char) : Option Nat :=
  if '0' ≤ c ∧ c ≤ '9' then some (c.toNat - 48)
  else if 'a' ≤ c ∧ c ≤ 'f' then some (c.toNat - 87)
  else if 'A' ≤ c ∧ c ≤ 'F' then some (c.toNat - 55)
  else none

def ofHexChars : List Char → Option Bytes
  | [] => some []
  | [_] => none
  | a :: b :: rest =>
    match hexVal a, hexVal b, ofHexChars rest with
    | some x, some y, some r => some (UInt8.ofNat (x * 16 + y) :: r)
    | _, _, _ => none

def ofHex (s : String) : Option Bytes :=
  if s == "-" then some [] else ofHexChars s.toList

def ofString (s : String) : Bytes := s.toUTF8.toList

end Bytes
end SquidModel
