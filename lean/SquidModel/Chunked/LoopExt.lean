/-
The decoder loop with unlimited payload space and its behaviour under input extension:
whatever a `parse()` call did on a buffer, the call on the extended buffer first does the same and
then resumes from the configuration the shorter call stopped in.
-/
import SquidModel.Chunked.LoopU

namespace SquidModel.Chunked
open SquidModel.Gen

def Ctl.andThen (x : Ctl) (k : Cfg → Iter) : Iter :=
  match x with
  | .next c => k c
  | .retFalse c => .ret false c
  | .threw e o => .threw e o

def iter3 (c : Cfg) : Iter := (phaseMime c).andThen szCheck
def iter2 (c : Cfg) : Iter := (phaseChunkU c).andThen iter3
/-- `iteration` with unlimited payload space -/
def iterU (relaxed : Bool) (c : Cfg) : Iter := (phaseExt relaxed c).andThen iter2

def parseLoopU (relaxed : Bool) : Nat → Cfg → Outcome
  | 0, c => .threw .fuel c.out
  | f + 1, c =>
    match iterU relaxed c with
    | .again c' => parseLoopU relaxed f c'
    | .ret d c' => .ret d c'
    | .threw r o => .threw r o

theorem iter2_of_ne {c : Cfg} (h : c.st.stage ≠ .chunk) : iter2 c = iter3 c := by
  simp [iter2, phaseChunkU_of_ne h, Ctl.andThen]

theorem iterU_of_ne {relaxed : Bool} {c : Cfg} (h : c.st.stage ≠ .ext) : iterU relaxed c = iter2 c := by
  simp [iterU, phaseExt_of_ne h, Ctl.andThen]

/-- how the result `y` on the extended buffer relates to the result `x` on the buffer of length `len` -/
def ExtSpec (len : Nat) (m : Bytes) (top : Cfg → Iter) : Iter → Iter → Prop
  | .again c', y => y = .again (c'.ext m) ∧ c'.buf.length < len
  | .threw e o, y => y = .threw e o
  | .ret true c', y => y = .ret true (c'.ext m)
  | .ret false c', y =>
    if c'.st.stage = .done then ∃ c'', y = .ret false c'' ∧ c''.st.stage = .done ∧ c''.out = c'.out
    else c'.buf.length ≤ len ∧ (y = top (c'.ext m) ∨ (ChunkedSets.extCommit = true ∧ ∃ o, y = .threw .extCrlf o))

theorem ExtSpec.mono {len len' : Nat} {m : Bytes} {top : Cfg → Iter} {x y : Iter} (h : ExtSpec len m top x y) (hl : len ≤ len') :
    ExtSpec len' m top x y := by
  cases x with
  | again c' => exact ⟨h.1, Nat.lt_of_lt_of_le h.2 hl⟩
  | threw e o => exact h
  | ret d c' =>
    cases d with
    | true => exact h
    | false =>
      simp only [ExtSpec] at h ⊢
      split
      · rename_i hd; simpa [hd] using h
      · rename_i hd
        simp only [hd, if_false] at h
        exact ⟨Nat.le_trans h.1 hl, h.2⟩

theorem iter3_ext (relaxed : Bool) (c : Cfg) (m : Bytes) (h1 : c.st.stage ≠ .ext) (h2 : c.st.stage ≠ .chunk) :
    ExtSpec c.buf.length m (iterU relaxed) (iter3 c) (iter3 (c.ext m)) := by
  have htop : iterU relaxed (c.ext m) = iter3 (c.ext m) := by
    rw [iterU_of_ne (by simpa using h1), iter2_of_ne (by simpa using h2)]
  by_cases hm : c.st.stage = .mime
  · obtain ⟨a1, a2, a3, a4⟩ := phaseMime_ext (c := c) m hm
    unfold iter3
    cases hp : phaseMime c with
    | threw e o => exact absurd hp (a1 e o)
    | next c' =>
      obtain ⟨b1, b2⟩ := a2 c' hp
      have hne : c'.st.stage ≠ .sz := by rw [b2]; simp
      have hne' : (c'.ext m).st.stage ≠ .sz := hne
      rw [b1]
      simp only [Ctl.andThen, szCheck_of_ne hne, szCheck_of_ne hne', Cfg.ext_st, b2]
      simp [ExtSpec]
    | retFalse c' =>
      simp only [Ctl.andThen]
      by_cases hd : c'.st.stage = .done
      · obtain ⟨c'', e1, e2, e3⟩ := a3 c' hp hd
        rw [e1]
        simp only [ExtSpec, hd, if_true, Ctl.andThen]
        exact ⟨c'', rfl, e2, e3⟩
      · have := a4 c' hp hd
        subst this
        simp only [ExtSpec, hd, if_false]
        refine ⟨Nat.le_refl _, Or.inl ?_⟩
        rw [htop]; rfl
  · have hmm : (c.ext m).st.stage ≠ .mime := hm
    unfold iter3
    rw [phaseMime_of_ne hm, phaseMime_of_ne hmm]
    simp only [Ctl.andThen]
    by_cases hz : c.st.stage = .sz
    · obtain ⟨a1, a2, a3⟩ := szCheck_ext (c := c) m hz
      cases hp : szCheck c with
      | threw e o => simp only [ExtSpec]; exact a1 e o hp
      | again c' => simp only [ExtSpec]; exact a2 c' hp
      | ret d c' =>
        obtain ⟨rfl, rfl⟩ := a3 d c' hp
        have hd : c'.st.stage ≠ .done := by rw [hz]; simp
        simp only [ExtSpec, hd, if_false]
        refine ⟨Nat.le_refl _, Or.inl ?_⟩
        rw [htop]; unfold iter3; rw [phaseMime_of_ne hmm]; rfl
    · have hzz : (c.ext m).st.stage ≠ .sz := hz
      rw [szCheck_of_ne hz, szCheck_of_ne hzz]
      by_cases hd : c.st.stage = .done
      · simp [ExtSpec, hd]
      · simp only [hd, decide_false, ExtSpec, if_false, Cfg.ext_st]
        refine ⟨Nat.le_refl _, Or.inl ?_⟩
        rw [htop]; unfold iter3; rw [phaseMime_of_ne hmm]; simp only [Ctl.andThen]; rw [szCheck_of_ne hzz]; simp [hd]

theorem iter2_ext (relaxed : Bool) (c : Cfg) (m : Bytes) (h1 : c.st.stage ≠ .ext) :
    ExtSpec c.buf.length m (iterU relaxed) (iter2 c) (iter2 (c.ext m)) := by
  by_cases hc : c.st.stage = .chunk
  · have hcm : (c.ext m).st.stage = .chunk := hc
    obtain ⟨a1, a2, a3, a4⟩ := phaseChunkU_ext (c := c) m hc
    -- resuming from a configuration blocked inside the chunk
    have resume : ∀ c' : Cfg, c'.st.stage = Stage.chunk → phaseChunkU (c.ext m) = phaseChunkU (c'.ext m) →
        iter2 (c.ext m) = iterU relaxed (c'.ext m) := by
      intro c' hs' he
      rw [iterU_of_ne (c := c'.ext m) (by rw [Cfg.ext_st, hs']; simp)]
      unfold iter2; rw [he]
    unfold iter2
    cases hp : phaseChunkU c with
    | threw e o => rw [a1 e o hp]; simp [Ctl.andThen, ExtSpec]
    | retFalse c' =>
      obtain ⟨b1, b2, b3⟩ := a4 c' hp
      have hd : c'.st.stage ≠ .done := by rw [b1]; simp
      simp only [Ctl.andThen, ExtSpec, hd, if_false]
      refine ⟨b2, Or.inl ?_⟩
      have := resume c' b1 b3
      unfold iter2 at this
      exact this
    | next c' =>
      by_cases hz : c'.st.stage = .sz
      · obtain ⟨b1, b2⟩ := a2 c' hp hz
        rw [b1]
        simp only [Ctl.andThen]
        exact (iter3_ext relaxed c' m (by rw [hz]; simp) (by rw [hz]; simp)).mono b2
      · obtain ⟨b1, b2, b3⟩ := a3 c' hp hz
        have hd : c'.st.stage ≠ .done := by rw [b1]; simp
        have hi3 : iter3 c' = .ret false c' := by
          unfold iter3
          rw [phaseMime_of_ne (by rw [b1]; simp)]
          simp only [Ctl.andThen]
          rw [szCheck_of_ne hz]; simp [hd]
        simp only [Ctl.andThen, hi3, ExtSpec, hd, if_false]
        refine ⟨b2, Or.inl ?_⟩
        have := resume c' b1 b3
        unfold iter2 at this
        exact this
  · have hcm : (c.ext m).st.stage ≠ .chunk := hc
    rw [iter2_of_ne hc, iter2_of_ne hcm]
    exact iter3_ext relaxed c m h1 hc

theorem iterU_ext (relaxed : Bool) (c : Cfg) (m : Bytes) :
    ExtSpec c.buf.length m (iterU relaxed) (iterU relaxed c) (iterU relaxed (c.ext m)) := by
  by_cases he : c.st.stage = .ext
  · unfold iterU
    cases hp : phaseExt relaxed c with
    | threw e o => rw [phaseExt_threw_ext m hp]; simp [Ctl.andThen, ExtSpec]
    | retFalse c' =>
      obtain ⟨b1, b2, b3, b4, b5, b6⟩ := phaseExt_ret_ext m hp
      have hd : c'.st.stage ≠ .done := by rw [b1, b2]; simp
      simp only [Ctl.andThen, ExtSpec, hd, if_false]
      refine ⟨b5, ?_⟩
      rcases b6 with heq | hbad
      · left; rw [heq]
      · right; rw [hbad.2]; exact ⟨hbad.1, _, rfl⟩
    | next c' =>
      obtain ⟨b1, b2, b3, b4⟩ := phaseExt_next_ext m hp
      rw [b1]
      simp only [Ctl.andThen]
      have hne : c'.st.stage ≠ .ext := by
        unfold phaseExt at hp
        simp only [he, if_true] at hp
        cases hm : metaSuffix relaxed c.buf with
        | need x => simp [hm] at hp
        | bad e => simp [hm] at hp
        | ok rest =>
          simp only [hm, Ctl.next.injEq] at hp
          subst hp
          simp only
          split <;> simp
      exact (iter2_ext relaxed c' m hne).mono b2
  · have hem : (c.ext m).st.stage ≠ .ext := he
    rw [iterU_of_ne he, iterU_of_ne hem]
    exact iter2_ext relaxed c m he

/-! ### the loop -/

theorem Cfg.ext_nil (c : Cfg) : c.ext [] = c := by
  simp [Cfg.ext]

theorem iterU_again_length {relaxed : Bool} {c c' : Cfg} (h : iterU relaxed c = .again c') : c'.buf.length < c.buf.length := by
  have := iterU_ext relaxed c []
  rw [h] at this
  exact this.2

theorem parseLoopU_fuel {relaxed : Bool} : ∀ (f f' : Nat) (c : Cfg), c.buf.length < f → c.buf.length < f' →
    parseLoopU relaxed f c = parseLoopU relaxed f' c := by
  intro f
  induction f with
  | zero => intro f' c h; omega
  | succ f ih =>
    intro f' c h h'
    cases f' with
    | zero => omega
    | succ f' =>
      simp only [parseLoopU]
      cases hi : iterU relaxed c with
      | again c' =>
        have := iterU_again_length hi
        exact ih f' c' (by omega) (by omega)
      | ret d c' => rfl
      | threw e o => rfl

/-- how the outcome on the extended buffer relates to the outcome `x` on the buffer of length `len` -/
def LoopSpec (relaxed : Bool) (len : Nat) (m : Bytes) (F : Nat) : Outcome → Outcome → Prop
  | .threw e o, y => y = .threw e o
  | .ret true c', y => y = .ret true (c'.ext m)
  | .ret false c', y =>
    if c'.st.stage = .done then ∃ c'', y = .ret false c'' ∧ c''.st.stage = .done ∧ c''.out = c'.out
    else c'.buf.length ≤ len ∧ (y = parseLoopU relaxed F (c'.ext m) ∨ (ChunkedSets.extCommit = true ∧ ∃ o, y = .threw .extCrlf o))

theorem parseLoopU_ext (relaxed : Bool) (m : Bytes) : ∀ (f : Nat) (c : Cfg) (F : Nat), c.buf.length < f → (c.buf ++ m).length < F →
    LoopSpec relaxed c.buf.length m F (parseLoopU relaxed f c) (parseLoopU relaxed F (c.ext m)) := by
  intro f
  induction f with
  | zero => intro c F h; omega
  | succ f ih =>
    intro c F hf hF
    cases F with
    | zero => omega
    | succ F =>
      have hx := iterU_ext relaxed c m
      simp only [parseLoopU]
      cases hi : iterU relaxed c with
      | again c' =>
        rw [hi] at hx
        obtain ⟨h1, h2⟩ := hx
        rw [h1]
        simp only
        have hF' : (c'.buf ++ m).length < F := by simp at hF ⊢; omega
        have := ih c' F (by omega) hF'
        -- transfer the statement from (c', F) to (c, F+1)
        cases hr : parseLoopU relaxed f c' with
        | threw e o => rw [hr] at this; exact this
        | ret d c'' =>
          rw [hr] at this
          cases d with
          | true => exact this
          | false =>
            simp only [LoopSpec] at this ⊢
            by_cases hd : c''.st.stage = .done
            · simpa [hd] using this
            · simp only [hd, if_false] at this ⊢
              refine ⟨by omega, ?_⟩
              rcases this.2 with heq | hbad
              · left
                rw [heq]
                exact parseLoopU_fuel F (F + 1) (c''.ext m) (by simp at hF' ⊢; omega) (by simp at hF' ⊢; omega)
              · exact Or.inr hbad
      | threw e o =>
        rw [hi] at hx
        simp only [ExtSpec] at hx
        rw [hx]
        simp [LoopSpec]
      | ret d c' =>
        rw [hi] at hx
        cases d with
        | true =>
          simp only [ExtSpec] at hx
          rw [hx]; simp [LoopSpec]
        | false =>
          simp only [ExtSpec] at hx
          simp only [LoopSpec]
          by_cases hd : c'.st.stage = .done
          · simp only [hd, if_true] at hx ⊢
            obtain ⟨c'', e1, e2, e3⟩ := hx
            rw [e1]
            exact ⟨c'', rfl, e2, e3⟩
          · simp only [hd, if_false] at hx ⊢
            refine ⟨hx.1, ?_⟩
            rcases hx.2 with heq | ⟨hq, o, hbad⟩
            · left; rw [heq]; simp only [parseLoopU]
            · right; rw [hbad]; exact ⟨hq, o, rfl⟩

end SquidModel.Chunked
