/-
Facts about the generated octet classes (re-decided by the kernel whenever the dump changes).
-/
import SquidModel.Base.Finite
import SquidModel.Chunked.Decoder

namespace SquidModel.Chunked
open SquidModel.Gen

/-- the octets `ParseStrictBws` skips are also skipped by `ParseBws` in either configuration -/
theorem strict_sub_wsp (relaxed : Bool) (b : UInt8) (h : ChunkedSets.bwsStrict.mem b = true) : (wsp relaxed).mem b = true := by
  have key := forall_octet (fun b => !ChunkedSets.bwsStrict.mem b || (ChunkedSets.bwsRelaxed.mem b && ChunkedSets.bwsPlain.mem b))
    (by decide +kernel) b
  simp only [h, Bool.not_true, Bool.false_or, Bool.and_eq_true] at key
  cases relaxed <;> simp [wsp, key.1, key.2]

theorem cr_not_strict : ChunkedSets.bwsStrict.mem 13 = false := by decide +kernel

end SquidModel.Chunked
