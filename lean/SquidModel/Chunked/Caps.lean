/-
Payload space: the bounded `parse()` of the model against the loop with unlimited space.
A call that stops for lack of space stops in a configuration from which the unlimited loop goes on
to the same result; output accumulated before a call is just a prefix of the output.
-/
import SquidModel.Chunked.LoopExt

namespace SquidModel.Chunked
open SquidModel.Gen

/-- prefix the output with `o`, and (when `z`) forget the space -/
def Cfg.fr (c : Cfg) (o : Bytes) (z : Bool) : Cfg :=
  { c with out := o ++ c.out, space := if z then 0 else c.space }

@[simp] theorem Cfg.fr_st (c : Cfg) (o : Bytes) (z : Bool) : (c.fr o z).st = c.st := rfl
@[simp] theorem Cfg.fr_buf (c : Cfg) (o : Bytes) (z : Bool) : (c.fr o z).buf = c.buf := rfl
@[simp] theorem Cfg.fr_out (c : Cfg) (o : Bytes) (z : Bool) : (c.fr o z).out = o ++ c.out := rfl

def Ctl.fr (x : Ctl) (o : Bytes) (z : Bool) : Ctl :=
  match x with
  | .next c => .next (c.fr o z)
  | .retFalse c => .retFalse (c.fr o z)
  | .threw e out => .threw e (o ++ out)

def Iter.fr (x : Iter) (o : Bytes) (z : Bool) : Iter :=
  match x with
  | .again c => .again (c.fr o z)
  | .ret d c => .ret d (c.fr o z)
  | .threw e out => .threw e (o ++ out)

def Outcome.fr (x : Outcome) (o : Bytes) (z : Bool) : Outcome :=
  match x with
  | .ret d c => .ret d (c.fr o z)
  | .threw e out => .threw e (o ++ out)

theorem phaseExt_fr (relaxed : Bool) (c : Cfg) (o : Bytes) (z : Bool) :
    phaseExt relaxed (c.fr o z) = (phaseExt relaxed c).fr o z := by
  unfold phaseExt
  simp only [Cfg.fr_st, Cfg.fr_buf]
  by_cases hs : c.st.stage = .ext
  · simp only [hs, if_true]
    cases metaSuffix relaxed c.buf <;> simp [Ctl.fr, Cfg.fr]
    split <;> simp_all
  · simp [hs, Ctl.fr]

theorem chunkEnd_fr (c : Cfg) (o : Bytes) (z : Bool) : chunkEnd (c.fr o z) = (chunkEnd c).fr o z := by
  unfold chunkEnd
  simp only [Cfg.fr_buf]
  cases skipCrlf .chunkCrlf c.buf <;> simp [Ctl.fr, Cfg.fr]

theorem phaseMime_fr (c : Cfg) (o : Bytes) (z : Bool) : phaseMime (c.fr o z) = (phaseMime c).fr o z := by
  unfold phaseMime
  simp only [Cfg.fr_st, Cfg.fr_buf]
  by_cases hs : c.st.stage = .mime
  · by_cases hn : headersEnd c.buf = 0
    · by_cases hb : c.buf.length ≥ ChunkedSets.trailerLimit <;> simp [hs, hn, hb, Ctl.fr, Cfg.fr]
    · by_cases hb : headersEnd c.buf ≥ ChunkedSets.trailerLimit <;> simp [hs, hn, hb, Ctl.fr, Cfg.fr]
  · simp [hs, Ctl.fr]

theorem szCheck_fr (c : Cfg) (o : Bytes) (z : Bool) : szCheck (c.fr o z) = (szCheck c).fr o z := by
  unfold szCheck
  simp only [Cfg.fr_st, Cfg.fr_buf, finished_eq]
  by_cases hs : c.st.stage = .sz
  · simp only [hs, if_true]
    cases parseChunkSize c.buf <;> simp [Iter.fr, Cfg.fr]
  · simp only [hs, if_false, Iter.fr]; rfl

theorem chunkCopy_fr (c : Cfg) (o : Bytes) (k : Nat) : chunkCopy (c.fr o true) k = (chunkCopy c k).fr o true := by
  simp [chunkCopy, Cfg.fr]

theorem chunkCopy_fr' (c : Cfg) (o : Bytes) (k : Nat) : chunkCopy (c.fr o false) k = (chunkCopy c k).fr o false := by
  simp [chunkCopy, Cfg.fr]

theorem phaseChunkU_fr (c : Cfg) (o : Bytes) (z : Bool) : phaseChunkU (c.fr o z) = (phaseChunkU c).fr o z := by
  have hcc : ∀ k, chunkCopy (c.fr o z) k = (chunkCopy c k).fr o z := by
    intro k; cases z
    · exact chunkCopy_fr' c o k
    · exact chunkCopy_fr c o k
  unfold phaseChunkU
  simp only [Cfg.fr_st, Cfg.fr_buf]
  by_cases hs : c.st.stage = .chunk
  · simp only [hs, if_true]
    by_cases hl : c.st.left > 0
    · simp only [hl, if_true, hcc, Cfg.fr_st]
      by_cases hz : (chunkCopy c (min c.st.left c.buf.length)).st.left = 0
      · simp only [hz, if_true]; exact chunkEnd_fr _ o z
      · simp [hz, Ctl.fr]
    · simp only [hl, if_false, Cfg.fr_st]
      by_cases hz : c.st.left = 0
      · simp only [hz, if_true]; exact chunkEnd_fr _ o z
      · simp [hz, Ctl.fr]
  · simp [hs, Ctl.fr]

theorem andThen_fr (x : Ctl) (k : Cfg → Iter) (o : Bytes) (z : Bool) (hk : ∀ c, k (c.fr o z) = (k c).fr o z) :
    (x.fr o z).andThen k = (x.andThen k).fr o z := by
  cases x <;> simp [Ctl.fr, Ctl.andThen, Iter.fr, hk]

theorem iter3_fr (c : Cfg) (o : Bytes) (z : Bool) : iter3 (c.fr o z) = (iter3 c).fr o z := by
  unfold iter3; rw [phaseMime_fr]; exact andThen_fr _ _ o z (fun c => szCheck_fr c o z)

theorem iter2_fr (c : Cfg) (o : Bytes) (z : Bool) : iter2 (c.fr o z) = (iter2 c).fr o z := by
  unfold iter2; rw [phaseChunkU_fr]; exact andThen_fr _ _ o z (fun c => iter3_fr c o z)

theorem iterU_fr (relaxed : Bool) (c : Cfg) (o : Bytes) (z : Bool) : iterU relaxed (c.fr o z) = (iterU relaxed c).fr o z := by
  unfold iterU; rw [phaseExt_fr]; exact andThen_fr _ _ o z (fun c => iter2_fr c o z)

theorem parseLoopU_fr (relaxed : Bool) (f : Nat) (c : Cfg) (o : Bytes) (z : Bool) :
    parseLoopU relaxed f (c.fr o z) = (parseLoopU relaxed f c).fr o z := by
  induction f generalizing c with
  | zero => simp [parseLoopU, Outcome.fr]
  | succ f ih =>
    simp only [parseLoopU, iterU_fr]
    cases iterU relaxed c with
    | again c' => simp only [Iter.fr]; exact ih c'
    | ret d c' => simp [Iter.fr, Outcome.fr]
    | threw e o' => simp [Iter.fr, Outcome.fr]

/-! ### bounded space against unlimited space -/

/-- forget the space -/
abbrev Cfg.z (c : Cfg) : Cfg := c.fr [] true

theorem Cfg.z_eq (c : Cfg) : c.z = { c with space := 0 } := by
  simp [Cfg.z, Cfg.fr]

theorem iteration_eq (relaxed : Bool) (c : Cfg) :
    iteration relaxed c = (phaseExt relaxed c).andThen (fun c1 => (phaseChunk c1).andThen iter3) := by
  unfold iteration Ctl.andThen iter3 Ctl.andThen
  cases phaseExt relaxed c with
  | threw e o => rfl
  | retFalse c' => rfl
  | next c1 =>
    simp only
    cases phaseChunk c1 with
    | threw e o => rfl
    | retFalse c' => rfl
    | next c2 =>
      simp only
      cases phaseMime c2 <;> rfl

/-- `parseChunkBody` with bounded space either does what the unbounded one does, or copies exactly
`space` octets and stops inside the chunk — from where the unbounded one continues to the same result. -/
theorem phaseChunk_vs_U (c : Cfg) :
    (phaseChunk c).fr [] true = phaseChunkU c.z ∨
    (c.st.stage = .chunk ∧ c.space < c.buf.length ∧ c.space < c.st.left ∧
      phaseChunk c = .next (chunkCopy c c.space) ∧ phaseChunkU c.z = phaseChunkU (chunkCopy c c.space).z) := by
  by_cases hs : c.st.stage = .chunk
  · by_cases hl : c.st.left > 0
    · by_cases hsp : min c.st.left c.buf.length ≤ c.space
      · left
        have hm : min (min c.st.left c.buf.length) c.space = min c.st.left c.buf.length := Nat.min_eq_left hsp
        have : phaseChunk c = phaseChunkU c := by
          unfold phaseChunk phaseChunkU
          simp only [hs, if_true, hl, hm]
        rw [this]; exact (phaseChunkU_fr c [] true).symm
      · right
        have h1 : c.space < c.buf.length := by omega
        have h2 : c.space < c.st.left := by omega
        have hm : min (min c.st.left c.buf.length) c.space = c.space := by omega
        have hnz : (chunkCopy c c.space).st.left ≠ 0 := by simp [chunkCopy]; omega
        refine ⟨hs, h1, h2, ?_, ?_⟩
        · unfold phaseChunk
          simp only [hs, if_true, hl, hm, hnz, if_false]
        · have hl' : (chunkCopy c c.space).z.st.left > 0 := by simp [chunkCopy]; omega
          have hst : (chunkCopy c c.space).z.st.stage = Stage.chunk := by simp [chunkCopy, hs]
          have hcc : chunkCopy c.z (min c.z.st.left c.z.buf.length) =
              chunkCopy (chunkCopy c c.space).z (min (chunkCopy c c.space).z.st.left (chunkCopy c c.space).z.buf.length) := by
            simp only [chunkCopy, Cfg.z, Cfg.fr, List.nil_append, if_true, List.length_drop, Cfg.mk.injEq, St.mk.injEq, true_and]
            have e1 : min c.st.left c.buf.length = c.space + min (c.st.left - c.space) (c.buf.length - c.space) := by omega
            rw [e1]
            refine ⟨by omega, ?_, ?_, by omega⟩
            · rw [List.drop_drop]
            · rw [List.append_assoc, List.take_add]
          unfold phaseChunkU
          simp only [show c.z.st.stage = Stage.chunk from hs, hst, if_true, show c.z.st.left > 0 from hl, hl']
          rw [hcc]
    · left
      have : phaseChunk c = phaseChunkU c := by
        unfold phaseChunk phaseChunkU
        simp only [hs, if_true, hl, if_false]
      rw [this]; exact (phaseChunkU_fr c [] true).symm
  · left
    have : phaseChunk c = phaseChunkU c := by
      unfold phaseChunk phaseChunkU
      simp only [hs, if_false]
    rw [this]; exact (phaseChunkU_fr c [] true).symm

theorem andThen_fr' (x : Ctl) (k : Cfg → Iter) (o : Bytes) (z : Bool) (hk : ∀ c, k (c.fr o z) = (k c).fr o z) :
    (x.andThen k).fr o z = (x.fr o z).andThen k := (andThen_fr x k o z hk).symm

/-- a configuration in which the caller offers a fresh payload buffer -/
def Cfg.wantsSpace (c : Cfg) : Prop := c.st.stage = .chunk ∧ c.space = 0 ∧ c.buf ≠ []

theorem iteration_vs_U (relaxed : Bool) (c : Cfg) :
    (iteration relaxed c).fr [] true = iterU relaxed c.z ∨
    (∃ c', iteration relaxed c = .ret false c' ∧ c'.wantsSpace ∧ 0 < c'.st.left ∧ c'.buf.length ≤ c.buf.length ∧
        iterU relaxed c.z = iterU relaxed c'.z) := by
  rw [iteration_eq]
  unfold iterU
  rw [phaseExt_fr]
  cases hp : phaseExt relaxed c with
  | threw e o => left; simp [Ctl.andThen, Ctl.fr, Iter.fr]
  | retFalse c' => left; simp [Ctl.andThen, Ctl.fr, Iter.fr]
  | next c1 =>
    have hlen : c1.buf.length ≤ c.buf.length := (phaseExt_next_ext [] hp).2.1
    simp only [Ctl.andThen, Ctl.fr]
    rcases phaseChunk_vs_U c1 with h | ⟨hs, h1, h2, h3, h4⟩
    · left
      have : ((phaseChunk c1).andThen iter3).fr [] true = ((phaseChunk c1).fr [] true).andThen iter3 :=
        andThen_fr' _ _ [] true (fun c => iter3_fr c [] true)
      show ((phaseChunk c1).andThen iter3).fr [] true = iter2 c1.z
      rw [this, h]; rfl
    · right
      have hst : (chunkCopy c1 c1.space).st.stage = Stage.chunk := by simp [chunkCopy, hs]
      have hi3 : iter3 (chunkCopy c1 c1.space) = .ret false (chunkCopy c1 c1.space) := by
        unfold iter3
        rw [phaseMime_of_ne (by rw [hst]; simp)]
        simp only [Ctl.andThen]
        rw [szCheck_of_ne (by rw [hst]; simp)]; simp [hst]
      refine ⟨chunkCopy c1 c1.space, ?_, ⟨hst, by simp [chunkCopy], ?_⟩, by simp [chunkCopy]; omega, by simp [chunkCopy]; omega, ?_⟩
      · show (phaseChunk c1).andThen iter3 = _
        rw [h3]; simp only [Ctl.andThen, hi3]
      · intro hnil
        have : (List.drop c1.space c1.buf).length = 0 := by simp [chunkCopy] at hnil; simp [hnil]
        simp at this; omega
      · show iter2 c1.z = _
        have hne : (chunkCopy c1 c1.space).z.st.stage ≠ Stage.ext := by simp [hst]
        rw [phaseExt_of_ne hne]
        simp only [Ctl.andThen]
        unfold iter2
        rw [h4]

/-- `c'` is reachable from `c`: the buffer shrinks at least as much as the space -/
def Shr (c c' : Cfg) : Prop := c'.buf.length + (c.space - c'.space) ≤ c.buf.length ∧ c'.space ≤ c.space

theorem Shr.refl (c : Cfg) : Shr c c := by simp [Shr]

theorem Shr.trans {a b c : Cfg} (h1 : Shr a b) (h2 : Shr b c) : Shr a c := by
  unfold Shr at *; omega

theorem phaseExt_shr {relaxed : Bool} {c : Cfg} :
    (∀ c', phaseExt relaxed c = .next c' → Shr c c') ∧ (∀ c', phaseExt relaxed c = .retFalse c' → Shr c c') := by
  constructor
  · intro c' h
    obtain ⟨_, h2, _, h4⟩ := phaseExt_next_ext [] h
    unfold Shr; omega
  · intro c' h
    obtain ⟨_, _, _, h4, h5, _⟩ := phaseExt_ret_ext [] h
    unfold Shr; omega

theorem chunkEnd_shr {c : Cfg} :
    (∀ c', chunkEnd c = .next c' → Shr c c') ∧ (∀ c', chunkEnd c = .retFalse c' → Shr c c') := by
  unfold chunkEnd
  cases h : skipCrlf .chunkCrlf c.buf with
  | ok rest =>
    have := skipCrlf_ok_length h
    refine ⟨?_, by simp⟩
    intro c' hc
    simp only [Ctl.next.injEq] at hc
    subst hc
    simp [Shr]; omega
  | need => refine ⟨by simp, ?_⟩; intro c' hc; simp only [Ctl.retFalse.injEq] at hc; subst hc; exact Shr.refl _
  | bad e => simp

theorem chunkCopy_shr (c : Cfg) (k : Nat) (h1 : k ≤ c.space) (h2 : k ≤ c.buf.length) : Shr c (chunkCopy c k) := by
  simp [Shr, chunkCopy]; omega

theorem phaseChunk_shr {c : Cfg} :
    (∀ c', phaseChunk c = .next c' → Shr c c') ∧ (∀ c', phaseChunk c = .retFalse c' → Shr c c') := by
  unfold phaseChunk
  by_cases hs : c.st.stage = .chunk
  · simp only [hs, if_true]
    by_cases hl : c.st.left > 0
    · simp only [hl, if_true]
      have hk := chunkCopy_shr c (min (min c.st.left c.buf.length) c.space) (by omega) (by omega)
      obtain ⟨e1, e2⟩ := chunkEnd_shr (c := chunkCopy c (min (min c.st.left c.buf.length) c.space))
      split
      · exact ⟨fun c' h => hk.trans (e1 c' h), fun c' h => hk.trans (e2 c' h)⟩
      · refine ⟨?_, by simp⟩
        intro c' h; simp only [Ctl.next.injEq] at h; subst h; exact hk
    · simp only [hl, if_false]
      obtain ⟨e1, e2⟩ := chunkEnd_shr (c := c)
      split
      · exact ⟨e1, e2⟩
      · refine ⟨?_, by simp⟩
        intro c' h; simp only [Ctl.next.injEq] at h; subst h; exact Shr.refl _
  · simp only [hs, if_false]
    refine ⟨?_, by simp⟩
    intro c' h; simp only [Ctl.next.injEq] at h; subst h; exact Shr.refl _

theorem phaseMime_shr {c : Cfg} :
    (∀ c', phaseMime c = .next c' → Shr c c') ∧ (∀ c', phaseMime c = .retFalse c' → Shr c c') := by
  unfold phaseMime
  by_cases hs : c.st.stage = .mime
  · by_cases hn : headersEnd c.buf = 0
    · by_cases hb : c.buf.length ≥ ChunkedSets.trailerLimit
      · simp only [hs, hn, hb, if_true, ne_eq, not_true, if_false]
        refine ⟨by simp, ?_⟩
        intro c' h; simp only [Ctl.retFalse.injEq] at h; subst h; simp [Shr]
      · simp only [hs, hn, hb, if_true, ne_eq, not_true, if_false]
        refine ⟨by simp, ?_⟩
        intro c' h; simp only [Ctl.retFalse.injEq] at h; subst h; exact Shr.refl _
    · by_cases hb : headersEnd c.buf ≥ ChunkedSets.trailerLimit
      · simp only [hs, hn, hb, if_true, ne_eq, not_false_eq_true]
        refine ⟨by simp, ?_⟩
        intro c' h; simp only [Ctl.retFalse.injEq] at h; subst h; simp [Shr]
      · simp only [hs, hn, hb, if_true, ne_eq, not_false_eq_true, if_false]
        refine ⟨?_, by simp⟩
        intro c' h; simp only [Ctl.next.injEq] at h; subst h; simp [Shr]
  · simp only [hs, if_false]
    refine ⟨?_, by simp⟩
    intro c' h; simp only [Ctl.next.injEq] at h; subst h; exact Shr.refl _

theorem szCheck_shr {c : Cfg} :
    (∀ c', szCheck c = .again c' → Shr c c' ∧ c'.buf.length < c.buf.length) ∧ (∀ d c', szCheck c = .ret d c' → c' = c) := by
  unfold szCheck
  by_cases hs : c.st.stage = .sz
  · simp only [hs, if_true]
    cases h : parseChunkSize c.buf with
    | ok size rest =>
      have := parseChunkSize_ok_length h
      refine ⟨?_, by simp⟩
      intro c' hc; simp only [Iter.again.injEq] at hc; subst hc
      simp [Shr]; omega
    | needMore => refine ⟨by simp, ?_⟩; intro d c' hc; simp only [Iter.ret.injEq] at hc; exact hc.2.symm
    | bad e => simp
  · simp only [hs, if_false]
    refine ⟨by simp, ?_⟩; intro d c' hc; simp only [Iter.ret.injEq] at hc; exact hc.2.symm

theorem iteration_space {relaxed : Bool} {c : Cfg} :
    (∀ c', iteration relaxed c = .again c' → Shr c c' ∧ c'.buf.length < c.buf.length) ∧
    (∀ d c', iteration relaxed c = .ret d c' → Shr c c') := by
  unfold iteration
  obtain ⟨a1, a2⟩ := phaseExt_shr (relaxed := relaxed) (c := c)
  cases h1 : phaseExt relaxed c with
  | threw e o => simp
  | retFalse c1 =>
    refine ⟨by simp, ?_⟩
    intro d c' hc; simp only [Iter.ret.injEq] at hc; rw [← hc.2]; exact a2 c1 h1
  | next c1 =>
    have s1 := a1 c1 h1
    simp only
    obtain ⟨b1, b2⟩ := phaseChunk_shr (c := c1)
    cases h2 : phaseChunk c1 with
    | threw e o => simp
    | retFalse c2 =>
      refine ⟨by simp, ?_⟩
      intro d c' hc; simp only [Iter.ret.injEq] at hc; rw [← hc.2]; exact s1.trans (b2 c2 h2)
    | next c2 =>
      have s2 := s1.trans (b1 c2 h2)
      simp only
      obtain ⟨d1, d2⟩ := phaseMime_shr (c := c2)
      cases h3 : phaseMime c2 with
      | threw e o => simp
      | retFalse c3 =>
        refine ⟨by simp, ?_⟩
        intro d c' hc; simp only [Iter.ret.injEq] at hc; rw [← hc.2]; exact s2.trans (d2 c3 h3)
      | next c3 =>
        have s3 := s2.trans (d1 c3 h3)
        simp only
        obtain ⟨e1, e2⟩ := szCheck_shr (c := c3)
        refine ⟨?_, ?_⟩
        · intro c' hc
          have := e1 c' hc
          refine ⟨s3.trans this.1, ?_⟩
          have := this.2
          unfold Shr at s3; omega
        · intro d c' hc
          have := e2 d c' hc
          subst this; exact s3

theorem parseLoop_shr {relaxed : Bool} : ∀ (f : Nat) (c : Cfg) (d : Bool) (c' : Cfg),
    parseLoop relaxed f c = .ret d c' → Shr c c' := by
  intro f
  induction f with
  | zero => intro c d c' h; simp [parseLoop] at h
  | succ f ih =>
    intro c d c' h
    simp only [parseLoop] at h
    obtain ⟨a1, a2⟩ := iteration_space (relaxed := relaxed) (c := c)
    cases hi : iteration relaxed c with
    | again c1 => rw [hi] at h; exact (a1 c1 hi).1.trans (ih c1 d c' h)
    | ret d1 c1 => rw [hi] at h; simp only [Outcome.ret.injEq] at h; rw [← h.2]; exact a2 d1 c1 hi
    | threw e o => rw [hi] at h; simp at h

theorem parseLoop_vs_U (relaxed : Bool) : ∀ (f : Nat) (c : Cfg), c.buf.length < f →
    (parseLoop relaxed f c).fr [] true = parseLoopU relaxed f c.z ∨
    (∃ c', parseLoop relaxed f c = .ret false c' ∧ c'.wantsSpace ∧ c'.buf.length ≤ c.buf.length ∧
        ∀ F, c'.buf.length < F → parseLoopU relaxed f c.z = parseLoopU relaxed F c'.z) := by
  intro f
  induction f with
  | zero => intro c h; omega
  | succ f ih =>
    intro c hf
    simp only [parseLoop, parseLoopU]
    rcases iteration_vs_U relaxed c with h | ⟨c', h1, h2, _, h4, h5⟩
    · rw [← h]
      cases hi : iteration relaxed c with
      | again c1 =>
        have hl := (iteration_space.1 c1 hi).2
        simp only [Iter.fr]
        rcases ih c1 (by omega) with h' | ⟨c', g1, g2, g3, g4⟩
        · exact Or.inl h'
        · exact Or.inr ⟨c', g1, g2, by omega, g4⟩
      | ret d c1 => left; simp [Iter.fr, Outcome.fr]
      | threw e o => left; simp [Iter.fr, Outcome.fr]
    · right
      refine ⟨c', by rw [h1], h2, h4, ?_⟩
      intro F hF
      rw [h5]
      have := parseLoopU_fuel (relaxed := relaxed) (f + 1) F c'.z (by simp; omega) (by simpa using hF)
      simpa [parseLoopU] using this

/-- a call that stopped for more data stops in the same place when repeated -/
theorem parseLoopU_idem {relaxed : Bool} {f : Nat} {c c' : Cfg} (hf : c.buf.length < f)
    (h : parseLoopU relaxed f c = .ret false c') (hd : c'.st.stage ≠ .done) (F : Nat) (hF : c'.buf.length < F) :
    parseLoopU relaxed F c' = .ret false c' := by
  have hx := parseLoopU_ext relaxed [] f c (F + c.buf.length + 1) hf (by simp; omega)
  rw [h] at hx
  simp only [LoopSpec, hd, if_false, Cfg.ext_nil] at hx
  have hfu := parseLoopU_fuel (relaxed := relaxed) f (F + c.buf.length + 1) c hf (by omega)
  rw [parseLoopU_fuel F (F + c.buf.length + 1) c' hF (by omega)]
  rcases hx.2 with heq | ⟨_, o, hbad⟩
  · rw [← heq, ← hfu, h]
  · rw [← hfu, h] at hbad; simp at hbad

end SquidModel.Chunked
