/-
The `Parser::Tokenizer` operations used by the chunked decoder (src/parser/Tokenizer.cc) and the
HTTP/1 helpers built from them (src/http/one/Parser.cc `ParseBws_`, src/http/one/Tokenizer.cc
`tokenOrQuotedString`/`parseQuotedStringSuffix`, src/mime_header.cc `headersEnd`).

A tokenizer is modelled by the byte list it still holds. A parsing function either returns
(`ok rest`: the tokenizer now holds `rest`), throws `InsufficientInput` (`need`) or throws a
`TextException` (`bad class`). Octet classes and the chunk-size digit values come from
`Gen.ChunkedSets`, dumped from the running code.
-/
import SquidModel.Base.Bytes
import SquidModel.Base.CharSet
import SquidModel.Gen.ChunkedSets

namespace SquidModel.Chunked
open SquidModel.Gen

/-- the TextExceptions of the decoder, by throw site -/
inductive Rej
  | zeroX      -- "chunk starts with 0x"
  | negSize    -- "negative chunk size" (unreachable: int64() is called with allowSign=false)
  | size       -- "corrupted chunk size"
  | extCrlf    -- skipRequired("CRLF after [chunk-ext]")
  | extName    -- prefix("chunk-ext-name")
  | qpair      -- "invalid escaped character in quoted-pair"
  | qdtext     -- "invalid bytes for set qdtext"
  | token      -- "invalid input while expecting an HTTP token"
  | chunkCrlf  -- skipRequired("chunk CRLF")
  | fuel       -- model artefact: recursion fuel exhausted (proved unreachable)
  deriving DecidableEq, Repr

inductive Res
  | ok (rest : Bytes)
  | need
  | bad (r : Rej)
  deriving DecidableEq, Repr

def CR : UInt8 := 13
def LF : UInt8 := 10
def crlf : Bytes := [13, 10]

/-- `SBuf::startsWith` -/
def startsWith : Bytes → Bytes → Bool
  | [], _ => true
  | _ :: _, [] => false
  | p :: ps, b :: bs => p == b && startsWith ps bs

/-- `Tokenizer::skipAll(set)`: what remains -/
def skipAll (cs : CharSet) (s : Bytes) : Bytes := s.dropWhile cs.mem

/-- `ParseBws_(tok, set)`: skip the set, then InsufficientInput when nothing is left -/
def bws (cs : CharSet) (s : Bytes) : Res :=
  if (skipAll cs s).isEmpty then .need else .ok (skipAll cs s)

/-- throwing `Tokenizer::prefix(description, set)`: atEnd ⇒ InsufficientInput; no member ⇒ TextException;
everything matched (atEnd afterwards) ⇒ InsufficientInput -/
def prefixReq (cs : CharSet) (rej : Rej) (s : Bytes) : Res :=
  match s with
  | [] => .need
  | b :: _ =>
    if !cs.mem b then .bad rej
    else if (skipAll cs s).isEmpty then .need else .ok (skipAll cs s)

/-- `Tokenizer::skipRequired(description, CRLF)` -/
def skipCrlf (rej : Rej) (s : Bytes) : Res :=
  match s with
  | [] => .need                      -- CRLF.startsWith(buf_): InsufficientInput
  | b :: t =>
    if b = 13 then
      match t with
      | [] => .need                  -- CRLF.startsWith(buf_)
      | c :: r => if c = 10 then .ok r else .bad rej    -- skip(CRLF) succeeded / TextException
    else .bad rej

/-- value of an octet as a chunk-size digit; 16 when `int64()` stops at it -/
def hexVal (b : UInt8) : Nat := ChunkedSets.hexVal.getD b.toNat 16

def int64Max : Nat := 2 ^ 63 - 1
def cutoff : Nat := int64Max / 16
def cutlim : Nat := int64Max % 16

/-- the digit loop of `Tokenizer::int64` (base 16): returns `any`, `acc` and what is left at `s` -/
def int64Loop : Bytes → Int → Nat → Int × Nat × Bytes
  | [], any, acc => (any, acc, [])
  | b :: r, any, acc =>
    let c := hexVal b
    if c ≥ 16 then (any, acc, b :: r)
    else if any < 0 ∨ acc > cutoff ∨ (acc = cutoff ∧ c > cutlim) then int64Loop r (-1) acc
    else int64Loop r 1 (acc * 16 + c)

/-- `Tokenizer::int64(result, 16, allowSign=false)`: `some (value, rest)` when it returns true -/
def int64 (s : Bytes) : Option (Nat × Bytes) :=
  if s.isEmpty then none else                        -- atEnd()
  -- optional 0x/0X prefix of base 16 (only when at least one more octet follows the 0)
  let s1 := match s with
    | b :: x :: r => if b = 48 ∧ (x = 120 ∨ x = 88) then r else s
    | _ => s
  if s1.isEmpty then none else                       -- s >= end
  match int64Loop s1 0 0 with
  | (any, acc, rest) =>
    if any = 0 then none                             -- nothing was parsed
    else if any < 0 then none                        -- overflow (ERANGE)
    else some (acc, rest)

inductive SzRes
  | ok (size : Nat) (rest : Bytes)
  | needMore
  | bad (r : Rej)
  deriving DecidableEq, Repr

/-- `TeChunkedParser::parseChunkSize` on a tokenizer holding `s` -/
def parseChunkSize (s : Bytes) : SzRes :=
  if startsWith [48, 120] s || startsWith [48, 88] s then .bad .zeroX else
  match int64 s with
  | some (size, rest) =>
    if !rest.isEmpty then .ok size rest          -- (size < 0 cannot happen)
    else .needMore                               -- tok.atEnd(): the digits may continue
  | none =>
    if s.isEmpty then .needMore else .bad .size

/-- `parseQuotedStringSuffix(tok, http1p0=false)` after the opening DQUOTE. The maximal-run
`prefix(qdtext)` of each loop iteration is taken octet by octet; `esc` = a backslash was just skipped. -/
def quotedAux : Bool → Bytes → Res
  | _, [] => .need                               -- atEnd(): the loop ends / breaks, InsufficientInput
  | true, c :: r =>                              -- tok.prefix(escaped, qPairChars, 1)
    if ChunkedSets.qpair.mem c then quotedAux false r else .bad .qpair
  | false, b :: r =>
    if ChunkedSets.qdtext.mem b then quotedAux false r
    else if b = 92 then quotedAux true r         -- skip('\\')
    else if b = 34 then .ok r                    -- closing DQUOTE
    else .bad .qdtext

def quotedSuffix (s : Bytes) : Res := quotedAux false s

/-- `Http::One::tokenOrQuotedString(tok)` (value ignored, as `ChunkExtensionValueParser::Ignore` does) -/
def tokenOrQuoted (s : Bytes) : Res :=
  match s with
  | [] => .need
  | b :: r =>
    if b = 34 then quotedSuffix r
    else if !ChunkedSets.tokenVal.mem b then .bad .token
    else if (skipAll ChunkedSets.tokenVal s).isEmpty then .need else .ok (skipAll ChunkedSets.tokenVal s)

/-- `headersEnd()` state machine (src/mime_header.cc): number of octets up to and including the
empty line, 0 when there is none. `e` counts the octets already scanned. -/
def headersEndAux : Nat → Nat → Bytes → Nat
  | _, _, [] => 0
  | st, e, b :: r =>
    if st = 0 then (if b = 10 then headersEndAux 1 (e + 1) r else headersEndAux 0 (e + 1) r)
    else if st = 1 then
      (if b = 13 then headersEndAux 2 (e + 1) r
       else if b = 10 then e + 1
       else headersEndAux 0 (e + 1) r)
    else
      (if b = 10 then e + 1 else headersEndAux 0 (e + 1) r)

def headersEnd (s : Bytes) : Nat := headersEndAux 1 0 s

end SquidModel.Chunked
