/-
From single `parse()` calls to the caller's loop: what `offer`/`feed` compute, in terms of the decoder
loop with unlimited payload space run once on the whole unparsed input.
-/
import SquidModel.Chunked.Caps
import SquidModel.Chunked.Feed

namespace SquidModel.Chunked
open SquidModel.Gen

/-- `if (parsingStage_ == HTTP_PARSE_NONE) parsingStage_ = HTTP_PARSE_CHUNK_SZ;` -/
def norm (st : St) : St := if st.stage = .none then { st with stage := .sz } else st

/-- one `parse()` call with unlimited payload space -/
def parseU (relaxed : Bool) (st : St) (buf : Bytes) : Outcome :=
  if buf.isEmpty then .ret false ⟨st, buf, [], 0⟩
  else parseLoopU relaxed (buf.length + 1) ⟨norm st, buf, [], 0⟩

/-- what is observable of a run: where the parser stands (unless it rejected), the decoded octets, the verdict -/
structure Obs where
  pos : Option (St × Bytes)
  out : Bytes
  verdict : Verdict
  deriving DecidableEq, Repr

def Run.obs (r : Run) : Obs :=
  ⟨match r.verdict with | .reject _ => none | _ => some (r.st, r.inBuf), r.out, r.verdict⟩

def obsOf (o : Bytes) : Outcome → Obs
  | .ret d c => ⟨some (c.st, c.buf), o ++ c.out, if d then .done else if c.st.stage = .done then .tooLarge else .more⟩
  | .threw e out => ⟨none, o ++ out, .reject e⟩

theorem obsOf_fr (o p : Bytes) (z : Bool) (x : Outcome) : obsOf o (x.fr p z) = obsOf (o ++ p) x := by
  cases x <;> simp [Outcome.fr, obsOf, Cfg.fr]

theorem parse_eq (relaxed : Bool) (st : St) (buf : Bytes) (space : Nat) :
    parse relaxed st buf space =
      if buf.isEmpty then .ret false ⟨st, buf, [], space⟩
      else parseLoop relaxed (buf.length + 1) ⟨norm st, buf, [], space⟩ := by
  unfold parse norm; rfl

/-- resuming the unlimited loop from a configuration with accumulated output `c'.out` -/
theorem obsOf_resume (relaxed : Bool) (o : Bytes) (c' : Cfg) (F : Nat) :
    obsOf o (parseLoopU relaxed F c'.z) = obsOf (o ++ c'.out) (parseLoopU relaxed F ⟨c'.st, c'.buf, [], 0⟩) := by
  have : c'.z = (⟨c'.st, c'.buf, [], 0⟩ : Cfg).fr c'.out true := by simp [Cfg.z, Cfg.fr]
  rw [this, parseLoopU_fr, obsOf_fr]

theorem offer_obs (relaxed : Bool) (capOf : Nat → Nat) (hpos : ∀ i, 0 < capOf i) :
    ∀ (f : Nat) (r : Run), r.inBuf.length < f →
      (offer relaxed capOf f r).obs = obsOf r.out (parseU relaxed r.st r.inBuf) := by
  intro f
  induction f with
  | zero => intro r h; omega
  | succ f ih =>
    intro r hf
    simp only [offer, parse_eq, parseU]
    by_cases hemp : r.inBuf.isEmpty = true
    · -- parse() returns false at once on an empty buffer
      simp only [hemp, if_true]
      have hnil : r.inBuf = [] := by simpa using hemp
      by_cases hd : r.st.stage = .done
      · simp [hd, Run.obs, obsOf]
      · simp [hd, hnil, Run.obs, obsOf]
    · simp only [hemp, Bool.false_eq_true, if_false]
      have hcap := hpos r.calls
      generalize hc0 : (⟨norm r.st, r.inBuf, [], capOf r.calls⟩ : Cfg) = c0
      have hz : c0.z = ⟨norm r.st, r.inBuf, [], 0⟩ := by subst hc0; simp [Cfg.z, Cfg.fr]
      have hlen : c0.buf.length < r.inBuf.length + 1 := by subst hc0; simp
      have hsp : c0.space = capOf r.calls := by subst hc0; rfl
      have hbuf : c0.buf = r.inBuf := by subst hc0; rfl
      rw [← hz]
      -- the continuation when the caller offers a fresh buffer
      have cont : ∀ c' : Cfg, parseLoop relaxed (r.inBuf.length + 1) c0 = .ret false c' → c'.wantsSpace →
          (∀ F, c'.buf.length < F → parseLoopU relaxed (r.inBuf.length + 1) c0.z = parseLoopU relaxed F c'.z) →
          (offer relaxed capOf f ⟨c'.st, c'.buf, r.out ++ c'.out, .more, r.calls + 1⟩).obs =
            obsOf r.out (parseLoopU relaxed (r.inBuf.length + 1) c0.z) := by
        intro c' hret hw hres
        have hshr := parseLoop_shr _ _ _ _ hret
        have hlt : c'.buf.length < f := by
          unfold Shr at hshr
          rw [hw.2.1, hsp, hbuf] at hshr
          omega
        rw [ih _ hlt]
        simp only
        have hne : c'.buf.isEmpty = false := by
          cases hb : c'.buf with
          | nil => exact absurd hb hw.2.2
          | cons a t => rfl
        have hnorm : norm c'.st = c'.st := by simp [norm, hw.1]
        simp only [parseU, hne, Bool.false_eq_true, if_false, hnorm]
        rw [hres (c'.buf.length + 1) (by omega), obsOf_resume]
      rcases parseLoop_vs_U relaxed (r.inBuf.length + 1) c0 hlen with h | ⟨c', h1, h2, h3, h4⟩
      · rw [← h]
        cases hp : parseLoop relaxed (r.inBuf.length + 1) c0 with
        | threw e o => simp [Outcome.fr, Run.obs, obsOf]
        | ret d c' =>
          simp only
          by_cases hdone : d = true
          · simp [hdone, Outcome.fr, Run.obs, obsOf, Cfg.fr]
          · have hdf : d = false := by simpa using hdone
            subst hdf
            simp only [Bool.false_eq_true, if_false]
            by_cases hd : c'.st.stage = .done
            · simp [hd, Outcome.fr, Run.obs, obsOf, Cfg.fr]
            · simp only [hd, if_false]
              by_cases hcond : ((c'.st.stage = .chunk && c'.space = 0) && !c'.buf.isEmpty) = true
              · simp only [hcond, if_true]
                have hw : c'.wantsSpace := by
                  simp only [Bool.and_eq_true, decide_eq_true_eq, Bool.not_eq_true', List.isEmpty_eq_false_iff] at hcond
                  exact ⟨hcond.1.1, hcond.1.2, hcond.2⟩
                have hU : parseLoopU relaxed (r.inBuf.length + 1) c0.z = .ret false c'.z := by
                  rw [← h, hp]; rfl
                have := cont c' hp hw (by
                  intro F hF
                  rw [hU]
                  have hshr := parseLoop_shr _ _ _ _ hp
                  exact (parseLoopU_idem (c := c0.z) (by simpa using hlen) hU (by simpa using hd) F (by simpa using hF)).symm)
                rw [this, ← h, hp]
              · simp only [hcond, Bool.false_eq_true, if_false]
                simp [hd, Outcome.fr, Run.obs, obsOf, Cfg.fr]
      · rw [h1]
        have hd : c'.st.stage ≠ .done := by rw [h2.1]; simp
        have hcond : ((c'.st.stage = .chunk && c'.space = 0) && !c'.buf.isEmpty) = true := by
          simp only [Bool.and_eq_true, decide_eq_true_eq, Bool.not_eq_true', List.isEmpty_eq_false_iff]
          exact ⟨⟨h2.1, h2.2.1⟩, h2.2.2⟩
        simp only [Bool.false_eq_true, if_false, hd, hcond, if_true]
        exact cont c' h1 h2 h4

/-! ### the stage is never reset to NONE -/

theorem phaseExt_nn {relaxed : Bool} {c : Cfg} (h : c.st.stage ≠ .none) :
    ∀ c', (phaseExt relaxed c = .next c' ∨ phaseExt relaxed c = .retFalse c') → c'.st.stage ≠ .none := by
  intro c' hc
  unfold phaseExt at hc
  by_cases hs : c.st.stage = .ext
  · simp only [hs, if_true] at hc
    cases hm : metaSuffix relaxed c.buf with
    | ok rest =>
      simp only [hm] at hc
      rcases hc with hc | hc
      · simp only [Ctl.next.injEq] at hc; subst hc; simp only; split <;> simp
      · simp at hc
    | need x =>
      simp only [hm] at hc
      rcases hc with hc | hc
      · simp at hc
      · simp only [Ctl.retFalse.injEq] at hc; subst hc; exact h
    | bad e => simp [hm] at hc
  · simp only [hs, if_false] at hc
    rcases hc with hc | hc
    · simp only [Ctl.next.injEq] at hc; subst hc; exact h
    · simp at hc

theorem chunkEnd_nn {c : Cfg} (h : c.st.stage ≠ .none) :
    ∀ c', (chunkEnd c = .next c' ∨ chunkEnd c = .retFalse c') → c'.st.stage ≠ .none := by
  intro c' hc
  unfold chunkEnd at hc
  cases hm : skipCrlf .chunkCrlf c.buf with
  | ok rest =>
    simp only [hm] at hc
    rcases hc with hc | hc
    · simp only [Ctl.next.injEq] at hc; subst hc; simp
    · simp at hc
  | need =>
    simp only [hm] at hc
    rcases hc with hc | hc
    · simp at hc
    · simp only [Ctl.retFalse.injEq] at hc; subst hc; exact h
  | bad e => simp [hm] at hc

theorem phaseChunkU_nn {c : Cfg} (h : c.st.stage ≠ .none) :
    ∀ c', (phaseChunkU c = .next c' ∨ phaseChunkU c = .retFalse c') → c'.st.stage ≠ .none := by
  intro c' hc
  unfold phaseChunkU at hc
  by_cases hs : c.st.stage = .chunk
  · simp only [hs, if_true] at hc
    by_cases hl : c.st.left > 0
    · simp only [hl, if_true] at hc
      have hcc : (chunkCopy c (min c.st.left c.buf.length)).st.stage ≠ .none := by simp [chunkCopy, hs]
      split at hc
      · exact chunkEnd_nn hcc c' hc
      · rcases hc with hc | hc
        · simp only [Ctl.next.injEq] at hc; subst hc; exact hcc
        · simp at hc
    · simp only [hl, if_false] at hc
      split at hc
      · exact chunkEnd_nn h c' hc
      · rcases hc with hc | hc
        · simp only [Ctl.next.injEq] at hc; subst hc; exact h
        · simp at hc
  · simp only [hs, if_false] at hc
    rcases hc with hc | hc
    · simp only [Ctl.next.injEq] at hc; subst hc; exact h
    · simp at hc

theorem phaseMime_nn {c : Cfg} (h : c.st.stage ≠ .none) :
    ∀ c', (phaseMime c = .next c' ∨ phaseMime c = .retFalse c') → c'.st.stage ≠ .none := by
  intro c' hc
  unfold phaseMime at hc
  by_cases hs : c.st.stage = .mime
  · by_cases hn : headersEnd c.buf = 0
    · by_cases hb : c.buf.length ≥ ChunkedSets.trailerLimit
      · simp only [hs, hn, hb, if_true, ne_eq, not_true, if_false] at hc
        rcases hc with hc | hc
        · simp at hc
        · simp only [Ctl.retFalse.injEq] at hc; subst hc; simp
      · simp only [hs, hn, hb, if_true, ne_eq, not_true, if_false] at hc
        rcases hc with hc | hc
        · simp at hc
        · simp only [Ctl.retFalse.injEq] at hc; subst hc; exact h
    · by_cases hb : headersEnd c.buf ≥ ChunkedSets.trailerLimit
      · simp only [hs, hn, hb, if_true, ne_eq, not_false_eq_true] at hc
        rcases hc with hc | hc
        · simp at hc
        · simp only [Ctl.retFalse.injEq] at hc; subst hc; simp
      · simp only [hs, hn, hb, if_true, ne_eq, not_false_eq_true, if_false] at hc
        rcases hc with hc | hc
        · simp only [Ctl.next.injEq] at hc; subst hc; simp
        · simp at hc
  · simp only [hs, if_false] at hc
    rcases hc with hc | hc
    · simp only [Ctl.next.injEq] at hc; subst hc; exact h
    · simp at hc

theorem szCheck_nn {c : Cfg} (h : c.st.stage ≠ .none) :
    (∀ c', szCheck c = .again c' → c'.st.stage ≠ .none) ∧ (∀ d c', szCheck c = .ret d c' → c'.st.stage ≠ .none) := by
  obtain ⟨e1, e2⟩ := szCheck_shr (c := c)
  refine ⟨?_, ?_⟩
  · intro c' hc
    unfold szCheck at hc
    by_cases hs : c.st.stage = .sz
    · simp only [hs, if_true] at hc
      cases hp : parseChunkSize c.buf with
      | ok size rest => simp only [hp, Iter.again.injEq] at hc; subst hc; simp
      | needMore => simp [hp] at hc
      | bad e => simp [hp] at hc
    · simp [hs] at hc
  · intro d c' hc
    have := e2 d c' hc
    subst this; exact h

theorem iterU_nn {relaxed : Bool} {c : Cfg} (h : c.st.stage ≠ .none) :
    (∀ c', iterU relaxed c = .again c' → c'.st.stage ≠ .none) ∧ (∀ d c', iterU relaxed c = .ret d c' → c'.st.stage ≠ .none) := by
  unfold iterU iter2 iter3
  cases h1 : phaseExt relaxed c with
  | threw e o => simp [Ctl.andThen]
  | retFalse c1 =>
    have := phaseExt_nn h c1 (Or.inr h1)
    simp only [Ctl.andThen]
    refine ⟨by simp, ?_⟩
    intro d c' hc; simp only [Iter.ret.injEq] at hc; rw [← hc.2]; exact this
  | next c1 =>
    have n1 := phaseExt_nn h c1 (Or.inl h1)
    simp only [Ctl.andThen]
    cases h2 : phaseChunkU c1 with
    | threw e o => simp
    | retFalse c2 =>
      have := phaseChunkU_nn n1 c2 (Or.inr h2)
      refine ⟨by simp, ?_⟩
      intro d c' hc; simp only [Iter.ret.injEq] at hc; rw [← hc.2]; exact this
    | next c2 =>
      have n2 := phaseChunkU_nn n1 c2 (Or.inl h2)
      simp only
      cases h3 : phaseMime c2 with
      | threw e o => simp
      | retFalse c3 =>
        have := phaseMime_nn n2 c3 (Or.inr h3)
        refine ⟨by simp, ?_⟩
        intro d c' hc; simp only [Iter.ret.injEq] at hc; rw [← hc.2]; exact this
      | next c3 =>
        have n3 := phaseMime_nn n2 c3 (Or.inl h3)
        simp only
        exact szCheck_nn n3

theorem parseLoopU_nn {relaxed : Bool} : ∀ (f : Nat) (c : Cfg) (d : Bool) (c' : Cfg), c.st.stage ≠ .none →
    parseLoopU relaxed f c = .ret d c' → c'.st.stage ≠ .none := by
  intro f
  induction f with
  | zero => intro c d c' _ h; simp [parseLoopU] at h
  | succ f ih =>
    intro c d c' hn h
    simp only [parseLoopU] at h
    obtain ⟨a1, a2⟩ := iterU_nn (relaxed := relaxed) hn
    cases hi : iterU relaxed c with
    | again c1 => rw [hi] at h; exact ih c1 d c' (a1 c1 hi) h
    | ret d1 c1 => rw [hi] at h; simp only [Outcome.ret.injEq] at h; rw [← h.2]; exact a2 d1 c1 hi
    | threw e o => rw [hi] at h; simp at h

theorem norm_ne_none (st : St) : (norm st).stage ≠ .none := by
  unfold norm; split <;> simp_all

theorem norm_of_ne {st : St} (h : st.stage ≠ .none) : norm st = st := by
  simp [norm, h]

/-! ### one call on a longer buffer -/

/-- how `parseU st (buf ++ m)` relates to the outcome `x` of `parseU st buf` -/
def CallSpec (relaxed : Bool) (st : St) (buf m : Bytes) : Outcome → Prop
  | .threw e o => parseU relaxed st (buf ++ m) = .threw e o
  | .ret true c' => parseU relaxed st (buf ++ m) = .ret true (c'.ext m)
  | .ret false c' =>
    if c'.st.stage = .done then
      ∃ c'', parseU relaxed st (buf ++ m) = .ret false c'' ∧ c''.st.stage = .done ∧ c''.out = c'.out
    else obsOf [] (parseU relaxed st (buf ++ m)) = obsOf c'.out (parseU relaxed c'.st (c'.buf ++ m)) ∨
         (ChunkedSets.extCommit = true ∧ ∃ o, parseU relaxed st (buf ++ m) = .threw .extCrlf o)

theorem obsOf_z (o : Bytes) (x : Outcome) : obsOf o (x.fr [] true) = obsOf o x := by
  rw [obsOf_fr]; simp

theorem parseU_ext (relaxed : Bool) (st : St) (hst : st.stage ≠ .done) (buf m : Bytes) :
    CallSpec relaxed st buf m (parseU relaxed st buf) := by
  by_cases hemp : buf = []
  · subst hemp
    simp only [parseU, List.isEmpty_nil, if_true, CallSpec, hst, if_false, List.nil_append]
    left; simp [obsOf]
  · have hne : buf.isEmpty = false := by cases buf <;> simp_all
    have hne2 : (buf ++ m).isEmpty = false := by cases buf <;> simp_all
    have hx := parseLoopU_ext relaxed m (buf.length + 1) ⟨norm st, buf, [], 0⟩ ((buf ++ m).length + 1) (by simp) (by simp)
    have hP : parseU relaxed st buf = parseLoopU relaxed (buf.length + 1) ⟨norm st, buf, [], 0⟩ := by
      simp [parseU, hne]
    have hQ : parseU relaxed st (buf ++ m) = parseLoopU relaxed ((buf ++ m).length + 1) ((⟨norm st, buf, [], 0⟩ : Cfg).ext m) := by
      simp only [parseU, hne2, Bool.false_eq_true, if_false]; rfl
    rw [hP]
    cases hr : parseLoopU relaxed (buf.length + 1) ⟨norm st, buf, [], 0⟩ with
    | threw e o => rw [hr] at hx; simp only [CallSpec, hQ]; exact hx
    | ret d c' =>
      rw [hr] at hx
      cases d with
      | true => simp only [CallSpec, hQ]; exact hx
      | false =>
        simp only [CallSpec, hQ]
        simp only [LoopSpec] at hx
        by_cases hd : c'.st.stage = .done
        · simp only [hd, if_true] at hx ⊢; exact hx
        · simp only [hd, if_false] at hx ⊢
          have hnn : c'.st.stage ≠ .none := parseLoopU_nn _ _ _ _ (norm_ne_none st) hr
          rcases hx.2 with heq | hbad
          · left
            rw [heq]
            by_cases hemp2 : c'.buf ++ m = []
            · have hm : m = [] := (List.append_eq_nil_iff.mp hemp2).2
              have hb : c'.buf = [] := (List.append_eq_nil_iff.mp hemp2).1
              subst hm
              rw [Cfg.ext_nil]
              have := parseLoopU_idem (relaxed := relaxed) (c := ⟨norm st, buf, [], 0⟩) (by simp) hr hd ((buf ++ []).length + 1)
                (by simp [hb])
              rw [this]
              simp [parseU, hb, obsOf, hd]
            · have hne3 : (c'.buf ++ m).isEmpty = false := by
                cases hcb : c'.buf ++ m with
                | nil => exact absurd hcb hemp2
                | cons a t => rfl
              simp only [parseU, hne3, Bool.false_eq_true, if_false, norm_of_ne hnn]
              rw [parseLoopU_fuel ((buf ++ m).length + 1) ((c'.buf ++ m).length + 1) (c'.ext m)
                (by have := hx.1; simp at this ⊢; omega) (by simp)]
              rw [← obsOf_z, ← parseLoopU_fr]
              have := obsOf_resume relaxed [] (c'.ext m) ((c'.buf ++ m).length + 1)
              simpa using this
          · exact Or.inr hbad

/-! ### segments -/

theorem feed_obs (relaxed : Bool) (capOf : Nat → Nat) (hpos : ∀ i, 0 < capOf i) (r : Run) (hv : r.verdict = .more) (seg : Bytes) :
    (feed relaxed capOf r seg).obs = obsOf r.out (parseU relaxed r.st (r.inBuf ++ seg)) := by
  unfold feed
  simp only [hv, if_true]
  have := offer_obs relaxed capOf hpos (r.inBuf.length + seg.length + 1) { r with inBuf := r.inBuf ++ seg } (by simp)
  rw [hv] at this
  simpa using this

theorem feed_of_ne (relaxed : Bool) (capOf : Nat → Nat) (r : Run) (hv : r.verdict ≠ .more) (seg : Bytes) :
    feed relaxed capOf r seg = r := by
  simp [feed, hv]

theorem obs_ret {R : Run} {o : Bytes} {d : Bool} {c : Cfg} (h : R.obs = obsOf o (.ret d c)) :
    R.st = c.st ∧ R.inBuf = c.buf ∧ R.out = o ++ c.out ∧
    R.verdict = (if d then .done else if c.st.stage = .done then .tooLarge else .more) := by
  simp only [Run.obs, obsOf, Obs.mk.injEq] at h
  obtain ⟨h1, h2, h3⟩ := h
  rw [h3] at h1
  have : (some (R.st, R.inBuf) : Option (St × Bytes)) = some (c.st, c.buf) := by
    cases d
    · by_cases hd : c.st.stage = .done <;> simpa [hd] using h1
    · simpa using h1
  simp only [Option.some.injEq, Prod.mk.injEq] at this
  exact ⟨this.1, this.2, h2, h3⟩

theorem obs_threw {R : Run} {o out : Bytes} {e : Rej} (h : R.obs = obsOf o (.threw e out)) :
    R.out = o ++ out ∧ R.verdict = .reject e := by
  simp only [Run.obs, obsOf, Obs.mk.injEq] at h
  exact ⟨h.2.1, h.2.2⟩

def Obs.pre (p : Bytes) (ob : Obs) : Obs := { ob with out := p ++ ob.out }

theorem obsOf_pre (p o : Bytes) (x : Outcome) : obsOf (p ++ o) x = (obsOf o x).pre p := by
  cases x <;> simp [obsOf, Obs.pre]

/-- the incremental run `R` agrees with the run `O` that got all the input at once -/
def Agree (R O : Run) : Prop :=
  match R.verdict with
  | .more => R.obs = O.obs
  | .done => O.verdict = .done ∧ O.out = R.out ∧ O.st = R.st ∧ ∃ m, O.inBuf = R.inBuf ++ m
  | .tooLarge => O.verdict = .tooLarge ∧ O.out = R.out
  | .reject e => O.verdict = .reject e ∧ O.out = R.out

theorem Agree.refl (R : Run) : Agree R R := by
  unfold Agree
  cases R.verdict <;> simp

theorem Agree.congr {R O O' : Run} (h : Agree R O) (ho : O.obs = O'.obs) : Agree R O' := by
  have hv : O.verdict = O'.verdict := by simp only [Run.obs, Obs.mk.injEq] at ho; exact ho.2.2
  have hout : O.out = O'.out := by simp only [Run.obs, Obs.mk.injEq] at ho; exact ho.2.1
  unfold Agree at h ⊢
  cases hR : R.verdict with
  | more => rw [hR] at h; exact h.trans ho
  | done =>
    rw [hR] at h
    simp only at h ⊢
    have hpos : (some (O.st, O.inBuf) : Option (St × Bytes)) = some (O'.st, O'.inBuf) := by
      simp only [Run.obs, Obs.mk.injEq] at ho
      have h1 := ho.1
      rw [← hv, h.1] at h1
      exact h1
    simp only [Option.some.injEq, Prod.mk.injEq] at hpos
    exact ⟨hv ▸ h.1, hout ▸ h.2.1, hpos.1 ▸ h.2.2.1, hpos.2 ▸ h.2.2.2⟩
  | tooLarge => rw [hR] at h; exact ⟨hv ▸ h.1, hout ▸ h.2⟩
  | reject e => rw [hR] at h; exact ⟨hv ▸ h.1, hout ▸ h.2⟩

theorem feed_ext (relaxed : Bool) (capOf : Nat → Nat) (hpos : ∀ i, 0 < capOf i) (r : Run)
    (hv : r.verdict = .more) (hst : r.st.stage ≠ .done) (a m : Bytes) :
    ((feed relaxed capOf r a).verdict = .more →
        (feed relaxed capOf (feed relaxed capOf r a) m).obs = (feed relaxed capOf r (a ++ m)).obs ∨
        (ChunkedSets.extCommit = true ∧ (feed relaxed capOf r (a ++ m)).verdict = .reject .extCrlf)) ∧
    ((feed relaxed capOf r a).verdict ≠ .more → Agree (feed relaxed capOf r a) (feed relaxed capOf r (a ++ m))) := by
  have h1 := feed_obs relaxed capOf hpos r hv a
  have hO := feed_obs relaxed capOf hpos r hv (a ++ m)
  rw [← List.append_assoc] at hO
  have hx := parseU_ext relaxed r.st hst (r.inBuf ++ a) m
  generalize feed relaxed capOf r a = r1 at *
  generalize feed relaxed capOf r (a ++ m) = O at *
  cases hX : parseU relaxed r.st (r.inBuf ++ a) with
  | threw e o =>
    rw [hX] at h1 hx
    simp only [CallSpec] at hx
    rw [hx] at hO
    obtain ⟨a1, a2⟩ := obs_threw h1
    obtain ⟨b1, b2⟩ := obs_threw hO
    refine ⟨fun hm => by rw [a2] at hm; simp at hm, fun _ => ?_⟩
    unfold Agree; rw [a2]; exact ⟨b2, by rw [b1, a1]⟩
  | ret d c' =>
    rw [hX] at h1 hx
    obtain ⟨a1, a2, a3, a4⟩ := obs_ret h1
    cases d with
    | true =>
      simp only [CallSpec] at hx
      rw [hx] at hO
      obtain ⟨b1, b2, b3, b4⟩ := obs_ret hO
      simp only [if_true] at a4 b4
      refine ⟨fun hm => by rw [a4] at hm; simp at hm, fun _ => ?_⟩
      unfold Agree; rw [a4]
      exact ⟨b4, by rw [b3, a3]; rfl, by rw [b1, a1]; rfl, m, by rw [b2, a2]; rfl⟩
    | false =>
      simp only [CallSpec] at hx
      simp only [Bool.false_eq_true, if_false] at a4
      by_cases hd : c'.st.stage = .done
      · simp only [hd, if_true] at hx a4
        obtain ⟨c'', e1, e2, e3⟩ := hx
        rw [e1] at hO
        obtain ⟨b1, b2, b3, b4⟩ := obs_ret hO
        simp only [Bool.false_eq_true, if_false, e2, if_true] at b4
        refine ⟨fun hm => by rw [a4] at hm; simp at hm, fun _ => ?_⟩
        unfold Agree; rw [a4]
        exact ⟨b4, by rw [b3, a3, e3]⟩
      · simp only [hd, if_false] at hx a4
        refine ⟨fun _ => ?_, fun hm => absurd a4 hm⟩
        rcases hx with heq | ⟨hq, o, hbad⟩
        · left
          have h2 := feed_obs relaxed capOf hpos r1 a4 m
          rw [h2, hO, a1, a2, a3]
          have e1 := obsOf_pre r.out [] (parseU relaxed r.st (r.inBuf ++ a ++ m))
          have e2 := obsOf_pre r.out c'.out (parseU relaxed c'.st (c'.buf ++ m))
          simp only [List.append_nil] at e1
          rw [e1, e2, heq]
        · right
          rw [hbad] at hO
          exact ⟨hq, (obs_threw hO).2⟩

theorem feed_more_stage (relaxed : Bool) (capOf : Nat → Nat) (hpos : ∀ i, 0 < capOf i) (r : Run)
    (hv : r.verdict = .more) (a : Bytes) (hm : (feed relaxed capOf r a).verdict = .more) :
    (feed relaxed capOf r a).st.stage ≠ .done := by
  have h1 := feed_obs relaxed capOf hpos r hv a
  cases hX : parseU relaxed r.st (r.inBuf ++ a) with
  | threw e o => rw [hX] at h1; rw [(obs_threw h1).2] at hm; simp at hm
  | ret d c' =>
    rw [hX] at h1
    obtain ⟨a1, _, _, a4⟩ := obs_ret h1
    rw [a4] at hm
    rw [a1]
    cases d
    · by_cases hd : c'.st.stage = .done
      · simp [hd] at hm
      · exact hd
    · simp at hm

theorem foldl_feed_of_ne (relaxed : Bool) (capOf : Nat → Nat) (r : Run) (hv : r.verdict ≠ .more) (segs : List Bytes) :
    segs.foldl (feed relaxed capOf) r = r := by
  induction segs with
  | nil => rfl
  | cons a t ih => simp only [List.foldl_cons, feed_of_ne relaxed capOf r hv a, ih]

/-- Feeding the segments one by one agrees with feeding their concatenation at once, unless the one-shot
run fails with "cannot skip CRLF after [chunk-ext]". -/
theorem foldl_feed_flatten (relaxed : Bool) (capOf : Nat → Nat) (hpos : ∀ i, 0 < capOf i) :
    ∀ (segs : List Bytes) (a : Bytes) (r : Run), r.verdict = .more → r.st.stage ≠ .done →
      Agree (segs.foldl (feed relaxed capOf) (feed relaxed capOf r a)) (feed relaxed capOf r (a ++ segs.flatten)) ∨
      (ChunkedSets.extCommit = true ∧ (feed relaxed capOf r (a ++ segs.flatten)).verdict = .reject .extCrlf) := by
  intro segs
  induction segs with
  | nil => intro a r _ _; left; simp only [List.foldl_nil, List.flatten_nil, List.append_nil]; exact Agree.refl _
  | cons b rest ih =>
    intro a r hv hst
    simp only [List.foldl_cons, List.flatten_cons]
    obtain ⟨e1, e2⟩ := feed_ext relaxed capOf hpos r hv hst a (b ++ rest.flatten)
    by_cases hm : (feed relaxed capOf r a).verdict = .more
    · have hst1 := feed_more_stage relaxed capOf hpos r hv a hm
      rcases ih b (feed relaxed capOf r a) hm hst1 with hA | hQ
      · rcases e1 hm with heq | hq
        · exact Or.inl (hA.congr heq)
        · exact Or.inr hq
      · rcases e1 hm with heq | hq
        · right
          have : (feed relaxed capOf (feed relaxed capOf r a) (b ++ rest.flatten)).verdict =
              (feed relaxed capOf r (a ++ (b ++ rest.flatten))).verdict := by
            simp only [Run.obs, Obs.mk.injEq] at heq; exact heq.2.2
          exact ⟨hQ.1, by rw [← this]; exact hQ.2⟩
        · exact Or.inr hq
    · left
      rw [feed_of_ne relaxed capOf _ hm b, foldl_feed_of_ne relaxed capOf _ hm rest]
      exact e2 hm

theorem feed_init_nil (relaxed : Bool) (capOf : Nat → Nat) : (feed relaxed capOf Run.init []).obs = Run.init.obs := by
  simp [feed, Run.init, offer, parse, Run.obs, St.init]

theorem feedAll_oneShot (relaxed : Bool) (capOf : Nat → Nat) (hpos : ∀ i, 0 < capOf i) (segs : List Bytes) :
    Agree (feedAll relaxed capOf segs) (feedAll relaxed capOf [segs.flatten]) ∨
    (ChunkedSets.extCommit = true ∧ (feedAll relaxed capOf [segs.flatten]).verdict = .reject .extCrlf) := by
  unfold feedAll
  cases segs with
  | nil =>
    left
    simp only [List.foldl_nil, List.flatten_nil, List.foldl_cons]
    have : Agree Run.init Run.init := Agree.refl _
    exact this.congr (feed_init_nil relaxed capOf).symm
  | cons a rest =>
    simp only [List.foldl_cons, List.foldl_nil, List.flatten_cons]
    exact foldl_feed_flatten relaxed capOf hpos rest a Run.init rfl (by simp [Run.init, St.init])

end SquidModel.Chunked
