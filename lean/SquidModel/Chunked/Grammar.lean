/-
Specification side: the chunked transfer coding as a grammar (RFC 9112 section 7.1 with the BWS positions of
erratum 4667), written without reference to the decoder or to the generated octet classes.

  chunked-body   = *chunk last-chunk trailer-section CRLF
  chunk          = chunk-size hdr-rest chunk-data CRLF            (chunk-size > 0, < 2^63)
  last-chunk     = 1*"0" hdr-rest
  hdr-rest       = *WSP CRLF  /  1*( BWS ";" BWS chunk-ext-name [ BWS "=" BWS chunk-ext-val ] ) CRLF
  chunk-ext-val  = token / quoted-string
  BWS            = *( SP / HTAB ), and also VT / FF / CR when the relaxed parser is configured
  trailer-section= *( line CRLF ), a line being non-empty and free of LF; at most 64 KB - 1 with the final CRLF
-/
import SquidModel.Base.Bytes

namespace SquidModel.Chunked.Grammar

def isDigit (b : UInt8) : Bool := 48 ≤ b && b ≤ 57
def isAlpha (b : UInt8) : Bool := (65 ≤ b && b ≤ 90) || (97 ≤ b && b ≤ 122)
/-- RFC 9110 tchar -/
def isTchar (b : UInt8) : Bool :=
  isDigit b || isAlpha b || b == 33 || b == 35 || b == 36 || b == 37 || b == 38 || b == 39 || b == 42 || b == 43 ||
  b == 45 || b == 46 || b == 94 || b == 95 || b == 96 || b == 124 || b == 126
/-- HEXDIG value -/
def hexDigitVal (b : UInt8) : Option Nat :=
  if 48 ≤ b && b ≤ 57 then some (b.toNat - 48)
  else if 65 ≤ b && b ≤ 70 then some (b.toNat - 55)
  else if 97 ≤ b && b ≤ 102 then some (b.toNat - 87)
  else none
def isHex (b : UInt8) : Bool := (hexDigitVal b).isSome
/-- qdtext = HTAB / SP / %x21 / %x23-5B / %x5D-7E / obs-text -/
def isQdtext (b : UInt8) : Bool := b == 9 || b == 32 || b == 33 || (35 ≤ b && b ≤ 91) || (93 ≤ b && b ≤ 126) || 128 ≤ b
/-- quoted-pair = "\" ( HTAB / SP / VCHAR / obs-text ) -/
def isQpairChar (b : UInt8) : Bool := b == 9 || b == 32 || (33 ≤ b && b ≤ 126) || 128 ≤ b
def isWsp (b : UInt8) : Bool := b == 32 || b == 9
def isBws (relaxed : Bool) (b : UInt8) : Bool := isWsp b || (relaxed && (b == 11 || b == 12 || b == 13))

/-- value of a hex digit string, most significant digit first -/
def hexValue : Bytes → Nat → Nat
  | [], acc => acc
  | b :: r, acc => hexValue r (acc * 16 + (hexDigitVal b).getD 0)

/-- `ds` is 1*HEXDIG with value `n` -/
def IsSize (ds : Bytes) (n : Nat) : Prop := ds ≠ [] ∧ (∀ b ∈ ds, isHex b = true) ∧ hexValue ds 0 = n

def IsToken (t : Bytes) : Prop := t ≠ [] ∧ ∀ b ∈ t, isTchar b = true

def IsBwsRun (relaxed : Bool) (w : Bytes) : Prop := ∀ b ∈ w, isBws relaxed b = true

def IsWspRun (w : Bytes) : Prop := ∀ b ∈ w, isWsp b = true

/-- the inside of a quoted-string -/
inductive QBody : Bytes → Prop
  | nil : QBody []
  | text (b : UInt8) (r : Bytes) : isQdtext b = true → QBody r → QBody (b :: r)
  | pair (c : UInt8) (r : Bytes) : isQpairChar c = true → QBody r → QBody (92 :: c :: r)

inductive IsVal : Bytes → Prop
  | token (t : Bytes) : IsToken t → IsVal t
  | quoted (q : Bytes) : QBody q → IsVal (34 :: (q ++ [34]))

/-- BWS ";" BWS chunk-ext-name [ BWS "=" BWS chunk-ext-val ] -/
inductive IsExt (relaxed : Bool) : Bytes → Prop
  | valueless (w1 w2 n : Bytes) : IsBwsRun relaxed w1 → IsBwsRun relaxed w2 → IsToken n →
      IsExt relaxed (w1 ++ 59 :: (w2 ++ n))
  | valued (w1 w2 n w3 w4 v : Bytes) : IsBwsRun relaxed w1 → IsBwsRun relaxed w2 → IsToken n →
      IsBwsRun relaxed w3 → IsBwsRun relaxed w4 → IsVal v →
      IsExt relaxed (w1 ++ 59 :: (w2 ++ n ++ (w3 ++ 61 :: (w4 ++ v))))

/-- 1*chunk-ext -/
inductive IsExts (relaxed : Bool) : Bytes → Prop
  | one (e : Bytes) : IsExt relaxed e → IsExts relaxed e
  | cons (e es : Bytes) : IsExt relaxed e → IsExts relaxed es → IsExts relaxed (e ++ es)

/-- what follows the chunk-size on the chunk header line, including the CRLF -/
inductive IsHdrRest (relaxed : Bool) : Bytes → Prop
  | plain (w0 : Bytes) : IsWspRun w0 → IsHdrRest relaxed (w0 ++ [13, 10])
  | exts (es : Bytes) : IsExts relaxed es → IsHdrRest relaxed (es ++ [13, 10])

/-- trailer fields: lines that are non-empty, contain no LF, and end with CRLF -/
inductive IsTrailerLines : Bytes → Prop
  | nil : IsTrailerLines []
  | cons (l rest : Bytes) : l ≠ [] → (∀ b ∈ l, b ≠ 10) → IsTrailerLines rest → IsTrailerLines (l ++ 13 :: 10 :: rest)

def trailerMax : Nat := 65536

/-- trailer-section CRLF -/
def IsTrailer (t : Bytes) : Prop := ∃ ls, IsTrailerLines ls ∧ t = ls ++ [13, 10] ∧ t.length < trailerMax

/-- `After size body enc`: `enc` is what follows the chunk-size digits of a chunk of `size` octets, up to the
end of the message, and `body` is the concatenation of the chunk data in it -/
inductive After (relaxed : Bool) : Nat → Bytes → Bytes → Prop
  | last (h t : Bytes) : IsHdrRest relaxed h → IsTrailer t → After relaxed 0 [] (h ++ t)
  | chunk (size : Nat) (h d ds : Bytes) (size' : Nat) (body' enc' : Bytes) :
      0 < size → size < 2 ^ 63 → d.length = size → IsHdrRest relaxed h → IsSize ds size' → size' < 2 ^ 63 →
      After relaxed size' body' enc' →
      After relaxed size (d ++ body') (h ++ d ++ [13, 10] ++ ds ++ enc')

/-- `enc` is a chunked encoding of `body` -/
def Encodes (relaxed : Bool) (body enc : Bytes) : Prop :=
  ∃ ds size tail, IsSize ds size ∧ size < 2 ^ 63 ∧ After relaxed size body tail ∧ enc = ds ++ tail

end SquidModel.Chunked.Grammar
