/-
The decoder loop with unlimited payload space (`parseLoopU`), and how every statement of the loop body
behaves when more input is appended to the buffer.
-/
import SquidModel.Chunked.SizeLemmas

namespace SquidModel.Chunked
open SquidModel.Gen

/-- the same configuration with `m` appended to the unparsed input -/
def Cfg.ext (c : Cfg) (m : Bytes) : Cfg := { c with buf := c.buf ++ m }

@[simp] theorem Cfg.ext_st (c : Cfg) (m : Bytes) : (c.ext m).st = c.st := rfl
@[simp] theorem Cfg.ext_buf (c : Cfg) (m : Bytes) : (c.ext m).buf = c.buf ++ m := rfl
@[simp] theorem Cfg.ext_out (c : Cfg) (m : Bytes) : (c.ext m).out = c.out := rfl
@[simp] theorem Cfg.ext_space (c : Cfg) (m : Bytes) : (c.ext m).space = c.space := rfl

/-! ### headersEnd -/

theorem headersEndAux_found {st e : Nat} {s : Bytes} {n : Nat} (h : headersEndAux st e s = n) (hn : n ≠ 0) :
    e < n ∧ n ≤ e + s.length ∧ ∀ m, headersEndAux st e (s ++ m) = n := by
  induction s generalizing st e with
  | nil => simp [headersEndAux] at h; omega
  | cons b t ih =>
    simp only [headersEndAux, List.cons_append, List.length_cons] at h ⊢
    split at h
    · split at h
      · have := ih h; refine ⟨by omega, by omega, fun m => ?_⟩; simp [*]
      · have := ih h; refine ⟨by omega, by omega, fun m => ?_⟩; simp [*]
    · split at h
      · split at h
        · have := ih h; refine ⟨by omega, by omega, fun m => ?_⟩; simp [*]
        · split at h
          · refine ⟨by omega, by omega, fun m => ?_⟩; simp [*]
          · have := ih h; refine ⟨by omega, by omega, fun m => ?_⟩; simp [*]
      · split at h
        · refine ⟨by omega, by omega, fun m => ?_⟩; simp [*]
        · have := ih h; refine ⟨by omega, by omega, fun m => ?_⟩; simp [*]

theorem headersEndAux_within {st e : Nat} {s m : Bytes} {n : Nat} (h : headersEndAux st e (s ++ m) = n) (hn : n ≠ 0)
    (hle : n ≤ e + s.length) : headersEndAux st e s = n := by
  induction s generalizing st e with
  | nil =>
    exfalso
    simp only [List.nil_append, List.length_nil, Nat.add_zero] at h hle
    have := (headersEndAux_found h hn).1
    omega
  | cons b t ih =>
    simp only [headersEndAux, List.cons_append, List.length_cons] at h hle ⊢
    by_cases h0 : st = 0 <;> by_cases h1 : st = 1 <;> by_cases hb10 : b = 10 <;> by_cases hb13 : b = 13 <;>
      simp only [h0, h1, hb10, hb13, if_true, if_false] at h ⊢ <;>
      first
        | exact h
        | exact ih h (by omega)

theorem headersEnd_within {s m : Bytes} (hn : headersEnd (s ++ m) ≠ 0) (hle : headersEnd (s ++ m) ≤ s.length) :
    headersEnd s = headersEnd (s ++ m) := by
  have := headersEndAux_within (st := 1) (e := 0) (s := s) (m := m) rfl hn (by simpa [headersEnd] using hle)
  simpa [headersEnd] using this

theorem headersEnd_found {s : Bytes} (hn : headersEnd s ≠ 0) :
    headersEnd s ≤ s.length ∧ ∀ m, headersEnd (s ++ m) = headersEnd s := by
  have := headersEndAux_found (st := 1) (e := 0) (s := s) rfl hn
  exact ⟨by simpa [headersEnd] using this.2.1, this.2.2⟩

/-! ### metaSuffix: where the commit point can be -/

theorem chunkExts_committed_length {relaxed : Bool} {f : Nat} {s c c' : Bytes}
    (h : (chunkExts relaxed f s c).committed = some c') : c' = c ∨ c'.length < s.length := by
  induction f generalizing s c with
  | zero => simp [chunkExts, ExtRes.committed] at h
  | succ f ih =>
    simp only [chunkExts] at h
    cases h1 : bws (wsp relaxed) s with
    | need => simp [h1, ExtRes.committed] at h; exact Or.inl h.symm
    | bad e => simp [h1, ExtRes.committed] at h
    | ok s1 =>
      simp only [h1] at h
      have l1 := bws_ok_length h1
      obtain ⟨b, s2, rfl⟩ := bws_ok_head h1
      simp only at h
      by_cases hb : b = 59
      · simp only [hb, if_true] at h
        cases h2 : oneExt relaxed s2 with
        | need => simp [h2, ExtRes.committed] at h; exact Or.inl h.symm
        | bad e => simp [h2, ExtRes.committed] at h
        | ok s3 =>
          simp only [h2] at h
          have l2 := oneExt_ok_length h2
          rcases ih h with heq | hlt
          · cases hfl : ChunkedSets.extCommit with
            | true => right; simp only [hfl, if_true] at heq; subst heq; simp at l1; omega
            | false => left; simpa [hfl] using heq
          · right; simp at l1; omega
      · simp [hb, ExtRes.committed] at h; exact Or.inl h.symm

theorem metaSuffix_need_length {relaxed : Bool} {s c : Bytes} (h : metaSuffix relaxed s = .need c) : c.length ≤ s.length := by
  unfold metaSuffix at h
  cases h1 : bws ChunkedSets.bwsStrict s with
  | need => simp [h1] at h; subst h; exact Nat.le_refl _
  | bad e => exact absurd h1 bws_ne_bad
  | ok s1 =>
    simp only [h1] at h
    have l1 := bws_ok_length h1
    rcases chunkExts_committed_length (metaPost_committed h) with heq | hlt
    · subst heq; exact Nat.le_refl _
    · omega

theorem chunkExts_done_length {relaxed : Bool} {f : Nat} {s c r c' : Bytes}
    (h : chunkExts relaxed f s c = .done r c') : r.length ≤ s.length := by
  induction f generalizing s c with
  | zero => simp [chunkExts] at h
  | succ f ih =>
    simp only [chunkExts] at h
    cases h1 : bws (wsp relaxed) s with
    | need => simp [h1] at h
    | bad e => simp [h1] at h
    | ok s1 =>
      simp only [h1] at h
      have l1 := bws_ok_length h1
      obtain ⟨b, s2, rfl⟩ := bws_ok_head h1
      simp only at h
      by_cases hb : b = 59
      · simp only [hb, if_true] at h
        cases h2 : oneExt relaxed s2 with
        | need => simp [h2] at h
        | bad e => simp [h2] at h
        | ok s3 =>
          simp only [h2] at h
          have l2 := oneExt_ok_length h2
          have := ih h
          simp at l1; omega
      · simp only [hb, if_false, ExtRes.done.injEq] at h
        rw [← h.1]; exact Nat.le_refl _

theorem metaSuffix_ok_length {relaxed : Bool} {s r : Bytes} (h : metaSuffix relaxed s = .ok r) : r.length < s.length := by
  unfold metaSuffix at h
  cases h1 : bws ChunkedSets.bwsStrict s with
  | need => simp [h1] at h
  | bad e => simp [h1] at h
  | ok s1 =>
    simp only [h1] at h
    have l1 := bws_ok_length h1
    cases h2 : chunkExts relaxed (s1.length + 1) s1 s with
    | need c => simp [h2, metaPost] at h
    | bad e => simp [h2, metaPost] at h
    | done s2 c =>
      simp only [h2, metaPost] at h
      have l2 := chunkExts_done_length h2
      cases h3 : skipCrlf .extCrlf s2 with
      | need => simp [h3] at h
      | bad e => simp [h3] at h
      | ok s3 =>
        simp only [h3, MetaRes.ok.injEq] at h
        subst h
        have l3 := skipCrlf_ok_length h3
        omega

/-! ### phaseExt -/

theorem phaseExt_of_ne {relaxed : Bool} {c : Cfg} (h : c.st.stage ≠ .ext) : phaseExt relaxed c = .next c := by
  simp [phaseExt, h]

theorem phaseExt_next_ext {relaxed : Bool} {c c' : Cfg} (m : Bytes) (h : phaseExt relaxed c = .next c') :
    phaseExt relaxed (c.ext m) = .next (c'.ext m) ∧ c'.buf.length ≤ c.buf.length ∧ c'.out = c.out ∧ c'.space = c.space := by
  unfold phaseExt at h ⊢
  by_cases hs : c.st.stage = .ext
  · simp only [hs, if_true, Cfg.ext_st, Cfg.ext_buf] at h ⊢
    cases hm : metaSuffix relaxed c.buf with
    | need x => simp [hm] at h
    | bad e => simp [hm] at h
    | ok rest =>
      simp only [hm, metaSuffix_ok_append m hm, Ctl.next.injEq] at h ⊢
      subst h
      exact ⟨rfl, Nat.le_of_lt (metaSuffix_ok_length hm), rfl, rfl⟩
  · simp only [hs, if_false, Cfg.ext_st, Ctl.next.injEq] at h ⊢
    subst h
    exact ⟨rfl, Nat.le_refl _, rfl, rfl⟩

theorem phaseExt_threw_ext {relaxed : Bool} {c : Cfg} {e : Rej} {o : Bytes} (m : Bytes) (h : phaseExt relaxed c = .threw e o) :
    phaseExt relaxed (c.ext m) = .threw e o := by
  unfold phaseExt at h ⊢
  by_cases hs : c.st.stage = .ext
  · simp only [hs, if_true, Cfg.ext_st, Cfg.ext_buf] at h ⊢
    cases hm : metaSuffix relaxed c.buf with
    | need x => simp [hm] at h
    | ok rest => simp [hm] at h
    | bad e' =>
      simp only [hm, metaSuffix_bad_append m hm] at h ⊢
      exact h
  · simp [hs] at h

theorem phaseExt_ret_ext {relaxed : Bool} {c c' : Cfg} (m : Bytes) (h : phaseExt relaxed c = .retFalse c') :
    c'.st = c.st ∧ c.st.stage = .ext ∧ c'.out = c.out ∧ c'.space = c.space ∧ c'.buf.length ≤ c.buf.length ∧
    (phaseExt relaxed (c.ext m) = phaseExt relaxed (c'.ext m) ∨
      (ChunkedSets.extCommit = true ∧ phaseExt relaxed (c.ext m) = .threw .extCrlf c.out)) := by
  unfold phaseExt at h
  by_cases hs : c.st.stage = .ext
  · simp only [hs, if_true] at h
    cases hm : metaSuffix relaxed c.buf with
    | ok rest => simp [hm] at h
    | bad e => simp [hm] at h
    | need x =>
      simp only [hm, Ctl.retFalse.injEq] at h
      subst h
      refine ⟨rfl, hs, rfl, rfl, metaSuffix_need_length hm, ?_⟩
      unfold phaseExt
      simp only [Cfg.ext_st, hs, if_true, Cfg.ext_buf]
      rcases metaSuffix_need_restart hm m with heq | hbad
      · left; rw [heq]; rfl
      · right; refine ⟨hbad.1, ?_⟩; rw [hbad.2]; rfl
  · simp [hs] at h

/-! ### chunk data with unlimited payload space -/

/-- `parseChunkBody` when the payload buffer never limits the copy -/
def phaseChunkU (c : Cfg) : Ctl :=
  if c.st.stage = .chunk then
    let c1 : Cfg := if c.st.left > 0 then chunkCopy c (min c.st.left c.buf.length) else c
    if c1.st.left = 0 then chunkEnd c1 else .next c1
  else .next c

theorem phaseChunkU_of_ne {c : Cfg} (h : c.st.stage ≠ .chunk) : phaseChunkU c = .next c := by
  simp [phaseChunkU, h]

theorem chunkEnd_ext {c : Cfg} (m : Bytes) :
    (∀ c', chunkEnd c = .next c' → chunkEnd (c.ext m) = .next (c'.ext m) ∧ c'.st.stage = .sz ∧ c'.buf.length ≤ c.buf.length ∧ c'.out = c.out) ∧
    (∀ e o, chunkEnd c = .threw e o → chunkEnd (c.ext m) = .threw e o) ∧
    (∀ c', chunkEnd c = .retFalse c' → c' = c) := by
  unfold chunkEnd
  cases h : skipCrlf .chunkCrlf c.buf with
  | ok rest =>
    simp only [Cfg.ext_buf, skipCrlf_ok_append m h]
    refine ⟨?_, by simp, by simp⟩
    intro c' hc
    simp only [Ctl.next.injEq] at hc
    subst hc
    have := skipCrlf_ok_length h
    exact ⟨rfl, rfl, by simp; omega, rfl⟩
  | need => simp
  | bad e =>
    simp only [Cfg.ext_buf, skipCrlf_bad_append m h]
    simp

theorem chunkCopy_ext_le (c : Cfg) (m : Bytes) (k : Nat) (hk : k ≤ c.buf.length) :
    chunkCopy (c.ext m) k = (chunkCopy c k).ext m := by
  simp only [chunkCopy, Cfg.ext, Cfg.mk.injEq, true_and, and_true]
  constructor
  · rw [List.drop_append_of_le_length hk]
  · rw [List.take_append_of_le_length hk]

theorem phaseChunkU_zero {c : Cfg} (hs : c.st.stage = .chunk) (hl : c.st.left = 0) : phaseChunkU c = chunkEnd c := by
  simp [phaseChunkU, hs, hl]

theorem phaseChunkU_le {c : Cfg} (hs : c.st.stage = .chunk) (hl : 0 < c.st.left) (hle : c.st.left ≤ c.buf.length) :
    phaseChunkU c = chunkEnd (chunkCopy c c.st.left) := by
  simp [phaseChunkU, hs, hl, Nat.min_eq_left hle, chunkCopy]

theorem phaseChunkU_gt {c : Cfg} (hs : c.st.stage = .chunk) (hgt : c.buf.length < c.st.left) :
    phaseChunkU c = .next (chunkCopy c c.buf.length) := by
  have hl : 0 < c.st.left := by omega
  have hnz : c.st.left - c.buf.length ≠ 0 := by omega
  simp [phaseChunkU, hs, hl, Nat.min_eq_right (Nat.le_of_lt hgt), chunkCopy, hnz]

/-- The summary of how `parseChunkBody` reacts to more input: completed steps are unchanged, and a
blocked configuration resumes to the same thing. -/
theorem phaseChunkU_ext {c : Cfg} (m : Bytes) (hs : c.st.stage = .chunk) :
    (∀ e o, phaseChunkU c = .threw e o → phaseChunkU (c.ext m) = .threw e o) ∧
    (∀ c', phaseChunkU c = .next c' → c'.st.stage = .sz →
        phaseChunkU (c.ext m) = .next (c'.ext m) ∧ c'.buf.length ≤ c.buf.length) ∧
    (∀ c', phaseChunkU c = .next c' → c'.st.stage ≠ .sz →
        c'.st.stage = .chunk ∧ c'.buf.length ≤ c.buf.length ∧ phaseChunkU (c.ext m) = phaseChunkU (c'.ext m)) ∧
    (∀ c', phaseChunkU c = .retFalse c' →
        c'.st.stage = .chunk ∧ c'.buf.length ≤ c.buf.length ∧ phaseChunkU (c.ext m) = phaseChunkU (c'.ext m)) := by
  have hsm : (c.ext m).st.stage = .chunk := hs
  by_cases hl : c.st.left > 0
  · by_cases hle : c.st.left ≤ c.buf.length
    · -- the whole rest of the chunk is in the buffer
      have hle' : (c.ext m).st.left ≤ (c.ext m).buf.length := by simp; omega
      rw [phaseChunkU_le hs hl hle, phaseChunkU_le hsm hl hle']
      simp only [Cfg.ext_st]
      rw [chunkCopy_ext_le c m _ hle]
      have hz : (chunkCopy c c.st.left).st.left = 0 := by simp [chunkCopy]
      have hst : (chunkCopy c c.st.left).st.stage = .chunk := by simp [chunkCopy, hs]
      have hlen : (chunkCopy c c.st.left).buf.length ≤ c.buf.length := by simp [chunkCopy]
      obtain ⟨h1, h2, h3⟩ := chunkEnd_ext (c := chunkCopy c c.st.left) m
      refine ⟨h2, ?_, ?_, ?_⟩
      · intro c' hc _
        have := h1 c' hc
        exact ⟨this.1, by omega⟩
      · intro c' hc hne
        exact absurd (h1 c' hc).2.1 hne
      · intro c' hc
        have := h3 c' hc
        subst this
        refine ⟨hst, hlen, ?_⟩
        rw [phaseChunkU_zero (c := (chunkCopy c c.st.left).ext m) hst hz]
    · -- the buffer ends inside the chunk data
      have hgt : c.buf.length < c.st.left := by omega
      rw [phaseChunkU_gt hs hgt]
      refine ⟨by simp, ?_, ?_, by simp⟩
      · intro c' hc hsz
        simp only [Ctl.next.injEq] at hc
        subst hc
        simp [chunkCopy, hs] at hsz
      · intro c' hc _
        simp only [Ctl.next.injEq] at hc
        subst hc
        have hst : (chunkCopy c c.buf.length).st.stage = Stage.chunk := by simp [chunkCopy, hs]
        refine ⟨hst, by simp [chunkCopy], ?_⟩
        have hl' : (chunkCopy c c.buf.length).st.left > 0 := by simp [chunkCopy]; omega
        have hcc : chunkCopy (c.ext m) (min c.st.left (c.buf ++ m).length) =
            chunkCopy ((chunkCopy c c.buf.length).ext m)
              (min (chunkCopy c c.buf.length).st.left ((chunkCopy c c.buf.length).buf ++ m).length) := by
          simp only [chunkCopy, Cfg.ext, List.drop_length, List.nil_append, List.take_length, List.length_append,
            Cfg.mk.injEq, St.mk.injEq, true_and]
          have e1 : min c.st.left (c.buf.length + m.length) = c.buf.length + min (c.st.left - c.buf.length) m.length := by omega
          rw [e1]
          refine ⟨by omega, ?_, ?_, by omega⟩
          · rw [List.drop_append]; simp
          · rw [List.take_append]; simp [List.take_of_length_le]
        unfold phaseChunkU
        simp only [Cfg.ext_st, hs, hst, if_true, hl, hl', Cfg.ext_buf]
        rw [hcc]
  · have hl0 : c.st.left = 0 := by omega
    rw [phaseChunkU_zero hs hl0, phaseChunkU_zero hsm hl0]
    obtain ⟨h1, h2, h3⟩ := chunkEnd_ext (c := c) m
    refine ⟨h2, ?_, ?_, ?_⟩
    · intro c' hc _
      have := h1 c' hc
      exact ⟨this.1, this.2.2.1⟩
    · intro c' hc hne
      exact absurd (h1 c' hc).2.1 hne
    · intro c' hc
      have := h3 c' hc
      subst this
      refine ⟨hs, Nat.le_refl _, ?_⟩
      rw [phaseChunkU_zero hsm hl0]

/-! ### trailers -/

theorem phaseMime_of_ne {c : Cfg} (h : c.st.stage ≠ .mime) : phaseMime c = .next c := by
  simp [phaseMime, h]

theorem phaseMime_ext {c : Cfg} (m : Bytes) (hs : c.st.stage = .mime) :
    (∀ e o, phaseMime c ≠ .threw e o) ∧
    (∀ c', phaseMime c = .next c' → phaseMime (c.ext m) = .next (c'.ext m) ∧ c'.st.stage = .done) ∧
    (∀ c', phaseMime c = .retFalse c' → c'.st.stage = .done →
        ∃ c'', phaseMime (c.ext m) = .retFalse c'' ∧ c''.st.stage = .done ∧ c''.out = c'.out) ∧
    (∀ c', phaseMime c = .retFalse c' → c'.st.stage ≠ .done → c' = c) := by
  unfold phaseMime
  simp only [hs, if_true, Cfg.ext_st, Cfg.ext_buf, ne_eq, ite_not]
  by_cases hn : headersEnd c.buf = 0
  · simp only [hn, if_true]
    by_cases hbig : c.buf.length ≥ ChunkedSets.trailerLimit
    · simp only [hbig, if_true]
      refine ⟨by simp, by simp, ?_, ?_⟩
      · intro c' hc _
        simp only [Ctl.retFalse.injEq] at hc
        subst hc
        by_cases hn' : headersEnd (c.buf ++ m) = 0
        · have hb : (c.buf ++ m).length ≥ ChunkedSets.trailerLimit := by simp; omega
          simp only [hn', if_true, hb]
          exact ⟨_, rfl, rfl, rfl⟩
        · have hgt : c.buf.length < headersEnd (c.buf ++ m) := by
            rcases Nat.lt_or_ge c.buf.length (headersEnd (c.buf ++ m)) with h | h
            · exact h
            · have := headersEnd_within hn' h; omega
          have hb : headersEnd (c.buf ++ m) ≥ ChunkedSets.trailerLimit := by omega
          simp only [hn', if_false, hb, if_true]
          exact ⟨_, rfl, rfl, rfl⟩
      · intro c' hc hne
        simp only [Ctl.retFalse.injEq] at hc
        subst hc
        simp at hne
    · simp only [hbig, if_false]
      refine ⟨by simp, by simp, ?_, ?_⟩
      · intro c' hc hd
        simp only [Ctl.retFalse.injEq] at hc
        subst hc
        rw [hs] at hd; exact absurd hd (by simp)
      · intro c' hc _
        simp only [Ctl.retFalse.injEq] at hc
        exact hc.symm
  · obtain ⟨hle, hstab⟩ := headersEnd_found hn
    simp only [hn, hstab m, if_false]
    have hdrop : List.drop (headersEnd c.buf) (c.buf ++ m) = List.drop (headersEnd c.buf) c.buf ++ m :=
      List.drop_append_of_le_length hle
    by_cases hbig : headersEnd c.buf ≥ ChunkedSets.trailerLimit
    · simp only [hbig, if_true]
      refine ⟨by simp, by simp, ?_, ?_⟩
      · intro c' hc _
        simp only [Ctl.retFalse.injEq] at hc
        subst hc
        exact ⟨_, rfl, rfl, rfl⟩
      · intro c' hc hne
        simp only [Ctl.retFalse.injEq] at hc
        subst hc
        simp at hne
    · simp only [hbig, if_false]
      refine ⟨by simp, ?_, by simp, by simp⟩
      intro c' hc
      simp only [Ctl.next.injEq] at hc
      subst hc
      refine ⟨?_, rfl⟩
      simp [Cfg.ext, hdrop]

/-! ### the loop condition -/

theorem finished_eq (c : Cfg) : finished c = decide (c.st.stage = .done) := by
  unfold finished
  by_cases h : c.st.stage = .done <;> simp [h]

theorem szCheck_of_ne {c : Cfg} (h : c.st.stage ≠ .sz) : szCheck c = .ret (decide (c.st.stage = .done)) c := by
  simp [szCheck, h, finished_eq]

theorem szCheck_ext {c : Cfg} (m : Bytes) (hs : c.st.stage = .sz) :
    (∀ e o, szCheck c = .threw e o → szCheck (c.ext m) = .threw e o) ∧
    (∀ c', szCheck c = .again c' → szCheck (c.ext m) = .again (c'.ext m) ∧ c'.buf.length < c.buf.length) ∧
    (∀ d c', szCheck c = .ret d c' → d = false ∧ c' = c) := by
  unfold szCheck
  simp only [hs, if_true, Cfg.ext_st, Cfg.ext_buf]
  cases h : parseChunkSize c.buf with
  | ok size rest =>
    simp only [parseChunkSize_ok_append m h]
    refine ⟨by simp, ?_, by simp⟩
    intro c' hc
    simp only [Iter.again.injEq] at hc
    subst hc
    exact ⟨rfl, parseChunkSize_ok_length h⟩
  | needMore =>
    refine ⟨by simp, by simp, ?_⟩
    intro d c' hc
    simp only [Iter.ret.injEq] at hc
    refine ⟨?_, hc.2.symm⟩
    rw [← hc.1, finished_eq, hs]; simp
  | bad e =>
    simp only [parseChunkSize_bad_append m h]
    refine ⟨?_, by simp, by simp⟩
    intro e' o hc
    simpa using hc

end SquidModel.Chunked
