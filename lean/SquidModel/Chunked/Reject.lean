/-
Malformed framing after any number of complete chunks: what one `parse()` call with unlimited space does.
-/
import SquidModel.Chunked.Valid

namespace SquidModel.Chunked
open SquidModel.Gen SquidModel.Chunked.Grammar

/-- a sequence of complete chunks (each: chunk-size, header rest, data, CRLF) and the data they carry -/
inductive ChunkSeq (relaxed : Bool) : Bytes → Bytes → Prop
  | nil : ChunkSeq relaxed [] []
  | cons (ds h d more body' : Bytes) (size : Nat) : IsSize ds size → 0 < size → size < 2 ^ 63 → IsHdrRest relaxed h →
      d.length = size → ChunkSeq relaxed more body' →
      ChunkSeq relaxed (ds ++ h ++ d ++ [13, 10] ++ more) (d ++ body')

/-- chunk header rest, data and CRLF: the decoder is back at "expecting a chunk-size" -/
theorem iter_chunk_gen (relaxed : Bool) {h d : Bytes} {size : Nat} (hpos : 0 < size) (hd : d.length = size)
    (hh : IsHdrRest relaxed h) (x out : Bytes) :
    iterU relaxed ⟨⟨.ext, size, size⟩, h ++ d ++ [13, 10] ++ x, out, 0⟩ = iter3 ⟨⟨.sz, 0, 0⟩, x, out ++ d, 0⟩ := by
  have e1 : h ++ d ++ [13, 10] ++ x = h ++ (d ++ 13 :: 10 :: x) := by simp
  unfold iterU
  have hne : size ≠ 0 := by omega
  have hext : phaseExt relaxed ⟨⟨.ext, size, size⟩, h ++ d ++ [13, 10] ++ x, out, 0⟩ =
      .next ⟨⟨.chunk, size, size⟩, d ++ 13 :: 10 :: x, out, 0⟩ := by
    simp [phaseExt, e1, metaSuffix_hdr hh, hne]
  rw [hext]
  simp only [Ctl.andThen]
  unfold iter2
  rw [phaseChunkU_le (by rfl) (by simpa using hpos) (by simp; omega)]
  have hcopy : chunkCopy ⟨⟨.chunk, size, size⟩, d ++ 13 :: 10 :: x, out, 0⟩ size =
      ⟨⟨.chunk, size, 0⟩, 13 :: 10 :: x, out ++ d, 0⟩ := by
    simp only [chunkCopy, Nat.sub_self, Cfg.mk.injEq, true_and, and_true]
    constructor
    · rw [← hd]; simp
    · rw [← hd]; simp
  simp only
  rw [hcopy]
  simp only [chunkEnd, skipCrlf, if_true, Ctl.andThen]

theorem iterU_sz (relaxed : Bool) (x out : Bytes) :
    iterU relaxed ⟨⟨.sz, 0, 0⟩, x, out, 0⟩ = iter3 ⟨⟨.sz, 0, 0⟩, x, out, 0⟩ := by
  rw [iterU_of_ne (by simp), iter2_of_ne (by simp)]

/-- after complete chunks the loop is where it would be had it started on the rest with the data already output -/
theorem chunkseq_loop (relaxed : Bool) {pre body : Bytes} (h : ChunkSeq relaxed pre body) (rest : Bytes) :
    ∀ (out : Bytes) (F : Nat), (pre ++ rest).length < F →
      parseLoopU relaxed F ⟨⟨.sz, 0, 0⟩, pre ++ rest, out, 0⟩ = parseLoopU relaxed F ⟨⟨.sz, 0, 0⟩, rest, out ++ body, 0⟩ := by
  induction h with
  | nil => intro out F _; simp
  | cons ds h d more body' size hs hpos hlt hh hd _ ih =>
    intro out F hF
    have e1 : ds ++ h ++ d ++ [13, 10] ++ more ++ rest = ds ++ (h ++ d ++ [13, 10] ++ (more ++ rest)) := by simp
    have hds : 1 ≤ ds.length := by
      obtain ⟨hne, _⟩ := hs
      cases ds <;> simp_all
    rw [e1] at hF ⊢
    cases F with
    | zero => omega
    | succ F =>
      cases F with
      | zero => simp at hF
      | succ F =>
        have hf : SizeFoll (h ++ d ++ [13, 10] ++ (more ++ rest)) := by
          have := hdr_sizeFoll hh (d ++ [13, 10] ++ (more ++ rest))
          simpa using this
        have step1 : parseLoopU relaxed (F + 1 + 1) ⟨⟨.sz, 0, 0⟩, ds ++ (h ++ d ++ [13, 10] ++ (more ++ rest)), out, 0⟩ =
            parseLoopU relaxed (F + 1) ⟨⟨.ext, size, size⟩, h ++ d ++ [13, 10] ++ (more ++ rest), out, 0⟩ := by
          rw [parseLoopU, iterU_sz, iter_size relaxed hs hlt hf 0 0 out]
        have step2 : parseLoopU relaxed (F + 1) ⟨⟨.ext, size, size⟩, h ++ d ++ [13, 10] ++ (more ++ rest), out, 0⟩ =
            parseLoopU relaxed (F + 1) ⟨⟨.sz, 0, 0⟩, more ++ rest, out ++ d, 0⟩ := by
          rw [parseLoopU, iter_chunk_gen relaxed hpos hd hh, parseLoopU, iterU_sz]
        rw [step1, step2]
        have hlen : (more ++ rest).length < F + 1 := by simp at hF ⊢; omega
        rw [ih (out ++ d) (F + 1) hlen]
        rw [parseLoopU_fuel (F + 1) (F + 1 + 1) ⟨⟨.sz, 0, 0⟩, rest, out ++ d ++ body', 0⟩ (by simp at hlen ⊢; omega) (by simp at hlen ⊢; omega)]
        simp

/-- the state the decoder is in after `pre`: one call on `pre ++ rest` is the loop at "chunk-size expected" on `rest` -/
theorem parseU_chunkseq (relaxed : Bool) {pre body : Bytes} (h : ChunkSeq relaxed pre body) (rest : Bytes) (hne : rest ≠ []) :
    parseU relaxed St.init (pre ++ rest) =
      parseLoopU relaxed ((pre ++ rest).length + 1) ⟨⟨.sz, 0, 0⟩, rest, body, 0⟩ := by
  have hemp : (pre ++ rest).isEmpty = false := by
    cases hr : pre ++ rest with
    | nil => simp at hr; exact absurd hr.2 hne
    | cons a t => rfl
  have hnorm : norm St.init = ⟨.sz, 0, 0⟩ := by simp [norm, St.init]
  simp only [parseU, hemp, Bool.false_eq_true, if_false, hnorm]
  rw [chunkseq_loop relaxed h rest [] _ (by omega)]
  simp

/-- the loop on something that cannot start a chunk: the verdict of `parseChunkSize` -/
theorem loop_bad_size (relaxed : Bool) {rest : Bytes} {e : Rej} (hb : parseChunkSize rest = .bad e) (out : Bytes) (F : Nat) :
    parseLoopU relaxed (F + 1) ⟨⟨.sz, 0, 0⟩, rest, out, 0⟩ = .threw e out := by
  rw [parseLoopU, iterU_sz]
  unfold iter3
  rw [phaseMime_of_ne (by simp)]
  simp [Ctl.andThen, szCheck, hb]

theorem parseChunkSize_zeroX (x : UInt8) (hx : x = 120 ∨ x = 88) (rest : Bytes) :
    parseChunkSize (48 :: x :: rest) = .bad .zeroX := by
  rw [parseChunkSize_two]
  have : banned 48 x = true := by rcases hx with h | h <;> simp [banned, h]
  simp [this]

theorem parseChunkSize_nonhex {b : UInt8} (hb : isHex b = false) (rest : Bytes) :
    parseChunkSize (b :: rest) = .bad .size := by
  have hv := hexVal_of_not_isHex hb
  cases rest with
  | nil => rw [parseChunkSize_one]; simp [hv]
  | cons x r =>
    rw [parseChunkSize_two]
    have hb48 : b ≠ 48 := by intro h; rw [h] at hb; revert hb; decide
    simp [banned, hb48, int64Loop, hv]

theorem int64Loop_overflow {ds : Bytes} (t : Bytes) :
    ∀ (acc : Nat) (any : Int), (∀ x ∈ ds, isHex x = true) → acc ≤ int64Max → int64Max < hexValue ds acc →
      (int64Loop (ds ++ t) any acc).1 < 0 := by
  induction ds with
  | nil => intro acc any _ h1 h2; simp [hexValue] at h2; omega
  | cons x r ih =>
    intro acc any hall h1 h2
    obtain ⟨hx1, hx2⟩ := hexVal_of_isHex (hall x (by simp))
    simp only [List.cons_append, int64Loop]
    have hnot : ¬ (hexVal x ≥ 16) := by omega
    simp only [hnot, if_false]
    split
    · exact int64Loop_neg _ _ _ (by omega)
    · rename_i hov
      simp only [hexValue] at h2
      rw [← hx1] at h2
      exact ih (acc * 16 + hexVal x) 1 (fun y hy => hall y (by simp [hy]))
        (by rw [int64Max_val]; rw [cutoff_val, cutlim_val] at hov; omega) h2

theorem parseChunkSize_overflow {ds : Bytes} (hall : ∀ x ∈ ds, isHex x = true) (hbig : 2 ^ 63 ≤ hexValue ds 0) (t : Bytes) :
    parseChunkSize (ds ++ t) = .bad .size := by
  have hov := int64Loop_overflow (ds := ds) t 0 0 hall (by rw [int64Max_val]; omega) (by rw [int64Max_val]; omega)
  match ds, hall, hbig, hov with
  | [], _, hbig, _ => simp [hexValue] at hbig
  | [d], hall, hbig, _ =>
    exfalso
    have := hexDigitVal_lt d
    simp [hexValue] at hbig; omega
  | d :: y :: r, hall, _, hov =>
    simp only [List.cons_append] at hov ⊢
    rw [parseChunkSize_two]
    have hy : isHex y = true := hall y (by simp)
    have hy1 : y ≠ 120 := by intro h; rw [h, isHex_120.1] at hy; simp at hy
    have hy2 : y ≠ 88 := by intro h; rw [h, isHex_120.2] at hy; simp at hy
    have hban : banned d y = false := by simp [banned, hy1, hy2]
    have h0 : (int64Loop (d :: y :: (r ++ t)) 0 0).1 ≠ 0 := by omega
    simp [hban, h0, hov]

/-- data not followed by CRLF -/
def NotCrlf (s : Bytes) : Prop := (∃ b t, s = b :: t ∧ b ≠ 13) ∨ (∃ c t, s = 13 :: c :: t ∧ c ≠ 10)

theorem skipCrlf_notCrlf {s : Bytes} (h : NotCrlf s) (rej : Rej) : skipCrlf rej s = .bad rej := by
  rcases h with ⟨b, t, rfl, hb⟩ | ⟨c, t, rfl, hc⟩
  · simp [skipCrlf, hb]
  · simp [skipCrlf, hc]

theorem loop_missing_crlf (relaxed : Bool) {ds h d bad : Bytes} {size : Nat} (hs : IsSize ds size) (hpos : 0 < size)
    (hlt : size < 2 ^ 63) (hh : IsHdrRest relaxed h) (hd : d.length = size) (hbad : NotCrlf bad) (out : Bytes) (F : Nat) :
    parseLoopU relaxed (F + 1 + 1) ⟨⟨.sz, 0, 0⟩, ds ++ h ++ d ++ bad, out, 0⟩ = .threw .chunkCrlf (out ++ d) := by
  have e1 : ds ++ h ++ d ++ bad = ds ++ (h ++ (d ++ bad)) := by simp
  have hf : SizeFoll (h ++ (d ++ bad)) := hdr_sizeFoll hh _
  rw [e1, parseLoopU, iterU_sz, iter_size relaxed hs hlt hf 0 0 out]
  simp only
  rw [parseLoopU]
  have hne : size ≠ 0 := by omega
  unfold iterU
  have hext : phaseExt relaxed ⟨⟨.ext, size, size⟩, h ++ (d ++ bad), out, 0⟩ = .next ⟨⟨.chunk, size, size⟩, d ++ bad, out, 0⟩ := by
    simp [phaseExt, metaSuffix_hdr hh, hne]
  rw [hext]
  simp only [Ctl.andThen]
  unfold iter2
  rw [phaseChunkU_le (by rfl) (by simpa using hpos) (by simp; omega)]
  have hcopy : chunkCopy ⟨⟨.chunk, size, size⟩, d ++ bad, out, 0⟩ size = ⟨⟨.chunk, size, 0⟩, bad, out ++ d, 0⟩ := by
    simp only [chunkCopy, Nat.sub_self, Cfg.mk.injEq, true_and, and_true]
    constructor
    · rw [← hd]; simp
    · rw [← hd]; simp
  simp only
  rw [hcopy]
  simp [chunkEnd, skipCrlf_notCrlf hbad, Ctl.andThen]

/-- `;` followed (after BWS) by an octet that cannot start a chunk-ext-name -/
theorem metaSuffix_bad_ext_name {relaxed : Bool} {w0 w2 : Bytes} {b : UInt8} (rest : Bytes) (h0 : IsWspRun w0)
    (h2 : IsBwsRun relaxed w2) (hb1 : isTchar b = false) (hb2 : isBws relaxed b = false) :
    metaSuffix relaxed (w0 ++ 59 :: (w2 ++ b :: rest)) = .bad .extName := by
  unfold metaSuffix
  have h59 : isWsp 59 = false := by decide
  rw [strict_run _ h0 h59]
  simp only [List.length_cons, chunkExts]
  have hb59 : bws (wsp relaxed) (59 :: (w2 ++ b :: rest)) = .ok (59 :: (w2 ++ b :: rest)) := by
    rw [bws_ok_iff]; exact ⟨skipAll_stop _ (by rw [wsp_eq]; exact (const_facts relaxed).2.2.1), by simp⟩
  rw [hb59]
  simp only [if_true]
  have hone : oneExt relaxed (w2 ++ b :: rest) = .bad .extName := by
    unfold oneExt
    rw [bws_run _ h2 hb2]
    simp [prefixReq, extName_eq, hb1]
  rw [hone]
  simp [metaPost]

theorem loop_bad_ext_name (relaxed : Bool) {ds w0 w2 : Bytes} {b : UInt8} {size : Nat} (rest : Bytes) (hs : IsSize ds size)
    (hlt : size < 2 ^ 63) (h0 : IsWspRun w0) (h2 : IsBwsRun relaxed w2) (hb1 : isTchar b = false) (hb2 : isBws relaxed b = false)
    (out : Bytes) (F : Nat) :
    parseLoopU relaxed (F + 1 + 1) ⟨⟨.sz, 0, 0⟩, ds ++ (w0 ++ 59 :: (w2 ++ b :: rest)), out, 0⟩ = .threw .extName out := by
  have hf : SizeFoll (w0 ++ 59 :: (w2 ++ b :: rest)) := by
    cases w0 with
    | nil => exact ⟨59, _, rfl, (const_facts relaxed).2.2.2.2.1, by decide, by decide⟩
    | cons a r =>
      have h1 := (sep_facts relaxed a).2 (h0 a (by simp))
      have h2' := (sep_facts relaxed a).1 h1.1
      exact ⟨a, _, rfl, h2'.2.2.2.2.1, h2'.2.2.2.2.2.1, h2'.2.2.2.2.2.2⟩
  rw [parseLoopU, iterU_sz, iter_size relaxed hs hlt hf 0 0 out]
  simp only
  rw [parseLoopU]
  unfold iterU
  have hext : phaseExt relaxed ⟨⟨.ext, size, size⟩, w0 ++ 59 :: (w2 ++ b :: rest), out, 0⟩ = .threw .extName out := by
    simp [phaseExt, metaSuffix_bad_ext_name rest h0 h2 hb1 hb2]
  rw [hext]
  simp [Ctl.andThen]

end SquidModel.Chunked
