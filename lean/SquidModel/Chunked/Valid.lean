/-
Every encoding in the grammar is decoded exactly by one `parse()` call with unlimited payload space.
-/
import SquidModel.Base.Finite
import SquidModel.Chunked.Grammar
import SquidModel.Chunked.FeedLemmas

namespace SquidModel.Chunked
open SquidModel.Gen SquidModel.Chunked.Grammar

/-! ### the generated octet classes are the classes of the grammar -/

theorem extName_eq (b : UInt8) : ChunkedSets.extName.mem b = isTchar b := by
  have := forall_octet (fun b => ChunkedSets.extName.mem b == isTchar b) (by decide +kernel) b
  simpa using this

theorem tokenVal_eq (b : UInt8) : ChunkedSets.tokenVal.mem b = isTchar b := by
  have := forall_octet (fun b => ChunkedSets.tokenVal.mem b == isTchar b) (by decide +kernel) b
  simpa using this

theorem qdtext_eq (b : UInt8) : ChunkedSets.qdtext.mem b = isQdtext b := by
  have := forall_octet (fun b => ChunkedSets.qdtext.mem b == isQdtext b) (by decide +kernel) b
  simpa using this

theorem qpair_eq (b : UInt8) : ChunkedSets.qpair.mem b = isQpairChar b := by
  have := forall_octet (fun b => ChunkedSets.qpair.mem b == isQpairChar b) (by decide +kernel) b
  simpa using this

theorem bwsStrict_eq (b : UInt8) : ChunkedSets.bwsStrict.mem b = isWsp b := by
  have := forall_octet (fun b => ChunkedSets.bwsStrict.mem b == isWsp b) (by decide +kernel) b
  simpa using this

theorem wsp_eq (relaxed : Bool) (b : UInt8) : (wsp relaxed).mem b = isBws relaxed b := by
  cases relaxed
  · have := forall_octet (fun b => (wsp false).mem b == isBws false b) (by decide +kernel) b
    simpa using this
  · have := forall_octet (fun b => (wsp true).mem b == isBws true b) (by decide +kernel) b
    simpa using this

theorem hexVal_eq (b : UInt8) : hexVal b = (hexDigitVal b).getD 16 := by
  have := forall_octet (fun b => hexVal b == (hexDigitVal b).getD 16) (by decide +kernel) b
  simpa using this

theorem hexDigitVal_lt (b : UInt8) : (hexDigitVal b).getD 0 < 16 := by
  have := forall_octet (fun b => decide ((hexDigitVal b).getD 0 < 16)) (by decide +kernel) b
  simpa using this

/-- separators are not token octets, and BWS octets are neither token octets nor separators -/
theorem sep_facts (relaxed : Bool) (b : UInt8) :
    (isBws relaxed b = true → isTchar b = false ∧ b ≠ 59 ∧ b ≠ 61 ∧ b ≠ 10 ∧ isHex b = false ∧ b ≠ 120 ∧ b ≠ 88) ∧
    (isWsp b = true → isBws relaxed b = true ∧ b ≠ 13) := by
  cases relaxed
  · have := forall_octet (fun b =>
      (!isBws false b || (!isTchar b && b != 59 && b != 61 && b != 10 && !isHex b && b != 120 && b != 88)) &&
      (!isWsp b || (isBws false b && b != 13))) (by decide +kernel) b
    simp only [Bool.and_eq_true, Bool.or_eq_true, Bool.not_eq_true', bne_iff_ne, ne_eq] at this
    constructor
    · intro h; rcases this.1 with h' | h'
      · rw [h] at h'; simp at h'
      · simp_all
    · intro h; rcases this.2 with h' | h'
      · rw [h] at h'; simp at h'
      · simp_all
  · have := forall_octet (fun b =>
      (!isBws true b || (!isTchar b && b != 59 && b != 61 && b != 10 && !isHex b && b != 120 && b != 88)) &&
      (!isWsp b || (isBws true b && b != 13))) (by decide +kernel) b
    simp only [Bool.and_eq_true, Bool.or_eq_true, Bool.not_eq_true', bne_iff_ne, ne_eq] at this
    constructor
    · intro h; rcases this.1 with h' | h'
      · rw [h] at h'; simp at h'
      · simp_all
    · intro h; rcases this.2 with h' | h'
      · rw [h] at h'; simp at h'
      · simp_all

theorem tchar_facts (b : UInt8) (h : isTchar b = true) : b ≠ 34 ∧ b ≠ 59 ∧ b ≠ 61 ∧ b ≠ 13 ∧ b ≠ 10 := by
  have := forall_octet (fun b => !isTchar b || (b != 34 && b != 59 && b != 61 && b != 13 && b != 10)) (by decide +kernel) b
  simp only [Bool.or_eq_true, Bool.not_eq_true', Bool.and_eq_true, bne_iff_ne, ne_eq] at this
  rcases this with h' | h'
  · rw [h] at h'; simp at h'
  · simp_all

theorem const_facts (relaxed : Bool) :
    isTchar 59 = false ∧ isTchar 13 = false ∧ isBws relaxed 59 = false ∧ isBws relaxed 10 = false ∧
    isHex 59 = false ∧ isHex 13 = false ∧ isWsp 13 = false ∧ isQdtext 34 = false ∧ isQdtext 92 = false ∧
    isBws relaxed 61 = false ∧ isTchar 61 = false ∧ isBws relaxed 34 = false := by
  cases relaxed <;> decide

/-! ### runs of a class -/

theorem skipAll_run {cs : CharSet} {w : Bytes} (t : Bytes) (hw : ∀ b ∈ w, cs.mem b = true) :
    skipAll cs (w ++ t) = skipAll cs t := by
  induction w with
  | nil => rfl
  | cons a r ih =>
    have ha : cs.mem a = true := hw a (by simp)
    simp only [List.cons_append, skipAll, List.dropWhile_cons, ha, if_true]
    exact ih (fun b hb => hw b (by simp [hb]))

theorem skipAll_stop {cs : CharSet} {b : UInt8} (t : Bytes) (hb : cs.mem b = false) : skipAll cs (b :: t) = b :: t := by
  simp [skipAll, List.dropWhile_cons, hb]

theorem bws_run {relaxed : Bool} {w : Bytes} {b : UInt8} (t : Bytes) (hw : IsBwsRun relaxed w) (hb : isBws relaxed b = false) :
    bws (wsp relaxed) (w ++ b :: t) = .ok (b :: t) := by
  rw [bws_ok_iff]
  refine ⟨?_, by simp⟩
  rw [skipAll_run _ (fun x hx => by rw [wsp_eq]; exact hw x hx), skipAll_stop _ (by rw [wsp_eq]; exact hb)]

theorem token_run {n : Bytes} {b : UInt8} (t : Bytes) (hn : IsToken n) (hb : isTchar b = false) :
    prefixReq ChunkedSets.extName .extName (n ++ b :: t) = .ok (b :: t) := by
  obtain ⟨hne, hall⟩ := hn
  cases n with
  | nil => exact absurd rfl hne
  | cons a r =>
    have ha : ChunkedSets.extName.mem a = true := by rw [extName_eq]; exact hall a (by simp)
    have hsk : skipAll ChunkedSets.extName ((a :: r) ++ b :: t) = b :: t := by
      rw [skipAll_run _ (fun x hx => by rw [extName_eq]; exact hall x hx), skipAll_stop _ (by rw [extName_eq]; exact hb)]
    simp only [List.cons_append] at hsk
    simp [prefixReq, ha, hsk]

theorem qbody_run {q : Bytes} (t : Bytes) (hq : QBody q) : quotedAux false (q ++ 34 :: t) = .ok t := by
  induction hq with
  | nil => simp [quotedAux, qdtext_eq, (const_facts false).2.2.2.2.2.2.2.1]
  | text b r hb _ ih => simp only [List.cons_append, quotedAux, qdtext_eq, hb, if_true]; exact ih
  | pair c r hc _ ih =>
    simp only [List.cons_append, quotedAux, qdtext_eq, (const_facts false).2.2.2.2.2.2.2.2.1, Bool.false_eq_true, if_false,
      if_true, qpair_eq, hc]
    exact ih

theorem val_run {v : Bytes} {b : UInt8} (t : Bytes) (hv : IsVal v) (hb : isTchar b = false) :
    tokenOrQuoted (v ++ b :: t) = .ok (b :: t) := by
  cases hv with
  | token _ hn =>
    obtain ⟨hne, hall⟩ := hn
    cases v with
    | nil => exact absurd rfl hne
    | cons a r =>
      have ha : isTchar a = true := hall a (by simp)
      have ha34 : a ≠ 34 := (tchar_facts a ha).1
      have hsk : skipAll ChunkedSets.tokenVal ((a :: r) ++ b :: t) = b :: t := by
        rw [skipAll_run _ (fun x hx => by rw [tokenVal_eq]; exact hall x hx), skipAll_stop _ (by rw [tokenVal_eq]; exact hb)]
      simp only [List.cons_append] at hsk
      simp [tokenOrQuoted, ha34, tokenVal_eq, ha, hsk]
  | quoted q hq =>
    simp only [List.cons_append, tokenOrQuoted, if_true, quotedSuffix, List.append_assoc]
    exact qbody_run (b :: t) hq

/-! ### chunk extensions -/

/-- what may follow a chunk-ext: not a token octet, and after any BWS something other than "=" -/
def Foll (relaxed : Bool) (t : Bytes) : Prop :=
  ∃ b t', t = b :: t' ∧ isTchar b = false ∧ ∃ x rest, skipAll (wsp relaxed) t = x :: rest ∧ x ≠ 61

theorem foll_crlf (relaxed : Bool) (rest : Bytes) : Foll relaxed (13 :: 10 :: rest) := by
  refine ⟨13, 10 :: rest, rfl, (const_facts relaxed).2.1, ?_⟩
  cases relaxed
  · refine ⟨13, 10 :: rest, ?_, by decide⟩
    exact skipAll_stop _ (by rw [wsp_eq]; decide)
  · refine ⟨10, rest, ?_, by decide⟩
    have h13 : (wsp true).mem 13 = true := by rw [wsp_eq]; decide
    have h10 : (wsp true).mem 10 = false := by rw [wsp_eq]; decide
    simp [skipAll, List.dropWhile_cons, h13, h10]

theorem foll_semi (relaxed : Bool) {w : Bytes} (hw : IsBwsRun relaxed w) (rest : Bytes) : Foll relaxed (w ++ 59 :: rest) := by
  have hsk : skipAll (wsp relaxed) (w ++ 59 :: rest) = 59 :: rest := by
    rw [skipAll_run _ (fun x hx => by rw [wsp_eq]; exact hw x hx), skipAll_stop _ (by rw [wsp_eq]; exact (const_facts relaxed).2.2.1)]
  cases w with
  | nil => exact ⟨59, rest, rfl, (const_facts relaxed).1, 59, rest, hsk, by decide⟩
  | cons a r =>
    have ha := (sep_facts relaxed a).1 (hw a (by simp))
    exact ⟨a, r ++ 59 :: rest, rfl, ha.1, 59, rest, hsk, by decide⟩

theorem foll_ext (relaxed : Bool) {e : Bytes} (he : IsExt relaxed e) (rest : Bytes) : Foll relaxed (e ++ rest) := by
  cases he with
  | valueless w1 w2 n h1 h2 hn => simp only [List.append_assoc, List.cons_append]; exact foll_semi relaxed h1 _
  | valued w1 w2 n w3 w4 v h1 h2 hn h3 h4 hv => simp only [List.append_assoc, List.cons_append]; exact foll_semi relaxed h1 _

theorem foll_exts (relaxed : Bool) {es : Bytes} (he : IsExts relaxed es) (rest : Bytes) : Foll relaxed (es ++ rest) := by
  cases he with
  | one e h => exact foll_ext relaxed h rest
  | cons e es' h _ => rw [List.append_assoc]; exact foll_ext relaxed h _

/-- `parseOneChunkExtension` on the text of one extension (after its ";") followed by `t` -/
theorem oneExt_valueless {relaxed : Bool} {w2 n t : Bytes} (h2 : IsBwsRun relaxed w2) (hn : IsToken n) (ht : Foll relaxed t) :
    oneExt relaxed (w2 ++ n ++ t) = .ok t := by
  obtain ⟨b, t', rfl, hb, x, rest, hsk, hx⟩ := ht
  obtain ⟨hne, hall⟩ := hn
  cases n with
  | nil => exact absurd rfl hne
  | cons a r =>
    have ha : isTchar a = true := hall a (by simp)
    have hab : isBws relaxed a = false := by
      cases hh : isBws relaxed a with
      | false => rfl
      | true => have := ((sep_facts relaxed a).1 hh).1; rw [ha] at this; simp at this
    unfold oneExt
    rw [List.append_assoc, List.cons_append, bws_run _ h2 hab]
    simp only
    have := token_run (n := a :: r) t' ⟨hne, hall⟩ hb
    simp only [List.cons_append] at this
    rw [this]
    simp only
    have hbw : bws (wsp relaxed) (b :: t') = .ok (x :: rest) := by
      rw [bws_ok_iff]; exact ⟨hsk, by simp⟩
    rw [hbw]
    simp [hx]

theorem oneExt_valued {relaxed : Bool} {w2 n w3 w4 v t : Bytes} (h2 : IsBwsRun relaxed w2) (hn : IsToken n)
    (h3 : IsBwsRun relaxed w3) (h4 : IsBwsRun relaxed w4) (hv : IsVal v) (ht : Foll relaxed t) :
    oneExt relaxed (w2 ++ n ++ (w3 ++ 61 :: (w4 ++ v)) ++ t) = .ok t := by
  obtain ⟨b, t', rfl, hb, _⟩ := ht
  obtain ⟨hne, hall⟩ := hn
  cases n with
  | nil => exact absurd rfl hne
  | cons a r =>
    have ha : isTchar a = true := hall a (by simp)
    have hab : isBws relaxed a = false := by
      cases hh : isBws relaxed a with
      | false => rfl
      | true => have := ((sep_facts relaxed a).1 hh).1; rw [ha] at this; simp at this
    -- the octet after the name is BWS or "="; neither is a token octet
    have hnext : ∃ y ys, (w3 ++ 61 :: (w4 ++ v)) ++ b :: t' = y :: ys ∧ isTchar y = false := by
      cases w3 with
      | nil => exact ⟨61, _, rfl, (const_facts relaxed).2.2.2.2.2.2.2.2.2.2.1⟩
      | cons y ys => exact ⟨y, _, rfl, ((sep_facts relaxed y).1 (h3 y (by simp))).1⟩
    obtain ⟨y, ys, hy, hyt⟩ := hnext
    -- the first octet of the value is not BWS
    have hvhead : ∃ z zs, v ++ b :: t' = z :: zs ∧ isBws relaxed z = false := by
      cases hv with
      | token _ hvn =>
        obtain ⟨hvne, hvall⟩ := hvn
        cases v with
        | nil => exact absurd rfl hvne
        | cons z zs =>
          refine ⟨z, zs ++ b :: t', rfl, ?_⟩
          have hz : isTchar z = true := hvall z (by simp)
          cases hh : isBws relaxed z with
          | false => rfl
          | true => have := ((sep_facts relaxed z).1 hh).1; rw [hz] at this; simp at this
      | quoted q hq => exact ⟨34, _, rfl, (const_facts relaxed).2.2.2.2.2.2.2.2.2.2.2⟩
    obtain ⟨z, zs, hz, hzb⟩ := hvhead
    unfold oneExt
    rw [show w2 ++ (a :: r) ++ (w3 ++ 61 :: (w4 ++ v)) ++ b :: t' = w2 ++ a :: (r ++ ((w3 ++ 61 :: (w4 ++ v)) ++ b :: t')) by simp,
      bws_run _ h2 hab]
    simp only
    have := token_run (n := a :: r) ys ⟨hne, hall⟩ hyt
    simp only [List.cons_append] at this
    rw [hy, this]
    simp only
    rw [← hy, List.append_assoc, List.cons_append, bws_run _ h3 (const_facts relaxed).2.2.2.2.2.2.2.2.2.1]
    simp only [if_true]
    rw [List.append_assoc, hz, bws_run _ h4 hzb, ← hz]
    simp only
    exact val_run t' hv hb

theorem chunkExts_crlf (relaxed : Bool) (f : Nat) (rest c : Bytes) :
    chunkExts relaxed (f + 1) (13 :: 10 :: rest) c = .done (13 :: 10 :: rest) c := by
  simp only [chunkExts]
  cases relaxed
  · have : bws (wsp false) (13 :: 10 :: rest) = .ok (13 :: 10 :: rest) := by
      rw [bws_ok_iff]; exact ⟨skipAll_stop _ (by rw [wsp_eq]; decide), by simp⟩
    rw [this]; simp
  · have : bws (wsp true) (13 :: 10 :: rest) = .ok (10 :: rest) := by
      rw [bws_ok_iff]
      have h13 : (wsp true).mem 13 = true := by rw [wsp_eq]; decide
      have h10 : (wsp true).mem 10 = false := by rw [wsp_eq]; decide
      exact ⟨by simp [skipAll, List.dropWhile_cons, h13, h10], by simp⟩
    rw [this]; simp

/-- one extension, as `parseChunkExtensions` sees it: the loop moves to what follows -/
theorem chunkExts_step {relaxed : Bool} {e t : Bytes} (he : IsExt relaxed e) (ht : Foll relaxed t) (f : Nat) (c : Bytes) :
    chunkExts relaxed (f + 1) (e ++ t) c = chunkExts relaxed f t (if ChunkedSets.extCommit then t else c) := by
  cases he with
  | valueless w1 w2 n h1 h2 hn =>
    simp only [chunkExts]
    rw [show w1 ++ 59 :: (w2 ++ n) ++ t = w1 ++ 59 :: (w2 ++ n ++ t) by simp,
      bws_run _ h1 (const_facts relaxed).2.2.1]
    simp only [if_true]
    rw [oneExt_valueless h2 hn ht]
  | valued w1 w2 n w3 w4 v h1 h2 hn h3 h4 hv =>
    simp only [chunkExts]
    rw [show w1 ++ 59 :: (w2 ++ n ++ (w3 ++ 61 :: (w4 ++ v))) ++ t = w1 ++ 59 :: (w2 ++ n ++ (w3 ++ 61 :: (w4 ++ v)) ++ t) by simp,
      bws_run _ h1 (const_facts relaxed).2.2.1]
    simp only [if_true]
    rw [oneExt_valued h2 hn h3 h4 hv ht]

theorem ext_shape {relaxed : Bool} {e : Bytes} (he : IsExt relaxed e) :
    ∃ w1 body, IsBwsRun relaxed w1 ∧ e = w1 ++ 59 :: body := by
  cases he with
  | valueless w1 w2 n h1 h2 hn => exact ⟨w1, _, h1, rfl⟩
  | valued w1 w2 n w3 w4 v h1 h2 hn h3 h4 hv => exact ⟨w1, _, h1, rfl⟩

theorem exts_shape {relaxed : Bool} {es : Bytes} (he : IsExts relaxed es) :
    ∃ w1 body, IsBwsRun relaxed w1 ∧ es = w1 ++ 59 :: body := by
  cases he with
  | one e h => exact ext_shape h
  | cons e es' h _ =>
    obtain ⟨w1, body, h1, rfl⟩ := ext_shape h
    exact ⟨w1, body ++ es', h1, by simp⟩

theorem ext_length {relaxed : Bool} {e : Bytes} (he : IsExt relaxed e) : 1 ≤ e.length := by
  obtain ⟨w1, body, _, rfl⟩ := ext_shape he
  simp; omega

theorem chunkExts_list {relaxed : Bool} {es : Bytes} (he : IsExts relaxed es) (rest : Bytes) :
    ∀ (f : Nat) (c : Bytes), (es ++ 13 :: 10 :: rest).length < f →
      ∃ c', chunkExts relaxed f (es ++ 13 :: 10 :: rest) c = .done (13 :: 10 :: rest) c' := by
  induction he with
  | one e h =>
    intro f c hf
    cases f with
    | zero => omega
    | succ f =>
      rw [chunkExts_step h (foll_crlf relaxed rest)]
      cases f with
      | zero => simp at hf
      | succ f => exact ⟨_, chunkExts_crlf relaxed f rest _⟩
  | cons e es' h hes ih =>
    intro f c hf
    cases f with
    | zero => omega
    | succ f =>
      rw [List.append_assoc, chunkExts_step h (foll_exts relaxed hes _)]
      have := ext_length h
      exact ih f _ (by simp at hf ⊢; omega)

theorem strict_run {w : Bytes} {b : UInt8} (t : Bytes) (hw : IsWspRun w) (hb : isWsp b = false) :
    bws ChunkedSets.bwsStrict (w ++ b :: t) = .ok (b :: t) := by
  rw [bws_ok_iff]
  refine ⟨?_, by simp⟩
  rw [skipAll_run _ (fun x hx => by rw [bwsStrict_eq]; exact hw x hx), skipAll_stop _ (by rw [bwsStrict_eq]; exact hb)]

/-- `parseChunkMetadataSuffix` on the rest of a chunk header line -/
theorem metaSuffix_hdr {relaxed : Bool} {h : Bytes} (hh : IsHdrRest relaxed h) (rest : Bytes) :
    metaSuffix relaxed (h ++ rest) = .ok rest := by
  cases hh with
  | plain w0 hw =>
    unfold metaSuffix
    rw [show w0 ++ [13, 10] ++ rest = w0 ++ 13 :: (10 :: rest) by simp, strict_run _ hw (const_facts relaxed).2.2.2.2.2.2.1]
    simp only [List.length_cons]
    rw [chunkExts_crlf]
    simp [metaPost, skipCrlf]
  | exts es he =>
    unfold metaSuffix
    rw [show es ++ [13, 10] ++ rest = es ++ 13 :: 10 :: rest by simp]
    -- ParseStrictBws may eat leading SP/HTAB of the first extension's BWS; the extension loop does not care
    obtain ⟨w1, body, hw1, hes⟩ := exts_shape he
    have hE : es ++ 13 :: 10 :: rest = w1 ++ 59 :: (body ++ 13 :: 10 :: rest) := by rw [hes]; simp
    have hskW : skipAll (wsp relaxed) (es ++ 13 :: 10 :: rest) = 59 :: (body ++ 13 :: 10 :: rest) := by
      rw [hE, skipAll_run _ (fun x hx => by rw [wsp_eq]; exact hw1 x hx),
        skipAll_stop _ (by rw [wsp_eq]; exact (const_facts relaxed).2.2.1)]
    have hsub := skipAll_skipAll_of_sub (strict_sub_wsp relaxed) (es ++ 13 :: 10 :: rest)
    rw [hskW] at hsub
    have hne : skipAll ChunkedSets.bwsStrict (es ++ 13 :: 10 :: rest) ≠ [] := by
      intro h0; rw [h0] at hsub; simp [skipAll] at hsub
    have hs1 : bws ChunkedSets.bwsStrict (es ++ 13 :: 10 :: rest) = .ok (skipAll ChunkedSets.bwsStrict (es ++ 13 :: 10 :: rest)) := by
      rw [bws_ok_iff]; exact ⟨rfl, hne⟩
    rw [hs1]
    simp only
    generalize hs1d : skipAll ChunkedSets.bwsStrict (es ++ 13 :: 10 :: rest) = s1 at hsub hne
    have hl1 : s1.length ≤ (es ++ 13 :: 10 :: rest).length := by rw [← hs1d]; exact skipAll_length _ _
    rw [chunkExts_fuel (s1.length + 1) ((es ++ 13 :: 10 :: rest).length + 1) s1 _ (by omega) (by omega)]
    -- one unfolding: both start with the same `;`
    have hswap : chunkExts relaxed ((es ++ 13 :: 10 :: rest).length + 1) s1 (es ++ 13 :: 10 :: rest) =
        chunkExts relaxed ((es ++ 13 :: 10 :: rest).length + 1) (es ++ 13 :: 10 :: rest) (es ++ 13 :: 10 :: rest) := by
      simp only [chunkExts, bws, hsub, hskW]
      simp
    rw [hswap]
    obtain ⟨c', hc'⟩ := chunkExts_list he rest ((es ++ 13 :: 10 :: rest).length + 1) (es ++ 13 :: 10 :: rest) (by omega)
    rw [hc']
    simp [metaPost, skipCrlf]

/-! ### chunk-size -/

theorem int64Max_val : int64Max = 9223372036854775807 := by decide
theorem cutoff_val : cutoff = 576460752303423487 := by decide
theorem cutlim_val : cutlim = 15 := by decide

theorem hexValue_ge (ds : Bytes) (acc : Nat) : acc ≤ hexValue ds acc := by
  induction ds generalizing acc with
  | nil => simp [hexValue]
  | cons b r ih => simp only [hexValue]; have := ih (acc * 16 + (hexDigitVal b).getD 0); omega

theorem hexVal_of_isHex {b : UInt8} (h : isHex b = true) : hexVal b = (hexDigitVal b).getD 0 ∧ hexVal b < 16 := by
  rw [hexVal_eq]
  unfold isHex at h
  cases hv : hexDigitVal b with
  | none => simp [hv] at h
  | some v => have := hexDigitVal_lt b; simp [hv] at this ⊢; exact this

theorem hexVal_of_not_isHex {b : UInt8} (h : isHex b = false) : hexVal b ≥ 16 := by
  rw [hexVal_eq]
  unfold isHex at h
  cases hv : hexDigitVal b with
  | none => simp
  | some v => simp [hv] at h

theorem int64Loop_digits {ds : Bytes} {b : UInt8} (t : Bytes) (hb : isHex b = false) :
    ∀ (acc : Nat) (any : Int), (∀ x ∈ ds, isHex x = true) → hexValue ds acc ≤ int64Max → 0 ≤ any →
      int64Loop (ds ++ b :: t) any acc = (if ds = [] then any else 1, hexValue ds acc, b :: t) := by
  induction ds with
  | nil =>
    intro acc any _ _ _
    have := hexVal_of_not_isHex hb
    simp [int64Loop, this, hexValue]
  | cons x r ih =>
    intro acc any hall hmax hany
    obtain ⟨hx1, hx2⟩ := hexVal_of_isHex (hall x (by simp))
    simp only [List.cons_append, int64Loop, hexValue]
    have hnot : ¬ (hexVal x ≥ 16) := by omega
    simp only [hnot, if_false]
    have hge := hexValue_ge r (acc * 16 + (hexDigitVal x).getD 0)
    simp only [hexValue] at hmax
    have hov : ¬ (any < 0 ∨ acc > cutoff ∨ acc = cutoff ∧ hexVal x > cutlim) := by
      rw [cutoff_val, cutlim_val]
      rw [int64Max_val] at hmax
      omega
    rw [if_neg hov, hx1]
    rw [ih (acc * 16 + (hexDigitVal x).getD 0) 1 (fun y hy => hall y (by simp [hy])) hmax (by omega)]
    simp

theorem isHex_120 : isHex 120 = false ∧ isHex 88 = false := by decide

theorem parseChunkSize_digits {ds : Bytes} {size : Nat} {b : UInt8} (t : Bytes) (hs : IsSize ds size) (hlt : size < 2 ^ 63)
    (hb : isHex b = false) (hbx : b ≠ 120 ∧ b ≠ 88) :
    parseChunkSize (ds ++ b :: t) = .ok size (b :: t) := by
  obtain ⟨hne, hall, hval⟩ := hs
  have hmax : hexValue ds 0 ≤ int64Max := by rw [hval, int64Max_val]; omega
  have hloop := int64Loop_digits t hb 0 0 hall hmax (by omega)
  simp only [hne, if_false, hval] at hloop
  cases ds with
  | nil => exact absurd rfl hne
  | cons d r =>
    -- at least two octets; the second one is a digit or the follower, never x/X
    have hsecond : ∃ y ys, r ++ b :: t = y :: ys ∧ y ≠ 120 ∧ y ≠ 88 := by
      cases r with
      | nil => exact ⟨b, t, rfl, hbx⟩
      | cons y ys =>
        refine ⟨y, ys ++ b :: t, rfl, ?_⟩
        have hy : isHex y = true := hall y (by simp)
        constructor
        · intro h; rw [h, isHex_120.1] at hy; simp at hy
        · intro h; rw [h, isHex_120.2] at hy; simp at hy
    obtain ⟨y, ys, hy, hy1, hy2⟩ := hsecond
    simp only [List.cons_append] at hloop ⊢
    rw [hy] at hloop ⊢
    rw [parseChunkSize_two]
    have hban : banned d y = false := by simp [banned, hy1, hy2]
    simp [hban, hloop]

/-! ### trailers -/

theorem headersEndAux_line0 {l : Bytes} (rest : Bytes) (hl : ∀ b ∈ l, b ≠ 10) (e : Nat) :
    headersEndAux 0 e (l ++ 10 :: rest) = headersEndAux 1 (e + l.length + 1) rest := by
  induction l generalizing e with
  | nil => simp [headersEndAux]
  | cons a r ih =>
    have ha : a ≠ 10 := hl a (by simp)
    simp only [List.cons_append, headersEndAux, if_true, ha, if_false]
    rw [ih (fun b hb => hl b (by simp [hb]))]
    simp; congr 1; omega

theorem headersEndAux_line1 {l : Bytes} (rest : Bytes) (hne : l ≠ []) (hl : ∀ b ∈ l, b ≠ 10) (e : Nat) :
    headersEndAux 1 e (l ++ 13 :: 10 :: rest) = headersEndAux 1 (e + l.length + 2) rest := by
  cases l with
  | nil => exact absurd rfl hne
  | cons a m =>
    have ha : a ≠ 10 := hl a (by simp)
    have hm : ∀ b ∈ m ++ [13], b ≠ 10 := by
      intro b hb
      simp at hb
      rcases hb with hb | hb
      · exact hl b (by simp [hb])
      · rw [hb]; decide
    have e1 : (a :: m) ++ 13 :: 10 :: rest = a :: ((m ++ [13]) ++ 10 :: rest) := by simp
    rw [e1]
    simp only [headersEndAux]
    simp only [show ¬ ((1 : Nat) = 0) by decide, if_false, if_true]
    by_cases ha13 : a = 13
    · simp only [ha13, if_true]
      cases m with
      | nil =>
        simp [headersEndAux]
      | cons c m' =>
        have hc : c ≠ 10 := hl c (by simp)
        simp only [List.cons_append, headersEndAux, show ¬ ((2 : Nat) = 0) by decide, show ¬ ((2 : Nat) = 1) by decide, if_false, hc]
        have := headersEndAux_line0 (l := m' ++ [13]) rest (by
          intro b hb; exact hm b (by simp at hb ⊢; rcases hb with hb | hb <;> simp [hb])) (e + 1 + 1)
        rw [this]
        simp; congr 1; omega
    · simp only [ha13, ha, if_false]
      have := headersEndAux_line0 (l := m ++ [13]) rest hm (e + 1)
      rw [this]
      simp; congr 1; omega

theorem headersEndAux_lines {ls : Bytes} (hls : IsTrailerLines ls) (extra : Bytes) :
    ∀ e, headersEndAux 1 e (ls ++ 13 :: 10 :: extra) = e + ls.length + 2 := by
  induction hls with
  | nil => intro e; simp [headersEndAux]
  | cons l rest hne hl _ ih =>
    intro e
    rw [List.append_assoc, List.cons_append, List.cons_append, headersEndAux_line1 _ hne hl, ih]
    simp; omega

theorem headersEnd_trailer {t : Bytes} (ht : IsTrailer t) (extra : Bytes) :
    headersEnd (t ++ extra) = t.length ∧ t.length ≠ 0 ∧ t.length < ChunkedSets.trailerLimit := by
  obtain ⟨ls, hls, rfl, hlen⟩ := ht
  have key := headersEndAux_lines hls extra
  refine ⟨?_, by simp, ?_⟩
  · have := key 0
    simp only [headersEnd]
    rw [show ls ++ [13, 10] ++ extra = ls ++ 13 :: 10 :: extra by simp, this]
    simp
  · have : ChunkedSets.trailerLimit = trailerMax := by decide
    rw [this]; exact hlen

/-! ### the loop on a valid encoding -/

/-- what may follow chunk-size digits -/
def SizeFoll (s : Bytes) : Prop := ∃ b t, s = b :: t ∧ isHex b = false ∧ b ≠ 120 ∧ b ≠ 88

theorem hdr_sizeFoll {relaxed : Bool} {h : Bytes} (hh : IsHdrRest relaxed h) (rest : Bytes) : SizeFoll (h ++ rest) := by
  cases hh with
  | plain w0 hw =>
    cases w0 with
    | nil => exact ⟨13, _, rfl, (const_facts relaxed).2.2.2.2.2.1, by decide, by decide⟩
    | cons a r =>
      have h1 := (sep_facts relaxed a).2 (hw a (by simp))
      have h2 := (sep_facts relaxed a).1 h1.1
      exact ⟨a, _, rfl, h2.2.2.2.2.1, h2.2.2.2.2.2.1, h2.2.2.2.2.2.2⟩
  | exts es he =>
    obtain ⟨w1, body, hw1, rfl⟩ := exts_shape he
    cases w1 with
    | nil => exact ⟨59, _, rfl, (const_facts relaxed).2.2.2.2.1, by decide, by decide⟩
    | cons a r =>
      have h2 := (sep_facts relaxed a).1 (hw1 a (by simp))
      exact ⟨a, _, rfl, h2.2.2.2.2.1, h2.2.2.2.2.2.1, h2.2.2.2.2.2.2⟩

theorem iter_size (relaxed : Bool) {ds tail : Bytes} {size : Nat} (hs : IsSize ds size) (hlt : size < 2 ^ 63) (hf : SizeFoll tail)
    (cs l : Nat) (out : Bytes) :
    iter3 ⟨⟨.sz, cs, l⟩, ds ++ tail, out, 0⟩ = .again ⟨⟨.ext, size, size⟩, tail, out, 0⟩ := by
  obtain ⟨b, t, rfl, hb, hbx⟩ := hf
  unfold iter3
  rw [phaseMime_of_ne (by simp)]
  simp only [Ctl.andThen, szCheck, if_true, parseChunkSize_digits t hs hlt hb hbx]

theorem iter_chunk (relaxed : Bool) {h d ds tail : Bytes} {size size' : Nat} (hpos : 0 < size) (hd : d.length = size)
    (hh : IsHdrRest relaxed h) (hs : IsSize ds size') (hlt : size' < 2 ^ 63) (hf : SizeFoll tail) (out : Bytes) :
    iterU relaxed ⟨⟨.ext, size, size⟩, h ++ d ++ [13, 10] ++ ds ++ tail, out, 0⟩ =
      .again ⟨⟨.ext, size', size'⟩, tail, out ++ d, 0⟩ := by
  have e1 : h ++ d ++ [13, 10] ++ ds ++ tail = h ++ (d ++ 13 :: 10 :: (ds ++ tail)) := by simp
  unfold iterU
  have hne : size ≠ 0 := by omega
  have hext : phaseExt relaxed ⟨⟨.ext, size, size⟩, h ++ d ++ [13, 10] ++ ds ++ tail, out, 0⟩ =
      .next ⟨⟨.chunk, size, size⟩, d ++ 13 :: 10 :: (ds ++ tail), out, 0⟩ := by
    simp [phaseExt, e1, metaSuffix_hdr hh, hne]
  rw [hext]
  simp only [Ctl.andThen]
  unfold iter2
  rw [phaseChunkU_le (by rfl) (by simpa using hpos) (by simp; omega)]
  have hcopy : chunkCopy ⟨⟨.chunk, size, size⟩, d ++ 13 :: 10 :: (ds ++ tail), out, 0⟩ size =
      ⟨⟨.chunk, size, 0⟩, 13 :: 10 :: (ds ++ tail), out ++ d, 0⟩ := by
    simp only [chunkCopy, Nat.sub_self, Cfg.mk.injEq, true_and, and_true]
    constructor
    · rw [← hd]; simp
    · rw [← hd]; simp
  simp only
  rw [hcopy]
  simp only [chunkEnd, skipCrlf, if_true, Ctl.andThen]
  exact iter_size relaxed hs hlt hf 0 0 (out ++ d)

theorem iter_last (relaxed : Bool) {h t : Bytes} (hh : IsHdrRest relaxed h) (ht : IsTrailer t) (extra out : Bytes) :
    iterU relaxed ⟨⟨.ext, 0, 0⟩, h ++ t ++ extra, out, 0⟩ = .ret true ⟨⟨.done, 0, 0⟩, extra, out, 0⟩ := by
  unfold iterU
  have hext : phaseExt relaxed ⟨⟨.ext, 0, 0⟩, h ++ t ++ extra, out, 0⟩ = .next ⟨⟨.mime, 0, 0⟩, t ++ extra, out, 0⟩ := by
    simp [phaseExt, List.append_assoc, metaSuffix_hdr hh]
  rw [hext]
  simp only [Ctl.andThen]
  rw [iter2_of_ne (by simp)]
  unfold iter3
  obtain ⟨e1, e2, e3⟩ := headersEnd_trailer ht extra
  have hm : phaseMime ⟨⟨.mime, 0, 0⟩, t ++ extra, out, 0⟩ = .next ⟨⟨.done, 0, 0⟩, extra, out, 0⟩ := by
    have e3' : ¬ (t.length ≥ ChunkedSets.trailerLimit) := by omega
    simp [phaseMime, e1, e2, e3']
  rw [hm]
  simp only [Ctl.andThen]
  rw [szCheck_of_ne (by simp)]
  simp

theorem after_sizeFoll {relaxed : Bool} {size : Nat} {body enc : Bytes} (h : After relaxed size body enc) (extra : Bytes) :
    SizeFoll (enc ++ extra) := by
  cases h with
  | last h t hh ht => rw [List.append_assoc]; exact hdr_sizeFoll hh _
  | chunk size h d ds size' body' enc' _ _ _ hh _ _ _ => simp only [List.append_assoc]; exact hdr_sizeFoll hh _

theorem after_loop (relaxed : Bool) {size : Nat} {body enc : Bytes} (h : After relaxed size body enc) (extra : Bytes) :
    ∀ (out : Bytes) (F : Nat), (enc ++ extra).length < F →
      parseLoopU relaxed F ⟨⟨.ext, size, size⟩, enc ++ extra, out, 0⟩ = .ret true ⟨⟨.done, 0, 0⟩, extra, out ++ body, 0⟩ := by
  induction h with
  | last h t hh ht =>
    intro out F hF
    cases F with
    | zero => omega
    | succ F => simp only [parseLoopU]; rw [iter_last relaxed hh ht extra out]; simp
  | chunk size h d ds size' body' enc' hpos _ hd hh hs hlt hafter ih =>
    intro out F hF
    cases F with
    | zero => omega
    | succ F =>
      have hf := after_sizeFoll hafter extra
      have e1 : h ++ d ++ [13, 10] ++ ds ++ enc' ++ extra = h ++ d ++ [13, 10] ++ ds ++ (enc' ++ extra) := by simp
      simp only [parseLoopU]
      rw [e1, iter_chunk relaxed hpos hd hh hs hlt hf out]
      simp only
      rw [ih (out ++ d) F (by rw [e1] at hF; simp at hF ⊢; omega)]
      simp

/-- One `parse()` call with unlimited payload space on a grammar-valid encoding (followed by anything)
returns true, has appended exactly the body, and leaves exactly what follows the encoding unparsed. -/
theorem parseU_valid (relaxed : Bool) {body enc : Bytes} (h : Encodes relaxed body enc) (extra : Bytes) :
    parseU relaxed St.init (enc ++ extra) = .ret true ⟨⟨.done, 0, 0⟩, extra, body, 0⟩ := by
  obtain ⟨ds, size, tail, hs, hlt, hafter, rfl⟩ := h
  have hne : (ds ++ tail ++ extra).isEmpty = false := by
    obtain ⟨hne, _⟩ := hs
    cases ds with
    | nil => exact absurd rfl hne
    | cons a r => rfl
  simp only [parseU, hne, Bool.false_eq_true, if_false]
  have hnorm : norm St.init = ⟨.sz, 0, 0⟩ := by simp [norm, St.init]
  rw [hnorm]
  simp only [parseLoopU]
  have hf := after_sizeFoll hafter extra
  have hi : iterU relaxed ⟨⟨.sz, 0, 0⟩, ds ++ tail ++ extra, [], 0⟩ = .again ⟨⟨.ext, size, size⟩, tail ++ extra, [], 0⟩ := by
    rw [iterU_of_ne (by simp), iter2_of_ne (by simp), List.append_assoc]
    exact iter_size relaxed hs hlt hf 0 0 []
  rw [hi]
  simp only
  rw [after_loop relaxed hafter extra [] _ (by
    obtain ⟨hne, _⟩ := hs
    have : 1 ≤ ds.length := by cases ds <;> simp_all
    simp; omega)]
  simp

end SquidModel.Chunked
