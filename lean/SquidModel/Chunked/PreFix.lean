/-
Historical variant (before /repo db563bd): `parseChunkExtensions` moved the parse checkpoint `buf_` after every
single extension. Kept only to state what was wrong with it; nothing else depends on this file.
-/
import SquidModel.Chunked.Decoder

namespace SquidModel.Chunked.PreFix
open SquidModel.Chunked

/-- `parseChunkExtensions` with `buf_ = tok.remaining(); // got one extension` -/
def chunkExtsPre (relaxed : Bool) : Nat → Bytes → Bytes → ExtRes
  | 0, _, _ => .bad .fuel
  | f + 1, s, c =>
    match bws (wsp relaxed) s with
    | .need => .need c
    | .bad r => .bad r
    | .ok s1 =>
      match s1 with
      | [] => .done s c
      | b :: s2 =>
        if b = 59 then
          match oneExt relaxed s2 with
          | .need => .need c
          | .bad r => .bad r
          | .ok s3 => chunkExtsPre relaxed f s3 s3       -- the per-extension commit
        else .done s c

/-- `parseChunkMetadataSuffix` over that variant -/
def metaSuffixPre (relaxed : Bool) (s : Bytes) : MetaRes :=
  match bws Gen.ChunkedSets.bwsStrict s with
  | .need => .need s
  | .bad r => .bad r
  | .ok s1 => metaPost (chunkExtsPre relaxed (s1.length + 1) s1 s)

end SquidModel.Chunked.PreFix
