/-
Model of `Http::One::TeChunkedParser` (src/http/one/TeChunkedParser.cc), function by function.

State kept between `parse()` calls: `parsingStage_`, `theChunkSize`, `theLeftBodySize` (`St`) and the
unparsed input `buf_` that the caller takes back with `remaining()`. The payload `MemBuf` is modelled by
the octets appended to it during the call and by its `potentialSpaceSize()`.
`customExtensionValueParser` is null (as in HttpStateData and ConnStateData); chunk extension values are
parsed and ignored.
-/
import SquidModel.Chunked.Tok

namespace SquidModel.Chunked
open SquidModel.Gen

/-- `Http1::ParseState` values used by the decoder -/
inductive Stage
  | none | sz | ext | chunk | mime | done
  deriving DecidableEq, Repr

structure St where
  stage : Stage
  chunkSize : Nat    -- theChunkSize
  left : Nat         -- theLeftBodySize
  deriving DecidableEq, Repr

def St.init : St := ⟨.none, 0, 0⟩

/-- `Parser::WhitespaceCharacters()` -/
def wsp (relaxed : Bool) : CharSet := if relaxed then ChunkedSets.bwsRelaxed else ChunkedSets.bwsPlain

/-- `TeChunkedParser::parseOneChunkExtension(callerTok)`: `ok rest` = the new `callerTok` -/
def oneExt (relaxed : Bool) (s : Bytes) : Res :=
  match bws (wsp relaxed) s with                      -- ParseBws(tok)
  | .need => .need
  | .bad r => .bad r
  | .ok s1 =>
    match prefixReq ChunkedSets.extName .extName s1 with  -- extName = tok.prefix("chunk-ext-name", TCHAR)
    | .need => .need
    | .bad r => .bad r
    | .ok s2 =>                                       -- callerTok = tok
      match bws (wsp relaxed) s2 with                 -- ParseBws(tok)
      | .need => .need
      | .bad r => .bad r
      | .ok s3 =>
        match s3 with
        | [] => .ok s2
        | b :: s4 =>
          if b = 61 then                              -- tok.skip('=')
            match bws (wsp relaxed) s4 with           -- ParseBws(tok)
            | .need => .need
            | .bad r => .bad r
            | .ok s5 => tokenOrQuoted s5              -- Ignore(tok, extName); callerTok = tok
          else .ok s2                                 -- a valueless chunk-ext

inductive ExtRes
  | done (callerTok : Bytes) (committed : Bytes)   -- returned; `committed` is buf_
  | need (committed : Bytes)                       -- InsufficientInput thrown; buf_ = committed
  | bad (r : Rej)
  deriving DecidableEq, Repr

/-- `TeChunkedParser::parseChunkExtensions(callerTok)`; `c` is `buf_` (the last commit point) -/
def chunkExts (relaxed : Bool) : Nat → Bytes → Bytes → ExtRes
  | 0, _, _ => .bad .fuel
  | f + 1, s, c =>
    match bws (wsp relaxed) s with                    -- auto tok = callerTok; ParseBws(tok)
    | .need => .need c
    | .bad r => .bad r
    | .ok s1 =>
      match s1 with
      | [] => .done s c
      | b :: s2 =>
        if b = 59 then                                -- tok.skip(';')
          match oneExt relaxed s2 with
          | .need => .need c
          | .bad r => .bad r
          | .ok s3 =>                                 -- buf_ = tok.remaining() (when the code has it); callerTok = tok
            chunkExts relaxed f s3 (if ChunkedSets.extCommit then s3 else c)
        else .done s c                                -- reached the end of extensions (if any)

inductive MetaRes
  | ok (rest : Bytes)            -- returned true; buf_ = tok = rest
  | need (committed : Bytes)     -- returned false; buf_ = committed
  | bad (r : Rej)
  deriving DecidableEq, Repr

/-- the end of `parseChunkMetadataSuffix`: `tok.skipRequired("CRLF after [chunk-ext]", CrLf())` after
`parseChunkExtensions(tok)`, with the InsufficientInput handler -/
def metaPost : ExtRes → MetaRes
  | .need c => .need c                                -- tok.reset(buf_); return false
  | .bad r => .bad r
  | .done s2 c =>
    match skipCrlf .extCrlf s2 with
    | .ok s3 => .ok s3                                -- buf_ = tok.remaining(); return true
    | .need => .need c                                -- tok.reset(buf_); return false
    | .bad r => .bad r

/-- `TeChunkedParser::parseChunkMetadataSuffix(tok)` with `tok` and `buf_` both holding `s` -/
def metaSuffix (relaxed : Bool) (s : Bytes) : MetaRes :=
  match bws ChunkedSets.bwsStrict s with              -- ParseStrictBws(tok)
  | .need => .need s
  | .bad r => .bad r
  | .ok s1 => metaPost (chunkExts relaxed (s1.length + 1) s1 s)   -- parseChunkExtensions(tok)

/-- what one `parse()` call works on: parser state, tokenizer/`buf_`, octets appended to the payload
buffer in this call, and the payload buffer's remaining potential space -/
structure Cfg where
  st : St
  buf : Bytes
  out : Bytes
  space : Nat
  deriving DecidableEq, Repr

inductive Outcome
  | ret (done : Bool) (c : Cfg)          -- parse() returned `done`; remaining() = c.buf
  | threw (r : Rej) (out : Bytes)        -- a TextException escaped parse()
  deriving DecidableEq, Repr

/-- result of one conditional statement of the loop body -/
inductive Ctl
  | next (c : Cfg)          -- fall through to the next statement
  | retFalse (c : Cfg)      -- `return false`
  | threw (r : Rej) (out : Bytes)
  deriving DecidableEq, Repr

/-- `if (parsingStage_ == HTTP_PARSE_CHUNK_EXT && !parseChunkMetadataSuffix(tok)) return false;` -/
def phaseExt (relaxed : Bool) (c : Cfg) : Ctl :=
  if c.st.stage = .ext then
    match metaSuffix relaxed c.buf with
    | .ok rest => .next { c with buf := rest, st := { c.st with stage := if c.st.chunkSize ≠ 0 then .chunk else .mime } }
    | .need committed => .retFalse { c with buf := committed }
    | .bad r => .threw r c.out
  else .next c

/-- `TeChunkedParser::parseChunkEnd` -/
def chunkEnd (c : Cfg) : Ctl :=
  match skipCrlf .chunkCrlf c.buf with
  | .ok rest => .next { c with buf := rest, st := { c.st with chunkSize := 0, stage := .sz } }
  | .need => .retFalse c
  | .bad r => .threw r c.out

/-- the copying step of `parseChunkBody`: `theOut->append(buf_.rawContent(), safeSize); buf_.consume(safeSize);
theLeftBodySize -= safeSize;` -/
def chunkCopy (c : Cfg) (safe : Nat) : Cfg :=
  { st := { c.st with left := c.st.left - safe }, buf := c.buf.drop safe,
    out := c.out ++ c.buf.take safe, space := c.space - safe }

/-- `if (parsingStage_ == HTTP_PARSE_CHUNK && !parseChunkBody(tok)) return false;`
`.next` with the stage still `chunk` means parseChunkBody returned true with data or space missing. -/
def phaseChunk (c : Cfg) : Ctl :=
  if c.st.stage = .chunk then
    let c1 : Cfg :=
      if c.st.left > 0 then
        -- availSize = min(theLeftBodySize, buf_.length()); safeSize = min(availSize, potentialSpaceSize())
        chunkCopy c (min (min c.st.left c.buf.length) c.space)
      else c
    if c1.st.left = 0 then chunkEnd c1 else .next c1
  else .next c

/-- `if (parsingStage_ == HTTP_PARSE_MIME && !grabMimeBlock("Trailers", 64KB)) return false;`
(firstLineSize() is 0; the extracted trailer block itself is not modelled) -/
def phaseMime (c : Cfg) : Ctl :=
  if c.st.stage = .mime then
    let n := headersEnd c.buf
    if n ≠ 0 then
      if n ≥ ChunkedSets.trailerLimit then
        .retFalse { c with buf := c.buf.drop n, st := { c.st with stage := .done } }   -- scHeaderTooLarge
      else .next { c with buf := c.buf.drop n, st := { c.st with stage := .done } }
    else if c.buf.length ≥ ChunkedSets.trailerLimit then
      .retFalse { c with st := { c.st with stage := .done } }                          -- scHeaderTooLarge
    else .retFalse c
  else .next c

/-- `!needsMoreData() && !needsMoreSpace()` -/
def finished (c : Cfg) : Bool := c.st.stage = .done && !(c.st.stage = .chunk && c.space = 0)

/-- `while (parsingStage_ == HTTP_PARSE_CHUNK_SZ && parseChunkSize(tok))`, or the final
`return !needsMoreData() && !needsMoreSpace();` -/
inductive Iter
  | again (c : Cfg)                      -- the loop condition held
  | ret (done : Bool) (c : Cfg)
  | threw (r : Rej) (out : Bytes)
  deriving DecidableEq, Repr

def szCheck (c : Cfg) : Iter :=
  if c.st.stage = .sz then
    match parseChunkSize c.buf with
    | .ok size rest => .again { c with buf := rest, st := ⟨.ext, size, size⟩ }
    | .needMore => .ret (finished c) c
    | .bad r => .threw r c.out
  else .ret (finished c) c

/-- one pass through the body and the condition of the do-while loop of `TeChunkedParser::parse` -/
def iteration (relaxed : Bool) (c : Cfg) : Iter :=
  match phaseExt relaxed c with
  | .threw r o => .threw r o
  | .retFalse c' => .ret false c'
  | .next c1 =>
    match phaseChunk c1 with
    | .threw r o => .threw r o
    | .retFalse c' => .ret false c'
    | .next c2 =>
      match phaseMime c2 with
      | .threw r o => .threw r o
      | .retFalse c' => .ret false c'
      | .next c3 => szCheck c3

/-- the do-while loop of `TeChunkedParser::parse` -/
def parseLoop (relaxed : Bool) : Nat → Cfg → Outcome
  | 0, c => .threw .fuel c.out
  | f + 1, c =>
    match iteration relaxed c with
    | .again c' => parseLoop relaxed f c'
    | .ret d c' => .ret d c'
    | .threw r o => .threw r o

/-- `TeChunkedParser::parse(aBuf)` with the payload buffer offering `space` octets -/
def parse (relaxed : Bool) (st : St) (aBuf : Bytes) (space : Nat) : Outcome :=
  if aBuf.isEmpty then .ret false ⟨st, aBuf, [], space⟩
  else
    let st1 := if st.stage = .none then { st with stage := .sz } else st
    parseLoop relaxed (aBuf.length + 1) ⟨st1, aBuf, [], space⟩

end SquidModel.Chunked
