/-
`Tokenizer::int64` / `parseChunkSize`: stability under input extension, the 63-bit bound, and the
absence of signed overflow in the accumulator.
-/
import SquidModel.Chunked.Stable

namespace SquidModel.Chunked
open SquidModel.Gen

theorem int64Loop_append (s m : Bytes) (any : Int) (acc : Nat) :
    int64Loop (s ++ m) any acc =
      (if (int64Loop s any acc).2.2 = [] then int64Loop m (int64Loop s any acc).1 (int64Loop s any acc).2.1
       else ((int64Loop s any acc).1, (int64Loop s any acc).2.1, (int64Loop s any acc).2.2 ++ m)) := by
  induction s generalizing any acc with
  | nil => simp [int64Loop]
  | cons b t ih =>
    simp only [List.cons_append, int64Loop]
    split
    · simp
    · split
      · exact ih _ _
      · exact ih _ _

theorem int64Loop_length (s : Bytes) (any : Int) (acc : Nat) : (int64Loop s any acc).2.2.length ≤ s.length := by
  induction s generalizing any acc with
  | nil => simp [int64Loop]
  | cons b t ih =>
    simp only [int64Loop]
    split
    · simp
    · split
      · have := ih (-1) acc; simp; omega
      · have := ih 1 (acc * 16 + hexVal b); simp; omega

/-- nothing consumed ⇔ `any` unchanged -/
theorem int64Loop_any_zero (s : Bytes) (acc : Nat) : (int64Loop s 0 acc).1 = 0 → (int64Loop s 0 acc).2.2 = s := by
  cases s with
  | nil => simp [int64Loop]
  | cons b t =>
    simp only [int64Loop]
    split
    · simp
    · have hne : ∀ (t : Bytes) (any : Int) (acc : Nat), any ≠ 0 → (int64Loop t any acc).1 ≠ 0 := by
        intro t
        induction t with
        | nil => intro any acc h; simpa [int64Loop] using h
        | cons c t ih =>
          intro any acc h
          simp only [int64Loop]
          split
          · simpa using h
          · split
            · exact ih _ _ (by omega)
            · exact ih _ _ (by omega)
      split
      · intro h; exact absurd h (hne _ _ _ (by omega))
      · intro h; exact absurd h (hne _ _ _ (by omega))

theorem int64Loop_neg (s : Bytes) (any : Int) (acc : Nat) (h : any < 0) : (int64Loop s any acc).1 < 0 := by
  induction s generalizing any acc with
  | nil => simpa [int64Loop] using h
  | cons b t ih =>
    simp only [int64Loop]
    split
    · simpa using h
    · split
      · exact ih _ _ (by omega)
      · rename_i hc; exact absurd (Or.inl h) hc

theorem int64Loop_consumed (s : Bytes) (acc : Nat) (h : (int64Loop s 0 acc).1 ≠ 0) :
    (int64Loop s 0 acc).2.2.length < s.length := by
  cases s with
  | nil => simp [int64Loop] at h
  | cons b t =>
    simp only [int64Loop] at h ⊢
    split
    · rename_i hb; simp [hb] at h
    · split
      · have := int64Loop_length t (-1) acc; simp; omega
      · have := int64Loop_length t 1 (acc * 16 + hexVal b); simp; omega

/-- the banned-prefix test of parseChunkSize, on an input of at least two octets -/
def banned (b x : UInt8) : Bool := b == 48 && (x == 120 || x == 88)

theorem startsWith_banned (b x : UInt8) (r : Bytes) :
    (startsWith [48, 120] (b :: x :: r) || startsWith [48, 88] (b :: x :: r)) = banned b x := by
  simp only [startsWith, banned, Bool.and_true]
  rw [BEq.comm (a := (48 : UInt8)), BEq.comm (a := (120 : UInt8)), BEq.comm (a := (88 : UInt8))]
  cases (b == 48) <;> simp

theorem startsWith_one (p q b : UInt8) : startsWith [p, q] [b] = false := by
  simp [startsWith]

theorem cutoff_ne_zero : (0 : Nat) ≠ cutoff := by decide

theorem parseChunkSize_one (b : UInt8) :
    parseChunkSize [b] = if hexVal b ≥ 16 then .bad .size else .needMore := by
  simp only [parseChunkSize, startsWith_one, Bool.or_self, Bool.false_eq_true, if_false, int64, List.isEmpty_cons, int64Loop]
  by_cases hb : hexVal b ≥ 16
  · simp [hb]
  · have hc := cutoff_ne_zero
    have h2 : ¬ ((0 : Int) < 0 ∨ 0 > cutoff ∨ 0 = cutoff ∧ hexVal b > cutlim) := by omega
    simp only [hb, if_false, h2, int64Loop]
    simp

/-- what parseChunkSize computes on an input of at least two octets -/
theorem parseChunkSize_two (b x : UInt8) (r : Bytes) :
    parseChunkSize (b :: x :: r) =
      if banned b x then .bad .zeroX else
      if (int64Loop (b :: x :: r) 0 0).1 = 0 then .bad .size
      else if (int64Loop (b :: x :: r) 0 0).1 < 0 then .bad .size
      else if (int64Loop (b :: x :: r) 0 0).2.2 = [] then .needMore
      else .ok (int64Loop (b :: x :: r) 0 0).2.1 (int64Loop (b :: x :: r) 0 0).2.2 := by
  unfold parseChunkSize
  rw [startsWith_banned]
  by_cases hb : banned b x = true
  · simp [hb]
  · simp only [hb, Bool.false_eq_true, if_false]
    have hs1 : (if b = 48 ∧ (x = 120 ∨ x = 88) then r else b :: x :: r) = b :: x :: r := by
      split
      · rename_i h
        exfalso; apply hb
        simp only [banned, Bool.and_eq_true, beq_iff_eq, Bool.or_eq_true]
        exact h
      · rfl
    simp only [int64, List.isEmpty_cons, Bool.false_eq_true, if_false, hs1]
    generalize int64Loop (b :: x :: r) 0 0 = res
    obtain ⟨any, acc, rest⟩ := res
    simp only
    by_cases h0 : any = 0
    · simp [h0]
    · by_cases hneg : any < 0
      · simp [h0, hneg]
      · simp only [h0, hneg, if_false]
        cases rest <;> simp

theorem parseChunkSize_ok_append {s rest : Bytes} {size : Nat} (m : Bytes) (h : parseChunkSize s = .ok size rest) :
    parseChunkSize (s ++ m) = .ok size (rest ++ m) := by
  match s with
  | [] => simp [parseChunkSize, int64, startsWith] at h
  | [b] =>
    rw [parseChunkSize_one] at h
    split at h <;> simp at h
  | b :: x :: r =>
    rw [parseChunkSize_two] at h
    simp only [List.cons_append]
    rw [parseChunkSize_two]
    have happ := int64Loop_append (b :: x :: r) m 0 0
    simp only [List.cons_append] at happ
    by_cases hb : banned b x = true
    · simp [hb] at h
    · by_cases h0 : (int64Loop (b :: x :: r) 0 0).1 = 0
      · simp [hb, h0] at h
      · by_cases hneg : (int64Loop (b :: x :: r) 0 0).1 < 0
        · simp [hb, h0, hneg] at h
        · by_cases hne : (int64Loop (b :: x :: r) 0 0).2.2 = []
          · simp [hb, h0, hneg, hne] at h
          · simp only [hb, h0, hneg, hne, if_false, Bool.false_eq_true, SzRes.ok.injEq] at h
            rw [happ]
            simp only [hb, hne, if_false, h0, hneg, Bool.false_eq_true]
            have : (int64Loop (b :: x :: r) 0 0).2.2 ++ m ≠ [] := by simp [hne]
            simp only [this, if_false, SzRes.ok.injEq]
            exact ⟨h.1, by rw [h.2]⟩

theorem parseChunkSize_bad_append {s : Bytes} {e : Rej} (m : Bytes) (h : parseChunkSize s = .bad e) :
    parseChunkSize (s ++ m) = .bad e := by
  match s with
  | [] => simp [parseChunkSize, int64, startsWith] at h
  | [b] =>
    rw [parseChunkSize_one] at h
    by_cases hb : hexVal b ≥ 16
    · -- b is not a digit: nothing is parsed whatever follows
      simp only [hb, if_true, SzRes.bad.injEq] at h
      subst h
      cases m with
      | nil => simp [parseChunkSize_one, hb]
      | cons x r =>
        simp only [List.cons_append, List.nil_append]
        rw [parseChunkSize_two]
        have hb48 : b ≠ 48 := by
          intro h48; subst h48; revert hb; decide
        simp [banned, hb48, int64Loop, hb]
    · simp [hb] at h
  | b :: x :: r =>
    rw [parseChunkSize_two] at h
    simp only [List.cons_append]
    rw [parseChunkSize_two]
    have happ := int64Loop_append (b :: x :: r) m 0 0
    simp only [List.cons_append] at happ
    by_cases hb : banned b x = true
    · simp only [hb, if_true] at h ⊢; exact h
    · by_cases h0 : (int64Loop (b :: x :: r) 0 0).1 = 0
      · have hrest := int64Loop_any_zero (b :: x :: r) 0 h0
        simp only [hb, h0, if_true, Bool.false_eq_true, if_false] at h
        rw [happ]
        simp only [hb, hrest, List.cons_ne_nil, if_false, h0, if_true, Bool.false_eq_true]
        exact h
      · by_cases hneg : (int64Loop (b :: x :: r) 0 0).1 < 0
        · simp only [hb, h0, hneg, if_true, Bool.false_eq_true, if_false] at h
          rw [happ]
          by_cases hne : (int64Loop (b :: x :: r) 0 0).2.2 = []
          · have hn := int64Loop_neg m _ (int64Loop (b :: x :: r) 0 0).2.1 hneg
            have h1 : (int64Loop m (int64Loop (b :: x :: r) 0 0).1 (int64Loop (b :: x :: r) 0 0).2.1).1 ≠ 0 := by omega
            simp only [hb, hne, if_true, h1, if_false, hn, Bool.false_eq_true]
            exact h
          · simp only [hb, hne, h0, if_false, hneg, if_true, Bool.false_eq_true]
            exact h
        · by_cases hne : (int64Loop (b :: x :: r) 0 0).2.2 = [] <;> simp [hb, h0, hneg, hne] at h

theorem parseChunkSize_ok_length {s rest : Bytes} {size : Nat} (h : parseChunkSize s = .ok size rest) :
    rest.length < s.length := by
  match s with
  | [] => simp [parseChunkSize, int64, startsWith] at h
  | [b] =>
    rw [parseChunkSize_one] at h
    split at h <;> simp at h
  | b :: x :: r =>
    rw [parseChunkSize_two] at h
    by_cases hb : banned b x = true
    · simp [hb] at h
    · by_cases h0 : (int64Loop (b :: x :: r) 0 0).1 = 0
      · simp [hb, h0] at h
      · by_cases hneg : (int64Loop (b :: x :: r) 0 0).1 < 0
        · simp [hb, h0, hneg] at h
        · by_cases hne : (int64Loop (b :: x :: r) 0 0).2.2 = []
          · simp [hb, h0, hneg, hne] at h
          · simp only [hb, h0, hneg, hne, if_false, Bool.false_eq_true, SzRes.ok.injEq] at h
            rw [← h.2]
            exact int64Loop_consumed _ 0 h0

end SquidModel.Chunked
