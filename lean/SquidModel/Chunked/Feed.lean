/-
The caller's side of the decoder, as in `HttpStateData::decodeAndWriteReplyBody` and the request-body
pipe code: arriving segments are appended to the unparsed rest, `parse()` is called with a payload buffer
of bounded potential space, `remaining()` is taken back, the decoded octets are moved on; while the
parser reports `needsMoreSpace()` (and has input) a fresh payload buffer is offered.
-/
import SquidModel.Chunked.Decoder

namespace SquidModel.Chunked

inductive Verdict
  | more                 -- needs more data
  | done                 -- parse() returned true: the last chunk and the trailers were consumed
  | tooLarge             -- parse() returned false with needsMoreData() false (trailers over the limit)
  | reject (r : Rej)     -- a TextException escaped
  deriving DecidableEq, Repr

structure Run where
  st : St
  inBuf : Bytes          -- unparsed input held by the caller
  out : Bytes            -- all decoded octets so far
  verdict : Verdict
  calls : Nat            -- number of parse() calls so far (selects the capacity offered next)
  deriving DecidableEq, Repr

def Run.init : Run := ⟨St.init, [], [], .more, 0⟩

/-- parse() calls on the current `inBuf` until the parser stops asking for space -/
def offer (relaxed : Bool) (capOf : Nat → Nat) : Nat → Run → Run
  | 0, r => { r with verdict := .reject .fuel }
  | f + 1, r =>
    match parse relaxed r.st r.inBuf (capOf r.calls) with
    | .threw rj o => { r with out := r.out ++ o, verdict := .reject rj, calls := r.calls + 1 }
    | .ret done c =>
      let r' : Run := { st := c.st, inBuf := c.buf, out := r.out ++ c.out, verdict := .more, calls := r.calls + 1 }
      if done then { r' with verdict := .done }
      else if c.st.stage = .done then { r' with verdict := .tooLarge }
      else if (c.st.stage = .chunk && c.space = 0) && !c.buf.isEmpty then offer relaxed capOf f r'   -- needsMoreSpace()
      else r'

/-- one arriving segment -/
def feed (relaxed : Bool) (capOf : Nat → Nat) (r : Run) (seg : Bytes) : Run :=
  if r.verdict = .more then
    offer relaxed capOf (r.inBuf.length + seg.length + 1) { r with inBuf := r.inBuf ++ seg }
  else r

def feedAll (relaxed : Bool) (capOf : Nat → Nat) (segs : List Bytes) : Run :=
  segs.foldl (feed relaxed capOf) Run.init

end SquidModel.Chunked
