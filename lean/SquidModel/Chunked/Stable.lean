/-
Stability of the tokenizer-level functions under input extension: a result that is not
"insufficient input" does not change when more octets are appended (the rest grows by the same octets).
-/
import SquidModel.Chunked.Decoder
import SquidModel.Chunked.Facts

namespace SquidModel.Chunked
open SquidModel.Gen

theorem skipAll_append {cs : CharSet} {s : Bytes} (m : Bytes) (h : skipAll cs s ≠ []) :
    skipAll cs (s ++ m) = skipAll cs s ++ m := by
  unfold skipAll at *
  rw [List.dropWhile_append]
  simp [h]

theorem skipAll_length (cs : CharSet) (s : Bytes) : (skipAll cs s).length ≤ s.length := by
  unfold skipAll
  induction s with
  | nil => simp
  | cons a t ih => simp only [List.dropWhile_cons]; split <;> simp <;> omega

/-! ### bws -/

theorem bws_ok_iff {cs : CharSet} {s r : Bytes} : bws cs s = .ok r ↔ (skipAll cs s = r ∧ r ≠ []) := by
  unfold bws
  cases h : skipAll cs s with
  | nil => simp
  | cons a t => simp; intro h'; subst h'; simp

theorem bws_ne_bad {cs : CharSet} {s : Bytes} {e : Rej} : bws cs s ≠ .bad e := by
  unfold bws; split <;> simp

theorem bws_ok_append {cs : CharSet} {s r : Bytes} (m : Bytes) (h : bws cs s = .ok r) :
    bws cs (s ++ m) = .ok (r ++ m) := by
  rw [bws_ok_iff] at h ⊢
  obtain ⟨h1, h2⟩ := h
  subst h1
  exact ⟨skipAll_append m h2, by simp [h2]⟩

theorem bws_ok_length {cs : CharSet} {s r : Bytes} (h : bws cs s = .ok r) : r.length ≤ s.length := by
  rw [bws_ok_iff] at h; rw [← h.1]; exact skipAll_length cs s

/-! ### prefixReq -/

theorem prefixReq_ok_append {cs : CharSet} {rej : Rej} {s r : Bytes} (m : Bytes) (h : prefixReq cs rej s = .ok r) :
    prefixReq cs rej (s ++ m) = .ok (r ++ m) := by
  cases s with
  | nil => simp [prefixReq] at h
  | cons b t =>
    simp only [prefixReq, List.cons_append] at h ⊢
    split at h
    · simp at h
    · rename_i hb
      split at h
      · simp at h
      · rename_i hne
        simp only [Res.ok.injEq] at h
        subst h
        have hne' : skipAll cs (b :: t) ≠ [] := by simpa using hne
        have := skipAll_append m hne'
        simp only [List.cons_append] at this
        simp [hb, this, hne']

theorem prefixReq_bad_append {cs : CharSet} {rej : Rej} {s : Bytes} {e : Rej} (m : Bytes) (h : prefixReq cs rej s = .bad e) :
    prefixReq cs rej (s ++ m) = .bad e := by
  cases s with
  | nil => simp [prefixReq] at h
  | cons b t =>
    simp only [prefixReq, List.cons_append] at h ⊢
    split at h
    · rename_i hb; simp [hb] at h ⊢; exact h
    · split at h <;> simp at h

theorem prefixReq_ok_length {cs : CharSet} {rej : Rej} {s r : Bytes} (h : prefixReq cs rej s = .ok r) : r.length < s.length := by
  cases s with
  | nil => simp [prefixReq] at h
  | cons b t =>
    simp only [prefixReq] at h
    split at h
    · simp at h
    · rename_i hb
      split at h
      · simp at h
      · simp only [Res.ok.injEq] at h
        subst h
        have hb' : cs.mem b = true := by simpa using hb
        simp only [skipAll, List.dropWhile_cons, hb', if_true]
        have := skipAll_length cs t
        simp only [skipAll] at this
        simp; omega

/-! ### skipCrlf -/

theorem skipCrlf_ok_iff {rej : Rej} {s r : Bytes} : skipCrlf rej s = .ok r ↔ s = 13 :: 10 :: r := by
  match s with
  | [] => simp [skipCrlf]
  | [b] => simp only [skipCrlf]; split <;> simp
  | b :: c :: t =>
    simp only [skipCrlf]
    split
    · split <;> simp_all
    · simp_all

theorem skipCrlf_ok_append {rej : Rej} {s r : Bytes} (m : Bytes) (h : skipCrlf rej s = .ok r) :
    skipCrlf rej (s ++ m) = .ok (r ++ m) := by
  rw [skipCrlf_ok_iff] at h ⊢
  subst h; rfl

theorem skipCrlf_bad_append {rej : Rej} {s : Bytes} {e : Rej} (m : Bytes) (h : skipCrlf rej s = .bad e) :
    skipCrlf rej (s ++ m) = .bad e := by
  match s with
  | [] => simp [skipCrlf] at h
  | [b] =>
    simp only [skipCrlf, List.cons_append, List.nil_append] at h ⊢
    split at h
    · simp at h
    · rename_i hb; simp [hb]; simpa using h
  | b :: c :: t =>
    simp only [skipCrlf, List.cons_append] at h ⊢
    split at h
    · rename_i hb
      split at h
      · simp at h
      · rename_i hc; simp [hb, hc]; simpa using h
    · rename_i hb; simp [hb]; simpa using h

theorem skipCrlf_ok_length {rej : Rej} {s r : Bytes} (h : skipCrlf rej s = .ok r) : r.length + 2 = s.length := by
  rw [skipCrlf_ok_iff] at h; subst h; simp

/-! ### quoted strings and tokens -/

theorem quotedAux_ok_append {esc : Bool} {s r : Bytes} (m : Bytes) (h : quotedAux esc s = .ok r) :
    quotedAux esc (s ++ m) = .ok (r ++ m) := by
  induction s generalizing esc with
  | nil => simp [quotedAux] at h
  | cons b t ih =>
    cases esc
    · simp only [quotedAux, List.cons_append] at h ⊢
      split at h
      · rename_i hq; simp only [hq, if_true]; exact ih h
      · rename_i hq
        simp only [hq]
        split at h
        · rename_i hb; simp only [hb, if_true]; exact ih h
        · rename_i hb
          split at h
          · rename_i hb2; simp only [Res.ok.injEq] at h; subst h; simp [hb2]
          · simp at h
    · simp only [quotedAux, List.cons_append] at h ⊢
      split at h
      · rename_i hq; simp only [hq, if_true]; exact ih h
      · simp at h

theorem quotedAux_bad_append {esc : Bool} {s : Bytes} {e : Rej} (m : Bytes) (h : quotedAux esc s = .bad e) :
    quotedAux esc (s ++ m) = .bad e := by
  induction s generalizing esc with
  | nil => simp [quotedAux] at h
  | cons b t ih =>
    cases esc
    · simp only [quotedAux, List.cons_append] at h ⊢
      split at h
      · rename_i hq; simp only [hq, if_true]; exact ih h
      · rename_i hq
        simp only [hq]
        split at h
        · rename_i hb; simp only [hb, if_true]; exact ih h
        · rename_i hb
          split at h
          · simp at h
          · rename_i hb2; simp [hb, hb2]; simpa using h
    · simp only [quotedAux, List.cons_append] at h ⊢
      split at h
      · rename_i hq; simp only [hq, if_true]; exact ih h
      · rename_i hq; simp [hq]; simpa using h

theorem quotedAux_ok_length {esc : Bool} {s r : Bytes} (h : quotedAux esc s = .ok r) : r.length < s.length := by
  induction s generalizing esc with
  | nil => simp [quotedAux] at h
  | cons b t ih =>
    cases esc
    · simp only [quotedAux] at h
      split at h
      · have := ih h; simp; omega
      · split at h
        · have := ih h; simp; omega
        · split at h
          · simp only [Res.ok.injEq] at h; subst h; simp
          · simp at h
    · simp only [quotedAux] at h
      split at h
      · have := ih h; simp; omega
      · simp at h

theorem tokenOrQuoted_ok_append {s r : Bytes} (m : Bytes) (h : tokenOrQuoted s = .ok r) :
    tokenOrQuoted (s ++ m) = .ok (r ++ m) := by
  cases s with
  | nil => simp [tokenOrQuoted] at h
  | cons b t =>
    simp only [tokenOrQuoted, List.cons_append] at h ⊢
    split at h
    · rename_i hb; simp only [hb, if_true]; exact quotedAux_ok_append m h
    · rename_i hb
      simp only [hb]
      split at h
      · simp at h
      · rename_i ht
        split at h
        · simp at h
        · rename_i hne
          simp only [Res.ok.injEq] at h
          subst h
          have hne' : skipAll ChunkedSets.tokenVal (b :: t) ≠ [] := by simpa using hne
          have := skipAll_append m hne'
          simp only [List.cons_append] at this
          simp [ht, this, hne']

theorem tokenOrQuoted_bad_append {s : Bytes} {e : Rej} (m : Bytes) (h : tokenOrQuoted s = .bad e) :
    tokenOrQuoted (s ++ m) = .bad e := by
  cases s with
  | nil => simp [tokenOrQuoted] at h
  | cons b t =>
    simp only [tokenOrQuoted, List.cons_append] at h ⊢
    split at h
    · rename_i hb; simp only [hb, if_true]; exact quotedAux_bad_append m h
    · rename_i hb
      simp only [hb]
      split at h
      · rename_i ht; simp [ht]; simpa using h
      · split at h <;> simp at h

theorem tokenOrQuoted_ok_length {s r : Bytes} (h : tokenOrQuoted s = .ok r) : r.length < s.length := by
  cases s with
  | nil => simp [tokenOrQuoted] at h
  | cons b t =>
    simp only [tokenOrQuoted] at h
    split at h
    · have := quotedAux_ok_length h; simp; omega
    · split at h
      · simp at h
      · rename_i ht
        split at h
        · simp at h
        · simp only [Res.ok.injEq] at h
          subst h
          have hb' : ChunkedSets.tokenVal.mem b = true := by simpa using ht
          simp only [skipAll, List.dropWhile_cons, hb', if_true]
          have := skipAll_length ChunkedSets.tokenVal t
          simp only [skipAll] at this
          simp; omega

/-! ### one chunk extension -/

theorem bws_ok_head {cs : CharSet} {s r : Bytes} (h : bws cs s = .ok r) : ∃ b t, r = b :: t := by
  have := (bws_ok_iff.mp h).2
  cases r with
  | nil => exact absurd rfl this
  | cons b t => exact ⟨b, t, rfl⟩

theorem oneExt_ok_append {relaxed : Bool} {s r : Bytes} (m : Bytes) (h : oneExt relaxed s = .ok r) :
    oneExt relaxed (s ++ m) = .ok (r ++ m) := by
  unfold oneExt at h ⊢
  cases h1 : bws (wsp relaxed) s with
  | need => simp [h1] at h
  | bad e => simp [h1] at h
  | ok s1 =>
    simp only [h1, bws_ok_append m h1] at h ⊢
    cases h2 : prefixReq ChunkedSets.extName .extName s1 with
    | need => simp [h2] at h
    | bad e => simp [h2] at h
    | ok s2 =>
      simp only [h2, prefixReq_ok_append m h2] at h ⊢
      cases h3 : bws (wsp relaxed) s2 with
      | need => simp [h3] at h
      | bad e => simp [h3] at h
      | ok s3 =>
        simp only [h3, bws_ok_append m h3] at h ⊢
        obtain ⟨b, t, rfl⟩ := bws_ok_head h3
        simp only [List.cons_append] at h ⊢
        by_cases hb : b = 61
        · simp only [hb, if_true] at h ⊢
          cases h4 : bws (wsp relaxed) t with
          | need => simp [h4] at h
          | bad e => simp [h4] at h
          | ok s5 =>
            simp only [h4, bws_ok_append m h4] at h ⊢
            exact tokenOrQuoted_ok_append m h
        · simp only [hb, if_false, Res.ok.injEq] at h ⊢
          subst h
          rfl

theorem oneExt_bad_append {relaxed : Bool} {s : Bytes} {e : Rej} (m : Bytes) (h : oneExt relaxed s = .bad e) :
    oneExt relaxed (s ++ m) = .bad e := by
  unfold oneExt at h ⊢
  cases h1 : bws (wsp relaxed) s with
  | need => simp [h1] at h
  | bad e => exact absurd h1 bws_ne_bad
  | ok s1 =>
    simp only [h1, bws_ok_append m h1] at h ⊢
    cases h2 : prefixReq ChunkedSets.extName .extName s1 with
    | need => simp [h2] at h
    | bad e' => simp only [h2, prefixReq_bad_append m h2] at h ⊢; exact h
    | ok s2 =>
      simp only [h2, prefixReq_ok_append m h2] at h ⊢
      cases h3 : bws (wsp relaxed) s2 with
      | need => simp [h3] at h
      | bad e => exact absurd h3 bws_ne_bad
      | ok s3 =>
        simp only [h3, bws_ok_append m h3] at h ⊢
        obtain ⟨b, t, rfl⟩ := bws_ok_head h3
        simp only [List.cons_append] at h ⊢
        by_cases hb : b = 61
        · simp only [hb, if_true] at h ⊢
          cases h4 : bws (wsp relaxed) t with
          | need => simp [h4] at h
          | bad e => exact absurd h4 bws_ne_bad
          | ok s5 =>
            simp only [h4, bws_ok_append m h4] at h ⊢
            exact tokenOrQuoted_bad_append m h
        · simp [hb] at h

theorem oneExt_ok_length {relaxed : Bool} {s r : Bytes} (h : oneExt relaxed s = .ok r) : r.length < s.length := by
  unfold oneExt at h
  cases h1 : bws (wsp relaxed) s with
  | need => simp [h1] at h
  | bad e => simp [h1] at h
  | ok s1 =>
    simp only [h1] at h
    have l1 := bws_ok_length h1
    cases h2 : prefixReq ChunkedSets.extName .extName s1 with
    | need => simp [h2] at h
    | bad e => simp [h2] at h
    | ok s2 =>
      simp only [h2] at h
      have l2 := prefixReq_ok_length h2
      cases h3 : bws (wsp relaxed) s2 with
      | need => simp [h3] at h
      | bad e => simp [h3] at h
      | ok s3 =>
        simp only [h3] at h
        have l3 := bws_ok_length h3
        obtain ⟨b, t, rfl⟩ := bws_ok_head h3
        simp only at h
        by_cases hb : b = 61
        · simp only [hb, if_true] at h
          cases h4 : bws (wsp relaxed) t with
          | need => simp [h4] at h
          | bad e => simp [h4] at h
          | ok s5 =>
            simp only [h4] at h
            have l4 := bws_ok_length h4
            have l5 := tokenOrQuoted_ok_length h
            simp at l3; omega
        · simp only [hb, if_false, Res.ok.injEq] at h
          subst h; omega

/-! ### the chunk-ext list -/

theorem chunkExts_fuel {relaxed : Bool} : ∀ (f f' : Nat) (s c : Bytes), s.length < f → s.length < f' →
    chunkExts relaxed f s c = chunkExts relaxed f' s c := by
  intro f
  induction f with
  | zero => intro f' s c h; omega
  | succ f ih =>
    intro f' s c h h'
    cases f' with
    | zero => omega
    | succ f' =>
      simp only [chunkExts]
      cases h1 : bws (wsp relaxed) s with
      | need => rfl
      | bad e => rfl
      | ok s1 =>
        have l1 := bws_ok_length h1
        cases s1 with
        | nil => rfl
        | cons b s2 =>
          simp only
          by_cases hb : b = 59
          · simp only [hb, if_true]
            cases h2 : oneExt relaxed s2 with
            | need => rfl
            | bad e => rfl
            | ok s3 =>
              have l2 := oneExt_ok_length h2
              simp only
              simp at l1
              exact ih f' s3 _ (by omega) (by omega)
          · simp [hb]

theorem chunkExts_done_append {relaxed : Bool} {f : Nat} {s c r c' : Bytes} (m : Bytes)
    (h : chunkExts relaxed f s c = .done r c') :
    chunkExts relaxed f (s ++ m) (c ++ m) = .done (r ++ m) (c' ++ m) := by
  induction f generalizing s c with
  | zero => simp [chunkExts] at h
  | succ f ih =>
    simp only [chunkExts] at h ⊢
    cases h1 : bws (wsp relaxed) s with
    | need => simp [h1] at h
    | bad e => simp [h1] at h
    | ok s1 =>
      simp only [h1, bws_ok_append m h1] at h ⊢
      obtain ⟨b, s2, rfl⟩ := bws_ok_head h1
      simp only [List.cons_append] at h ⊢
      by_cases hb : b = 59
      · simp only [hb, if_true] at h ⊢
        cases h2 : oneExt relaxed s2 with
        | need => simp [h2] at h
        | bad e => simp [h2] at h
        | ok s3 =>
          simp only [h2, oneExt_ok_append m h2] at h ⊢
          exact ih h
      · simp only [hb, if_false, ExtRes.done.injEq] at h ⊢
        simp [h.1, h.2]

theorem chunkExts_bad_append {relaxed : Bool} {f : Nat} {s c : Bytes} {e : Rej} (m : Bytes)
    (h : chunkExts relaxed f s c = .bad e) :
    chunkExts relaxed f (s ++ m) (c ++ m) = .bad e := by
  induction f generalizing s c with
  | zero => simpa [chunkExts] using h
  | succ f ih =>
    simp only [chunkExts] at h ⊢
    cases h1 : bws (wsp relaxed) s with
    | need => simp [h1] at h
    | bad e => exact absurd h1 bws_ne_bad
    | ok s1 =>
      simp only [h1, bws_ok_append m h1] at h ⊢
      obtain ⟨b, s2, rfl⟩ := bws_ok_head h1
      simp only [List.cons_append] at h ⊢
      by_cases hb : b = 59
      · simp only [hb, if_true] at h ⊢
        cases h2 : oneExt relaxed s2 with
        | need => simp [h2] at h
        | bad e' => simp only [h2, oneExt_bad_append m h2] at h ⊢; exact h
        | ok s3 =>
          simp only [h2, oneExt_ok_append m h2] at h ⊢
          exact ih h
      · simp [hb] at h

/-- the commit point (`buf_`) a call of `parseChunkExtensions` leaves behind -/
def ExtRes.committed : ExtRes → Option Bytes
  | .done _ c => some c
  | .need c => some c
  | .bad _ => none

/-- Either nothing was committed in this call, or a run on the extended input passes through the
commit point in the "start of a loop iteration" state. -/
theorem chunkExts_restart {relaxed : Bool} {f : Nat} {s c c' : Bytes}
    (h : (chunkExts relaxed f s c).committed = some c') :
    c' = c ∨ (ChunkedSets.extCommit = true ∧ ∀ (m : Bytes) (F : Nat), (s ++ m).length < F →
      ∃ G, (c' ++ m).length < G ∧ chunkExts relaxed F (s ++ m) (c ++ m) = chunkExts relaxed G (c' ++ m) (c' ++ m)) := by
  induction f generalizing s c with
  | zero => simp [chunkExts, ExtRes.committed] at h
  | succ f ih =>
    simp only [chunkExts] at h
    cases h1 : bws (wsp relaxed) s with
    | need => simp [h1, ExtRes.committed] at h; exact Or.inl h.symm
    | bad e => simp [h1, ExtRes.committed] at h
    | ok s1 =>
      simp only [h1] at h
      have l1 := bws_ok_length h1
      obtain ⟨b, s2, rfl⟩ := bws_ok_head h1
      simp only at h
      by_cases hb : b = 59
      · simp only [hb, if_true] at h
        cases h2 : oneExt relaxed s2 with
        | need => simp [h2, ExtRes.committed] at h; exact Or.inl h.symm
        | bad e => simp [h2, ExtRes.committed] at h
        | ok s3 =>
          simp only [h2] at h
          have l2 := oneExt_ok_length h2
          cases hfl : ChunkedSets.extCommit with
          | true =>
            simp only [hfl, if_true] at h
            right
            refine ⟨rfl, ?_⟩
            intro m F hF
            cases F with
            | zero => omega
            | succ F =>
              have step : chunkExts relaxed (F + 1) (s ++ m) (c ++ m) = chunkExts relaxed F (s3 ++ m) (s3 ++ m) := by
                simp only [chunkExts, bws_ok_append m h1, List.cons_append, hb, if_true, oneExt_ok_append m h2, hfl]
              have hlen : (s3 ++ m).length < F := by
                simp at l1 hF ⊢; omega
              rcases ih h with heq | ⟨_, hrest⟩
              · subst heq
                exact ⟨F, hlen, step⟩
              · obtain ⟨G, hG, hGe⟩ := hrest m F hlen
                exact ⟨G, hG, step.trans hGe⟩
          | false =>
            simp only [hfl, Bool.false_eq_true, if_false] at h
            rcases ih h with heq | ⟨hq, _⟩
            · exact Or.inl heq
            · rw [hfl] at hq; exact absurd hq (by simp)
      · simp [hb, ExtRes.committed] at h; exact Or.inl h.symm

theorem skipAll_skipAll_of_sub {p q : CharSet} (hsub : ∀ b, p.mem b = true → q.mem b = true) (s : Bytes) :
    skipAll q (skipAll p s) = skipAll q s := by
  unfold skipAll
  induction s with
  | nil => rfl
  | cons a t ih =>
    simp only [List.dropWhile_cons]
    by_cases hp : p.mem a = true
    · simp [hp, hsub a hp, ih]
    · simp [hp, List.dropWhile_cons]

/-! ### parseChunkMetadataSuffix -/

theorem metaPost_done_append {x : ExtRes} {r : Bytes} (m : Bytes) {y : ExtRes}
    (hy : ∀ s2 c, x = .done s2 c → y = .done (s2 ++ m) (c ++ m)) (h : metaPost x = .ok r) :
    metaPost y = .ok (r ++ m) := by
  cases x with
  | need c => simp [metaPost] at h
  | bad e => simp [metaPost] at h
  | done s2 c =>
    rw [hy s2 c rfl]
    simp only [metaPost] at h ⊢
    cases h3 : skipCrlf .extCrlf s2 with
    | need => simp [h3] at h
    | bad e => simp [h3] at h
    | ok s3 =>
      simp only [h3, skipCrlf_ok_append m h3, MetaRes.ok.injEq] at h ⊢
      rw [h]

theorem metaSuffix_ok_append {relaxed : Bool} {s r : Bytes} (m : Bytes) (h : metaSuffix relaxed s = .ok r) :
    metaSuffix relaxed (s ++ m) = .ok (r ++ m) := by
  unfold metaSuffix at h ⊢
  cases h1 : bws ChunkedSets.bwsStrict s with
  | need => simp [h1] at h
  | bad e => simp [h1] at h
  | ok s1 =>
    simp only [h1, bws_ok_append m h1] at h ⊢
    have hF : s1.length < (s1 ++ m).length + 1 := by simp; omega
    generalize (s1 ++ m).length + 1 = F at hF ⊢
    rw [chunkExts_fuel (s1.length + 1) F s1 s (by omega) hF] at h
    exact metaPost_done_append m (fun s2 c hx => chunkExts_done_append m hx) h

theorem metaSuffix_bad_append {relaxed : Bool} {s : Bytes} {e : Rej} (m : Bytes) (h : metaSuffix relaxed s = .bad e) :
    metaSuffix relaxed (s ++ m) = .bad e := by
  unfold metaSuffix at h ⊢
  cases h1 : bws ChunkedSets.bwsStrict s with
  | need => simp [h1] at h
  | bad e => exact absurd h1 bws_ne_bad
  | ok s1 =>
    simp only [h1, bws_ok_append m h1] at h ⊢
    have hF : s1.length < (s1 ++ m).length + 1 := by simp; omega
    generalize (s1 ++ m).length + 1 = F at hF ⊢
    rw [chunkExts_fuel (s1.length + 1) F s1 s (by omega) hF] at h
    cases h2 : chunkExts relaxed F s1 s with
    | need c => simp [h2, metaPost] at h
    | bad e' => simp only [h2, chunkExts_bad_append m h2, metaPost] at h ⊢; exact h
    | done s2 c =>
      simp only [h2, chunkExts_done_append m h2, metaPost] at h ⊢
      cases h3 : skipCrlf .extCrlf s2 with
      | need => simp [h3] at h
      | bad e' => simp only [h3, skipCrlf_bad_append m h3] at h ⊢; exact h
      | ok s3 => simp [h3] at h

theorem metaPost_committed {x : ExtRes} {c : Bytes} (h : metaPost x = .need c) : x.committed = some c := by
  cases x with
  | need c' => simp [metaPost] at h; simp [ExtRes.committed, h]
  | bad e => simp [metaPost] at h
  | done s2 c' =>
    simp only [metaPost] at h
    cases h3 : skipCrlf .extCrlf s2 with
    | need => simp [h3] at h; simp [ExtRes.committed, h]
    | bad e => simp [h3] at h
    | ok s3 => simp [h3] at h

/-- Restarting `parseChunkMetadataSuffix` at a commit point `u` (where `parseChunkExtensions` would start a
loop iteration) gives what continuing the loop gives — unless the continuation fails with "cannot skip CRLF
after [chunk-ext]", which the restart may turn into an acceptance because it runs `ParseStrictBws` first. -/
theorem metaSuffix_at_commit_point (relaxed : Bool) (u : Bytes) (G : Nat) (hG : u.length < G) :
    metaPost (chunkExts relaxed G u u) = metaSuffix relaxed u ∨ metaPost (chunkExts relaxed G u u) = .bad .extCrlf := by
  have hsub := skipAll_skipAll_of_sub (strict_sub_wsp relaxed) u
  cases G with
  | zero => omega
  | succ G =>
  unfold metaSuffix
  simp only [chunkExts, bws]
  cases hu' : skipAll ChunkedSets.bwsStrict u with
  | nil =>
    rw [hu'] at hsub
    simp only [skipAll, List.dropWhile_nil] at hsub
    have : skipAll (wsp relaxed) u = [] := hsub.symm
    simp [this, metaPost]
  | cons a' t' =>
    rw [hu'] at hsub
    have hl : (a' :: t').length ≤ u.length := hu' ▸ skipAll_length _ u
    generalize hF : (a' :: t').length = F at hl ⊢
    simp only [List.isEmpty_cons, Bool.false_eq_true, if_false, chunkExts, bws, hsub]
    cases hw : skipAll (wsp relaxed) u with
    | nil => simp [metaPost]
    | cons b s2 =>
      have hl2 : (b :: s2).length ≤ F := by
        rw [← hF, ← hw, ← hsub]; exact skipAll_length _ _
      simp only [List.isEmpty_cons, Bool.false_eq_true, if_false]
      by_cases hb : b = 59
      · simp only [hb, if_true]
        cases h2 : oneExt relaxed s2 with
        | need => simp [metaPost]
        | bad e => simp [metaPost]
        | ok s3 =>
          have l2 := oneExt_ok_length h2
          simp only
          left
          rw [chunkExts_fuel G F s3 _ (by simp at hl2; omega) (by simp at hl2; omega), hF]
      · simp only [hb, if_false, metaPost]
        by_cases hu : u = a' :: t'
        · left; rw [hu]
        · right
          cases u with
          | nil => simp [skipAll] at hu'
          | cons a t =>
            have ha : ChunkedSets.bwsStrict.mem a = true := by
              cases hna : ChunkedSets.bwsStrict.mem a with
              | true => rfl
              | false =>
                exfalso
                apply hu
                simp only [skipAll, List.dropWhile_cons, hna] at hu'
                simpa using hu'
            have ha13 : a ≠ 13 := by
              intro h13; subst h13; rw [cr_not_strict] at ha; exact absurd ha (by simp)
            simp only [skipCrlf]
            simp [ha13]

theorem metaSuffix_need_restart {relaxed : Bool} {s c : Bytes} (h : metaSuffix relaxed s = .need c) (m : Bytes) :
    metaSuffix relaxed (s ++ m) = metaSuffix relaxed (c ++ m) ∨
    (ChunkedSets.extCommit = true ∧ metaSuffix relaxed (s ++ m) = .bad .extCrlf) := by
  unfold metaSuffix at h
  cases h1 : bws ChunkedSets.bwsStrict s with
  | need => simp [h1] at h; subst h; exact Or.inl rfl
  | bad e => exact absurd h1 bws_ne_bad
  | ok s1 =>
    simp only [h1] at h
    have hc := metaPost_committed h
    rcases chunkExts_restart hc with heq | ⟨hq, hrest⟩
    · subst heq; exact Or.inl rfl
    · obtain ⟨G, hG, hGe⟩ := hrest m ((s1 ++ m).length + 1) (by omega)
      have hms : metaSuffix relaxed (s ++ m) = metaPost (chunkExts relaxed G (c ++ m) (c ++ m)) := by
        unfold metaSuffix
        simp only [bws_ok_append m h1]
        rw [hGe]
      rw [hms]
      rcases metaSuffix_at_commit_point relaxed (c ++ m) G hG with h | h
      · exact Or.inl h
      · exact Or.inr ⟨hq, h⟩

end SquidModel.Chunked
