/-
Invariants of the Basic authentication state machine (SquidModel/Auth/Basic.lean).

`InvW` holds after every history (no side condition): who waits where, under which user name.
`InvS` holds after every *calm* history (`Calm`: the repaired variant of decode, or no arrival that replaces the password of a
cached record while that record is Pending): a record in state Ok has been verified by the helper for exactly its stored
password, and every waiter of a record carries exactly the record's user name and password.
-/
import SquidModel.Auth.Basic

namespace SquidModel.Auth

/-! ### field lemmas -/

@[simp] theorem setRec_recs (s : St) (i : Nat) (r : Rec) (j : Nat) : (setRec s i r).recs j = if j = i then r else s.recs j := rfl
@[simp] theorem setRec_nrec (s : St) (i : Nat) (r : Rec) : (setRec s i r).nrec = s.nrec := rfl
@[simp] theorem setRec_cache (s : St) (i : Nat) (r : Rec) : (setRec s i r).cache = s.cache := rfl
@[simp] theorem setRec_lookups (s : St) (i : Nat) (r : Rec) : (setRec s i r).lookups = s.lookups := rfl
@[simp] theorem setRec_now (s : St) (i : Nat) (r : Rec) : (setRec s i r).now = s.now := rfl
@[simp] theorem setRec_nextId (s : St) (i : Nat) (r : Rec) : (setRec s i r).nextId = s.nextId := rfl
@[simp] theorem newRec_recs (s : St) (r : Rec) (j : Nat) : (newRec s r).recs j = if j = s.nrec then r else s.recs j := rfl
@[simp] theorem newRec_nrec (s : St) (r : Rec) : (newRec s r).nrec = s.nrec + 1 := rfl
@[simp] theorem newRec_cache (s : St) (r : Rec) (k : Name) : (newRec s r).cache k = if k = r.user then some s.nrec else s.cache k := rfl
@[simp] theorem newRec_lookups (s : St) (r : Rec) : (newRec s r).lookups = s.lookups := rfl
@[simp] theorem newRec_now (s : St) (r : Rec) : (newRec s r).now = s.now := rfl
@[simp] theorem newRec_nextId (s : St) (r : Rec) : (newRec s r).nextId = s.nextId := rfl

/-- the request carries the record's user name (with some password) -/
def WaiterOf (rc : Rec) (r : Req) : Prop := ∃ p, r.creds = .basic rc.user p
/-- the request carries exactly the record's user name and password -/
def OwnOf (rc : Rec) (r : Req) : Prop := r.creds = .basic rc.user rc.passwd

theorem OwnOf.waiter {rc : Rec} {r : Req} (h : OwnOf rc r) : WaiterOf rc r := ⟨_, h⟩

structure InvW (s : St) : Prop where
  lk_lt : ∀ l ∈ s.lookups, l.ri < s.nrec
  cache_ok : ∀ u i, s.cache u = some i → i < s.nrec ∧ (s.recs i).user = u
  lk_user : ∀ l ∈ s.lookups, WaiterOf (s.recs l.ri) l.req
  q_user : ∀ i, i < s.nrec → ∀ r ∈ (s.recs i).queue, WaiterOf (s.recs i) r
  q_lk : ∀ i, i < s.nrec → (s.recs i).queue ≠ [] → ∃ l ∈ s.lookups, l.ri = i
  pend_lk : ∀ i, i < s.nrec → (s.recs i).cred = .pending → ∃ l ∈ s.lookups, l.ri = i

theorem invW_init : InvW St.init where
  lk_lt := by intro l h; cases h
  cache_ok := by intro u i h; cases h
  lk_user := by intro l h; cases h
  q_user := by intro i h; exact absurd h (Nat.not_lt_zero _)
  q_lk := by intro i h; exact absurd h (Nat.not_lt_zero _)
  pend_lk := by intro i h; exact absurd h (Nat.not_lt_zero _)

/-- replacing record i by one with the same user name whose queue and Pending state are still backed by a lookup -/
theorem invW_setRec {s : St} (h : InvW s) {i : Nat} (hi : i < s.nrec) {r' : Rec}
    (hu : r'.user = (s.recs i).user)
    (hq : ∀ r ∈ r'.queue, WaiterOf r' r)
    (hql : r'.queue ≠ [] → ∃ l ∈ s.lookups, l.ri = i)
    (hpl : r'.cred = .pending → ∃ l ∈ s.lookups, l.ri = i) : InvW (setRec s i r') where
  lk_lt := h.lk_lt
  cache_ok := by
    intro u j hc
    have := h.cache_ok u j hc
    refine ⟨this.1, ?_⟩
    simp only [setRec_recs]
    split
    · next e => subst e; rw [hu]; exact this.2
    · exact this.2
  lk_user := by
    intro l hl
    have := h.lk_user l hl
    simp only [setRec_recs]
    split
    · next e => rw [e] at this; obtain ⟨p, hp⟩ := this; exact ⟨p, by rw [hu]; exact hp⟩
    · exact this
  q_user := by
    intro j hj r hr
    simp only [setRec_recs] at hr ⊢
    split
    · next e => simp only [e, ↓reduceIte] at hr; exact hq r hr
    · next e => simp only [e, ↓reduceIte] at hr; exact h.q_user j hj r hr
  q_lk := by
    intro j hj hne
    simp only [setRec_recs] at hne
    split at hne
    · next e => subst e; exact hql hne
    · exact h.q_lk j hj hne
  pend_lk := by
    intro j hj hp
    simp only [setRec_recs] at hp
    split at hp
    · next e => subst e; exact hpl hp
    · exact h.pend_lk j hj hp

theorem invW_newRec {s : St} (h : InvW s) {r : Rec} (hq : r.queue = []) (hc : r.cred ≠ .pending) : InvW (newRec s r) where
  lk_lt := by intro l hl; have := h.lk_lt l hl; simp only [newRec_nrec]; omega
  cache_ok := by
    intro u j hcu
    simp only [newRec_cache] at hcu
    simp only [newRec_nrec, newRec_recs]
    split at hcu
    · next e => injection hcu with hcu; subst hcu; simp [e]
    · have := h.cache_ok u j hcu
      have hne : j ≠ s.nrec := by omega
      simp only [hne, ↓reduceIte]
      exact ⟨by omega, this.2⟩
  lk_user := by
    intro l hl
    have hlt := h.lk_lt l hl
    have hne : l.ri ≠ s.nrec := by omega
    simp only [newRec_recs, hne, ↓reduceIte]
    exact h.lk_user l hl
  q_user := by
    intro j hj r' hr
    simp only [newRec_recs] at hr ⊢
    split
    · next e => simp only [e, ↓reduceIte, hq] at hr; cases hr
    · next e =>
      simp only [e, ↓reduceIte] at hr
      simp only [newRec_nrec] at hj
      exact h.q_user j (by omega) r' hr
  q_lk := by
    intro j hj hne
    simp only [newRec_recs] at hne
    split at hne
    · exact absurd hq hne
    · next e => simp only [newRec_nrec] at hj; exact h.q_lk j (by omega) hne
  pend_lk := by
    intro j hj hp
    simp only [newRec_recs] at hp
    split at hp
    · exact absurd hp hc
    · next e => simp only [newRec_nrec] at hj; exact h.pend_lk j (by omega) hp

theorem invW_addLookup {s : St} (h : InvW s) (l : Lookup) (n : Nat) (hi : l.ri < s.nrec) (hw : WaiterOf (s.recs l.ri) l.req) :
    InvW { s with lookups := s.lookups ++ [l], nextId := n } where
  lk_lt := by
    intro x hx
    rcases List.mem_append.mp hx with hx | hx
    · exact h.lk_lt x hx
    · simp only [List.mem_singleton] at hx; subst hx; exact hi
  cache_ok := h.cache_ok
  lk_user := by
    intro x hx
    rcases List.mem_append.mp hx with hx | hx
    · exact h.lk_user x hx
    · simp only [List.mem_singleton] at hx; subst hx; exact hw
  q_user := h.q_user
  q_lk := by
    intro i hi' hne
    obtain ⟨x, hx, e⟩ := h.q_lk i hi' hne
    exact ⟨x, List.mem_append_left _ hx, e⟩
  pend_lk := by
    intro i hi' hp
    obtain ⟨x, hx, e⟩ := h.pend_lk i hi' hp
    exact ⟨x, List.mem_append_left _ hx, e⟩

/-! ### the cache step of decode -/

theorem updateCached_user (rc : Rec) (p : Pw) : (updateCached rc p).user = rc.user := by
  unfold updateCached resetFailed swapPw; split <;> split <;> rfl

theorem updateCached_passwd (rc : Rec) (p : Pw) : (updateCached rc p).passwd = p := by
  unfold updateCached resetFailed swapPw
  by_cases h : rc.passwd = p
  · simp only [h, ↓reduceIte]; split <;> simp [h]
  · simp [h]

theorem updateCached_queue (rc : Rec) (p : Pw) : (updateCached rc p).queue = rc.queue := by
  unfold updateCached resetFailed swapPw; split <;> split <;> rfl

theorem updateCached_expire (rc : Rec) (p : Pw) : (updateCached rc p).expire = rc.expire := by
  unfold updateCached resetFailed swapPw; split <;> split <;> rfl

theorem updateCached_pending (rc : Rec) (p : Pw) (h : (updateCached rc p).cred = .pending) : rc.cred = .pending ∧ rc.passwd = p := by
  unfold updateCached resetFailed swapPw at h
  by_cases hp : rc.passwd = p
  · simp only [hp, ↓reduceIte] at h
    split at h
    · cases h
    · exact ⟨h, hp⟩
  · simp only [hp, ↓reduceIte] at h; cases h

theorem updateCached_ne_failed (rc : Rec) (p : Pw) : (updateCached rc p).cred ≠ .failed := by
  unfold updateCached resetFailed
  intro h
  split at h
  · cases h
  · next hf => exact hf h

theorem updateCached_ok (rc : Rec) (p : Pw) (h : (updateCached rc p).cred = .ok) : rc.cred = .ok ∧ rc.passwd = p := by
  unfold updateCached resetFailed swapPw at h
  by_cases hp : rc.passwd = p
  · simp only [hp, ↓reduceIte] at h
    split at h
    · cases h
    · exact ⟨h, hp⟩
  · simp only [hp, ↓reduceIte] at h; cases h

/-- what `decodeUser` guarantees about the record it links the request to -/
structure Linked (s' : St) (i : Nat) (u : Name) (p : Pw) : Prop where
  lt : i < s'.nrec
  user : (s'.recs i).user = u
  passwd : (s'.recs i).passwd = p

theorem decodeUser_spec (cfg : Cfg) {s : St} (h : InvW s) (u : Name) (p : Pw) :
    InvW (decodeUser cfg s u p).1 ∧ Linked (decodeUser cfg s u p).1 (decodeUser cfg s u p).2.1 u p := by
  unfold decodeUser
  split
  · refine ⟨invW_newRec h rfl (by simp), ⟨by simp, by simp, by simp⟩⟩
  · next i hc =>
    have hci := h.cache_ok u i hc
    split
    · refine ⟨invW_newRec h rfl (by simp), ⟨by simp, by simp, by simp⟩⟩
    · refine ⟨invW_setRec h hci.1 (updateCached_user _ _) ?_ ?_ ?_, ⟨hci.1, ?_, ?_⟩⟩
      · intro r hr
        rw [updateCached_queue] at hr
        obtain ⟨q, hq⟩ := h.q_user i hci.1 r hr
        exact ⟨q, by rw [updateCached_user]; exact hq⟩
      · intro hne; rw [updateCached_queue] at hne; exact h.q_lk i hci.1 hne
      · intro hp; exact h.pend_lk i hci.1 (updateCached_pending _ _ hp).1
      · simp [updateCached_user, hci.2]
      · simp [updateCached_passwd]

/-! ### startHelperLookup / the tail of authenticate -/

theorem enqueue_invW {s : St} (h : InvW s) {i : Nat} (hi : i < s.nrec) {r : Req} (hw : WaiterOf (s.recs i) r)
    (hp : (s.recs i).cred = .pending) : InvW (enqueue s i r) := by
  unfold enqueue
  refine invW_setRec h hi rfl ?_ (fun _ => h.pend_lk i hi hp) (fun _ => h.pend_lk i hi hp)
  intro x hx
  rcases List.mem_cons.mp hx with hx | hx
  · subst hx; exact hw
  · exact h.q_user i hi x hx

theorem submitLookup_invW {s : St} (h : InvW s) {i : Nat} (hi : i < s.nrec) {r : Req} (hw : WaiterOf (s.recs i) r) :
    InvW (submitLookup s i r) := by
  unfold submitLookup
  have h2 := invW_addLookup h { id := s.nextId, ri := i, pw := (s.recs i).passwd, req := r } (s.nextId + 1) hi hw
  have hmem : ∃ l ∈ s.lookups ++ [{ id := s.nextId, ri := i, pw := (s.recs i).passwd, req := r : Lookup }], l.ri = i :=
    ⟨_, List.mem_append_right _ (List.mem_singleton.mpr rfl), rfl⟩
  refine invW_setRec h2 hi rfl ?_ (fun _ => hmem) (fun _ => hmem)
  intro x hx
  exact h.q_user i hi x hx

theorem startLookup_invW {s : St} (h : InvW s) {i : Nat} (hi : i < s.nrec) {r : Req} (hw : WaiterOf (s.recs i) r) :
    InvW (startLookup s i r).1 := by
  unfold startLookup
  split
  · next hp => exact enqueue_invW h hi hw hp
  · split
    · exact h
    · exact submitLookup_invW h hi hw

/-- nothing in `startLookup` touches user names, the number of records or the clock -/
theorem startLookup_frame (s : St) (i : Nat) (r : Req) :
    (startLookup s i r).1.nrec = s.nrec ∧ (startLookup s i r).1.now = s.now ∧ (startLookup s i r).1.cache = s.cache ∧
    ∀ j, ((startLookup s i r).1.recs j).user = (s.recs j).user := by
  unfold startLookup enqueue submitLookup
  split
  · refine ⟨rfl, rfl, rfl, ?_⟩
    intro j; simp only [setRec_recs]; split
    · next e => subst e; rfl
    · rfl
  · split
    · exact ⟨rfl, rfl, rfl, fun _ => rfl⟩
    · refine ⟨rfl, rfl, rfl, ?_⟩
      intro j; simp only [setRec_recs]; split
      · next e => subst e; rfl
      · rfl

theorem tryAuth_invW (cfg : Cfg) {s : St} (h : InvW s) {i : Nat} (hi : i < s.nrec) {r : Req} (hw : WaiterOf (s.recs i) r) :
    InvW (tryAuth cfg s i r).1 := by
  unfold tryAuth
  split
  · exact h
  · split
    · exact startLookup_invW h hi hw
    · exact startLookup_invW h hi hw
    · exact startLookup_invW h hi hw
    · exact h

theorem tryAuth_frame (cfg : Cfg) (s : St) (i : Nat) (r : Req) :
    (tryAuth cfg s i r).1.nrec = s.nrec ∧ (tryAuth cfg s i r).1.now = s.now ∧ (tryAuth cfg s i r).1.cache = s.cache ∧
    ∀ j, ((tryAuth cfg s i r).1.recs j).user = (s.recs j).user := by
  unfold tryAuth
  split
  · exact ⟨rfl, rfl, rfl, fun _ => rfl⟩
  · split
    · exact startLookup_frame s i r
    · exact startLookup_frame s i r
    · exact startLookup_frame s i r
    · exact ⟨rfl, rfl, rfl, fun _ => rfl⟩

/-- the identity carried by whatever one authentication attempt emits -/
def OutOk : Out → Prop
  | .forward r u _ => ∃ p, r.creds = .basic u p
  | .challenge r (some u) => r.creds = .broken u ∨ ∃ p, r.creds = .basic u p
  | .challenge r none => r.creds = .none ∨ r.creds = .noScheme ∨ r.creds = .noUser
  | .submit _ u _ r => ∃ p, r.creds = .basic u p
  | _ => True

theorem startLookup_outOk (s : St) (i : Nat) (r : Req) (hw : WaiterOf (s.recs i) r) : ∀ o ∈ (startLookup s i r).2, OutOk o := by
  unfold startLookup
  intro o ho
  split at ho
  · simp only [List.mem_singleton] at ho; subst ho; trivial
  · split at ho
    · simp only [List.mem_singleton] at ho; subst ho; trivial
    · simp only [List.mem_singleton] at ho; subst ho; exact hw

theorem tryAuth_outOk (cfg : Cfg) (s : St) (i : Nat) (r : Req) (hw : WaiterOf (s.recs i) r) : ∀ o ∈ (tryAuth cfg s i r).2, OutOk o := by
  unfold tryAuth
  intro o ho
  split at ho
  · simp only [List.mem_singleton] at ho; subst ho; exact hw
  · split at ho
    · exact startLookup_outOk s i r hw o ho
    · exact startLookup_outOk s i r hw o ho
    · exact startLookup_outOk s i r hw o ho
    · simp only [List.mem_singleton] at ho; subst ho; exact Or.inr hw

theorem arrive_invW (cfg : Cfg) {s : St} (h : InvW s) (r : Req) : InvW (arrive cfg s r).1 ∧ ∀ o ∈ (arrive cfg s r).2, OutOk o := by
  unfold arrive
  split
  · next e => exact ⟨h, by intro o ho; simp only [List.mem_singleton] at ho; subst ho; exact Or.inl e⟩
  · next e => exact ⟨h, by intro o ho; simp only [List.mem_singleton] at ho; subst ho; exact Or.inr (Or.inl e)⟩
  · next e => exact ⟨h, by intro o ho; simp only [List.mem_singleton] at ho; subst ho; exact Or.inr (Or.inr e)⟩
  · next u e => exact ⟨h, by intro o ho; simp only [List.mem_singleton] at ho; subst ho; exact Or.inl e⟩
  · next u p e =>
    obtain ⟨h1, hl⟩ := decodeUser_spec cfg h u p
    have hw : WaiterOf ((decodeUser cfg s u p).1.recs (decodeUser cfg s u p).2.1) r := ⟨p, by rw [hl.user]; exact e⟩
    refine ⟨tryAuth_invW cfg h1 hl.lt hw, ?_⟩
    intro o ho
    rcases List.mem_cons.mp ho with ho | ho
    · subst ho; trivial
    · exact tryAuth_outOk cfg _ _ r hw o ho

theorem resumeAll_invW (cfg : Cfg) (i : Nat) : ∀ (ws : List Req) {s : St}, InvW s → i < s.nrec → (∀ r ∈ ws, WaiterOf (s.recs i) r) →
    InvW (resumeAll cfg i s ws).1 ∧ ∀ o ∈ (resumeAll cfg i s ws).2, OutOk o
  | [], s, h, _, _ => ⟨h, by intro o ho; cases ho⟩
  | r :: rest, s, h, hi, hw => by
    have hwr := hw r (List.mem_cons_self ..)
    have h1 := tryAuth_invW cfg h hi hwr
    obtain ⟨fn, _, _, fu⟩ := tryAuth_frame cfg s i r
    have ih := resumeAll_invW cfg i rest h1 (by rw [fn]; exact hi)
      (by intro x hx; obtain ⟨p, hp⟩ := hw x (List.mem_cons_of_mem _ hx); exact ⟨p, by rw [fu]; exact hp⟩)
    refine ⟨ih.1, ?_⟩
    intro o ho
    rcases List.mem_append.mp ho with ho | ho
    · exact tryAuth_outOk cfg s i r hwr o ho
    · exact ih.2 o ho

theorem settle_invW {s : St} (h : InvW s) {l : Lookup} (hl : l ∈ s.lookups) (ok : Bool) : InvW (settle s l ok) := by
  have hne : (if ok then CredState.ok else CredState.failed) ≠ CredState.pending := by cases ok <;> simp
  have hsub : ∀ x, x ∈ s.lookups.erase l → x ∈ s.lookups := fun x hx => List.mem_of_mem_erase hx
  have keep : ∀ j, j ≠ l.ri → (∃ x ∈ s.lookups, x.ri = j) → ∃ x ∈ s.lookups.erase l, x.ri = j := by
    intro j hj ⟨x, hx, e⟩
    refine ⟨x, (List.mem_erase_of_ne ?_).mpr hx, e⟩
    intro hxl; subst hxl; exact hj e.symm
  unfold settle
  refine { lk_lt := fun x hx => h.lk_lt x (hsub x hx), cache_ok := ?_, lk_user := ?_, q_user := ?_, q_lk := ?_, pend_lk := ?_ }
  · intro u j hc
    have := h.cache_ok u j hc
    refine ⟨this.1, ?_⟩
    simp only [setRec_recs]
    split
    · next e => subst e; exact this.2
    · exact this.2
  · intro x hx
    have := h.lk_user x (hsub x hx)
    simp only [setRec_recs]
    split
    · next e => rw [e] at this; exact this
    · exact this
  · intro j hj r hr
    simp only [setRec_recs, setRec_nrec] at hr hj ⊢
    split
    · next e => simp only [e, ↓reduceIte] at hr; cases hr
    · next e => simp only [e, ↓reduceIte] at hr; exact h.q_user j hj r hr
  · intro j hj hq
    simp only [setRec_recs, setRec_nrec, setRec_lookups] at hq hj ⊢
    split at hq
    · exact absurd rfl hq
    · next e => exact keep j e (h.q_lk j hj hq)
  · intro j hj hp
    simp only [setRec_recs, setRec_nrec, setRec_lookups] at hp hj ⊢
    split at hp
    · exact absurd hp hne
    · next e => exact keep j e (h.pend_lk j hj hp)

theorem settle_frame (s : St) (l : Lookup) (ok : Bool) :
    (settle s l ok).nrec = s.nrec ∧ (settle s l ok).now = s.now ∧ (settle s l ok).cache = s.cache ∧
    ∀ j, ((settle s l ok).recs j).user = (s.recs j).user := by
  unfold settle
  refine ⟨rfl, rfl, rfl, ?_⟩
  intro j; simp only [setRec_recs]; split
  · next e => subst e; rfl
  · rfl

theorem find_mem {s : St} {id : Nat} {l : Lookup} (h : s.lookups.find? (fun l => l.id = id) = some l) : l ∈ s.lookups :=
  List.mem_of_find?_eq_some h

theorem reply_invW (cfg : Cfg) {s : St} (h : InvW s) (id : Nat) (ok : Bool) :
    InvW (reply cfg s id ok).1 ∧ ∀ o ∈ (reply cfg s id ok).2, OutOk o := by
  unfold reply
  split
  · exact ⟨h, by intro o ho; cases ho⟩
  · next l hf =>
    have hl := find_mem hf
    have hlt := h.lk_lt l hl
    have h1 := settle_invW h hl ok
    obtain ⟨fn, _, _, fu⟩ := settle_frame s l ok
    have hws : ∀ r ∈ l.req :: (s.recs l.ri).queue, WaiterOf ((settle s l ok).recs l.ri) r := by
      intro r hr
      rcases List.mem_cons.mp hr with hr | hr
      · subst hr; obtain ⟨p, hp⟩ := h.lk_user l hl; exact ⟨p, by rw [fu]; exact hp⟩
      · obtain ⟨p, hp⟩ := h.q_user l.ri hlt r hr; exact ⟨p, by rw [fu]; exact hp⟩
    have := resumeAll_invW cfg l.ri (l.req :: (s.recs l.ri).queue) h1 (by rw [fn]; exact hlt) hws
    refine ⟨this.1, ?_⟩
    intro o ho
    rcases List.mem_cons.mp ho with ho | ho
    · subst ho; trivial
    · exact this.2 o ho

theorem gc_invW (cfg : Cfg) {s : St} (h : InvW s) : InvW (gc cfg s) := by
  unfold gc
  refine { lk_lt := h.lk_lt, cache_ok := ?_, lk_user := h.lk_user, q_user := h.q_user, q_lk := h.q_lk, pend_lk := h.pend_lk }
  intro u i hc
  dsimp only at hc
  split at hc
  · cases hc
  · next j hj =>
    split at hc
    · cases hc
    · injection hc with hc; subst hc; exact h.cache_ok u j hj

theorem step_invW (cfg : Cfg) {s : St} (h : InvW s) (e : Event) : InvW (step cfg s e).1 ∧ ∀ o ∈ (step cfg s e).2, OutOk o := by
  cases e with
  | arrive r => exact arrive_invW cfg h r
  | reply id ok => exact reply_invW cfg h id ok
  | tick d => exact ⟨⟨h.lk_lt, h.cache_ok, h.lk_user, h.q_user, h.q_lk, h.pend_lk⟩, by intro o ho; cases ho⟩
  | gc => exact ⟨gc_invW cfg h, by intro o ho; cases ho⟩

theorem run_invW (cfg : Cfg) : ∀ (es : List Event) {s : St}, InvW s → InvW (run cfg s es).1 ∧ ∀ o ∈ (run cfg s es).2, OutOk o
  | [], s, h => ⟨h, by intro o ho; cases ho⟩
  | e :: es, s, h => by
    have h1 := step_invW cfg h e
    have ih := run_invW cfg es h1.1
    refine ⟨ih.1, ?_⟩
    intro o ho
    simp only [run] at ho
    rcases List.mem_append.mp ho with ho | ho
    · exact h1.2 o ho
    · exact ih.2 o ho

end SquidModel.Auth
