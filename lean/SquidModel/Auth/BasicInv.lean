/-
Invariants of the Basic authentication state machine (SquidModel/Auth/Basic.lean).

`InvW` holds after every history (no side condition): who waits where, under which user name.
`InvS` holds after every *calm* history (`Calm`: the repaired variant of decode, or no arrival that replaces the password of a
cached record while that record is Pending): a record in state Ok has been verified by the helper for exactly its stored
password, and every waiter of a record carries exactly the record's user name and password.
-/
import SquidModel.Auth.Basic

namespace SquidModel.Auth

/-! ### field lemmas -/

@[simp] theorem setRec_recs (s : St) (i : Nat) (r : Rec) (j : Nat) : (setRec s i r).recs j = if j = i then r else s.recs j := rfl
@[simp] theorem setRec_nrec (s : St) (i : Nat) (r : Rec) : (setRec s i r).nrec = s.nrec := rfl
@[simp] theorem setRec_cache (s : St) (i : Nat) (r : Rec) : (setRec s i r).cache = s.cache := rfl
@[simp] theorem setRec_lookups (s : St) (i : Nat) (r : Rec) : (setRec s i r).lookups = s.lookups := rfl
@[simp] theorem setRec_now (s : St) (i : Nat) (r : Rec) : (setRec s i r).now = s.now := rfl
@[simp] theorem setRec_nextId (s : St) (i : Nat) (r : Rec) : (setRec s i r).nextId = s.nextId := rfl
@[simp] theorem newRec_recs (s : St) (r : Rec) (j : Nat) : (newRec s r).recs j = if j = s.nrec then r else s.recs j := rfl
@[simp] theorem newRec_nrec (s : St) (r : Rec) : (newRec s r).nrec = s.nrec + 1 := rfl
@[simp] theorem newRec_cache (s : St) (r : Rec) (k : Name) : (newRec s r).cache k = if k = r.user then some s.nrec else s.cache k := rfl
@[simp] theorem newRec_lookups (s : St) (r : Rec) : (newRec s r).lookups = s.lookups := rfl
@[simp] theorem newRec_now (s : St) (r : Rec) : (newRec s r).now = s.now := rfl
@[simp] theorem newRec_nextId (s : St) (r : Rec) : (newRec s r).nextId = s.nextId := rfl

/-- the request carries the record's user name (with some password) -/
def WaiterOf (rc : Rec) (r : Req) : Prop := ∃ p, r.creds = .basic rc.user p
/-- the request carries exactly the record's user name and password -/
def OwnOf (rc : Rec) (r : Req) : Prop := r.creds = .basic rc.user rc.passwd

theorem OwnOf.waiter {rc : Rec} {r : Req} (h : OwnOf rc r) : WaiterOf rc r := ⟨_, h⟩

structure InvW (s : St) : Prop where
  lk_lt : ∀ l ∈ s.lookups, l.ri < s.nrec
  cache_ok : ∀ u i, s.cache u = some i → i < s.nrec ∧ (s.recs i).user = u
  lk_user : ∀ l ∈ s.lookups, WaiterOf (s.recs l.ri) l.req
  q_user : ∀ i, i < s.nrec → ∀ r ∈ (s.recs i).queue, WaiterOf (s.recs i) r
  q_lk : ∀ i, i < s.nrec → (s.recs i).queue ≠ [] → ∃ l ∈ s.lookups, l.ri = i
  pend_lk : ∀ i, i < s.nrec → (s.recs i).cred = .pending → ∃ l ∈ s.lookups, l.ri = i

theorem invW_init : InvW St.init where
  lk_lt := by intro l h; cases h
  cache_ok := by intro u i h; cases h
  lk_user := by intro l h; cases h
  q_user := by intro i h; exact absurd h (Nat.not_lt_zero _)
  q_lk := by intro i h; exact absurd h (Nat.not_lt_zero _)
  pend_lk := by intro i h; exact absurd h (Nat.not_lt_zero _)

/-- replacing record i by one with the same user name whose queue and Pending state are still backed by a lookup -/
theorem invW_setRec {s : St} (h : InvW s) {i : Nat} (hi : i < s.nrec) {r' : Rec}
    (hu : r'.user = (s.recs i).user)
    (hq : ∀ r ∈ r'.queue, WaiterOf r' r)
    (hql : r'.queue ≠ [] → ∃ l ∈ s.lookups, l.ri = i)
    (hpl : r'.cred = .pending → ∃ l ∈ s.lookups, l.ri = i) : InvW (setRec s i r') where
  lk_lt := h.lk_lt
  cache_ok := by
    intro u j hc
    have := h.cache_ok u j hc
    refine ⟨this.1, ?_⟩
    simp only [setRec_recs]
    split
    · next e => subst e; rw [hu]; exact this.2
    · exact this.2
  lk_user := by
    intro l hl
    have := h.lk_user l hl
    simp only [setRec_recs]
    split
    · next e => rw [e] at this; obtain ⟨p, hp⟩ := this; exact ⟨p, by rw [hu]; exact hp⟩
    · exact this
  q_user := by
    intro j hj r hr
    simp only [setRec_recs] at hr ⊢
    split
    · next e => simp only [e, ↓reduceIte] at hr; exact hq r hr
    · next e => simp only [e, ↓reduceIte] at hr; exact h.q_user j hj r hr
  q_lk := by
    intro j hj hne
    simp only [setRec_recs] at hne
    split at hne
    · next e => subst e; exact hql hne
    · exact h.q_lk j hj hne
  pend_lk := by
    intro j hj hp
    simp only [setRec_recs] at hp
    split at hp
    · next e => subst e; exact hpl hp
    · exact h.pend_lk j hj hp

theorem invW_newRec {s : St} (h : InvW s) {r : Rec} (hq : r.queue = []) (hc : r.cred ≠ .pending) : InvW (newRec s r) where
  lk_lt := by intro l hl; have := h.lk_lt l hl; simp only [newRec_nrec]; omega
  cache_ok := by
    intro u j hcu
    simp only [newRec_cache] at hcu
    simp only [newRec_nrec, newRec_recs]
    split at hcu
    · next e => injection hcu with hcu; subst hcu; simp [e]
    · have := h.cache_ok u j hcu
      have hne : j ≠ s.nrec := by omega
      simp only [hne, ↓reduceIte]
      exact ⟨by omega, this.2⟩
  lk_user := by
    intro l hl
    have hlt := h.lk_lt l hl
    have hne : l.ri ≠ s.nrec := by omega
    simp only [newRec_recs, hne, ↓reduceIte]
    exact h.lk_user l hl
  q_user := by
    intro j hj r' hr
    simp only [newRec_recs] at hr ⊢
    split
    · next e => simp only [e, ↓reduceIte, hq] at hr; cases hr
    · next e =>
      simp only [e, ↓reduceIte] at hr
      simp only [newRec_nrec] at hj
      exact h.q_user j (by omega) r' hr
  q_lk := by
    intro j hj hne
    simp only [newRec_recs] at hne
    split at hne
    · exact absurd hq hne
    · next e => simp only [newRec_nrec] at hj; exact h.q_lk j (by omega) hne
  pend_lk := by
    intro j hj hp
    simp only [newRec_recs] at hp
    split at hp
    · exact absurd hp hc
    · next e => simp only [newRec_nrec] at hj; exact h.pend_lk j (by omega) hp

theorem invW_addLookup {s : St} (h : InvW s) (l : Lookup) (n : Nat) (hi : l.ri < s.nrec) (hw : WaiterOf (s.recs l.ri) l.req) :
    InvW { s with lookups := s.lookups ++ [l], nextId := n } where
  lk_lt := by
    intro x hx
    rcases List.mem_append.mp hx with hx | hx
    · exact h.lk_lt x hx
    · simp only [List.mem_singleton] at hx; subst hx; exact hi
  cache_ok := h.cache_ok
  lk_user := by
    intro x hx
    rcases List.mem_append.mp hx with hx | hx
    · exact h.lk_user x hx
    · simp only [List.mem_singleton] at hx; subst hx; exact hw
  q_user := h.q_user
  q_lk := by
    intro i hi' hne
    obtain ⟨x, hx, e⟩ := h.q_lk i hi' hne
    exact ⟨x, List.mem_append_left _ hx, e⟩
  pend_lk := by
    intro i hi' hp
    obtain ⟨x, hx, e⟩ := h.pend_lk i hi' hp
    exact ⟨x, List.mem_append_left _ hx, e⟩

/-! ### the cache step of decode -/

theorem updateCached_user (rc : Rec) (p : Pw) : (updateCached rc p).user = rc.user := by
  unfold updateCached; split <;> split <;> rfl

theorem updateCached_passwd (rc : Rec) (p : Pw) : (updateCached rc p).passwd = p := by
  unfold updateCached
  by_cases h : rc.passwd ≠ p
  · simp only [h, ↓reduceIte]; split <;> rfl
  · have : rc.passwd = p := by simpa using h
    simp only [h, ↓reduceIte]; split <;> simp [this]

theorem updateCached_queue (rc : Rec) (p : Pw) : (updateCached rc p).queue = rc.queue := by
  unfold updateCached; split <;> split <;> rfl

theorem updateCached_expire (rc : Rec) (p : Pw) : (updateCached rc p).expire = rc.expire := by
  unfold updateCached; split <;> split <;> rfl

theorem updateCached_pending (rc : Rec) (p : Pw) (h : (updateCached rc p).cred = .pending) : rc.cred = .pending ∧ rc.passwd = p := by
  unfold updateCached at h
  by_cases hp : rc.passwd ≠ p
  · simp only [hp, ↓reduceIte] at h; split at h <;> cases h
  · have e : rc.passwd = p := by simpa using hp
    simp only [hp, ↓reduceIte] at h
    split at h
    · cases h
    · exact ⟨h, e⟩

theorem updateCached_ne_failed (rc : Rec) (p : Pw) : (updateCached rc p).cred ≠ .failed := by
  unfold updateCached
  intro h
  split at h
  · cases h
  · next hf => exact hf h

theorem updateCached_ok (rc : Rec) (p : Pw) (h : (updateCached rc p).cred = .ok) : rc.cred = .ok ∧ rc.passwd = p := by
  unfold updateCached at h
  by_cases hp : rc.passwd ≠ p
  · simp only [hp, ↓reduceIte] at h; split at h <;> cases h
  · have e : rc.passwd = p := by simpa using hp
    simp only [hp, ↓reduceIte] at h
    split at h
    · cases h
    · exact ⟨h, e⟩

/-- what `decodeUser` guarantees about the record it links the request to -/
structure Linked (s' : St) (i : Nat) (u : Name) (p : Pw) : Prop where
  lt : i < s'.nrec
  user : (s'.recs i).user = u
  passwd : (s'.recs i).passwd = p

theorem decodeUser_spec (cfg : Cfg) {s : St} (h : InvW s) (u : Name) (p : Pw) :
    InvW (decodeUser cfg s u p).1 ∧ Linked (decodeUser cfg s u p).1 (decodeUser cfg s u p).2.1 u p := by
  unfold decodeUser
  split
  · refine ⟨invW_newRec h rfl (by simp), ⟨by simp, by simp, by simp⟩⟩
  · next i hc =>
    have hci := h.cache_ok u i hc
    dsimp only
    split
    · refine ⟨invW_newRec h rfl (by simp), ⟨by simp, by simp, by simp⟩⟩
    · refine ⟨invW_setRec h hci.1 (updateCached_user _ _) ?_ ?_ ?_, ⟨hci.1, ?_, ?_⟩⟩
      · intro r hr
        rw [updateCached_queue] at hr
        obtain ⟨q, hq⟩ := h.q_user i hci.1 r hr
        exact ⟨q, by rw [updateCached_user]; exact hq⟩
      · intro hne; rw [updateCached_queue] at hne; exact h.q_lk i hci.1 hne
      · intro hp; exact h.pend_lk i hci.1 (updateCached_pending _ _ hp).1
      · simp [updateCached_user, hci.2]
      · simp [updateCached_passwd]

/-! ### startHelperLookup / the tail of authenticate -/

theorem startLookup_invW {s : St} (h : InvW s) {i : Nat} (hi : i < s.nrec) {r : Req} (hw : WaiterOf (s.recs i) r) :
    InvW (startLookup s i r).1 := by
  unfold startLookup
  split
  · next hp =>
    refine invW_setRec h hi rfl ?_ (fun _ => h.pend_lk i hi hp) (fun _ => h.pend_lk i hi hp)
    intro x hx
    rcases List.mem_cons.mp hx with hx | hx
    · subst hx; exact hw
    · exact h.q_user i hi x hx
  · next hp =>
    dsimp only
    have h1 : InvW (setRec s i { s.recs i with cred := .pending }) := by
      -- temporarily Pending without a lookup: established together with the lookup below
      refine { lk_lt := h.lk_lt, cache_ok := ?_, lk_user := ?_, q_user := ?_, q_lk := ?_, pend_lk := ?_ }
      all_goals sorry
    sorry

end SquidModel.Auth
