/-
The strong invariant of the Basic authentication state machine and the soundness of forwarding under it
(see BasicInv.lean for the overview).
-/
import SquidModel.Auth.BasicInv

namespace SquidModel.Auth

/-- side condition of one event: the repaired variant of decode, or the arrival does not replace the password of a cached
record that is Pending (i.e. whose helper lookup is in flight) -/
def Calm (cfg : Cfg) (s : St) : Event → Prop
  | .arrive r => cfg.fresh = true ∨
      ∀ u p i, r.creds = .basic u p → s.cache u = some i → (s.recs i).cred = .pending → (s.recs i).passwd = p
  | _ => True

/-- the side condition along a whole history -/
def CalmRun (cfg : Cfg) : St → List Event → Prop
  | _, [] => True
  | s, e :: es => Calm cfg s e ∧ CalmRun cfg (step cfg s e).1 es

/-- the helper has answered OK for exactly (u, p) at time t -/
def Verified (outs : List Out) (u : Name) (p : Pw) (t : Nat) : Prop := ∃ id, Out.verdict id u p true t ∈ outs

theorem Verified.mono {outs more : List Out} {u : Name} {p : Pw} {t : Nat} (h : Verified outs u p t) : Verified (outs ++ more) u p t := by
  obtain ⟨id, hid⟩ := h; exact ⟨id, List.mem_append_left _ hid⟩

structure InvS (s : St) (outs : List Out) : Prop where
  ok_ver : ∀ i, i < s.nrec → (s.recs i).cred = .ok → Verified outs (s.recs i).user (s.recs i).passwd (s.recs i).expire
  lk_own : ∀ l ∈ s.lookups, l.pw = (s.recs l.ri).passwd ∧ OwnOf (s.recs l.ri) l.req ∧ (s.recs l.ri).cred = .pending
  q_own : ∀ i, i < s.nrec → ∀ r ∈ (s.recs i).queue, OwnOf (s.recs i) r ∧ (s.recs i).cred = .pending
  lk_uniq : s.lookups.Pairwise (fun a b => a.ri ≠ b.ri)

theorem invS_init : InvS St.init [] where
  ok_ver := by intro i h; exact absurd h (Nat.not_lt_zero _)
  lk_own := by intro l h; cases h
  q_own := by intro i h; exact absurd h (Nat.not_lt_zero _)
  lk_uniq := List.Pairwise.nil

theorem InvS.mono {s : St} {outs : List Out} (h : InvS s outs) (more : List Out) : InvS s (outs ++ more) where
  ok_ver := fun i hi hc => (h.ok_ver i hi hc).mono
  lk_own := h.lk_own
  q_own := h.q_own
  lk_uniq := h.lk_uniq

theorem invS_setRec {s : St} {outs : List Out} (h : InvS s outs) {i : Nat} {r' : Rec}
    (hok : r'.cred = .ok → Verified outs r'.user r'.passwd r'.expire)
    (hlk : ∀ l ∈ s.lookups, l.ri = i → l.pw = r'.passwd ∧ OwnOf r' l.req ∧ r'.cred = .pending)
    (hq : ∀ r ∈ r'.queue, OwnOf r' r ∧ r'.cred = .pending) : InvS (setRec s i r') outs where
  ok_ver := by
    intro j hj hc
    simp only [setRec_recs] at hc ⊢
    split
    · next e => simp only [e, ↓reduceIte] at hc; exact hok hc
    · next e => simp only [e, ↓reduceIte] at hc; exact h.ok_ver j hj hc
  lk_own := by
    intro l hl
    simp only [setRec_recs]
    split
    · next e => exact hlk l hl e
    · exact h.lk_own l hl
  q_own := by
    intro j hj r hr
    simp only [setRec_recs] at hr ⊢
    split
    · next e => simp only [e, ↓reduceIte] at hr; exact hq r hr
    · next e => simp only [e, ↓reduceIte] at hr; exact h.q_own j hj r hr
  lk_uniq := h.lk_uniq

theorem invS_newRec {s : St} {outs : List Out} (hW : InvW s) (h : InvS s outs) {r : Rec} (hq : r.queue = []) (hc : r.cred = .unchecked) :
    InvS (newRec s r) outs where
  ok_ver := by
    intro j hj hcj
    simp only [newRec_recs, newRec_nrec] at hcj hj ⊢
    split
    · next e => simp only [e, ↓reduceIte, hc] at hcj; cases hcj
    · next e => simp only [e, ↓reduceIte] at hcj; exact h.ok_ver j (by omega) hcj
  lk_own := by
    intro l hl
    have hlt := hW.lk_lt l hl
    have hne : l.ri ≠ s.nrec := by omega
    simp only [newRec_recs, hne, ↓reduceIte]
    exact h.lk_own l hl
  q_own := by
    intro j hj x hx
    simp only [newRec_recs, newRec_nrec] at hx hj ⊢
    split
    · next e => simp only [e, ↓reduceIte, hq] at hx; cases hx
    · next e => simp only [e, ↓reduceIte] at hx; exact h.q_own j (by omega) x hx
  lk_uniq := h.lk_uniq

theorem updateCached_same {rc : Rec} {p : Pw} (hp : rc.passwd = p) (hf : rc.cred ≠ .failed) : updateCached rc p = rc := by
  unfold updateCached resetFailed swapPw
  simp [hp, hf]

theorem decodeUser_invS (cfg : Cfg) {s : St} {outs : List Out} (hW : InvW s) (h : InvS s outs) (u : Name) (p : Pw)
    (hcalm : cfg.fresh = true ∨ ∀ i, s.cache u = some i → (s.recs i).cred = .pending → (s.recs i).passwd = p) :
    InvS (decodeUser cfg s u p).1 outs := by
  unfold decodeUser
  split
  · exact invS_newRec hW h rfl rfl
  · next i hc =>
    have hci := hW.cache_ok u i hc
    split
    · exact invS_newRec hW h rfl rfl
    · next hn =>
      -- a Pending cached record keeps its password
      have hpend : (s.recs i).cred = .pending → (s.recs i).passwd = p := by
        intro hp
        rcases hcalm with hf | hl
        · apply Classical.byContradiction
          intro hne
          exact hn ⟨hf, hp, hne⟩
        · exact hl i hc hp
      have hsame : (s.recs i).cred = .pending → updateCached (s.recs i) p = s.recs i := by
        intro hp
        exact updateCached_same (hpend hp) (by rw [hp]; simp)
      refine invS_setRec h ?_ ?_ ?_
      · intro hok
        obtain ⟨hok', hpw⟩ := updateCached_ok _ _ hok
        have := h.ok_ver i hci.1 hok'
        rw [updateCached_user, updateCached_passwd, updateCached_expire, ← hpw]
        exact this
      · intro l hl e
        have := h.lk_own l hl
        rw [e] at this
        rw [hsame this.2.2]
        exact this
      · intro r hr
        rw [updateCached_queue] at hr
        have := h.q_own i hci.1 r hr
        rw [hsame this.2]
        exact this

theorem enqueue_invS {s : St} {outs : List Out} (h : InvS s outs) {i : Nat} (hi : i < s.nrec) {r : Req}
    (hw : OwnOf (s.recs i) r) (hp : (s.recs i).cred = .pending) : InvS (enqueue s i r) outs := by
  unfold enqueue
  refine invS_setRec h ?_ ?_ ?_
  · intro hok; dsimp only at hok; rw [hp] at hok; cases hok
  · intro l hl e
    have := h.lk_own l hl
    rw [e] at this
    exact this
  · intro x hx
    rcases List.mem_cons.mp hx with hx | hx
    · subst hx; exact ⟨hw, hp⟩
    · exact h.q_own i hi x hx

theorem submitLookup_invS {s : St} {outs : List Out} (h : InvS s outs) {i : Nat} (hi : i < s.nrec) {r : Req}
    (hw : OwnOf (s.recs i) r) (hp : (s.recs i).cred ≠ .pending) : InvS (submitLookup s i r) outs := by
  have nolk : ∀ l ∈ s.lookups, l.ri ≠ i := by
    intro l hl e
    have := (h.lk_own l hl).2.2
    rw [e] at this
    exact hp this
  have noq : (s.recs i).queue = [] := by
    cases hq : (s.recs i).queue with
    | nil => rfl
    | cons x xs => exact absurd (h.q_own i hi x (by rw [hq]; exact List.mem_cons_self ..)).2 hp
  unfold submitLookup
  refine { ok_ver := ?_, lk_own := ?_, q_own := ?_, lk_uniq := ?_ }
  · intro j hj hc
    simp only [setRec_recs, setRec_nrec] at hc hj ⊢
    split
    · next e => simp only [e, ↓reduceIte] at hc; cases hc
    · next e => simp only [e, ↓reduceIte] at hc; exact h.ok_ver j hj hc
  · intro l hl
    simp only [setRec_lookups] at hl
    simp only [setRec_recs]
    rcases List.mem_append.mp hl with hl | hl
    · have hne := nolk l hl
      simp only [hne, ↓reduceIte]
      exact h.lk_own l hl
    · simp only [List.mem_singleton] at hl
      subst hl
      simp only [↓reduceIte]
      exact ⟨trivial, hw, trivial⟩
  · intro j hj x hx
    simp only [setRec_recs, setRec_nrec] at hx hj ⊢
    split
    · next e => simp only [e, ↓reduceIte, noq] at hx; cases hx
    · next e => simp only [e, ↓reduceIte] at hx; exact h.q_own j hj x hx
  · simp only [setRec_lookups]
    rw [List.pairwise_append]
    refine ⟨h.lk_uniq, List.pairwise_singleton _ _, ?_⟩
    intro a ha b hb
    simp only [List.mem_singleton] at hb
    subst hb
    exact nolk a ha

theorem startLookup_invS {s : St} {outs : List Out} (h : InvS s outs) {i : Nat} (hi : i < s.nrec) {r : Req}
    (hw : OwnOf (s.recs i) r) : InvS (startLookup s i r).1 outs := by
  unfold startLookup
  split
  · next hp => exact enqueue_invS h hi hw hp
  · next hp =>
    split
    · exact h
    · exact submitLookup_invS h hi hw hp

/-- `startLookup` keeps record i's user name and password (the waiters of i stay its own) -/
theorem startLookup_keeps (s : St) (i : Nat) (r : Req) (j : Nat) :
    ((startLookup s i r).1.recs j).user = (s.recs j).user ∧ ((startLookup s i r).1.recs j).passwd = (s.recs j).passwd := by
  unfold startLookup enqueue submitLookup
  split
  · simp only [setRec_recs]; split
    · next e => subst e; exact ⟨rfl, rfl⟩
    · exact ⟨rfl, rfl⟩
  · split
    · exact ⟨rfl, rfl⟩
    · simp only [setRec_recs]; split
      · next e => subst e; exact ⟨rfl, rfl⟩
      · exact ⟨rfl, rfl⟩

theorem tryAuth_keeps (cfg : Cfg) (s : St) (i : Nat) (r : Req) (j : Nat) :
    ((tryAuth cfg s i r).1.recs j).user = (s.recs j).user ∧ ((tryAuth cfg s i r).1.recs j).passwd = (s.recs j).passwd := by
  unfold tryAuth
  split
  · exact ⟨rfl, rfl⟩
  · split
    · exact startLookup_keeps s i r j
    · exact startLookup_keeps s i r j
    · exact startLookup_keeps s i r j
    · exact ⟨rfl, rfl⟩

theorem tryAuth_invS (cfg : Cfg) {s : St} {outs : List Out} (h : InvS s outs) {i : Nat} (hi : i < s.nrec) {r : Req}
    (hw : OwnOf (s.recs i) r) : InvS (tryAuth cfg s i r).1 outs := by
  unfold tryAuth
  split
  · exact h
  · split
    · exact startLookup_invS h hi hw
    · exact startLookup_invS h hi hw
    · exact startLookup_invS h hi hw
    · exact h

/-! ### soundness of what is emitted -/

/-- every forward in `new` is preceded (in `acc ++ new`) by an OK verdict for the forwarded request's own credentials, not
older than the TTL -/
def FwdOk (cfg : Cfg) (acc new : List Out) : Prop :=
  ∀ pre r u t post, new = pre ++ Out.forward r u t :: post →
    ∃ p t0, r.creds = .basic u p ∧ Verified (acc ++ pre) u p t0 ∧ t < t0 + cfg.ttl

def Sound (cfg : Cfg) (outs : List Out) : Prop := FwdOk cfg [] outs

theorem fwdOk_nil (cfg : Cfg) (acc : List Out) : FwdOk cfg acc [] := by
  intro pre r u t post h
  cases pre <;> cases h

theorem fwdOk_cons_other (cfg : Cfg) (acc : List Out) (o : Out) (new : List Out) (ho : ∀ r u t, o ≠ .forward r u t)
    (h : FwdOk cfg (acc ++ [o]) new) : FwdOk cfg acc (o :: new) := by
  intro pre r u t post e
  cases pre with
  | nil => simp only [List.nil_append] at e; injection e with e1 _; exact absurd e1 (ho r u t)
  | cons x pre' =>
    simp only [List.cons_append] at e
    injection e with e1 e2
    subst e1
    obtain ⟨p, t0, hc, hv, ht⟩ := h pre' r u t post e2
    refine ⟨p, t0, hc, ?_, ht⟩
    simpa [List.append_assoc] using hv

theorem fwdOk_append (cfg : Cfg) (acc a b : List Out) (ha : FwdOk cfg acc a) (hb : FwdOk cfg (acc ++ a) b) : FwdOk cfg acc (a ++ b) := by
  intro pre r u t post e
  rcases List.append_eq_append_iff.mp e with ⟨a', h1, h2⟩ | ⟨c', h1, h2⟩
  · -- pre = a ++ a', b = a' ++ fwd :: post
    obtain ⟨p, t0, hc, hv, ht⟩ := hb a' r u t post h2
    refine ⟨p, t0, hc, ?_, ht⟩
    rw [h1, ← List.append_assoc]; exact hv
  · -- a = pre ++ c', fwd :: post = c' ++ b
    cases c' with
    | nil =>
      simp only [List.nil_append] at h2
      simp only [List.append_nil] at h1
      obtain ⟨p, t0, hc, hv, ht⟩ := hb [] r u t post h2.symm
      refine ⟨p, t0, hc, ?_, ht⟩
      rw [← h1]; simpa using hv
    | cons x c'' =>
      simp only [List.cons_append] at h2
      injection h2 with h3 h4
      subst h3
      exact ha pre r u t (c'' ) h1

theorem startLookup_fwdOk (cfg : Cfg) (acc : List Out) (s : St) (i : Nat) (r : Req) : FwdOk cfg acc (startLookup s i r).2 := by
  unfold startLookup
  split
  · exact fwdOk_cons_other cfg acc _ [] (by intro _ _ _ h; cases h) (fwdOk_nil _ _)
  · split
    · exact fwdOk_cons_other cfg acc _ [] (by intro _ _ _ h; cases h) (fwdOk_nil _ _)
    · exact fwdOk_cons_other cfg acc _ [] (by intro _ _ _ h; cases h) (fwdOk_nil _ _)

theorem tryAuth_fwdOk (cfg : Cfg) {s : St} {acc : List Out} (h : InvS s acc) {i : Nat} (hi : i < s.nrec) {r : Req}
    (hw : OwnOf (s.recs i) r) : FwdOk cfg acc (tryAuth cfg s i r).2 := by
  unfold tryAuth
  split
  · next ha =>
    unfold authenticated at ha
    simp only [Bool.and_eq_true, decide_eq_true_eq] at ha
    intro pre r' u t post e
    cases pre with
    | nil =>
      simp only [List.nil_append] at e
      injection e with e1 _
      injection e1 with e2 e3 e4
      subst e2 e3 e4
      exact ⟨(s.recs i).passwd, (s.recs i).expire, hw, by simpa using h.ok_ver i hi ha.1, ha.2⟩
    | cons x pre' =>
      simp only [List.cons_append] at e
      injection e with _ e2
      cases pre' <;> cases e2
  · split
    · exact startLookup_fwdOk cfg acc s i r
    · exact startLookup_fwdOk cfg acc s i r
    · exact startLookup_fwdOk cfg acc s i r
    · exact fwdOk_cons_other cfg acc _ [] (by intro _ _ _ h; cases h) (fwdOk_nil _ _)

theorem arrive_invS (cfg : Cfg) {s : St} {acc : List Out} (hW : InvW s) (h : InvS s acc) (r : Req) (hc : Calm cfg s (.arrive r)) :
    InvS (arrive cfg s r).1 (acc ++ (arrive cfg s r).2) ∧ FwdOk cfg acc (arrive cfg s r).2 := by
  unfold arrive
  split
  · exact ⟨h.mono _, fwdOk_cons_other cfg acc _ [] (by intro _ _ _ h; cases h) (fwdOk_nil _ _)⟩
  · exact ⟨h.mono _, fwdOk_cons_other cfg acc _ [] (by intro _ _ _ h; cases h) (fwdOk_nil _ _)⟩
  · exact ⟨h.mono _, fwdOk_cons_other cfg acc _ [] (by intro _ _ _ h; cases h) (fwdOk_nil _ _)⟩
  · exact ⟨h.mono _, fwdOk_cons_other cfg acc _ [] (by intro _ _ _ h; cases h) (fwdOk_nil _ _)⟩
  · next u p e =>
    have hcalm : cfg.fresh = true ∨ ∀ i, s.cache u = some i → (s.recs i).cred = .pending → (s.recs i).passwd = p := by
      rcases hc with hf | hl
      · exact Or.inl hf
      · exact Or.inr (fun i => hl u p i e)
    obtain ⟨hW1, hl⟩ := decodeUser_spec cfg hW u p
    have h1 := decodeUser_invS cfg hW h u p hcalm
    have hw : OwnOf ((decodeUser cfg s u p).1.recs (decodeUser cfg s u p).2.1) r := by
      unfold OwnOf; rw [hl.user, hl.passwd]; exact e
    have h1' := h1.mono [Out.decoded r (decodeUser cfg s u p).2.2]
    refine ⟨?_, fwdOk_cons_other cfg acc _ _ (by intro _ _ _ h; cases h) (tryAuth_fwdOk cfg h1' hl.lt hw)⟩
    have := (tryAuth_invS cfg h1' hl.lt hw).mono (tryAuth cfg (decodeUser cfg s u p).1 (decodeUser cfg s u p).2.1 r).2
    simpa [List.append_assoc] using this

theorem resumeAll_invS (cfg : Cfg) (i : Nat) : ∀ (ws : List Req) {s : St} {acc : List Out}, InvW s → InvS s acc → i < s.nrec →
    (∀ r ∈ ws, OwnOf (s.recs i) r) →
    InvS (resumeAll cfg i s ws).1 (acc ++ (resumeAll cfg i s ws).2) ∧ FwdOk cfg acc (resumeAll cfg i s ws).2
  | [], s, acc, _, h, _, _ => ⟨by simpa [resumeAll] using h, fwdOk_nil _ _⟩
  | r :: rest, s, acc, hW, h, hi, hw => by
    have hwr := hw r (List.mem_cons_self ..)
    have hW1 := tryAuth_invW cfg hW hi hwr.waiter
    have h1 := (tryAuth_invS cfg h hi hwr).mono (tryAuth cfg s i r).2
    have f1 := tryAuth_fwdOk cfg h hi hwr
    obtain ⟨fn, _, _, _⟩ := tryAuth_frame cfg s i r
    have ih := resumeAll_invS cfg i rest hW1 h1 (by rw [fn]; exact hi)
      (by intro x hx
          have := hw x (List.mem_cons_of_mem _ hx)
          unfold OwnOf at this ⊢
          rw [(tryAuth_keeps cfg s i r i).1, (tryAuth_keeps cfg s i r i).2]; exact this)
    simp only [resumeAll]
    refine ⟨?_, fwdOk_append cfg acc _ _ f1 ih.2⟩
    simpa [List.append_assoc] using ih.1

theorem erase_ri_ne : ∀ (ls : List Lookup) (l : Lookup), ls.Pairwise (fun a b => a.ri ≠ b.ri) → l ∈ ls →
    ∀ x ∈ ls.erase l, x.ri ≠ l.ri
  | [], _, _, hl, _, _ => by cases hl
  | a :: as, l, hp, hl, x, hx => by
    rw [List.pairwise_cons] at hp
    by_cases e : a = l
    · subst e
      rw [List.erase_cons_head] at hx
      exact fun h => hp.1 x hx h.symm
    · have hla : l ∈ as := by
        rcases List.mem_cons.mp hl with h | h
        · exact absurd h.symm e
        · exact h
      rw [List.erase_cons_tail (by simpa using e)] at hx
      rcases List.mem_cons.mp hx with hx | hx
      · subst hx; exact hp.1 l hla
      · exact erase_ri_ne as l hp.2 hla x hx

theorem settle_invS {s : St} {acc : List Out} (hW : InvW s) (h : InvS s acc) {l : Lookup} (hl : l ∈ s.lookups) (ok : Bool) (id : Nat) :
    InvS (settle s l ok) (acc ++ [Out.verdict id (s.recs l.ri).user l.pw ok s.now]) := by
  have hlt := hW.lk_lt l hl
  have hown := h.lk_own l hl
  have hne := erase_ri_ne s.lookups l h.lk_uniq hl
  unfold settle
  refine { ok_ver := ?_, lk_own := ?_, q_own := ?_, lk_uniq := ?_ }
  · intro j hj hc
    simp only [setRec_recs, setRec_nrec] at hc hj ⊢
    split
    · next e =>
      simp only [e, ↓reduceIte] at hc
      cases ok with
      | false => simp at hc
      | true =>
        refine ⟨id, List.mem_append_right _ ?_⟩
        simp only [List.mem_singleton]
        rw [hown.1]
    · next e =>
      simp only [e, ↓reduceIte] at hc
      exact (h.ok_ver j hj hc).mono
  · intro x hx
    simp only [setRec_lookups] at hx
    have hxne := hne x hx
    simp only [setRec_recs, hxne, ↓reduceIte]
    exact h.lk_own x (List.mem_of_mem_erase hx)
  · intro j hj x hx
    simp only [setRec_recs, setRec_nrec] at hx hj ⊢
    split
    · next e => simp only [e, ↓reduceIte] at hx; cases hx
    · next e => simp only [e, ↓reduceIte] at hx; exact h.q_own j hj x hx
  · simp only [setRec_lookups]
    exact h.lk_uniq.sublist (List.erase_sublist ..)

theorem reply_invS (cfg : Cfg) {s : St} {acc : List Out} (hW : InvW s) (h : InvS s acc) (id : Nat) (ok : Bool) :
    InvS (reply cfg s id ok).1 (acc ++ (reply cfg s id ok).2) ∧ FwdOk cfg acc (reply cfg s id ok).2 := by
  unfold reply
  split
  · exact ⟨by simpa using h, fwdOk_nil _ _⟩
  · next l hf =>
    have hl := find_mem hf
    have hlt := hW.lk_lt l hl
    have hW1 := settle_invW hW hl ok
    have h1 := settle_invS hW h hl ok id
    have hkeep : ((settle s l ok).recs l.ri).user = (s.recs l.ri).user ∧ ((settle s l ok).recs l.ri).passwd = (s.recs l.ri).passwd := by
      unfold settle; simp
    have hws : ∀ r ∈ l.req :: (s.recs l.ri).queue, OwnOf ((settle s l ok).recs l.ri) r := by
      intro r hr
      unfold OwnOf
      rw [hkeep.1, hkeep.2]
      rcases List.mem_cons.mp hr with hr | hr
      · subst hr; exact (h.lk_own l hl).2.1
      · exact (h.q_own l.ri hlt r hr).1
    have := resumeAll_invS cfg l.ri (l.req :: (s.recs l.ri).queue) hW1 h1 (by rw [(settle_frame s l ok).1]; exact hlt) hws
    refine ⟨?_, fwdOk_cons_other cfg acc _ _ (by intro _ _ _ h; cases h) this.2⟩
    simpa [List.append_assoc] using this.1

theorem step_invS (cfg : Cfg) {s : St} {acc : List Out} (hW : InvW s) (h : InvS s acc) (e : Event) (hc : Calm cfg s e) :
    InvS (step cfg s e).1 (acc ++ (step cfg s e).2) ∧ FwdOk cfg acc (step cfg s e).2 := by
  cases e with
  | arrive r => exact arrive_invS cfg hW h r hc
  | reply id ok => exact reply_invS cfg hW h id ok
  | tick d => exact ⟨by simpa [step] using (⟨h.ok_ver, h.lk_own, h.q_own, h.lk_uniq⟩ : InvS { s with now := s.now + d } acc), fwdOk_nil _ _⟩
  | gc => exact ⟨by simpa [step] using (⟨h.ok_ver, h.lk_own, h.q_own, h.lk_uniq⟩ : InvS (gc cfg s) acc), fwdOk_nil _ _⟩

theorem run_invS (cfg : Cfg) : ∀ (es : List Event) {s : St} {acc : List Out}, InvW s → InvS s acc → CalmRun cfg s es →
    InvS (run cfg s es).1 (acc ++ (run cfg s es).2) ∧ FwdOk cfg acc (run cfg s es).2
  | [], s, acc, _, h, _ => ⟨by simpa [run] using h, fwdOk_nil _ _⟩
  | e :: es, s, acc, hW, h, hc => by
    have h1 := step_invS cfg hW h e hc.1
    have hW1 := (step_invW cfg hW e).1
    have ih := run_invS cfg es hW1 h1.1 hc.2
    simp only [run]
    refine ⟨?_, fwdOk_append cfg acc _ _ h1.2 ih.2⟩
    simpa [List.append_assoc] using ih.1

/-- when the repaired variant is compiled in, every history is calm -/
theorem calmRun_of_fresh (cfg : Cfg) (hf : cfg.fresh = true) : ∀ (es : List Event) (s : St), CalmRun cfg s es
  | [], _ => trivial
  | e :: es, s => ⟨by cases e <;> first | exact Or.inl hf | trivial, calmRun_of_fresh cfg hf es _⟩

end SquidModel.Auth

namespace SquidModel.Auth

/-- executable form of `Calm` (legacy reading): used for the non-vacuity examples -/
def calmB (s : St) : Event → Bool
  | .arrive r =>
    match r.creds with
    | .basic u p =>
      match s.cache u with
      | none => true
      | some i => (s.recs i).cred != .pending || (s.recs i).passwd == p
    | _ => true
  | _ => true

def calmRunB (cfg : Cfg) : St → List Event → Bool
  | _, [] => true
  | s, e :: es => calmB s e && calmRunB cfg (step cfg s e).1 es

theorem calm_of_calmB (cfg : Cfg) (s : St) (e : Event) (h : calmB s e = true) : Calm cfg s e := by
  cases e with
  | arrive r =>
    refine Or.inr ?_
    intro u p i hc hcache hp
    unfold calmB at h
    simp only [hc, hcache] at h
    simp only [Bool.or_eq_true, bne_iff_ne, ne_eq, beq_iff_eq] at h
    rcases h with h | h
    · exact absurd hp h
    · exact h
  | reply id ok => trivial
  | tick d => trivial
  | gc => trivial

theorem calmRun_of_calmRunB (cfg : Cfg) : ∀ (es : List Event) (s : St), calmRunB cfg s es = true → CalmRun cfg s es
  | [], _, _ => trivial
  | e :: es, s, h => by
    simp only [calmRunB, Bool.and_eq_true] at h
    exact ⟨calm_of_calmB cfg s e h.1, calmRun_of_calmRunB cfg es _ h.2⟩

/-- with a positive TTL a helper answer decides every waiter at once: nobody is sent back to the helper or the queue -/
theorem tryAuth_decided (cfg : Cfg) (httl : 0 < cfg.ttl) (s : St) (i : Nat) (r : Req)
    (h : ((s.recs i).cred = .ok ∧ (s.recs i).expire = s.now) ∨ (s.recs i).cred = .failed) :
    tryAuth cfg s i r = (s, [if (s.recs i).cred = .ok then .forward r (s.recs i).user s.now else .challenge r (some (s.recs i).user)]) := by
  unfold tryAuth authenticated
  rcases h with ⟨hc, he⟩ | hc
  · have : s.now < (s.recs i).expire + cfg.ttl := by omega
    simp [hc, this]
  · simp [hc]

theorem resumeAll_decided (cfg : Cfg) (httl : 0 < cfg.ttl) (i : Nat) : ∀ (ws : List Req) (s : St),
    (((s.recs i).cred = .ok ∧ (s.recs i).expire = s.now) ∨ (s.recs i).cred = .failed) →
    resumeAll cfg i s ws = (s, ws.map fun r => if (s.recs i).cred = .ok then .forward r (s.recs i).user s.now else .challenge r (some (s.recs i).user))
  | [], _, _ => rfl
  | r :: rest, s, h => by
    simp only [resumeAll, tryAuth_decided cfg httl s i r h, resumeAll_decided cfg httl i rest s h, List.map_cons, List.singleton_append]

end SquidModel.Auth
