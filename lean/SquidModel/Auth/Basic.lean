/-
Model of the Basic proxy-authentication decision logic (C46):

* `Auth::SchemeConfig::CreateAuthUser` / `Find` (scheme prefix match) and the credential split of
  `Auth::Basic::Config::decode` (reusing the C36 model `Base64.Basic.decode`) → `classify`
* the name cache part of `Auth::Basic::Config::decode` (src/auth/basic/Config.cc) with `Auth::Basic::User::updateCached`
  (src/auth/basic/User.cc) and `Auth::CredentialsCache::lookup/insert/cleanup` (src/auth/CredentialsCache.cc) → `decodeUser`, `gc`
* `Auth::UserRequest::authenticate` for a scheme without connection state, `Auth::UserRequest::direction`,
  `Auth::Basic::UserRequest::module_direction`, `Auth::Basic::User::authenticated` → `tryAuth`
* `Auth::Basic::UserRequest::startHelperLookup` (queue when Pending, otherwise mark Pending and submit the record's
  *current* password) → `startLookup`
* `Auth::Basic::UserRequest::HandleReply` (verdict written to the shared record, expiretime := now, the asking request and
  then the queued ones are resumed through `ACLProxyAuth::LookupDone` → `authenticate` again) → `reply`

Records are heap objects (`recs`, never freed in the model: the C++ objects are reference counted and every waiter holds a
reference); the cache maps a user key to a record.  Time is `squid_curtime` in seconds, moved by `tick`.
-/
import SquidModel.Base64.Basic
import SquidModel.Gen.AuthBasic

namespace SquidModel.Auth
open SquidModel

abbrev Name := Bytes
abbrev Pw := Bytes

/-- `Auth::CredentialState` -/
inductive CredState where
  | unchecked | pending | ok | failed
deriving DecidableEq, Repr

/-- what the request's Proxy-Authorization header amounts to after `CreateAuthUser` -/
inductive Creds where
  | none                        -- no header
  | noScheme                    -- no configured scheme matches the header: CreateAuthUser returns nullptr
  | noUser                      -- Basic, but decodeCleartext refused the text: a UserRequest without user
  | broken (u : Name)           -- user name without (or with an empty) password: auth_type = AUTH_BROKEN
  | basic (u : Name) (p : Pw)   -- user name and non-empty password
deriving DecidableEq, Repr

structure Req where
  tag : Nat
  creds : Creds
deriving DecidableEq, Repr

/-- `Auth::Basic::User` (the fields the decisions read) -/
structure Rec where
  user : Name
  passwd : Pw
  cred : CredState
  expire : Nat            -- expiretime
  queue : List Req        -- Auth::QueueNode list, head = most recently queued
deriving DecidableEq, Repr

/-- a request submitted to the helper and not answered yet (`Auth::StateData` + the line written to the helper) -/
structure Lookup where
  id : Nat
  ri : Nat        -- the record the asking request is linked to
  pw : Pw         -- the password written to the helper
  req : Req       -- the asking request (r->handler / r->data)
deriving DecidableEq, Repr

structure Cfg where
  ttl : Nat                 -- auth_param basic credentialsttl
  authTtl : Nat             -- authenticate_ttl (cache garbage collection)
  caseSensitive : Bool      -- auth_param basic casesensitive
  fresh : Bool              -- source variant, see Gen.AuthBasic.freshRecordWhenPending
deriving DecidableEq, Repr

def Cfg.default : Cfg :=
  { ttl := Gen.AuthBasic.defaultCredentialsTTL, authTtl := Gen.AuthBasic.defaultAuthTtl,
    caseSensitive := Gen.AuthBasic.defaultCaseSensitive, fresh := Gen.AuthBasic.freshRecordWhenPending }

structure St where
  now : Nat
  nrec : Nat
  recs : Nat → Rec
  cache : Name → Option Nat
  lookups : List Lookup
  nextId : Nat

def emptyRec : Rec := { user := [], passwd := [], cred := .unchecked, expire := 0, queue := [] }

def St.init : St := { now := 0, nrec := 0, recs := fun _ => emptyRec, cache := fun _ => none, lookups := [], nextId := 1 }

/-- what the outside can see of one event -/
inductive Out where
  | challenge (r : Req) (log : Option Name)     -- 407 (access.log user field = log)
  | forward (r : Req) (u : Name) (t : Nat)      -- AUTH_AUTHENTICATED at time t: the request goes on as user u
  | submit (id : Nat) (u : Name) (p : Pw) (r : Req)   -- line written to the helper
  | queued (r : Req)                            -- waits for somebody else's lookup
  | tooLong (r : Req)                           -- helper line does not fit: not submitted, 407 (nothing logged as user)
  | verdict (id : Nat) (u : Name) (p : Pw) (ok : Bool) (t : Nat)   -- helper answer consumed for lookup id (which asked about u,p)
  | decoded (r : Req) (how : Nat)               -- 0 new record, 1 cached same password, 2 cached password replaced, 3 own record (fresh variant)
deriving DecidableEq, Repr

inductive Event where
  | arrive (r : Req)
  | reply (id : Nat) (ok : Bool)
  | tick (d : Nat)
  | gc
deriving DecidableEq, Repr

def setRec (s : St) (i : Nat) (r : Rec) : St := { s with recs := fun j => if j = i then r else s.recs j }

def newRec (s : St) (r : Rec) : St :=
  { s with recs := (fun j => if j = s.nrec then r else s.recs j), nrec := s.nrec + 1,
           cache := fun k => if k = r.user then some s.nrec else s.cache k }

/-- first `if` of `Auth::Basic::User::updateCached`: a different password replaces the stored one and resets the state -/
def swapPw (rc : Rec) (p : Pw) : Rec := if rc.passwd = p then rc else { rc with cred := .unchecked, passwd := p }

/-- second `if` of `Auth::Basic::User::updateCached`: a failed record is checked again -/
def resetFailed (rc : Rec) : Rec := if rc.cred = .failed then { rc with cred := .unchecked } else rc

/-- `Auth::Basic::User::updateCached` -/
def updateCached (rc : Rec) (p : Pw) : Rec := resetFailed (swapPw rc p)

/-- the cache part of `Auth::Basic::Config::decode`: the record the request gets linked to (state, record, 0 new / 1 same
password / 2 password replaced / 3 own record in the repaired variant) -/
def decodeUser (cfg : Cfg) (s : St) (u : Name) (p : Pw) : St × Nat × Nat :=
  match s.cache u with
  | none => (newRec s { user := u, passwd := p, cred := .unchecked, expire := s.now, queue := [] }, s.nrec, 0)
  | some i =>
    if cfg.fresh = true ∧ (s.recs i).cred = .pending ∧ (s.recs i).passwd ≠ p then
      (newRec s { user := u, passwd := p, cred := .unchecked, expire := s.now, queue := [] }, s.nrec, 3)
    else
      (setRec s i (updateCached (s.recs i) p), i, if (s.recs i).passwd ≠ p then 2 else 1)

/-- `Auth::Basic::User::authenticated` -/
def authenticated (cfg : Cfg) (now : Nat) (rc : Rec) : Bool :=
  rc.cred = .ok && decide (now < rc.expire + cfg.ttl)

/-- `startHelperLookup`, Pending branch: a QueueNode is pushed on the record's queue -/
def enqueue (s : St) (i : Nat) (r : Req) : St := setRec s i { s.recs i with queue := r :: (s.recs i).queue }

/-- `startHelperLookup`, other branch: the record is marked Pending and the record's *current* password goes to the helper -/
def submitLookup (s : St) (i : Nat) (r : Req) : St :=
  setRec { s with lookups := s.lookups ++ [{ id := s.nextId, ri := i, pw := (s.recs i).passwd, req := r }], nextId := s.nextId + 1 }
    i { s.recs i with cred := .pending }

/-- `rfc1738_escape` (RFC1738_ESCAPE_UNSAFE|RFC1738_ESCAPE_CTRLS, lib/rfc1738.cc) writes `%XX` for this octet -/
def rfc1738Escaped (c : UInt8) : Bool :=
  !((97 ≤ c && c ≤ 122) || (65 ≤ c && c ≤ 90) || (48 ≤ c && c ≤ 57)) &&
  ([0x3C, 0x3E, 0x22, 0x23, 0x7B, 0x7D, 0x7C, 0x5C, 0x5E, 0x7E, 0x5B, 0x5D, 0x60, 0x27, 0x25].contains c || c ≤ 0x20 || 0x7F ≤ c)

/-- `strlen(rfc1738_escape(b))` -/
def escLen : Bytes → Nat
  | [] => 0
  | c :: rest => (if rfc1738Escaped c then 3 else 1) + escLen rest

/-- `startHelperLookup`: the line `user SP password LF` (no key_extras) does not fit `buf[HELPER_INPUT_BUFFER]`
(`snprintf` result >= sizeof(buf)) -/
def tooLong (u : Name) (p : Pw) : Bool := decide (Gen.AuthBasic.helperInputBuffer ≤ escLen u + escLen p + 2)

/-- `Auth::Basic::UserRequest::startHelperLookup`; a line that does not fit the helper buffer is not submitted: the caller is
resumed at once, the record stays as it is (nothing is Pending, so nobody can queue behind a lookup that never happens) and the
request is challenged -/
def startLookup (s : St) (i : Nat) (r : Req) : St × List Out :=
  if (s.recs i).cred = .pending then (enqueue s i r, [.queued r])
  else if tooLong (s.recs i).user (s.recs i).passwd then (s, [.tooLong r])
  else (submitLookup s i r, [.submit s.nextId (s.recs i).user (s.recs i).passwd r])

/-- the tail of `Auth::UserRequest::authenticate` once the request is linked to record i
(`authenticateUserAuthenticated`, `direction()`, the four `Auth::Direction` cases) -/
def tryAuth (cfg : Cfg) (s : St) (i : Nat) (r : Req) : St × List Out :=
  if authenticated cfg s.now (s.recs i) then (s, [.forward r (s.recs i).user s.now])
  else match (s.recs i).cred with
    | .unchecked => startLookup s i r      -- CRED_LOOKUP
    | .pending => startLookup s i r        -- CRED_LOOKUP
    | .ok => startLookup s i r             -- expired: CRED_LOOKUP
    | .failed => (s, [.challenge r (some (s.recs i).user)])   -- CRED_VALID but not authenticated

def arrive (cfg : Cfg) (s : St) (r : Req) : St × List Out :=
  match r.creds with
  | .none => (s, [.challenge r none])
  | .noScheme => (s, [.challenge r none])
  | .noUser => (s, [.challenge r none])
  | .broken u => (s, [.challenge r (some u)])
  | .basic u p =>
    ((tryAuth cfg (decodeUser cfg s u p).1 (decodeUser cfg s u p).2.1 r).1,
     .decoded r (decodeUser cfg s u p).2.2 :: (tryAuth cfg (decodeUser cfg s u p).1 (decodeUser cfg s u p).2.1 r).2)

/-- resume the waiters one after the other (each sees the state its predecessors left) -/
def resumeAll (cfg : Cfg) (i : Nat) : St → List Req → St × List Out
  | s, [] => (s, [])
  | s, r :: rest =>
    ((resumeAll cfg i (tryAuth cfg s i r).1 rest).1, (tryAuth cfg s i r).2 ++ (resumeAll cfg i (tryAuth cfg s i r).1 rest).2)

/-- `HandleReply`: the verdict goes into the record the asking request is linked to; its queue is handed to the resumption loop -/
def settle (s : St) (l : Lookup) (ok : Bool) : St :=
  setRec { s with lookups := s.lookups.erase l } l.ri
    { s.recs l.ri with cred := if ok then .ok else .failed, expire := s.now, queue := [] }

/-- `Auth::Basic::UserRequest::HandleReply` -/
def reply (cfg : Cfg) (s : St) (id : Nat) (ok : Bool) : St × List Out :=
  match s.lookups.find? (fun l => l.id = id) with
  | none => (s, [])
  | some l =>
    ((resumeAll cfg l.ri (settle s l ok) (l.req :: (s.recs l.ri).queue)).1,
     .verdict id (s.recs l.ri).user l.pw ok s.now :: (resumeAll cfg l.ri (settle s l ok) (l.req :: (s.recs l.ri).queue)).2)

/-- `Auth::CredentialsCache::cleanup`: entries with `expiretime <= current_time - authenticate_ttl` leave the cache -/
def gc (cfg : Cfg) (s : St) : St :=
  { s with cache := fun k => match s.cache k with
      | none => none
      | some i => if (s.recs i).expire + cfg.authTtl ≤ s.now then none else some i }

def step (cfg : Cfg) (s : St) : Event → St × List Out
  | .arrive r => arrive cfg s r
  | .reply id ok => reply cfg s id ok
  | .tick d => ({ s with now := s.now + d }, [])
  | .gc => (gc cfg s, [])

/-- state and everything visible so far, after a history -/
def run (cfg : Cfg) : St → List Event → St × List Out
  | s, [] => (s, [])
  | s, e :: es =>
    let t := step cfg s e
    let u := run cfg t.1 es
    (u.1, t.2 ++ u.2)

/-! ### from the header bytes to `Creds` -/

/-- `strncasecmp(proxy_auth, "basic", 5) == 0` (`Auth::SchemeConfig::Find` with Basic the only configured scheme) -/
def schemeIsBasic (h : Bytes) : Bool := (h.take 5).map Base64.Basic.toLower == [98, 97, 115, 105, 99]

def classify (caseSensitive : Bool) : Option Bytes → Creds
  | none => .none
  | some h =>
    if schemeIsBasic h then
      match Base64.Basic.decode Gen.Base64.nettlePadLimit caseSensitive h with
      | none => .noUser
      | some c =>
        match c.pass with
        | none => .broken c.user
        | some p => .basic c.user p
    else .noScheme

end SquidModel.Auth
