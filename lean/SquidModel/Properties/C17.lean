/-
C17 — Completed disk cache entries survive a clean restart.

partial: the statement is about the running binary; proved here for the models of the ufs-family cache_dir
(SquidModel/Cache/RestartUfs.lean) and of the rock rebuild (SquidModel/Cache/RestartRock.lean), which are tied to the rebuilt
squid by scenario correspondence (props/C17.py).  The full statement
    "after a clean shutdown every completely stored, not evicted, not invalidated entry is a hit with identical bytes after restart"
is FALSE of the real code in three regions (each confirmed end to end, see known_findings.d/C17.json):
  * ufs/aufs: a file number is handed out again while the unlink of its previous file is still queued to unlinkd; the late
    unlink removes the new file (`ufs_unlink_race_counterexample`);
  * rock: cells of an older response for the same URL that still sit in freed slots make the rebuild drop the entry
    (`rock_stale_cell_drops_entry_counterexample`);
  * rock: a purged entry whose cells were not overwritten is indexed again (`rock_purged_entry_returns_counterexample`).
-/
import SquidModel.Cache.RestartUfsLemmas
import SquidModel.Cache.RestartRockLemmas

namespace SquidModel.C17
open SquidModel.Cache SquidModel.Cache.Restart

/-! ### ufs family -/

/-- Main theorem (ufs, aufs, diskd), `_partial` because of the hypothesis `hrace`.
For EVERY history of completed stores, purges/invalidations, hits, unlinkd activity and any number of clean restarts (each with an
arbitrary `readdir` order), starting from a freshly created cache_dir: if no cache file was created under a number whose previous
file was still waiting to be unlinked (`raced = false`) and file numbers stayed within the 24 bits of a swap.state record, then every
URL is served exactly what the history requires: the last completely stored response, or nothing after a purge.  In particular every
completed entry survives every restart with identical bytes, and nothing purged comes back. -/
theorem ufs_history_preserved_partial {β : Type} (unlinkd : Bool) (ops : List (Op β)) (dl : List Nat)
    (hwf : ∀ op ∈ ops, op.Wf)
    (hrace : (run (rebuild (Ufs.empty unlinkd) dl) ops).raced = false)
    (hsmall : (run (rebuild (Ufs.empty unlinkd) dl) ops).overflow = false) (k : Key) :
    serve (run (rebuild (Ufs.empty unlinkd) dl) ops) k = spec ops k :=
  history_preserved unlinkd ops dl hwf hrace hsmall k

/-- With synchronous unlinks (`unlinkdUseful()` false) the race cannot happen: the statement holds without `hrace`. -/
theorem ufs_history_preserved_sync_unlink {β : Type} (ops : List (Op β)) (dl : List Nat)
    (hwf : ∀ op ∈ ops, op.Wf)
    (hsmall : (run (rebuild (Ufs.empty false) dl) ops).overflow = false) (k : Key) :
    serve (run (rebuild (Ufs.empty false) dl) ops) k = spec ops k :=
  history_preserved false ops dl hwf (never_raced_sync ops dl) hsmall k

/-- A clean restart is the identity on what is served, and restarting twice is the same as restarting once. -/
theorem clean_image_rebuild_restores_all {β : Type} (unlinkd : Bool) (ops : List (Op β)) (dl dl1 dl2 : List Nat)
    (hwf : ∀ op ∈ ops, op.Wf)
    (hrace : (run (rebuild (Ufs.empty unlinkd) dl) ops).raced = false)
    (hsmall : (run (rebuild (Ufs.empty unlinkd) dl) ops).overflow = false) (k : Key) :
    serve (run (rebuild (Ufs.empty unlinkd) dl) (ops ++ [.restart dl1])) k = serve (run (rebuild (Ufs.empty unlinkd) dl) ops) k ∧
    serve (run (rebuild (Ufs.empty unlinkd) dl) (ops ++ [.restart dl1, .restart dl2])) k = serve (run (rebuild (Ufs.empty unlinkd) dl) ops) k :=
  restart_identity unlinkd ops dl dl1 dl2 hwf hrace hsmall k

def tm : Times := { timestamp := 10, lastref := 10, expires := 20, lastmod := 5 }

/-- store v1, clean restart (`suggest` is 0 again), reload v2: the released number 0 is the first free one; unlinkd runs late -/
def raceOps : List (Op Nat) := [.store 7 1 100 500 tm, .restart [], .store 7 2 100 600 tm, .unlinkd]

/-- The full statement is false when unlinks are queued: the response v2 was completely stored and never purged, yet it is gone. -/
theorem ufs_unlink_race_counterexample :
    serve (run (rebuild (Ufs.empty true) []) raceOps) 7 = none ∧ spec raceOps 7 = some 2
    ∧ (run (rebuild (Ufs.empty true) []) raceOps).raced = true := by decide

/-- non-vacuity: the hypotheses of the main theorem are satisfiable by a history with stores, a reload (written as release, unlinkd,
store: unlinkd runs between the release of the old entry and the creation of the new file), a purge and restarts -/
example : (∀ op ∈ ([.store 7 1 100 500 tm, .unlinkd, .store 8 5 100 0 tm, .restart [], .touch 7 11, .purge 7, .unlinkd, .store 7 2 100 600 tm, .purge 8, .restart [3, 1]] : List (Op Nat)), op.Wf)
    ∧ (run (rebuild (Ufs.empty true) []) [.store 7 1 100 500 tm, .unlinkd, .store 8 5 100 0 tm, .restart [], .touch 7 11, .purge 7, .unlinkd, .store 7 2 100 600 tm, .purge 8, .restart [3, 1]]).raced = false
    ∧ serve (run (rebuild (Ufs.empty true) []) [.store 7 1 100 500 tm, .unlinkd, .store 8 5 100 0 tm, .restart [], .touch 7 11, .purge 7, .unlinkd, .store 7 2 100 600 tm, .purge 8, .restart [3, 1]]) 7 = some 2 := by
  refine ⟨?_, by decide, by decide⟩
  intro op h
  simp only [List.mem_cons, List.mem_nil_iff, or_false] at h
  rcases h with h | h | h | h | h | h | h | h | h | h <;> subst h <;> simp [Op.Wf, Times.Sane, tm, SquidModel.Gen.RestartConsts.minTime]

/-- a record with a time below `minTime` is refused by `sane()`: such an entry would not survive (the run time never produces one:
`lastref` is the current time, the others are clamped to -1 or the current time by `timestampsSet`) -/
example : (rebuild (cleanShutdown (storeObj (rebuild (Ufs.empty true) []) 7 (1 : Nat) 100 500 { tm with expires := -3 })) []).index = [] := by decide

/-! ### rock -/
open SquidModel.Cache.RestartRock in
/-- If the cells carrying key `k` are exactly the cells of one complete entry that fits one slot (the inode is the whole chain and
knows the entry size), the rebuild indexes it and a hit reads exactly that cell. -/
theorem rock_single_slot_restored {β : Type} (cells : List (Cell β)) (k : RestartRock.Key) (c : Cell β)
    (honly : cells.filter (fun x => x.key == k) = [c]) (hin : c.first = c.slot) (hnx : c.next = none)
    (hsz : c.entrySize = c.payload) (hpos : 0 < c.payload) :
    RestartRock.serve cells k = some [c.data] :=
  RestartRock.single_slot_restored cells k c honly hin hnx hsz hpos

open SquidModel.Cache.RestartRock in
/-- If the cells carrying key `k` are — in whatever positions of the db file, i.e. in whatever order the rebuild scans them — exactly
the cells of ONE complete multi-slot entry (linked first to last, the inode written first without the entry size, positive payloads),
the rebuild indexes the entry and a hit reads its pieces in chain order: identical bytes. -/
theorem rock_single_chain_restored {β : Type} (cells : List (Cell β)) (k : RestartRock.Key) (cs : List (Cell β)) (inode : Nat)
    (hch : IsChain k cs inode) (hlen : 2 ≤ cs.length) (hperm : (cells.filter (fun x => x.key == k)).Perm cs) :
    RestartRock.serve cells k = some (cs.map (·.data)) :=
  RestartRock.chain_restored cells k cs inode hch hlen hperm

namespace Rock
open SquidModel.Cache.RestartRock

def live : List (Cell Nat) := [{ slot := 5, key := 9, first := 5, next := some 6, payload := 4056, entrySize := 0, data := 2 },
                               { slot := 6, key := 9, first := 5, next := none, payload := 2300, entrySize := 6356, data := 0 }]
def staleCell : Cell Nat := { slot := 9, key := 9, first := 9, next := none, payload := 300, entrySize := 300, data := 1 }

/-- non-vacuity: a two-slot entry on its own is indexed and read in chain order -/
example : RestartRock.serve live 9 = some [2, 0] := by decide
example : RestartRock.serve live.reverse 9 = some [2, 0] := by decide
def c0 : Cell Nat := { slot := 20, key := 4, first := 20, next := some 7, payload := 4056, entrySize := 0, data := 100 }
def c1 : Cell Nat := { slot := 7, key := 4, first := 20, next := some 31, payload := 4056, entrySize := 0, data := 101 }
def c2 : Cell Nat := { slot := 31, key := 4, first := 20, next := none, payload := 900, entrySize := 9012, data := 102 }
def other : Cell Nat := { slot := 8, key := 5, first := 8, next := none, payload := 50, entrySize := 50, data := 7 }
def stale : Cell Nat := { slot := 40, key := 4, first := 33, next := none, payload := 10, entrySize := 4066, data := 9 }

/-- non-vacuity of `rock_single_chain_restored`: its hypotheses hold for a three-slot chain scanned in the order 7, 20, 31 -/
example : IsChain 4 [c0, c1, c2] 20 ∧ ([c1, c0, c2].filter (fun x => x.key == 4)).Perm [c0, c1, c2] := by
  refine ⟨⟨by decide, by decide, by decide, by decide, rfl, by decide, ⟨rfl, rfl, rfl⟩⟩, ?_⟩
  exact List.Perm.swap c0 c1 [c2]
/-- all six scan orders, also with cells of other URLs in between -/
example : ([[c0, c1, c2], [c0, c2, c1], [c1, c0, c2], [c1, c2, c0], [c2, c0, c1], [c2, c1, c0], [c1, other, c2, c0]].map fun cs => RestartRock.serve cs 4)
    = List.replicate 7 (some [100, 101, 102]) := by decide
/-- a leftover non-inode cell of an older response for the same URL, anywhere in the file, drops the entry; other URLs are not affected -/
example : ([[stale, c0, c1, c2], [c0, stale, c1, c2], [c0, c1, c2, stale], [c2, c1, stale, c0]].map fun cs => RestartRock.serve cs 4)
    = List.replicate 4 none := by decide
example : RestartRock.serve [stale, c0, other, c1, c2] 5 = some [7] := by decide
end Rock

/-- The full statement is false for rock: the two-slot response is complete on disk and was never purged, but one cell of an older
response for the same URL (left in a freed slot, before or after it in the file) makes `Rock::Rebuild` drop the entry. -/
theorem rock_stale_cell_drops_entry_counterexample :
    RestartRock.serve (Rock.live ++ [Rock.staleCell]) 9 = none ∧ RestartRock.serve ([Rock.staleCell] ++ Rock.live) 9 = none := by decide

/-- Conversely a purged response whose cells were not overwritten is a hit again after the restart. -/
theorem rock_purged_entry_returns_counterexample : RestartRock.serve [Rock.staleCell] 9 = some [1] := by decide

end SquidModel.C17
