/-
C63 — Forwarding loops and Max-Forwards are honoured (decision logic; partial: the end-to-end behaviour of the
binary is tied to this model by scenario correspondence, see props/C63.py).
-/
import SquidModel.Fwd.LoopLemmas

namespace SquidModel.C63
open SquidModel.Fwd

/-- If any Via field (of any number of fields), at any position within the field (any text before and after,
hence any position in a comma-separated list, with comments or other proxies around it), contains the element this
Squid itself appends — `<version> SP host SP "(" app ")"` — the loop detector fires. -/
theorem own_via_element_always_detected (host app ver pre post : Bytes) (vias : List Bytes)
    (hm : pre ++ (viaElement ver host app ++ post) ∈ vias) :
    loopDetected host app vias = true := by
  unfold loopDetected
  have hne : vias.isEmpty = false := by
    cases vias with
    | nil => simp at hm
    | cons _ _ => rfl
  simp only [hne, Bool.not_false, Bool.true_and]
  apply isInfix_joinList _ _ _ hm
  have : pre ++ (viaElement ver host app ++ post) = (pre ++ ver) ++ (thisCache2 host app ++ post) := by
    simp [viaElement, List.append_assoc]
  rw [this]
  exact isInfix_append _ _ _

/-- A detected loop is never forwarded. -/
theorem loop_never_forwarded (host app : Bytes) (m : Method) (vias mfs : List Bytes)
    (h : loopDetected host app vias = true) : (outcome host app m vias mfs).isForward = false := by
  unfold outcome outcomeWith
  split
  · rfl
  · split
    · rfl
    · simp [h, Outcome.isForward]

/-- Corollary: a request carrying this Squid's own Via element is never forwarded. -/
theorem own_via_never_forwarded (host app ver pre post : Bytes) (m : Method) (vias mfs : List Bytes)
    (hm : pre ++ (viaElement ver host app ++ post) ∈ vias) :
    (outcome host app m vias mfs).isForward = false :=
  loop_never_forwarded host app m vias mfs (own_via_element_always_detected host app ver pre post vias hm)

/-- TRACE and OPTIONS whose (first) Max-Forwards value is 0 are answered locally. -/
theorem max_forwards_zero_answered_locally (host app : Bytes) (m : Method) (vias mfs : List Bytes)
    (hm : m = .trace ∨ m = .options) (h0 : getInt64 mfs = 0) :
    (outcome host app m vias mfs).isForward = false := by
  unfold outcome outcomeWith
  rcases hm with hm | hm <;> subst hm <;> simp [h0, Outcome.isForward]

/-- When a TRACE/OPTIONS request is forwarded, every Max-Forwards value sent upstream is a received positive value
minus one, in order, and the first received value, when positive, is forwarded as n-1. -/
theorem forwarded_value_is_n_minus_1 (host app : Bytes) (m : Method) (vias : List Bytes) (v : Bytes) (rest : List Bytes)
    (n : Int) (outs : List Int) (hm : m = .trace ∨ m = .options) (hv : parseOffset v = some n) (hn : 0 < n)
    (hf : outcome host app m vias (v :: rest) = .forward outs) : outs.head? = some (n - 1) := by
  unfold outcome outcomeWith at hf
  split at hf
  · cases hf
  · split at hf
    · cases hf
    · split at hf
      · cases hf
      · injection hf with hf
        subst hf
        have hm' : (m = .trace ∨ m = .options) := hm
        simp [mfOut, hm', hv, hn]

/-- Max-Forwards is never forwarded for other methods, and never as a negative number. -/
theorem forwarded_values_nonneg (m : Method) (mfs : List Bytes) : ∀ x ∈ mfOut m mfs, 0 ≤ x := by
  intro x hx
  unfold mfOut at hx
  split at hx
  · simp only [List.mem_filterMap] at hx
    obtain ⟨v, _, hv⟩ := hx
    split at hv
    · split at hv
      · injection hv with hv; omega
      · cases hv
    · cases hv
  · simp at hx

/-- The same on reverse-proxy (accel) ports, whatever the CDN-Loop check says: it can only add loop detections. -/
theorem own_via_never_forwarded_any_port (cdnLoop : Bool) (host app ver pre post : Bytes) (m : Method) (vias mfs : List Bytes)
    (hm : pre ++ (viaElement ver host app ++ post) ∈ vias) :
    (outcomeWith cdnLoop host app m vias mfs).isForward = false := by
  have h := own_via_element_always_detected host app ver pre post vias hm
  unfold outcomeWith
  split
  · rfl
  · split
    · rfl
    · simp [h, Outcome.isForward]

-- non-vacuity: concrete requests
-- Via: "1.0 fred, 1.1 h (a)" with host "h", app "a" is a loop; "1.1 hh (a)" is not.
example : loopDetected [104] [97] [[49,46,48,32,102,114,101,100,44,32,49,46,49,32,104,32,40,97,41]] = true := by decide
example : loopDetected [104] [97] [[49,46,49,32,104,104,32,40,97,41]] = false := by decide
-- OPTIONS with Max-Forwards: 3 is forwarded with 2
example : outcome [104] [97] .options [] [[51]] = .forward [2] := by decide
example : outcome [104] [97] .trace [] [[48]] = .localTrace := by decide
example : outcome [104] [97] .get [] [[53]] = .forward [] := by decide

end SquidModel.C63
