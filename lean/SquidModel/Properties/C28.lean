/-
C28 — Range canonicalisation preserves the requested byte set.

Property theorems only.  Model: `SquidModel.Range.Model` (strtoll/httpHeaderParseOffset, Range<int64_t>, strListGetItem,
HttpHdrRangeSpec::parseInit/canonize/mergeWith, HttpHdrRange::parseInit/getCanonizedSpecs/merge/canonize);
lemmas: `Range.CanonLemmas`, `Range.ParseLemmas`, `Range.RfcLemmas`, `Range.HeaderLemmas`; constants and the list-splitting
byte sets are regenerated from the running code into `SquidModel.Gen.Range`.

All statements are for every header value (any length), every number of specs and every representation length
`0 ≤ clen ≤ INT64_MAX` (the only caller refuses `content_length < 0` before `canonize`).

The property text has three parts.  (1) "canonical ranges are non-empty, inside the representation and cover exactly the
requested bytes": proved in full (`canon_sound_complete`, `rfc_header_end_to_end`).  (2) "a header with any syntactically
invalid spec is ignored entirely": FALSE of the real code for the specs `strtoll` reads leniently
(`invalid_spec_not_ignored_counterexample`); proved for every item squid's own spec parser refuses
(`invalid_item_ignores_header_partial`).  (3) "no input triggers arithmetic overflow": FALSE for last-byte-pos = INT64_MAX
(`no_overflow_counterexample`); proved for every other input (`no_overflow_partial`).
-/
import SquidModel.Range.HeaderLemmas

namespace SquidModel.C28
open SquidModel.Range

/-- **(1) Canonicalisation is sound and complete.**  For every accepted header and every representation length:
`canonize` raises no overflow and no assertion; the canonical list is the order-preserving image of the satisfiable specs
(`filterMap`, no merging, nothing reordered); every canonical range is non-empty and lies inside `[0, clen)`; and a byte is
covered by some canonical range exactly when some spec of the header requests it. -/
theorem canon_sound_complete (v : Bytes) (specs : List Spec) (clen : Int)
    (hp : parseHeader v = .ok (some specs)) (hc0 : 0 ≤ clen) (hc : clen ≤ LLONG_MAX) :
    ∃ cs, canonize specs clen = .ok cs ∧
      cs = specs.filterMap (canonical · clen) ∧
      (∀ c ∈ cs, 0 ≤ c.offset ∧ 0 < c.length ∧ c.offset + c.length ≤ clen) ∧
      (∀ b : Int, (∃ c ∈ cs, c.covers b) ↔ (∃ s ∈ specs, s.requests clen b)) := by
  have hwf := parseHeader_wf hp
  refine ⟨_, canonize_eq specs hwf clen hc0 hc, rfl, ?_, ?_⟩
  · intro c hcm
    obtain ⟨s, hs, hcan⟩ := List.mem_filterMap.mp hcm
    obtain ⟨h1, h2, h3, _⟩ := canonical_some (hwf s hs) hc0 hcan
    exact ⟨h1, h2, h3⟩
  · intro b
    constructor
    · rintro ⟨c, hcm, hcov⟩
      obtain ⟨s, hs, hcan⟩ := List.mem_filterMap.mp hcm
      exact ⟨s, hs, ((canonical_some (hwf s hs) hc0 hcan).2.2.2 b).mp hcov⟩
    · rintro ⟨s, hs, hreq⟩
      cases hcan : canonical s clen with
      | none => exact absurd hreq (canonical_none (hwf s hs) hc0 hcan b)
      | some c =>
        exact ⟨c, List.mem_filterMap.mpr ⟨s, hs, hcan⟩, ((canonical_some (hwf s hs) hc0 hcan).2.2.2 b).mpr hreq⟩

/-- The same holds for any list of parse-reachable (well-formed) specs, however they were obtained. -/
theorem canonize_total (specs : List Spec) (hwf : ∀ s ∈ specs, s.WF) (clen : Int) (hc0 : 0 ≤ clen) (hc : clen ≤ LLONG_MAX) :
    canonize specs clen = .ok (specs.filterMap (canonical · clen)) :=
  canonize_eq specs hwf clen hc0 hc

/-- **(1) end to end, from the header text.**  For every RFC 7233 byte-range-set — specs written with decimal digits
(leading zeros allowed), `first ≤ last < INT64_MAX`, other numbers `≤ INT64_MAX`; any letter case of `bytes=`; any layout of
commas, SP/HTAB and empty list elements (`Body`) — the header is accepted, and after `canonize(clen)` a byte of the
representation is covered exactly when one of the written specs selects it (RFC 7233 section 2.1 semantics, `Rfc.selects`);
all canonical ranges are non-empty and inside the representation. -/
theorem rfc_header_end_to_end (unit body : Bytes) (rs : List Rfc)
    (hu : unit.map toLower = [98, 121, 116, 101, 115, 61]) (hb : Body rs body) (hv : ∀ r ∈ rs, r.Valid)
    (clen : Int) (hc0 : 0 ≤ clen) (hc : clen ≤ LLONG_MAX) :
    ∃ specs cs, parseHeader (unit ++ body) = .ok (some specs) ∧ specs = rs.map Rfc.toSpec ∧
      canonize specs clen = .ok cs ∧
      (∀ c ∈ cs, 0 ≤ c.offset ∧ 0 < c.length ∧ c.offset + c.length ≤ clen) ∧
      (∀ b : Int, (∃ c ∈ cs, c.covers b) ↔ (∃ r ∈ rs, r.selects clen b)) := by
  have hp := parseHeader_body unit body rs hu hb hv
  obtain ⟨cs, hcs, _, hin, hcov⟩ := canon_sound_complete _ _ clen hp hc0 hc
  refine ⟨_, cs, hp, rfl, hcs, hin, ?_⟩
  intro b
  rw [hcov b]
  constructor
  · rintro ⟨s, hs, hreq⟩
    obtain ⟨r, hr, rfl⟩ := List.mem_map.mp hs
    exact ⟨r, hr, (Rfc.requests_iff_selects r (hv r hr) clen b).mp hreq⟩
  · rintro ⟨r, hr, hsel⟩
    exact ⟨r.toSpec, List.mem_map.mpr ⟨r, hr, rfl⟩, (Rfc.requests_iff_selects r (hv r hr) clen b).mpr hsel⟩

/- **(2) full statement (false of the real code):**
   `∀ v, (some list element of v is not a byte-range-spec / suffix-byte-range-spec) → parseHeader v = .ok none`. -/

/-- Counterexample to (2): `bytes=0-5abc` is not ignored; it is served as `0-5`.  (`strtoll` stops at `a`.) -/
theorem invalid_spec_not_ignored_counterexample :
    parseHeader [98, 121, 116, 101, 115, 61, 48, 45, 53, 97, 98, 99] = .ok (some [⟨0, 6⟩]) := by decide

/-- **(2) what does hold.**  Whenever `HttpHdrRangeSpec::parseInit` refuses one of the items `strListGetItem` yields,
the whole header is ignored (no spec survives; `itemsOf` lists the `(field, length)` pairs handed to the spec parser). -/
theorem invalid_item_ignores_header_partial (v : Bytes) (f : Bytes) (n : Nat)
    (hm : (f, n) ∈ itemsOf (v.length + 1) (v.drop 6)) (hinv : parseSpec f n = .invalid) :
    ∀ specs, parseHeader v ≠ .ok (some specs) := by
  intro specs h
  unfold parseHeader at h
  split at h
  · cases h
  · rw [parseItems_eq] at h
    rcases collect_invalid hm hinv [] with hc | ⟨e, hc⟩
    · rw [hc] at h; cases h
    · rw [hc] at h; cases h

/-- Items that are refused: no `-`, shorter than two bytes, no digits where a position is expected, `last < first`,
a number beyond INT64_MAX. -/
theorem refused_item_examples :
    parseSpec [53, 53] 2 = .invalid ∧                                 -- "55"
    parseSpec [45] 1 = .invalid ∧                                      -- "-"
    parseSpec [45, 45, 53] 3 = .invalid ∧                              -- "--5"
    parseSpec [120, 45, 53] 3 = .invalid ∧                             -- "x-5"
    parseSpec [53, 45, 120] 3 = .invalid ∧                             -- "5-x"
    parseSpec [53, 45, 52] 3 = .invalid ∧                              -- "5-4"
    parseSpec [53, 53, 44, 45, 51] 2 = .invalid ∧                      -- "55" followed by ",-3": the '-' belongs to the next item
    parseSpec [48, 45, 57,50,50,51,51,55,50,48,51,54,56,53,52,55,55,53,56,48,56] 21 = .invalid := by   -- "0-9223372036854775808"
  decide

/-- A header that does not start with `bytes=` (any letter case) is ignored. -/
theorem other_unit_ignored (v : Bytes) (h : hasBytesPrefix v = false) : parseHeader v = .ok none := by
  simp [parseHeader, h]

/- **(3) full statement (false of the real code):** `∀ v clen, parseHeader v ≠ .error .ub ∧ …canonize… ≠ .error .ub`. -/

/-- Counterexample to (3): `bytes=0-9223372036854775807` makes `parseInit` evaluate `last_pos + 1` with
`last_pos = INT64_MAX` (HttpHdrRange.cc, `HttpRange aSpec(offset, last_pos + 1)`): signed overflow. -/
theorem no_overflow_counterexample :
    parseHeader [98, 121, 116, 101, 115, 61, 48, 45, 57,50,50,51,51,55,50,48,51,54,56,53,52,55,55,53,56,48,55] = .error .ub := by
  decide

/-- **(3) what does hold.**  Parsing can only fault with that one overflow: some item has a last-byte-pos whose text
`httpHeaderParseOffset` reads as exactly INT64_MAX.  (Canonicalisation never faults: `canon_sound_complete`.) -/
theorem no_overflow_partial (v : Bytes) (e : Fault) (h : parseHeader v = .error e) :
    e = .ub ∧ ∃ f n k, (f, n) ∈ itemsOf (v.length + 1) (v.drop 6) ∧ dashIndex f = some k ∧
      parseOffset (f.drop (k + 1)) = some LLONG_MAX := by
  unfold parseHeader at h
  split at h
  · cases h
  · rw [parseItems_eq] at h
    split at h
    · rename_i e' hc
      injection h with h; subst h
      obtain ⟨p, hp, hpf⟩ := collect_fault hc
      obtain ⟨h1, k, hk, hl⟩ := parseSpec_fault hpf
      exact ⟨h1, p.1, p.2, k, hp, hk, hl⟩
    · cases h
    · cases h

/-- every spec an accepted header yields is a suffix, an open range or a range with `offset + length ≤ INT64_MAX` -/
theorem parsed_specs_well_formed (v : Bytes) (specs : List Spec) (h : parseHeader v = .ok (some specs)) :
    ∀ s ∈ specs, s.WF := parseHeader_wf h

/-! Non-vacuity and concrete behaviour (byte lists written out). -/

-- "bytes=0-3, 1-, -2" with 4 bytes: the unit test's header
example : parseHeader [98,121,116,101,115,61, 48,45,51, 44,32, 49,45, 44,32, 45,50] = .ok (some [⟨0, 4⟩, ⟨1, -1⟩, ⟨-1, 2⟩]) := by decide
example : canonize [⟨0, 4⟩, ⟨1, -1⟩, ⟨-1, 2⟩] 4 = .ok [⟨0, 4⟩, ⟨1, 3⟩, ⟨2, 2⟩] := by decide
example : canonize [⟨0, 4⟩, ⟨1, -1⟩, ⟨-1, 2⟩] 3 = .ok [⟨0, 3⟩, ⟨1, 2⟩, ⟨1, 2⟩] := by decide
-- unsatisfiable specs are dropped, order is kept
example : canonize [⟨3, 4⟩, ⟨0, 1⟩, ⟨-1, 0⟩, ⟨5, -1⟩] 3 = .ok [⟨0, 1⟩] := by decide
-- the hypotheses of `rfc_header_end_to_end` are satisfiable: "0-3" and "-2" are valid, "3-0" is not
example : (Rfc.range [48] [51]).Valid := by
  refine ⟨by decide, by decide, by decide, ?_⟩
  have := LLONG_MAX_eq; simp only [this]; decide
example : ¬ (Rfc.range [51] [48]).Valid := by
  rintro ⟨_, _, h, _⟩; revert h; decide
example : Body [Rfc.range [48] [51], Rfc.suffix [50]] ([48,45,51] ++ [] ++ 44 :: ([32] ++ [45,50] ++ [] ++ [])) :=
  Body.cons _ _ [] [] _ (by decide) (by decide) (Body.last _ [32] [] [] (by decide) (by decide) (Or.inl rfl))
-- `Spec.requests` is not vacuous: byte 2 of 4 is requested by "-2", byte 1 is not
example : (⟨-1, 2⟩ : Spec).requests 4 2 := ⟨by decide, by decide, Or.inl ⟨rfl, by decide⟩⟩
example : ¬ (⟨-1, 2⟩ : Spec).requests 4 1 := by
  rintro ⟨_, _, h⟩
  rcases h with ⟨_, h⟩ | ⟨h, _⟩ | ⟨h, _⟩ <;> revert h <;> decide
-- further lax spellings that are accepted (all covered by the counterexample class): "+1-+5", "0x10-20", "-5x", "5-6-7", "1- 5"
example : parseHeader [98,121,116,101,115,61, 43,49,45,43,53] = .ok (some [⟨1, 5⟩]) := by decide
example : parseHeader [98,121,116,101,115,61, 48,120,49,48,45,50,48] = .ok (some [⟨0, 21⟩]) := by decide
example : parseHeader [98,121,116,101,115,61, 45,53,120] = .ok (some [⟨-1, 5⟩]) := by decide
example : parseHeader [98,121,116,101,115,61, 53,45,54,45,55] = .ok (some [⟨5, 2⟩]) := by decide
example : parseHeader [98,121,116,101,115,61, 49,45,32,53] = .ok (some [⟨1, 5⟩]) := by decide
-- a VT-only list element ends the list: "bytes=1-2,\v,5-6" yields only 1-2
example : parseHeader [98,121,116,101,115,61, 49,45,50,44,11,44,53,45,54] = .ok (some [⟨1, 2⟩]) := by decide
-- ignored: "bytes=1-2,5", "bytes=5-4", "bytes=", "items=0-1"
example : parseHeader [98,121,116,101,115,61, 49,45,50,44,53] = .ok none := by decide
example : parseHeader [98,121,116,101,115,61, 53,45,52] = .ok none := by decide
example : parseHeader [98,121,116,101,115,61] = .ok none := by decide
example : parseHeader [105,116,101,109,115,61, 48,45,49] = .ok none := by decide

end SquidModel.C28
