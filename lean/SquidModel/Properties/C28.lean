/-
C28 — Range canonicalisation preserves the requested byte set.

Property theorems only.  Model: `SquidModel.Range.Model` (strtoll/httpHeaderParseOffset, Range<int64_t>, strListGetItem,
parseBytePos, HttpHdrRangeSpec::parseInit/canonize/mergeWith, HttpHdrRange::parseInit/getCanonizedSpecs/merge/canonize), as of
squid commits cc9716a (byte positions are `1*DIGIT` ending at the item boundary; `last_pos + 1` cannot overflow) and 43aac5c
(`strListGetItem` skips VT/FF in front of an item like the other white space it trims);
lemmas: `Range.CanonLemmas`, `Range.ParseLemmas`, `Range.RfcLemmas`, `Range.HeaderLemmas`; constants and the list-splitting
byte sets are regenerated from the running code into `SquidModel.Gen.Range`.

All statements are for every header value (any length), every number of specs and every representation length
`0 ≤ clen ≤ INT64_MAX` (the only caller refuses `content_length < 0` before `canonize`).

The three parts of the property text: (1) canonical ranges are non-empty, inside the representation and cover exactly the
requested bytes — `canon_sound_complete`, `rfc_header_end_to_end`; (2) a header with any syntactically invalid spec is ignored
entirely — `invalid_spec_ignores_header` (an *item* is what `strListGetItem` cuts out between unquoted commas, trimmed of list
white space) together with `list_ends_only_at_end_of_header` (no element is skipped); (3) no input triggers arithmetic
overflow — `no_overflow`.

Historical note: before cc9716a, (2) and (3) were false of the real code (`bytes=0-5abc` was served as `0-5`;
`bytes=0-9223372036854775807` overflowed `last_pos + 1`). Both inputs are now `example`s of the repaired behaviour below and
regression cases in corpus/C28.
-/
import SquidModel.Range.HeaderLemmas

namespace SquidModel.C28
open SquidModel.Range

/-- **(1) Canonicalisation is sound and complete.**  For every accepted header and every representation length:
`canonize` raises no overflow and no assertion; the canonical list is the order-preserving image of the satisfiable specs
(`filterMap`, no merging, nothing reordered); every canonical range is non-empty and lies inside `[0, clen)`; and a byte is
covered by some canonical range exactly when some spec of the header requests it. -/
theorem canon_sound_complete (v : Bytes) (specs : List Spec) (clen : Int)
    (hp : parseHeader v = .ok (some specs)) (hc0 : 0 ≤ clen) (hc : clen ≤ LLONG_MAX) :
    ∃ cs, canonize specs clen = .ok cs ∧
      cs = specs.filterMap (canonical · clen) ∧
      (∀ c ∈ cs, 0 ≤ c.offset ∧ 0 < c.length ∧ c.offset + c.length ≤ clen) ∧
      (∀ b : Int, (∃ c ∈ cs, c.covers b) ↔ (∃ s ∈ specs, s.requests clen b)) := by
  have hwf := parseHeader_wf hp
  refine ⟨_, canonize_eq specs hwf clen hc0 hc, rfl, ?_, ?_⟩
  · intro c hcm
    obtain ⟨s, hs, hcan⟩ := List.mem_filterMap.mp hcm
    obtain ⟨h1, h2, h3, _⟩ := canonical_some (hwf s hs) hc0 hcan
    exact ⟨h1, h2, h3⟩
  · intro b
    constructor
    · rintro ⟨c, hcm, hcov⟩
      obtain ⟨s, hs, hcan⟩ := List.mem_filterMap.mp hcm
      exact ⟨s, hs, ((canonical_some (hwf s hs) hc0 hcan).2.2.2 b).mp hcov⟩
    · rintro ⟨s, hs, hreq⟩
      cases hcan : canonical s clen with
      | none => exact absurd hreq (canonical_none (hwf s hs) hc0 hcan b)
      | some c =>
        exact ⟨c, List.mem_filterMap.mpr ⟨s, hs, hcan⟩, ((canonical_some (hwf s hs) hc0 hcan).2.2.2 b).mpr hreq⟩

/-- The same holds for any list of parse-reachable (well-formed) specs, however they were obtained. -/
theorem canonize_total (specs : List Spec) (hwf : ∀ s ∈ specs, s.WF) (clen : Int) (hc0 : 0 ≤ clen) (hc : clen ≤ LLONG_MAX) :
    canonize specs clen = .ok (specs.filterMap (canonical · clen)) :=
  canonize_eq specs hwf clen hc0 hc

/-- **(1) end to end, from the header text.**  For every RFC 7233 byte-range-set — specs written with decimal digits
(leading zeros allowed), `first ≤ last`, all numbers `≤ INT64_MAX`; any letter case of `bytes=`; any layout of
commas, SP/HTAB and empty list elements (`Body`) — the header is accepted, and after `canonize(clen)` a byte of the
representation is covered exactly when one of the written specs selects it (RFC 7233 section 2.1 semantics, `Rfc.selects`);
all canonical ranges are non-empty and inside the representation. -/
theorem rfc_header_end_to_end (unit body : Bytes) (rs : List Rfc)
    (hu : unit.map toLower = [98, 121, 116, 101, 115, 61]) (hb : Body rs body) (hv : ∀ r ∈ rs, r.Valid)
    (clen : Int) (hc0 : 0 ≤ clen) (hc : clen ≤ LLONG_MAX) :
    ∃ specs cs, parseHeader (unit ++ body) = .ok (some specs) ∧ specs = rs.map Rfc.toSpec ∧
      canonize specs clen = .ok cs ∧
      (∀ c ∈ cs, 0 ≤ c.offset ∧ 0 < c.length ∧ c.offset + c.length ≤ clen) ∧
      (∀ b : Int, (∃ c ∈ cs, c.covers b) ↔ (∃ r ∈ rs, r.selects clen b)) := by
  have hp := parseHeader_body unit body rs hu hb hv
  obtain ⟨cs, hcs, _, hin, hcov⟩ := canon_sound_complete _ _ clen hp hc0 hc
  refine ⟨_, cs, hp, rfl, hcs, hin, ?_⟩
  intro b
  rw [hcov b]
  constructor
  · rintro ⟨s, hs, hreq⟩
    obtain ⟨r, hr, rfl⟩ := List.mem_map.mp hs
    exact ⟨r, hr, (Rfc.requests_iff_selects r (hv r hr) clen b hc).mp hreq⟩
  · rintro ⟨r, hr, hsel⟩
    exact ⟨r.toSpec, List.mem_map.mpr ⟨r, hr, rfl⟩, (Rfc.requests_iff_selects r (hv r hr) clen b hc).mpr hsel⟩

/-- the spec parser accepts only RFC specs, byte for byte, and stores their meaning -/
theorem accepted_item_is_rfc_spec (field : Bytes) (flen : Nat) (s : Spec) (h : parseSpec field flen = .ok s) :
    ∃ r : Rfc, r.Valid ∧ field.take flen = r.text ∧ s = r.toSpec :=
  parseSpec_ok_strict h

/-- **(2) A header with any syntactically invalid spec is ignored entirely.**  If one of the items `strListGetItem` cuts out of
the header (`itemsOf` lists them as (text from the item start, item length)) is not an RFC 7233 spec, `ParseCreate` returns
nothing: the header is ignored, whatever the other items are. -/
theorem invalid_spec_ignores_header (v : Bytes) (f : Bytes) (n : Nat)
    (hm : (f, n) ∈ itemsOf (v.length + 1) (v.drop 6)) (hbad : ¬ IsRfcSpec (f.take n)) :
    parseHeader v = .ok none := by
  have hinv : parseSpec f n = .invalid := by
    cases hp : parseSpec f n with
    | invalid => rfl
    | fault e => exact absurd hp (parseSpec_no_fault f n e)
    | ok s =>
      obtain ⟨r, hv, ht, _⟩ := parseSpec_ok_strict hp
      exact absurd ⟨r, hv.syntactic, ht⟩ hbad
  unfold parseHeader
  split
  · rfl
  · rw [parseItems_eq]
    rcases collect_invalid hm hinv [] with hc | ⟨e, hc⟩
    · rw [hc]
    · exact absurd hc (collect_no_fault _ _ e)

/-- The item loop never stops early: it ends only when nothing but commas and list white space (SP HT LF VT FF CR) is left, so
every element of the header is looked at. (Before squid commit 43aac5c a VT/FF-only element ended the list silently.) -/
theorem list_ends_only_at_end_of_header (fuel : Nat) (pos : Bytes) (h : itemsOf (fuel + 1) pos = []) :
    ∀ c ∈ pos, isListLeading c = true :=
  itemsOf_nil h

/-- A header that does not start with `bytes=` (any letter case) is ignored. -/
theorem other_unit_ignored (v : Bytes) (h : hasBytesPrefix v = false) : parseHeader v = .ok none := by
  simp [parseHeader, h]

/-- **(3) No input triggers arithmetic overflow** (or an assertion): parsing any header value yields either "ignored" or a spec
list, and canonicalising that list against any representation length yields the canonical list. -/
theorem no_overflow (v : Bytes) (clen : Int) (hc0 : 0 ≤ clen) (hc : clen ≤ LLONG_MAX) :
    parseHeader v = .ok none ∨ ∃ specs cs, parseHeader v = .ok (some specs) ∧ canonize specs clen = .ok cs := by
  cases hp : parseHeader v with
  | error e =>
    unfold parseHeader at hp
    split at hp
    · cases hp
    · rw [parseItems_eq] at hp
      split at hp
      · rename_i e' hce
        exact absurd hce (collect_no_fault _ _ e')
      · cases hp
      · cases hp
  | ok r =>
    cases r with
    | none => exact Or.inl rfl
    | some specs =>
      obtain ⟨cs, hcs, _⟩ := canon_sound_complete v specs clen hp hc0 hc
      exact Or.inr ⟨specs, cs, rfl, hcs⟩

/-- every spec an accepted header yields is a suffix, an open range or a range with `offset + length ≤ INT64_MAX` -/
theorem parsed_specs_well_formed (v : Bytes) (specs : List Spec) (h : parseHeader v = .ok (some specs)) :
    ∀ s ∈ specs, s.WF := parseHeader_wf h

/-! Non-vacuity and concrete behaviour (byte lists written out). -/

-- "bytes=0-3, 1-, -2" with 4 bytes: the unit test's header
example : parseHeader [98,121,116,101,115,61, 48,45,51, 44,32, 49,45, 44,32, 45,50] = .ok (some [⟨0, 4⟩, ⟨1, -1⟩, ⟨-1, 2⟩]) := by decide
example : canonize [⟨0, 4⟩, ⟨1, -1⟩, ⟨-1, 2⟩] 4 = .ok [⟨0, 4⟩, ⟨1, 3⟩, ⟨2, 2⟩] := by decide
example : canonize [⟨0, 4⟩, ⟨1, -1⟩, ⟨-1, 2⟩] 3 = .ok [⟨0, 3⟩, ⟨1, 2⟩, ⟨1, 2⟩] := by decide
-- unsatisfiable specs are dropped, order is kept
example : canonize [⟨3, 4⟩, ⟨0, 1⟩, ⟨-1, 0⟩, ⟨5, -1⟩] 3 = .ok [⟨0, 1⟩] := by decide
-- the hypotheses of `rfc_header_end_to_end` are satisfiable: "0-3" is valid, "3-0" is not
example : (Rfc.range [48] [51]).Valid := by
  refine ⟨by decide, by decide, by decide, ?_⟩
  have := LLONG_MAX_eq; simp only [this]; decide
example : ¬ (Rfc.range [51] [48]).Syntactic := by
  rintro ⟨_, _, h⟩; revert h; decide
example : Body [Rfc.range [48] [51], Rfc.suffix [50]] ([48,45,51] ++ [] ++ 44 :: ([32] ++ [45,50] ++ [] ++ [])) :=
  Body.cons _ _ [] [] _ (by decide) (by decide) (Body.last _ [32] [] [] (by decide) (by decide) (Or.inl rfl))
-- `IsRfcSpec` is neither always true nor always false
example : IsRfcSpec [48, 45, 53] := ⟨Rfc.range [48] [53], ⟨by decide, by decide, by decide⟩, rfl⟩
-- `Spec.requests` is not vacuous: byte 2 of 4 is requested by "-2", byte 1 is not
example : (⟨-1, 2⟩ : Spec).requests 4 2 := ⟨by decide, by decide, Or.inl ⟨rfl, by decide⟩⟩
example : ¬ (⟨-1, 2⟩ : Spec).requests 4 1 := by
  rintro ⟨_, _, h⟩
  rcases h with ⟨_, h⟩ | ⟨h, _⟩ | ⟨h, _⟩ <;> revert h <;> decide
-- the inputs of the former findings, now handled: last-byte-pos INT64_MAX is stored as INT64_MAX-1 (same bytes) …
example : parseHeader [98, 121, 116, 101, 115, 61, 48, 45, 57,50,50,51,51,55,50,48,51,54,56,53,52,55,55,53,56,48,55]
    = .ok (some [⟨0, 9223372036854775807⟩]) := by decide
-- … and the leniently read spellings are ignored: "0-5abc", "+1-+5", "0x10-20", "-5x", "5-6-7", "1- 5"
example : parseHeader [98, 121, 116, 101, 115, 61, 48, 45, 53, 97, 98, 99] = .ok none := by decide
example : parseHeader [98,121,116,101,115,61, 43,49,45,43,53] = .ok none := by decide
example : parseHeader [98,121,116,101,115,61, 48,120,49,48,45,50,48] = .ok none := by decide
example : parseHeader [98,121,116,101,115,61, 45,53,120] = .ok none := by decide
example : parseHeader [98,121,116,101,115,61, 53,45,54,45,55] = .ok none := by decide
example : parseHeader [98,121,116,101,115,61, 49,45,32,53] = .ok none := by decide
-- a VT/FF-only list element is an empty element (squid commit 43aac5c; it used to end the list): "bytes=1-2,\v,5-6", "bytes=1-2,\f,junk"
example : parseHeader [98,121,116,101,115,61, 49,45,50,44,11,44,53,45,54] = .ok (some [⟨1, 2⟩, ⟨5, 2⟩]) := by decide
example : parseHeader [98,121,116,101,115,61, 49,45,50,44,12,44,106,117,110,107] = .ok none := by decide
-- ignored: "bytes=1-2,5", "bytes=5-4", "bytes=", "items=0-1", "bytes=55,-3", "bytes=0-9223372036854775808"
example : parseHeader [98,121,116,101,115,61, 49,45,50,44,53] = .ok none := by decide
example : parseHeader [98,121,116,101,115,61, 53,45,52] = .ok none := by decide
example : parseHeader [98,121,116,101,115,61] = .ok none := by decide
example : parseHeader [105,116,101,109,115,61, 48,45,49] = .ok none := by decide
example : parseHeader [98,121,116,101,115,61, 53,53,44,45,51] = .ok none := by decide
example : parseHeader [98,121,116,101,115,61, 48,45,57,50,50,51,51,55,50,48,51,54,56,53,52,55,55,53,56,48,56] = .ok none := by decide

end SquidModel.C28
