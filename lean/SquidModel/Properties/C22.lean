/-
C22 — Request-line acceptance matches the HTTP grammar.

Property theorems only.  Parser model: `SquidModel.Http1.Request` (parseMethodField, skipDelimiter, skipTrailingCrs,
parseHttpVersionField, parseUriField in the right-to-left order of parseRequestFirstLine); grammar relation:
`SquidModel.Http1.Grammar` (written from RFC 9112 / 9110 / 3986 / 1945 and the documented relaxed tolerances);
proofs: `SquidModel.Http1.LineLemmas`, `SquidModel.Http1.LineProof`.  A "line" is a request line without its LF.

FULL STATEMENT for strict mode (false of the real code — see the four `_counterexample` theorems):

    theorem strict_accepts_iff (limit : Nat) (line : Bytes) (f : ReqLine) :
        parseLine { relaxed := false, limit := limit } line = .ok f ↔
          (Rfc9112Line (line ++ [10]) f.fields ∧ f.isGet = (f.method == GET))

What is proved: `accepts_iff`, the exact characterisation of acceptance in both modes by the relation `RequestLine`, whose
three shapes are the RFC 9112 request-line with a non-zero major version, the RFC 1945 simple-request, and the
version-0 deviation; `strict_accepts_iff_partial` (the full statement restricted to major versions other than 0);
`strict_sub_relaxed`.
-/
import SquidModel.Http1.LineProof
import SquidModel.Http1.SegLemmas

namespace SquidModel.C22
open SquidModel.Http1 SquidModel.Http1.Grammar SquidModel.Gen.Http1Request

/-- **Both modes, all byte strings.** The field parsers accept `line` and extract `f` exactly when the grammar relation
derives `f`'s fields from `line` (and the GET flag says whether the reported method is GET). For `relaxed = true` the
relation is the list of tolerances: `1*(SP/HTAB/VT/FF/CR)` delimiters, `*CR` before the LF, the extended target
characters, known methods in any case. -/
theorem accepts_iff (cfg : Cfg) (line : Bytes) (f : ReqLine) :
    parseLine cfg line = .ok f ↔ (RequestLine cfg.relaxed line f.fields ∧ f.isGet = (f.method == GET)) :=
  parseLine_iff cfg line f

/-- The tie to what the parser object reports: when the buffer starts with a non-empty line and its LF (and the line is
shorter than the limit), `parseRequestFirstLine` accepts, leaving `rest`, exactly when the relation derives the line. -/
theorem firstLine_accepts_iff (cfg : Cfg) (line rest : Bytes) (f : ReqLine) (hne : line ≠ [])
    (hlf : ∀ c ∈ line, c ≠ 10) (hlim : line.length < cfg.limit) :
    parseFirstLine cfg (line ++ 10 :: rest) = .ok f rest ↔
      (RequestLine cfg.relaxed line f.fields ∧ f.isGet = (f.method == GET)) := by
  have hp : ∀ c ∈ line, notLF c = true := fun c hc => (notLF_iff c).2 (hlf c hc)
  obtain ⟨t1, t2⟩ := takeWhile_stop (p := notLF) (m := line) (x := 10 :: rest) hp
    (by intro c hc; simp at hc; subst hc; exact notLF_ten)
  rw [parseFirstLine_complete cfg (by rw [t1]; exact hne) t2, t1, if_neg (by omega), ← accepts_iff]
  cases parseLine cfg line <;> simp

/-- RFC 9112 §3 request-line (with its CRLF), lexical level:
`method SP request-target SP "HTTP/" DIGIT "." DIGIT CR LF`, method = 1*32 tchar, request-target = 1*65536 uri-char. -/
def Rfc9112Line (l : Bytes) (F : Fields) : Prop :=
  ∃ (m t : Bytes) (a b : UInt8),
    l = m ++ [32] ++ t ++ [32] ++ httpSlash ++ [a, 46, b] ++ [13, 10] ∧
    MethodOk m ∧ TargetOk false t ∧ isDigit a = true ∧ isDigit b = true ∧
    F = { method := m, uri := t, vmaj := a.toNat - 48, vmin := b.toNat - 48 }

theorem uri_not_delim : ∀ c : UInt8, (!(isUriChar c) || !(isRelaxedDelim c)) = true := forall_octet _ (by decide +kernel)
theorem digit_is_uri : ∀ c : UInt8, (!(isDigit c) || isUriChar c) = true := forall_octet _ (by decide +kernel)

theorem uriChar_not_sp {c : UInt8} (h : isUriChar c = true) : (c == 32) = false := by
  have := uri_not_delim c
  simp only [h, Bool.not_true, Bool.false_or, Bool.not_eq_true'] at this
  unfold isRelaxedDelim at this
  simp only [Bool.or_eq_false_iff] at this
  exact this.1.1.1.1

/-- Completeness w.r.t. RFC 9112 (strict mode): a grammatical request-line whose major version is not 0 is accepted
and the extracted method, target and version are the grammar's fields. -/
theorem strict_rfc9112_accepted (limit : Nat) (line : Bytes) (F : Fields) (h : Rfc9112Line (line ++ [10]) F)
    (hv : F.vmaj ≠ 0) :
    parseLine { relaxed := false, limit := limit } line =
      .ok { method := F.method, isGet := F.method == GET, uri := F.uri, vmaj := F.vmaj, vmin := F.vmin } := by
  obtain ⟨m, t, a, b, hl, hm, ht, ha, hb, hF⟩ := h
  subst hF
  apply parseLine_of_requestLine { relaxed := false, limit := limit } line
  have hline : line = m ++ [32] ++ (t ++ [32] ++ httpSlash ++ [a, 46, b]) ++ [13] := by
    have : line ++ [10] = (m ++ [32] ++ (t ++ [32] ++ httpSlash ++ [a, 46, b]) ++ [13]) ++ [10] := by
      rw [hl]; simp
    exact List.append_cancel_right this
  have ha0 : a ≠ 48 := by
    intro h0; subst h0; simp at hv
  refine ⟨m, [32], t ++ [32] ++ httpSlash ++ [a, 46, b], [13], hline, hm, ⟨by simp, by simp [isDelim], by simp⟩,
    ⟨by simp, by simp⟩, ?_, by simp, ?_, by simp [canonMethod]⟩
  · intro c hc
    obtain ⟨t1, t2, _⟩ := ht
    cases t with
    | nil => exact absurd rfl t1
    | cons x xs =>
      simp at hc; subst hc
      simpa [isDelim] using uriChar_not_sp (by simpa [isTarget] using t2 x (by simp))
  · refine Body.versioned t [32] a b ht ⟨by simp, by simp [isDelim], by simp⟩ ?_ ha hb ha0
    intro c hc
    have hmem : c ∈ t := List.mem_of_getLast? hc
    simpa [isDelim] using uriChar_not_sp (by simpa [isTarget] using ht.2.1 c hmem)

/-- Soundness w.r.t. RFC 9112 (strict mode): an accepted line whose reported major version is not 0 is a grammatical
request-line, and the reported fields are the grammar's. -/
theorem strict_accepts_rfc9112 (limit : Nat) (line : Bytes) (f : ReqLine)
    (h : parseLine { relaxed := false, limit := limit } line = .ok f) (hv : f.vmaj ≠ 0) :
    Rfc9112Line (line ++ [10]) f.fields := by
  obtain ⟨⟨m, d, body, crs, hline, hm, hd, hcrs, _, _, hbody, hmeth⟩, _⟩ := (accepts_iff _ line f).1 h
  simp only [ReqLine.fields] at hbody hmeth
  have hd1 : d = [32] := by
    obtain ⟨_, d2, d3⟩ := hd
    match d, d3 rfl with
    | [x], _ => have := d2 x (by simp); simp [isDelim] at this; simp [this]
  have hc1 : crs = [13] := by
    obtain ⟨c1, c2⟩ := hcrs
    match crs, c2 rfl with
    | [x], _ => have := c1 x (by simp); simp [this]
  generalize hfu : f.uri = fu at hbody
  generalize hfa : f.vmaj = fa at hbody hv
  generalize hfi : f.vmin = fi at hbody
  cases hbody with
  | versioned _ d2 a b hu hd2 _ ha hb _ =>
    have hd21 : d2 = [32] := by
      obtain ⟨_, e2, e3⟩ := hd2
      match d2, e3 rfl with
      | [x], _ => have := e2 x (by simp); simp [isDelim] at this; simp [this]
    refine ⟨m, fu, a, b, ?_, hm, hu, ha, hb, ?_⟩
    · rw [hline, hd1, hc1, hd21]; simp
    · simp [ReqLine.fields, hmeth, canonMethod, hfu, hfa, hfi]
  | version0 _ ma mi => exact absurd rfl hv
  | simple _ => exact absurd rfl hv

/-- The full statement restricted to the region where it holds: for results whose major version is not 0, strict
acceptance is exactly RFC 9112 derivability, with the grammar's fields. -/
theorem strict_accepts_iff_partial (limit : Nat) (line : Bytes) (f : ReqLine) (hv : f.vmaj ≠ 0) :
    parseLine { relaxed := false, limit := limit } line = .ok f ↔
      (Rfc9112Line (line ++ [10]) f.fields ∧ f.isGet = (f.method == GET)) := by
  constructor
  · intro h
    exact ⟨strict_accepts_rfc9112 limit line f h hv, ((accepts_iff _ line f).1 h).2⟩
  · intro ⟨h1, h2⟩
    have := strict_rfc9112_accepted limit line f.fields h1 hv
    rw [this]
    cases f
    simp_all [ReqLine.fields]

/-- Whatever strict mode accepts, relaxed mode accepts with the same target and version; the method is the same up to
the case correction of known methods. -/
theorem strict_sub_relaxed (limit : Nat) (line : Bytes) (f : ReqLine)
    (h : parseLine { relaxed := false, limit := limit } line = .ok f) :
    ∃ f', parseLine { relaxed := true, limit := limit } line = .ok f' ∧
      f'.uri = f.uri ∧ f'.vmaj = f.vmaj ∧ f'.vmin = f.vmin ∧ f'.method = canonMethod true f.method := by
  obtain ⟨⟨m, d, body, crs, hline, hm, hd, hcrs, hhead, _, hbody, hmeth⟩, hget⟩ := (accepts_iff _ line f).1 h
  simp only [ReqLine.fields] at hbody hmeth
  have hmm : f.method = m := by simpa [canonMethod] using hmeth
  -- strict targets are relaxed targets and contain no relaxed delimiter
  have tgt : ∀ u, TargetOk false u → TargetOk true u ∧ (∀ c ∈ u, isDelim true c = false) := by
    intro u ⟨u1, u2, u3⟩
    refine ⟨⟨u1, ?_, u3⟩, ?_⟩
    · intro c hc; have := u2 c hc; simp only [isTarget, Bool.false_eq_true, ↓reduceIte] at this ⊢; simp [isRelaxedTarget, this]
    · intro c hc
      have := u2 c hc
      simp only [isTarget, Bool.false_eq_true, ↓reduceIte] at this
      have h2 := uri_not_delim c
      simpa [this, isDelim] using h2
  have dlm : ∀ d, DelimOk false d → DelimOk true d := by
    intro d ⟨d1, d2, _⟩
    refine ⟨d1, ?_, by simp⟩
    intro c hc; have := d2 c hc; simp only [isDelim, Bool.false_eq_true, ↓reduceIte, beq_iff_eq] at this ⊢; subst this; decide
  have dig13 : ∀ c, isDigit c = true → c ≠ 13 := by intro c hc h13; subst h13; simp [isDigit] at hc
  have headmem : ∀ (u rest : Bytes) (c : UInt8), u ≠ [] → (u ++ rest).head? = some c → c ∈ u := by
    intro u rest c hu hc
    cases u with
    | nil => exact absurd rfl hu
    | cons x xs => simp at hc; simp [hc]
  have lastmem : ∀ (pre mi : Bytes) (c : UInt8), mi ≠ [] → (pre ++ mi).getLast? = some c → c ∈ mi := by
    intro pre mi c hmi hc
    rw [List.getLast?_append] at hc
    cases hl : mi.getLast? with
    | none => exact absurd (List.getLast?_eq_none_iff.1 hl) hmi
    | some y => rw [hl] at hc; simp at hc; subst hc; exact List.mem_of_getLast? hl
  have hcanon : (canonMethod false m == GET) = true → (canonMethod true m == GET) = true := by
    intro hh
    have : m = GET := by simpa [canonMethod] using hh
    subst this
    decide
  have key : Body true (canonMethod true m == GET) body f.uri f.vmaj f.vmin ∧
      (∀ c, body.head? = some c → isDelim true c = false) ∧ body.getLast? ≠ some 13 := by
    generalize f.uri = fu at hbody
    generalize f.vmaj = fa at hbody
    generalize f.vmin = fi at hbody
    cases hbody with
    | versioned _ d2 a b hu hd2 hul ha hb ha0 =>
      obtain ⟨hu', hnd⟩ := tgt _ hu
      refine ⟨Body.versioned fu d2 a b hu' (dlm _ hd2) ?_ ha hb ha0, ?_, ?_⟩
      · intro c hc; exact hnd c (List.mem_of_getLast? hc)
      · intro c hc
        simp only [List.append_assoc] at hc
        exact hnd c (headmem fu _ c hu.1 hc)
      · intro hc
        have := lastmem (fu ++ d2 ++ httpSlash) [a, 46, b] 13 (by simp) hc
        simp at this
        rcases this with h1 | h1
        · exact dig13 a ha h1.symm
        · exact dig13 b hb h1.symm
    | version0 _ ma mi hu hma hmi hz =>
      obtain ⟨hu', hnd⟩ := tgt _ hu
      refine ⟨Body.version0 fu ma mi hu' hma hmi hz, ?_, ?_⟩
      · intro c hc
        simp only [List.append_assoc] at hc
        exact hnd c (headmem fu _ c hu.1 hc)
      · intro hc
        have := lastmem (fu ++ httpSlash ++ ma ++ [46]) mi 13 hmi.1 hc
        exact dig13 13 (hmi.2 13 this) rfl
    | simple _ hg hu hnv =>
      obtain ⟨hu', hnd⟩ := tgt _ hu
      refine ⟨Body.simple body (hcanon hg) hu' hnv, ?_, ?_⟩
      · intro c hc
        exact hnd c (headmem body [] c hu.1 (by simpa using hc))
      · intro hc
        have := hnd 13 (List.mem_of_getLast? hc)
        simp [isDelim, isRelaxedDelim] at this
  obtain ⟨hb'', hh', hl'⟩ := key
  have hrel : RequestLine true line { method := canonMethod true m, uri := f.uri, vmaj := f.vmaj, vmin := f.vmin } :=
    ⟨m, d, body, crs, hline, hm, dlm _ hd, ⟨hcrs.1, by simp⟩, hh', fun _ => hl', hb'', rfl⟩
  refine ⟨_, parseLine_of_requestLine { relaxed := true, limit := limit } line _ hrel, rfl, rfl, rfl, ?_⟩
  simp [hmm]

/-! ### where the real parser leaves RFC 9112 (each re-confirmed on the real code every run) -/

/-- documented (RFC 1945): "GET /" CR is accepted as an HTTP/0.9 simple-request -/
theorem strict_simple_request_counterexample :
    parseLine { relaxed := false, limit := 65536 } [71, 69, 84, 32, 47, 13] =
      .ok { method := [71, 69, 84], isGet := true, uri := [47], vmaj := 0, vmin := 9 } := by decide +kernel

/-- finding C22-version0-no-delimiter: "POST / HTTP/0.9" CR is an RFC 9112 request-line but is rejected (400) ... -/
theorem strict_version0_rejected_counterexample :
    parseLine { relaxed := false, limit := 65536 } [80, 79, 83, 84, 32, 47, 32, 72, 84, 84, 80, 47, 48, 46, 57, 13] = .error 400 := by
  decide +kernel

/-- ... while "POST /xHTTP/0.9" CR, which is not one, is accepted as POST /x HTTP/0.9 -/
theorem strict_glued_version_counterexample :
    parseLine { relaxed := false, limit := 65536 } [80, 79, 83, 84, 32, 47, 120, 72, 84, 84, 80, 47, 48, 46, 57, 13] =
      .ok { method := [80, 79, 83, 84], isGet := false, uri := [47, 120], vmaj := 0, vmin := 9 } := by decide +kernel

/-- finding C22-simple-request-version-tail: "GET /HTTP/1.1" CR is an RFC 1945 simple-request but is rejected (400) -/
theorem strict_simple_request_version_tail_counterexample :
    parseLine { relaxed := false, limit := 65536 } [71, 69, 84, 32, 47, 72, 84, 84, 80, 47, 49, 46, 49, 13] = .error 400 := by
  decide +kernel

/-- relaxed mode, same deviation: "GET / HTTP/12.3" is accepted as HTTP/0.0 with the target "/ " (trailing SP) -/
theorem relaxed_multidigit_version_counterexample :
    parseLine { relaxed := true, limit := 65536 } [71, 69, 84, 32, 47, 32, 72, 84, 84, 80, 47, 49, 50, 46, 51] =
      .ok { method := [71, 69, 84], isGet := true, uri := [47, 32], vmaj := 0, vmin := 0 } := by decide +kernel

/-! ### non-vacuity -/

/-- "GET / HTTP/1.1" CR LF is an RFC 9112 request-line -/
example : Rfc9112Line [71, 69, 84, 32, 47, 32, 72, 84, 84, 80, 47, 49, 46, 49, 13, 10]
    { method := [71, 69, 84], uri := [47], vmaj := 1, vmin := 1 } :=
  ⟨[71, 69, 84], [47], 49, 49, by decide, ⟨by decide, by decide, by decide⟩, ⟨by decide, by decide, by decide⟩, by decide, by decide, by decide⟩

/-- and is accepted with these fields -/
example : parseLine { relaxed := false, limit := 65536 } [71, 69, 84, 32, 47, 32, 72, 84, 84, 80, 47, 49, 46, 49, 13] =
    .ok { method := [71, 69, 84], isGet := true, uri := [47], vmaj := 1, vmin := 1 } := by decide +kernel

/-- the relation rejects: two SP in strict mode, a missing CR, a control character in the target -/
example : parseLine { relaxed := false, limit := 65536 } [71, 69, 84, 32, 32, 47, 32, 72, 84, 84, 80, 47, 49, 46, 49, 13] = .error 400 := by decide +kernel
example : parseLine { relaxed := false, limit := 65536 } [71, 69, 84, 32, 47, 32, 72, 84, 84, 80, 47, 49, 46, 49] = .error 400 := by decide +kernel
example : parseLine { relaxed := false, limit := 65536 } [71, 69, 84, 32, 47, 1, 32, 72, 84, 84, 80, 47, 49, 46, 49, 13] = .error 400 := by decide +kernel

/-- a relaxed-only line: "get" TAB SP "/a b" CR SP "HTTP/1.0" CR CR, accepted with the method corrected to GET -/
example : parseLine { relaxed := true, limit := 65536 }
    [103, 101, 116, 9, 32, 47, 97, 32, 98, 13, 32, 72, 84, 84, 80, 47, 49, 46, 48, 13, 13] =
    .ok { method := [71, 69, 84], isGet := true, uri := [47, 97, 32, 98], vmaj := 1, vmin := 0 } := by decide +kernel

end SquidModel.C22
