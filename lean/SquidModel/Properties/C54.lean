/-
C54 — Shared read/write lock provides mutual exclusion.

Model: `SquidModel.Ipc.RwLock` (every method of Ipc::ReadWriteLock as its sequence of single atomic operations; any number
of threads; any interleaving; sequentially consistent atomics). All theorems quantify over every reachable configuration,
i.e. every finite interleaving of every number of threads calling the methods in any order their contract allows.
-/
import SquidModel.Ipc.RwLockStep
import SquidModel.Ipc.RwLockAux
import SquidModel.Ipc.RwLockExecSound

namespace SquidModel.C54
open SquidModel.Ipc.RwLock

/-- holds the lock exclusively in some form (strict, appending, or after a failed restore) -/
def isExclHolder : PC → Bool
  | .holdE | .holdA | .holdD => true
  | _ => false

/-- holds the lock shared (plain or header-updating) -/
def isSharedHolder : PC → Bool
  | .holdS | .holdH => true
  | _ => false

/-- An exclusive holder never coexists with another exclusive holder. -/
theorem exclusive_holders_unique {s : Sh} {ts : List PC} (hr : Reachable (s, ts)) (i j : Nat)
    (hi : i < ts.length) (hj : j < ts.length) (hij : i ≠ j)
    (ei : isExclHolder ts[i] = true) (ej : isExclHolder ts[j] = true) : False := by
  have inv := inv_reachable hr
  have h2 := two_le_cnt PC.fw ts i j hi hj hij
    (by revert ei; cases ts[i] <;> simp [isExclHolder, PC.fw])
    (by revert ej; cases ts[j] <;> simp [isExclHolder, PC.fw])
  have := inv.fw1
  simp only at this
  omega

/-- A strictly exclusive holder (one that has not switched to append mode) never coexists with a shared holder. -/
theorem exclusive_excludes_shared {s : Sh} {ts : List PC} (hr : Reachable (s, ts)) (i j : Nat)
    (hi : i < ts.length) (hj : j < ts.length) (ei : ts[i] = .holdE) (sj : isSharedHolder ts[j] = true) : False := by
  have inv := inv_reachable hr
  have h1 : 0 < cnt PC.wX ts := cnt_pos_of_mem PC.wX ts i hi (by rw [ei]; rfl)
  have h2 : 0 < cnt PC.rOk ts := cnt_pos_of_mem PC.rOk ts j hj (by revert sj; cases ts[j] <;> simp [isSharedHolder, PC.rOk])
  have := inv.excl
  simp only at this
  omega

/-- A shared holder coexists with a writer only if that writer is in append mode or failed to restore exclusivity. -/
theorem shared_with_writer_only_if_appending {s : Sh} {ts : List PC} (hr : Reachable (s, ts)) (i j : Nat)
    (hi : i < ts.length) (hj : j < ts.length) (ei : isExclHolder ts[i] = true) (sj : isSharedHolder ts[j] = true) :
    ts[i] = .holdA ∨ ts[i] = .holdD := by
  cases hp : ts[i] <;> simp_all [isExclHolder]
  exact exclusive_excludes_shared hr i j hi hj hp (by simpa using sj)

/-- At most one shared holder updates headers at a time. -/
theorem headers_mutex {s : Sh} {ts : List PC} (hr : Reachable (s, ts)) (i j : Nat)
    (hi : i < ts.length) (hj : j < ts.length) (hij : i ≠ j) (ei : ts[i] = .holdH) (ej : ts[j] = .holdH) : False := by
  have inv := inv_reachable hr
  have h2 := two_le_cnt PC.uset ts i j hi hj hij (by rw [ei]; rfl) (by rw [ej]; rfl)
  have := inv.up1
  simp only at this
  omega

/-- After every holder releases (all threads at rest holding nothing), the lock is idle: all counters and flags are clear. -/
theorem idle_after_release {s : Sh} {ts : List PC} (hr : Reachable (s, ts)) (h : ∀ p ∈ ts, p = .idle) : s = Sh.init := by
  have inv := inv_reachable hr
  have h1 := cnt_all_idle PC.inR rfl ts h
  have h2 := cnt_all_idle PC.inW rfl ts h
  have h3 := cnt_all_idle PC.rdr rfl ts h
  have h4 := cnt_all_idle PC.wset rfl ts h
  have h5 := cnt_all_idle PC.amay rfl ts h
  have h6 := cnt_all_idle PC.uset rfl ts h
  obtain ⟨rl, wl, rd, _, wr, ap, _, up, _, _⟩ := inv
  simp only at rl wl rd wr ap up
  cases s with
  | mk R W A U RL WL =>
    simp only [Sh.init, Sh.mk.injEq]
    simp only at rl wl rd wr ap up
    refine ⟨by omega, by simp [wr, h4], ?_, by simp [up, h6], by omega, by omega⟩
    cases A with
    | false => rfl
    | true => have := ap rfl; omega

/-- ... and it can be acquired again: run alone from the idle lock, each locking method succeeds. -/
theorem can_acquire_when_idle :
    (act (act (act Sh.init .le0).1 .le3).1 .leOk).2.1 = .holdE ∧
    (act (act (act Sh.init .ls0).1 .ls1).1 .lsOk).2.1 = .holdS ∧
    (act (act (act (act Sh.init .lh0).1 .lh1).1 .lhOk).1 .lh3).2.1 = .holdH ∧
    (act Sh.init .le0).2.1 = .le3 ∧ (act (act Sh.init .le0).1 .le3).2.1 = .leOk ∧
    (act (act Sh.init .ls0).1 .ls1).2.1 = .lsOk ∧
    (act (act Sh.init .lh0).1 .lh1).2.1 = .lhOk ∧ (act (act (act Sh.init .lh0).1 .lh1).1 .lhOk).2.1 = .lh3 := by
  decide

/-- The `assert`s of the C++ never fire: at each call site the asserted condition holds. -/
theorem asserts_hold {s : Sh} {ts : List PC} (hr : Reachable (s, ts)) (i : Nat) (hi : i < ts.length) :
    (isExclHolder ts[i] = true → s.writing = true) ∧          -- assert(writing) in unlockExclusive/switch/start/stopAppending
    (isSharedHolder ts[i] = true → 0 < s.readers) ∧          -- assert(readers > 0) in unlockShared/unlockSharedAndSwitch
    (ts[i] = .holdA → s.appending = true) ∧                   -- assert(appending) in stopAppendingAndRestoreExclusive
    (ts[i] = .holdH → s.updating = true) ∧                    -- AssertFlagIsSet(updating) in unlockHeaders
    (ts[i] = .le3 ∨ ts[i] = .ux7 → 0 < s.writeLevel) := by    -- assert(writeLevel) in finalizeExclusive
  have inv := inv_reachable hr
  obtain ⟨rl, wl, rd, _, wr, _, apA, up, _, _⟩ := inv
  simp only at rl wl rd wr apA up
  refine ⟨?_, ?_, ?_, ?_, ?_⟩
  · intro h
    have := cnt_pos_of_mem PC.wset ts i hi (by revert h; cases ts[i] <;> simp [isExclHolder, PC.wset])
    simp [wr, this]
  · intro h
    have := cnt_pos_of_mem PC.rdr ts i hi (by revert h; cases ts[i] <;> simp [isSharedHolder, PC.rdr])
    omega
  · intro h
    exact apA (cnt_pos_of_mem PC.aset ts i hi (by rw [h]; rfl))
  · intro h
    have := cnt_pos_of_mem PC.uset ts i hi (by rw [h]; rfl)
    simp [up, this]
  · intro h
    have := cnt_pos_of_mem PC.inW ts i hi (by rcases h with h | h <;> rw [h] <;> rfl)
    omega

/-- `assert(!appending)` in finalizeExclusive: a first writer that is finalising sees `appending == false`. -/
theorem finalize_sees_not_appending {s : Sh} {ts : List PC} (hr : Reachable (s, ts)) (i : Nat) (hi : i < ts.length)
    (h : ts[i] = .le3 ∨ ts[i] = .ux7) : s.appending = false := by
  have inv := inv_reachable hr
  cases hA : s.appending with
  | false => rfl
  | true =>
    exfalso
    have h1 := inv.ap hA
    have h2 := cnt_pos_of_mem PC.fwo ts i hi (by rcases h with h | h <;> rw [h] <;> rfl)
    have h3 := fwo_wX_le_fw ts
    have h4 := inv.fw1
    -- the amay thread and thread i are both first writers; amay ⊆ fwo but le3/ux7 are not in amay: count them apart
    have h5 : cnt PC.amay ts + cnt (fun p => p == .le3 || p == .ux7) ts ≤ cnt PC.fw ts :=
      cnt_disjoint_le _ _ _ ts (by intro p; cases p <;> simp [PC.amay]) (by intro p; cases p <;> simp [PC.amay, PC.fw])
        (by intro p; cases p <;> simp [PC.fw])
    have h6 := cnt_pos_of_mem (fun p => p == .le3 || p == .ux7) ts i hi (by rcases h with h | h <;> rw [h] <;> rfl)
    simp only at h1 h4
    omega

/-- The executable scheduler whose traces are compared with the real code only visits reachable configurations:
every run exercised by the trace validation is covered by the theorems above. -/
theorem executed_runs_are_reachable (opsPer : List (List (String × Op))) (schedule : List Nat) :
    Reachable (cfgOf (finalSys opsPer schedule)) :=
  finalSys_reachable opsPer schedule

-- Non-vacuity: concrete reachable configurations in which the hypotheses of the theorems are met.
/-- a writer holding exclusively is reachable (so `exclusive_excludes_shared` is about something) -/
example : Reachable (⟨0, true, false, false, 0, 1⟩, [.holdE, .idle]) := by
  have r0 : Reachable (Sh.init, [.idle, .idle]) := Reachable.init 2
  have r1 := Reachable.step r0 (Step.begin _ _ 0 (by decide) .lockExclusive .le0 rfl)
  have r2 := Reachable.step r1 (Step.act _ _ 0 (by decide) rfl)
  have r3 := Reachable.step r2 (Step.act _ _ 0 (by decide) rfl)
  have r4 := Reachable.step r3 (Step.act _ _ 0 (by decide) rfl)
  exact r4

end SquidModel.C54
