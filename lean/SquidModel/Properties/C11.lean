/-
C11 — Responses forbidden to be stored are never served from cache (decision logic; partial: the behaviour of the binary is
tied to this model by scenario correspondence, see props/C11.py).

Model: SquidModel/Cache/ReusableCc.lean (Cache-Control parsing), Reusable.lean (request flags, storeCreateEntry, reusableReply,
haveParsedReplyHeaders), ReusableRefresh.lean (freshness), ReusableScenario.lean (two-request scenario).
"Default settings" in the theorems = no refresh_pattern ignore-no-store / ignore-private override, and Cache-Control not
ignored because of a Surrogate-Control targeted at this surrogate (`ignoreCacheControl`, accelerator mode only).
-/
import SquidModel.Cache.ReusableLemmas
import SquidModel.Cache.ReusableListLemmas
import SquidModel.Cache.ReusableNotModified

namespace SquidModel.C11
open SquidModel SquidModel.Cache

/-- the settings the statement is about -/
def DefaultSettings (cfg : Config) (job : Job) : Prop :=
  cfg.ov.ignoreNoStore = false ∧ cfg.ov.ignorePrivate = false ∧ job.ignoreCacheControl = false

/-- A response whose parsed Cache-Control has no-store or private never ends under a public key — for every request, status,
    other directives, dates, entry history flags and whatever `refreshIsCachable` says — so `storeGetPublic*` cannot find it. -/
theorem no_store_or_private_never_public (cfg : Config) (job : Job) (req : Request) (rep : Reply) (keyOk : Bool) (cc : Cc)
    (hd : DefaultSettings cfg job) (hcc : rep.cc = some cc) (h : cc.noStore = true ∨ cc.priv = true) :
    (storeDecision cfg job req rep keyOk).isPublic = false := by
  obtain ⟨h1, h2, h3⟩ := hd
  unfold storeDecision
  apply applyDecision_private _ _ _ (createEntry_wf req)
  apply reusableReply_of_ccDecision
  unfold ccDecision
  simp only [h1, h2, h3, hcc, override, Bool.and_false, Bool.not_false, Bool.and_true, Bool.false_eq_true, if_false]
  rcases h with h | h <;> (repeat' split) <;> simp_all

/-- A response to a request whose parsed Cache-Control has no-store never ends under a public key. -/
theorem request_no_store_never_public (cfg : Config) (job : Job) (req : Request) (rep : Reply) (keyOk : Bool) (cc : Cc)
    (hd : DefaultSettings cfg job) (hcc : req.cc = some cc) (h : cc.noStore = true) :
    (storeDecision cfg job req rep keyOk).isPublic = false := by
  obtain ⟨h1, h2, h3⟩ := hd
  unfold storeDecision
  apply applyDecision_private _ _ _ (createEntry_wf req)
  apply reusableReply_of_ccDecision
  unfold ccDecision
  simp [h1, h3, hcc, h, override]

/-- Even earlier: such a request (http/https, not an ignore-cc port) is not cachable at all, its entry is created released. -/
theorem request_no_store_entry_released (req : Request) (cc : Cc) (hs : req.isHttpScheme = true) (hi : req.ignoreCc = false)
    (hcc : req.cc = some cc) (h : cc.noStore = true) : (createEntry req).releaseRequest = true := by
  apply createEntry_released
  unfold flagsCachable maybeCacheable
  simp [hs, hi, hcc, h]

/-- the response allows a shared cache to reuse it for authenticated requests, as Squid reads it -/
def sharedOk (cc : Cc) : Bool := cc.pub || cc.mustRevalidate || cc.sMaxage.isSome

/-- A response to a request with credentials (Authorization header, URL userinfo, pinned authenticated connection, or
    credentials Squid itself sent) that ends under a public key carries public, must-revalidate or s-maxage — or, in a build
    with USE_HTTP_VIOLATIONS, a no-cache without field names (see `auth_nocache_always_revalidated`). -/
theorem auth_public_only_if_shared_ok (cfg : Config) (job : Job) (req : Request) (rep : Reply) (keyOk : Bool)
    (ha : flagsAuth req = true ∨ req.authSent = true)
    (hp : (storeDecision cfg job req rep keyOk).isPublic = true) :
    ∃ cc, rep.cc = some cc ∧ (sharedOk cc = true ∨ (Gen.Reusable.useHttpViolations = true ∧ cc.hasNoCacheWithoutParameters = true)) := by
  have hauth : (flagsAuth req || req.authSent) = true := by rcases ha with h | h <;> simp [h]
  -- if the authenticated block refused, the entry would be private
  by_cases hs : (authDecision job req rep).isSome = true
  · have := applyDecision_private (createEntry req) _ keyOk (createEntry_wf req) (reusableReply_of_authDecision cfg job (createEntry req) req rep hs)
    unfold storeDecision at hp
    rw [this] at hp; cases hp
  · unfold authDecision at hs
    simp only [hauth, if_true] at hs
    cases hcc : rep.cc with
    | none => simp [hcc] at hs
    | some cc =>
      refine ⟨cc, rfl, ?_⟩
      simp only [hcc] at hs
      unfold sharedOk
      by_cases h1 : cc.pub = true
      · simp [h1]
      · by_cases h2 : cc.mustRevalidate = true
        · simp [h2]
        · by_cases h3 : cc.sMaxage.isSome = true
          · simp [h3]
          · by_cases h4 : (Gen.Reusable.useHttpViolations && cc.hasNoCacheWithoutParameters) = true
            · right; simpa using h4
            · exfalso; apply hs; split <;> simp_all

/-- The no-cache exemption keeps the last sentence of the statement: such an entry is marked ENTRY_REVALIDATE_ALWAYS, and
    `refreshCheck` then answers STALE_MUST_REVALIDATE for every later request at every time, so a hit is never served
    without contacting the origin. -/
theorem auth_nocache_always_revalidated (job : Job) (rep : Reply) (cc : Cc) (pragma : Bool)
    (hj : job.ignoreCacheControl = false) (hcc : rep.cc = some cc) (h : cc.hasNoCacheWithoutParameters = true) :
    revalidateFlags job rep pragma = .always ∧
    ∀ (g : RefreshGlobals) (R : RefreshRule) (t : Times) (imm : Bool) (rq : Option ReqView) (now delta : Int),
      refreshCheck g R t .always imm rq now delta = .staleMustRevalidate := by
  constructor
  · unfold revalidateFlags; simp [hj, hcc, h]
  · intro g R t imm rq now delta
    unfold refreshCheck
    simp

/-! ### The two-request scenario (everything from the raw field values to what the origin sees) -/

/-- Whatever the field values, status, dates, method, credentials and shape of the second request: if the response's
    Cache-Control as Squid parses it has no-store or private, or the request's has no-store, the second request is a plain
    miss and the client gets the origin's second response. (Scenarios run with the stock settings.) -/
theorem forbidden_never_served_from_cache (sc : Scenario) (hcfg : sc.cfg ≠ .overrides)
    (h : (∃ cc, sc.replyCc = some cc ∧ (cc.noStore = true ∨ cc.priv = true)) ∨
         (∃ cc, sc.request1.cc = some cc ∧ cc.noStore = true)) :
    (observe sc).kind = .miss ∧ (observe sc).seq = 2 := by
  have hd : DefaultSettings sc.cfg.config {} := by
    unfold DefaultSettings
    cases hc : sc.cfg <;> simp_all [Cfg.config]
  have hpriv : sc.entryAfter.isPublic = false := by
    unfold Scenario.entryAfter Scenario.decision
    rcases h with ⟨cc, hcc, hf⟩ | ⟨cc, hcc, hf⟩
    · exact no_store_or_private_never_public sc.cfg.config {} sc.request1 (sc.reply T0) true cc hd (by simp [Scenario.reply, hcc]) hf
    · exact request_no_store_never_public sc.cfg.config {} sc.request1 (sc.reply T0) true cc hd hcc hf
  have hk : (observe sc).kind = .miss := by
    unfold observe
    simp only [hpriv]
    split <;> simp
  refine ⟨hk, ?_⟩
  have : (observe sc).seq = (match (observe sc).kind with | .miss => 2 | _ => 1) := by unfold observe; rfl
  rw [this, hk]

/-- With the stock settings, credentials on the first request (header or userinfo) and a response that, as parsed, has none
    of public, must-revalidate, s-maxage: the second request always reaches the origin (miss or revalidation), never a hit. -/
theorem auth_always_reaches_origin (sc : Scenario) (hcfg : sc.cfg = .default) (ha : sc.authHeader = true ∨ sc.userInfo = true)
    (hs : ∀ cc, sc.replyCc = some cc → sharedOk cc = false) : (observe sc).kind ≠ .hit := by
  have hauth : flagsAuth sc.request1 = true ∨ sc.request1.authSent = true := by
    left; unfold flagsAuth Scenario.request1; rcases ha with h | h <;> simp [h]
  have hneg : sc.entryAfter.negCached = false := by
    cases hn : sc.entryAfter.negCached with
    | false => rfl
    | true =>
      exfalso
      unfold Scenario.entryAfter at hn
      rcases applyDecision_negCached _ _ _ hn with h | h
      · have := reusableReply_cacheNegatively _ _ _ _ _ h
        rw [hcfg] at this
        revert this; decide
      · unfold createEntry at h; split at h <;> cases h
  unfold observe
  simp only [hneg, Bool.false_and, Bool.false_eq_true, if_false]
  split
  · simp
  · split
    · simp
    · rename_i hpub
      have hp : sc.entryAfter.isPublic = true := by
        cases h : sc.entryAfter.isPublic with
        | true => rfl
        | false => simp [h] at hpub
      obtain ⟨cc, hcc, hok⟩ := auth_public_only_if_shared_ok sc.cfg.config {} sc.request1 (sc.reply T0) true hauth hp
      have hcc' : sc.replyCc = some cc := by simpa [Scenario.reply] using hcc
      have hns := hs cc hcc'
      rcases hok with hok | ⟨_, hnc⟩
      · rw [hns] at hok; cases hok
      · have hrv := (auth_nocache_always_revalidated {} (sc.reply T0) cc sc.pragmaNoCache rfl hcc hnc)
        have key : ∀ imm, refreshCheckHTTP {} stockDotRule (sc.times T0) (revalidateFlags {} (sc.reply T0) sc.pragmaNoCache)
            imm { cc := sc.request2Cc } T0 = true := by
          intro imm
          unfold refreshCheckHTTP
          rw [hrv.1, hrv.2]
          decide
        simp [key]

/-! ### From the bytes on the wire to the parsed flags: well-formed lists -/

/-- `lines` = the Cache-Control field values of a message, each with the elements it renders (`Renders`: elements that are
    quote-balanced, without a comma outside quotes, separated by commas with optional SP / HTAB around them, empty elements
    allowed). If any element of any line is a no-store item, Squid's `getCc` (either form: joined or per line) sets no-store:
    whatever the number of lines, the other elements, duplicates, the order and the spacing. -/
theorem wellformed_lines_no_store_recognised (lines : List (Bytes × List Bytes)) (h : ∀ l ∈ lines, Renders l.1 l.2)
    (hex : ∃ l ∈ lines, ∃ e ∈ l.2, itemType e = .noStore) :
    ∃ cc, getCc (lines.map (·.1)) = some cc ∧ cc.noStore = true := by
  obtain ⟨l, hl, e, he, hty⟩ := hex
  have hmem : ∃ it ∈ lines.flatMap (·.2), itemType it = .noStore := ⟨e, List.mem_flatMap.2 ⟨l, hl, he⟩, hty⟩
  unfold getCc
  split
  · unfold getCcPerLine
    rw [foldl_items_flatMap]
    rw [flatMap_items_of_renders lines h]
    have hn : ((lines.flatMap (·.2)).foldl Cc.step {}).noStore = true := (foldl_noStore_iff _ _).2 (Or.inr hmem)
    exact ⟨_, by simp [any_of_noStore _ hn], hn⟩
  · unfold getCcJoined
    have hne : (lines.map (·.1)).isEmpty = false := by cases lines with | nil => simp at hl | cons _ _ => rfl
    simp only [hne, Bool.false_eq_true, if_false]
    apply (parseCc_noStore_iff _).2
    rw [items_of_renders _ _ (renders_joinList lines h)]
    exact hmem

/-- the same for private -/
theorem wellformed_lines_private_recognised (lines : List (Bytes × List Bytes)) (h : ∀ l ∈ lines, Renders l.1 l.2)
    (hex : ∃ l ∈ lines, ∃ e ∈ l.2, itemType e = .priv) :
    ∃ cc, getCc (lines.map (·.1)) = some cc ∧ cc.priv = true := by
  obtain ⟨l, hl, e, he, hty⟩ := hex
  have hmem : ∃ it ∈ lines.flatMap (·.2), itemType it = .priv := ⟨e, List.mem_flatMap.2 ⟨l, hl, he⟩, hty⟩
  unfold getCc
  split
  · unfold getCcPerLine
    rw [foldl_items_flatMap]
    rw [flatMap_items_of_renders lines h]
    have hn : ((lines.flatMap (·.2)).foldl Cc.step {}).priv = true := (foldl_priv_iff _ _).2 (Or.inr hmem)
    exact ⟨_, by simp [any_of_priv _ hn], hn⟩
  · unfold getCcJoined
    have hne : (lines.map (·.1)).isEmpty = false := by cases lines with | nil => simp at hl | cons _ _ => rfl
    simp only [hne, Bool.false_eq_true, if_false]
    apply (parseCc_priv_iff _).2
    rw [items_of_renders _ _ (renders_joinList lines h)]
    exact hmem

/-- which elements count: the name `no-store` / `private` in any mix of case, alone or with `=anything` (token or quoted) -/
theorem directive_spelling_recognised (nm arg : Bytes) :
    (nm.map lowerC = noStoreName → itemType nm = .noStore ∧ itemType (nm ++ 61 :: arg) = .noStore) ∧
    (nm.map lowerC = privateName → itemType nm = .priv ∧ itemType (nm ++ 61 :: arg) = .priv) :=
  ⟨fun h => ⟨(itemType_noStore nm h).1, (itemType_noStore nm h).2 arg⟩, fun h => ⟨(itemType_private nm h).1, (itemType_private nm h).2 arg⟩⟩

/-- End to end on the model (the `_partial` form of the statement, excluded region explicit): with the stock settings, if the
    response's Cache-Control field lines (as stored by the header parser) are well-formed lists and one element is a
    no-store or private directive, the second request is a plain miss answered by the origin. -/
theorem wellformed_forbidden_response_never_served_partial (sc : Scenario) (hcfg : sc.cfg ≠ .overrides)
    (lines : List (Bytes × List Bytes)) (hl : sc.respCc.map fieldValue = lines.map (·.1)) (h : ∀ l ∈ lines, Renders l.1 l.2)
    (hex : ∃ l ∈ lines, ∃ e ∈ l.2, itemType e = .noStore ∨ itemType e = .priv) :
    (observe sc).kind = .miss ∧ (observe sc).seq = 2 := by
  apply forbidden_never_served_from_cache sc hcfg
  left
  obtain ⟨l, hlm, e, he, hty | hty⟩ := hex
  · obtain ⟨cc, hcc, hn⟩ := wellformed_lines_no_store_recognised lines h ⟨l, hlm, e, he, hty⟩
    exact ⟨cc, by unfold Scenario.replyCc; rw [hl]; exact hcc, Or.inl hn⟩
  · obtain ⟨cc, hcc, hn⟩ := wellformed_lines_private_recognised lines h ⟨l, hlm, e, he, hty⟩
    exact ⟨cc, by unfold Scenario.replyCc; rw [hl]; exact hcc, Or.inr hn⟩

/-- the same for a request carrying no-store in a well-formed list -/
theorem wellformed_request_no_store_never_served_partial (sc : Scenario) (hcfg : sc.cfg ≠ .overrides)
    (lines : List (Bytes × List Bytes)) (hl : sc.reqCc.map fieldValue = lines.map (·.1)) (h : ∀ l ∈ lines, Renders l.1 l.2)
    (hex : ∃ l ∈ lines, ∃ e ∈ l.2, itemType e = .noStore) :
    (observe sc).kind = .miss ∧ (observe sc).seq = 2 := by
  apply forbidden_never_served_from_cache sc hcfg
  right
  obtain ⟨cc, hcc, hn⟩ := wellformed_lines_no_store_recognised lines h hex
  exact ⟨cc, by unfold Scenario.request1; simp only; rw [hl]; exact hcc, hn⟩

/-! ### Before fix 3db3b18 (getCc joined the field lines first): labelled counterexample, conditional on the old form -/

/-- `Cache-Control: x="a` / `Cache-Control: no-store` / `Cache-Control: max-age=3600` on a 200 with a Date. -/
def quoteLeakScenario : Scenario where
  cfg := .default
  method := "GET"
  authHeader := false
  userInfo := false
  reqCc := []
  status := 200
  respCc := [[120, 61, 34, 97], [110, 111, 45, 115, 116, 111, 114, 101], [109, 97, 120, 45, 97, 103, 101, 61, 51, 54, 48, 48]]
  contentType := none
  date := .offset 0
  expires := .absent
  lastModified := .offset (-100000)
  age := none
  contentLength := 5
  pragmaNoCache := false
  second := .plain

/- Before 3db3b18 the statement read on the field lines as sent was false: `response_sent_with_no_store_or_private_never_served`
   (below) did not hold, only its weaker form over all lines being quote-balanced (`wellformed_forbidden_response_never_served_partial`). -/

/-- (While getCc joins the lines.) The second field line is exactly `no-store`, yet the joined header is read as the single unknown directive
    `x="a, no-store, max-age=3600`: nothing is recognised, the response is cached and the second request is a hit. -/
theorem quote_leak_hides_no_store_counterexample : Gen.Reusable.ccParsedPerLine = false →
    [110, 111, 45, 115, 116, 111, 114, 101] ∈ quoteLeakScenario.respCc ∧
    quoteLeakScenario.replyCc = none ∧
    (observe quoteLeakScenario).decision.answer = .cachePositively ∧
    (observe quoteLeakScenario).kind = .hit ∧ (observe quoteLeakScenario).seq = 1 := by decide

/-! ### A 304 that carries no-store (three-request scenario); before fix ec4c541: labelled counterexample, conditional on the old form -/

/-- first response `max-age=0` with a Last-Modified (stored, stale at once) -/
def notModifiedScenario : Scenario := { quoteLeakScenario with respCc := [[109, 97, 120, 45, 97, 103, 101, 61, 48]] }

/- Before ec4c541 `not_modified_with_no_store_not_reused` (below) was false. -/

/-- (While the 304 branch of handleIMSReply does not look at the 304's Cache-Control.) The revalidation is answered with a
    304 carrying `no-store, max-age=3600`; the entry is refreshed, stays public and the third request is a hit. -/
theorem not_modified_no_store_counterexample : Gen.Reusable.notModifiedHonoursNoStore = false →
    observeNotModified notModifiedScenario
      [[110, 111, 45, 115, 116, 111, 114, 101, 44, 32, 109, 97, 120, 45, 97, 103, 101, 61, 51, 54, 48, 48]] = (.reval, .hit) := by decide

/-- Proved part: once the 304 branch honours the 304's own Cache-Control (flag set by the translator from the source), a
    revalidated entry whose 304 has no-store or private as parsed is not reused: the third request is a miss. -/
theorem not_modified_forbidden_not_reused_partial (sc : Scenario) (nmCc : List Bytes) (cc : Cc)
    (hflag : Gen.Reusable.notModifiedHonoursNoStore = true) (hk : (observe sc).kind = .reval)
    (hcc : getCc (nmCc.map fieldValue) = some cc) (h : cc.noStore = true ∨ cc.priv = true) :
    observeNotModified sc nmCc = (.reval, .miss) := by
  unfold observeNotModified
  rw [hk]
  simp only [hflag, hcc, Bool.true_and]
  rcases h with h | h <;> simp [h]

/-! ### Headline theorems for the tree as it is (getCc parses field line by field line; the 304 branch honours no-store) -/

/-- the generated flags these theorems rest on; they stop checking if the source goes back to the older forms -/
theorem tree_parses_per_line : Gen.Reusable.ccParsedPerLine = true := by decide
theorem tree_honours_no_store_on_304 : Gen.Reusable.notModifiedHonoursNoStore = true := by decide

/-- One well-formed field line is enough. If ANY Cache-Control field line of the message is a well-formed list (`Renders`)
    with a no-store element, `getCc` sets no-store — whatever the other field lines are (malformed, unbalanced quotes,
    arbitrary bytes), before or after it. -/
theorem any_wellformed_line_no_store_recognised (vals : List Bytes) (v : Bytes) (es : List Bytes) (hv : v ∈ vals)
    (hr : Renders v es) (hex : ∃ e ∈ es, itemType e = .noStore) : ∃ cc, getCc vals = some cc ∧ cc.noStore = true := by
  unfold getCc
  rw [tree_parses_per_line]
  simp only [if_true]
  obtain ⟨e, he, hty⟩ := hex
  exact getCcPerLine_noStore vals ⟨v, hv, e, by rw [items_of_renders v es hr]; exact he, hty⟩

theorem any_wellformed_line_private_recognised (vals : List Bytes) (v : Bytes) (es : List Bytes) (hv : v ∈ vals)
    (hr : Renders v es) (hex : ∃ e ∈ es, itemType e = .priv) : ∃ cc, getCc vals = some cc ∧ cc.priv = true := by
  unfold getCc
  rw [tree_parses_per_line]
  simp only [if_true]
  obtain ⟨e, he, hty⟩ := hex
  exact getCcPerLine_priv vals ⟨v, hv, e, by rw [items_of_renders v es hr]; exact he, hty⟩

/-- The statement, first sentence (response side): with the stock settings, if one of the response's Cache-Control field
    lines (as stored by the header parser) is a well-formed list with a no-store or private element, the second request is a
    plain miss answered by the origin — for every other field line, status, date, method, credentials, second request. -/
theorem response_sent_with_no_store_or_private_never_served (sc : Scenario) (hcfg : sc.cfg ≠ .overrides)
    (v : Bytes) (es : List Bytes) (hv : v ∈ sc.respCc.map fieldValue) (hr : Renders v es)
    (hex : ∃ e ∈ es, itemType e = .noStore ∨ itemType e = .priv) :
    (observe sc).kind = .miss ∧ (observe sc).seq = 2 := by
  apply forbidden_never_served_from_cache sc hcfg
  left
  obtain ⟨e, he, hty | hty⟩ := hex
  · obtain ⟨cc, hcc, hn⟩ := any_wellformed_line_no_store_recognised _ v es hv hr ⟨e, he, hty⟩
    exact ⟨cc, hcc, Or.inl hn⟩
  · obtain ⟨cc, hcc, hn⟩ := any_wellformed_line_private_recognised _ v es hv hr ⟨e, he, hty⟩
    exact ⟨cc, hcc, Or.inr hn⟩

/-- The statement, first sentence (request side): same for a request one of whose Cache-Control field lines is a
    well-formed list with a no-store element. -/
theorem request_sent_with_no_store_never_served (sc : Scenario) (hcfg : sc.cfg ≠ .overrides)
    (v : Bytes) (es : List Bytes) (hv : v ∈ sc.reqCc.map fieldValue) (hr : Renders v es)
    (hex : ∃ e ∈ es, itemType e = .noStore) :
    (observe sc).kind = .miss ∧ (observe sc).seq = 2 := by
  apply forbidden_never_served_from_cache sc hcfg
  right
  obtain ⟨cc, hcc, hn⟩ := any_wellformed_line_no_store_recognised _ v es hv hr hex
  exact ⟨cc, hcc, hn⟩

/-- Three-request scenario: a revalidated entry whose 304 carries (in any well-formed field line) no-store or private is
    not reused: the third request is a miss. -/
theorem not_modified_with_no_store_not_reused (sc : Scenario) (nmCc : List Bytes) (hk : (observe sc).kind = .reval)
    (v : Bytes) (es : List Bytes) (hv : v ∈ nmCc.map fieldValue) (hr : Renders v es)
    (hex : ∃ e ∈ es, itemType e = .noStore ∨ itemType e = .priv) :
    observeNotModified sc nmCc = (.reval, .miss) := by
  obtain ⟨e, he, hty | hty⟩ := hex
  · obtain ⟨cc, hcc, hn⟩ := any_wellformed_line_no_store_recognised _ v es hv hr ⟨e, he, hty⟩
    exact not_modified_forbidden_not_reused_partial sc nmCc cc tree_honours_no_store_on_304 hk hcc (Or.inl hn)
  · obtain ⟨cc, hcc, hn⟩ := any_wellformed_line_private_recognised _ v es hv hr ⟨e, he, hty⟩
    exact not_modified_forbidden_not_reused_partial sc nmCc cc tree_honours_no_store_on_304 hk hcc (Or.inr hn)

/-- the former witnesses now behave: `x="a` / `no-store` / `max-age=3600` is a miss, and the 304 with
    `no-store, max-age=3600` leads to a miss on the third request -/
theorem former_witnesses_now_refused :
    (observe quoteLeakScenario).kind = .miss ∧
    observeNotModified notModifiedScenario
      [[110, 111, 45, 115, 116, 111, 114, 101, 44, 32, 109, 97, 120, 45, 97, 103, 101, 61, 51, 54, 48, 48]] = (.reval, .miss) := by decide

/-! ### Non-vacuity -/

example : DefaultSettings {} {} := ⟨rfl, rfl, rfl⟩
example : DefaultSettings Cfg.default.config {} := ⟨rfl, rfl, rfl⟩
/-- `No-Store` alone is recognised (case-insensitive lookup) -/
example : (getCc [[78, 111, 45, 83, 116, 111, 114, 101]]).map (·.noStore) = some true := by decide
/-- `private="set-cookie", max-age=3600` -/
example : (getCc [[112,114,105,118,97,116,101,61,34,115,101,116,45,99,111,111,107,105,101,34,44,32,109,97,120,45,97,103,101,61,51,54,48,48]]).map
    (fun c => (c.priv, c.maxAge)) = some (true, some 3600) := by decide
/-- the model does serve cacheable responses from cache: same scenario without the first two lines -/
example : (observe { quoteLeakScenario with respCc := [[109, 97, 120, 45, 97, 103, 101, 61, 51, 54, 48, 48]] }).kind = .hit := by decide
/-- ... and refuses when no-store is seen -/
example : (observe { quoteLeakScenario with respCc := [[110, 111, 45, 115, 116, 111, 114, 101], [109, 97, 120, 45, 97, 103, 101, 61, 51, 54, 48, 48]] }).kind = .miss := by decide
/-- authenticated + public is stored and hit; authenticated + no-cache is stored but revalidated; authenticated alone is not stored -/
example : (observe { quoteLeakScenario with authHeader := true, respCc := [[112, 117, 98, 108, 105, 99]] }).kind = .hit := by decide
example : (observe { quoteLeakScenario with authHeader := true, respCc := [[110, 111, 45, 99, 97, 99, 104, 101]] }).kind = .reval := by decide
example : (observe { quoteLeakScenario with authHeader := true, respCc := [[109, 97, 120, 45, 97, 103, 101, 61, 51, 54, 48, 48]] }).kind = .miss := by decide

/-- `Renders` is inhabited by ordinary headers: ` max-age=3600 ,\tNo-Store` renders [`max-age=3600`, `No-Store`] -/
example : Renders ([32] ++ ([109,97,120,45,97,103,101,61,51,54,48,48] ++ ([32] ++ 44 :: ([9] ++ ([78,111,45,83,116,111,114,101] ++ [])))))
    [[109,97,120,45,97,103,101,61,51,54,48,48], [78,111,45,83,116,111,114,101]] :=
  Renders.cons [32] _ [32] _ _ (by decide) (by decide) (by decide) (Renders.last [9] _ [] (by decide) (by decide) (by decide))
/-- a quoted argument with a comma inside is one element: `private="a,b"` -/
example : elemOk [112,114,105,118,97,116,101,61,34,97,44,98,34] = true := by decide
/-- ... and an element with an unbalanced quote is not: `x="a` -/
example : elemOk [120,61,34,97] = false := by decide

end SquidModel.C11
