/-
C06 — CONNECT tunnels relay both directions unchanged (partial: relay state machine of one direction; the two
directions interact only through `sinkClosed`/`srcError` events, which are arbitrary here, so every theorem holds for
every behaviour of the opposite direction).
-/
import SquidModel.Relay.TunnelLemmas

namespace SquidModel.C06
open SquidModel.Relay

/-- At every point of every event history, what the sink has received is a prefix of what the source sent
(pre-read bytes first, then socket bytes): nothing is inserted, dropped in the middle, duplicated or reordered. -/
theorem out_is_prefix_of_in (src : Bytes) (evs : List Ev) : (run (Dir.init src) evs).delivered <+: src := by
  have h := inv_run _ evs (inv_init src)
  have hs := run_src (Dir.init src) evs
  have h1 : (run (Dir.init src) evs).delivered <+: (run (Dir.init src) evs).delivered ++ (run (Dir.init src) evs).pending :=
    List.prefix_append _ _
  have h2 := h.pfx
  rw [hs] at h2
  exact List.IsPrefix.trans (List.IsPrefix.trans h1 h2) (List.take_prefix _ _)

/-- If the source's end of stream was relayed (zero-byte read seen) and no bytes were discarded, the sink received
everything the source sent. -/
theorem eof_delivers_all (src : Bytes) (evs : List Ev)
    (he : (run (Dir.init src) evs).sawEof = true) (hl : (run (Dir.init src) evs).lost = false) :
    (run (Dir.init src) evs).delivered = src := by
  have h := inv_run _ evs (inv_init src)
  have hs := run_src (Dir.init src) evs
  obtain ⟨_, hc, hp⟩ := h.eofClosed he
  have hx := h.exact hl
  rw [hp, List.append_nil, hc, hs] at hx
  simpa [Dir.init] using hx

/-- Bytes that arrived right behind the CONNECT request (pre-read) are relayed first and kept: with `pre` the early
bytes and `rest` the later socket bytes, delivery is a prefix of `pre ++ rest`, and complete on a clean end of stream. -/
theorem early_client_bytes_kept (pre rest : Bytes) (evs : List Ev) :
    (run (Dir.init (pre ++ rest)) evs).delivered <+: pre ++ rest ∧
    ((run (Dir.init (pre ++ rest)) evs).sawEof = true → (run (Dir.init (pre ++ rest)) evs).lost = false →
      (run (Dir.init (pre ++ rest)) evs).delivered = pre ++ rest) :=
  ⟨out_is_prefix_of_in _ evs, eof_delivers_all _ evs⟩

/-- The end of stream is seen only after every earlier byte has been written out: a half-relayed stream is never
presented to the sink as complete. -/
theorem eof_only_after_everything (src : Bytes) (evs : List Ev) (he : (run (Dir.init src) evs).sawEof = true) :
    (run (Dir.init src) evs).consumed = src.length ∧ (run (Dir.init src) evs).pending = [] := by
  have h := inv_run _ evs (inv_init src)
  have hs := run_src (Dir.init src) evs
  obtain ⟨_, hc, hp⟩ := h.eofClosed he
  exact ⟨by rw [hc, hs]; rfl, hp⟩

/-- A write that is pending when the *other* side goes away is still completed: after any history that lost nothing, if the source
then fails (`srcError`: e.g. the other direction's write to it failed) and the other direction asks for the sink to be closed
(`sinkClosed`: finishWritingAndDelete), the pending bytes are written first, so the sink has received everything that was read from
the source so far. (The bytes a side had sent before it closed are delivered before the other side is closed.) -/
theorem pending_write_survives_peer_closure (src : Bytes) (evs : List Ev)
    (hl : (run (Dir.init src) evs).lost = false) :
    (run (Dir.init src) (evs ++ [.srcError, .sinkClosed, .writeDone])).delivered = src.take (run (Dir.init src) evs).consumed ∧
    (run (Dir.init src) (evs ++ [.srcError, .sinkClosed, .writeDone])).lost = false := by
  have h := inv_run _ evs (inv_init src)
  have hs := run_src (Dir.init src) evs
  have hx := h.exact hl
  rw [hs] at hx
  have hsrc : (Dir.init src).src = src := rfl
  rw [hsrc] at hx
  simp only [run, List.foldl_append, List.foldl_cons, List.foldl_nil] at *
  generalize List.foldl step (Dir.init src) evs = d at *
  by_cases hp : d.pending = []
  · simp [step, hp, hl] at *
    exact hx
  · simp [step, hp, hl]
    exact hx

-- non-vacuity: a history that relays [1,2,3] in two reads and then sees EOF
example : (run (Dir.init [1, 2, 3]) [.read 2, .writeDone, .read 1, .writeDone, .eof]).delivered = [1, 2, 3] := by decide
example : (run (Dir.init [1, 2, 3]) [.read 2, .writeDone, .read 1, .writeDone, .eof]).sawEof = true := by decide
-- and one where the sink dies mid-way: only a prefix arrives
example : (run (Dir.init [1, 2, 3]) [.read 2, .writeDone, .read 1, .writeError]).delivered = [1, 2] := by decide

-- the back-pressure history: the second write is still pending when the source fails and the sink is to be closed
example : (run (Dir.init [1, 2, 3]) [.read 2, .writeDone, .read 1, .srcError, .sinkClosed, .writeDone]).delivered = [1, 2, 3] := by decide

end SquidModel.C06
