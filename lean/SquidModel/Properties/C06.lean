/-
C06 — CONNECT tunnels relay both directions unchanged (partial: relay state machine of one direction; the two
directions interact only through `sinkClosed`/`srcError` events, which are arbitrary here, so every theorem holds for
every behaviour of the opposite direction).
-/
import SquidModel.Relay.TunnelLemmas

namespace SquidModel.C06
open SquidModel.Relay

/-- At every point of every event history, what the sink has received is a prefix of what the source sent
(pre-read bytes first, then socket bytes): nothing is inserted, dropped in the middle, duplicated or reordered. -/
theorem out_is_prefix_of_in (src : Bytes) (evs : List Ev) : (run (Dir.init src) evs).delivered <+: src := by
  have h := inv_run _ evs (inv_init src)
  have hs := run_src (Dir.init src) evs
  have h1 : (run (Dir.init src) evs).delivered <+: (run (Dir.init src) evs).delivered ++ (run (Dir.init src) evs).pending :=
    List.prefix_append _ _
  have h2 := h.pfx
  rw [hs] at h2
  exact List.IsPrefix.trans (List.IsPrefix.trans h1 h2) (List.take_prefix _ _)

/-- If the source's end of stream was relayed (zero-byte read seen) and no bytes were discarded, the sink received
everything the source sent. -/
theorem eof_delivers_all (src : Bytes) (evs : List Ev)
    (he : (run (Dir.init src) evs).sawEof = true) (hl : (run (Dir.init src) evs).lost = false) :
    (run (Dir.init src) evs).delivered = src := by
  have h := inv_run _ evs (inv_init src)
  have hs := run_src (Dir.init src) evs
  obtain ⟨_, hc, hp⟩ := h.eofClosed he
  have hx := h.exact hl
  rw [hp, List.append_nil, hc, hs] at hx
  simpa [Dir.init] using hx

/-- Bytes that arrived right behind the CONNECT request (pre-read) are relayed first and kept: with `pre` the early
bytes and `rest` the later socket bytes, delivery is a prefix of `pre ++ rest`, and complete on a clean end of stream. -/
theorem early_client_bytes_kept (pre rest : Bytes) (evs : List Ev) :
    (run (Dir.init (pre ++ rest)) evs).delivered <+: pre ++ rest ∧
    ((run (Dir.init (pre ++ rest)) evs).sawEof = true → (run (Dir.init (pre ++ rest)) evs).lost = false →
      (run (Dir.init (pre ++ rest)) evs).delivered = pre ++ rest) :=
  ⟨out_is_prefix_of_in _ evs, eof_delivers_all _ evs⟩

/-- The end of stream is seen only after every earlier byte has been written out: a half-relayed stream is never
presented to the sink as complete. -/
theorem eof_only_after_everything (src : Bytes) (evs : List Ev) (he : (run (Dir.init src) evs).sawEof = true) :
    (run (Dir.init src) evs).consumed = src.length ∧ (run (Dir.init src) evs).pending = [] := by
  have h := inv_run _ evs (inv_init src)
  have hs := run_src (Dir.init src) evs
  obtain ⟨_, hc, hp⟩ := h.eofClosed he
  exact ⟨by rw [hc, hs]; rfl, hp⟩

-- non-vacuity: a history that relays [1,2,3] in two reads and then sees EOF
example : (run (Dir.init [1, 2, 3]) [.read 2, .writeDone, .read 1, .writeDone, .eof]).delivered = [1, 2, 3] := by decide
example : (run (Dir.init [1, 2, 3]) [.read 2, .writeDone, .read 1, .writeDone, .eof]).sawEof = true := by decide
-- and one where the sink dies mid-way: only a prefix arrives
example : (run (Dir.init [1, 2, 3]) [.read 2, .writeDone, .read 1, .writeError]).delivered = [1, 2] := by decide

end SquidModel.C06
