/-
C35 — HTTP date formatting and parsing round-trip (src/time/rfc1123.cc).

Property theorems only. Model: `SquidModel.Date.Parse` (Squid's functions) over `SquidModel.Date.Libc` (the libc calls,
C locale) and `SquidModel.Date.Calendar` (`gmtime` = the recursive calendar walk, `timegm` = glibc's closed form);
the RFC 9110 date grammars and the meaning of "the time a string denotes" are in `SquidModel.Date.Forms`.
All statements are for every time / every string of the form, no bounds other than the ones in the property text.

Since /repo commit 524b9ab `tmSaneValues` rejects a day that does not exist in its month, so the second sentence of the
property holds at full strength for IMF-fixdate and asctime-date (`imf_fixdate_denoted`, `asctime_denoted`; before that
commit "Tue, 31 Feb 2026 00:00:00 GMT" was accepted as 3 March, now `nonexistent_day_rejected`).
For rfc850-date it is still FALSE of the code (known finding, not fixed): the two-digit year is put into the fixed window
1970..2069, not into the sliding window RFC 9110 prescribes (`rfc850_window_counterexample`); `rfc850_fixed_window`
states what the code does and `rfc850_denoted_partial` has the agreement of the two windows as its hypothesis.
-/
import SquidModel.Date.ParseLemmas

namespace SquidModel.C35
open SquidModel SquidModel.Date

/-- 10000-01-01 00:00:00 -/
def tEnd : Int := 253402300800

/-- **Round trip.** For every time from 1970-01-01 00:00:00 through 9999-12-31 23:59:59, parsing what
`Time::FormatRfc1123` produces returns the same time. -/
theorem parse_format (t : Int) (h0 : 0 ≤ t) (h1 : t < tEnd) : parseRfc1123 (formatRfc1123 t) = t := by
  obtain ⟨hy0, hy1⟩ := gmtime_year_bounds t h0 h1
  obtain ⟨hv, hh, hmi, hs, hw⟩ := gmtime_valid t
  have hml := monthLen_pos (isLeap (gmtime t).year) (gmtime t).mon
  unfold formatRfc1123
  rw [strftime_shape _ (by omega) (by omega), strftime_mon_ok _ hv.1,
    parse_imf (strftime_wday_ok _ hw) hv.1 (by have := hv.2.2; omega) (by omega) (by omega) (by omega) (by omega)]
  have hsane : saneFields (isLeap (gmtime t).year) (gmtime t).mon (gmtime t).mday (gmtime t).hour (gmtime t).min (gmtime t).sec := by
    have := hv.2.1; have := hv.2.2
    unfold saneFields; omega
  rw [if_pos hsane]
  exact timegm_gmtime t (by simp only [epochDays]; omega)

/-- What `Time::FormatRfc1123` produces for such a time is an IMF-fixdate, and it denotes that time. -/
theorem format_is_imf_fixdate (t : Int) (h0 : 0 ≤ t) (h1 : t < tEnd) :
    ∃ yyyy m dd hh mm ss, IsImfFixdate (formatRfc1123 t) yyyy m dd hh mm ss ∧ Denotes yyyy m dd hh mm ss t := by
  obtain ⟨hy0, hy1⟩ := gmtime_year_bounds t h0 h1
  obtain ⟨hv, hh, hmi, hs, hw⟩ := gmtime_valid t
  have hml := monthLen_pos (isLeap (gmtime t).year) (gmtime t).mon
  refine ⟨(gmtime t).year, (gmtime t).mon, (gmtime t).mday, (gmtime t).hour, (gmtime t).min, (gmtime t).sec, ?_, ?_⟩
  · refine ⟨_, strftime_wday_ok _ hw, hv.1, by have := hv.2.2; omega, by omega, by omega, by omega, by omega, ?_⟩
    unfold formatRfc1123
    rw [strftime_shape _ (by omega) (by omega), strftime_mon_ok _ hv.1]
  · exact ⟨by simp only [epochDays]; omega, rfl⟩

/-- **Round trip through the other two forms.** For every time of 1970..9999 the asctime-date of its calendar fields
(either spelling of a one-digit day, any day name) parses back to it; -/
theorem asctime_round_trip (t : Int) (h0 : 0 ≤ t) (h1 : t < tEnd) {w dayTok : Bytes} (hw : w ∈ dayNames)
    (hday : dayTok = dec2 (gmtime t).mday ∨ ((gmtime t).mday < 10 ∧ dayTok = [32, dch (gmtime t).mday])) :
    parseRfc1123 (asctimeDate w (monthAbbr.getD (gmtime t).mon []) dayTok (gmtime t).hour (gmtime t).min (gmtime t).sec
      (gmtime t).year) = t := by
  obtain ⟨hy0, hy1⟩ := gmtime_year_bounds t h0 h1
  obtain ⟨hv, hh, hmi, hs, _⟩ := gmtime_valid t
  have hml := monthLen_pos (isLeap (gmtime t).year) (gmtime t).mon
  have hsane : saneFields (isLeap (gmtime t).year) (gmtime t).mon (gmtime t).mday (gmtime t).hour (gmtime t).min (gmtime t).sec := by
    have := hv.2.1; have := hv.2.2
    unfold saneFields; omega
  rw [parse_asc hw hv.1 (by have := hv.2.2; omega) (by omega) (by omega) (by omega) (by omega) hday, if_pos hsane]
  exact timegm_gmtime t (by simp only [epochDays]; omega)

/-- and for every time of 1970..2069 so does the rfc850-date with the last two digits of its year. -/
theorem rfc850_round_trip (t : Int) (h0 : 0 ≤ t) (h1 : t < 3155760000) {w : Bytes} (hw : w ∈ dayNamesLong) :
    parseRfc1123 (rfc850Date w (gmtime t).mday (monthAbbr.getD (gmtime t).mon []) ((gmtime t).year % 100)
      (gmtime t).hour (gmtime t).min (gmtime t).sec) = t := by
  obtain ⟨hy0, hy1⟩ := gmtime_year_window t h0 h1
  obtain ⟨hv, hh, hmi, hs, _⟩ := gmtime_valid t
  have hml := monthLen_pos (isLeap (gmtime t).year) (gmtime t).mon
  have hsane : saneFields (isLeap (gmtime t).year) (gmtime t).mon (gmtime t).mday (gmtime t).hour (gmtime t).min (gmtime t).sec := by
    have := hv.2.1; have := hv.2.2
    unfold saneFields; omega
  have hyr : squidYear ((gmtime t).year % 100) = (gmtime t).year := by
    unfold squidYear; split <;> omega
  rw [parse_850 hw hv.1 (by have := hv.2.2; omega) (by omega) (by omega) (by omega) (by omega), hyr, if_pos hsane]
  exact timegm_gmtime t (by simp only [epochDays]; omega)

/-- A string denotes at most one time. -/
theorem denotes_unique {yyyy m dd hh mm ss : Nat} {t t' : Int}
    (h : Denotes yyyy m dd hh mm ss t) (h' : Denotes yyyy m dd hh mm ss t') : t = t' :=
  fieldsOf_inj h.1 h'.1 (h.2.trans h'.2.symm)

/-- every time that is denoted at all has an existing date and time of day -/
theorem denotes_valid {yyyy m dd hh mm ss : Nat} {t : Int} (h : Denotes yyyy m dd hh mm ss t) :
    validDate yyyy m dd ∧ hh < 24 ∧ mm < 60 ∧ ss < 60 := by
  have hv := gmtime_valid t
  have e := h.2
  simp only [fieldsOf, Prod.mk.injEq] at e
  obtain ⟨e1, e2, e3, e4, e5, e6⟩ := e
  rw [e1, e2, e3, e4, e5, e6] at hv
  exact ⟨hv.1, hv.2.1, hv.2.2.1, hv.2.2.2.1⟩

/-- **IMF-fixdate.** Whenever Squid accepts an IMF-fixdate, the time it returns is the one the string denotes. -/
theorem imf_fixdate_denoted {s : Bytes} {yyyy m dd hh mm ss : Nat} (hs : IsImfFixdate s yyyy m dd hh mm ss)
    (hacc : parseRfc1123 s ≠ -1) : Denotes yyyy m dd hh mm ss (parseRfc1123 s) := by
  obtain ⟨w, hw, hm, hdd, hy, hhh, hmm, hss, rfl⟩ := hs
  rw [parse_imf hw hm hdd hy hhh hmm hss] at hacc ⊢
  by_cases hsane : saneFields (isLeap yyyy) m dd hh mm ss
  · rw [if_pos hsane]; exact denotes_timegm hm hsane
  · rw [if_neg hsane] at hacc; exact absurd rfl hacc

/-- **asctime-date.** The same for the asctime form (with either spelling of a one-digit day). -/
theorem asctime_denoted {s : Bytes} {yyyy m dd hh mm ss : Nat} (hs : IsAsctimeDate s yyyy m dd hh mm ss)
    (hacc : parseRfc1123 s ≠ -1) : Denotes yyyy m dd hh mm ss (parseRfc1123 s) := by
  obtain ⟨w, dayTok, hw, hm, hdd, hy, hhh, hmm, hss, hdt, rfl⟩ := hs
  rw [parse_asc hw hm hdd hy hhh hmm hss hdt] at hacc ⊢
  by_cases hsane : saneFields (isLeap yyyy) m dd hh mm ss
  · rw [if_pos hsane]; exact denotes_timegm hm hsane
  · rw [if_neg hsane] at hacc; exact absurd rfl hacc

/-- **rfc850-date, what the code does.** Whenever Squid accepts an rfc850-date, it returns the time with the written
fields in the year of 1970..2069 that ends in the two year digits. -/
theorem rfc850_fixed_window {s : Bytes} {yy m dd hh mm ss : Nat} (hs : IsRfc850Date s yy m dd hh mm ss)
    (hacc : parseRfc1123 s ≠ -1) :
    Denotes (squidYear yy) m dd hh mm ss (parseRfc1123 s) ∧ squidYear yy % 100 = yy ∧
      1970 ≤ squidYear yy ∧ squidYear yy ≤ 2069 := by
  obtain ⟨w, hw, hm, hdd, hy, hhh, hmm, hss, rfl⟩ := hs
  have hyr : squidYear yy % 100 = yy ∧ 1970 ≤ squidYear yy ∧ squidYear yy ≤ 2069 := by
    unfold squidYear; split <;> omega
  refine ⟨?_, hyr⟩
  rw [parse_850 hw hm hdd hy hhh hmm hss] at hacc ⊢
  by_cases hsane : saneFields (isLeap (squidYear yy)) m dd hh mm ss
  · rw [if_pos hsane]; exact denotes_timegm hm hsane
  · rw [if_neg hsane] at hacc; exact absurd rfl hacc

/-- **rfc850-date, RFC 9110 meaning.** If, at the recipient's time `now`, the year RFC 9110 5.6.7 assigns to the two
digits is the one of the fixed window, the accepted string is given the time it denotes.
(Without `hwin`: false, see `rfc850_window_counterexample`.) -/
theorem rfc850_denoted_partial {s : Bytes} {yy m dd hh mm ss : Nat} (now : Int) (hs : IsRfc850Date s yy m dd hh mm ss)
    (hacc : parseRfc1123 s ≠ -1) (hwin : Rfc850Year now yy (squidYear yy) m dd hh mm ss) :
    ∃ yyyy, Rfc850Year now yy yyyy m dd hh mm ss ∧ Denotes yyyy m dd hh mm ss (parseRfc1123 s) :=
  ⟨squidYear yy, hwin, (rfc850_fixed_window hs hacc).1⟩

/-- Strings of the three forms whose time of day is out of range (hour 24, minute 60, a leap second) or whose day does
not exist in the month (day 00, 31 April, 29 February of a common year; for rfc850 in the year of the fixed window) are rejected. -/
theorem insane_fields_rejected {s : Bytes} {y m dd hh mm ss : Nat}
    (hs : IsImfFixdate s y m dd hh mm ss ∨ IsAsctimeDate s y m dd hh mm ss)
    (hbad : ¬ saneFields (isLeap y) m dd hh mm ss) : parseRfc1123 s = -1 := by
  rcases hs with hs | hs
  · obtain ⟨w, hw, hm, hdd, hy, hhh, hmm, hss, rfl⟩ := hs
    rw [parse_imf hw hm hdd hy hhh hmm hss, if_neg hbad]
  · obtain ⟨w, dayTok, hw, hm, hdd, hy, hhh, hmm, hss, hdt, rfl⟩ := hs
    rw [parse_asc hw hm hdd hy hhh hmm hss hdt, if_neg hbad]

theorem insane_fields_rejected_rfc850 {s : Bytes} {yy m dd hh mm ss : Nat} (hs : IsRfc850Date s yy m dd hh mm ss)
    (hbad : ¬ saneFields (isLeap (squidYear yy)) m dd hh mm ss) : parseRfc1123 s = -1 := by
  obtain ⟨w, hw, hm, hdd, hy, hhh, hmm, hss, rfl⟩ := hs
  rw [parse_850 hw hm hdd hy hhh hmm hss, if_neg hbad]

/-- `parse_date` looks at the first `copyN - 1 = 63` bytes only. -/
theorem parse_reads_63_bytes (s : Bytes) : parseRfc1123 s = parseRfc1123 (s.take 63) := by
  unfold parseRfc1123 parseDate
  rw [copy_limit, List.take_take, Nat.min_self]

/-! ### the day that does not exist (accepted as 3 March before /repo 524b9ab) and the remaining counterexample -/

/-- "Tue, 31 Feb 2026 00:00:00 GMT" -/
def feb31 : Bytes := [84,117,101,44,32,51,49,32,70,101,98,32,50,48,50,54,32,48,48,58,48,48,58,48,48,32,71,77,84]

/-- The string is an IMF-fixdate, no time at all has these calendar fields, and Squid rejects it. -/
theorem nonexistent_day_rejected :
    IsImfFixdate feb31 2026 1 31 0 0 0 ∧ (∀ t, ¬ Denotes 2026 1 31 0 0 0 t) ∧ parseRfc1123 feb31 = -1 := by
  refine ⟨⟨[84,117,101], by decide, by decide, by decide, by decide, by decide, by decide, by decide, by decide⟩,
    ?_, by decide +kernel⟩
  intro t h
  have := (denotes_valid h).1
  revert this; decide

/-- "Sunday, 06-Nov-72 08:49:37 GMT" -/
def nov72 : Bytes :=
  [83,117,110,100,97,121,44,32,48,54,45,78,111,118,45,55,50,32,48,56,58,52,57,58,51,55,32,71,77,84]

/-- At 2026-09-22 00:00:00 (`now = 1790035200`) RFC 9110 reads the year digits 72 as 2072 (46 years ahead, not more
than 50); Squid answers with the time of 1972. -/
theorem rfc850_window_counterexample :
    IsRfc850Date nov72 72 10 6 8 49 37 ∧ Rfc850Year 1790035200 72 2072 10 6 8 49 37 ∧
    parseRfc1123 nov72 = 89887777 ∧ fieldsOf 89887777 = (1972, 10, 6, 8, 49, 37) ∧
    ¬ Denotes 2072 10 6 8 49 37 (parseRfc1123 nov72) := by
  have hp : parseRfc1123 nov72 = 89887777 := by decide +kernel
  have hf : fieldsOf 89887777 = (1972, 10, 6, 8, 49, 37) := by decide +kernel
  refine ⟨⟨[83,117,110,100,97,121], by decide, by decide, by decide, by decide, by decide, by decide, by decide, by decide⟩,
    by decide +kernel, hp, hf, ?_⟩
  rw [hp]
  intro h
  have := h.2
  rw [hf] at this
  revert this; decide

/-! ### non-vacuity -/

/-- "Sun, 06 Nov 1994 08:49:37 GMT" (the example of RFC 9110) -/
def rfcExample : Bytes := [83,117,110,44,32,48,54,32,78,111,118,32,49,57,57,52,32,48,56,58,52,57,58,51,55,32,71,77,84]
/-- "Sunday, 06-Nov-94 08:49:37 GMT" -/
def rfcExample850 : Bytes :=
  [83,117,110,100,97,121,44,32,48,54,45,78,111,118,45,57,52,32,48,56,58,52,57,58,51,55,32,71,77,84]
/-- "Sun Nov  6 08:49:37 1994" -/
def rfcExampleAsc : Bytes := [83,117,110,32,78,111,118,32,32,54,32,48,56,58,52,57,58,51,55,32,49,57,57,52]

example : formatRfc1123 784111777 = rfcExample := by decide +kernel
example : parseRfc1123 rfcExample = 784111777 := by decide +kernel
example : parseRfc1123 rfcExample850 = 784111777 := by decide +kernel
example : parseRfc1123 rfcExampleAsc = 784111777 := by decide +kernel
example : IsImfFixdate rfcExample 1994 10 6 8 49 37 :=
  ⟨[83,117,110], by decide, by decide, by decide, by decide, by decide, by decide, by decide, by decide⟩
example : IsRfc850Date rfcExample850 94 10 6 8 49 37 :=
  ⟨[83,117,110,100,97,121], by decide, by decide, by decide, by decide, by decide, by decide, by decide, by decide⟩
example : IsAsctimeDate rfcExampleAsc 1994 10 6 8 49 37 :=
  ⟨[83,117,110], [32, 54], by decide, by decide, by decide, by decide, by decide, by decide, by decide,
    Or.inr ⟨by decide, by decide⟩, by decide⟩
example : Denotes 1994 10 6 8 49 37 784111777 := ⟨by decide, by decide +kernel⟩
/-- the recogniser of "denotes" is not vacuous: another time does not have these fields -/
example : ¬ Denotes 1994 10 6 8 49 37 784111778 := by
  intro h; have := h.2; revert this; decide +kernel
/-- the fixed window agrees with RFC 9110 for this string at 2026-09-22, so `rfc850_denoted_partial` applies -/
example : Rfc850Year 1790035200 94 (squidYear 94) 10 6 8 49 37 := by decide +kernel
/-- rejected: hour 24; a leap second; a zone other than GMT -/
example : parseRfc1123 [83,117,110,44,32,48,54,32,78,111,118,32,49,57,57,52,32,50,52,58,52,57,58,51,55,32,71,77,84] = -1 := by
  decide +kernel
example : parseRfc1123 [83,117,110,44,32,48,54,32,78,111,118,32,49,57,57,52,32,50,51,58,53,57,58,54,48,32,71,77,84] = -1 := by
  decide +kernel
example : parseRfc1123 [83,117,110,44,32,48,54,32,78,111,118,32,49,57,57,52,32,48,56,58,52,57,58,51,55,32,85,84,67] = -1 := by
  decide +kernel
/-- leap days: "Thu, 29 Feb 2024 12:00:00 GMT" is accepted, "Wed, 29 Feb 2023 …" and "Thu, 29 Feb 1900 …" are rejected,
"Tue, 29 Feb 2000 …" is accepted -/
example : parseRfc1123 [84,104,117,44,32,50,57,32,70,101,98,32,50,48,50,52,32,49,50,58,48,48,58,48,48,32,71,77,84] = 1709208000 := by decide +kernel
example : parseRfc1123 [87,101,100,44,32,50,57,32,70,101,98,32,50,48,50,51,32,49,50,58,48,48,58,48,48,32,71,77,84] = -1 := by decide +kernel
example : parseRfc1123 [84,104,117,44,32,50,57,32,70,101,98,32,49,57,48,48,32,49,50,58,48,48,58,48,48,32,71,77,84] = -1 := by decide +kernel
example : parseRfc1123 [84,117,101,44,32,50,57,32,70,101,98,32,50,48,48,48,32,49,50,58,48,48,58,48,48,32,71,77,84] = 951825600 := by decide +kernel
/-- `make_num` on a one-digit hour reads the colon as a digit: "x 1 Jan 2000 1:00:00" is 20:00:00 (outside the three forms) -/
example : parseRfc1123 [120,32,49,32,74,97,110,32,50,48,48,48,32,49,58,48,48,58,48,48] = 946756800 := by decide +kernel

end SquidModel.C35
