/-
C37 — DNS message decoding is memory-safe and faithful.

Property theorems only. Model: `SquidModel.Dns.Unpack` (decoder), `SquidModel.Dns.Pack` (query builders);
lemmas: `SquidModel.Dns.Safe`. All statements are for every byte list (no size bound).
-/
import SquidModel.Dns.Safe

namespace SquidModel.C37
open SquidModel.Dns SquidModel.Gen.DnsLimits

/-- For every datagram rfc1035MessageUnpack terminates (the iteration budget of the model is never exhausted, pointer
loops included), never reads outside the datagram, never stores outside a name buffer, never fails an assert; it
returns either `-15` without a message, or a message with NUL-terminated names inside their buffers and `-rcode` or
the number of unpacked records (≤ ANCOUNT). -/
theorem unpack_total_no_oob (buf : Bytes) :
    ∃ code msg, messageUnpack buf = .ret code msg ∧ OutSafe (.ret code msg) := by
  have h := messageUnpack_safe buf
  cases hm : messageUnpack buf with
  | ret code msg => exact ⟨code, msg, rfl, hm ▸ h⟩
  | oob => simp [hm, OutSafe] at h
  | abort => simp [hm, OutSafe] at h
  | fuel => simp [hm, OutSafe] at h

/-- The same for rfc1035NameUnpack alone, with any name buffer size `ns > 0`, any start offset: it returns 1, or
returns 0 with `*off ≤ sz`, at most `ns` bytes stored the last of which is NUL, and the rdlength counter advanced by
at most the number of bytes stored. -/
theorem name_unpack_total_no_oob (buf : Bytes) (off ns : Nat) (hns : 0 < ns) :
    NameSafe buf ns 0 0 (nameUnpack buf off ns) :=
  nameUnpack_safe buf off ns hns

end SquidModel.C37
