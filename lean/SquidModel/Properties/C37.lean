/-
C37 — DNS message decoding is memory-safe and faithful.

Property theorems only. Model: `SquidModel.Dns.Unpack` (rfc1035HeaderUnpack / NameUnpack / QueryUnpack / RRUnpack /
MessageUnpack), `SquidModel.Dns.Pack` (rfc1035HeaderPack / LabelPack / NamePack / QuestionPack / RRPack,
rfc2671RROptPack, rfc1035BuildAQuery = rfc3596BuildHostQuery). Lemmas: `Dns.Safe`, `Dns.Encode`, `Dns.Roundtrip`,
`Dns.Counter`. The limits (63, 256, 191, 64, 0x3FFF, 12, 10, 4, type codes) come from `Gen.DnsLimits`, regenerated from
the staged source every run. Every statement is for all byte lists / all messages: no size bound.

The model follows the tree as it is after /repo 17d6e84 (rfc1035RRPack copies the RDATA only `if (RR->rdlength)`) and
fd17dd6 (a compression pointer that led to the root label only makes the caller drop its trailing '.'); which version
the tree has is read from the source every run (`Gen.DnsLimits.ptrRootDropsDot`, `rrPackGuardsNull`, `source_flags`).
The theorems named `prefix_*` are about the code BEFORE those commits (`nameUnpackV false`, `optPackV false`), kept as
a record of the two defects that were fixed.

Full statement of the faithfulness part, as the property gives it:
    for every well-formed message, with or without name compression, the decoded header, question and
    A/AAAA/PTR/CNAME records equal those encoded.
One region is left where it is FALSE of the real code (known finding, a deliberate loop guard): a name whose decoding
needs more than `maxRdepth + 1` = 65 pointer hops is refused (`deep_chain_counterexample`). `unpack_encodes_partial` is
the statement with exactly this region excluded (the hypothesis `d ≤ maxRdepth + 1` inside `EncRR` / `EncMsg`);
pointers to the root label need no exclusion any more.
-/
import SquidModel.Dns.Roundtrip
import SquidModel.Dns.Counter
import SquidModel.Dns.Text

namespace SquidModel.C37
open SquidModel.Dns SquidModel.Gen.DnsLimits

/-! ## memory safety and termination -/

/-- For every datagram rfc1035MessageUnpack terminates (the iteration budget of the model is never exhausted, pointer
loops included), never reads outside the datagram, never stores outside a name buffer, never fails an assert; it
returns either `-15` without a message, or a message with NUL-terminated names inside their 256-byte buffers and
`-rcode` or the number of unpacked records (≤ ANCOUNT). -/
theorem unpack_total_no_oob (buf : Bytes) :
    ∃ code msg, messageUnpack buf = .ret code msg ∧ OutSafe (.ret code msg) := by
  have h := messageUnpack_safe buf
  cases hm : messageUnpack buf with
  | ret code msg => exact ⟨code, msg, rfl, hm ▸ h⟩
  | oob => simp [hm, OutSafe] at h
  | abort => simp [hm, OutSafe] at h
  | fuel => simp [hm, OutSafe] at h

/-- The same for rfc1035NameUnpack alone, for any name buffer size `ns > 0` and any start offset: it returns 1, or it
returns 0 with `*off ≤ sz`, at most `ns` bytes stored the last of which is NUL, and the `unsigned short` rdlength
counter advanced by at most the number of bytes stored (so it cannot wrap). -/
theorem name_unpack_total_no_oob (buf : Bytes) (off ns : Nat) (hns : 0 < ns) :
    NameSafe buf ns 0 0 (nameUnpack buf off ns) :=
  nameUnpack_safe buf off ns hns

/-- compression-pointer loops are refused, not followed forever: a pointer to itself, a two-cycle, a loop through a
label (which stops when the name buffer is full) -/
example : nameUnpack [192, 0] 0 nameBufSz = .err := by decide +kernel
example : nameUnpack [192, 2, 192, 0] 0 nameBufSz = .err := by decide +kernel
example : nameUnpack [1, 97, 192, 0] 0 nameBufSz = .err := by decide +kernel
example : messageUnpack [0x12, 0x34, 0x81, 0x80, 0, 1, 0, 0, 0, 0, 0, 0, 192, 12, 0, 1, 0, 1] = .ret (-15) none := by decide +kernel

/-! ## faithfulness -/

/-- **Names.** If `labels` is encoded at `off` (labels of 1..63 octets, compression pointers to encodings of the rest
of the name anywhere in the datagram — the root label included —, `d ≤ 65` pointer hops) and the dotted name with its
NUL fits the 256-byte buffer, rfc1035NameUnpack returns 0, leaves `*off` at the end of the linear part, reports the
wire length of the labels, and the C string it leaves in the buffer is exactly the labels joined by '.'. -/
theorem name_unpack_encodes_partial (buf : Bytes) (d off e : Nat) (labels : List Bytes)
    (henc : EncName buf d off labels e) (hd : d ≤ maxRdepth + 1) (hfit : wireLen labels < nameBufSz) :
    ∃ out, nameUnpack buf off nameBufSz = .ok ⟨e, wireLen labels, out⟩ ∧ cstr out = nameText labels :=
  nameUnpack_enc henc hd hfit

/-- `nameText` is the labels joined by '.' (for labels without NUL) -/
theorem name_text_is_dotted (labels : List Bytes) (h : ∀ l ∈ labels, ∀ c ∈ l, c ≠ 0) :
    nameText labels = hostText labels :=
  nameText_eq_hostText labels h

/-- **Records.** An encoded resource record (owner name possibly compressed; PTR target possibly compressed and inside
its RDATA; A, AAAA, CNAME and every other type as raw RDATA) is unpacked to exactly that record, and `*off` ends
behind it. -/
theorem record_unpack_encodes_partial (buf : Bytes) (off off' : Nat) (rr : RR) (h : EncRR buf off rr off') :
    rrUnpack buf off = .ok (rr, off') :=
  rrUnpack_enc h

/-- **Messages.** If the datagram carries the message `m` (header at 0, one question, `ANCOUNT = m.answers.length`
encoded records, anything behind them), rfc1035MessageUnpack returns the header, the question and all answer records
as encoded, with result `ANCOUNT` — or, when RCODE ≠ 0, header and question with result `-RCODE`. -/
theorem unpack_encodes_partial (buf : Bytes) (m : Msg) (h : EncMsg buf m) :
    messageUnpack buf =
      if m.hdr.rcode ≠ 0 then .ret (-(m.hdr.rcode : Int)) (some { m with answers := [] })
      else .ret (m.answers.length : Int) (some m) :=
  messageUnpack_enc h

/-- The decoded text determines the name: for labels without '.' and NUL (host names), splitting the C string the
decoder stored at the dots gives back exactly the labels that were encoded — so two encodings that decode to the same
text encode the same name, and "equal as text" in the theorems above means "equal as names". -/
theorem decoded_text_determines_labels (labels : List Bytes)
    (h : ∀ l ∈ labels, l ≠ [] ∧ ∀ c ∈ l, c ≠ 46 ∧ c ≠ 0) :
    tokens (nameText labels) = labels :=
  tokens_cstr_nameOut labels h

/-- the encoding relation does not depend on what follows (authority/additional sections, padding) -/
theorem encoding_ignores_trailing_octets (buf x : Bytes) (d off e : Nat) (labels : List Bytes)
    (h : EncName buf d off labels e) : EncName (buf ++ x) d off labels e :=
  h.append_right x

/-- **Header.** rfc1035HeaderUnpack undoes rfc1035HeaderPack for every header whose members are in their C ranges. -/
theorem header_roundtrip (h : Header) (hwf : h.wf) (sz : Nat) (hsz : 12 ≤ sz) :
    ∃ b, headerPack sz h = .ok b ∧ b.length = 12 ∧ headerUnpack b = .ok h :=
  header_pack_unpack h hwf sz hsz

/-- **A packed query decodes back to itself.** For a host name whose pieces between dots are `labels` (each 1..63
octets) and which is shorter than the name buffer, and a buffer with room for the packet, rfc1035BuildAQuery /
rfc1035BuildPTRQuery / rfc3596BuildHostQuery produce a packet of exactly 12 + name + 4 (+ 11 with EDNS) octets which
rfc1035MessageUnpack decodes to: result 0, id `qid`, only RD set, one question with the dotted name, the query type,
class IN, no records, ARCOUNT = 1 exactly with EDNS; the `rfc1035_query` handed back describes the same question; no
memcpy with a null pointer on the way (`b.ub = false`). -/
theorem query_roundtrip (sz : Nat) (host : Bytes) (labels : List Bytes) (qid qtype : Nat) (edns : Int)
    (htok : tokens host = labels)
    (hlab : ∀ l ∈ labels, 1 ≤ l.length ∧ l.length ≤ maxLabelSz)
    (hfit : wireLen labels < nameBufSz)
    (hsz : 12 + wireLen labels + 1 + 4 + (if edns > 0 then 11 else 0) ≤ sz) :
    ∃ b, buildQuery sz host qid qtype edns = .ok b ∧ b.ub = false ∧
      b.pkt.length = 12 + wireLen labels + 1 + 4 + (if edns > 0 then 11 else 0) ∧
      b.qname = host.take (nameBufSz - 1) ∧ b.qtype = qtype % 65536 ∧ b.qclass = classIN ∧
      messageUnpack b.pkt = .ret 0 (some
        ⟨queryHeader qid (if edns > 0 then 1 else 0), ⟨nameText labels, qtype % 65536, classIN⟩, []⟩) :=
  query_pack_unpack sz host labels qid qtype edns htok hlab hfit hsz

/-- The same from the labels: for the host text `l₁.l₂.….lₙ` (labels of 1..63 octets without '.'), with or without a
trailing dot, the built query decodes to the question `l₁.l₂.….lₙ`. -/
theorem query_roundtrip_text (sz : Nat) (labels : List Bytes) (qid qtype : Nat) (edns : Int) (trailingDot : Bool)
    (hlab : ∀ l ∈ labels, 1 ≤ l.length ∧ l.length ≤ maxLabelSz ∧ ∀ c ∈ l, c ≠ 46)
    (hfit : wireLen labels < nameBufSz)
    (hsz : 12 + wireLen labels + 1 + 4 + (if edns > 0 then 11 else 0) ≤ sz) :
    ∃ b, buildQuery sz (hostText labels ++ (if trailingDot then [46] else [])) qid qtype edns = .ok b ∧
      messageUnpack b.pkt = .ret 0 (some
        ⟨queryHeader qid (if edns > 0 then 1 else 0), ⟨nameText labels, qtype % 65536, classIN⟩, []⟩) := by
  have hd : ∀ l ∈ labels, l ≠ [] ∧ ∀ c ∈ l, c ≠ 46 := fun l hl => by
    obtain ⟨h1, _, h3⟩ := hlab l hl
    exact ⟨fun h => by simp [h] at h1, h3⟩
  have htok : tokens (hostText labels ++ (if trailingDot then [46] else [])) = labels := by
    cases trailingDot
    · simpa using tokens_hostText labels hd
    · simpa using tokens_hostText_dot labels hd
  obtain ⟨b, hb, _, _, _, _, _, hdec⟩ := query_pack_unpack sz _ labels qid qtype edns htok
    (fun l hl => ⟨(hlab l hl).1, (hlab l hl).2.1⟩) hfit hsz
  exact ⟨b, hb, hdec⟩

/-! ## which code the model follows -/

/-- the staged tree has both fixes (re-decided on the regenerated `Gen.DnsLimits` every run; if the source regressed,
this and with it the theorems above would stop checking) -/
theorem source_flags : ptrRootDropsDot = true ∧ rrPackGuardsNull = true := by decide

/-! ## where the real code departs from the property (known finding) -/

/-- 66 pointer hops: `chainBuf 66` is `01 'a' 00` followed by 66 pointers, each two octets pointing to the previous
name (strictly backwards, no loop). Its last name is an encoding of "a" by the rules of `EncName`, and the decoder
refuses it; the same chain one pointer shorter decodes. -/
theorem deep_chain_counterexample :
    EncName (chainBuf 66) 66 (chainStart 66) [[97]] (chainStart 66 + 2) ∧
    nameUnpack (chainBuf 66) (chainStart 66) nameBufSz = .err ∧
    nameUnpack (chainBuf 65) (chainStart 65) nameBufSz = .ok ⟨133, 2, [97, 0]⟩ :=
  ⟨chain_enc 66 (by omega), chain66_rejected, chain65_decodes⟩

/-! ## the two fixed defects: regression statement for the code as it is, counterexample for the code as it was -/

/-- `03 'foo' C0 06 00` (label "foo", then a pointer to the root label): the buffer now holds "foo", as for the same
name without the pointer -/
theorem pointer_to_root_decodes :
    nameUnpack [3, 102, 111, 111, 192, 6, 0] 0 nameBufSz = .ok ⟨6, 4, [102, 111, 111, 0, 0]⟩ ∧
    nameUnpack [3, 102, 111, 111, 0] 0 nameBufSz = .ok ⟨5, 4, [102, 111, 111, 0]⟩ :=
  ⟨ptr_to_root_decodes, plain_decodes_without_dot⟩

/-- PRE-FIX (before fd17dd6): the same input was stored as "foo." -/
theorem prefix_pointer_to_root_counterexample :
    nameUnpackV false [3, 102, 111, 111, 192, 6, 0] 0 nameBufSz = .ok ⟨6, 4, [102, 111, 111, 46, 0]⟩ :=
  prefix_ptr_to_root_decodes_with_dot

/-- PRE-FIX (before 17d6e84): packing the EDNS OPT record passed through `memcpy(buf + off, nullptr, 0)`; with the
guard it does not (same octets) -/
theorem prefix_opt_pack_memcpy_null_counterexample (sz edns : Nat) (hsz : 11 ≤ sz) :
    optPackV false sz edns = .ok (optBytes edns, true) ∧ optPack sz edns = .ok (optBytes edns, false) :=
  ⟨optPackV_ok false sz edns hsz, optPack_ok sz edns hsz⟩

/-! ## the hypotheses are satisfiable, the relations are not vacuous -/

/-- a response with a compressed owner name: id 0x1234, QR RD RA, question "a" A IN, answer `C0 0C` A IN ttl 5 1.2.3.4 -/
def samplePkt : Bytes :=
  [0x12, 0x34, 0x81, 0x80, 0, 1, 0, 1, 0, 0, 0, 0,
   1, 97, 0, 0, 1, 0, 1,
   192, 12, 0, 1, 0, 1, 0, 0, 0, 5, 0, 4, 1, 2, 3, 4]

def sampleMsg : Msg :=
  ⟨{ id := 0x1234, qr := 1, opcode := 0, aa := 0, tc := 0, rd := 1, ra := 1, rcode := 0,
     qdcount := 1, ancount := 1, nscount := 0, arcount := 0 },
   ⟨[97], 1, 1⟩,
   [⟨[97], 1, 1, 5, 4, [1, 2, 3, 4]⟩]⟩

theorem sample_name : EncName samplePkt 0 12 [[97]] 15 :=
  EncName.label (c := 1) (by decide) (by decide) (by decide) (by decide) (by decide)
    (EncName.root (c := 0) (by decide) (by decide))

theorem sample_encodes : EncMsg samplePkt sampleMsg := by
  refine ⟨by simp [Header.wf, sampleMsg], by decide, rfl, rfl, 0, 15, [[97]], sample_name, by decide, by decide, rfl,
          by decide, by decide, by decide, ?_⟩
  refine EncRRs.cons (off' := 35) ?_ EncRRs.nil
  have hptr : EncName samplePkt 1 19 [[97]] 21 :=
    EncName.ptr (e' := 15) (hi := 192) (lo := 12) (by decide) (by decide) (by decide) (by exact sample_name)
  exact EncRR.raw (rdata := [1, 2, 3, 4]) hptr (by decide) (by decide) (by decide) (by decide) (by decide) (by decide)
    (by decide) (by decide)

/-- and the decoder, evaluated, agrees with the theorem -/
example : messageUnpack samplePkt = .ret 1 (some sampleMsg) := by decide +kernel
example : messageUnpack samplePkt = .ret 1 (some sampleMsg) := by
  simpa [sampleMsg] using unpack_encodes_partial samplePkt sampleMsg sample_encodes

/-- the recognisers reject: a truncated datagram, a reserved label type, a label running past the end -/
example : messageUnpack (samplePkt.take 34) = .ret (-15) none := by decide +kernel
example : nameUnpack [64, 0] 0 nameBufSz = .err := by decide +kernel
example : nameUnpack [2, 97] 0 nameBufSz = .err := by decide +kernel
/-- `NameSafe` is not trivially true -/
example : ¬ NameSafe [] 1 0 0 (.oob : R NameRes) := by simp [NameSafe]
example : ¬ OutSafe .fuel := by simp [OutSafe]
/-- a query: "ab.c" A, id 7, no EDNS -/
example : buildQuery 512 [97, 98, 46, 99] 7 1 0 =
    .ok ⟨[0, 7, 1, 0, 0, 1, 0, 0, 0, 0, 0, 0, 2, 97, 98, 1, 99, 0, 0, 1, 0, 1], false, [97, 98, 46, 99], 1, 1⟩ := by decide +kernel

end SquidModel.C37
