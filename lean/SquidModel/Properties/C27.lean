/-
C27 — Integer parsing is exact and overflow-safe.

Property theorems only. Models: `Base/TokInt.lean` (`Parser::Tokenizer::int64`, `udec64`; C integer types explicit,
signed overflow = outcome `ub`), `IntParse/Header.lean` (`httpHeaderParseOffset`, `httpHeaderParseInt` over a specification of
strtoll/strtol). Specification: `Base/TokIntSpec.lean` (unbounded Horner value of the maximal digit run + range test).
All statements are for every byte string, every C `int` base, both sign settings and every limit (no size bound).

The code as it is now (after /repo commits cc4ab0d and 5201bbe) accumulates the magnitude in a `uint64_t` and
`httpHeaderParseInt` uses `strtol` with a range check; the translator reads both facts from the staged source
(`Gen.TokConsts.accSigned = false`, `parseIntUsesAtoi = false`, theorem `source_flags`, re-decided every run), and the
headline theorems below are the full-strength statements for that code:
  `int64_refines_spec`, `int64_no_ub`, `int64_exact`, `int64_fails_iff`, `parseOffset_exact`, `parseInt_exact`.
Section "pre-fix variant" keeps, clearly labelled, what was proved about the model variant with an `int64_t`
accumulator / `atoi` (the former findings C27-int64-min-ub and C27-parseint-wraps): where exactly it overflowed or wrapped.
-/
import SquidModel.Base.TokIntLemmas
import SquidModel.Base.TokLemmas
import SquidModel.IntParse.Lemmas

namespace SquidModel.C27
open SquidModel.Tok SquidModel.IntParse
open SquidModel.Gen.TokConsts (accSigned parseIntUsesAtoi)

/-- what the translator found in the staged source: `uint64_t acc` in `Tokenizer::int64`, no `atoi` in `httpHeaderParseInt` -/
theorem source_flags : accSigned = false ∧ parseIntUsesAtoi = false := by decide

/-! ### the constants of the model are those of the staged tree -/

theorem limits_match_source :
    i64Max = Gen.TokConsts.int64Max ∧ i64Min = Gen.TokConsts.int64Min ∧ (two63 : Int) = Gen.TokConsts.int64Max + 1 ∧
    Tok.npos = Gen.TokConsts.npos ∧ Tok.maxSize = Gen.TokConsts.maxSize ∧ Tok.maxSize < Tok.npos ∧
    Gen.TokConsts.llongMax = Gen.TokConsts.int64Max ∧ Gen.TokConsts.llongMin = Gen.TokConsts.int64Min ∧
    Gen.TokConsts.longMax = Gen.TokConsts.int64Max ∧ Gen.TokConsts.longMin = Gen.TokConsts.int64Min ∧
    Gen.TokConsts.intMax = 2147483647 ∧ Gen.TokConsts.intMin = -2147483648 := by decide

/-! ### Tokenizer::int64 -/

/-- **Refinement (headline).** On every input `Tokenizer::int64` returns exactly what the arbitrary-precision
specification says: the exact value and consumed length, or failure. -/
theorem int64_refines_spec (buf : Bytes) (base : Int) (hb : base < 2147483648) (allowSign : Bool) (limit : Nat) :
    int64Raw buf base allowSign limit = specInt64 buf base allowSign limit := by
  unfold int64Raw
  rw [source_flags.1, int64Core_eq false buf base hb allowSign limit]
  simp

/-- **No undefined behaviour (headline)**: no input, base, sign setting or limit makes `int64` overflow. -/
theorem int64_no_ub (buf : Bytes) (base : Int) (hb : base < 2147483648) (allowSign : Bool) (limit : Nat) :
    int64Raw buf base allowSign limit ≠ .ub := by
  rw [int64_refines_spec buf base hb allowSign limit]
  exact specInt64_ne_ub buf base allowSign limit

/-- in particular the most negative value is parsed, exactly -/
theorem int64_min_parsed :
    int64Raw [45,57,50,50,51,51,55,50,48,51,54,56,53,52,55,55,53,56,48,56] 10 true npos = .ok (-9223372036854775808) 20 := by decide

/-- the effective base as a function of the visible pieces of the numeral -/
def effBase (base : Int) (pre ds : Bytes) : Int :=
  if pre ≠ [] then 16 else if base = 0 then (if ds.head? = some 48 then 8 else 10) else base

/-- **Exactness.** Whenever `int64` returns a value `v` and a consumed length `k`, the first `k` bytes of the
(limited) buffer are `[sign][0x]digits` with: a sign only if `allowSign`; a `0x`/`0X` prefix only for base 0 or 16; a
non-empty run of digits valid in the effective base; the run is maximal (the next byte inside the limit, if any, is not a
digit of that base); `v` is the exact (unbounded Horner) value of the digits with the sign applied; and `v` fits int64. -/
theorem int64_exact (buf : Bytes) (base : Int) (hb : base < 2147483648) (allowSign : Bool) (limit : Nat) (v : Int) (k : Nat)
    (h : int64Raw buf base allowSign limit = .ok v k) :
    ∃ sg pre ds rest,
      sg ++ pre ++ ds ++ rest = takeLim limit buf ∧ k = sg.length + pre.length + ds.length ∧
      (sg = [] ∨ (allowSign = true ∧ (sg = [45] ∨ sg = [43]))) ∧
      (pre = [] ∨ ((base = 0 ∨ base = 16) ∧ (pre = [48, 120] ∨ pre = [48, 88]))) ∧
      ds ≠ [] ∧ (∀ c ∈ ds, validDigit (effBase base pre ds) c = true) ∧
      (rest = [] ∨ ∃ c r, rest = c :: r ∧ validDigit (effBase base pre ds) c = false) ∧
      v = signedValue (sg == [45]) (effBase base pre ds) ds ∧ i64Min ≤ v ∧ v ≤ i64Max := by
  -- the result is `ok`, so it is the specification's result
  have hspec : specInt64 buf base allowSign limit = .ok v k := by
    unfold int64Raw at h
    rw [int64Core_eq _ buf base hb allowSign limit] at h
    split at h
    · cases h
    · exact h
  unfold specInt64 at hspec
  simp only at hspec
  split at hspec
  · cases hspec
  split at hspec
  · cases hspec
  split at hspec
  · cases hspec
  rename_i h1 h2 h3
  obtain ⟨sg, hsg1, hsg2, hsg3⟩ := lexSign_spec allowSign (takeLim limit buf)
  obtain ⟨pre, hpre1, hpre2, hpre3⟩ := lexPrefix_spec base (lexSign allowSign (takeLim limit buf)).2.1 (lexSign allowSign (takeLim limit buf)).2.2
  obtain ⟨hne, hk, hv, hlo, hhi⟩ := specDigits_ok hspec
  generalize hb' : resolveBase (lexPrefix base (lexSign allowSign (takeLim limit buf)).2.1 (lexSign allowSign (takeLim limit buf)).2.2).1
      (lexPrefix base (lexSign allowSign (takeLim limit buf)).2.1 (lexSign allowSign (takeLim limit buf)).2.2).2.1 = b at *
  generalize hs' : (lexPrefix base (lexSign allowSign (takeLim limit buf)).2.1 (lexSign allowSign (takeLim limit buf)).2.2).2.1 = s' at *
  obtain ⟨ds, rest, hdr, hds, hall, hmax⟩ := takeWhile_decomp (validDigit b) s'
  rw [← hds] at hne hk hv
  -- the effective base computed from the pieces is the resolved base
  have heff : effBase base pre ds = b := by
    unfold effBase
    rcases hpre3 with ⟨hp, hb1⟩ | ⟨_, hp, hb1⟩
    · subst hp
      simp only [ne_eq, not_true_eq_false, if_false]
      rw [hb1] at hb'
      rw [← hb']
      unfold resolveBase
      by_cases hb0 : base = 0
      · simp only [hb0, if_true]
        cases ds with
        | nil => exact absurd rfl hne
        | cons c r =>
          rw [← hdr]
          simp only [List.cons_append, List.head?_cons, Option.some.injEq]
      · simp [hb0]
    · have hpne : pre ≠ [] := by rcases hp with rfl | rfl <;> simp
      simp only [ne_eq, hpne, not_false_eq_true, if_true]
      rw [hb1] at hb'
      rw [← hb']
      simp [resolveBase]
  have hneg : (lexSign allowSign (takeLim limit buf)).1 = (sg == [45]) := by
    rcases hsg3 with ⟨rfl, e⟩ | ⟨_, rfl, e⟩ | ⟨_, rfl, e⟩ <;> rw [e] <;> rfl
  refine ⟨sg, pre, ds, rest, ?_, ?_, ?_, ?_, hne, ?_, ?_, ?_, hlo, hhi⟩
  · rw [← hsg1, ← hpre1, ← hdr]; simp [List.append_assoc]
  · rw [hk, hpre2, hsg2]
  · rcases hsg3 with ⟨e, _⟩ | ⟨a, e, _⟩ | ⟨a, e, _⟩
    · exact Or.inl e
    · exact Or.inr ⟨a, Or.inl e⟩
    · exact Or.inr ⟨a, Or.inr e⟩
  · rcases hpre3 with ⟨e, _⟩ | ⟨a, e, _⟩
    · exact Or.inl e
    · exact Or.inr ⟨a, e⟩
  · rw [heff]; exact hall
  · rw [heff]; exact hmax
  · rw [heff, ← hneg]; exact hv

/-- the maximal digit run the parser must look at, its sign and its base (spelled with the three lexical functions) -/
def digitRun (buf : Bytes) (base : Int) (allowSign : Bool) (limit : Nat) : Bool × Int × Bytes :=
  let sg := lexSign allowSign (takeLim limit buf)
  let px := lexPrefix base sg.2.1 sg.2.2
  let b := resolveBase px.1 px.2.1
  (sg.1, b, px.2.1.takeWhile (validDigit b))

/-- **Failure is justified.** `int64` returns false exactly when there is no digit where the
number must start (this covers the empty buffer, limit 0, a lone sign, `0x` without a hex digit) or the exact value of
the maximal digit run does not fit int64. It never fails on a representable number, and never succeeds on one that is not. -/
theorem int64_fails_iff (buf : Bytes) (base : Int) (hb : base < 2147483648) (allowSign : Bool) (limit : Nat) :
    int64Raw buf base allowSign limit = .fail ↔
      ((digitRun buf base allowSign limit).2.2 = [] ∨
       ¬ (i64Min ≤ signedValue (digitRun buf base allowSign limit).1 (digitRun buf base allowSign limit).2.1 (digitRun buf base allowSign limit).2.2 ∧
          signedValue (digitRun buf base allowSign limit).1 (digitRun buf base allowSign limit).2.1 (digitRun buf base allowSign limit).2.2 ≤ i64Max)) := by
  rw [int64_refines_spec buf base hb allowSign limit]
  unfold specInt64 digitRun
  simp only
  by_cases h1 : (buf.isEmpty || limit == 0) = true
  · have : takeLim limit buf = [] := by
      simp only [Bool.or_eq_true, List.isEmpty_iff, beq_iff_eq] at h1
      rcases h1 with h1 | h1
      · simp [takeLim, h1]
      · subst h1; exact takeLim_zero _
    have e1 : (lexSign allowSign []).2.1 = [] := by unfold lexSign; cases allowSign <;> rfl
    have e2 : ∀ o, (lexPrefix base [] o).2.1 = [] := by intro o; unfold lexPrefix; split <;> rfl
    simp [h1, this, e1, e2]
  · simp only [h1]
    by_cases h2 : (allowSign && (lexSign allowSign (takeLim limit buf)).2.1.isEmpty) = true
    · have : (lexSign allowSign (takeLim limit buf)).2.1 = [] := by
        simp only [Bool.and_eq_true, List.isEmpty_iff] at h2; exact h2.2
      have e2 : ∀ o, (lexPrefix base [] o).2.1 = [] := by intro o; unfold lexPrefix; split <;> rfl
      simp [this, e2]
    · simp only [h2]
      by_cases h3 : (lexPrefix base (lexSign allowSign (takeLim limit buf)).2.1 (lexSign allowSign (takeLim limit buf)).2.2).2.1.isEmpty = true
      · have : (lexPrefix base (lexSign allowSign (takeLim limit buf)).2.1 (lexSign allowSign (takeLim limit buf)).2.2).2.1 = [] := by
          simpa using h3
        simp [this]
      · simp only [h3]
        exact specDigits_fail_iff _ _ _ _

/-- **Consumption.** On success the tokenizer drops exactly the `k` parsed characters and counts them; on failure
nothing changes (`IntResult.fail` carries no new tokenizer: the caller keeps the old one). -/
theorem int64_consumes_exactly (t : Tok) (base : Int) (allowSign : Bool) (limit : Nat) (v : Int) (t' : Tok)
    (h : int64 t base allowSign limit = .ok v t') :
    ∃ k, int64Raw t.buf base allowSign limit = .ok v k ∧ t'.buf = t.buf.drop k ∧ t.buf.take k ++ t'.buf = t.buf ∧
      t'.parsed = t.parsed + (t.buf.take k).length := by
  unfold int64 at h
  cases hr : int64Raw t.buf base allowSign limit with
  | ok v1 k =>
    rw [hr] at h
    simp only [IntResult.ok.injEq] at h
    obtain ⟨rfl, rfl⟩ := h
    exact ⟨k, rfl, rfl, by simp [consumeN], rfl⟩
  | fail => rw [hr] at h; cases h
  | ub => rw [hr] at h; cases h

/-- `udec64` returns only non-negative values of unsigned decimal digit runs that are followed by more input -/
theorem udec64_exact (t : Tok) (limit : Nat) (v : Int) (t' : Tok) (h : udec64 t limit = .ok v t') :
    ∃ k, int64Raw t.buf 10 false limit = .ok v k ∧ t'.buf = t.buf.drop k ∧ t'.buf ≠ [] ∧ 0 ≤ v := by
  unfold udec64 at h
  split at h
  · cases h
  · cases hi : int64 t 10 false limit with
    | fail => rw [hi] at h; cases h
    | ub => rw [hi] at h; cases h
    | ok v1 t1 =>
      rw [hi] at h
      simp only at h
      split at h
      · cases h
      · rename_i hne
        simp only [UdecResult.ok.injEq] at h
        obtain ⟨rfl, rfl⟩ := h
        obtain ⟨k, hk, hbuf, _, _⟩ := int64_consumes_exactly t 10 false limit v1 t1 hi
        refine ⟨k, hk, hbuf, by simpa [atEnd] using hne, ?_⟩
        obtain ⟨sg, pre, ds, rest, _, _, hsg, _, _, _, _, hv, _, _⟩ := int64_exact t.buf 10 (by decide) false limit v1 k hk
        have : sg = [] := by rcases hsg with e | ⟨e, _⟩; exact e; cases e
        subst this
        rw [hv]
        simp [signedValue]

/-! ### httpHeaderParseOffset / httpHeaderParseInt -/

/-- **httpHeaderParseOffset is exact**: success ⇔ `[ws][sign]digits` is present and its exact value fits int64; then the value and
the end pointer are exactly those of that prefix. -/
theorem parseOffset_exact (s : Bytes) :
    parseOffset s = match exactDec s with
      | none => none
      | some (v, e) => if Gen.TokConsts.llongMin ≤ v ∧ v ≤ Gen.TokConsts.llongMax then some (v, e) else none :=
  parseOffset_eq s

/-- **httpHeaderParseInt is exact (headline)**: it returns the exact value of `[ws][sign]digits` when that fits an `int`
(failing only for a zero not written with a leading digit, e.g. " 0", "-0"), and fails otherwise; never a wrapped value. -/
theorem parseInt_exact (s : Bytes) :
    parseInt s = match exactDec s with
      | none => none
      | some (v, _) =>
        if Gen.TokConsts.intMin ≤ v ∧ v ≤ Gen.TokConsts.intMax then
          (if v = 0 ∧ isDigitC (firstChar s) = false then none else some v)
        else none := by
  unfold parseInt
  rw [source_flags.2]
  exact parseInt_checked_eq s

/-- the former wrap witnesses are rejected now -/
theorem parseInt_rejects_wide_values :
    parseInt [52,50,57,52,57,54,55,50,57,55] = none ∧
    parseInt [57,57,57,57,57,57,57,57,57,57,57,57,57,57,57,57,57,57,57,57] = none ∧
    parseInt [50,49,52,55,52,56,51,54,52,55] = some 2147483647 := by decide

/-! ### pre-fix variant of the model (int64_t accumulator, atoi) — NOT the current code

These statements are about `int64Core true` and `parseIntCore true`, the model variants of the code before commits
cc4ab0d / 5201bbe. They record exactly where the old code violated the property. -/

/-- pre-fix: outside `inUbZone` even the signed accumulator computed the specification … -/
theorem prefix_int64_refines_outside_zone (signed : Bool) (buf : Bytes) (base : Int) (hb : base < 2147483648) (allowSign : Bool)
    (limit : Nat) (hz : inUbZone buf base allowSign limit = false) :
    int64Core signed buf base allowSign limit = specInt64 buf base allowSign limit := by
  rw [int64Core_eq signed buf base hb allowSign limit, hz]
  simp

/-- … and it overflowed on exactly the zone: a '-' numeral (sign accepted) one of whose digit-run prefixes denotes 2^63 -/
theorem prefix_int64_ub_iff (buf : Bytes) (base : Int) (hb : base < 2147483648) (allowSign : Bool) (limit : Nat) :
    int64Core true buf base allowSign limit = .ub ↔ inUbZone buf base allowSign limit = true := by
  rw [int64Core_eq true buf base hb allowSign limit]
  cases hz : inUbZone buf base allowSign limit with
  | true => simp
  | false => simpa using specInt64_ne_ub buf base allowSign limit

/-- pre-fix witness: `int64("-9223372036854775808", 10, true)` was a signed overflow (UBSan at parser/Tokenizer.cc:297) -/
theorem prefix_int64_ub_counterexample :
    int64Core true [45,57,50,50,51,51,55,50,48,51,54,56,53,52,55,55,53,56,48,56] 10 true npos = .ub := by decide

/-- pre-fix witness in base 16: `acc *= base` overflowed on "-8000000000000000" (Tokenizer.cc:296) -/
theorem prefix_int64_ub_counterexample_hex :
    int64Core true [45,56,48,48,48,48,48,48,48,48,48,48,48,48,48,48,48] 16 true npos = .ub := by decide

/-- pre-fix: the atoi-based `httpHeaderParseInt` was exact only when the value fits an `int` -/
theorem prefix_parseInt_exact_partial (s : Bytes) (v : Int) (e : Nat) (hx : exactDec s = some (v, e))
    (hr : Gen.TokConsts.intMin ≤ v ∧ v ≤ Gen.TokConsts.intMax) :
    parseIntCore true s = if v = 0 ∧ isDigitC (firstChar s) = false then none else some v := by
  rw [parseInt_atoi_partial, hx]
  simp [hr]

/-- pre-fix witnesses: `httpHeaderParseInt("4294967297")` succeeded with 1, `("99999999999999999999")` with -1 -/
theorem prefix_parseInt_wraps_counterexample : parseIntCore true [52,50,57,52,57,54,55,50,57,55] = some 1 := by decide
theorem prefix_parseInt_wraps_counterexample_big :
    parseIntCore true [57,57,57,57,57,57,57,57,57,57,57,57,57,57,57,57,57,57,57,57] = some (-1) := by decide

/-! ### non-vacuity -/

example : int64Core true [45,57,50,50,51,51,55,50,48,51,54,56,53,52,55,55,53,56,48,55] 10 true npos = .ok (-9223372036854775807) 20 := by decide
example : int64Core true [57,50,50,51,51,55,50,48,51,54,56,53,52,55,55,53,56,48,56] 10 true npos = .fail := by decide
example : int64Core true [48,120,49,70,90] 0 true npos = .ok 31 4 := by decide
example : int64Core true [48,57] 0 true npos = .ok 0 1 := by decide
example : int64Core true [48,120] 16 true npos = .fail := by decide
example : int64Core true [45,49] 10 false npos = .fail := by decide
example : int64Core false [45,57,50,50,51,51,55,50,48,51,54,56,53,52,55,55,53,56,48,56] 10 true npos = .ok (-9223372036854775808) 20 := by decide
example : inUbZone [45,57,50,50,51,51,55,50,48,51,54,56,53,52,55,55,53,56,48,56] 10 true npos = true := by decide
example : inUbZone [45,57,50,50,51,51,55,50,48,51,54,56,53,52,55,55,53,56,48,55] 10 true npos = false := by decide
example : parseOffset [32,45,49,50,97] = some (-12, 4) := by decide
example : parseOffset [57,50,50,51,51,55,50,48,51,54,56,53,52,55,55,53,56,48,56] = none := by decide
example : exactDec [52,50,57,52,57,54,55,50,57,55] = some (4294967297, 10) := by decide

end SquidModel.C27
