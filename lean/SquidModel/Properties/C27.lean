/-
C27 — Integer parsing is exact and overflow-safe (first version: witnesses only; the general theorems follow).
-/
import SquidModel.Base.TokInt
import SquidModel.IntParse.Header

namespace SquidModel.C27
open SquidModel.Tok SquidModel.IntParse

/-- With a signed accumulator, `int64("-9223372036854775808", 10, true)` overflows. -/
theorem int64_ub_counterexample :
    int64Core true [45,57,50,50,51,51,55,50,48,51,54,56,53,52,55,55,53,56,48,56] 10 true npos = .ub := by decide

/-- `httpHeaderParseInt("4294967297")` returns 1. -/
theorem parseInt_wraps_counterexample :
    parseIntCore true [52,50,57,52,57,54,55,50,57,55] = some 1 := by decide

end SquidModel.C27
