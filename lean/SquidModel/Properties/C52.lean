/-
C52 — Overflow-safe arithmetic helpers are exact.

Property theorems only. Model: `SquidModel.Math.Types` (C++ integer types as width/signedness/identity, integral
promotion, usual arithmetic conversions, `std::common_type`, modular conversions, signed overflow = `R.ub`) and
`SquidModel.Math.Safe` (`Less`, both `IncreaseSumInternal` overloads, `IncreaseSum`, `NaturalSum`,
`SetToNaturalSumOrMax`, `NaturalCast` of src/SquidMath.h, operator by operator). Lemmas: `SquidModel.Math.Lemmas`,
`SquidModel.Math.Exact`; compiler dump: `SquidModel.Gen.MathTypes` (checked in `SquidModel.Math.CompilerFacts`).

Every statement holds for ALL widths (any positive number of bits, also widths no compiler has), any width `ib` of
`int`, all signedness combinations, all values of the argument types and any number of summands.
-/
import SquidModel.Math.Exact
import SquidModel.Math.CompilerFacts

namespace SquidModel.C52
open SquidModel.Math SquidModel.Math.CType

/-- `Less(a, b)` returns the mathematical comparison `a < b` for every pair of integer types and all their values
(no conversion of the comparison changes a value). -/
theorem less_is_mathematical_comparison (ib : Nat) (hib : 0 < ib) (A B : CType) (hA : 0 < A.bits) (hB : 0 < B.bits)
    (a b : Int) (ha : A.inRange a) (hb : B.inRange b) :
    less ib A B a b = true ↔ a < b := by
  rw [less_exact ib hib A B hA hB a b ha hb]; simp

/-- `IncreaseSumInternal<S>(a, b)`, the overload for types of which at least one is signed (`A` is the promoted `S`;
the statement holds for any `B`, signed or not): exact sum or nothing; the subtraction `max - a` and the addition
`a + b` never overflow. -/
theorem increaseSumInternal_mixed_exact (ib : Nat) (hib : 0 < ib) (S B : CType) (hS : 0 < S.bits) (hB : 0 < B.bits)
    (a b : Int) (ha : S.inRange a) (hb : B.inRange b) :
    incMixed ib S (promote ib S) B a b =
      .ok (if 0 ≤ a ∧ 0 ≤ b ∧ a + b ≤ S.maxVal then some (a + b) else none) :=
  incMixed_exact ib hib S B hS hB a b ha hb

/-- `IncreaseSumInternal<S>(a, b)`, the overload for two unsigned promoted types (then `A = S`): the wrapped sum
passes both tests exactly when the mathematical sum fits `S`. -/
theorem increaseSumInternal_unsigned_exact (ib : Nat) (S B : CType) (hS : 0 < S.bits) (hB : 0 < B.bits)
    (hSi : ib ≤ S.bits) (hBi : ib ≤ B.bits) (uS : S.signed = false) (uB : B.signed = false) (a b : Int)
    (ha : S.inRange a) (hb : B.inRange b) :
    incUnsigned ib S S B a b = .ok (if a + b ≤ S.maxVal then some (a + b) else none) :=
  incUnsigned_exact ib S B hS hB hSi hBi uS uB a b ha hb

/-- Two-argument `IncreaseSum(s, t)` (whichever `IncreaseSumInternal` overload the types select): the exact sum
when both arguments are non-negative and the sum fits `S`, nothing otherwise; never undefined behaviour. -/
theorem increaseSum2_exact (ib : Nat) (hib : 0 < ib) (S T : CType) (hS : 0 < S.bits) (hT : 0 < T.bits) (s t : Int)
    (hs : S.inRange s) (ht : T.inRange t) :
    increaseSum2 ib S T s t = .ok (if 0 ≤ s ∧ 0 ≤ t ∧ s + t ≤ S.maxVal then some (s + t) else none) :=
  Math.increaseSum2_exact ib hib S T hS hT s t hs ht

/-- Variadic `IncreaseSum(s, args...)` with at least one further argument, of any types: the exact mathematical
sum when `s` and all arguments are non-negative and the sum fits `S`; nothing otherwise; never UB. -/
theorem increaseSum_exact (ib : Nat) (hib : 0 < ib) (S : CType) (hS : 0 < S.bits) (s : Int) (hs : S.inRange s)
    (args : List (CType × Int)) (hw : WellTyped args) (hne : args ≠ []) :
    increaseSum ib S s args =
      .ok (if 0 ≤ s ∧ (∀ x ∈ args, 0 ≤ x.2) ∧ s + argSum args ≤ S.maxVal then some (s + argSum args) else none) :=
  Math.increaseSum_exact ib hib S hS args s hs hw (Or.inl hne)

/-- `NaturalSum<S>(args...)` for any number of arguments of any integer types: the exact sum iff all arguments are
non-negative and the sum fits `S`, nothing otherwise; never UB. -/
theorem naturalSum_exact (ib : Nat) (hib : 0 < ib) (S : CType) (hS : 0 < S.bits)
    (args : List (CType × Int)) (hw : WellTyped args) :
    naturalSum ib S args =
      .ok (if (∀ x ∈ args, 0 ≤ x.2) ∧ argSum args ≤ S.maxVal then some (argSum args) else none) := by
  have h0 : S.inRange 0 := ⟨S.minVal_nonpos, S.maxVal_nonneg⟩
  unfold naturalSum
  rw [conv_of_inRange S hS 0 h0, Math.increaseSum_exact ib hib S hS args 0 h0 hw (Or.inr (Int.le_refl 0))]
  unfold sumSpec
  by_cases c : (∀ x ∈ args, 0 ≤ x.2) ∧ argSum args ≤ S.maxVal
  · have c' : 0 ≤ (0 : Int) ∧ (∀ x ∈ args, 0 ≤ x.2) ∧ 0 + argSum args ≤ S.maxVal := ⟨Int.le_refl 0, c.1, by omega⟩
    rw [if_pos c, if_pos c', Int.zero_add]
  · have c' : ¬ (0 ≤ (0 : Int) ∧ (∀ x ∈ args, 0 ≤ x.2) ∧ 0 + argSum args ≤ S.maxVal) := fun h => c ⟨h.2.1, by omega⟩
    rw [if_neg c, if_neg c']

/-- A returned sum is a value of the result type. -/
theorem naturalSum_inRange (ib : Nat) (hib : 0 < ib) (S : CType) (hS : 0 < S.bits)
    (args : List (CType × Int)) (hw : WellTyped args) (v : Int) (h : naturalSum ib S args = .ok (some v)) :
    S.inRange v ∧ 0 ≤ v := by
  rw [naturalSum_exact ib hib S hS args hw] at h
  split at h
  · next c =>
    injection h with h; injection h with h; subst h
    have := argSum_nonneg args c.1
    exact ⟨⟨by have := S.minVal_nonpos; omega, c.2⟩, this⟩
  · injection h with h; cases h

/-- `SetToNaturalSumOrMax(var, args...)` stores (and returns) the exact sum, or the maximum of the variable's
type when an argument is negative or the sum does not fit. -/
theorem setToNaturalSumOrMax_exact (ib : Nat) (hib : 0 < ib) (S : CType) (hS : 0 < S.bits)
    (args : List (CType × Int)) (hw : WellTyped args) :
    setToNaturalSumOrMax ib S args =
      .ok (if (∀ x ∈ args, 0 ≤ x.2) ∧ argSum args ≤ S.maxVal then argSum args else S.maxVal) := by
  unfold setToNaturalSumOrMax
  rw [naturalSum_exact ib hib S hS args hw]
  by_cases c : (∀ x ∈ args, 0 ≤ x.2) ∧ argSum args ≤ S.maxVal
  · simp only [if_pos c, Option.getD_some]
  · simp only [if_neg c, Option.getD_none]

/-- `NaturalCast<Result>(s)` returns `s` unchanged when it is non-negative and fits, and throws otherwise. -/
theorem naturalCast_exact (ib : Nat) (hib : 0 < ib) (Res Src : CType) (hR : 0 < Res.bits) (hS : 0 < Src.bits)
    (s : Int) (hs : Src.inRange s) :
    naturalCast ib Res Src s = .ok (if 0 ≤ s ∧ s ≤ Res.maxVal then .value s else .throws) := by
  unfold naturalCast
  rw [naturalSum_exact ib hib Res hR [(Src, s)] (by intro x hx; simp at hx; subst hx; exact ⟨hS, hs⟩)]
  have e : argSum [(Src, s)] = s := by simp [argSum]
  rw [e]
  by_cases c : 0 ≤ s ∧ s ≤ Res.maxVal
  · have : (∀ x ∈ [(Src, s)], 0 ≤ x.2) ∧ s ≤ Res.maxVal := by
      simp; exact c
    simp only [if_pos this, if_pos c]
  · have : ¬ ((∀ x ∈ [(Src, s)], 0 ≤ x.2) ∧ s ≤ Res.maxVal) := by
      simp; simpa using c
    simp only [if_neg this, if_neg c]

/-- The overload chosen by `AllUnsigned` does not matter for the result: the general overload computes the same
(exact) answer on two unsigned types as the optimised one. -/
theorem overloads_agree (ib : Nat) (hib : 0 < ib) (S B : CType) (hS : 0 < S.bits) (hB : 0 < B.bits)
    (hSi : ib ≤ S.bits) (hBi : ib ≤ B.bits) (uS : S.signed = false) (uB : B.signed = false) (a b : Int)
    (ha : S.inRange a) (hb : B.inRange b) :
    incUnsigned ib S S B a b = incMixed ib S S B a b := by
  have e := incMixed_exact ib hib S B hS hB a b ha hb
  rw [promote_of_ge ib S hSi] at e
  rw [e, incUnsigned_exact ib S B hS hB hSi hBi uS uB a b ha hb]
  have h0 : 0 ≤ a := by have := S.minVal_unsigned uS; unfold inRange at ha; omega
  have h1 : 0 ≤ b := by have := B.minVal_unsigned uB; unfold inRange at hb; omega
  simp [h0, h1]

/-- The compile-time claim of the optimised overload ("lossless assignment": `std::common_type<A,B>` is the type of
`a + b`) holds for all promoted types, and that type is one of the two operand types' shapes, unsigned when both
operands are. -/
theorem unsigned_sum_type (ib : Nat) (A B : CType) (hA : ib ≤ A.bits) (hB : ib ≤ B.bits)
    (uA : A.signed = false) (uB : B.signed = false) :
    commonType ib A B = uac ib A B ∧ (uac ib A B).signed = false ∧
      ((uac ib A B).bits = A.bits ∨ (uac ib A B).bits = B.bits) := by
  refine ⟨commonType_eq_uac_of_promoted ib A B hA, ?_, ?_⟩
  · exact uac_unsigned ib A B (by rw [promote_of_ge ib A hA]; exact uA) (by rw [promote_of_ge ib B hB]; exact uB)
  · unfold uac; rw [promote_of_ge ib A hA, promote_of_ge ib B hB]
    rcases uacP_cases A B with ⟨e, _⟩ | ⟨e, _⟩ | ⟨e, _⟩ | ⟨e, _⟩ <;> rw [e] <;> simp

/-- The type rules of the model (limits, integral promotion, `std::common_type`, type of `a+b`, the `AllUnsigned`
dispatch) give the answers of the staged tree's compiler for every pair of its canonical integer types. -/
theorem type_rules_match_compiler :
    (checkInt && checkLimits && checkPromote && checkCommon && checkSumType && checkAllUnsigned) = true := by
  rw [checkInt_ok, checkLimits_ok, checkPromote_ok, checkCommon_ok, checkSumType_ok, checkAllUnsigned_ok]; rfl

/-! ### non-vacuity -/

section examples
def i8 : CType := ⟨8, true, 2⟩
def u8 : CType := ⟨8, false, 3⟩
def i32 : CType := cInt 32
def u32 : CType := ⟨32, false, 1⟩
def i64 : CType := ⟨64, true, 7⟩
def u64 : CType := ⟨64, false, 8⟩

-- the hypotheses are satisfiable
example : i32.inRange (-1) ∧ u32.inRange 0 ∧ u64.inRange 18446744073709551615 ∧ ¬ u64.inRange 18446744073709551616 := by
  decide +kernel
-- the model exhibits the hazard `Less` exists for: the built-in comparison says -1 < 0u is false ...
example : cmpLt 32 i32 u32 (-1) 0 = false := by decide +kernel
-- ... and `Less` gets it right
example : less 32 i32 u32 (-1) 0 = true := by decide +kernel
example : less 32 u64 i8 18446744073709551615 (-128) = false := by decide +kernel
-- undefined behaviour is reachable in the model (so "never UB" says something)
example : arith 32 (· + ·) i32 i32 2147483647 1 = .ub := by decide +kernel
example : arith 32 (· + ·) u32 u32 4294967295 1 = .ok (u32, 0) := by decide +kernel
-- sums: exact up to the limit, nothing one above; negative argument: nothing; unsigned wrap detected
example : naturalSum 32 u8 [(u64, 200), (i8, 55)] = .ok (some 255) := by decide +kernel
example : naturalSum 32 u8 [(u64, 200), (i8, 56)] = .ok none := by decide +kernel
example : naturalSum 32 i64 [(u64, 9223372036854775807)] = .ok (some 9223372036854775807) := by decide +kernel
example : naturalSum 32 i64 [(u64, 9223372036854775808)] = .ok none := by decide +kernel
example : naturalSum 32 u64 [(i8, -1)] = .ok none := by decide +kernel
example : increaseSum2 32 u64 u64 18446744073709551615 1 = .ok none := by decide +kernel
example : increaseSum2 32 u64 u32 18446744073709551614 1 = .ok (some 18446744073709551615) := by decide +kernel
example : setToNaturalSumOrMax 32 i8 [(i32, 100), (u64, 28)] = .ok 127 := by decide +kernel
example : setToNaturalSumOrMax 32 i8 [(i32, 100), (u64, 27)] = .ok 127 := by decide +kernel
example : setToNaturalSumOrMax 32 i8 [(i32, 100), (u64, 26)] = .ok 126 := by decide +kernel
example : naturalCast 32 u8 i32 256 = .ok .throws := by decide +kernel
example : naturalCast 32 u8 i32 255 = .ok (.value 255) := by decide +kernel
end examples

end SquidModel.C52
