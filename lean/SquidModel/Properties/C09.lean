/-
C09 — Adversarial HTTP peers cannot cause memory errors or crashes.

Full statement (not provable as a whole; kept as the goal):
  "No byte stream from a client or from an origin server makes Squid read or write out of bounds, use freed memory, abort on an
   assertion, or exit. Each such connection ends with an HTTP response or a close, and other transactions continue to be served."

What is proved here is the part an executable model can carry (all inputs, no size bound):
  * index level (Robust/Mem.lean): the buffer primitives under the HTTP/1 parsers — `headersEnd`, `SBuf::findFirstNotOf/findLastNotOf/
    startsWith`, `Tokenizer::prefix/skipAll/skipOne/skip/skipOneTrailing/skipAllTrailing/suffix/skipSuffix` — written with explicit
    indices, faulting reads and faulting unsigned subtraction, never fault, and compute the list functions the parser models use;
  * connection level (Robust/Client.lean): for every sequence of reads / EOF / timeout / error on a client connection the two modelled
    assertions cannot fire, and once no more bytes can come the connection has answered, handed a request on, or closed.
Not proved (covered by the sanitizer runs of the check, see notes/built/C09.md): use-after-free, allocator state, everything outside
the parsers, the reply side's connection loop, what happens to a request after it was handed on.
-/
import SquidModel.Robust.MemLemmas
import SquidModel.Robust.ClientLemmas

namespace SquidModel.C09
open SquidModel SquidModel.Robust

/-! ### no out-of-bounds read, no unsigned wrap (index level) -/

/-- `headersEnd(buf.rawContent(), buf.length(), fold)` reads only inside the buffer, for every buffer content (and for every
claimed length that does not exceed the content) -/
theorem no_oob_headersEnd (mime : Bytes) (l : Nat) (hl : l ≤ mime.length) : Safe (headersEndIdx mime l) :=
  headersEndIdx_safe mime l hl

/-- with a claimed length beyond the content the same loop does fault: the bound is needed (the fault outcome is not vacuous) -/
theorem headersEnd_overlong_counterexample : headersEndIdx [65, 66] 3 = .error (.oob 2 2) := by decide

/-- the SBuf searches never read outside the content, for every content, set and start/end position (including npos) -/
theorem no_oob_searches (set : CharSet) (s t : Bytes) (p : Option Nat) :
    Safe (findFirstNotOf set s p) ∧ Safe (findLastNotOf set s p) ∧ Safe (startsWith s t) :=
  ⟨findFirstNotOf_safe set s p, findLastNotOf_safe set s p, startsWith_safe s t⟩

/-- every Tokenizer operation the HTTP/1 parsers use is free of out-of-bounds reads and of unsigned wrap-around
(`buf_.length() - n`), for every buffer content, character set, token and limit -/
theorem no_oob_tokenizer (set : CharSet) (limit : Option Nat) (s t : Bytes) (ch : UInt8) :
    Safe (tokPrefix set limit s) ∧ Safe (tokSkipAll set s) ∧ Safe (tokSkipOne set s) ∧ Safe (tokSkipChar ch s) ∧
    Safe (tokSkip t s) ∧ Safe (tokSkipOneTrailing set s) ∧ Safe (tokSkipAllTrailing set s) ∧ Safe (tokSuffix set limit s) ∧
    Safe (tokSkipSuffix t s) :=
  ⟨tokPrefix_safe set limit s, tokSkipAll_safe set s, tokSkipOne_safe set s, tokSkipChar_safe ch s, tokSkip_safe t s,
   tokSkipOneTrailing_safe set s, tokSkipAllTrailing_safe set s, tokSuffix_safe set limit s, tokSkipSuffix_safe t s⟩

/-- `consumeTrailing(n)` with `n` beyond the buffer would wrap: the callers' bounds are what keeps it safe -/
theorem consumeTrailing_wrap_counterexample : consumeTrailing [1, 2] (some 3) = .error (.underflow 2 3) := by decide

/-- the index-level operations are the list functions of the parser models: `prefix` is `Http1.prefixTok` (C21/C22 model),
`skipAll` is takeWhile/dropWhile, `headersEnd` is `Http1.headersEnd` -/
theorem index_level_refines_parser_model (set : CharSet) (limit : Option Nat) (s : Bytes) :
    tokPrefix set limit s = .ok (Http1.prefixTok set.mem limit s) ∧
    tokSkipAll set s = .ok ((s.takeWhile set.mem).length, s.dropWhile set.mem) ∧
    (∃ n f, headersEndIdx s s.length = .ok (n, f) ∧
      match Http1.headersEnd s with
      | some (n', o) => n = n' ∧ f = o
      | none => n = 0) :=
  ⟨tokPrefix_eq set limit s, tokSkipAll_eq set s, headersEndIdx_eq s⟩

/-! ### the modelled assertions cannot fire -/

/-- `RequestParser::parse`: `assert(aBuf.length() >= remaining().length())` holds for every parser state and input:
what the parser hands back is a suffix of what it was given -/
theorem parser_never_grows_buffer (cfg : Http1.Cfg) (st : Http1.PState) (aBuf : Bytes) :
    (Http1.parse cfg st aBuf).buf <:+ aBuf ∧ (Http1.parse cfg st aBuf).buf.length ≤ aBuf.length :=
  ⟨parse_buf_suffix cfg st aBuf, parse_buf_le cfg st aBuf⟩

/-- `ConnStateData::parseRequests`: `Must(inBuf.length() < Config.maxRequestHeaderSize)` after a needs-more-data parse holds for
every parser state and input (request_header_max_size ≥ 2) -/
theorem need_more_implies_below_limit (cfg : Http1.Cfg) (hl : 2 ≤ cfg.limit) (st : Http1.PState) (aBuf : Bytes)
    (h : (Http1.parse cfg st aBuf).stage ≠ .done) : (Http1.parse cfg st aBuf).buf.length < cfg.limit :=
  needMore_below_limit cfg hl st aBuf h

/-- with request_header_max_size 0 that `Must` would throw on the first byte: the hypothesis is needed -/
theorem zero_limit_counterexample :
    (run { p := { relaxed := true, limit := 0 }, bufMax := 100, halfClosed := false } [.data [10]]).fate
      = .aborted .inBufBelowLimit := by decide

/-- for every event history of a client connection neither modelled assertion fires -/
theorem modelled_asserts_unreachable (cfg : CCfg) (hl : 2 ≤ cfg.p.limit) (evs : List Ev) (a : AssertId) :
    (run cfg evs).fate ≠ .aborted a :=
  (run_inv cfg hl evs).noAbort a

/-! ### every stream ends in a response or a close -/

/-- once no more request bytes can arrive (EOF, timeout or read error after any history), the connection has produced an error
response (never 200), handed a complete request to request processing, or closed — it is not left waiting, and it did not abort -/
theorem every_stream_ends_in_response_or_close (cfg : CCfg) (hl : 2 ≤ cfg.p.limit) (evs : List Ev) (e : Ev) (he : e.final = true) :
    (run cfg (evs ++ [e])).fate = .closed ∨ (run cfg (evs ++ [e])).fate = .handed ∨
    ∃ s, (run cfg (evs ++ [e])).fate = .replied s ∧ s ≠ 200 := by
  have hinv := run_inv cfg hl (evs ++ [e])
  have hnr : (run cfg (evs ++ [e])).fate ≠ .reading := by
    unfold run
    rw [List.foldl_append]
    exact step_final_not_reading cfg _ e he
  cases hf : (run cfg (evs ++ [e])).fate with
  | reading => exact absurd hf hnr
  | closed => exact Or.inl rfl
  | handed => exact Or.inr (Or.inl rfl)
  | replied s => exact Or.inr (Or.inr ⟨s, rfl, hinv.notOk s hf⟩)
  | aborted a => exact absurd hf (hinv.noAbort a)

/-- a connection that stopped reading ignores all later events (nothing is parsed after an error reply or a close) -/
theorem settled_connection_is_stable (cfg : CCfg) (c : Conn) (evs : List Ev) (h : c.fate ≠ .reading) :
    evs.foldl (step cfg) c = c := by
  induction evs with
  | nil => rfl
  | cons e t ih => simp only [List.foldl_cons, step_settled cfg c e h]; exact ih

/-- a connection that is still reading has room in its buffer when request_header_max_size ≤ client_request_buffer_max_size:
it cannot get stuck with a full buffer and an incomplete request -/
theorem reading_has_buffer_space (cfg : CCfg) (hl : 2 ≤ cfg.p.limit) (hb : cfg.p.limit ≤ cfg.bufMax) (evs : List Ev)
    (h : (run cfg evs).fate = .reading) : (run cfg evs).inBuf.length < cfg.bufMax :=
  Nat.lt_of_lt_of_le ((run_inv cfg hl evs).below h) hb

/-- the connection model runs C21's parser: after any sequence of non-empty reads that fits client_request_buffer_max_size the parser
object of the connection is exactly `Http1.feedAll` of the C21 model (so C21's segmentation-independence theorems hold of connections) -/
theorem connection_runs_c21_parser (cfg : CCfg) (hl : 2 ≤ cfg.p.limit) (segs : List Bytes) (hne : ∀ s ∈ segs, s ≠ [])
    (hfit : segs.flatten.length ≤ cfg.bufMax) :
    (run cfg (segs.map .data)).st = (Http1.feedAll cfg.p segs).st :=
  run_data_is_feedAll cfg hl segs hne hfit

/-! ### non-vacuity: the outcomes are all reachable -/

def cfgR : CCfg := { p := { relaxed := true, limit := 64 }, bufMax := 128, halfClosed := false }

/-- "GET / HTTP/1.1\r\n\r\n" in two reads is handed on -/
example : (run cfgR [.data [71, 69, 84, 32, 47, 32, 72, 84], .data [84, 80, 47, 49, 46, 49, 13, 10, 13, 10]]).fate = .handed := by decide
/-- a control character in the method: 400 -/
example : (run cfgR [.data [1, 32, 47, 32, 72, 84, 84, 80, 47, 49, 46, 49, 13, 10, 13, 10]]).fate = .replied 400 := by decide
/-- an incomplete request line, then EOF: closed without a reply -/
example : (run cfgR [.data [71, 69, 84, 32], .eof]).fate = .closed := by decide
/-- an incomplete request line is still being read -/
example : (run cfgR [.data [71, 69, 84, 32]]).fate = .reading := by decide
/-- a request line that fills request_header_max_size: 414 -/
example : (run cfgR [.data (71 :: 69 :: 84 :: 32 :: List.replicate 70 97)]).fate = .replied 414 := by decide
/-- the faulting read is reachable in the model (so `Safe` says something) -/
example : rd [1, 2, 3] 3 = .error (.oob 3 3) := by decide
example : tokPrefix Gen.CharSets.DIGIT (some 2) [49, 50, 51, 65] = .ok (some ([49, 50], [51, 65])) := by decide

end SquidModel.C09
