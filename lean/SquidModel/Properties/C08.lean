/-
C08 — No descriptor leaks or crashes across abort histories.

Full statement (not provable as a whole; kept as the goal):
  "After any history of client and server connections that complete, abort mid-request, abort mid-response, stall, or reset, Squid
   keeps running. Once traffic stops and timeouts expire, the number of open descriptors returns to its idle baseline (idle
   persistent connections excepted, up to their configured limits)."

What is proved here is the part an executable model can carry (all histories, no bound):
  * src/fd.cc: for every history of fd_open/fd_close calls Number_FD is the number of open slots and Biggest_FD the largest open
    slot; the two assertions inside fdUpdateBiggest cannot fire; only closing a slot that is not open (or a number outside the
    table) asserts;
  * src/pconn.cc IdleConnList: push/closeN/pop/findAndClose keep the idle list a duplicate-free list of open descriptors, closeN
    closes min(n, size) of them, capacity covers size;
  * ownership skeleton (Fd/Book.lean): whatever the interleaving of accepts, connects, completions, aborts, resets, timeouts, pool
    pushes and pops, Number_FD = baseline + descriptors owned by live transactions + idle pooled connections; with no live
    transaction it is baseline + pool; after the timeouts have expired it is the baseline.
Not proved: that every code path of the real binary that opens a descriptor follows the skeleton (one owner, every terminal
transition closes or pools) — that is what the end-to-end monitor (/proc/<pid>/fd, mgr:filedescriptors, liveness, cache.log) checks.
-/
import SquidModel.Fd.BookLemmas

namespace SquidModel.C08
open SquidModel.Fd

/-! ### descriptor table accounting (src/fd.cc) -/

/-- after any history of `fd_open`/`fd_close` calls that did not assert, `Number_FD` is the number of open slots -/
theorem number_fd_eq_open_count (maxFD : Nat) (ops : List Op) (t : Table) (h : runOps (Table.empty maxFD) ops = .ok t) :
    t.number = (openCount t.flags : Int) :=
  (runOps_wf ops _ t (wf_empty maxFD) h).count

/-- … and `Biggest_FD` is the largest open slot, or -1 when nothing is open -/
theorem biggest_fd_is_max_open (maxFD : Nat) (ops : List Op) (t : Table) (h : runOps (Table.empty maxFD) ops = .ok t) :
    -1 ≤ t.biggest ∧ t.biggest < (t.maxFD : Int) ∧ (0 ≤ t.biggest → t.isOpen t.biggest.toNat = true) ∧
    (∀ fd : Nat, t.isOpen fd = true → (fd : Int) ≤ t.biggest) := by
  have w := runOps_wf ops _ t (wf_empty maxFD) h
  exact ⟨w.big_ge, w.big_lt, w.big_open, fun fd ho => open_le_biggest w ho⟩

/-- the assertions inside `fdUpdateBiggest` are unreachable: a history can only fail by closing a slot that is not open or by
using a descriptor number outside the table -/
theorem fd_asserts_only_on_misuse (maxFD : Nat) (ops : List Op) (e : Bad) (h : runOps (Table.empty maxFD) ops = .error e) :
    e = .closeNotOpen ∨ e = .outsideTable :=
  runOps_error ops _ e (wf_empty maxFD) h

/-- the misuse assertion is live (closing twice) -/
theorem double_close_counterexample :
    (match runOps (Table.empty 8) [.open_ 3, .close 3, .close 3] with
     | .error e => e == Bad.closeNotOpen
     | .ok _ => false) = true := by decide

/-- exact effect of one call on a well-formed table -/
theorem open_close_effect {t : Table} (h : WF t) (fd : Nat) :
    (t.isOpen fd = true → ∃ t', fdClose t fd = .ok t' ∧ WF t' ∧ t'.flags = t.flags.set fd false ∧ t'.number = t.number - 1) ∧
    (fd < t.maxFD → t.isOpen fd = false →
      ∃ t', fdOpen t fd = .ok t' ∧ WF t' ∧ t'.flags = t.flags.set fd true ∧ t'.number = t.number + 1) :=
  ⟨fun ho => fdClose_wf h ho, fun hl hc => fdOpen_wf h hl hc⟩

/-! ### idle persistent connections (src/pconn.cc) -/

/-- `IdleConnList::closeN(n)` closes exactly min(n, size) connections and loses none of the others -/
theorem closeN_closes_min (l : IdleList) (n : Nat) :
    (l.closeN n).1.length = min n l.list.length ∧ (l.closeN n).1.length + (l.closeN n).2.list.length = l.list.length ∧
    (∀ x, x ∈ l.list ↔ x ∈ (l.closeN n).1 ∨ x ∈ (l.closeN n).2.list) :=
  ⟨(closeN_length l n).1, (closeN_length l n).2, closeN_mem l n⟩

/-- the array always has room: `size_ <= capacity_` is kept by `push` -/
theorem idle_list_capacity (l : IdleList) (fd : Nat) (h : l.list.length ≤ l.capacity) (hp : 0 < l.capacity) :
    (l.push fd).list.length ≤ (l.push fd).capacity ∧ 0 < (l.push fd).capacity :=
  push_capacity l fd h hp

/-! ### ownership: no history leaks a descriptor -/

/-- the invariant survives every event history -/
theorem inv_run (s : St) (h : Inv s) (evs : List Ev) : Inv (run s evs) := by
  unfold run
  induction evs generalizing s with
  | nil => exact h
  | cons e t ih => exact ih (step s e) (inv_step h e)

/-- `run` keeps the baseline -/
theorem base_step (s : St) (e : Ev) : (step s e).base = s.base := by
  cases e with
  | openNew fd => simp only [step]; split <;> (try rfl); cases fdOpen s.tbl fd <;> rfl
  | closeBusy fd => simp only [step]; split <;> (try rfl); cases fdClose s.tbl fd <;> rfl
  | toPool fd =>
    simp only [step]
    split
    · split
      · cases fdClose s.tbl fd <;> rfl
      · rfl
    · rfl
  | fromPool avail => simp only [step]; split <;> rfl
  | idleClose fd =>
    simp only [step]
    split
    · rename_i x p _; cases fdClose s.tbl x <;> rfl
    · rfl
  | poolCloseN n =>
    simp only [step]
    have : ∀ (C : List Nat) (s : St), (closeAll s C).base = s.base := by
      intro C
      induction C with
      | nil => intro s; rfl
      | cons fd rest ih => intro s; simp only [closeAll]; rw [ih]; cases fdClose s.tbl fd <;> rfl
    exact this _ s

theorem base_run (s : St) (evs : List Ev) : (run s evs).base = s.base := by
  unfold run
  induction evs generalizing s with
  | nil => rfl
  | cons e t ih => simp only [List.foldl_cons]; rw [ih, base_step]

/-- **no leak**: after any interleaving of accepts, connects, completions, client/server aborts, resets, timeouts, pool pushes and
pops, no assertion fired and `Number_FD` = baseline + descriptors owned by live transactions + idle pooled connections; every one
of those descriptors is open and has exactly one owner -/
theorem number_fd_accounts_for_every_owner (s : St) (h : Inv s) (evs : List Ev) :
    (run s evs).bad = none ∧
    (run s evs).tbl.number = (s.base : Int) + ((run s evs).busy.length : Int) + ((run s evs).pool.list.length : Int) ∧
    ((run s evs).busy ++ (run s evs).pool.list).Nodup ∧
    (∀ fd ∈ (run s evs).busy ++ (run s evs).pool.list, (run s evs).tbl.isOpen fd = true) := by
  have i := inv_run s h evs
  refine ⟨i.ok, ?_, i.nodup, i.opened⟩
  rw [i.count, base_run]
  simp only [St.owned, List.length_append]
  omega

/-- **terminal states own nothing**: when no transaction is live, the open descriptors are the baseline and the idle persistent
connections -/
theorem quiescent_is_baseline_plus_idle (s : St) (h : Inv s) (evs : List Ev) (hq : (run s evs).busy = []) :
    (run s evs).tbl.number = (s.base : Int) + ((run s evs).pool.list.length : Int) := by
  have := (number_fd_accounts_for_every_owner s h evs).2.1
  rw [hq] at this
  simpa using this

theorem closeBusyAll_spec : ∀ (n : Nat) (s : St), Inv s → s.busy.length ≤ n →
    Inv (closeBusyAll n s) ∧ (closeBusyAll n s).busy = [] ∧ (closeBusyAll n s).pool = s.pool ∧ (closeBusyAll n s).base = s.base := by
  intro n
  induction n with
  | zero =>
    intro s h hl
    have : s.busy = [] := List.eq_nil_of_length_eq_zero (by omega)
    exact ⟨h, this, rfl, rfl⟩
  | succ k ih =>
    intro s h hl
    cases hb : s.busy with
    | nil =>
      have : closeBusyAll (k + 1) s = s := by simp only [closeBusyAll, hb]
      rw [this]; exact ⟨h, hb, rfl, rfl⟩
    | cons fd rest =>
      simp only [closeBusyAll, hb]
      have hm : fd ∈ s.busy := by rw [hb]; exact List.mem_cons_self
      have hi := inv_step h (.closeBusy fd)
      have hbusy : (step s (.closeBusy fd)).busy = rest := by
        simp [step, hb]
      have hpool : (step s (.closeBusy fd)).pool = s.pool := by
        simp only [step, hm, if_true]; cases fdClose s.tbl fd <;> rfl
      obtain ⟨a1, a2, a3, a4⟩ := ih (step s (.closeBusy fd)) hi (by rw [hbusy]; rw [hb] at hl; simp at hl; omega)
      exact ⟨a1, a2, a3.trans hpool, a4.trans (base_step s _)⟩

/-- **return to baseline**: once traffic has stopped and every timeout has expired (each live transaction's connections closed by
its timeout, each idle connection by the idle timeout), `Number_FD` is the baseline again and nothing is owned -/
theorem expired_returns_to_baseline (s : St) (h : Inv s) (evs : List Ev) :
    (expireAll (run s evs)).tbl.number = (s.base : Int) ∧ (expireAll (run s evs)).busy = [] ∧
    (expireAll (run s evs)).pool.list = [] ∧ (expireAll (run s evs)).bad = none := by
  have i := inv_run s h evs
  obtain ⟨a1, a2, a3, a4⟩ := closeBusyAll_spec (run s evs).busy.length (run s evs) i (Nat.le_refl _)
  unfold expireAll
  simp only
  have i2 := inv_step a1 (.poolCloseN (closeBusyAll (run s evs).busy.length (run s evs)).pool.list.length)
  have hpool : (step (closeBusyAll (run s evs).busy.length (run s evs))
      (.poolCloseN (closeBusyAll (run s evs).busy.length (run s evs)).pool.list.length)).pool.list = [] := by
    simp only [step, IdleList.closeN]
    by_cases h0 : (closeBusyAll (run s evs).busy.length (run s evs)).pool.list.length < 1
    · rw [if_pos h0]
      show (closeBusyAll (run s evs).busy.length (run s evs)).pool.list = []
      exact List.eq_nil_of_length_eq_zero (by omega)
    · rw [if_neg h0]; simp
  have hbusy : (step (closeBusyAll (run s evs).busy.length (run s evs))
      (.poolCloseN (closeBusyAll (run s evs).busy.length (run s evs)).pool.list.length)).busy = [] := by
    simp only [step]
    rw [(closeAll_inv _ _ a1.wf a1.ok (by
      have hpn := (List.nodup_append.mp a1.nodup).2.1
      simp only [IdleList.closeN]
      split
      · exact List.nodup_nil
      · simp only [Nat.le_refl, ge_iff_le, if_true]
        exact (List.reverse_perm _).nodup_iff.mpr hpn) (by
      intro x hx
      have : x ∈ (closeBusyAll (run s evs).busy.length (run s evs)).pool.list :=
        (closeN_mem _ _ x).mpr (Or.inl hx)
      exact a1.opened x (List.mem_append_right _ this))).2.2.2.2.1]
    exact a2
  refine ⟨?_, hbusy, hpool, i2.ok⟩
  rw [i2.count]
  simp only [St.owned, hbusy, hpool, List.append_nil, List.length_nil]
  rw [base_step, a4, base_run]
  simp

/-- `PconnPool::push` under descriptor pressure (or during shutdown) closes the connection instead of pooling it -/
theorem pool_push_respects_fd_pressure (s : St) (h : Inv s) (fd : Nat) (hm : fd ∈ s.busy)
    (hp : fdUsageHigh s.tbl s.openingFD s.reservedFD = true ∨ s.shuttingDown = true) :
    (step s (.toPool fd)).pool = s.pool ∧ (step s (.toPool fd)).tbl.isOpen fd = false ∧
    (step s (.toPool fd)).tbl.number = s.tbl.number - 1 := by
  obtain ⟨t', e, w, o, n, c, _⟩ := close_owned h.wf h.nodup h.opened (List.mem_append_left _ hm)
  have hs : step s (.toPool fd) = { s with tbl := t', busy := s.busy.erase fd } := by
    simp only [step, hm, if_true, hp, e, St.withTbl]
  rw [hs]
  exact ⟨rfl, c, n⟩

/-! ### non-vacuity -/

/-- a concrete start: 16 slots, nothing open, no baseline descriptors; it satisfies the invariant -/
def s0 : St := ⟨Table.empty 16, 0, [], ⟨[], 2⟩, 0, 2, false, none⟩

theorem s0_inv : Inv s0 where
  wf := wf_empty 16
  ok := rfl
  nodup := by simp [St.owned, s0]
  opened := by intro fd h; simp [St.owned, s0] at h
  count := by simp [St.owned, s0, Table.empty]

/-- two transactions: client 5 + server 6 completes and pools its server connection; client 7 + server 8 is aborted by the client
mid-response (both closed); then a third transaction reuses the pooled connection -/
example : (run s0 [.openNew 5, .openNew 6, .openNew 7, .openNew 8, .toPool 6, .closeBusy 5, .closeBusy 7, .closeBusy 8]).tbl.number = 1 := by decide
example : (run s0 [.openNew 5, .openNew 6, .toPool 6, .closeBusy 5, .openNew 5, .fromPool [6]]).busy = [6, 5] := by decide
example : (expireAll (run s0 [.openNew 5, .openNew 6, .openNew 7, .toPool 6])).tbl.number = 0 := by decide
/-- a guarded event is ignored: a transaction cannot close a descriptor it does not own -/
example : (run s0 [.openNew 5, .closeBusy 6]).tbl.number = 1 := by decide
/-- descriptor pressure: with RESERVED_FD = 2 and 16 slots, the 13th descriptor makes fdUsageHigh true -/
example : fdUsageHigh (run s0 ((List.range 13).map .openNew)).tbl 0 2 = true := by decide

end SquidModel.C08
