/-
C13 — Vary: a stored variant is served only to matching requests; Vary: * is never served from cache.

partial: the theorems are about the model of the decision logic (mark construction, variant lookup, storage; see
SquidModel/Cache/Vary*.lean); the rebuilt binary is tied to that model by scenario correspondence and the verbatim
staged `assembleVaryKey` by an in-process differential run (props/C13.py).

Headline: `served_only_to_matching_requests` — for every history (any length), if request i is answered from the cache with
the reply stored for request j, then that reply's Vary has no `*` member and for every member n the RFC 9110 combined field
values of n in requests i and j are equal (absent ≠ empty, all field lines count) — for every history whose Vary fields are
protocol-valid in the sense that their members contain no `,` `=` `"` (`Clean`; every RFC 9110 token is clean).
`star_never_hit`, `hit_marks_equal`, `revalidated_marks_equal`, `mark_injective_*` need no such hypothesis or only `Clean`.

The statement without the `Clean` hypothesis is FALSE of the real code: a Vary member that is not a token and spells
`name="value"` renders the same mark text as a real pair (`nontoken_member_counterexample`, confirmed end to end, known finding
C13-nontoken-vary-member; needs a misbehaving origin).

History: two further counterexamples found while building this check were fixed in /repo and are now regression theorems:
registered non-list headers compared by their first field line only and empty = absent (fixed by a1b669e:
`nonlist_field_lines_all_count`, `nonlist_empty_differs_from_absent`), and a VT/FF-only list element ending the member list
(fixed by 43aac5c: `vt_element_does_not_end_list`). "member" is `varyMembers`, the splitting `strListGetItem` performs: the
RFC 9110 #-list splitting, except that commas inside double quotes do not split (such a member is not a token).
-/
import SquidModel.Cache.VaryStoreLemmas

namespace SquidModel.C13
open SquidModel SquidModel.Cache.Vary

/-- **A cache hit implies equal marks** (all histories, any length). If request `i` of a history is answered from the cache
with the reply the origin gave to request `j` (no origin contact), then `j < i` and either that reply carries no Vary field,
or its mark — rendered from its own Vary and request `j` when it was stored — is non-empty, is not `*`, and equals the mark
rendered for request `i` from the Vary field of an earlier reply `k` (the marker object's). -/
theorem hit_marks_equal (steps : List (Req × Resp)) (i j : Nat)
    (h : (run steps).2[i]? = some (.hit j)) :
    j < i ∧ ∃ ri respi rj respj, steps[i]? = some (ri, respi) ∧ steps[j]? = some (rj, respj) ∧
      (respj.varyLines = [] ∨
        (∃ k rk respk, k < i ∧ steps[k]? = some (rk, respk) ∧
          makeMark respk.varyLines ri.hdrs = makeMark respj.varyLines rj.hdrs) ∧
        makeMark respj.varyLines rj.hdrs ≠ [] ∧ makeMark respj.varyLines rj.hdrs ≠ star) := by
  have := runFrom_hit steps steps [] 0 (inv_empty steps) (fun k => by simp) i j h
  simp only [Nat.zero_add, HitOK, SelOK] at this
  obtain ⟨⟨hlt, ri, respi, rj, respj, hi, hj, hc⟩, hstar⟩ := this
  refine ⟨hlt, ri, respi, rj, respj, hi, hj, ?_⟩
  rcases hc with hnil | ⟨hk, hne⟩
  · exact Or.inl hnil
  · by_cases hv : respj.varyLines = []
    · exact Or.inl hv
    · exact Or.inr ⟨hk, hne, hstar rj respj hj hv⟩

/-- The same for a successful revalidation: when the origin answers 304 to Squid's conditional request and the stored reply
to request `j` is delivered to request `i`, that reply has no Vary or its mark is non-empty and equals the mark rendered
for request `i` (the `*` mark is possible here: the origin has been asked). -/
theorem revalidated_marks_equal (steps : List (Req × Resp)) (i j : Nat)
    (h : (run steps).2[i]? = some (.revalidated j)) :
    j < i ∧ ∃ ri respi rj respj, steps[i]? = some (ri, respi) ∧ steps[j]? = some (rj, respj) ∧
      (respj.varyLines = [] ∨
        (∃ k rk respk, k < i ∧ steps[k]? = some (rk, respk) ∧
          makeMark respk.varyLines ri.hdrs = makeMark respj.varyLines rj.hdrs) ∧
        makeMark respj.varyLines rj.hdrs ≠ []) := by
  have := runFrom_reval steps steps [] 0 (inv_empty steps) (fun k => by simp) i j h
  simpa [SelOK] using this

/-- **`Vary: *` is never served from cache**: a reply whose Vary field has a `*` member (anywhere in the list, in any of its
field lines) is never delivered without contacting the origin, in any history. -/
theorem star_never_hit (steps : List (Req × Resp)) (i j : Nat) (rj : Req) (respj : Resp)
    (h : (run steps).2[i]? = some (.hit j)) (hj : steps[j]? = some (rj, respj)) :
    star ∉ varyMembers respj.varyLines := by
  obtain ⟨_, ri, respi, rj', respj', _, hj', hc⟩ := hit_marks_equal steps i j h
  rw [hj] at hj'
  injection hj' with hj'
  injection hj' with h1 h2
  subst h1; subst h2
  intro hs
  rcases hc with hnil | ⟨_, _, hns⟩
  · rw [hnil] at hs
    simp [varyMembers, joinValues, items, itemsFuel, getItem, scan, rtrim] at hs
  · exact hns (makeMark_star hs)

/-- an internal marker object is never delivered -/
theorem marker_never_served (steps : List (Req × Resp)) : Obs.markerServed ∉ (run steps).2 :=
  runFrom_no_marker steps steps [] 0 (inv_empty steps) (fun k => by simp)

/-- one observation per request -/
theorem one_observation_per_request (steps : List (Req × Resp)) : (run steps).2.length = steps.length :=
  runFrom_length steps [] 0

/-- **The mark is injective on token-named lists.** If the members of two Vary fields are clean (non-empty, no `,` `=` `"`:
every RFC 9110 token is) and the marks rendered for two requests are equal and not `*`, then the two lists nominate the same
names in the same order (ignoring case) and the two requests have the same `combinedByName` value — including absent versus
present — for every nominated name. -/
theorem mark_injective_clean (l1 l2 : List Bytes) (h1 h2 : Hdrs)
    (hc1 : ∀ n ∈ varyMembers l1, Clean n) (hc2 : ∀ n ∈ varyMembers l2, Clean n)
    (heq : makeMark l1 h1 = makeMark l2 h2) (hns : makeMark l1 h1 ≠ star) :
    (varyMembers l1).map lower = (varyMembers l2).map lower ∧
    (∀ n ∈ varyMembers l1, combinedByName h1 n = combinedByName h2 n) ∧
    (∀ n ∈ varyMembers l2, combinedByName h1 n = combinedByName h2 n) := by
  have hs1 : star ∉ varyMembers l1 := fun hs => hns (makeMark_star hs)
  have hs2 : star ∉ varyMembers l2 := fun hs => hns (by rw [heq]; exact makeMark_star hs)
  rw [makeMark_nostar hs1, makeMark_nostar hs2] at heq
  apply pairsOf_eq
  apply markText_injective _ _ _ _ heq
  · intro p hp
    simp only [pairsOf, List.mem_map] at hp
    obtain ⟨n, hn, rfl⟩ := hp
    exact clean_lower (hc1 n hn)
  · intro p hp
    simp only [pairsOf, List.mem_map] at hp
    obtain ⟨n, hn, rfl⟩ := hp
    exact clean_lower (hc2 n hn)

/-- **Same list, any member names** (even malformed ones): two requests that get the same mark under one Vary field without
a `*` member agree on `combinedByName` for every member. -/
theorem mark_injective_same_list (l : List Bytes) (h1 h2 : Hdrs) (hs : star ∉ varyMembers l)
    (heq : makeMark l h1 = makeMark l h2) : ∀ n ∈ varyMembers l, combinedByName h1 n = combinedByName h2 n := by
  rw [makeMark_nostar hs, makeMark_nostar hs] at heq
  have := markText_same_names ((varyMembers l).map lower) (fun n => combinedByName h1 n) (fun n => combinedByName h2 n)
    (by simpa [pairsOf, List.map_map, Function.comp_def] using heq)
  intro n hn
  have h' := this (lower n) (List.mem_map.mpr ⟨n, hn, rfl⟩)
  simpa [combinedByName_lower] using h'

/-- **Served only to requests that match on the nominated headers** (the code's notion of a header's value, `combinedByName`).
In every history all of whose Vary fields have clean members: if request `i` is answered from the cache with the reply
stored for request `j`, then requests `i` and `j` have the same `combinedByName` value for every member of that reply's Vary. -/
theorem hit_nominated_headers_match (steps : List (Req × Resp))
    (hclean : ∀ p ∈ steps, ∀ n ∈ varyMembers p.2.varyLines, Clean n)
    (i j : Nat) (ri rj : Req) (respi respj : Resp)
    (h : (run steps).2[i]? = some (.hit j)) (hi : steps[i]? = some (ri, respi)) (hj : steps[j]? = some (rj, respj)) :
    ∀ n ∈ varyMembers respj.varyLines, combinedByName ri.hdrs n = combinedByName rj.hdrs n := by
  obtain ⟨_, ri', respi', rj', respj', hi', hj', hc⟩ := hit_marks_equal steps i j h
  rw [hi] at hi'; rw [hj] at hj'
  injection hi' with hi'; injection hi' with a1 a2
  injection hj' with hj'; injection hj' with b1 b2
  subst a1; subst a2; subst b1; subst b2
  rcases hc with hnil | ⟨⟨k, rk, respk, _, hk, hmk⟩, _, hns⟩
  · intro n hn
    rw [hnil] at hn
    simp [varyMembers, joinValues, items, itemsFuel, getItem, scan, rtrim] at hn
  · have hck := hclean (rk, respk) (List.mem_of_getElem? hk)
    have hcj := hclean (rj, respj) (List.mem_of_getElem? hj)
    exact (mark_injective_clean respk.varyLines respj.varyLines ri.hdrs rj.hdrs hck hcj hmk (by rw [hmk]; exact hns)).2.2

/-- The value the mark records for a name is the RFC 9110 5.3 combined field value of that name: absent = `none`, all field
lines joined with `", "` (empty lines before the first non-empty one contribute nothing), for every header, registered or not. -/
theorem combinedByName_eq_fieldValue (h : Hdrs) (n : Bytes) : combinedByName h n = fieldValue (valuesOf h n) :=
  joinValues_eq_fieldValue _

/-- What `HttpHeader::getByName` returns (still used elsewhere in Squid, and by the mark before /repo a1b669e): the combined
field value only for names that are not registered non-list headers. -/
theorem getByName_eq_fieldValue (h : Hdrs) (n : Bytes) (hk : kindOf (lower n) ≠ .single) :
    getByName h n = fieldValue (valuesOf h n) := by
  unfold getByName
  split
  · rename_i hs; exact absurd hs hk
  · exact joinValues_eq_fieldValue _

/-- **The property.** In every history (any length, any requests, any origin answers) all of whose Vary fields have clean
members: a reply served from the cache without contacting the origin has no `*` in its Vary and was stored for a request with
the same combined field value — absent versus present included, every field line counted — for every header its Vary
nominates. (The `Clean` hypothesis excludes exactly the malformed members of `nontoken_member_counterexample`.) -/
theorem served_only_to_matching_requests (steps : List (Req × Resp))
    (hclean : ∀ p ∈ steps, ∀ n ∈ varyMembers p.2.varyLines, Clean n)
    (i j : Nat) (ri rj : Req) (respi respj : Resp)
    (h : (run steps).2[i]? = some (.hit j)) (hi : steps[i]? = some (ri, respi)) (hj : steps[j]? = some (rj, respj)) :
    star ∉ varyMembers respj.varyLines ∧
    ∀ n ∈ varyMembers respj.varyLines, fieldValue (valuesOf ri.hdrs n) = fieldValue (valuesOf rj.hdrs n) := by
  refine ⟨star_never_hit steps i j rj respj h hj, ?_⟩
  intro n hn
  rw [← combinedByName_eq_fieldValue ri.hdrs n, ← combinedByName_eq_fieldValue rj.hdrs n]
  exact hit_nominated_headers_match steps hclean i j ri rj respi respj h hi hj n hn

/-! ### the remaining excluded region, and regression theorems for the two fixed ones (witnesses in corpus/C13) -/

/-- The reply stored with `Vary: x-a, x-b` for `X-A: y` is served to a request without `X-A`, after the origin switched to the
malformed `Vary: x-a="y", x-b` (the marker object now renders `x-a="y", x-b` for a request with neither header, which is
the mark of the old variant). Confirmed on the rebuilt binary. -/
theorem nontoken_member_counterexample :
    (run [({ hdrs := [([88, 45, 65], [121])], noCache := false }, { varyLines := [[120, 45, 97, 44, 32, 120, 45, 98]], hasValidator := false }), ({ hdrs := [([88, 45, 66], [49])], noCache := false }, { varyLines := [[120, 45, 97, 61, 34, 121, 34, 44, 32, 120, 45, 98]], hasValidator := false }), ({ hdrs := [], noCache := false }, { varyLines := [[120, 45, 97, 61, 34, 121, 34, 44, 32, 120, 45, 98]], hasValidator := false })]).2 = [.origin, .origin, .hit 0] ∧
    fieldValue (valuesOf [([88, 45, 65], [121])] [120, 45, 97]) ≠ fieldValue (valuesOf [] [120, 45, 97]) := by
  decide +kernel

/-- Regression (was a counterexample before /repo a1b669e): `Vary: cookie`; `Cookie: a` + `Cookie: b` and `Cookie: a` +
`Cookie: c` get different marks, the second request goes to the origin. -/
theorem nonlist_field_lines_all_count :
    (run [({ hdrs := [([67, 111, 111, 107, 105, 101], [97]), ([67, 111, 111, 107, 105, 101], [98])], noCache := false }, { varyLines := [[99, 111, 111, 107, 105, 101]], hasValidator := false }), ({ hdrs := [([67, 111, 111, 107, 105, 101], [97]), ([67, 111, 111, 107, 105, 101], [99])], noCache := false }, { varyLines := [[99, 111, 111, 107, 105, 101]], hasValidator := false })]).2 = [.origin, .origin] ∧
    makeMark [[99, 111, 111, 107, 105, 101]] [([67, 111, 111, 107, 105, 101], [97]), ([67, 111, 111, 107, 105, 101], [98])] ≠ makeMark [[99, 111, 111, 107, 105, 101]] [([67, 111, 111, 107, 105, 101], [97]), ([67, 111, 111, 107, 105, 101], [99])] := by
  decide +kernel

/-- Regression (was a counterexample before /repo a1b669e): `Vary: user-agent`; an empty `User-Agent:` and no User-Agent
get different marks. -/
theorem nonlist_empty_differs_from_absent :
    (run [({ hdrs := [([85, 115, 101, 114, 45, 65, 103, 101, 110, 116], [])], noCache := false }, { varyLines := [[117, 115, 101, 114, 45, 97, 103, 101, 110, 116]], hasValidator := false }), ({ hdrs := [], noCache := false }, { varyLines := [[117, 115, 101, 114, 45, 97, 103, 101, 110, 116]], hasValidator := false })]).2 = [.origin, .origin] ∧
    makeMark [[117, 115, 101, 114, 45, 97, 103, 101, 110, 116]] [([85, 115, 101, 114, 45, 65, 103, 101, 110, 116], [])] ≠ makeMark [[117, 115, 101, 114, 45, 97, 103, 101, 110, 116]] [] := by
  decide +kernel

/-- Regression (was a counterexample before /repo 43aac5c): `Vary: x-a, <VT>, x-b` nominates both names; the reply stored for
`X-B: a` is not served to `X-B: b`. -/
theorem vt_element_does_not_end_list :
    varyMembers [[120, 45, 97, 44, 32, 11, 44, 32, 120, 45, 98]] = [[120, 45, 97], [120, 45, 98]] ∧
    (run [({ hdrs := [([88, 45, 65], [97]), ([88, 45, 66], [97])], noCache := false }, { varyLines := [[120, 45, 97, 44, 32, 11, 44, 32, 120, 45, 98]], hasValidator := false }), ({ hdrs := [([88, 45, 65], [97]), ([88, 45, 66], [98])], noCache := false }, { varyLines := [[120, 45, 97, 44, 32, 11, 44, 32, 120, 45, 98]], hasValidator := false })]).2 = [.origin, .origin] := by
  decide +kernel

/-! ### non-vacuity -/

-- the hypothesis of `served_only_to_matching_requests` holds for ordinary fields (here also: neither is a registered non-list header)
example : ∀ n ∈ varyMembers [[65, 99, 99, 101, 112, 116, 45, 69, 110, 99, 111, 100, 105, 110, 103, 44, 32, 120, 45, 100, 101, 118, 105, 99, 101]], Clean n ∧ kindOf (lower n) ≠ .single := by
  intro n hn
  have hall : (varyMembers [[65, 99, 99, 101, 112, 116, 45, 69, 110, 99, 111, 100, 105, 110, 103, 44, 32, 120, 45, 100, 101, 118, 105, 99, 101]]).all (fun n => cleanB n && decide (kindOf (lower n) ≠ .single)) = true := by decide +kernel
  have := List.all_eq_true.mp hall n hn
  simp only [Bool.and_eq_true, decide_eq_true_eq] at this
  exact ⟨clean_of_cleanB this.1, this.2⟩
-- hits happen, misses happen, and a different value is a miss
example : (run [({ hdrs := [([65, 99, 99, 101, 112, 116, 45, 69, 110, 99, 111, 100, 105, 110, 103], [103, 122, 105, 112])], noCache := false }, { varyLines := [[65, 99, 99, 101, 112, 116, 45, 69, 110, 99, 111, 100, 105, 110, 103]], hasValidator := false }), ({ hdrs := [([65, 99, 99, 101, 112, 116, 45, 69, 110, 99, 111, 100, 105, 110, 103], [103, 122, 105, 112])], noCache := false }, { varyLines := [[65, 99, 99, 101, 112, 116, 45, 69, 110, 99, 111, 100, 105, 110, 103]], hasValidator := false }), ({ hdrs := [([65, 99, 99, 101, 112, 116, 45, 69, 110, 99, 111, 100, 105, 110, 103], [98, 114])], noCache := false }, { varyLines := [[97, 99, 99, 101, 112, 116, 45, 101, 110, 99, 111, 100, 105, 110, 103]], hasValidator := false }), ({ hdrs := [([65, 99, 99, 101, 112, 116, 45, 69, 110, 99, 111, 100, 105, 110, 103], [103, 122, 105, 112])], noCache := false }, { varyLines := [[65, 99, 99, 101, 112, 116, 45, 69, 110, 99, 111, 100, 105, 110, 103]], hasValidator := false })]).2 = [.origin, .hit 0, .origin, .hit 0] := by decide +kernel
-- `Vary: *` (here inside a list): every request goes to the origin
example : (run [({ hdrs := [], noCache := false }, { varyLines := [[120, 45, 97, 44, 32, 42]], hasValidator := true }), ({ hdrs := [], noCache := false }, { varyLines := [[120, 45, 97, 44, 32, 42]], hasValidator := true }), ({ hdrs := [], noCache := false }, { varyLines := [[120, 45, 97, 44, 32, 42]], hasValidator := true })]).2 = [.origin, .origin, .origin] := by decide +kernel
-- `Vary: *` with a validator and an origin that answers 304: the stored body is delivered, but only after asking the origin
example : (run [(⟨[], false⟩, ⟨[[42]], true, true⟩), (⟨[], false⟩, ⟨[[42]], true, true⟩)]).2 = [.origin, .revalidated 0] := by decide +kernel
-- the mark itself: names lower-cased, values escaped and quoted, absent names bare
example : makeMark [[88, 45, 65, 44, 32, 70, 111, 111]] [([88, 45, 65], [97, 32, 34, 98, 34, 37])] = [120, 45, 97, 61, 34, 97, 37, 50, 48, 37, 50, 50, 98, 37, 50, 50, 37, 50, 53, 34, 44, 32, 102, 111, 111] := by decide +kernel
example : makeMark [[102, 111, 111, 44, 32, 42]] [] = star := by decide +kernel
-- absent and present-but-empty are told apart (for every header since a1b669e)
example : combinedByName [([85, 115, 101, 114, 45, 65, 103, 101, 110, 116], [])] [117, 115, 101, 114, 45, 97, 103, 101, 110, 116] = some [] ∧ combinedByName [([88, 45, 65], [])] [120, 45, 97] = some [] ∧ combinedByName [] [120, 45, 97] = none := by decide +kernel
example : getByName [([88, 45, 65], [])] [120, 45, 97] = some [] ∧ getByName [] [120, 45, 97] = none := by decide +kernel
-- a clean name; an unclean one
example : Clean [120, 45, 97] := clean_of_cleanB (by decide)
example : ¬ Clean [120, 45, 97, 61, 34, 121, 34] := fun h => by have := h.2 61 (by decide); simp at this

end SquidModel.C13
