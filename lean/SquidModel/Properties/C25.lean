/-
C25 — Header blocks are parsed into exactly their fields.

  "For any header block that Squid accepts, the stored fields are exactly the block's name/value pairs in order, with
   surrounding whitespace removed and obs-fold joined. Packing the stored fields and re-parsing them yields the same
   fields. Blocks with NUL bytes, whitespace before the colon, or obs-fold or bare CR in Content-Length or
   Transfer-Encoding are rejected, and a request line consisting only of CRs is never accepted."

Model: `SquidModel.Header.parseHeader` / `rawEntries` (= `HttpHeader::parse` with `HttpHeaderEntry::parse`), `pack`
(= `packInto`), `grabMime` (= `Http::One::Parser::grabMimeBlock`: `headersEnd`, `cleanMimePrefix`, `unfoldMime`).
Specification: `SquidModel.Header.WireSpec` (`FieldSyn`, `WF`, `entryOf`, `Stored`).
`rawEntries` are the stored fields before the Content-Length decision of C26 (`parseHeader_eq` ties the two).

On the HTTP/1 parser path two clauses are FALSE of the real code (see the `_counterexample` theorems): obs-folds are replaced
by SP before `HttpHeader::parse` looks at the framing fields, and a CR-only line followed by a line that starts with SP/HT is
swallowed by `unfoldMime`. The rejection theorems below are therefore about `HttpHeader::parse` itself.
-/
import SquidModel.Header.RoundtripLemmas
import SquidModel.Header.MimeLemmas
import SquidModel.Header.BareCr

namespace SquidModel.C25
open SquidModel SquidModel.Header

/-- **Exactly the fields, in order.** Every block made of well-formed field lines — any token as name (registered names in any
letter case), optional whitespace around the value (and before the colon where that is tolerated), CRLF or bare LF line ends,
with or without the final empty line — is accepted by the field scan, and the stored entries are exactly the name/value pairs
of its lines, in order: registered names in canonical spelling, other names as written, values without the surrounding
whitespace. (For all field lists, of any length.) -/
theorem accepted_fields_exact (cfg : Cfg) (fs : List FieldSyn) (t : Bytes) (hw : ∀ f ∈ fs, WF cfg f) (ht : isTerminator t) :
    rawEntries cfg (fs.flatMap FieldSyn.wire ++ t) = some (fs.map entryOf) :=
  rawEntries_wellformed cfg fs t hw ht

/-- … and `HttpHeader::parse` as a whole returns exactly these entries when none of them is a framing field
(Content-Length / Transfer-Encoding are the subject of C26). -/
theorem accepted_block_stored_exactly (cfg : Cfg) (fs : List FieldSyn) (t : Bytes) (hw : ∀ f ∈ fs, WF cfg f)
    (ht : isTerminator t) (hnf : ∀ f ∈ fs, isFraming (entryOf f).id = false) :
    parseHeader cfg (fs.flatMap FieldSyn.wire ++ t) = .ok ⟨fs.map entryOf, false, false⟩ := by
  rw [parseHeader_eq, rawEntries_wellformed cfg fs t hw ht]
  simp only []
  have hnocl : ∀ e ∈ fs.map entryOf, (e.id == idContentLength) = false ∧ (e.id == idTransferEncoding) = false := by
    intro e he
    obtain ⟨f, hf, rfl⟩ := List.mem_map.mp he
    have := hnf f hf
    simpa [isFraming] using this
  have hfold : ∀ (raw es : List Entry) (cl : ClState), (∀ e ∈ raw, (e.id == idContentLength) = false) →
      clFold cfg.relaxed es cl raw = some (es ++ raw, cl) := by
    intro raw
    induction raw with
    | nil => intro es cl _; simp [clFold]
    | cons e raw ih =>
      intro es cl h
      rw [clFold_cons_eq]
      simp only [h e (by simp), Bool.false_eq_true, if_false]
      rw [ih (es ++ [e]) cl (fun x hx => h x (by simp [hx]))]
      simp
  rw [hfold _ [] {} (fun e he => (hnocl e he).1)]
  simp only [List.nil_append]
  have hdel : ∀ (es : List Entry) (id : Nat), (∀ e ∈ es, (e.id == id) = false) → delById es id = es := by
    intro es id h
    unfold delById
    apply List.filter_eq_self.mpr
    intro e he
    simp [bne, h e he]
  have hany : (fs.map entryOf).any (fun e => e.id == idTransferEncoding) = false := by
    simp only [List.any_eq_false]
    intro e he
    simp [(hnocl e he).2]
  unfold finish
  by_cases hp : cfg.prohibited = true
  · simp only [hp, if_true]
    rw [hdel _ idContentLength (fun e he => (hnocl e he).1), hdel _ idTransferEncoding (fun e he => (hnocl e he).2)]
  · simp [hp, hany]

/-- FULL STATEMENT (not proved): the same without `hline`, i.e. including stored values that span lines (a direct caller of
`HttpHeader::parse` keeps obs-folds inside the value; behind the HTTP/1 parsers folds are unfolded first and `hline` always holds
except in the region of finding C25-cr-line-unfolded).

**Packing and re-parsing.** After a successful `HttpHeader::parse` whose stored values do not contain CR or LF, parsing what `packInto`
writes for the stored entries succeeds and stores exactly the same entries again (same ids, names, values, order), and reports the
same `unsupportedTe()`. This includes the Content-Length entry re-written by the sanitiser. -/
theorem pack_parse_roundtrip_partial (cfg : Cfg) (block : Bytes) (r : HdrResult) (h : parseHeader cfg block = .ok r)
    (hline : ∀ e ∈ r.entries, (10 : UInt8) ∉ e.value ∧ (13 : UInt8) ∉ e.value) :
    ∃ r', parseHeader cfg (pack r.entries) = .ok r' ∧ r'.entries = r.entries ∧ r'.teUnsupported = r.teUnsupported :=
  parse_pack_roundtrip cfg block r h hline

/-- the same for the field scan alone (before the Content-Length decision) -/
theorem scan_pack_roundtrip_partial (cfg : Cfg) (block : Bytes) (raw : List Entry) (h : rawEntries cfg block = some raw)
    (hline : ∀ e ∈ raw, (10 : UInt8) ∉ e.value ∧ (13 : UInt8) ∉ e.value) :
    rawEntries cfg (pack raw) = some raw :=
  rawEntries_pack cfg raw (fun e he => rawEntries_stored cfg block raw h e he (hline e he))

/-- every stored entry of an accepted block satisfies the stored-entry invariant: token name (canonical if registered) consistent
with its id, trimmed value without NUL, both within the 64 KB String limit -/
theorem stored_entries_invariant (cfg : Cfg) (block : Bytes) (raw : List Entry) (h : rawEntries cfg block = some raw) :
    ∀ e ∈ raw, (10 : UInt8) ∉ e.value ∧ (13 : UInt8) ∉ e.value → Stored e :=
  rawEntries_stored cfg block raw h

/-- `packInto` writes each entry as name, colon, SP, value, CRLF -/
theorem pack_form (es : List Entry) : pack es = es.flatMap (fun e => e.name ++ [58, 32] ++ e.value ++ [13, 10]) := rfl

/-! ### rejections (HttpHeader::parse itself) -/

/-- NUL bytes -/
theorem nul_rejected (cfg : Cfg) (block : Bytes) (h : (0 : UInt8) ∈ block) : parseHeader cfg block = .reject :=
  Header.nul_rejected cfg block h

/-- whitespace before the colon, in a request: after any well-formed fields, whatever follows -/
theorem ws_before_colon_rejected (cfg : Cfg) (ho : cfg.owner = Owner.request) (fs : List FieldSyn) (g : FieldSyn)
    (rest : Bytes) (hw : ∀ f ∈ fs, WF cfg f) (hg : WF ⟨cfg.relaxed, Owner.reply, cfg.prohibited⟩ g) (hb : g.bws ≠ []) :
    parseHeader cfg (fs.flatMap FieldSyn.wire ++ g.line ++ 10 :: rest) = .reject :=
  ws_before_colon_request_rejected cfg ho fs g rest hw hg hb

/-- obs-fold in Content-Length or Transfer-Encoding -/
theorem framing_fold_rejected (cfg : Cfg) (fs : List FieldSyn) (f : FieldSyn) (cont rest : Bytes)
    (hw : ∀ g ∈ fs, WF cfg g) (wf : WF cfg f) (hfr : isFraming (entryOf f).id = true)
    (hc : startsWsp cont = true) (hc10 : (10 : UInt8) ∉ cont) :
    parseHeader cfg (fs.flatMap FieldSyn.wire ++ f.line ++ 10 :: (cont ++ 10 :: rest)) = .reject :=
  Header.framing_fold_rejected cfg fs f cont rest hw wf hfr hc hc10

/-- bare CR in Content-Length or Transfer-Encoding with the relaxed parser (which rewrites bare CRs in other fields to SP):
a framing-field line whose value has a CR followed by at least one more byte is never accepted -/
theorem framing_bare_cr_rejected (cfg : Cfg) (fs : List FieldSyn) (name a : Bytes) (c : UInt8) (b rest : Bytes)
    (hw : ∀ f ∈ fs, WF cfg f) (wn : WF cfg (nameOnly name)) (hfr : isFraming (idOfName name) = true)
    (h10 : (10 : UInt8) ∉ a ++ 13 :: c :: b) :
    parseHeader cfg (fs.flatMap FieldSyn.wire ++ (name ++ 58 :: (a ++ 13 :: c :: b)) ++ 10 :: rest) = .reject :=
  bare_cr_framing_rejected cfg fs name a c b rest hw wn hfr h10

/-- bare CR anywhere, with the strict parser -/
theorem bare_cr_strict_rejected (cfg : Cfg) (hs : cfg.relaxed = false) (fs : List FieldSyn) (a : Bytes) (c : UInt8) (b rest : Bytes)
    (hw : ∀ f ∈ fs, WF cfg f) (h10 : (10 : UInt8) ∉ a ++ 13 :: c :: b) (hst : startsWsp (a ++ 13 :: c :: b) = false) :
    parseHeader cfg (fs.flatMap FieldSyn.wire ++ (a ++ 13 :: c :: b) ++ 10 :: rest) = .reject :=
  Header.bare_cr_strict_rejected cfg hs fs a c b rest hw h10 hst

/-- a request line that consists of CRs only -/
theorem cr_only_line_rejected (cfg : Cfg) (ho : cfg.owner = Owner.request) (fs : List FieldSyn) (crs rest : Bytes)
    (hw : ∀ f ∈ fs, WF cfg f) (hne : crs ≠ []) (hcr : crs.all (· == 13) = true) :
    parseHeader cfg (fs.flatMap FieldSyn.wire ++ (crs ++ [13]) ++ 10 :: rest) = .reject :=
  Header.cr_only_line_rejected cfg ho fs crs rest hw hne hcr

/-! ### the HTTP/1 parser path -/

/-- **obs-fold joined.** `unfoldMime` turns a line that is continued by an obs-fold (CR* LF, then one or more SP/HT) into one
line with a single SP in place of the fold. -/
theorem obs_fold_joined (text crs ws cont : Bytes) (ht : text.all nonCrLf = true) (hcr : crs.all (· == 13) = true)
    (hws : ws ≠ []) (hw : ws.all isWsp = true) (hc : cont.all nonCrLf = true)
    (hch : ∀ c, cont.head? = some c → isWsp c = false) :
    unfoldMime (text ++ crs ++ 10 :: (ws ++ (cont ++ [13, 10]))) = text ++ [32] ++ cont ++ [13, 10] :=
  unfoldMime_joins text crs ws cont ht hcr hws hw hc hch

/-- `Content-Length:<CR><LF><SP>5<CR><LF><CR><LF>` through `grabMimeBlock`: the fold is gone before `HttpHeader::parse` runs, and the
request is accepted with length 5 — although `HttpHeader::parse` rejects the same bytes (finding C25-fold-framing-unfolded). -/
theorem fold_framing_unfolded_counterexample :
    (grabMime [67,111,110,116,101,110,116,45,76,101,110,103,116,104,58, 13,10, 32, 53, 13,10, 13,10]).map (parseHeader ⟨false, .request, false⟩)
      = some (.ok ⟨[⟨idContentLength, nameOf idContentLength, [53]⟩], false, false⟩) ∧
    parseHeader ⟨false, .request, false⟩ [67,111,110,116,101,110,116,45,76,101,110,103,116,104,58, 13,10, 32, 53, 13,10, 13,10] = .reject := by
  refine ⟨by decide +kernel, by decide +kernel⟩

/-- `A: b<CRLF><CR><CR><LF><SP>c<CRLF><CRLF>` through `grabMimeBlock`: the CR-only line vanishes, the request is accepted, and the
stored value keeps a raw CR LF SP — `HttpHeader::parse` rejects the same bytes (finding C25-cr-line-unfolded). -/
theorem cr_line_unfolded_counterexample :
    (grabMime [65,58,32,98, 13,10, 13,13,10, 32,99, 13,10, 13,10]).map (parseHeader ⟨false, .request, false⟩)
      = some (.ok ⟨[⟨idOther, [65], [98, 13, 10, 32, 99]⟩], false, false⟩) ∧
    parseHeader ⟨false, .request, false⟩ [65,58,32,98, 13,10, 13,13,10, 32,99, 13,10, 13,10] = .reject := by
  refine ⟨by decide +kernel, by decide +kernel⟩

/-! ### non-vacuity -/

/-- a well-formed reply line with whitespace before the colon and a registered name in odd case -/
example : WF ⟨false, .reply, false⟩ ⟨[104,79,115,116], [32], [32,9], [97,32,98], [9], false⟩ :=
  { name_ne := by decide, name_tchar := by decide +kernel, name_len := by decide, bws_ws := by decide,
    bws_ok := Or.inr (Or.inl rfl), lead_ws := by decide, trail_ws := by decide,
    value_clean := by decide, value_head := by decide, value_last := by decide, value_len := by decide }
/-- … which denotes `Host: a b` -/
example : entryOf ⟨[104,79,115,116], [32], [32,9], [97,32,98], [9], false⟩ = ⟨Gen.HeaderRegistry.Id.HOST, [72,111,115,116], [97,32,98]⟩ := by
  decide +kernel
/-- the recognisers reject what they should: a name with a space is not well-formed, `Stored` fails for a value with a trailing space -/
example : ¬ (([104,32,116] : Bytes).all Gen.CharSets.TCHAR.mem = true) := by decide +kernel
example : ¬ Stored ⟨idOther, [65], [97, 32]⟩ := fun h => absurd (h.value_last 32 rfl) (by decide)
/-- `Content-Length` and `transfer-ENCODING` are framing names, and a bare name is a (degenerate) well-formed line -/
example : isFraming (idOfName [116,114,97,110,115,102,101,114,45,69,78,67,79,68,73,78,71]) = true := by decide +kernel
example : WF ⟨true, .request, false⟩ (nameOnly [67,111,110,116,101,110,116,45,76,101,110,103,116,104]) :=
  { name_ne := by decide, name_tchar := by decide +kernel, name_len := by decide, bws_ws := by decide,
    bws_ok := Or.inl rfl, lead_ws := by decide, trail_ws := by decide,
    value_clean := by decide, value_head := by decide, value_last := by decide, value_len := by decide }
/-- an accepted folded field keeps the raw fold when `HttpHeader::parse` is called directly -/
example : parseHeader ⟨true, .reply, false⟩ [65,58,32,98, 13,10, 32,99, 13,10]
    = .ok ⟨[⟨idOther, [65], [98, 13, 10, 32, 99]⟩], false, false⟩ := by decide +kernel

end SquidModel.C25
