/-
C05 — Pipelined responses are delivered in request order, one per request (partial: the pipeline state machine; upstream
completions are arbitrary events in any order; the binary is tied to the model end to end).
-/
import SquidModel.Pipeline.Lemmas

namespace SquidModel.C05
open SquidModel.Pipeline

/-- Whatever the order in which upstream replies become ready and whenever the connection parses more requests, the
responses written to the client are, in order, a prefix of the requests in the order they arrived. -/
theorem responses_in_request_order (limit : Nat) (arrivals : List Nat) (evs : List Ev) :
    (run (St.init limit arrivals) evs).written <+: arrivals := by
  have h := run_order (St.init limit arrivals) evs
  have h0 : order (St.init limit arrivals) = arrivals := by simp [order, St.init]
  rw [h0] at h
  exact ⟨_, by rw [← List.append_assoc]; exact h⟩

/-- No request is answered twice (and none out of thin air): the written ids are duplicate-free when the request ids are. -/
theorem one_response_per_request (limit : Nat) (arrivals : List Nat) (evs : List Ev) (hn : arrivals.Nodup) :
    (run (St.init limit arrivals) evs).written.Nodup :=
  List.Nodup.sublist (responses_in_request_order limit arrivals evs).sublist hn

/-- The k-th response belongs to the k-th request. -/
theorem kth_response_is_kth_request (limit : Nat) (arrivals : List Nat) (evs : List Ev) (k : Nat)
    (hk : k < (run (St.init limit arrivals) evs).written.length) :
    (run (St.init limit arrivals) evs).written[k]? = arrivals[k]? := by
  obtain ⟨t, ht⟩ := responses_in_request_order limit arrivals evs
  have : arrivals[k]? = ((run (St.init limit arrivals) evs).written ++ t)[k]? := by rw [ht]
  rw [this, List.getElem?_append_left hk]

/-- Never more than `pipeline_prefetch + 1` requests are being processed concurrently. -/
theorem queue_bounded (limit : Nat) (arrivals : List Nat) (evs : List Ev) :
    (run (St.init limit arrivals) evs).queue.length ≤ limit ∧ (run (St.init limit arrivals) evs).limit = limit := by
  suffices h : ∀ s : St, s.queue.length ≤ s.limit → (run s evs).queue.length ≤ s.limit ∧ (run s evs).limit = s.limit by
    simpa [St.init] using h (St.init limit arrivals) (by simp [St.init])
  induction evs with
  | nil => intro s h; exact ⟨h, rfl⟩
  | cons e rest ih =>
    intro s h
    simp only [run, List.foldl_cons]
    have hs : (step s e).queue.length ≤ s.limit ∧ (step s e).limit = s.limit := by
      cases e with
      | parse => exact admitReqs_queue_le _ _ h
      | complete r =>
        simp only [step]
        split
        · split
          · rename_i f rest' hq
            split
            · have h1 : (drain rest'.length { s with queue := rest', written := s.written ++ [r] }).queue.length ≤ s.limit := by
                have := drain_queue_le rest'.length { s with queue := rest', written := s.written ++ [r] }
                simp only [hq, List.length_cons] at h this ⊢; omega
              have h2 := drain_limit rest'.length { s with queue := rest', written := s.written ++ [r] }
              have := admitReqs_queue_le (drain rest'.length { s with queue := rest', written := s.written ++ [r] }).waiting.length _ (by rw [h2]; exact h1)
              rw [h2] at this
              exact this
            · exact ⟨h, rfl⟩
          · exact ⟨h, rfl⟩
        · exact ⟨h, rfl⟩
    have := ih (step s e) (by rw [hs.2]; exact hs.1)
    rw [hs.2] at this
    exact this

/-- No request is lost or left unanswered: once the connection has parsed (first event) and whenever the pipeline is idle
(nothing in progress), every request that arrived has been answered, in order — for every order of completions. -/
theorem idle_means_all_answered (limit : Nat) (hl : 0 < limit) (arrivals : List Nat) (evs : List Ev)
    (hidle : (run (St.init limit arrivals) (.parse :: evs)).queue = []) :
    (run (St.init limit arrivals) (.parse :: evs)).written = arrivals := by
  have hsat : Saturated (run (St.init limit arrivals) (.parse :: evs)) := by
    simp only [run, List.foldl_cons]
    exact run_saturated _ evs (admitReqs_saturated _)
  have hlim := (queue_bounded limit arrivals (.parse :: evs)).2
  have hw : (run (St.init limit arrivals) (.parse :: evs)).waiting = [] := by
    by_cases h : (run (St.init limit arrivals) (.parse :: evs)).waiting = []
    · exact h
    · have := hsat h
      rw [hlim, hidle] at this
      simp at this; omega
  have ho := run_order (St.init limit arrivals) (.parse :: evs)
  simp only [order, hidle, hw, List.append_nil] at ho
  simpa [order, St.init] using ho

-- non-vacuity / liveness on concrete histories: replies ready in reverse order are still delivered in request order
example : (run (St.init 4 [1, 2, 3]) [.parse, .complete 3, .complete 2, .complete 1]).written = [1, 2, 3] := by decide
-- with pipeline_prefetch 0 (limit 1) the second request is parsed only after the first was answered
example : (run (St.init 1 [1, 2]) [.parse, .complete 2, .complete 1, .complete 2]).written = [1, 2] := by decide
example : (run (St.init 1 [1, 2]) [.parse, .complete 2]).written = [] := by decide

end SquidModel.C05
