/-
C41 — Domain-name ACLs match exactly the configured domain sets.

Property theorems only.  Model: `SquidModel.Acl.Domain` (matchDomainName, Compare/IsSubset, Merge, parse, match) over the splay
tree of `SquidModel.Acl.Tree` (include/splay.h); lemmas: Acl/DomainKey, DomainOrder, DomainSets, DomainTreeLemmas, DomainMerge.
All statements are for arbitrary byte strings and lists, without any size bound.

Full statement (FALSE of the real code, see the `_counterexample` theorems):
    for every list `vals` of non-empty values, every earlier lookup sequence and every host,
    parse succeeds and match(host) = true ↔ ∃ v ∈ vals, Matches v host.
Proved: the same under `Wf v` for every value — the value does not begin with two dots (the single dot `.` is covered).
(The counterexamples are stated for the tree as it is: `rejectsMultiDot = false` is probed by running the
staged code; a tree with the candidate fix refuses such values instead.)  Excluded region: exactly the values that begin with two dots (genuine
defects: lost values, use-after-free / endless loop in Merge, missed matches).
-/
import SquidModel.Acl.DomainMerge

namespace SquidModel.C41
open SquidModel SquidModel.Acl SquidModel.Acl.Domain

/-- matchDomainName is a three-way comparison of the host's key with the value's key interval, for every host (also the
empty one) and every non-empty value: negative below `lo`, 0 inside `[lo, hi)`, positive from `hi` on. -/
theorem mdn_three_way (h d : Bytes) (hd : d ≠ []) :
    (mdn mdnNone h d < 0 ↔ hostKey h < lo d) ∧
    (mdn mdnNone h d = 0 ↔ (¬ hostKey h < lo d ∧ hostKey h < hi d)) ∧
    (mdn mdnNone h d > 0 ↔ ¬ hostKey h < hi d) :=
  ⟨mdn_neg_iff h d hd, mdn_zero_iff h d hd, mdn_pos_iff h d hd⟩

/-- `matchDomainName(host, value) == 0` exactly when the value matches the host in the property's sense — for every host and
every non-empty value, well-formed or not. -/
theorem mdn_zero_iff_matches (h d : Bytes) (hd : d ≠ []) : mdn mdnNone h d = 0 ↔ Matches d h :=
  (mdn_zero_iff h d hd).trans (in_iff_matches d h hd)

/-- `Compare` orders well-formed values by their intervals and returns 0 exactly for overlapping ones. -/
theorem compare_spec (a b : Bytes) (ha : Valid a) (hb : Valid b) :
    (Domain.compare a b < 0 ↔ ¬ lo b < hi a) ∧ (Domain.compare a b = 0 ↔ (lo b < hi a ∧ lo a < hi b)) ∧
      (Domain.compare a b > 0 ↔ ¬ lo a < hi b) :=
  ⟨compare_neg_iff ha hb, compare_zero_iff ha hb, compare_pos_iff ha hb⟩

/-- Overlapping well-formed values are nested and `IsSubset` tells the direction; `MakeCombinedValue` is never needed. -/
theorem overlap_is_nesting (n o : Bytes) (hn : Valid n) (ho : Valid o) (h0 : Domain.compare n o = 0) :
    (isSubset n o = true ∧ ∀ k, In k n → In k o) ∨ (isSubset n o = false ∧ isSubset o n = true ∧ ∀ k, In k o → In k n) := by
  rcases subset_spec hn.ne_nil ho.ne_nil ((compare_zero_iff hn ho).mp h0) with ⟨h1, h2, h3⟩ | ⟨h1, h2, h3, h4⟩
  · exact Or.inl ⟨h1, fun k hk => hk.mono h2 h3⟩
  · exact Or.inr ⟨h1, h2, fun k hk => hk.mono h3 h4⟩

/-- The splay step under any comparison callback keeps the left-to-right sequence of stored values. -/
theorem splay_inorder_preserved {α : Type} (cmp : α → Int) (t : Tree α) :
    Tree.inorder (Tree.find cmp t).1 = Tree.inorder t :=
  Tree.inorder_find cmp t

/-- `ACLDomainData::parse` accepts every list of non-empty values that do not begin with two dots: Merge terminates, never reaches the `Assure` of
MakeCombinedValue and never removes a value it cannot find. -/
theorem parse_ok (vals : List Bytes) (hv : ∀ v ∈ vals, Wf v) : ∃ t ev, parse vals = .ok t ev := by
  obtain ⟨t, ev, h, _⟩ := parse_spec vals hv
  exact ⟨t, ev, h⟩

/-- After parse the stored values are increasing and pairwise disjoint (except that a repeated `.` is stored repeatedly), none
begins with two dots, and they cover exactly the keys covered by the configured values. -/
theorem parse_invariant (vals : List Bytes) (hv : ∀ v ∈ vals, Wf v) :
    ∃ t ev, parse vals = .ok t ev ∧ (Tree.inorder t).Pairwise Before' ∧ (∀ s ∈ Tree.inorder t, Wf s) ∧
      ∀ k, (∃ s ∈ Tree.inorder t, In k s) ↔ (∃ v ∈ vals, In k v) := by
  obtain ⟨t, ev, h, hh⟩ := parse_spec vals hv
  exact ⟨t, ev, h, hh.1.1, hh.1.2, hh.2⟩

/-- **C41 (partial: values with two leading dots excluded).**  For every list of non-empty values none of which begins with two
dots — any order, duplicates, overlaps — parse succeeds, and after any sequence of earlier lookups (each of which splays the tree)
`match(host)` is true exactly when some configured value matches the host. -/
theorem match_iff_partial (vals : List Bytes) (hv : ∀ v ∈ vals, Wf v) :
    ∃ t ev, parse vals = .ok t ev ∧
      ∀ (earlier : List Bytes) (host : Bytes),
        (matchHost (matchAll t earlier []).1 host).2 = true ↔ ∃ v ∈ vals, Matches v host := by
  obtain ⟨t, ev, h, hh⟩ := parse_spec vals hv
  refine ⟨t, ev, h, fun earlier host => ?_⟩
  have hne := wf_all_ne_nil hv
  exact (matchHost_spec vals hne _ (matchAll_fst_holds vals hne earlier t [] hh) host).2

/-- The verdict does not depend on the shape of the tree: any binary tree holding the same left-to-right sequence of values as
the one parse built (whatever rotations happened in between) answers every host correctly. -/
theorem match_any_shape (vals : List Bytes) (hv : ∀ v ∈ vals, Wf v) (t0 t : Tree Bytes) (ev : List Event)
    (hp : parse vals = .ok t0 ev) (hshape : Tree.inorder t = Tree.inorder t0) (host : Bytes) :
    (matchHost t host).2 = true ↔ ∃ v ∈ vals, Matches v host := by
  obtain ⟨t1, ev1, h, hh⟩ := parse_spec vals hv
  rw [hp] at h
  injection h with h1 _
  subst h1
  exact (matchHost_spec vals (wf_all_ne_nil hv) t (hh.of_inorder_eq hshape) host).2

/-- The verdicts do not depend on the order of the values or on repetitions. -/
theorem match_order_irrelevant (vals vals' : List Bytes) (hv : ∀ v ∈ vals, Wf v) (hsame : ∀ v, v ∈ vals ↔ v ∈ vals') :
    ∃ t ev t' ev', parse vals = .ok t ev ∧ parse vals' = .ok t' ev' ∧
      ∀ host, (matchHost t host).2 = (matchHost t' host).2 := by
  have hv' : ∀ v ∈ vals', Wf v := fun v h => hv v ((hsame v).mpr h)
  obtain ⟨t, ev, h, hm⟩ := match_iff_partial vals hv
  obtain ⟨t', ev', h', hm'⟩ := match_iff_partial vals' hv'
  refine ⟨t, ev, t', ev', h, h', fun host => ?_⟩
  have h1 := hm [] host
  have h2 := hm' [] host
  simp only [matchAll] at h1 h2
  have : (∃ v ∈ vals, Matches v host) ↔ (∃ v ∈ vals', Matches v host) :=
    ⟨fun ⟨v, a, b⟩ => ⟨v, (hsame v).mp a, b⟩, fun ⟨v, a, b⟩ => ⟨v, (hsame v).mpr a, b⟩⟩
  rw [Bool.eq_iff_iff, h1, h2, this]

/-! ### the excluded region is real: values that begin with two dots -/

/-- `acl x dstdomain a ..a`: Merge drops `a` as "covered by" `..a`, and host `a` no longer matches although the value `a`
matches it. -/
theorem multi_dot_lost_value_counterexample : Gen.DomainFold.rejectsMultiDot = false →
    verdicts [[97], [46, 46, 97]] [[97]] = some [false] ∧ Matches [97] [97] := by
  decide +kernel

/-- `acl x dstdomain ..a .a`: Merge decides to remove the stored `..a`, `Splay::remove` cannot find it (Compare(`..a`,`..a`)
is not 0), the string is freed while the tree still points to it. -/
theorem multi_dot_dangling_counterexample : Gen.DomainFold.rejectsMultiDot = false →
    parse [[46, 46, 97], [46, 97]] = .dangling := by
  decide +kernel

/-- `acl x dstdomain .. .`: both are stored (`Compare` does not see the overlap); after a lookup of `a` has
splayed the tree, host `a.` is not found although `.` matches it. -/
theorem multi_dot_missed_match_counterexample : Gen.DomainFold.rejectsMultiDot = false →
    verdicts [[46, 46], [46]] [[97], [97, 46]] = some [false, false] ∧ Matches [46] [97, 46] := by
  decide +kernel

/-- `Compare` is not reflexive on such a value. -/
theorem multi_dot_compare_counterexample : Domain.compare [46, 46, 97] [46, 46, 97] ≠ 0 := by
  decide +kernel

/-! ### non-vacuity -/

/-- accepted: `e.c`, `.e.c`, `a.`, `.`, `.a..b`; excluded: `..a`, `..`, `` -/
example : Wf [101, 46, 99] ∧ Wf [46, 101, 46, 99] ∧ Wf [97, 46] ∧ Wf [46] ∧ Wf [46, 97, 46, 46, 98] ∧
    ¬ Wf [46, 46, 97] ∧ ¬ Wf [46, 46] ∧ ¬ Wf [] := by
  decide
/-- the single dot works, also repeated and mixed with names that end in a dot: `. a. . b`: hosts `x.`, `a.` match, `b` matches, `a` does not -/
example : verdicts [[46], [97, 46], [46], [98]] [[120, 46], [97, 46], [98], [97]] = some [true, true, true, false] := by
  decide +kernel
/-- `.b.c` matches `b.c`, `a.b.c`, `A.B.C`, `.b.c` (leading dot of the host ignored) but not `ab.c`, `x-b.c`, `c`, `` -/
example : Matches [46, 98, 46, 99] [98, 46, 99] ∧ Matches [46, 98, 46, 99] [97, 46, 98, 46, 99] ∧
    Matches [46, 98, 46, 99] [65, 46, 66, 46, 67] ∧ Matches [46, 98, 46, 99] [46, 98, 46, 99] ∧
    ¬ Matches [46, 98, 46, 99] [97, 98, 46, 99] ∧ ¬ Matches [46, 98, 46, 99] [120, 45, 98, 46, 99] ∧
    ¬ Matches [46, 98, 46, 99] [99] ∧ ¬ Matches [46, 98, 46, 99] [] := by
  decide +kernel
/-- `b.c` matches only itself -/
example : Matches [98, 46, 99] [66, 46, 67] ∧ ¬ Matches [98, 46, 99] [97, 46, 98, 46, 99] := by decide +kernel
/-- a concrete run: `a.c .c B.c x.b.c` collapses to the single stored value `.c`; hosts `a.c`, `c`, `x.y.c` match, `oc` does not -/
example : stored [[97, 46, 99], [46, 99], [66, 46, 99], [120, 46, 98, 46, 99]] = some [[46, 99]] ∧
    verdicts [[97, 46, 99], [46, 99], [66, 46, 99], [120, 46, 98, 46, 99]] [[97, 46, 99], [99], [120, 46, 121, 46, 99], [111, 99]]
      = some [true, true, true, false] := by
  decide +kernel
/-- disjoint values are all kept, in key order: `b.c a.c x-a.c` is stored as `a.c < x-a.c < b.c`
(`x-a.c` sorts after `a.c` although `'-' < '.'`) -/
example : stored [[98, 46, 99], [97, 46, 99], [120, 45, 97, 46, 99]] =
    some [[97, 46, 99], [120, 45, 97, 46, 99], [98, 46, 99]] := by
  decide +kernel

end SquidModel.C41
