/-
C12 — Stale responses are not served without revalidation (decision logic; partial: the end-to-end behaviour of the
binary is tied to this model by scenario correspondence, see props/C12.py).

Full statement (NOT provable of the code as it is, see the two counterexamples below):
  for every reply with an explicit lifetime L (s-maxage, else max-age, else Expires - Date), every receipt time, every later
  request time `now1 ≥ Date + L`, every request without max-stale and every configuration without overrides, the cached
  response is not served without contacting the origin; and every request with Cache-Control max-age=0 or no-cache
  contacts the origin.
What is proved instead:
  * `explicit_lifetime_passed_contacts_origin_partial`: the first half with the extra hypothesis that Date is present,
    not in the future and at most 24 hours old (missing/future Dates are covered by `undated_or_future_date_contacts_origin`),
  * `date_older_than_24h_counterexample`: outside that region the code does serve a stale response,
  * `maxage0_or_nocache_contacts_origin_partial`: the second half with the extra hypothesis that the cached reply is not
    marked `immutable`, and `immutable_counterexample`,
  * `mustrevalidate_stale_contacts_origin`: in full for a freshly stored reply (any rule, any request, any global setting
    but offline_mode), `mustrevalidate_of_first_reply_after_revalidations`: the same after any number of 304 updates when
    the directive was on the *first* reply, and `mustrevalidate_from_304_counterexample`: a must-revalidate that arrives
    with a 304 is not honoured,
  * `shift_invariant`: every decision is invariant under moving all absolute times of a scenario,
  * `lifetime_passed_after_revalidations_partial`: the first theorem along whole histories (a stored reply followed by any
    number of 304s that rewrite the stored header): the lifetime of the *current* stored header, relative to its Date, bounds
    how long the entry is served without contacting the origin.
-/
import SquidModel.Cache.FreshLemmas
import SquidModel.Cache.FreshShift

namespace SquidModel.C12
open SquidModel.Cache.Fresh SquidModel.Gen

/-- Entry-level core: an entry whose explicit expiry time has been reached is never answered from the cache alone,
unless the client sent max-stale or the rule has override-expire (or squid runs in offline_mode). -/
theorem expired_entry_contacts_origin (cfg : Config) (R : Rule) (now : Int) (e : Entry) (q : Request)
    (hoff : cfg.offline = false) (hov : R.overrideExpire = false) (hq : q.wf) (hint : q.internal = false)
    (hneg : e.negCached = false) (hms : q.hasMaxStale = false)
    (h1 : -1 < e.expires) (h2 : e.expires ≤ now) :
    (lookup cfg R now (some e) q).servedWithoutContact = false := by
  cases h : (lookup cfg R now (some e) q).servedWithoutContact with
  | false => rfl
  | true =>
    have := ((lookup_served_iff cfg R now e q hoff hint hneg).1 h).2
    rw [stale_of_expired cfg R now e q _ hoff hov hq hms h1 h2] at this
    cases this

/-- **Explicit lifetime passed ⇒ the origin is contacted** (partial: Date present, not in the future, at most 24 h old).
For every reply carrying an explicit lifetime `L` relative to its Date, received at any time `now0` with any Age header and
any response delay, then requested at any time `now1 ≥ now0` with `now1 ≥ Date + L`, by any request without max-stale,
under any refresh rule without override-expire: the answer is not "served from the cache without contacting the origin". -/
theorem explicit_lifetime_passed_contacts_origin_partial (cfg : Config) (R : Rule) (now0 now1 : Int) (r : Reply) (L : Int)
    (q : Request)
    (hoff : cfg.offline = false) (hvary : cfg.varyIgnoreExpire = false) (hov : R.overrideExpire = false)
    (hL : explicitLifetime r = some L)
    (hd0 : 0 ≤ r.date) (hd1 : r.date ≤ now0) (hd2 : now0 - FreshDefaults.dateSanityWindow ≤ r.date)
    (hrep : -1 < (store cfg now0 r 0).expires)      -- the rebased expiry is a representable time (not before 1970)
    (hlater : now0 ≤ now1) (hpassed : r.date + L ≤ now1)
    (hq : q.wf) (hint : q.internal = false) (hms : q.hasMaxStale = false) :
    (lookup cfg R now1 (some (store cfg now0 r 0)) q).servedWithoutContact = false := by
  have hle := inv_expires_le cfg now0 (storeCached cfg now0 r 0) L (storeCached_inv cfg now0 r) hvary hL hd0 hd1 hd2
  apply expired_entry_contacts_origin cfg R now1 _ q hoff hov hq hint rfl hms hrep
  show (storeCached cfg now0 r 0).entry.expires ≤ now1
  have : (storeCached cfg now0 r 0).reply.date = r.date := rfl
  rcases hle with h | h <;> omega

/-- The same with an upstream response delay `respTime ≥ 0` (`hier.peerResponseTime`), which only moves the served date back. -/
theorem explicit_lifetime_passed_contacts_origin_delay (cfg : Config) (R : Rule) (now0 now1 : Int) (r : Reply) (respTime L : Int)
    (q : Request)
    (hoff : cfg.offline = false) (hvary : cfg.varyIgnoreExpire = false) (hov : R.overrideExpire = false)
    (hL : explicitLifetime r = some L)
    (hd0 : 0 ≤ r.date) (hd1 : r.date ≤ now0) (hd2 : now0 - FreshDefaults.dateSanityWindow ≤ r.date)
    (hresp : 0 ≤ respTime)
    (hrep : -1 < (store cfg now0 r respTime).expires)
    (hlater : now0 ≤ now1) (hpassed : r.date + L ≤ now1)
    (hq : q.wf) (hint : q.internal = false) (hms : q.hasMaxStale = false) :
    (lookup cfg R now1 (some (store cfg now0 r respTime)) q).servedWithoutContact = false := by
  have hsd := servedDate_le_date now0 r respTime hd0 hd1 hd2 hresp
  have hexp := hdrExpirationTime_of_lifetime cfg now0 r L hvary hd0 hL
  have hex : (store cfg now0 r respTime).expires = rebasedExpires (servedDate now0 r respTime) r (hdrExpirationTime cfg now0 r) := rfl
  have hle := rebasedExpires_le (servedDate now0 r respTime) r (hdrExpirationTime cfg now0 r) hsd
  apply expired_entry_contacts_origin cfg R now1 _ q hoff hov hq hint rfl hms hrep
  rw [hex]
  rcases hexp with h | ⟨h, _⟩ <;> omega

/-- **Histories.** A reply stored at `now0` and then updated by any number of 304s (each rewriting the stored header fields
it carries and re-running `timestampsSet`), at times that do not go backwards: if the header now stored carries an explicit
lifetime `L` relative to its Date (present, not after the last update, at most 24 h before it) and `Date + L` has been
reached, no request without max-stale is answered from the cache without contacting the origin. -/
theorem lifetime_passed_after_revalidations_partial (cfg : Config) (R : Rule) (now0 now1 : Int) (r : Reply) (evs : Updates) (L : Int)
    (q : Request)
    (hoff : cfg.offline = false) (hvary : cfg.varyIgnoreExpire = false) (hov : R.overrideExpire = false)
    (htimes : timesFrom now0 evs)
    (hL : explicitLifetime (applyAll cfg (storeCached cfg now0 r 0) evs).reply = some L)
    (hd0 : 0 ≤ (applyAll cfg (storeCached cfg now0 r 0) evs).reply.date)
    (hd1 : (applyAll cfg (storeCached cfg now0 r 0) evs).reply.date ≤ lastTime now0 evs)
    (hd2 : lastTime now0 evs - FreshDefaults.dateSanityWindow ≤ (applyAll cfg (storeCached cfg now0 r 0) evs).reply.date)
    (hrep : -1 < (applyAll cfg (storeCached cfg now0 r 0) evs).entry.expires)
    (hlater : lastTime now0 evs ≤ now1)
    (hpassed : (applyAll cfg (storeCached cfg now0 r 0) evs).reply.date + L ≤ now1)
    (hq : q.wf) (hint : q.internal = false) (hms : q.hasMaxStale = false) :
    (lookup cfg R now1 (some (applyAll cfg (storeCached cfg now0 r 0) evs).entry) q).servedWithoutContact = false := by
  have hinv := applyAll_inv cfg evs now0 _ (storeCached_inv cfg now0 r) htimes
  have hle := inv_expires_le cfg _ _ L hinv hvary hL hd0 hd1 hd2
  apply expired_entry_contacts_origin cfg R now1 _ q hoff hov hq hint hinv.2.2.2 hms hrep
  rcases hle with h | h <;> omega

/-- The excluded region is real: Date 90000 s (25 h) before receipt, `max-age=3600`, asked again in the same second by a
plain request under the built-in rule: the lifetime ended 86400 s ago, yet the model (like the binary) answers from the cache. -/
theorem date_older_than_24h_counterexample :
    let r : Reply := { date := 1700000000 - 90000, hasExpires := false, expiresHdr := -1, lastModified := -1, ageHdr := -1,
                       hasCc := true, sMaxAge := none, maxAge := some 3600, mustRevalidate := false, proxyRevalidate := false,
                       noCacheNoParams := false, ccPrivate := false, immutable := false, staleIfError := none,
                       pragmaNoCache := false, hasVary := false, contentLength := 2 }
    explicitLifetime r = some 3600 ∧ r.date + 3600 ≤ 1700000000 ∧
    lookup defaultConfig builtinRule 1700000000 (admitReply defaultConfig builtinRule 1700000000 r 0) {} = .hit := by
  decide

/-- A reply without Date (or with a Date in the future) and a lifetime from max-age / s-maxage / unparsable Expires is never
fresh for longer than `L` seconds after its receipt. -/
theorem undated_or_future_date_contacts_origin (cfg : Config) (R : Rule) (now0 now1 : Int) (r : Reply) (L : Int) (q : Request)
    (hoff : cfg.offline = false) (hov : R.overrideExpire = false)
    (hcc : r.hasCc = true) (hL : r.sMaxAge = some L ∨ (r.sMaxAge = none ∧ r.maxAge = some L)) (hL0 : 0 ≤ L)
    (hd : r.date < 0 ∨ now0 < r.date) (hage : r.ageHdr < 0) (hnow : 0 < now0)
    (hpassed : now0 + L ≤ now1)
    (hq : q.wf) (hint : q.internal = false) (hms : q.hasMaxStale = false) :
    (lookup cfg R now1 (some (store cfg now0 r 0)) q).servedWithoutContact = false := by
  have hsd : servedDate now0 r 0 = now0 := by
    unfold servedDate
    have c1 : (r.date < 0 ∨ r.date > now0) := by omega
    simp only [c1, if_true]
    have c2 : ¬ (r.ageHdr > now0 - now0) := by omega
    simp only [c2, if_false]; omega
  have hx : hdrExpirationTime cfg now0 r = (if r.date ≥ 0 then r.date + L else now0) := by
    unfold hdrExpirationTime
    rcases hL with h | ⟨h, h'⟩
    · simp only [hcc, if_true, h]
    · simp only [hcc, if_true, h, h']
  have hex : (store cfg now0 r 0).expires = rebasedExpires now0 r (hdrExpirationTime cfg now0 r) := by
    show rebasedExpires (servedDate now0 r 0) r (hdrExpirationTime cfg now0 r) = _
    rw [hsd]
  apply expired_entry_contacts_origin cfg R now1 _ q hoff hov hq hint rfl hms
  · rw [hex, hx]; unfold rebasedExpires
    split <;> split <;> omega
  · rw [hex, hx]; unfold rebasedExpires
    split <;> split <;> omega

/-- **Stale + must-revalidate ⇒ the origin is contacted**, in full: whatever the refresh rule says (all override options
included), whatever the request says (max-stale included). Covers must-revalidate, proxy-revalidate and s-maxage
(ENTRY_REVALIDATE_STALE) and response no-cache / private (ENTRY_REVALIDATE_ALWAYS). -/
theorem revalidate_flag_contacts_origin (cfg : Config) (R : Rule) (now : Int) (e : Entry) (q : Request)
    (hoff : cfg.offline = false) (hq : q.wf) (hint : q.internal = false) (hneg : e.negCached = false)
    (hflag : e.revalidateAlways = true ∨ (e.revalidateStale = true ∧ -1 < e.expires ∧ e.expires ≤ now)) :
    (lookup cfg R now (some e) q).servedWithoutContact = false := by
  cases h : (lookup cfg R now (some e) q).servedWithoutContact with
  | false => rfl
  | true =>
    have := ((lookup_served_iff cfg R now e q hoff hint hneg).1 h).2
    rw [stale_of_flags cfg R now e q _ hoff hq hflag] at this
    cases this

/-- The same for a freshly stored reply: must-revalidate / proxy-revalidate / s-maxage and an explicit lifetime that has
passed (Date present, not in the future, at most 24 h old). -/
theorem mustrevalidate_stale_contacts_origin (cfg : Config) (R : Rule) (now0 now1 : Int) (r : Reply) (L : Int) (q : Request)
    (hoff : cfg.offline = false) (hvary : cfg.varyIgnoreExpire = false)
    (hcc : r.hasCc = true) (hmr : r.mustRevalidate = true ∨ r.proxyRevalidate = true ∨ r.sMaxAge.isSome = true)
    (hL : explicitLifetime r = some L)
    (hd0 : 0 ≤ r.date) (hd1 : r.date ≤ now0) (hd2 : now0 - FreshDefaults.dateSanityWindow ≤ r.date)
    (hrep : -1 < (store cfg now0 r 0).expires)
    (hlater : now0 ≤ now1) (hpassed : r.date + L ≤ now1)
    (hq : q.wf) (hint : q.internal = false) :
    (lookup cfg R now1 (some (store cfg now0 r 0)) q).servedWithoutContact = false := by
  have hle := inv_expires_le cfg now0 (storeCached cfg now0 r 0) L (storeCached_inv cfg now0 r) hvary hL hd0 hd1 hd2
  have hdate : (storeCached cfg now0 r 0).reply.date = r.date := rfl
  apply revalidate_flag_contacts_origin cfg R now1 _ q hoff hq hint rfl
  by_cases ha : (store cfg now0 r 0).revalidateAlways = true
  · exact Or.inl ha
  · right
    refine ⟨?_, hrep, ?_⟩
    · have ha' : (r.noCacheNoParams || r.ccPrivate) = false := by
        simpa [store, hcc] using ha
      show (r.hasCc && !(r.noCacheNoParams || r.ccPrivate) && (r.mustRevalidate || r.proxyRevalidate || r.sMaxAge.isSome)) = true
      rcases hmr with h | h | h <;> simp [hcc, ha', h]
    · show (storeCached cfg now0 r 0).entry.expires ≤ now1
      rcases hle with h | h <;> omega

/-- Along histories the revalidation flags are those of the *first* reply: if it said must-revalidate / proxy-revalidate /
s-maxage, then after any number of 304 updates a stale entry (by the header now stored) still always contacts the origin. -/
theorem mustrevalidate_of_first_reply_after_revalidations (cfg : Config) (R : Rule) (now0 now1 : Int) (r : Reply) (evs : Updates)
    (L : Int) (q : Request)
    (hoff : cfg.offline = false) (hvary : cfg.varyIgnoreExpire = false)
    (hcc : r.hasCc = true) (hmr : r.mustRevalidate = true ∨ r.proxyRevalidate = true ∨ r.sMaxAge.isSome = true)
    (htimes : timesFrom now0 evs)
    (hL : explicitLifetime (applyAll cfg (storeCached cfg now0 r 0) evs).reply = some L)
    (hd0 : 0 ≤ (applyAll cfg (storeCached cfg now0 r 0) evs).reply.date)
    (hd1 : (applyAll cfg (storeCached cfg now0 r 0) evs).reply.date ≤ lastTime now0 evs)
    (hd2 : lastTime now0 evs - FreshDefaults.dateSanityWindow ≤ (applyAll cfg (storeCached cfg now0 r 0) evs).reply.date)
    (hrep : -1 < (applyAll cfg (storeCached cfg now0 r 0) evs).entry.expires)
    (hlater : lastTime now0 evs ≤ now1)
    (hpassed : (applyAll cfg (storeCached cfg now0 r 0) evs).reply.date + L ≤ now1)
    (hq : q.wf) (hint : q.internal = false) :
    (lookup cfg R now1 (some (applyAll cfg (storeCached cfg now0 r 0) evs).entry) q).servedWithoutContact = false := by
  have hinv := applyAll_inv cfg evs now0 _ (storeCached_inv cfg now0 r) htimes
  have hle := inv_expires_le cfg _ _ L hinv hvary hL hd0 hd1 hd2
  have hfl := applyAll_flags cfg evs (storeCached cfg now0 r 0)
  apply revalidate_flag_contacts_origin cfg R now1 _ q hoff hq hint hinv.2.2.2
  by_cases ha : (store cfg now0 r 0).revalidateAlways = true
  · left; rw [hfl.1]; exact ha
  · right
    refine ⟨?_, hrep, ?_⟩
    · rw [hfl.2]
      have ha' : (r.noCacheNoParams || r.ccPrivate) = false := by
        simpa [store, hcc] using ha
      show (r.hasCc && !(r.noCacheNoParams || r.ccPrivate) && (r.mustRevalidate || r.proxyRevalidate || r.sMaxAge.isSome)) = true
      rcases hmr with h | h | h <;> simp [hcc, ha', h]
    · rcases hle with h | h <;> omega

/-- The flags are *only* those of the first reply: `max-age=1` stored at t, revalidated at t+2 by a 304 carrying
`Cache-Control: max-age=1, must-revalidate`, asked again at t+4 with `Cache-Control: max-stale`: the stored header says
must-revalidate and its lifetime ended 1 s ago, yet the answer comes from the cache without contacting the origin. -/
theorem mustrevalidate_from_304_counterexample :
    let r : Reply := { date := 1700000000, hasExpires := false, expiresHdr := -1, lastModified := 1700000000 - 100000, ageHdr := -1,
                       hasCc := true, sMaxAge := none, maxAge := some 1, mustRevalidate := false, proxyRevalidate := false,
                       noCacheNoParams := false, ccPrivate := false, immutable := false, staleIfError := none,
                       pragmaNoCache := false, hasVary := false, contentLength := 2 }
    let n : NotModified := { hasDate := true, date := 1700000002, hasCc := true, sMaxAge := none, maxAge := some 1,
                             mustRevalidate := true, proxyRevalidate := false, noCacheNoParams := false, ccPrivate := false,
                             immutable := false, staleIfError := none, hasExpires := false, expiresHdr := -1,
                             hasLastModified := false, lastModified := -1, hasAge := false, ageHdr := -1 }
    let c := applyAll defaultConfig (storeCached defaultConfig 1700000000 r 0) [(1700000002, n)]
    lookup defaultConfig builtinRule 1700000002 (some (storeCached defaultConfig 1700000000 r 0).entry) {} = .revalidate ∧
    c.reply.mustRevalidate = true ∧ explicitLifetime c.reply = some 1 ∧ c.reply.date + 1 ≤ 1700000004 ∧
    lookup defaultConfig builtinRule 1700000004 (some c.entry) { hasCc := true, ccMaxStale := some FreshDefaults.maxStaleAny } = .hit := by
  decide

/-- **Request `Cache-Control: no-cache` or `max-age=0` ⇒ the origin is contacted** (partial: for `max-age=0` the cached reply
must not be marked `immutable`). Any cache content, any time, any rule without ignore-reload (reload-into-ims still contacts
the origin), `offline_mode` off, `ignore-cc` off. -/
theorem maxage0_or_nocache_contacts_origin_partial (cfg : Config) (R : Rule) (now : Int) (cached : Option Entry) (q : Request)
    (hoff : cfg.offline = false) (hig : R.ignoreReload = false) (hicc : q.ignoreCc = false) (hint : q.internal = false)
    (hcc : q.hasCc = true)
    (hneg : ∀ e, cached = some e → e.negCached = false)
    (hdir : q.ccNoCache = true ∨ (q.ccMaxAge = some 0 ∧ ∀ e, cached = some e → e.immutable = false)) :
    (lookup cfg R now cached q).servedWithoutContact = false := by
  cases hc : cached with
  | none => exact lookup_none cfg R now q
  | some e =>
    cases h : (lookup cfg R now (some e) q).servedWithoutContact with
    | false => rfl
    | true =>
      obtain ⟨hnc, hfr⟩ := (lookup_served_iff cfg R now e q hoff hint (hneg e hc)).1 h
      have hst : (refreshCheckHTTP cfg R now e q (interpretNoCache cfg q).2).1 = true := by
        apply stale_of_request cfg R now e q _ hoff hig hicc
        rcases hdir with hnoc | ⟨hma, himm⟩
        · left
          rcases interpretNoCache_of_noCache cfg q hicc hcc hnoc with h1 | h1
          · rw [h1] at hnc; cases hnc
          · exact h1
        · exact Or.inr ⟨hcc, hma, himm e hc⟩
      rw [hst] at hfr; cases hfr

/-- The excluded region is real: a fresh reply marked `immutable` is served from the cache to a request with
`Cache-Control: max-age=0` (RFC 8246 handling in `refreshCheck`). -/
theorem immutable_counterexample :
    let r : Reply := { date := 1700000000 - 10, hasExpires := false, expiresHdr := -1, lastModified := -1, ageHdr := -1,
                       hasCc := true, sMaxAge := none, maxAge := some 3600, mustRevalidate := false, proxyRevalidate := false,
                       noCacheNoParams := false, ccPrivate := false, immutable := true, staleIfError := none,
                       pragmaNoCache := false, hasVary := false, contentLength := 2 }
    lookup defaultConfig builtinRule 1700000000 (admitReply defaultConfig builtinRule 1700000000 r 0)
      { hasCc := true, ccMaxAge := some 0 } = .hit := by
  decide

/-- Client `max-stale=N` only excuses staleness below N: if an entry with an explicit expiry is served without
contacting the origin although that expiry has been reached, the request carried max-stale and either it was the
valueless form or the staleness is below its value. -/
theorem max_stale_bounds_staleness (cfg : Config) (R : Rule) (now : Int) (e : Entry) (q : Request)
    (hoff : cfg.offline = false) (hov : R.overrideExpire = false) (hq : q.wf) (hint : q.internal = false)
    (hneg : e.negCached = false) (h1 : -1 < e.expires) (h2 : e.expires ≤ now)
    (hserved : (lookup cfg R now (some e) q).servedWithoutContact = true) :
    ∃ ms, q.ccMaxStale = some ms ∧ (ms = FreshDefaults.maxStaleAny ∨ now - e.expires < ms) ∧ e.revalidateStale = false ∧ e.revalidateAlways = false := by
  have hct := checkPoint_time now e q hq
  have hst := staleness_of_expired e (checkPoint now e (some q) 0).2 (checkPoint now e (some q) 0).1 R h1 (by omega)
  -- flags: otherwise revalidate_flag_contacts_origin contradicts hserved
  have hflags : e.revalidateStale = false ∧ e.revalidateAlways = false := by
    constructor
    · cases h : e.revalidateStale with
      | false => rfl
      | true =>
        have := revalidate_flag_contacts_origin cfg R now e q hoff hq hint hneg (Or.inr ⟨h, h1, h2⟩)
        rw [this] at hserved; cases hserved
    · cases h : e.revalidateAlways with
      | false => rfl
      | true =>
        have := revalidate_flag_contacts_origin cfg R now e q hoff hq hint hneg (Or.inl h)
        rw [this] at hserved; cases hserved
  cases hm : q.hasMaxStale with
  | false =>
    have := expired_entry_contacts_origin cfg R now e q hoff hov hq hint hneg hm h1 h2
    rw [this] at hserved; cases hserved
  | true =>
    -- the refresh check answered FRESH; trace where that can come from
    have hfresh := ((lookup_served_iff cfg R now e q hoff hint hneg).1 hserved).2
    have hicc : q.ignoreCc = false := by
      simp [Request.hasMaxStale] at hm; exact hm.1.1
    unfold refreshCheckHTTP refreshCheck at hfresh
    simp only [hst, hoff, Bool.false_or, hflags.1, hflags.2, Bool.and_false, Bool.or_false, Bool.false_eq_true, if_false, hicc] at hfresh
    cases hrc : requestChecks cfg R e q (interpretNoCache cfg q).2 (checkPoint now e (some q) 0).1
        ((checkPoint now e (some q) 0).2 - e.expires) with
    | some c =>
      rw [hrc] at hfresh
      have hf : c.1.isFresh = true := by simpa using hfresh
      obtain ⟨_, ms, hms, _, hb⟩ := requestChecks_fresh _ _ _ _ _ _ _ _ hrc hf
      refine ⟨ms, hms, ?_, hflags⟩
      rcases hb with hb | hb
      · exact Or.inl hb
      · right; omega
    | none =>
      rw [hrc] at hfresh
      have hf : (finalChecks cfg R (checkPoint now e (some q) 0).1 ((checkPoint now e (some q) 0).2 - e.expires) { expires := true }).1.isFresh = true := by
        simpa using hfresh
      have := finalChecks_fresh_expires cfg R _ _ _ rfl hov hf
      omega

/-- Whenever an entry with an explicit expiry is served without contacting the origin to a request without max-stale,
that expiry lies in the future (contrapositive form of the first theorem, at entry level; negative hits included). -/
theorem served_implies_unexpired (cfg : Config) (R : Rule) (now : Int) (e : Entry) (q : Request)
    (hoff : cfg.offline = false) (hov : R.overrideExpire = false) (hq : q.wf) (hint : q.internal = false)
    (hms : q.hasMaxStale = false) (h1 : -1 < e.expires)
    (hserved : (lookup cfg R now (some e) q).servedWithoutContact = true) : now < e.expires := by
  cases hneg : e.negCached with
  | false =>
    by_cases h2 : e.expires ≤ now
    · have := expired_entry_contacts_origin cfg R now e q hoff hov hq hint hneg hms h1 h2
      rw [this] at hserved; cases hserved
    · omega
  | true => exact lookup_negCached_served cfg R now e q hoff hneg hserved

/-- **Translation invariance.** Moving the clock and every absolute header time (Date, Expires, Last-Modified) of a scenario
by `k` seconds changes neither what is admitted to the cache, nor the outcome of the later request, nor the two numbers the
end-to-end harness compares (the Age shown on a hit = `now1 - timestamp`, the If-Modified-Since sent upstream relative to the
first exchange = `now0 - lastModified()`), provided the comparisons against the epoch keep their outcome (`regular`).
The Lean driver evaluates every scenario at the nominal clock 1700000000; the binary runs it at the real clock. -/
theorem shift_invariant (cfg : Config) (R : Rule) (k now0 now1 : Int) (r : Reply) (rt : Int) (q : Request)
    (hv : cfg.varyIgnoreExpire = false) (hr : r.regular k now0)
    (hx : hdrExpirationTime cfg now0 r = -1 ∨ 0 ≤ (store cfg now0 r rt).expires)
    (he : (store cfg now0 r rt).regular k) (hclock : 0 < now1 ∧ 0 < now1 + k) :
    admitReply cfg R (now0 + k) (r.shift k) rt = (admitReply cfg R now0 r rt).map (Entry.shift k) ∧
    lookup cfg R (now1 + k) (admitReply cfg R (now0 + k) (r.shift k) rt) q = lookup cfg R now1 (admitReply cfg R now0 r rt) q ∧
    (∀ e, admitReply cfg R now0 r rt = some e →
      (now1 + k) - (e.shift k).timestamp = now1 - e.timestamp ∧ (now0 + k) - (e.shift k).lastModified = now0 - e.lastModified) :=
  scenario_shift cfg R k now0 now1 r rt q hv hr hx he hclock

-- non-vacuity of `shift_invariant`: a typical scenario at the nominal clock, moved by 90 000 000 s (to about the real clock)
example :
    let r : Reply := { date := 1700000000 - 100, hasExpires := true, expiresHdr := 1700000000 + 50, lastModified := 1700000000 - 5000,
                       ageHdr := 7, hasCc := true, sMaxAge := none, maxAge := some 3600, mustRevalidate := false,
                       proxyRevalidate := false, noCacheNoParams := false, ccPrivate := false, immutable := false,
                       staleIfError := none, pragmaNoCache := false, hasVary := false, contentLength := 2 }
    r.regular 90000000 1700000000 ∧ (store defaultConfig 1700000000 r 0).regular 90000000 ∧
    0 ≤ (store defaultConfig 1700000000 r 0).expires := by
  refine ⟨⟨?_, ?_, ?_, ?_, ?_, ?_, ?_⟩, ⟨?_, ?_, ?_⟩, ?_⟩ <;> first | decide | (intro m hm; simp at hm; omega) | (right; decide) | (left; decide)

-- non-vacuity: the hypotheses of the main theorem are satisfiable, and the decision really depends on the time
-- Date 100 s old, max-age=3600, plain request in the same second: served from the cache with Age 100
example :
    let r : Reply := { date := 1700000000 - 100, hasExpires := false, expiresHdr := -1, lastModified := -1, ageHdr := -1,
                       hasCc := true, sMaxAge := none, maxAge := some 3600, mustRevalidate := false, proxyRevalidate := false,
                       noCacheNoParams := false, ccPrivate := false, immutable := false, staleIfError := none,
                       pragmaNoCache := false, hasVary := false, contentLength := 2 }
    lookup defaultConfig builtinRule 1700000000 (admitReply defaultConfig builtinRule 1700000000 r 0) {} = .hit ∧
    lookup defaultConfig builtinRule (1700000000 + 3499) (admitReply defaultConfig builtinRule 1700000000 r 0) {} = .hit ∧
    lookup defaultConfig builtinRule (1700000000 + 3500) (admitReply defaultConfig builtinRule 1700000000 r 0) {} = .revalidate ∧
    lookup defaultConfig builtinRule (1700000000 + 3500) (admitReply defaultConfig builtinRule 1700000000 r 0)
      { hasCc := true, ccMaxStale := some FreshDefaults.maxStaleAny } = .hit ∧
    lookup defaultConfig builtinRule 1700000000 (admitReply defaultConfig builtinRule 1700000000 r 0) { hasCc := true, ccNoCache := true } = .miss ∧
    lookup defaultConfig builtinRule 1700000000 (admitReply defaultConfig builtinRule 1700000000 r 0) { hasCc := true, ccMaxAge := some 0 } = .revalidate ∧
    explicitLifetime r = some 3600 := by decide
-- the well-formedness predicate and the "no overrides" predicate are inhabited by the defaults
example : ({ hasCc := true, ccMaxAge := some 0, ccMinFresh := some 5 } : Request).wf := by
  refine ⟨?_, ?_, ?_⟩ <;> intro v h <;> simp at h <;> omega
example : builtinRule.noOverrides := by decide
example : defaultConfig.offline = false ∧ defaultConfig.varyIgnoreExpire = false ∧ builtinRule.overrideExpire = false := by decide

end SquidModel.C12
