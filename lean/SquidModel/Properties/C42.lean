/-
C42 — IP-address ACLs match exactly the configured address sets.

Property theorems only.  Model: `SquidModel.Acl.Ip` (src/acl/Ip.cc, src/acl/SplayInserter.h, src/ip/Address.cc; splay tree:
`SquidModel.Acl.DomainTree` = include/splay.h).  Lemmas: `Acl/IpBits`, `IpOrder`, `IpMerge`, `IpItem`, `IpParse`, `IpCorollaries`.

Vocabulary.  An address is its 16 bytes as a number below 2^128 (IPv4 = `::ffff:a.b.c.d`).  A token list is what `acl NAME src ...`
carries: `all`, `ipv4`, `ipv6` and numeric tokens `a`, `a/m`, `a-b`, `a-b/m` (`Item`: syntax family, addresses, mask text).
`unionB toks x` is the reference reading "x belongs to the union of the listed sets": a numeric token with `k` host bits denotes
`[a with its k low bits cleared .. (b or a) with its k low bits set]` (`Item.lo`, `Item.hi`; host bits below the mask are ignored,
`/0` denotes everything); the five legacy spellings of "everything" that `parseGlobal` overrides denote everything.
`verdicts toks probes` runs the model of `ACLIP::parse` on the tokens and then `ACLIP::match` on every probe in turn (each lookup
splays the tree); `none` = parse did not end normally.

FULL STATEMENT (false of the real code, see the counterexamples):
  for every token list whose numeric tokens are regular (a proper mask, addresses within the family's width, ranges not reversed)
  and all probes below 2^128:  verdicts toks probes = some (probes.map (unionB toks)).
What is proved instead: the same conclusion under the explicit extra hypotheses `Tame` (the special addresses `0.0.0.0` and
`255.255.255.255` do not meet, as end points of configured values, the addresses on which `Ip::Address::operator < <= > >=`
special-case them), `ProbeOK` (same for the looked-up address), and, inside `Item.Regular`, "the mask is not /0" and "an IPv6-syntax
range does not end at ::ffff:0.0.0.0".  Each excluded region has a counterexample theorem below.  No size bounds anywhere.
-/
import SquidModel.Acl.IpCorollaries
import SquidModel.Acl.IpFuel

namespace SquidModel.C42
open SquidModel.Acl SquidModel.Acl.Ip

/-- **Main theorem (partial).**  For every list of keywords and regular numeric tokens — any length, any order, duplicates, nesting,
partial overlaps, both families — whose end points are tame, `parse` ends normally (Merge terminates, nothing is refused, no
dangling removal) and, after any sequence of earlier lookups, `match(x)` is true exactly when `x` belongs to the union of the
listed sets, for every harmless probe `x`. -/
theorem match_iff_union_partial (toks : List Token) (hreg : RegularList toks) (tame : Tame (ctxOf toks))
    (probes : List Nat) (hp : ∀ x ∈ probes, x < 2 ^ 128 ∧ ProbeOK (ctxOf toks) x) :
    verdicts toks probes = some (probes.map (unionB toks)) :=
  verdicts_eq_union hreg tame hp

/-- What `parse` leaves in the tree for such a list: block ranges that are well formed (first ≤ last), strictly increasing and
pairwise disjoint from left to right (overlapping and nested configured values have been combined or dropped), and the object
(switches + stored ranges) denotes exactly the union of the listed sets. -/
theorem parse_invariant (toks : List Token) (hreg : RegularList toks) (tame : Tame (ctxOf toks)) :
    ∃ acl ev, parse toks = .ok acl ev ∧
      acl.tree.inorder.Pairwise (fun a b => a.last < b.first) ∧ (∀ v ∈ acl.tree.inorder, v.first ≤ v.last) ∧
      ∀ x, acl.den x ↔ unionB toks x = true := by
  have inv0 : Inv (ctxOf toks) (Tree.inorder (Tree.nil : Tree Val)) :=
    ⟨by simp [Tree.inorder], by simp [Tree.inorder], by simp [Sorted, Tree.inorder]⟩
  obtain ⟨acl, ev, hparse, inv, hden⟩ := parseFrom_spec tame toks ⟨false, false, .nil⟩ [] (tokOK_of_regular hreg) inv0
  refine ⟨acl, ev, hparse, inv.sorted, fun v hv => (inv.mem v hv).1.le, ?_⟩
  intro x
  rw [hden x]
  unfold Acl.den cover
  simp [Tree.inorder]

/-- The same with hypotheses one can read off a configuration: no configured value starts or ends at `0.0.0.0`, none starts at
`255.255.255.255`, and the probe is neither of the two, also after masking with a configured mask. -/
theorem match_iff_union_plain (toks : List Token) (hreg : RegularList toks) (hplain : PlainList toks)
    (probes : List Nat) (hp : ∀ x ∈ probes, PlainProbe toks x) :
    verdicts toks probes = some (probes.map (unionB toks)) :=
  verdicts_eq_union hreg (tame_of_plain hplain) (fun x hx => ⟨(hp x hx).1, probeOK_of_plain (hp x hx)⟩)

/-- Lists written entirely in IPv4 syntax (plus keywords) are matched exactly for *every* probe address, IPv4 or IPv6,
`0.0.0.0` and `255.255.255.255` included, both as values and as probes. -/
theorem match_iff_union_ipv4_lists (toks : List Token) (hreg : RegularList toks) (h4 : V4List toks)
    (probes : List Nat) (hp : ∀ x ∈ probes, x < 2 ^ 128) :
    verdicts toks probes = some (probes.map (unionB toks)) :=
  verdicts_eq_union hreg (tame_of_v4 hreg h4) (fun x hx => ⟨hp x hx, probeOK_of_v4 hreg h4 x⟩)

/-- Under the hypotheses of the main theorem the order of the values is irrelevant. -/
theorem match_order_irrelevant (toks toks' : List Token) (hperm : toks.Perm toks') (hreg : RegularList toks)
    (tame : Tame (ctxOf toks)) (probes : List Nat) (hp : ∀ x ∈ probes, x < 2 ^ 128 ∧ ProbeOK (ctxOf toks) x) :
    verdicts toks' probes = verdicts toks probes := by
  rw [verdicts_eq_union hreg tame hp,
      verdicts_eq_union (regularList_perm hperm hreg) (tame_perm hperm tame)
        (fun x hx => ⟨(hp x hx).1, probeOK_perm hperm (hp x hx).2⟩)]
  congr 1
  apply List.map_congr_left
  intro x _
  exact (unionB_perm hperm x).symm

/-- `FactoryParse` stores a regular token with both addresses masked: whatever host bits the configuration had below the mask are
gone (squid logs "Netmask masks away part of the specified IP"), so the lookup comparator and the insertion comparator see the same
aligned block — the proviso "given without host bits" is established by the parser, not needed as a hypothesis. -/
theorem factoryParse_stores_aligned (it : Item) (k : Nat) (h : it.Regular k) :
    ∃ evs, factoryParse it = some (it.stored k, evs) ∧
      (it.stored k).mask = pmask k ∧ (it.stored k).addr1 % 2 ^ k = 0 ∧ (it.stored k).addr2 % 2 ^ k = 0 ∧
      (it.stored k).first = it.lo k ∧ (it.stored k).last = it.hi k := by
  obtain ⟨evs, hf, w, h1, h2⟩ := factoryParse_spec h
  exact ⟨evs, hf, w.hmask, w.al1, w.al2, h1, h2⟩

/-- `all` matches every address — for *any* token list that parses, after any lookups. -/
theorem keyword_all (toks : List Token) (acl : Acl) (ev : List Event) (h : parse toks = .ok acl ev) (hall : Token.all ∈ toks)
    (earlier : List Nat) (x : Nat) : (matchAddr (matchAll acl earlier []).1 x).2 = true := by
  have hf := (parseFrom_flags toks _ _ _ _ h).2.2.1 hall
  have hk := matchAll_keeps earlier acl []
  rw [matchAddr_all (by rw [hk.1]; exact hf.1) (by rw [hk.2.1]; exact hf.2)]

/-- `ipv4` matches every IPv4 address — for any token list that parses, after any lookups. -/
theorem keyword_ipv4 (toks : List Token) (acl : Acl) (ev : List Event) (h : parse toks = .ok acl ev) (h4 : Token.ipv4 ∈ toks)
    (earlier : List Nat) (x : Nat) (hx : isIPv4 x = true) : (matchAddr (matchAll acl earlier []).1 x).2 = true := by
  have hf := (parseFrom_flags toks _ _ _ _ h).2.2.2.1 h4
  have hk := matchAll_keeps earlier acl []
  exact matchAddr_ipv4 (by rw [hk.1]; exact hf) hx

/-- `ipv6` matches every address that is not IPv4 — for any token list that parses, after any lookups. -/
theorem keyword_ipv6 (toks : List Token) (acl : Acl) (ev : List Event) (h : parse toks = .ok acl ev) (h6 : Token.ipv6 ∈ toks)
    (earlier : List Nat) (x : Nat) (hx : isIPv4 x = false) : (matchAddr (matchAll acl earlier []).1 x).2 = true := by
  have hf := (parseFrom_flags toks _ _ _ _ h).2.2.2.2 h6
  have hk := matchAll_keeps earlier acl []
  exact matchAddr_ipv6 (by rw [hk.2.1]; exact hf) hx

/-- The loop budget the model gives `Merge` (`size + 1` rounds) is never exhausted, for *every* token list — regular or not,
tame or not: `parse` ends normally, by `self_destruct()`, or in the dangling removal; the outcome `fuel` is a pure model artefact. -/
theorem parse_never_exhausts_budget (toks : List Token) : parse toks ≠ .fuel :=
  parseFrom_no_fuel toks _ _

/-- Lookups splay the tree but never change the switches nor the left-to-right sequence of stored values (no hypotheses). -/
theorem lookups_keep_stored (acl : Acl) (probes : List Nat) :
    (matchAll acl probes []).1.any4 = acl.any4 ∧ (matchAll acl probes []).1.any6 = acl.any6 ∧
    (matchAll acl probes []).1.tree.inorder = acl.tree.inorder :=
  matchAll_keeps probes acl []

/-! ### counterexamples: every excluded region is needed (all by evaluation of the model; the same inputs are in corpus/C42
and behave identically in the real code).  Each is stated for the tree as it is: the behaviour flags of `Gen.IpAcl` are probed by
running the staged code and are all `false` on the pinned tree; a tree that carries one of the candidate fixes in
notes/fixes/C42-*.diff flips the flag, the model follows it, and the counterexample becomes vacuous. -/

/-- a single IPv4 address as a token -/
def one4 (a : Nat) : Token := .item ⟨.v4, a, none, .none⟩

/-- `acl x dst ::1 0.0.0.0` does not match `::1`; written in the other order it does.  (`Tame` fails: `0.0.0.0` meets `::1`.) -/
theorem anyaddr_order_counterexample  :
    Gen.IpAcl.plainOrder = false →
   (verdicts [.item ⟨.v6, 1, none, .none⟩, .item ⟨.v4, 0, none, .none⟩] [1, V4ANY] = some [false, true] ∧
    verdicts [.item ⟨.v4, 0, none, .none⟩, .item ⟨.v6, 1, none, .none⟩] [1, V4ANY] = some [true, true] ∧
    unionB [.item ⟨.v6, 1, none, .none⟩, .item ⟨.v4, 0, none, .none⟩] 1 = true) := by
  first | (intro h; exact absurd h (by decide)) | (intro _; decide)

/-- squid's built-in `acl to_localhost dst 127.0.0.0/8 0.0.0.0/32 ::1/128 ::/128` (src/cf.data.pre), in the order it is shipped -/
def toLocalhost : List Token :=
  [.item ⟨.v4, 0x7f000000, none, .cidr 8⟩, .item ⟨.v4, 0, none, .cidr 32⟩, .item ⟨.v6, 1, none, .cidr 128⟩, .item ⟨.v6, 0, none, .cidr 128⟩]

/-- in the shipped order the built-in list works (127.0.0.1, 0.0.0.0, ::1, :: match, 10.0.0.1 does not) although it is not `Tame` … -/
example : verdicts toLocalhost [V4ANY + 0x7f000001, V4ANY, 1, 0, V4ANY + 0x0a000001] = some [true, true, true, true, false] := by decide

/-- … but the same four values with `::1/128` written first do not match `::1` (12 of the 24 orders lose `::1` or `0.0.0.0`;
`http_access deny to_localhost` then lets such requests through). -/
theorem to_localhost_order_counterexample :
    Gen.IpAcl.plainOrder = false →
   (verdicts [.item ⟨.v6, 1, none, .cidr 128⟩, .item ⟨.v4, 0x7f000000, none, .cidr 8⟩, .item ⟨.v4, 0, none, .cidr 32⟩, .item ⟨.v6, 0, none, .cidr 128⟩]
      [V4ANY + 0x7f000001, V4ANY, 1, 0, V4ANY + 0x0a000001] = some [true, true, false, true, false] ∧
    unionB toLocalhost 1 = true) := by
  first | (intro h; exact absurd h (by decide)) | (intro _; decide)

/-- `acl x src ::1-::5` matches the client address `0.0.0.0`.  (`ProbeOK` fails.) -/
theorem range_matches_anyaddr_counterexample  :
    Gen.IpAcl.plainOrder = false →
   (verdicts [.item ⟨.v6, 1, some 5, .none⟩] [V4ANY] = some [true] ∧
    unionB [.item ⟨.v6, 1, some 5, .none⟩] V4ANY = false) := by
  first | (intro h; exact absurd h (by decide)) | (intro _; decide)

/-- `acl x src 2001:db8::1-2001:db8::ff` matches the address `255.255.255.255`.  (`ProbeOK` fails.) -/
theorem range_matches_noaddr_counterexample  :
    Gen.IpAcl.plainOrder = false →
   (verdicts [.item ⟨.v6, 0x20010db8000000000000000000000001, some 0x20010db80000000000000000000000ff, .none⟩] [V4NO] = some [true] ∧
    unionB [.item ⟨.v6, 0x20010db8000000000000000000000001, some 0x20010db80000000000000000000000ff, .none⟩] V4NO = false) := by
  first | (intro h; exact absurd h (by decide)) | (intro _; decide)

/-- the masked client address is what counts: `acl x src ::-::2000/115` matches `0.0.0.1`. -/
theorem masked_probe_counterexample  :
    Gen.IpAcl.plainOrder = false →
   (verdicts [.item ⟨.v6, 0, some 0x2000, .cidr 115⟩] [V4ANY + 1] = some [true] ∧
    unionB [.item ⟨.v6, 0, some 0x2000, .cidr 115⟩] (V4ANY + 1) = false) := by
  first | (intro h; exact absurd h (by decide)) | (intro _; decide)

/-- `acl x src ::/0` matches only `::`.  (`Item.Regular.nz` fails: the mask is /0.) -/
theorem v6_slash_zero_counterexample  :
    Gen.IpAcl.slashZeroIsEverything = false →
   (verdicts [.item ⟨.v6, 0, none, .cidr 0⟩] [0, 1] = some [true, false] ∧
    unionB [.item ⟨.v6, 0, none, .cidr 0⟩] 1 = true) := by
  first | (intro h; exact absurd h (by decide)) | (intro _; decide)

/-- an IPv6-syntax range that ends at `::ffff:0.0.0.0` is read as its first address alone.  (`Item.Regular.deg` fails.) -/
theorem range_end_anyaddr_counterexample :
    verdicts [.item ⟨.v6, 5, some V4ANY, .none⟩] [5, 6] = some [true, false] ∧
    unionB [.item ⟨.v6, 5, some V4ANY, .none⟩] 6 = true := by decide

/-- a reversed range followed by a range that covers it: `Compare(v, v) ≠ 0`, `Merge` cannot find the stored value it is about to
free — the real code then reads freed memory (ASan: heap-use-after-free).  (`Item.Regular.r2` fails: the range is reversed.) -/
theorem reversed_range_dangling_counterexample  :
    Gen.IpAcl.rejectsReversedRange = false →
   (parse [.item ⟨.v4, 0x0a000005, some 0x0a000003, .none⟩, .item ⟨.v4, 0x0a000001, some 0x0a000009, .none⟩] = .dangling ∧
    Ip.compare ⟨V4ANY + 0x0a000005, V4ANY + 0x0a000003, ALL1⟩ ⟨V4ANY + 0x0a000005, V4ANY + 0x0a000003, ALL1⟩ = -1) := by
  first | (intro h; exact absurd h (by decide)) | (intro _; decide)

/-! ### the hypotheses are satisfiable and the reference reading is not vacuous -/

/-- squid.conf's `localnet`-style list: private IPv4 networks and IPv6 ULA / link-local -/
def localnet : List Token :=
  [.item ⟨.v4, 0x0a000000, none, .cidr 8⟩, .item ⟨.v4, 0xac100000, none, .cidr 12⟩, .item ⟨.v4, 0xc0a80000, none, .dotted 0xffff0000⟩,
   .item ⟨.v6, 0xfc00 <<< 112, none, .cidr 7⟩, .item ⟨.v6, 0xfe80 <<< 112, none, .cidr 10⟩,
   .item ⟨.v4, 0x0a000005, some 0x0a000009, .none⟩, .item ⟨.v4, 0x0a010203, none, .cidr 24⟩]

example : RegularList localnet := regularList_of_okB (by decide)
example : PlainList localnet := by decide
example : PlainProbe localnet (V4ANY + 0x0a636363) ∧ PlainProbe localnet (0xfe80 <<< 112 + 1) ∧ PlainProbe localnet 1 := by decide
/-- the theorem's answer on concrete probes: 10.99.99.99 yes, 172.32.0.0 no, 192.168.255.255 yes, fe80::1 yes, ::1 no -/
example : [V4ANY + 0x0a636363, V4ANY + 0xac200000, V4ANY + 0xc0a8ffff, 0xfe80 <<< 112 + 1, 1].map (unionB localnet)
    = [true, false, true, true, false] := by decide
/-- and the model run on them -/
example : verdicts localnet [V4ANY + 0x0a636363, V4ANY + 0xac200000, V4ANY + 0xc0a8ffff, 0xfe80 <<< 112 + 1, 1]
    = some [true, false, true, true, false] := by decide
/-- an IPv4-only list with both special addresses as values -/
example : RegularList [one4 0, one4 0xffffffff, .item ⟨.v4, 0xe0000000, none, .cidr 3⟩] ∧
    V4List [one4 0, one4 0xffffffff, .item ⟨.v4, 0xe0000000, none, .cidr 3⟩] :=
  ⟨regularList_of_okB (by decide), by intro it h; simp [one4] at h; rcases h with rfl | rfl | rfl <;> rfl⟩
/-- irregular tokens are recognised: /33 on IPv4, a reversed range, a non-contiguous netmask, /0 -/
example : Item.regularB ⟨.v4, 0x0a000000, none, .cidr 33⟩ = false ∧ Item.regularB ⟨.v4, 9, some 3, .none⟩ = false ∧
    Item.regularB ⟨.v4, 0, none, .dotted 0xff00ff00⟩ = false ∧ Item.regularB ⟨.v6, 0, none, .cidr 0⟩ = false := by decide
/-- partial overlaps are combined, nested values dropped: 10.0.0.1-5, 10.0.0.3-9, 10.0.0.4 end up as one stored range -/
example : (match parse [.item ⟨.v4, 0x0a000001, some 0x0a000005, .none⟩, .item ⟨.v4, 0x0a000003, some 0x0a000009, .none⟩, one4 0x0a000004] with
    | .ok acl ev => (acl.tree.inorder, ev)
    | _ => ([], [])) = ([⟨V4ANY + 0x0a000001, V4ANY + 0x0a000009, ALL1⟩], [.combined, .ignoredNew]) := by decide

end SquidModel.C42
