/-
C42 — IP-address ACLs match exactly the configured address sets.

Property theorems only; the model is `SquidModel.Acl.Ip` (splay tree: `SquidModel.Acl.DomainTree`).
-/
import SquidModel.Acl.Ip

namespace SquidModel.C42
open SquidModel.Acl SquidModel.Acl.Ip

/-- `acl x dst ::1 0.0.0.0`: `::1` is not matched (it is when the two values are written in the other order). -/
theorem anyaddr_order_counterexample :
    verdicts [.item ⟨.v6, 1, none, .none⟩, .item ⟨.v4, 0, none, .none⟩] [1, V4ANY] = some [false, true] ∧
    verdicts [.item ⟨.v4, 0, none, .none⟩, .item ⟨.v6, 1, none, .none⟩] [1, V4ANY] = some [true, true] := by decide

end SquidModel.C42
