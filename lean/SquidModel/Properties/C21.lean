/-
C21 — HTTP request parsing does not depend on how input is segmented.

Property theorems only.  Model: `SquidModel.Http1.Request` (RequestParser::doParse and everything below it, driven
like ConnStateData::parseHttpRequest drives it); proofs: `SquidModel.Http1.SegLemmas`, `SquidModel.Http1.SegProof`.
All statements are for every byte string, every list of segments, both parsing modes.

HEADLINE: `parse_segments_eq_oneShot` — the property at full strength for the code as it is now (`current`: the two
repairs 37a6911 / 63b469c are in the tree; the translator probes the staged code for them every run and the proof
uses the probed flags, so it stops checking if either repair is lost).  Its only hypothesis is on the configuration:
`request_header_max_size ≥ maxMethodLength + 2` (= 34).  Without it the statement is false
(`tiny_limit_counterexample`, known finding C21-tiny-limit: with a limit of a few bytes the 400/414 verdict of the
length check depends on how much of the method has arrived):

    theorem parse_segments_eq_oneShot_all_limits (relaxed : Bool) (limit : Nat) (segs : List Bytes) :
        incremental (current relaxed limit) segs = oneShot (current relaxed limit) segs.flatten      -- FALSE for limit < 34

`parse_segments_eq_oneShot_partial` is the general form for any setting of the repair switches, with the input regions
in which an unrepaired parser depends on segmentation as explicit hypotheses; the section "historical" keeps the
counterexamples that were true of the tree before the repairs, as statements about the model with the switches off.
-/
import SquidModel.Http1.SegProof

namespace SquidModel.C21
open SquidModel.Http1 SquidModel.Gen.Http1Request

/-- The parser configuration of the tree as it is built: mode and limit are free, the two repair switches are what the
translator probed in the staged code (`Gen.Http1Request.fixCr`, `fixLine`). -/
def current (relaxed : Bool) (limit : Nat) : Cfg :=
  { relaxed := relaxed, limit := limit, fixCr := fixCr, fixLine := fixLine }

/-- the probes see both repairs in the tree -/
theorem repairs_present : fixCr = true ∧ fixLine = true := by decide

/-- Excluded region 1 (finding C21-cr-split, repaired): the relaxed parser, and some segment boundary at which everything
delivered so far is empty lines followed by one CR, while the next byte to arrive is LF. -/
def CrSplit (cfg : Cfg) (segs : List Bytes) : Prop :=
  ∃ k, cfg.relaxed = true ∧ cfg.fixCr = false ∧
    skipGarbage (segs.take k).flatten = [13] ∧ (segs.drop k).flatten.head? = some 10

/-- Excluded region 2 (finding C21-line-limit, repaired): the first line of the input (after the leading empty lines the relaxed
parser skips; up to but excluding its LF, or everything when there is no LF) is at least `limit` bytes long. -/
def LineReachesLimit (cfg : Cfg) (bytes : Bytes) : Prop :=
  cfg.fixLine = false ∧ cfg.limit ≤ ((strip cfg bytes).takeWhile notLF).length

/-- Outside the two regions, delivering a request in any increments gives the same outcome (need-more with the same
consumed length / accepted with the same method, target, version, header block and consumed length / rejected with
the same status) as delivering it at once. The last hypothesis only concerns the repaired line-length check. -/
theorem parse_segments_eq_oneShot_partial (cfg : Cfg) (segs : List Bytes)
    (h1 : ¬CrSplit cfg segs) (h2 : ¬LineReachesLimit cfg segs.flatten)
    (h3 : cfg.fixLine = true → maxMethodLength + 2 ≤ cfg.limit) :
    incremental cfg segs = oneShot cfg segs.flatten := by
  apply incremental_eq_oneShot_of
  · apply noCrSplitFrom_of_forall
    intro k hz
    exact h1 ⟨k, hz.1, hz.2.1, by simpa using hz.2.2.1, hz.2.2.2⟩
  · unfold lineCond
    split
    · rename_i hf; exact h3 hf
    · rename_i hf
      unfold LineReachesLimit at h2
      have : ¬cfg.limit ≤ ((strip cfg segs.flatten).takeWhile notLF).length := fun h => h2 ⟨by simpa using hf, h⟩
      omega

/-- The pinned code (`fixCr = fixLine = false`), strict mode: only the line-length region is excluded. -/
theorem parse_segments_eq_oneShot_strict_partial (limit : Nat) (segs : List Bytes)
    (h2 : ((segs.flatten).takeWhile notLF).length < limit) :
    incremental { relaxed := false, limit := limit } segs = oneShot { relaxed := false, limit := limit } segs.flatten := by
  apply parse_segments_eq_oneShot_partial
  · intro ⟨_, h, _⟩; simp at h
  · intro ⟨_, h⟩
    simp only [strip, Bool.false_eq_true, ↓reduceIte] at h
    omega
  · intro h; simp at h

/-- With both candidate repairs the property holds for all inputs and all segmentations (the limit must leave room
for a method and two more bytes, 34 with the regenerated constant). -/
theorem parse_segments_eq_oneShot_fixed (cfg : Cfg) (hcr : cfg.fixCr = true) (hln : cfg.fixLine = true)
    (hlim : maxMethodLength + 2 ≤ cfg.limit) (segs : List Bytes) :
    incremental cfg segs = oneShot cfg segs.flatten := by
  apply parse_segments_eq_oneShot_partial
  · intro ⟨_, _, h, _⟩; simp [hcr] at h
  · intro ⟨h, _⟩; simp [hln] at h
  · intro _; exact hlim

/-- **C21 for the code as it is now.** For either parsing mode, any limit of at least 34 bytes, any byte string and any
way of delivering it in increments, incremental parsing reports the same outcome as parsing it at once: need-more with
the same consumed length, or accepted with the same method, target, version, header block and consumed length, or
rejected with the same status. -/
theorem parse_segments_eq_oneShot (relaxed : Bool) (limit : Nat) (hlim : maxMethodLength + 2 ≤ limit)
    (segs : List Bytes) :
    incremental (current relaxed limit) segs = oneShot (current relaxed limit) segs.flatten :=
  parse_segments_eq_oneShot_fixed (current relaxed limit) repairs_present.1 repairs_present.2 hlim segs

/-- ... in particular for every split point of every input. -/
theorem parse_split_eq_oneShot (relaxed : Bool) (limit : Nat) (hlim : maxMethodLength + 2 ≤ limit) (a b : Bytes) :
    incremental (current relaxed limit) [a, b] = oneShot (current relaxed limit) (a ++ b) := by
  simpa using parse_segments_eq_oneShot relaxed limit hlim [a, b]

/-- Corollary for every split point of every input. -/
theorem parse_split_eq_oneShot_partial (cfg : Cfg) (a b : Bytes)
    (h1 : ¬(cfg.relaxed = true ∧ cfg.fixCr = false ∧ skipGarbage a = [13] ∧ b.head? = some 10))
    (h2 : ¬LineReachesLimit cfg (a ++ b)) (h3 : cfg.fixLine = true → maxMethodLength + 2 ≤ cfg.limit) :
    incremental cfg [a, b] = oneShot cfg (a ++ b) := by
  have := parse_segments_eq_oneShot_partial cfg [a, b] ?_ (by simpa using h2) h3
  · simpa using this
  · intro ⟨k, hr, hf, hs, hh⟩
    match k with
    | 0 => simp at hs
    | 1 => exact h1 ⟨hr, hf, by simpa using hs, by simpa using hh⟩
    | k + 2 => simp at hh

/-! ### the limit hypothesis is needed (known finding C21-tiny-limit, re-confirmed on the real parser every run) -/

/-- with a 2-byte limit the verdict of the length check (400 or 414) depends on how much of the method has arrived
("PR" then "OPFIND /"), also in the repaired code. -/
theorem tiny_limit_counterexample :
    incremental (current false 2) [[80, 82], [79, 80, 70, 73, 78, 68, 32, 47]] = .rejected 400 ∧
    oneShot (current false 2) [80, 82, 79, 80, 70, 73, 78, 68, 32, 47] = .rejected 414 := by
  constructor <;> decide +kernel

/-- the former witnesses now give equal outcomes (they stay in corpus/C21 as regression cases) -/
example : incremental (current true 65536) [[13], [10, 71, 69, 84, 32, 47, 32, 72, 84, 84, 80, 47, 49, 46, 49, 13, 10, 13, 10]]
    = oneShot (current true 65536) [13, 10, 71, 69, 84, 32, 47, 32, 72, 84, 84, 80, 47, 49, 46, 49, 13, 10, 13, 10] := by decide +kernel

/-! ### historical: the model with the repair switches OFF (the tree before commits 37a6911 and 63b469c)

These are statements about `{ fixCr := false, fixLine := false }`, i.e. NOT about the code as it is now; they record why
the two hypotheses of `parse_segments_eq_oneShot_partial` exist and what the repairs removed. -/

/-- "\r" then "\nGET / HTTP/1.1\r\n\r\n" (relaxed): 400 incrementally, accepted in one shot. -/
theorem unrepaired_cr_split_counterexample :
    incremental { relaxed := true, limit := 65536 } [[13], [10, 71, 69, 84, 32, 47, 32, 72, 84, 84, 80, 47, 49, 46, 49, 13, 10, 13, 10]]
      = .rejected 400 ∧
    oneShot { relaxed := true, limit := 65536 } [13, 10, 71, 69, 84, 32, 47, 32, 72, 84, 84, 80, 47, 49, 46, 49, 13, 10, 13, 10]
      = .accepted [71, 69, 84] true [47] 1 1 [13, 10] 20 := by
  constructor <;> decide +kernel

/-- "GET /aaaaaa HTTP/1.1" then "\r\n\r\n" with a 20-byte limit (strict): 414 incrementally, 431 in one shot. -/
theorem unrepaired_line_limit_counterexample :
    incremental { relaxed := false, limit := 20 } [[71, 69, 84, 32, 47, 97, 97, 97, 97, 97, 97, 32, 72, 84, 84, 80, 47, 49, 46, 49], [13, 10, 13, 10]]
      = .rejected 414 ∧
    oneShot { relaxed := false, limit := 20 } [71, 69, 84, 32, 47, 97, 97, 97, 97, 97, 97, 32, 72, 84, 84, 80, 47, 49, 46, 49, 13, 10, 13, 10]
      = .rejected 431 := by
  constructor <;> decide +kernel

/-- the relaxed parser even accepts in one shot what it rejects incrementally:
"GET" + 20 spaces then "/ HTTP/1.1\n\n" with a 20-byte limit. -/
theorem unrepaired_line_limit_accept_counterexample :
    incremental { relaxed := true, limit := 20 }
      [[71, 69, 84, 32, 32, 32, 32, 32, 32, 32, 32, 32, 32, 32, 32, 32, 32, 32, 32, 32, 32, 32, 32], [47, 32, 72, 84, 84, 80, 47, 49, 46, 49, 10, 10]]
      = .rejected 414 ∧
    oneShot { relaxed := true, limit := 20 }
      [71, 69, 84, 32, 32, 32, 32, 32, 32, 32, 32, 32, 32, 32, 32, 32, 32, 32, 32, 32, 32, 32, 32, 47, 32, 72, 84, 84, 80, 47, 49, 46, 49, 10, 10]
      = .accepted [71, 69, 84] true [47] 1 1 [10] 35 := by
  constructor <;> decide +kernel

/-! ### non-vacuity -/

/-- the hypotheses of the partial theorem are satisfiable, also in relaxed mode with leading empty lines and a cut
inside them -/
example : ¬CrSplit { relaxed := true, limit := 65536 } [[13, 10], [13, 10, 71]] := by
  intro ⟨k, _, _, h, _⟩
  match k with
  | 0 => simp at h
  | 1 => simp at h
  | k + 2 =>
    simp at h
    rw [skipGarbage_other [] (by decide) (by decide)] at h
    simp at h
example : ¬LineReachesLimit { relaxed := true, limit := 65536 } [13, 10, 71, 69, 84] := by
  intro ⟨_, h⟩
  have : ((strip { relaxed := true, limit := 65536 } [13, 10, 71, 69, 84]).takeWhile notLF).length = 3 := by decide +kernel
  rw [this] at h
  simp at h

/-- the three kinds of outcome occur -/
example : oneShot { relaxed := false, limit := 65536 } [71, 69, 84, 32, 47] = .needMore 0 := by decide +kernel
example : oneShot { relaxed := false, limit := 65536 } [71, 69, 84, 32, 47, 32, 72, 84, 84, 80, 47, 49, 46, 49, 13, 10, 72, 58, 120, 13, 10, 13, 10, 66]
    = .accepted [71, 69, 84] true [47] 1 1 [72, 58, 120, 13, 10, 13, 10] 23 := by decide +kernel
example : oneShot { relaxed := false, limit := 65536 } [71, 69, 84, 32, 32, 47, 32, 72, 84, 84, 80, 47, 49, 46, 49, 13, 10] = .rejected 400 := by
  decide +kernel
/-- an incremental run that goes through all stages: "\n", "GE", "T / HTTP/1.1\r\nA: b\r\n", " c\r\n\r\nX" (relaxed; obs-fold unfolded) -/
example : incremental { relaxed := true, limit := 65536 }
    [[10], [71, 69], [84, 32, 47, 32, 72, 84, 84, 80, 47, 49, 46, 49, 13, 10, 65, 58, 32, 98, 13, 10], [32, 99, 13, 10, 13, 10, 88]]
    = .accepted [71, 69, 84] true [47] 1 1 [65, 58, 32, 98, 32, 99, 13, 10, 13, 10] 29 := by decide +kernel

end SquidModel.C21
