/-
C43 — Integer-range ACLs match exactly the configured ranges.

Property theorems only.  Model: `SquidModel.Acl.IntRange` (ACLIntRange::parse/match/dump, Range<int>, xatos/xatol/xatoll,
strtoll); lemmas: `SquidModel.Acl.IntRangeLemmas`; platform constants regenerated into `SquidModel.Gen.IntRange`.
All statements hold for every list of parameters (any length, any order, overlaps, duplicates) and every `int` probe.

A *well-formed parameter* (`Param`, specification side) is a non-empty string of decimal digits, or two of them joined by `-`,
with values `lo ≤ hi ≤ 65535` (leading zeros allowed); `Param.token` is its configuration text.
-/
import SquidModel.Acl.IntRangeLemmas

namespace SquidModel.C43
open SquidModel.Acl.IntRange

/-- **Main statement.** Any list of well-formed values and ranges is accepted, and `match(i)` — for every `int` `i`, INT_MAX and
negative numbers included — answers `true` exactly when `i` lies in the union of the listed ranges. (`match` performs no
arithmetic on `i` since squid commit 21bf4c4, so there is no undefined behaviour to exclude.) -/
theorem match_iff_union (ps : List Param) (hv : ∀ p ∈ ps, p.Valid) :
    ∃ rs, parse (ps.map Param.token) = .ok rs ∧
      ∀ i : Int, matchInt rs i = true ↔ ∃ p ∈ ps, (p.lo : Int) ≤ i ∧ i ≤ (p.hi : Int) := by
  refine ⟨_, parse_params ps hv, ?_⟩
  intro i
  rw [matchInt_spec]
  constructor
  · rintro ⟨r, hr, h1, h2⟩
    obtain ⟨p, hp, rfl⟩ := List.mem_map.mp hr
    exact ⟨p, hp, h1, by simp only at h2; omega⟩
  · rintro ⟨p, hp, h1, h2⟩
    exact ⟨_, List.mem_map.mpr ⟨p, hp, rfl⟩, h1, by simp only; omega⟩

/- Historical note (before squid commit 21bf4c4): `match(int i)` built `Range<int>(i, i+1)`; for `i = INT_MAX` that was a signed
   overflow (finding C43-match-intmax-overflow, status fixed; the witness `a 3830 2147483647` stays in the corpus as a regression
   case that must now answer `0`). -/

/-- Whatever spelling was accepted (including the lax ones `strtoll` admits: sign, C white space): every stored range is
non-empty and inside the port space, there is one per parameter, and `match` is exactly membership in the stored ranges. -/
theorem accepted_ranges_sound (toks : List Bytes) (rs : List Range) (h : parse toks = .ok rs) :
    rs.length = toks.length ∧
    (∀ r ∈ rs, 0 ≤ r.start ∧ r.start < r.stop ∧ r.stop ≤ 65536) ∧
    ∀ i : Int, matchInt rs i = true ↔ ∃ r ∈ rs, r.start ≤ i ∧ i < r.stop :=
  ⟨(parse_ok_iff.mp h).1.symm, parse_bounds h, fun i => matchInt_spec rs i⟩

/-- Nothing outside 0..65535 ever matches an accepted list. -/
theorem no_match_outside_port_space (toks : List Bytes) (rs : List Range) (h : parse toks = .ok rs)
    (i : Int) (hout : i < 0 ∨ 65535 < i) : matchInt rs i = false := by
  cases hb : matchInt rs i with
  | false => rfl
  | true =>
    obtain ⟨r, hr, h1, h2⟩ := (matchInt_spec rs i).mp hb
    have := parse_bounds h r hr
    omega

/-- One refused parameter refuses the whole list (squid calls `self_destruct()`), … -/
theorem invalid_parameter_rejects_list (toks : List Bytes) (t : Bytes) (hm : t ∈ toks) (e : Reject)
    (ht : parseToken t = .error e) : ∃ e', parse toks = .error e' :=
  parse_error_of_mem hm ht

/-- … and the error reported is that of the first refused parameter. -/
theorem first_invalid_parameter_reported (pre : List Bytes) (t : Bytes) (post : List Bytes) (rs : List Range) (e : Reject)
    (hpre : parse pre = .ok rs) (ht : parseToken t = .error e) : parse (pre ++ t :: post) = .error e :=
  parse_error_first pre t post rs e hpre ht

/-- Descending ranges and values above 65535 written in plain decimal are refused. -/
theorem descending_range_rejected (ds1 ds2 : Bytes) (h1 : ds1 ≠ []) (d1 : ds1.all isDigit = true)
    (h2 : ds2 ≠ []) (d2 : ds2.all isDigit = true) (hle : decVal ds1 ≤ 65535) (hdesc : decVal ds2 < decVal ds1) :
    parseToken (ds1 ++ 45 :: ds2) = .error .descending := by
  have hle2 : decVal ds2 ≤ 65535 := by omega
  simp only [parseToken, splitDash_range _ _ d1, xatos_digits _ h1 d1 hle, xatos_digits _ h2 d2 hle2]
  have : ¬ (decVal ds2 ≥ decVal ds1) := by omega
  simp [this]

theorem too_large_value_rejected (ds : Bytes) (h1 : ds ≠ []) (d1 : ds.all isDigit = true) (hgt : decVal ds > 65535) :
    parseToken ds = .error .tooLarge := by
  simp only [parseToken, splitDash_digits _ d1, xatos_digits_tooLarge _ h1 d1 hgt]

/-! Non-vacuity: well-formed parameters exist, the hypotheses are satisfiable, and the model computes what squid computes on
concrete configuration text (`80 443-500 1-1`, byte lists written out). -/

example : (⟨[56, 48], none⟩ : Param).Valid := by decide
example : (⟨[52, 52, 51], some [53, 48, 48]⟩ : Param).Valid := by decide
example : ¬ (⟨[53], some [52]⟩ : Param).Valid := by decide
example : (⟨[52, 52, 51], some [53, 48, 48]⟩ : Param).token = [52, 52, 51, 45, 53, 48, 48] := by decide
example : parse [[56, 48], [52, 52, 51, 45, 53, 48, 48], [49, 45, 49]] = .ok [⟨80, 81⟩, ⟨443, 501⟩, ⟨1, 2⟩] := by decide
example : matchInt [⟨80, 81⟩, ⟨443, 501⟩, ⟨1, 2⟩] 500 = true := by decide
example : matchInt [⟨80, 81⟩, ⟨443, 501⟩, ⟨1, 2⟩] 501 = false := by decide
example : matchInt [] 0 = false := by decide
example : matchInt [⟨80, 81⟩] 2147483647 = false := by decide
-- overlapping and unordered lists
example : matchInt [⟨10, 21⟩, ⟨5, 16⟩, ⟨10, 21⟩] 7 = true := by decide
-- lax spellings the real code accepts (covered by `accepted_ranges_sound`, not by `match_iff_union`): "+5", "\v7"
example : parse [[43, 53]] = .ok [⟨5, 6⟩] := by decide
example : parse [[11, 55]] = .ok [⟨7, 8⟩] := by decide
-- refusals: "5-", "-5", "9-3", "65536", "5--3", "1-2-3", "99999999999999999999", "5x"
example : parse [[53, 45]] = .error .noDigits := by decide
example : parse [[45, 53]] = .error .noDigits := by decide
example : parse [[57, 45, 51]] = .error .descending := by decide
example : parse [[54, 53, 53, 51, 54]] = .error .tooLarge := by decide
example : parse [[53, 45, 45, 51]] = .error .negative := by decide
example : parse [[49, 45, 50, 45, 51]] = .error .trailing := by decide
example : parse [[53, 120]] = .error .trailing := by decide

end SquidModel.C43
