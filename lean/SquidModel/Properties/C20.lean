/-
C20 — Successful unsafe requests invalidate cached responses.

  "After a non-error response to a POST, PUT, DELETE or other invalidating method for a URL, Squid does not serve a response
   cached before that request for the same URL. The same applies to a same-host URL named in that response's Location or
   Content-Location."

Full statement (for the model of SquidModel/Cache/Purge*.lean): for every history, after a forwarded request with a purging method
and a reply status < 400, no later hit for the request's URL or for a same-host URL named by Location/Content-Location returns a
reply stored before that request.  That statement is FALSE of the real code in three ways, each proved below and confirmed on the
binary:
  * Vary variants survive `purgeEntriesByUrl` (only the base key is evicted): `vary_variant_survives_counterexample`;
  * a relative-path Location is never purged in this tree (`addRelativePath` keeps the memoised absolute form):
    `relative_location_counterexample` (stated under the regenerated flag; `relative_location_purged` is the theorem after the fix);
  * a same-host URL in another spelling (scheme/host case, default port, fragment, dot segments, network-path reference) is keyed by
    its raw text: `respelled_location_counterexample`.
Proved (`_partial`): the statement for every URL that `maybePurgeOthers` purges, with the explicit hypothesis that no Vary variant
of that URL is in the store when the request is answered; plus which URLs are purged.
-/
import SquidModel.Cache.PurgeLemmas
import SquidModel.Cache.PurgeCanon

namespace SquidModel.C20
open SquidModel SquidModel.Gen SquidModel.Cache.Purge

/-! ### which URLs a reply purges -/

/-- The request's own (effective) URL is purged whenever the method purges and the status is below 400. -/
theorem request_url_purged (m status : Nat) (u : Uri) (loc cloc : Option Bytes)
    (hm : purgesOthers m = true) (hs : status < 400) :
    effectiveRequestUri m u ∈ purgedUrls m status u loc cloc :=
  mem_purgedUrls_self hm hs

/-- … and each cacheable method's key for it is handed to `evictIfFound`. -/
theorem request_url_keys_evicted (m status : Nat) (u : Uri) (loc cloc : Option Bytes) (cm : Nat)
    (hm : purgesOthers m = true) (hs : status < 400) (hcm : cm ∈ cacheableMethods) :
    (cm, effectiveRequestUri m u) ∈ maybePurgeOthers m status u loc cloc := by
  unfold maybePurgeOthers
  simp only [List.mem_flatMap]
  exact ⟨_, mem_purgedUrls_self hm hs, by simp [purgeEntriesByUrl]; exact hcm⟩

/-- Error replies and non-purging methods evict nothing. -/
theorem error_reply_purges_nothing (m status : Nat) (u : Uri) (loc cloc : Option Bytes) (hs : 400 ≤ status) :
    maybePurgeOthers m status u loc cloc = [] := by
  simp [maybePurgeOthers, purgedUrls_nil_of_error hs]

theorem non_purging_method_purges_nothing (m status : Nat) (u : Uri) (loc cloc : Option Bytes) (hm : purgesOthers m = false) :
    maybePurgeOthers m status u loc cloc = [] := by
  simp [maybePurgeOthers, purgedUrls_nil_of_not_purging hm]

/-- A Location (or Content-Location) that starts with `/` purges scheme://authority + that path (percent-encoded like every
request path). -/
theorem absolute_path_location_purged (m status : Nat) (u : Uri) (h : Bytes) (other : Option Bytes)
    (hm : purgesOthers m = true) (hs : status < 400) (hc : m ≠ PurgeTables.methodConnect) (hslash : hd h = slash) :
    buildAbsolute { u with path := h, absMemo := none } ∈ purgedUrls m status u (some h) other ∧
    buildAbsolute { u with path := h, absMemo := none } ∈ purgedUrls m status u other (some h) := by
  have e : headerTarget m (if m = PurgeTables.methodConnect then u else afterAbsolute u) (effectiveRequestUri m u) (some h)
      = some (buildAbsolute { u with path := h, absMemo := none }) := by
    rw [if_neg hc, headerTarget_abs_path hc hslash]
    simp [afterAbsolute, buildAbsolute, authorityHttp]
  exact ⟨mem_purgedUrls_loc hm hs e, mem_purgedUrls_cloc hm hs e⟩

/-- An absolute Location that passes `sameUrlHosts` against the request URL is purged under exactly the text given. -/
theorem same_host_location_purged_exact (m status : Nat) (u : Uri) (h : Bytes) (other : Option Bytes)
    (hm : purgesOthers m = true) (hs : status < 400)
    (habs : urlIsRelative h = false) (hsame : sameUrlHosts (effectiveRequestUri m u) h = true) :
    h ∈ purgedUrls m status u (some h) other ∧ h ∈ purgedUrls m status u other (some h) :=
  ⟨mem_purgedUrls_loc hm hs (headerTarget_abs_same_host habs hsame), mem_purgedUrls_cloc hm hs (headerTarget_abs_same_host habs hsame)⟩

/-- Canonical spelling is enough (second sentence of the property for canonical spellings): for a request URL `u` and ANY URL `u'`
with the same scheme, host and port whose path starts with `/`, a Location/Content-Location that spells `u'` exactly as
`AnyP::Uri::absolute()` prints it is recognised as an absolute URL of the same host and purged. -/
theorem canonical_same_host_location_purged (m status : Nat) (u u' : Uri) (other : Option Bytes)
    (hm : purgesOthers m = true) (hs : status < 400) (hc : m ≠ PurgeTables.methodConnect) (hmemo : u.absMemo = none)
    (hsame : u'.scheme = u.scheme ∧ u'.host = u.host ∧ u'.port = u.port ∧ u'.defaultPort = u.defaultPort)
    (hscheme : u.scheme ≠ [] ∧ ∀ c ∈ u.scheme, c ≠ 0 ∧ c ≠ colon ∧ c ≠ slash ∧ c ≠ 63 ∧ c ≠ 35)
    (hauth : authorityHttp u ≠ [] ∧ ∀ c ∈ authorityHttp u, c ≠ 0 ∧ c ≠ slash)
    (p p' : Bytes) (hp : u.path = slash :: p) (hp' : u'.path = slash :: p') :
    buildAbsolute u' ∈ purgedUrls m status u (some (buildAbsolute u')) other ∧
    buildAbsolute u' ∈ purgedUrls m status u other (some (buildAbsolute u')) := by
  obtain ⟨hrel, hsameHosts⟩ := canonical_location_recognised u u' hsame hscheme hauth p p' hp hp'
  have he : effectiveRequestUri m u = buildAbsolute u := by simp [effectiveRequestUri, hc, absolute, hmemo]
  have h1 : headerTarget m (if m = PurgeTables.methodConnect then u else afterAbsolute u) (effectiveRequestUri m u) (some (buildAbsolute u'))
      = some (buildAbsolute u') := by
    rw [he]; exact headerTarget_abs_same_host hrel hsameHosts
  exact ⟨mem_purgedUrls_loc hm hs h1, mem_purgedUrls_cloc hm hs h1⟩

/-- An absolute Location that fails `sameUrlHosts` names nothing to purge. -/
theorem other_host_location_ignored (m : Nat) (u : Uri) (reqUrl h : Bytes)
    (habs : urlIsRelative h = false) (hdiff : sameUrlHosts reqUrl h = false) :
    headerTarget m u reqUrl (some h) = none :=
  headerTarget_abs_other_host habs hdiff

/-- `sameUrlHosts` says yes only when, after the first colon and the same number of slashes, both URLs carry the same non-empty
authority text up to the next slash: a reply cannot make Squid purge an absolute URL of another host. -/
theorem sameUrlHosts_sound (url1 url2 : Bytes) (h1 : ∀ c ∈ url1, c ≠ 0) (h2 : ∀ c ∈ url2, c ≠ 0)
    (h : sameUrlHosts url1 url2 = true) :
    ∃ (c1 c2 : Bytes) (k : Nat) (r1 r2 : Bytes),
      atColon url1 = some c1 ∧ atColon url2 = some c2 ∧
      c1.tail = List.replicate k slash ++ r1 ∧ c2.tail = List.replicate k slash ++ r2 ∧
      hostText r1 = hostText r2 ∧ hostText r1 ≠ [] :=
  sameUrlHosts_sound_aux url1 url2 h1 h2 h

/-- Every purged URL is the request URL, or comes from one of the two headers. -/
theorem purged_urls_come_from_request_or_headers (m status : Nat) (u : Uri) (loc cloc : Option Bytes) (t : Bytes)
    (h : t ∈ purgedUrls m status u loc cloc) :
    t = effectiveRequestUri m u ∨
    headerTarget m (if m = PurgeTables.methodConnect then u else afterAbsolute u) (effectiveRequestUri m u) loc = some t ∨
    headerTarget m (if m = PurgeTables.methodConnect then u else afterAbsolute u) (effectiveRequestUri m u) cloc = some t :=
  mem_purgedUrls_cases h

/-- No reply can make Squid purge a URL of another authority: every purged URL is the request URL itself, or starts with the request's
own `scheme://authority` (relative references are resolved against the request URL), or passed `sameUrlHosts` against the request URL
(then `sameUrlHosts_sound` applies). -/
theorem purged_urls_stay_on_the_request_host (m status : Nat) (u : Uri) (loc cloc : Option Bytes) (t : Bytes)
    (hc : m ≠ PurgeTables.methodConnect) (hmemo : u.absMemo = none)
    (h : t ∈ purgedUrls m status u loc cloc) :
    t = buildAbsolute u ∨ (∃ p, t = originPrefix u ++ p) ∨ sameUrlHosts (buildAbsolute u) t = true := by
  have he : effectiveRequestUri m u = buildAbsolute u := by simp [effectiveRequestUri, hc, absolute, hmemo]
  have key : ∀ hdr : Option Bytes, headerTarget m (afterAbsolute u) (buildAbsolute u) hdr = some t →
      t = buildAbsolute u ∨ (∃ p, t = originPrefix u ++ p) ∨ sameUrlHosts (buildAbsolute u) t = true := by
    intro hdr ht
    cases hdr with
    | none => simp [headerTarget] at ht
    | some v =>
      by_cases hrel : urlIsRelative v = true
      · by_cases hsl : hd v = slash
        · rw [headerTarget_abs_path hc hsl] at ht
          injection ht with ht
          right; left
          exact ⟨encode PurgeTables.PATH v, by rw [← ht]; simp [buildAbsolute, originPrefix, authorityHttp, afterAbsolute]⟩
        · rw [headerTarget_rel_path hc hrel hsl] at ht
          injection ht with ht
          by_cases htouch : PurgeTables.addRelativePathTouches = true
          · right; left
            rw [absolute_addRelativePath_of_touch htouch] at ht
            exact ⟨encode PurgeTables.PATH (mergePath u.path v), by rw [← ht]; simp [buildAbsolute, originPrefix, authorityHttp, afterAbsolute]⟩
          · left
            have hno : PurgeTables.addRelativePathTouches = false := by simpa using htouch
            rw [absolute_addRelativePath_of_no_touch hno] at ht
            rw [← ht]; simp [absolute, hmemo]
      · have hrel' : urlIsRelative v = false := by simpa using hrel
        by_cases hs : sameUrlHosts (buildAbsolute u) v = true
        · rw [headerTarget_abs_same_host hrel' hs] at ht
          injection ht with ht
          right; right; rw [← ht]; exact hs
        · have hs' : sameUrlHosts (buildAbsolute u) v = false := by simpa using hs
          rw [headerTarget_abs_other_host hrel' hs'] at ht
          cases ht
  rcases mem_purgedUrls_cases h with h | h | h
  · left; rw [h, he]
  · rw [if_neg hc, he] at h; exact key loc h
  · rw [if_neg hc, he] at h; exact key cloc h

/-! ### relative-path references: the memoised absolute form -/

/-- After the fix (`addRelativePath` clears the memo) a relative-path Location purges the merged URL. -/
theorem relative_location_purged (htouch : PurgeTables.addRelativePathTouches = true)
    (m status : Nat) (u : Uri) (h : Bytes) (other : Option Bytes)
    (hm : purgesOthers m = true) (hs : status < 400) (hc : m ≠ PurgeTables.methodConnect)
    (hrel : urlIsRelative h = true) (hns : hd h ≠ slash) :
    buildAbsolute { u with path := mergePath u.path h, absMemo := none } ∈ purgedUrls m status u (some h) other := by
  have e : headerTarget m (if m = PurgeTables.methodConnect then u else afterAbsolute u) (effectiveRequestUri m u) (some h)
      = some (buildAbsolute { u with path := mergePath u.path h, absMemo := none }) := by
    rw [if_neg hc, headerTarget_rel_path hc hrel hns, absolute_addRelativePath_of_touch htouch]
    simp [afterAbsolute, buildAbsolute, authorityHttp]
  exact mem_purgedUrls_loc hm hs e

/-- In the tree as it is (`addRelativePath` leaves the memoised `absolute_` of the copied request URL in place) a relative-path
Location makes Squid purge the request URL a second time and nothing else: the merged URL stays cached. -/
theorem relative_location_counterexample (hno : PurgeTables.addRelativePathTouches = false)
    (m status : Nat) (u : Uri) (h : Bytes)
    (hm : purgesOthers m = true) (hs : status < 400) (hc : m ≠ PurgeTables.methodConnect)
    (hrel : urlIsRelative h = true) (hns : hd h ≠ slash) :
    purgedUrls m status u (some h) none = [absolute u, absolute u] := by
  have hs' : ¬ status ≥ 400 := by omega
  have hh : headerTarget m (afterAbsolute u) (absolute u) (some h) = some (absolute u) := by
    rw [headerTarget_rel_path hc hrel hns, absolute_addRelativePath_of_no_touch hno]
  have hn : headerTarget m (afterAbsolute u) (absolute u) none = none := rfl
  simp [purgedUrls, hm, hs', hc, effectiveRequestUri, hh, hn]

/-! ### histories -/

/-- PARTIAL headline (the full statement fails for Vary variants, see `vary_variant_survives_counterexample`):
for every store `st` whose keys are for cacheable methods, every forwarded request (method `m`, parsed URL `u`) answered with
`status`, `loc`, `cloc`, every URL `U` that `maybePurgeOthers` purges for it, and every later history `rest` of arbitrary length:
provided no Vary variant of `U` is stored at that moment (`hnovariant`), a later request for `U` that is served from the cache
gets a reply produced by an origin contact after the forwarded request's own contact (`st.gen`). -/
theorem purged_url_never_served_stale_partial
    (st : St) (m status : Nat) (u : Uri) (loc cloc : Option Bytes) (U : Bytes) (rest : List Ev)
    (hwf : StoreWf st.store) (hok : ∀ ev ∈ rest, ev.ok)
    (hU : U ∈ purgedUrls m status u loc cloc)
    (hnovariant : ∀ e ∈ st.store, e.url = U → e.mark = none)
    (i mid : Nat) (mk : Bytes) (vary : Bool) (g : Nat)
    (hreq : rest[i]? = some (.fetch mid U mk vary))
    (hobs : (run (step st (.forward m u status loc cloc)).1 rest).2[i]? = some (.cached g)) :
    st.gen < g := by
  have hsub : ∀ e ∈ (if (m = PurgeTables.methodOther && PurgeTables.otherPurgesAtRequestTime) = true
      then evictAll st.store (purgeEntriesByUrl (effectiveRequestUri m u)) else st.store), e ∈ st.store := by
    intro e he
    split at he
    · exact evictAll_subset he
    · exact he
  have hfresh : FreshFor U st.gen (step st (.forward m u status loc cloc)).1.store := by
    simp only [step, maybePurgeOthers]
    exact freshFor_of_purged (fun e he => hwf e (hsub e he)) hU (fun e he => hnovariant e (hsub e he))
  have hwf' : StoreWf (step st (.forward m u status loc cloc)).1.store := by
    intro e he
    simp only [step] at he
    exact hwf e (hsub e (evictAll_subset he))
  exact run_hits_fresh rest _ hfresh hwf' hok (by simp [step]) i mid mk vary g hreq hobs

/-- Instance for the request's own URL: after a non-error reply to a purging method for `u`, a cached reply for that URL handed out
later was stored after that request. -/
theorem request_url_never_served_stale_partial
    (st : St) (m status : Nat) (u : Uri) (loc cloc : Option Bytes) (rest : List Ev)
    (hwf : StoreWf st.store) (hok : ∀ ev ∈ rest, ev.ok)
    (hm : purgesOthers m = true) (hs : status < 400)
    (hnovariant : ∀ e ∈ st.store, e.url = effectiveRequestUri m u → e.mark = none)
    (i mid : Nat) (mk : Bytes) (vary : Bool) (g : Nat)
    (hreq : rest[i]? = some (.fetch mid (effectiveRequestUri m u) mk vary))
    (hobs : (run (step st (.forward m u status loc cloc)).1 rest).2[i]? = some (.cached g)) :
    st.gen < g :=
  purged_url_never_served_stale_partial st m status u loc cloc _ rest hwf hok (mem_purgedUrls_self hm hs) hnovariant i mid mk vary g hreq hobs

/-- Unknown methods purge the request URL even when the reply is an error: `processMiss` purges before forwarding. -/
theorem unknown_method_purges_before_forwarding (hflag : PurgeTables.otherPurgesAtRequestTime = true)
    (st : St) (status : Nat) (u : Uri) (loc cloc : Option Bytes) (e : Entry)
    (he : e ∈ (step st (.forward PurgeTables.methodOther u status loc cloc)).1.store) (hcm : e.mid ∈ cacheableMethods)
    (hmark : e.mark = none) : e.url ≠ effectiveRequestUri PurgeTables.methodOther u := by
  intro hu
  simp only [step, hflag, Bool.and_true, decide_true, ↓reduceIte] at he
  have h1 := (mem_evictAll.mp (evictAll_subset he)).2 (e.mid, effectiveRequestUri PurgeTables.methodOther u)
    (by simp [purgeEntriesByUrl]; exact hcm)
  simp [Entry.hasKey, hu, hmark] at h1

/-! ### the store never runs empty-handed: examples -/

def uReq : Uri := { scheme := [104], host := [120], port := none, defaultPort := none, path := [47, 97], absMemo := none }  -- h://x/a
def urlA : Bytes := [104, 58, 47, 47, 120, 47, 97]     -- "h://x/a"
def urlB : Bytes := [104, 58, 47, 47, 120, 47, 98]     -- "h://x/b"
def mGet : Nat := PurgeTables.methodGet
def mPost : Nat := 2

example : absolute uReq = urlA := by decide
example : purgesOthers mPost = true ∧ purgesOthers mGet = false ∧ cacheableMethods = [1, 4] := by decide
example : purgedUrls mPost 200 uReq (some [47, 98]) none = [urlA, urlB] := by decide            -- Location: /b
example : purgedUrls mPost 200 uReq (some urlB) none = [urlA, urlB] := by decide                -- Location: h://x/b
example : purgedUrls mPost 404 uReq (some urlB) none = [] := by decide
example : purgedUrls mPost 200 uReq (some [104, 58, 47, 47, 121, 47, 98]) none = [urlA] := by decide   -- other host h://y/b
example : sameUrlHosts urlA urlB = true ∧ sameUrlHosts urlA [104, 58, 47, 47, 120, 121, 47, 98] = false := by decide

/-- the hypotheses of `canonical_same_host_location_purged` are satisfiable -/
example : urlB ∈ purgedUrls mPost 200 uReq (some urlB) none :=
  (canonical_same_host_location_purged mPost 200 uReq { uReq with path := [47, 98] } none (by decide) (by decide) (by decide) rfl
    ⟨rfl, rfl, rfl, rfl⟩ (by decide) (by decide) [97] [98] rfl rfl).1

/-- plain history: GET a (origin), GET a (hit), POST a → 200, GET a goes back to the origin -/
example : (run { store := [], gen := 0 }
    [.fetch mGet urlA [120] false, .fetch mGet urlA [120] false, .forward mPost uReq 200 none none, .fetch mGet urlA [120] false]).2
    = [.origin 0, .cached 0, .origin 1, .origin 2] := by decide

/-- … and with a 404 the cached reply stays -/
example : (run { store := [], gen := 0 }
    [.fetch mGet urlA [120] false, .forward mPost uReq 404 none none, .fetch mGet urlA [120] false]).2
    = [.origin 0, .origin 1, .cached 0] := by decide

/-- the hypotheses of the headline are satisfiable with a hit that it speaks about -/
example : ∃ (rest : List Ev) (g : Nat), (run (step { store := [], gen := 0 } (.forward mPost uReq 200 none none)).1 rest).2[1]? = some (.cached g) ∧ 0 < g :=
  ⟨[.fetch mGet urlA [120] false, .fetch mGet urlA [120] false], 1, by decide⟩

/-! ### counterexamples (the full statement is false of the real code) -/

/-- Vary variants survive: two variants (marks `x=1`, `x=2`) are cached (contacts 0, 1); POST → 200 (contact 2) evicts only the
marker under the base key; the next request for variant 1 goes to the origin (contact 3) and re-creates the marker; the request for
variant 2 is then served the reply of contact 1, cached before the POST. -/
theorem vary_variant_survives_counterexample :
    (run { store := [], gen := 0 }
      [.fetch mGet urlA [120, 61, 49] true, .fetch mGet urlA [120, 61, 50] true,
       .forward mPost uReq 200 none none,
       .fetch mGet urlA [120, 61, 49] true, .fetch mGet urlA [120, 61, 50] true]).2
    = [.origin 0, .origin 1, .origin 2, .origin 3, .cached 1] := by decide

/-- A same-host Location in another spelling (`H://x/b`, upper-case scheme) passes `sameUrlHosts`, is purged under that raw text,
and the entry stored under the canonical `h://x/b` is served again. -/
theorem respelled_location_counterexample :
    purgedUrls mPost 200 uReq (some [72, 58, 47, 47, 120, 47, 98]) none = [urlA, [72, 58, 47, 47, 120, 47, 98]] ∧
    (run { store := [], gen := 0 }
      [.fetch mGet urlB [120] false, .forward mPost uReq 200 (some [72, 58, 47, 47, 120, 47, 98]) none, .fetch mGet urlB [120] false]).2
    = [.origin 0, .origin 1, .cached 0] := by decide

/-- The relative-path defect on a concrete history (holds while the regenerated flag says the memo is kept): `Location: b` in the
reply to POST h://x/a leaves h://x/b cached. -/
theorem relative_location_history_counterexample (hno : PurgeTables.addRelativePathTouches = false) :
    (run { store := [], gen := 0 }
      [.fetch mGet urlB [120] false, .forward mPost uReq 200 (some [98]) none, .fetch mGet urlB [120] false]).2
    = [.origin 0, .origin 1, .cached 0] := by
  have hp : purgedUrls mPost 200 uReq (some [98]) none = [absolute uReq, absolute uReq] :=
    relative_location_counterexample hno mPost 200 uReq [98] (by decide) (by decide) (by decide) (by decide) (by decide)
  have ha : absolute uReq = urlA := by decide
  simp only [run_cons, step, maybePurgeOthers, hp, ha]
  decide

end SquidModel.C20
