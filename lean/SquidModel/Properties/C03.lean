/-
C03 — No request smuggling: forwarded messages match strict client framing
(partial: the behaviour of the binary is tied to this model by an in-process differential run and by end-to-end
scenarios, see props/C03.py; the model composes the parser models of C21/C22 (request line, header block boundary),
C25/C26 (header fields, Content-Length) and C24 (chunked decoder) exactly as `ConnStateData::parseRequests`,
`Http1::Server::buildHttpRequest/processParsedRequest` and `clientProcessRequest` call the code).

The property text, as one statement, would be: *for every stream `s`, the messages `delimit cfg url s` hands on are the
messages a strict RFC 9112 parser (with the RFC's enumerated tolerances) delimits, at the same boundaries, up to the
first message that either of them refuses; and what is written upstream carries at most one framing field*.
What is proved below, for all streams and both parser modes, without size bounds:
  * the structural half in full (`no_bytes_cross_messages`, `reject_stops_reading`, `loop_terminates`);
  * the upstream framing half in full (`forwarded_never_CL_and_TE_nor_two_CL`);
  * of the boundary agreement: the head boundary is the first empty line (`head_ends_at_first_empty_line`), a
    Content-Length body has exactly the length that every Content-Length value of the header block denotes
    (`content_length_body_sound`), a body in the chunked grammar is decoded exactly and the next message starts right
    after it (`chunked_body_exact`); completeness for strictly framed Content-Length requests, composed from the
    C21/C22/C25/C26 theorems (`strict_rfc9112_message_delimited_exactly`).
The statement is *false* of the code in three regions, each with a proved counterexample:
`te_and_cl_keeps_reading_counterexample`, `vt_padded_chunked_accepted_counterexample`,
`explicit_http09_post_accepted_counterexample` (known findings, see notes/built/C03.md).
-/
import SquidModel.Smuggle.LoopLemmas
import SquidModel.Smuggle.HeadShape
import SquidModel.Smuggle.ChunkExact
import SquidModel.Smuggle.StrictRfc

namespace SquidModel.C03
open SquidModel SquidModel.Header SquidModel.Smuggle

/-- **No bytes of one message are taken for another.** For every stream, the requests handed on are consecutive
slices: the first starts at offset 0, each next one where the previous one stopped (`Chain`), each is exactly what the
one-message function `step` makes of the stream *from the message's own first byte on* (so no byte before `start`
takes part in it and it consumes exactly `[start, stop)`), and the loop's final event (`FinAt`: end of input, need more
data, incomplete body, error reply, CONNECT) happens at the end of the last handed-on message. -/
theorem no_bytes_cross_messages (cfg : Smuggle.Cfg) (url : Bytes → Bytes → Option UrlView) (s : Bytes) :
    Chain cfg url s 0 (delimit cfg url s).1 ∧ FinAt cfg url s (chainEnd 0 (delimit cfg url s).1) (delimit cfg url s).2 := by
  have := loop_spec cfg url s (s.length + 1) s (List.suffix_refl _) (by omega)
  simpa [delimit] using this

/-- the recursion fuel of the model is never exhausted: every handed-on message consumes at least one byte -/
theorem loop_terminates (cfg : Smuggle.Cfg) (url : Bytes → Bytes → Option UrlView) (s : Bytes) : (delimit cfg url s).2 ≠ .fuel := by
  intro h
  have := (no_bytes_cross_messages cfg url s).2
  rw [h] at this
  exact this

/-- every message of a chain lies before the chain's end, in stream order -/
theorem chain_bounds {cfg : Smuggle.Cfg} {url : Bytes → Bytes → Option UrlView} {s : Bytes} :
    ∀ (ms : List Msg) (off : Nat), Chain cfg url s off ms → off ≤ chainEnd off ms ∧ ∀ m ∈ ms, off ≤ m.start ∧ m.stop ≤ chainEnd off ms := by
  intro ms
  induction ms with
  | nil => intro off _; simp [chainEnd]
  | cons m ms ih =>
    intro off h
    cases h with
    | cons _ _ h1 h2 h3 _ hc =>
      obtain ⟨ih1, ih2⟩ := ih m.stop hc
      simp only [chainEnd]
      refine ⟨by omega, ?_⟩
      intro x hx
      simp only [List.mem_cons] at hx
      rcases hx with rfl | hx
      · exact ⟨Nat.le_refl _, ih1⟩
      · obtain ⟨a, b⟩ := ih2 x hx
        exact ⟨by omega, b⟩

/-- **A rejection ends the reading.** When the client side answers a message with an error (`quitAfterError`,
`abortChunkedRequestBody`: `flags.readMore = false`), that message starts exactly where the last handed-on message
stopped, the verdict is the one-message function's verdict on the rest of the stream, and nothing at or after that
offset is handed on. -/
theorem reject_stops_reading (cfg : Smuggle.Cfg) (url : Bytes → Bytes → Option UrlView) (s : Bytes) (start status : Nat) (site : Site)
    (h : (delimit cfg url s).2 = .rej start status site) :
    start = chainEnd 0 (delimit cfg url s).1 ∧ step cfg url (s.drop start) = .rej status site ∧
    ∀ m ∈ (delimit cfg url s).1, m.stop ≤ start := by
  obtain ⟨hc, hf⟩ := no_bytes_cross_messages cfg url s
  rw [h] at hf
  obtain ⟨h1, _, h3⟩ := hf
  refine ⟨h1, by rw [h1]; exact h3, ?_⟩
  intro m hm
  rw [h1]
  exact ((chain_bounds _ 0 hc).2 m hm).2

/-- **What is written upstream carries at most one framing field.** For every accepted request head: if the request has
a Transfer-Encoding entry (then it is `chunked`, alone) the framing fields of the upstream request are exactly one
`Transfer-Encoding: chunked` generated by Squid — the received Transfer-Encoding is never copied and no Content-Length
goes out; otherwise no Transfer-Encoding goes out and at most one Content-Length, whose value is a plain decimal
denoting the length Squid uses. -/
theorem forwarded_never_CL_and_TE_nor_two_CL (cfg : Smuggle.Cfg) (url : Bytes → Bytes → Option UrlView) (buf rest : Bytes)
    (es : List Entry) (cl : Int) (vmaj vmin : Nat) (m u : Bytes) (h : head cfg url buf = .ok rest es cl vmaj vmin m u keep) :
    let out := forwardedFraming es (chunkedRequest (bodyKind es cl) cl)
    (out.filter isCl).length + (out.filter isTe).length ≤ 1 ∧
    (∀ e ∈ out, e.id = idTransferEncoding → e.value = chunkedToken ∧ chunked es = true) ∧
    (∀ e ∈ out, e.id = idContentLength → e ∈ es ∧ ∃ n : Nat, cl = (n : Int) ∧ decimalValue (strip e.value) = some n) := by
  obtain ⟨hte, hnte⟩ := forwarded_framing_of_head h
  cases hc : chunked es with
  | true =>
    have ho := hte hc
    simp only [ho]
    refine ⟨by decide, ?_, ?_⟩
    · intro e he _
      simp only [List.mem_singleton] at he
      subst he
      exact ⟨rfl, trivial⟩
    · intro e he hid
      simp only [List.mem_singleton] at he
      subst he
      exact absurd hid (by decide)
  | false =>
    obtain ⟨ho, hle, hall⟩ := hnte hc
    simp only [ho]
    refine ⟨?_, ?_, ?_⟩
    · have h1 : ((es.filter isCl).filter isCl) = es.filter isCl := by simp [List.filter_filter]
      have h2 : ((es.filter isCl).filter isTe) = [] := by
        rw [List.filter_eq_nil_iff]
        intro e he
        simp only [List.mem_filter] at he
        have e2 : e.id = idContentLength := by simpa [isCl] using he.2
        simp [isTe, e2]
        decide
      rw [h1, h2]
      simpa using hle
    · intro e he hid
      exfalso
      simp only [List.mem_filter] at he
      have e2 : e.id = idContentLength := by simpa [isCl] using he.2
      rw [e2] at hid
      exact absurd hid (by decide)
    · intro e he _
      exact ⟨(List.mem_filter.mp he).1, hall e he⟩

/-- **A Content-Length body has the length every Content-Length value denotes.** If a handed-on message is framed by
Content-Length, then its header block has no Transfer-Encoding field, at least one Content-Length field, *every*
value of *every* Content-Length field (list members with the relaxed parser) is a plain decimal below 2^63 denoting
one and the same number `n` (exactly one field without a comma with the strict parser), the body is the `n` bytes that
follow the head and the next message starts right after them. -/
theorem content_length_body_sound (cfg : Smuggle.Cfg) (url : Bytes → Bytes → Option UrlView) (buf r rest : Bytes) (d : Desc)
    (h : step cfg url buf = .msg r rest d) (hk : d.kind = .cl) :
    ∃ n : Nat, 0 < n ∧ d.cl = some (n : Int) ∧ d.body = r.take n ∧ rest = r.drop n ∧ n ≤ r.length ∧
      ∃ raw, rawEntries ⟨cfg.relaxed, .request, false⟩ (Http1.parse cfg.h1 {} buf).mime = some raw ∧
        hasTe raw = false ∧ clValues raw ≠ [] ∧ AllDenote cfg.relaxed (clValues raw) n ∧
        (cfg.relaxed = false → ∃ v, clValues raw = [v] ∧ v.contains 44 = false) := by
  obtain ⟨_, _, _, _, hcl⟩ := step_msg h
  obtain ⟨n, hd, hpos, hle, hbody, hrest⟩ := hcl hk
  refine ⟨n, hpos, hd, hbody, hrest, hle, ?_⟩
  -- recover the accepted head
  unfold step at h
  split at h
  · simp at h
  · simp at h
  · simp at h
  · simp at h
  · rename_i rest0 es cl vmaj vmin m u keep hh
    have hdcl : d.cl = if hasId es idContentLength then some cl else none := by
      split at h
      · simp only [Step.msg.injEq] at h; obtain ⟨_, _, rfl⟩ := h; rfl
      · split at h
        · simp at h
        · simp only [Step.msg.injEq] at h; obtain ⟨_, _, rfl⟩ := h; rfl
      · split at h
        · simp at h
        · dsimp only at h
          split at h
          · simp only [Step.msg.injEq] at h; obtain ⟨_, _, rfl⟩ := h; rfl
          · simp at h
          · simp at h
          · simp at h
    obtain ⟨_, _, _, hv, _, _, _, hr, hhdr, rfl, hcl', _⟩ := head_ok_inv hh
    rw [hd] at hdcl
    have hcln : cl = (n : Int) := by
      split at hdcl
      · simpa using hdcl.symm
      · simp at hdcl
    -- the header block was parsed (HTTP/1.x) and has Content-Length n
    unfold headerOf at hhdr
    split at hhdr
    · rename_i hcond
      have hge : vmaj ≥ 1 := by rw [hv]; exact hcond.1
      have hn : contentLength hr.entries = some (n : Int) := by
        rw [hcl', if_pos hge, getInt64_cl_eq] at hcln
        cases hx : contentLength hr.entries with
        | none => rw [hx] at hcln; simp at hcln
        | some v => rw [hx] at hcln; simp at hcln; rw [hcln]
      obtain ⟨raw, hraw, _, hte, _, hstrict, _, hne, hall⟩ := C26.framing_length_sound _ _ _ _ hhdr hn
      exact ⟨raw, hraw, hte, hne, by simpa using hall, hstrict⟩
    · exfalso
      simp only [Outcome.ok.injEq] at hhdr
      subst hhdr
      rw [hcl'] at hcln
      split at hcln
      · simp [getInt64] at hcln
      · omega

/-- **The head ends at the first empty line.** For every accepted request head: the buffer is a run of empty lines
(none with the strict parser), the request line up to the *first* LF, and — for HTTP/1.x — the header block up to and
including its *first* empty line (`firstEmptyLine`: lines are cut at LF, a line is empty when nothing or a lone CR
precedes the LF); the body, or the next message, starts right there. An HTTP/0.9 request is its request line. This is the
boundary a line-based RFC 9112 parser (2.2: LF tolerated as line terminator) finds; no other byte pattern ends a head. -/
theorem head_ends_at_first_empty_line (cfg : Smuggle.Cfg) (url : Bytes → Bytes → Option UrlView) (buf rest : Bytes)
    (es : List Entry) (cl : Int) (vmaj vmin : Nat) (m u : Bytes) (keep : Bool)
    (h : head cfg url buf = .ok rest es cl vmaj vmin m u keep) :
    ∃ g line b1, buf = g ++ line ++ 10 :: b1 ∧ EmptyLines g ∧ (cfg.relaxed = false → g = []) ∧
      line ≠ [] ∧ (∀ c ∈ line, c ≠ 10) ∧
      ((vmaj = 1 ∧ ∃ n, firstEmptyLine (b1.length + 1) b1 = some n ∧ rest = b1.drop n) ∨
       (vmaj = 0 ∧ vmin = 9 ∧ rest = b1)) := by
  obtain ⟨hd, hs, hrest, hvmaj, hvmin, _⟩ := head_ok_inv h
  obtain ⟨f, rest1, hpf, hmaj, hmin, hshape⟩ := parse_accept_shape cfg.h1 buf hd hs
  obtain ⟨g, hg, heg, hstrict⟩ := strip_spec cfg.h1 buf
  obtain ⟨hline, hnolf, hne⟩ := parseFirstLine_ok_line hpf
  refine ⟨g, (Http1.strip cfg.h1 buf).takeWhile Http1.notLF, rest1, ?_, heg, hstrict, hne, hnolf, ?_⟩
  · rw [List.append_assoc, ← hline]; exact hg
  · rcases hshape with ⟨hv1, n, o, hh, hb⟩ | ⟨hvn, hb⟩
    · left
      refine ⟨by rw [hvmaj, hmaj, hv1], n, ?_, by rw [hrest, hb]⟩
      rw [← headersEnd_eq_firstEmptyLine, hh]; rfl
    · right
      rcases head_ok_version h with h1 | ⟨h0, h9⟩
      · exfalso; rw [hvmaj, hmaj] at h1; exact hvn h1
      · exact ⟨h0, h9, by rw [hrest, hb]⟩

/-- **A body in the chunked grammar is decoded exactly.** When an accepted head announces a chunked body and the bytes
after the head are an encoding `enc` of `body` in the chunked grammar of C24 (any chunk sizes below 2^63, hex case,
leading zeros, extensions, trailers) followed by anything, the message handed on has exactly the body `body`, and the
next message starts at the first byte after `enc`. -/
theorem chunked_body_exact (cfg : Smuggle.Cfg) (url : Bytes → Bytes → Option UrlView) (buf : Bytes)
    (es : List Entry) (cl : Int) (vmaj vmin : Nat) (m u : Bytes) (keep : Bool) (body enc extra : Bytes)
    (h : head cfg url buf = .ok (enc ++ extra) es cl vmaj vmin m u keep) (hte : chunked es = true)
    (henc : Chunked.Grammar.Encodes cfg.relaxed body enc) :
    step cfg url buf = .msg (enc ++ extra) extra (descOf .ch es cl vmaj vmin m u keep body) := by
  have hne : (enc ++ extra).isEmpty = false := by
    have := encodes_ne_nil henc
    cases enc with
    | nil => exact absurd rfl this
    | cons a r => rfl
  obtain ⟨hv, ho, hi⟩ := feed_valid cfg.relaxed (fun _ => pipeSpace) pipeSpace_pos henc extra
  unfold step
  rw [h]
  simp only [bodyKind, hte, if_true, hne, Bool.false_eq_true, if_false, hv, ho, hi]

/-- **Completeness: a strictly framed Content-Length request is handed on as exactly that message** (strict parser;
through C22 `strict_rfc9112_accepted`, C25 `accepted_fields_exact`, C26 `unambiguous_accepted` and the request-parser
model of C21). Wherever it stands in the stream (`step` is what `no_bytes_cross_messages` applies at every message
start): an RFC 9112 request-line of HTTP/1.1 or later (`method SP request-target SP HTTP/1.x CR LF`, lexical level),
any number of well-formed field lines (token names, no whitespace before the colon, optional whitespace around the value,
CR LF or LF line ends, any other fields in any order), the empty line `CR LF`, `n` body bytes, then anything: with exactly
one Content-Length field denoting `n`, no Transfer-Encoding, no Expect, a plain method (not CONNECT / OPTIONS / TRACE /
PRI), an http URL and a head below `request_header_max_size`, the client side hands on a message with exactly the body
`body`, the method and target of the request line, and the next message starts at `extra`. -/
theorem strict_rfc9112_message_delimited_exactly (cfg : Smuggle.Cfg) (url : Bytes → Bytes → Option UrlView)
    (hrel : cfg.h1.relaxed = false) (line : Bytes) (F : Http1.Grammar.Fields) (fs : List FieldSyn) (body extra : Bytes) (u : UrlView)
    (hline : C22.Rfc9112Line (line ++ [10]) F) (hv : F.vmaj = 1) (hvm : F.vmin ≥ 1)
    (hw : ∀ x ∈ fs, WF ⟨false, .request, false⟩ x)
    (hte : hasTe (fs.map entryOf) = false)
    (hexp : ∀ x ∈ fs, ((entryOf x).id == idExpect) = false)
    (hcl : ∃ v, clValues (fs.map entryOf) = [v] ∧ decimalValue (strip v) = some body.length ∧ v.contains 44 = false)
    (hmeth : plainMethod F.method) (hurl : url F.method F.uri = some u) (hproto : u.proto = protoHTTP)
    (hlim : line.length < cfg.h1.limit)
    (hsize : F.method.length + F.uri.length + 12 + ((fs.flatMap FieldSyn.wire).length + 2) < cfg.h1.limit) :
    ∃ d, step cfg url (line ++ 10 :: (fs.flatMap FieldSyn.wire ++ [13, 10] ++ (body ++ extra))) = .msg (body ++ extra) extra d ∧
      d.body = body ∧ d.method = F.method ∧ d.uri = F.uri := by
  obtain ⟨hne, hnolf⟩ := rfc9112Line_shape line F hline
  have hpl := C22.strict_rfc9112_accepted cfg.h1.limit line F hline (by omega)
  rw [parseLine_relaxed_only { relaxed := false, limit := cfg.h1.limit } cfg.h1 (by rw [hrel]) line] at hpl
  exact strict_content_length_message cfg url hrel line _ fs body extra u hne hnolf hpl hv hvm hw hte hexp hcl hmeth hurl hproto hlim hsize

/-! ### the three regions where the property statement is false of the code (known findings), and their repaired variants -/

/-- every target is an acceptable http URL (the counterexamples do not depend on `AnyP::Uri::parse`) -/
def anyUrl : Bytes → Bytes → Option UrlView := fun _ _ => some ⟨protoHTTP, false⟩

/-- the code as it is: no repair switch set (`unrepaired`), parser mode and `request_header_max_size` as given -/
def unrepaired (relaxed : Bool) : Smuggle.Cfg := ⟨{ relaxed := relaxed, limit := 65536, fixCr := true, fixLine := true }, false, false⟩
def repaired (relaxed : Bool) : Smuggle.Cfg := ⟨{ relaxed := relaxed, limit := 65536, fixCr := true, fixLine := true }, true, true⟩

/-- `POST http://h/ HTTP/1.1` with `Content-Length: 3` and `Transfer-Encoding: chunked`, the body `0 CRLF CRLF`, then
`GET http://h/ HTTP/1.1` -/
def teClStream : Bytes :=
  [80, 79, 83, 84, 32, 104, 116, 116, 112, 58, 47, 47, 104, 47, 32, 72, 84, 84, 80, 47, 49, 46, 49, 13, 10, 67, 111, 110, 116, 101, 110, 116, 45, 76, 101, 110, 103, 116, 104, 58, 32, 51, 13, 10, 84, 114, 97, 110, 115, 102, 101, 114, 45, 69, 110, 99, 111, 100, 105, 110, 103, 58, 32, 99, 104, 117, 110, 107, 101, 100, 13, 10, 13, 10, 48, 13, 10, 13, 10, 71, 69, 84, 32, 104, 116, 116, 112, 58, 47, 47, 104, 47, 32, 72, 84, 84, 80, 47, 49, 46, 49, 13, 10, 13, 10]

/-- **Counterexample (finding C03-te-cl-connection-kept).** RFC 9112 6.1: a request with both Transfer-Encoding and
Content-Length may be processed by Transfer-Encoding alone, but the connection MUST be closed after responding. The
code as it is (both parser modes) marks the request persistent and hands on the next pipelined request as well. -/
theorem te_and_cl_keeps_reading_counterexample :
    ((delimit (unrepaired true) anyUrl teClStream).1.map fun m => (m.start, m.stop, m.d.kind, m.d.persistent)) =
      [(0, 79, .ch, true), (79, 105, .none, true)] ∧
    ((delimit (unrepaired false) anyUrl teClStream).1.map fun m => (m.start, m.stop, m.d.kind, m.d.persistent)) =
      [(0, 79, .ch, true), (79, 105, .none, true)] := by
  constructor <;> decide +kernel

/-- with the repair of notes/fixes/C03-te-cl-connection-kept.diff the same request is the last one of its connection -/
theorem te_and_cl_closes_when_repaired :
    (delimit (repaired true) anyUrl teClStream).2 = .closing 79 ∧ (delimit (repaired true) anyUrl teClStream).1.length = 1 := by
  constructor <;> decide +kernel

/-- the repaired variant, for every request: a chunked request whose header block had a Content-Length field, or that
is HTTP/1.0 or older, is never marked persistent -/
theorem repaired_te_and_cl_never_persistent (es : List Entry) (vmaj vmin : Nat) (clSeen : Bool)
    (hte : chunked es = true) (h : clSeen = true ∨ verLe10' vmaj vmin = true) :
    proxyKeepalive true es vmaj vmin clSeen = false := by
  unfold proxyKeepalive
  rcases h with h | h <;> simp [hte, h]

/-- `POST http://h/ HTTP/1.1`, `Transfer-Encoding: <VT>chunked`, `0 CRLF CRLF` -/
def vtChunkedStream : Bytes :=
  [80, 79, 83, 84, 32, 104, 116, 116, 112, 58, 47, 47, 104, 47, 32, 72, 84, 84, 80, 47, 49, 46, 49, 13, 10, 84, 114, 97, 110, 115, 102, 101, 114, 45, 69, 110, 99, 111, 100, 105, 110, 103, 58, 32, 11, 99, 104, 117, 110, 107, 101, 100, 13, 10, 13, 10, 48, 13, 10, 13, 10]

/-- **Counterexample (finding C03-vt-ff-padded-framing-value).** `Transfer-Encoding: <VT>chunked` is not the coding
`chunked` for a strict recipient (OWS is SP / HTAB); the strict-mode and relaxed-mode code both take it for chunked. -/
theorem vt_padded_chunked_accepted_counterexample :
    ((delimit (unrepaired false) anyUrl vtChunkedStream).1.map fun m => (m.start, m.headEnd, m.stop, m.d.kind, m.d.te)) =
      [(0, 56, 61, .ch, true)] ∧
    ((delimit (unrepaired true) anyUrl vtChunkedStream).1.map fun m => (m.start, m.headEnd, m.stop, m.d.kind, m.d.te)) =
      [(0, 56, 61, .ch, true)] := by
  constructor <;> decide +kernel

/-- `POST http://h/ HTTP/0.9`, `Content-Length: 3`, blank line, `abc` -/
def post09Stream : Bytes :=
  [80, 79, 83, 84, 32, 104, 116, 116, 112, 58, 47, 47, 104, 47, 32, 72, 84, 84, 80, 47, 48, 46, 57, 13, 10, 67, 111, 110, 116, 101, 110, 116, 45, 76, 101, 110, 103, 116, 104, 58, 32, 51, 13, 10, 13, 10, 97, 98, 99]

/-- **Counterexample (finding C03-http09-non-get).** With the relaxed parser the request line `POST http://h/ HTTP/0.9`
alone is handed on as a complete HTTP/0.9 request (no header, no body, not persistent); the header lines and the body
the client sent with it are left for "the next request". -/
theorem explicit_http09_post_accepted_counterexample :
    ((delimit (unrepaired true) anyUrl post09Stream).1.map fun m => (m.start, m.headEnd, m.stop, m.d.kind)) =
      [(0, 25, 25, .none)] ∧
    ((delimit (unrepaired true) anyUrl post09Stream).1.map fun m => (m.d.vmaj, m.d.vmin, m.d.persistent)) = [(0, 9, false)] ∧
    (delimit (unrepaired true) anyUrl post09Stream).2 = .closing 25 := by
  refine ⟨by decide +kernel, by decide +kernel, by decide +kernel⟩

/-- with the repair of notes/fixes/C03-http09-non-get.diff the request is answered with 400 and nothing is handed on -/
theorem explicit_http09_post_rejected_when_repaired :
    delimit (repaired true) anyUrl post09Stream = ([], .rej 0 400 .framing) := by decide +kernel

/-- the repaired variant, for every request: an HTTP/0.x request with a method other than GET never passes
`checkEntityFraming` -/
theorem repaired_http0_non_get_rejected (h : HdrResult) (vmin : Nat) (m : Bytes) (cl : Int) (hm : (m == mGET) = false)
    (hch : chunked h.entries = false) : checkEntityFraming true h 0 vmin m cl ≠ 0 := by
  unfold checkEntityFraming
  split
  · decide
  · simp only [hch, Bool.false_eq_true, if_false]
    split
    · decide
    · simp [verLe10, hm]

/-! ### non-vacuity -/

/-- a strictly valid pipeline of three requests (Content-Length body, chunked body with an extension, no body) is handed
on at exactly its message boundaries, each message persistent -/
example : ((delimit (unrepaired false) anyUrl
    ([80, 79, 83, 84, 32, 104, 116, 116, 112, 58, 47, 47, 104, 47, 32, 72, 84, 84, 80, 47, 49, 46, 49, 13, 10, 67, 111, 110, 116, 101, 110, 116, 45, 76, 101, 110, 103, 116, 104, 58, 32, 51, 13, 10, 13, 10, 97, 98, 99] ++
     [80, 79, 83, 84, 32, 104, 116, 116, 112, 58, 47, 47, 104, 47, 32, 72, 84, 84, 80, 47, 49, 46, 49, 13, 10, 84, 114, 97, 110, 115, 102, 101, 114, 45, 69, 110, 99, 111, 100, 105, 110, 103, 58, 32, 99, 104, 117, 110, 107, 101, 100, 13, 10, 13, 10, 51, 59, 97, 61, 98, 13, 10, 97, 98, 99, 13, 10, 48, 13, 10, 13, 10] ++
     [71, 69, 84, 32, 104, 116, 116, 112, 58, 47, 47, 104, 47, 32, 72, 84, 84, 80, 47, 49, 46, 49, 13, 10, 13, 10])).1.map
      fun m => (m.start, m.headEnd, m.stop, m.d.kind, m.d.body)) =
    [(0, 46, 49, .cl, [97, 98, 99]), (49, 104, 121, .ch, [97, 98, 99]), (121, 147, 147, .none, [])] := by decide +kernel

/-- the hypotheses of `strict_rfc9112_message_delimited_exactly` are satisfiable: `POST http://h/ HTTP/1.1 CR LF` is an RFC 9112
request-line, `Content-Length: 3 CR LF` a well-formed field line whose value denotes 3 -/
example : C22.Rfc9112Line ([80, 79, 83, 84, 32, 104, 116, 116, 112, 58, 47, 47, 104, 47, 32, 72, 84, 84, 80, 47, 49, 46, 49, 13] ++ [10])
    { method := [80, 79, 83, 84], uri := [104, 116, 116, 112, 58, 47, 47, 104, 47], vmaj := 1, vmin := 1 } :=
  ⟨[80, 79, 83, 84], [104, 116, 116, 112, 58, 47, 47, 104, 47], 49, 49, by decide, ⟨by decide, by decide, by decide⟩,
    ⟨by decide, by decide, by decide⟩, by decide, by decide, by decide⟩

example : WF ⟨false, .request, false⟩ ⟨[67, 111, 110, 116, 101, 110, 116, 45, 76, 101, 110, 103, 116, 104], [], [32], [51], [], true⟩ :=
  ⟨by decide, by decide +kernel, by decide, by decide, Or.inl rfl, by decide, by decide, by decide, by decide, by decide, by decide⟩

example : clValues ([⟨[67, 111, 110, 116, 101, 110, 116, 45, 76, 101, 110, 103, 116, 104], [], [32], [51], [], true⟩].map entryOf) = [[51]] ∧
    decimalValue (strip [51]) = some 3 := by constructor <;> decide +kernel

/-- conflicting Content-Length values: an error reply, and the bytes after it are not read -/
example : delimit (unrepaired true) anyUrl
    [80, 79, 83, 84, 32, 104, 116, 116, 112, 58, 47, 47, 104, 47, 32, 72, 84, 84, 80, 47, 49, 46, 49, 13, 10, 67, 111, 110, 116, 101, 110, 116, 45, 76, 101, 110, 103, 116, 104, 58, 32, 51, 13, 10, 67, 111, 110, 116, 101, 110, 116, 45, 76, 101, 110, 103, 116, 104, 58, 32, 52, 13, 10, 13, 10, 97, 98, 99, 100]
    = ([], .rej 0 400 .framing) := by decide +kernel

end SquidModel.C03
