/-
C36 — Base64 coding round-trips and decodes Basic credentials safely.

  "Decoding the base64 encoding of any byte string returns it exactly.  Malformed base64 is
   rejected without writing beyond the output size the API promises.  Basic credentials decode
   to the user name before the first colon and the password after it."

Property theorems only.  The model (`SquidModel.Base64.Codec`, `.Basic`) follows lib/base64.cc and
src/auth/basic/Config.cc; tables and length macros are regenerated from the staged tree; lemmas
are in `SquidModel.Base64.{Shape,Steps,Decode,Sound,Encode,Top}`.  Every statement is for all
byte strings / all chunkings, no size bound.
-/
import SquidModel.Base64.Top

namespace SquidModel.C36
open SquidModel.Base64

/-! ## round trip -/

/-- The streaming encoder does not depend on how the input is cut into update calls: init, any
updates, final produce `base64_encode_raw` of the concatenation. -/
theorem encode_chunking_irrelevant (xs : List Bytes) : encodeChunks xs = encodeRaw xs.flatten := by
  have := chunks_rel xs [] encodeInit (by simp [EncRel, encodeInit]) (by simp)
  simpa [emitted, encodeChunks] using this

/-- The streaming decoder does not depend on how the text is cut into update calls (same bytes,
same accept/reject verdict). -/
theorem decode_chunking_irrelevant (ys : List Bytes) : decodeChunks ys = decodeAll ys.flatten :=
  decodeChunks_flatten ys

/-- Decoding the encoding of any byte string returns it exactly — for every chunking of the
encoder input and every (independent) chunking of the decoder input. -/
theorem decode_encode (xs ys : List Bytes) (h : ys.flatten = encodeChunks xs) : decodeChunks ys = some xs.flatten := by
  rw [decode_chunking_irrelevant, h, encode_chunking_irrelevant]
  exact decodeAll_canonical _ _ (strip_noWs_id _ (noWs_encodeRaw _))

/-- The same with white space (HT LF VT FF CR SP) inserted anywhere in the text. -/
theorem decode_encode_ws (x s : Bytes) (h : strip s = encodeRaw x) : decodeAll s = some x :=
  decodeAll_canonical s x h

/-- `base64_encode_group` (any 32-bit group value; bits above 24 are ignored) agrees with
`base64_encode_raw` on the three bytes of the group. -/
theorem encode_group_agrees (a b c : UInt8) (hi : Nat) :
    encodeGroup (hi * 16777216 + a.toNat * 65536 + b.toNat * 256 + c.toNat) = encodeRaw [a, b, c] :=
  encodeGroup_raw a b c hi

/-- Encoding is injective. -/
theorem encode_injective (x y : Bytes) (h : encodeRaw x = encodeRaw y) : x = y := by
  have hx := decodeAll_canonical (encodeRaw x) x (strip_noWs_id _ (noWs_encodeRaw _))
  have hy := decodeAll_canonical (encodeRaw y) y (strip_noWs_id _ (noWs_encodeRaw _))
  rw [h, hy] at hx
  exact (Option.some.inj hx).symm

/-! ## output sizes (P5) -/

/-- Whatever was fed to the decoder before, one `base64_decode_update` call stores at most
`BASE64_DECODE_LENGTH(src_length)` bytes — also when it fails part-way on malformed input. -/
theorem decode_bound (before : List Bytes) (s : Bytes) :
    (decodeUpdate (decodeCtxAfter decodeInit before) s).2.1.length ≤ decodeLength s.length := by
  have hinv := dinv_after before decodeInit dinv_init
  have := (update_inv s _ hinv).2
  rw [decodeLength_eq]
  have h6 := hinv.2
  omega

/-- The asserts of base64_decode_single / base64_decode_update cannot fire. -/
theorem decode_no_assert (ctx : DecCtx) (s : Bytes) : (decodeUpdate ctx s).2.2 ≠ .assertFail :=
  update_no_assert s ctx

/-- One `base64_encode_update` call emits at most `BASE64_ENCODE_LENGTH(length)` characters, final at
most `BASE64_ENCODE_FINAL_LENGTH`, `base64_encode_raw` exactly `BASE64_ENCODE_RAW_LENGTH(length)`. -/
theorem encode_bound (before : List Bytes) (s : Bytes) :
    (encodeUpdate (encodeCtxAfter encodeInit before) s).2.length ≤ encodeLength s.length ∧
    (encodeFinal (encodeCtxAfter encodeInit before)).2.length ≤ encodeFinalLength ∧
    (encodeRaw s).length = encodeRawLength s.length := by
  have hinv := einv_after before encodeInit (Or.inl rfl)
  have hu := (update_size s _ hinv).2
  have hf := final_size _ hinv
  rw [encodeLength_eq, encodeFinalLength_eq, encodeRawLength_eq, encodeRaw_length]
  refine ⟨?_, hf, rfl⟩
  rcases hinv with h | h | h <;> omega

/-! ## malformed input -/

/- Full statement (false of the code, see the counterexample below):
     decodeAll s = some x → strip s = encodeRaw x
   i.e. whatever is accepted is canonical RFC 4648 text with interleaved white space. -/

/-- `"A==="` — a dangling sextet followed by three pad characters — is accepted and decodes to
nothing (`ctx->padding > 2` is tested before the pad character is counted). -/
theorem malformed_accepted_counterexample :
    decodeAll [65, 61, 61, 61] = some [] ∧ strip [65, 61, 61, 61] ≠ encodeRaw [] := by decide

/-- The whole class of the defect: any number of full groups followed by `"A==="` is accepted. -/
theorem malformed_accepted_class (x : Bytes) (h : x.length % 3 = 0) :
    decodeAll (encodeRaw x ++ [65, 61, 61, 61]) = some x := by
  rcases triple_pad_accepted x with h1 | h1
  · exact h1
  · exact absurd h h1

/-- Outside that class the decoder is exact: if the text (white space removed) does not end in
three pad characters, acceptance means it is the canonical encoding of the returned bytes; so
bad characters, missing or surplus padding, padding in the middle, data after padding and
non-zero pad bits are all rejected. -/
theorem malformed_rejected_partial (s x : Bytes) (hpad : ¬ ([61, 61, 61] <:+ strip s))
    (h : decodeAll s = some x) : strip s = encodeRaw x :=
  decodeAll_sound s x h hpad

/-- Together: for text not ending in three pads, accepted ⇔ canonical. -/
theorem accepted_iff_canonical_partial (s x : Bytes) (hpad : ¬ ([61, 61, 61] <:+ strip s)) :
    decodeAll s = some x ↔ strip s = encodeRaw x :=
  ⟨fun h => decodeAll_sound s x h hpad, decodeAll_canonical s x⟩

/-! ## Basic credentials -/
open SquidModel.Base64.Basic

/-- Credentials `user ":" pass` (no colon in `user`, no NUL/CR/LF anywhere), base64-encoded in the header
with optional white space: `decode` yields exactly `user` (lower-cased when `casesensitive` is off) and
`pass`; an empty password is dropped with the "empty password" denial. -/
theorem basic_split (cs : Bool) (hdr user pass : Bytes)
    (hpay : strip (payload hdr) = encodeRaw (user ++ 58 :: pass))
    (hu : (58 : UInt8) ∉ user)
    (hctl : ∀ c ∈ user ++ 58 :: pass, c ≠ 0 ∧ c ≠ 10 ∧ c ≠ 13) :
    Basic.decode cs hdr = some
      { user := if cs then user else user.map toLower
        pass := if pass = [] then none else some pass
        deny := if pass = [] then .emptyPassword else .none
        valid := !pass.isEmpty } := by
  have hd := decodeAll_canonical _ _ hpay
  have hnul : (0 : UInt8) ∉ user ++ 58 :: pass := fun h => (hctl 0 h).1 rfl
  have hclear : decodeCleartext hdr = some (user ++ 58 :: pass) := by
    rw [decodeCleartext_some]
    exact ⟨_, hd, (cstr_of_no_nul _ hnul).symm, fun h => (hctl 13 h).2.2 rfl, fun h => (hctl 10 h).2.1 rfl⟩
  obtain ⟨t1, t2⟩ := takeWhile_colon user pass hu
  simp only [Basic.decode, hclear, t1, t2, List.drop_succ_cons, List.drop_zero]
  have hc : (user ++ 58 :: pass).contains 58 = true := by simp
  simp only [hc, ↓reduceIte]
  cases pass with
  | nil => simp
  | cons p ps => simp

/-- Credentials without any colon: the whole text is the user name and there is no password. -/
theorem basic_no_colon (cs : Bool) (hdr user : Bytes)
    (hpay : strip (payload hdr) = encodeRaw user) (hu : (58 : UInt8) ∉ user)
    (hctl : ∀ c ∈ user, c ≠ 0 ∧ c ≠ 10 ∧ c ≠ 13) :
    Basic.decode cs hdr = some
      { user := if cs then user else user.map toLower, pass := none, deny := .noPassword, valid := false } := by
  have hd := decodeAll_canonical _ _ hpay
  have hnul : (0 : UInt8) ∉ user := fun h => (hctl 0 h).1 rfl
  have hclear : decodeCleartext hdr = some user := by
    rw [decodeCleartext_some]
    exact ⟨_, hd, (cstr_of_no_nul _ hnul).symm, fun h => (hctl 13 h).2.2 rfl, fun h => (hctl 10 h).2.1 rfl⟩
  have hc : user.contains 58 = false := by simpa using hu
  simp only [Basic.decode, hclear, hc, takeWhile_no_colon user hu, Bool.false_eq_true, ↓reduceIte]

/-- Whatever `decode` extracts is free of NUL, CR and LF (nothing can be smuggled into the
helper protocol line), the user name has no colon, and a password is never empty. -/
theorem basic_result_clean (cs : Bool) (hdr : Bytes) (c : Creds) (h : Basic.decode cs hdr = some c) :
    (∀ b ∈ c.user, b ≠ 0 ∧ b ≠ 10 ∧ b ≠ 13 ∧ b ≠ 58) ∧
    (∀ p, c.pass = some p → p ≠ [] ∧ ∀ b ∈ p, b ≠ 0 ∧ b ≠ 10 ∧ b ≠ 13) ∧
    (c.valid = true ↔ c.pass.isSome = true) := by
  simp only [Basic.decode] at h
  generalize hcl : decodeCleartext hdr = r at h
  cases r with
  | none => simp at h
  | some clear =>
    obtain ⟨x, _, hx, h13, h10⟩ := (decodeCleartext_some hdr clear).mp hcl
    have h0 : (0 : UInt8) ∉ clear := by rw [hx]; exact cstr_no_nul x
    have clean : ∀ b ∈ clear, b ≠ 0 ∧ b ≠ 10 ∧ b ≠ 13 := fun b hb =>
      ⟨fun e => h0 (e ▸ hb), fun e => h10 (e ▸ hb), fun e => h13 (e ▸ hb)⟩
    have huser : ∀ b ∈ clear.takeWhile (· ≠ 58), b ≠ 0 ∧ b ≠ 10 ∧ b ≠ 13 ∧ b ≠ 58 := by
      intro b hb
      obtain ⟨hm, hin⟩ := mem_takeWhile' _ _ b hb
      have := clean b hin
      exact ⟨this.1, this.2.1, this.2.2, by simpa using hm⟩
    have huser' : ∀ b ∈ (if cs then clear.takeWhile (· ≠ 58) else (clear.takeWhile (· ≠ 58)).map toLower),
        b ≠ 0 ∧ b ≠ 10 ∧ b ≠ 13 ∧ b ≠ 58 := by
      intro b hb
      cases cs with
      | true => exact huser b (by simpa using hb)
      | false =>
        simp only [Bool.false_eq_true, ↓reduceIte, List.mem_map] at hb
        obtain ⟨a, ha, rfl⟩ := hb
        have := huser a ha
        have t := toLower_not_ctl a this.1 this.2.1 this.2.2.1
        exact ⟨t.1, t.2.1, t.2.2, toLower_not_colon a this.2.2.2⟩
    have hpass : ∀ b ∈ (clear.dropWhile (· ≠ 58)).drop 1, b ≠ 0 ∧ b ≠ 10 ∧ b ≠ 13 := fun b hb =>
      clean b ((List.dropWhile_sublist _).subset ((List.drop_sublist _ _).subset hb))
    simp only at h
    by_cases hsep : clear.contains 58 = true
    · simp only [hsep, ↓reduceIte] at h
      generalize hp : (clear.dropWhile (· ≠ 58)).drop 1 = p at h hpass
      cases p with
      | nil =>
        simp only [Option.some.injEq] at h
        subst h
        exact ⟨huser', by simp, by simp⟩
      | cons p0 ps =>
        simp only [Option.some.injEq] at h
        subst h
        refine ⟨huser', ?_, by simp⟩
        intro q hq
        simp only [Option.some.injEq] at hq
        subst hq
        exact ⟨by simp, hpass⟩
    · simp only [hsep, Bool.false_eq_true, ↓reduceIte, Option.some.injEq] at h
      subst h
      exact ⟨huser', by simp, by simp⟩

/-- Provenance of accepted credentials: unless the payload ends in three pad characters (the
defect above), it is the canonical base64 of some text `x`, and user/password are the split at
the first colon of the part of `x` before its first NUL. -/
theorem basic_sound_partial (cs : Bool) (hdr : Bytes) (c : Creds) (h : Basic.decode cs hdr = some c)
    (hpad : ¬ ([61, 61, 61] <:+ strip (payload hdr))) :
    ∃ x, strip (payload hdr) = encodeRaw x ∧
      c.user = (if cs then (cstr x).takeWhile (· ≠ 58) else ((cstr x).takeWhile (· ≠ 58)).map toLower) ∧
      (∀ p, c.pass = some p → cstr x = (cstr x).takeWhile (· ≠ 58) ++ 58 :: p) := by
  simp only [Basic.decode] at h
  generalize hcl : decodeCleartext hdr = r at h
  cases r with
  | none => simp at h
  | some clear =>
    obtain ⟨x, hd, hx, _, _⟩ := (decodeCleartext_some hdr clear).mp hcl
    refine ⟨x, decodeAll_sound _ _ hd hpad, ?_, ?_⟩
    · subst hx
      simp only at h
      by_cases hsep : (cstr x).contains 58 = true
      · simp only [hsep, ↓reduceIte] at h
        generalize ((cstr x).dropWhile (· ≠ 58)).drop 1 = p at h
        cases p <;> (simp only [Option.some.injEq] at h; subst h; rfl)
      · simp only [hsep, Bool.false_eq_true, ↓reduceIte, Option.some.injEq] at h
        subst h; rfl
    · subst hx
      intro p hp
      simp only at h
      by_cases hsep : (cstr x).contains 58 = true
      · simp only [hsep, ↓reduceIte] at h
        have hsplit := dropWhile_colon_split (cstr x) (by simpa using hsep)
        generalize hq : ((cstr x).dropWhile (· ≠ 58)).drop 1 = q at h hsplit
        have hpq : p = q := by
          cases q with
          | nil => simp only [Option.some.injEq] at h; subst h; simp at hp
          | cons q0 qs => simp only [Option.some.injEq] at h; subst h; simpa using hp.symm
        subst hpq
        conv => lhs; rw [← List.takeWhile_append_dropWhile (p := (· ≠ 58)) (l := cstr x)]
        rw [hsplit]
      · simp only [hsep, Bool.false_eq_true, ↓reduceIte, Option.some.injEq] at h
        subst h; simp at hp

/- Full statement (false of the code): credentials reach the helper whole or not at all. -/
/-- `Basic dXNlcjpwYQBzcw==` carries `user:pa\0ss`; decode hands out the password `pa`: the decoded
text is used as a C string, so everything from the first NUL on is silently dropped. -/
theorem nul_truncation_counterexample :
    decodeAll (payload [66, 97, 115, 105, 99, 32, 100, 88, 78, 108, 99, 106, 112, 119, 89, 81, 66, 122, 99, 119, 61, 61])
      = some [117, 115, 101, 114, 58, 112, 97, 0, 115, 115] ∧
    Basic.decode true [66, 97, 115, 105, 99, 32, 100, 88, 78, 108, 99, 106, 112, 119, 89, 81, 66, 122, 99, 119, 61, 61]
      = some ⟨[117, 115, 101, 114], some [112, 97], .none, true⟩ := by decide +kernel

/-- The cleartext buffer of decodeCleartext (`BASE64_DECODE_LENGTH(srcLen)+1` bytes) is never
overrun: the decoder stores at most `BASE64_DECODE_LENGTH(srcLen)` bytes (also on the failing
path) and the terminating NUL lands inside the allocation — for every header. -/
theorem basic_buffer_safe (hdr : Bytes) :
    (clearMem hdr).written ≤ decodeLength (payload hdr).length ∧
    (clearMem hdr).written + 1 ≤ (clearMem hdr).size ∧
    ∀ k, (clearMem hdr).nulAt = some k → k < (clearMem hdr).size :=
  clearMem_safe hdr

/-! ## the libnettle this build links -/

/-- Same tables, same length macros: the model above is the model of both implementations. -/
theorem nettle_same_tables :
    Gen.Base64.nettleDecodeTable = Gen.Base64.decodeTable ∧ Gen.Base64.nettleEncodeTable = Gen.Base64.encodeTable ∧
    Gen.Base64.nettleMacrosAgree = true :=
  ⟨nettle_same_decode_table, nettle_same_alphabet, nettle_same_macros⟩

/-! ## non-vacuity -/

/-- "foobar" ↔ "Zm9vYmFy", through two-chunk encoding and bytewise decoding -/
example : encodeChunks [[102, 111], [111, 98, 97, 114]] = [90, 109, 57, 118, 89, 109, 70, 121] := by decide
example : decodeChunks [[90], [109], [57], [118], [89, 109, 70, 121]] = some [102, 111, 111, 98, 97, 114] := by decide
/-- the decoder does reject: bad character, missing padding, non-zero pad bits, data after padding, pad in the middle -/
example : decodeAll [90, 42, 57, 118] = none := by decide
example : decodeAll [90, 109, 56] = none := by decide
example : decodeAll [90, 110, 61, 61] = none := by decide
example : decodeAll [90, 103, 61, 61, 90, 103, 61, 61] = none := by decide
example : decodeAll [90, 61, 103, 61] = none := by decide
/-- the hypothesis of `malformed_rejected_partial` holds for ordinary text, and fails for the witness -/
example : ¬ ([61, 61, 61] <:+ strip [90, 103, 61, 61]) := by decide
example : [61, 61, 61] <:+ strip [65, 61, 32, 61, 61] := by decide
/-- `Basic QWxhZGRpbjpvcGVuIHNlc2FtZQ==` -/
example : Basic.decode false [66, 97, 115, 105, 99, 32, 81, 87, 120, 104, 90, 71, 82, 112, 98, 106, 112, 118, 99, 71, 86, 117, 73,
    72, 78, 108, 99, 50, 70, 116, 90, 81, 61, 61]
    = some ⟨[97, 108, 97, 100, 100, 105, 110], some [111, 112, 101, 110, 32, 115, 101, 115, 97, 109, 101], .none, true⟩ := by
  decide +kernel
/-- the hypotheses of `basic_split` are satisfiable (the same header; `payload_of_header` gives the general shape) -/
example : strip (payload [66, 97, 115, 105, 99, 32, 81, 87, 120, 104, 90, 71, 82, 112, 98, 106, 112, 118, 99, 71, 86, 117, 73,
    72, 78, 108, 99, 50, 70, 116, 90, 81, 61, 61])
    = encodeRaw ([65, 108, 97, 100, 100, 105, 110] ++ 58 :: [111, 112, 101, 110, 32, 115, 101, 115, 97, 109, 101]) := by
  decide +kernel
example (scheme b64 : Bytes) (hs : ∀ c ∈ scheme, isGraph c = true) (hb : ∀ c ∈ b64, isGraph c = true) :
    payload (scheme ++ 32 :: b64) = b64 := payload_of_header scheme b64 hs hb
/-- CR/LF inside the credentials are refused: base64("a:b\r\n") = "YTpiDQo=" -/
example : Basic.decode true [66, 97, 115, 105, 99, 32, 89, 84, 112, 105, 68, 81, 111, 61] = none := by decide +kernel

end SquidModel.C36
