/-
C36 — Base64 coding round-trips and decodes Basic credentials safely.

  "Decoding the base64 encoding of any byte string returns it exactly.  Malformed base64 is
   rejected without writing beyond the output size the API promises.  Basic credentials decode
   to the user name before the first colon and the password after it."

Property theorems only.  The model (`SquidModel.Base64.Codec`, `.Basic`) follows lib/base64.cc and
src/auth/basic/Config.cc; tables and length macros are regenerated from the staged tree; lemmas
are in `SquidModel.Base64.{Shape,Steps,Decode,Sound,Encode,Top}`.  Every statement is for all
byte strings / all chunkings, no size bound.
-/
import SquidModel.Base64.Top

namespace SquidModel.C36
open SquidModel.Base64 SquidModel.Base64.Basic

/-- the decoder of lib/base64.cc (a third pad character is refused: fix fc382f5) -/
abbrev Local : Nat := Gen.Base64.localPadLimit
/-- the decoder of the libnettle this build links (a third pad character is let through) -/
abbrev Nettle : Nat := Gen.Base64.nettlePadLimit

/-! ## round trip (both implementations: `Impl lim` = lib/base64.cc or libnettle) -/

/-- The streaming encoder does not depend on how the input is cut into update calls: init, any
updates, final produce `base64_encode_raw` of the concatenation. -/
theorem encode_chunking_irrelevant (xs : List Bytes) : encodeChunks xs = encodeRaw xs.flatten := by
  have := chunks_rel xs [] encodeInit (by simp [EncRel, encodeInit]) (by simp)
  simpa [emitted, encodeChunks] using this

/-- The streaming decoder does not depend on how the text is cut into update calls (same bytes,
same accept/reject verdict). -/
theorem decode_chunking_irrelevant (lim : Nat) (ys : List Bytes) : decodeChunks lim ys = decodeAll lim ys.flatten :=
  decodeChunks_flatten lim ys

/-- Decoding the encoding of any byte string returns it exactly — for every chunking of the
encoder input and every (independent) chunking of the decoder input. -/
theorem decode_encode (lim : Nat) (hi : Impl lim) (xs ys : List Bytes) (h : ys.flatten = encodeChunks xs) :
    decodeChunks lim ys = some xs.flatten := by
  rw [decode_chunking_irrelevant, h, encode_chunking_irrelevant]
  exact decodeAll_canonical lim (impl_bounds hi).1 _ _ (strip_noWs_id _ (noWs_encodeRaw _))

/-- The same with white space (HT LF VT FF CR SP) inserted anywhere in the text. -/
theorem decode_encode_ws (lim : Nat) (hi : Impl lim) (x s : Bytes) (h : strip s = encodeRaw x) : decodeAll lim s = some x :=
  decodeAll_canonical lim (impl_bounds hi).1 s x h

/-- `base64_encode_group` (any 32-bit group value; bits above 24 are ignored) agrees with
`base64_encode_raw` on the three bytes of the group. -/
theorem encode_group_agrees (a b c : UInt8) (hi : Nat) :
    encodeGroup (hi * 16777216 + a.toNat * 65536 + b.toNat * 256 + c.toNat) = encodeRaw [a, b, c] :=
  encodeGroup_raw a b c hi

/-- Encoding is injective. -/
theorem encode_injective (x y : Bytes) (h : encodeRaw x = encodeRaw y) : x = y := by
  have hx := decodeAll_canonical 2 (Nat.le_refl 2) (encodeRaw x) x (strip_noWs_id _ (noWs_encodeRaw _))
  have hy := decodeAll_canonical 2 (Nat.le_refl 2) (encodeRaw y) y (strip_noWs_id _ (noWs_encodeRaw _))
  rw [h, hy] at hx
  exact (Option.some.inj hx).symm

/-! ## output sizes (P5) -/

/-- Whatever was fed to the decoder before, one `base64_decode_update` call stores at most
`BASE64_DECODE_LENGTH(src_length)` bytes — also when it fails part-way on malformed input. -/
theorem decode_bound (lim : Nat) (before : List Bytes) (s : Bytes) :
    (decodeUpdate lim (decodeCtxAfter lim decodeInit before) s).2.1.length ≤ decodeLength s.length := by
  have hinv := dinv_after lim before decodeInit dinv_init
  have := (update_inv lim s _ hinv).2
  rw [decodeLength_eq]
  have h6 := hinv.2
  omega

/-- The asserts of base64_decode_single / base64_decode_update cannot fire. -/
theorem decode_no_assert (lim : Nat) (ctx : DecCtx) (s : Bytes) : (decodeUpdate lim ctx s).2.2 ≠ .assertFail :=
  update_no_assert lim s ctx

/-- One `base64_encode_update` call emits at most `BASE64_ENCODE_LENGTH(length)` characters, final at
most `BASE64_ENCODE_FINAL_LENGTH`, `base64_encode_raw` exactly `BASE64_ENCODE_RAW_LENGTH(length)`. -/
theorem encode_bound (before : List Bytes) (s : Bytes) :
    (encodeUpdate (encodeCtxAfter encodeInit before) s).2.length ≤ encodeLength s.length ∧
    (encodeFinal (encodeCtxAfter encodeInit before)).2.length ≤ encodeFinalLength ∧
    (encodeRaw s).length = encodeRawLength s.length := by
  have hinv := einv_after before encodeInit (Or.inl rfl)
  have hu := (update_size s _ hinv).2
  have hf := final_size _ hinv
  rw [encodeLength_eq, encodeFinalLength_eq, encodeRawLength_eq, encodeRaw_length]
  refine ⟨?_, hf, rfl⟩
  rcases hinv with h | h | h <;> omega

/-! ## malformed input — lib/base64.cc (full strength) -/

/-- Whatever lib/base64.cc accepts is canonical RFC 4648 text with interleaved white space, and it
decodes to exactly the bytes that text encodes: bad characters, missing or surplus padding, padding
in the middle, data after padding, non-zero pad bits and a third pad character are all rejected. -/
theorem malformed_rejected (s x : Bytes) (h : decodeAll Local s = some x) : strip s = encodeRaw x :=
  decodeAll_sound Local (by decide) (by decide) s x h (Or.inl (by decide))

/-- accepted ⇔ canonical -/
theorem accepted_iff_canonical (s x : Bytes) : decodeAll Local s = some x ↔ strip s = encodeRaw x :=
  ⟨malformed_rejected s x, decodeAll_canonical Local (by decide) s x⟩

/-! ## malformed input — libnettle (the code the binary runs in this build) -/

/- Full statement (false of libnettle 3.8.1, see the counterexample):
     decodeAll Nettle s = some x → strip s = encodeRaw x -/

/-- `"A==="` — a dangling sextet followed by three pad characters — is accepted by libnettle and
decodes to nothing (`ctx->padding > 2` is tested before the pad character is counted). -/
theorem nettle_malformed_accepted_counterexample :
    decodeAll Nettle [65, 61, 61, 61] = some [] ∧ strip [65, 61, 61, 61] ≠ encodeRaw [] := by decide

/-- The whole class of the defect: any number of full groups followed by `"A==="` is accepted. -/
theorem nettle_malformed_accepted_class (x : Bytes) (h : x.length % 3 = 0) :
    decodeAll Nettle (encodeRaw x ++ [65, 61, 61, 61]) = some x := by
  rcases triple_pad_accepted Nettle (by decide) x with h1 | h1
  · exact h1
  · exact absurd h h1

/-- Outside that class libnettle is exact as well: if the text (white space removed) does not end
in three pad characters, acceptance means it is the canonical encoding of the returned bytes. -/
theorem nettle_malformed_rejected_partial (s x : Bytes) (hpad : ¬ ([61, 61, 61] <:+ strip s))
    (h : decodeAll Nettle s = some x) : strip s = encodeRaw x :=
  decodeAll_sound Nettle (by decide) (by decide) s x h (Or.inr hpad)

theorem nettle_accepted_iff_canonical_partial (s x : Bytes) (hpad : ¬ ([61, 61, 61] <:+ strip s)) :
    decodeAll Nettle s = some x ↔ strip s = encodeRaw x :=
  ⟨nettle_malformed_rejected_partial s x hpad, decodeAll_canonical Nettle (by decide) s x⟩

/-! ## Basic credentials -/

/-- Credentials `user ":" pass` (no colon in `user`, no NUL/CR/LF anywhere), base64-encoded in the header
with optional white space: `decode` yields exactly `user` (lower-cased when `casesensitive` is off) and
`pass`; an empty password is dropped with the "empty password" denial.  (Either base64 implementation.) -/
theorem basic_split (lim : Nat) (hi : Impl lim) (cs : Bool) (hdr user pass : Bytes)
    (hpay : strip (payload hdr) = encodeRaw (user ++ 58 :: pass))
    (hu : (58 : UInt8) ∉ user)
    (hctl : ∀ c ∈ user ++ 58 :: pass, c ≠ 0 ∧ c ≠ 10 ∧ c ≠ 13) :
    Basic.decode lim cs hdr = some
      { user := if cs then user else user.map toLower
        pass := if pass = [] then none else some pass
        deny := if pass = [] then .emptyPassword else .none
        valid := !pass.isEmpty } := by
  have hd := decodeAll_canonical lim (impl_bounds hi).1 _ _ hpay
  have hclear : decodeCleartext lim hdr = some (user ++ 58 :: pass) := by
    rw [decodeCleartext_some]
    exact ⟨hd, fun h => (hctl 0 h).1 rfl, fun h => (hctl 13 h).2.2 rfl, fun h => (hctl 10 h).2.1 rfl⟩
  obtain ⟨t1, t2⟩ := takeWhile_colon user pass hu
  simp only [Basic.decode, hclear, t1, t2, List.drop_succ_cons, List.drop_zero]
  have hc : (user ++ 58 :: pass).contains 58 = true := by simp
  simp only [hc, ↓reduceIte]
  cases pass with
  | nil => simp
  | cons p ps => simp

/-- Credentials without any colon: the whole text is the user name and there is no password. -/
theorem basic_no_colon (lim : Nat) (hi : Impl lim) (cs : Bool) (hdr user : Bytes)
    (hpay : strip (payload hdr) = encodeRaw user) (hu : (58 : UInt8) ∉ user)
    (hctl : ∀ c ∈ user, c ≠ 0 ∧ c ≠ 10 ∧ c ≠ 13) :
    Basic.decode lim cs hdr = some
      { user := if cs then user else user.map toLower, pass := none, deny := .noPassword, valid := false } := by
  have hd := decodeAll_canonical lim (impl_bounds hi).1 _ _ hpay
  have hclear : decodeCleartext lim hdr = some user := by
    rw [decodeCleartext_some]
    exact ⟨hd, fun h => (hctl 0 h).1 rfl, fun h => (hctl 13 h).2.2 rfl, fun h => (hctl 10 h).2.1 rfl⟩
  have hc : user.contains 58 = false := by simpa using hu
  simp only [Basic.decode, hclear, hc, takeWhile_no_colon user hu, Bool.false_eq_true, ↓reduceIte]

/-- Whatever `decode` extracts is free of NUL, CR and LF (nothing can be smuggled into the
helper protocol line), the user name has no colon, and a password is never empty. -/
theorem basic_result_clean (lim : Nat) (cs : Bool) (hdr : Bytes) (c : Creds) (h : Basic.decode lim cs hdr = some c) :
    (∀ b ∈ c.user, b ≠ 0 ∧ b ≠ 10 ∧ b ≠ 13 ∧ b ≠ 58) ∧
    (∀ p, c.pass = some p → p ≠ [] ∧ ∀ b ∈ p, b ≠ 0 ∧ b ≠ 10 ∧ b ≠ 13) ∧
    (c.valid = true ↔ c.pass.isSome = true) := by
  simp only [Basic.decode] at h
  generalize hcl : decodeCleartext lim hdr = r at h
  cases r with
  | none => simp at h
  | some clear =>
    obtain ⟨_, h0, h13, h10⟩ := (decodeCleartext_some lim hdr clear).mp hcl
    have clean : ∀ b ∈ clear, b ≠ 0 ∧ b ≠ 10 ∧ b ≠ 13 := fun b hb =>
      ⟨fun e => h0 (e ▸ hb), fun e => h10 (e ▸ hb), fun e => h13 (e ▸ hb)⟩
    have huser : ∀ b ∈ clear.takeWhile (· ≠ 58), b ≠ 0 ∧ b ≠ 10 ∧ b ≠ 13 ∧ b ≠ 58 := by
      intro b hb
      obtain ⟨hm, hin⟩ := mem_takeWhile' _ _ b hb
      have := clean b hin
      exact ⟨this.1, this.2.1, this.2.2, by simpa using hm⟩
    have huser' : ∀ b ∈ (if cs then clear.takeWhile (· ≠ 58) else (clear.takeWhile (· ≠ 58)).map toLower),
        b ≠ 0 ∧ b ≠ 10 ∧ b ≠ 13 ∧ b ≠ 58 := by
      intro b hb
      cases cs with
      | true => exact huser b (by simpa using hb)
      | false =>
        simp only [Bool.false_eq_true, ↓reduceIte, List.mem_map] at hb
        obtain ⟨a, ha, rfl⟩ := hb
        have := huser a ha
        have t := toLower_not_ctl a this.1 this.2.1 this.2.2.1
        exact ⟨t.1, t.2.1, t.2.2, toLower_not_colon a this.2.2.2⟩
    have hpass : ∀ b ∈ (clear.dropWhile (· ≠ 58)).drop 1, b ≠ 0 ∧ b ≠ 10 ∧ b ≠ 13 := fun b hb =>
      clean b ((List.dropWhile_sublist _).subset ((List.drop_sublist _ _).subset hb))
    simp only at h
    by_cases hsep : clear.contains 58 = true
    · simp only [hsep, ↓reduceIte] at h
      generalize hp : (clear.dropWhile (· ≠ 58)).drop 1 = p at h hpass
      cases p with
      | nil =>
        simp only [Option.some.injEq] at h
        subst h
        exact ⟨huser', by simp, by simp⟩
      | cons p0 ps =>
        simp only [Option.some.injEq] at h
        subst h
        refine ⟨huser', ?_, by simp⟩
        intro q hq
        simp only [Option.some.injEq] at hq
        subst hq
        exact ⟨by simp, hpass⟩
    · simp only [hsep, Bool.false_eq_true, ↓reduceIte, Option.some.injEq] at h
      subst h
      exact ⟨huser', by simp, by simp⟩

/-- Credentials reach the helper whole or not at all (lib/base64.cc build, full strength): whatever
`decode` returns comes from a payload that is the canonical base64 of a text `x` free of NUL, CR and LF,
the user name is `x` up to its first colon (lower-cased when asked), a password is everything after
that colon, and no password means `x` has no colon or nothing after it. -/
theorem basic_sound (cs : Bool) (hdr : Bytes) (c : Creds) (h : Basic.decode Local cs hdr = some c) :
    ∃ x, strip (payload hdr) = encodeRaw x ∧ (0 : UInt8) ∉ x ∧ (13 : UInt8) ∉ x ∧ (10 : UInt8) ∉ x ∧
      c.user = (if cs then x.takeWhile (· ≠ 58) else (x.takeWhile (· ≠ 58)).map toLower) ∧
      (∀ p, c.pass = some p → x = x.takeWhile (· ≠ 58) ++ 58 :: p) ∧
      (c.pass = none → (58 : UInt8) ∉ x ∨ x = x.takeWhile (· ≠ 58) ++ [58]) :=
  basic_sound_gen Local (by decide) (by decide) cs hdr c h (Or.inl (by decide))

/-- The same through libnettle, outside the three-pad region of its decoder. -/
theorem basic_sound_nettle_partial (cs : Bool) (hdr : Bytes) (c : Creds) (h : Basic.decode Nettle cs hdr = some c)
    (hpad : ¬ ([61, 61, 61] <:+ strip (payload hdr))) :
    ∃ x, strip (payload hdr) = encodeRaw x ∧ (0 : UInt8) ∉ x ∧ (13 : UInt8) ∉ x ∧ (10 : UInt8) ∉ x ∧
      c.user = (if cs then x.takeWhile (· ≠ 58) else (x.takeWhile (· ≠ 58)).map toLower) ∧
      (∀ p, c.pass = some p → x = x.takeWhile (· ≠ 58) ++ 58 :: p) ∧
      (c.pass = none → (58 : UInt8) ∉ x ∨ x = x.takeWhile (· ≠ 58) ++ [58]) :=
  basic_sound_gen Nettle (by decide) (by decide) cs hdr c h (Or.inr hpad)

/-- Decoded credentials that contain NUL, CR or LF are refused (fix 54130c8 for NUL), with either decoder. -/
theorem basic_ctl_refused (lim : Nat) (cs : Bool) (hdr x : Bytes) (hd : decodeAll lim (payload hdr) = some x)
    (hbad : (0 : UInt8) ∈ x ∨ (13 : UInt8) ∈ x ∨ (10 : UInt8) ∈ x) : Basic.decode lim cs hdr = none := by
  have : decodeCleartext lim hdr = none := by
    cases hcl : decodeCleartext lim hdr with
    | none => rfl
    | some clear =>
      obtain ⟨hd', h0, h13, h10⟩ := (decodeCleartext_some lim hdr clear).mp hcl
      rw [hd] at hd'
      cases hd'
      rcases hbad with h | h | h
      · exact absurd h h0
      · exact absurd h h13
      · exact absurd h h10
  simp [Basic.decode, this]

/-- The cleartext buffer of decodeCleartext (`BASE64_DECODE_LENGTH(srcLen)+1` bytes) is never
overrun: the decoder stores at most `BASE64_DECODE_LENGTH(srcLen)` bytes (also on the failing
path) and the terminating NUL lands inside the allocation — for every header, either decoder. -/
theorem basic_buffer_safe (lim : Nat) (hdr : Bytes) :
    (clearMem lim hdr).written ≤ decodeLength (payload hdr).length ∧
    (clearMem lim hdr).written + 1 ≤ (clearMem lim hdr).size ∧
    ∀ k, (clearMem lim hdr).nulAt = some k → k < (clearMem lim hdr).size :=
  clearMem_safe lim hdr

/-! ## the libnettle this build links -/

/-- Same tables, same length macros; the decoders differ only in the pad limit (2 vs 3, both probed). -/
theorem nettle_same_tables :
    Gen.Base64.nettleDecodeTable = Gen.Base64.decodeTable ∧ Gen.Base64.nettleEncodeTable = Gen.Base64.encodeTable ∧
    Gen.Base64.nettleMacrosAgree = true ∧ Local = 2 ∧ Nettle = 3 :=
  ⟨nettle_same_decode_table, nettle_same_alphabet, nettle_same_macros, local_lim, nettle_lim⟩

/-! ## non-vacuity / regression -/

example : Impl Local := Or.inl rfl
example : Impl Nettle := Or.inr rfl
/-- "foobar" ↔ "Zm9vYmFy", through two-chunk encoding and bytewise decoding -/
example : encodeChunks [[102, 111], [111, 98, 97, 114]] = [90, 109, 57, 118, 89, 109, 70, 121] := by decide
example : decodeChunks Local [[90], [109], [57], [118], [89, 109, 70, 121]] = some [102, 111, 111, 98, 97, 114] := by decide
/-- the decoder does reject: bad character, missing padding, non-zero pad bits, data after padding, pad in the middle -/
example : decodeAll Local [90, 42, 57, 118] = none := by decide
example : decodeAll Local [90, 109, 56] = none := by decide
example : decodeAll Local [90, 110, 61, 61] = none := by decide
example : decodeAll Local [90, 103, 61, 61, 90, 103, 61, 61] = none := by decide
example : decodeAll Local [90, 61, 103, 61] = none := by decide
/-- the former findings, now regression cases: lib/base64.cc refuses "A===" and "QUJDA===" -/
example : decodeAll Local [65, 61, 61, 61] = none := by decide
example : decodeAll Local [81, 85, 74, 68, 65, 61, 61, 61] = none := by decide
/-- the hypothesis of `nettle_malformed_rejected_partial` holds for ordinary text, and fails for the witness -/
example : ¬ ([61, 61, 61] <:+ strip [90, 103, 61, 61]) := by decide
example : [61, 61, 61] <:+ strip [65, 61, 32, 61, 61] := by decide
/-- `Basic QWxhZGRpbjpvcGVuIHNlc2FtZQ==` -/
example : Basic.decode Nettle false [66, 97, 115, 105, 99, 32, 81, 87, 120, 104, 90, 71, 82, 112, 98, 106, 112, 118, 99, 71, 86, 117, 73,
    72, 78, 108, 99, 50, 70, 116, 90, 81, 61, 61]
    = some ⟨[97, 108, 97, 100, 100, 105, 110], some [111, 112, 101, 110, 32, 115, 101, 115, 97, 109, 101], .none, true⟩ := by
  decide +kernel
/-- the hypotheses of `basic_split` are satisfiable (the same header; `payload_of_header` gives the general shape) -/
example : strip (payload [66, 97, 115, 105, 99, 32, 81, 87, 120, 104, 90, 71, 82, 112, 98, 106, 112, 118, 99, 71, 86, 117, 73,
    72, 78, 108, 99, 50, 70, 116, 90, 81, 61, 61])
    = encodeRaw ([65, 108, 97, 100, 100, 105, 110] ++ 58 :: [111, 112, 101, 110, 32, 115, 101, 115, 97, 109, 101]) := by
  decide +kernel
example (scheme b64 : Bytes) (hs : ∀ c ∈ scheme, isGraph c = true) (hb : ∀ c ∈ b64, isGraph c = true) :
    payload (scheme ++ 32 :: b64) = b64 := payload_of_header scheme b64 hs hb
/-- CR/LF inside the credentials are refused: base64("a:b\r\n") = "YTpiDQo=" -/
example : Basic.decode Local true [66, 97, 115, 105, 99, 32, 89, 84, 112, 105, 68, 81, 111, 61] = none := by decide +kernel
/-- the former NUL finding, now a regression case: `Basic dXNlcjpwYQBzcw==` (`user:pa\0ss`) is refused by both builds -/
example : Basic.decode Nettle true [66, 97, 115, 105, 99, 32, 100, 88, 78, 108, 99, 106, 112, 119, 89, 81, 66, 122, 99, 119, 61, 61] = none := by
  decide +kernel
example : Basic.decode Local true [66, 97, 115, 105, 99, 32, 100, 88, 78, 108, 99, 106, 112, 119, 89, 81, 66, 122, 99, 119, 61, 61] = none := by
  decide +kernel

end SquidModel.C36
