/-
C36 — Base64 coding round-trips and decodes Basic credentials safely.
-/
import SquidModel.Base64.Basic

namespace SquidModel.C36
open SquidModel.Base64

/-- "A===" (a dangling sextet followed by three pad characters) is accepted and decodes to nothing. -/
theorem malformed_accepted_counterexample : decodeAll [65, 61, 61, 61] = some [] := by decide

end SquidModel.C36
