/-
C29: Cache-Control directives parse and re-serialise faithfully.

Statement: "Parsing a Cache-Control field value yields exactly the directives present: known flags, numeric values that fit
and are not negative, and quoted field lists. Invalid numeric values are treated as absent. Packing the parsed directives and
parsing the result again yields the same directives."
-/
import SquidModel.Cc.NumLemmas

namespace SquidModel.C29
open SquidModel SquidModel.Cc

/-! ## numeric values -/

/-- A numeric argument that is 1*DIGIT, fits `int` and is followed by the end of the value or a non-digit is parsed to its
decimal value (no sign, no rounding, no truncation). -/
theorem valid_numeric_exact (ds rest : Bytes) (hne : ds ≠ []) (hd : ∀ d ∈ ds, isDigitC d = true)
    (hr : ∀ c, rest.head? = some c → isDigitC c = false) (hfit : (decVal ds : Int) ≤ INT_MAX) :
    parseInt (ds ++ rest) = (true, (decVal ds : Int)) :=
  parseInt_digits ds rest hne hd hr hfit

/-- "max-age=4294967297" -/
def wWrap : Bytes := [109,97,120,45,97,103,101,61,52,50,57,52,57,54,55,50,57,55]
/-- "max-age=10x" -/
def wGarbage : Bytes := [109,97,120,45,97,103,101,61,49,48,120]

/-- FULL STATEMENT (false of the code): a numeric argument that is not 1*DIGIT or does not fit `int` leaves the directive absent.
Counterexample 1: 4294967297 does not fit, yet max-age is recorded as 1 (`atoi` keeps the low 32 bits). -/
theorem invalid_numeric_absent_counterexample_wrap :
    (parse wWrap).isSet .maxAge = true ∧ (parse wWrap).maxAge = 1 := by decide +kernel

/-- Counterexample 2: "10x" is not a number, yet max-age is recorded as 10 (`atoi` stops at the first non-digit). -/
theorem invalid_numeric_absent_counterexample_garbage :
    (parse wGarbage).isSet .maxAge = true ∧ (parse wGarbage).maxAge = 10 := by decide +kernel

end SquidModel.C29
