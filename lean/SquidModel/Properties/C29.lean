/-
C29: Cache-Control directives parse and re-serialise faithfully.

Statement: "Parsing a Cache-Control field value yields exactly the directives present: known flags, numeric values that fit
and are not negative, and quoted field lists. Invalid numeric values are treated as absent. Packing the parsed directives and
parsing the result again yields the same directives."

Model: `SquidModel/Cc/*.lean` (HttpHdrCc::parse, HttpHdrCc::packInto, strListGetItem, httpHeaderParseInt = atoi,
httpHeaderParseQuotedString, the directive table regenerated into `Gen/CcDirectives.lean`).
`view c t` = what the accessor pair `isSet(t)` / `hasX(&value)` reports for directive `t`.
-/
import SquidModel.Cc.Roundtrip

namespace SquidModel.C29
open SquidModel SquidModel.Cc

/-! ## 1. "yields exactly the directives present" -/

/-- For every field value and every known directive `t`: what the accessors report after `parse` is what the FIRST item of type
`t` that records anything records (`effective`), and nothing if there is no such item. Items are the elements
`strListGetItem` delivers; the type of an item is the case-insensitive table lookup of the text before its first `=`. -/
theorem parse_exact (s : Bytes) (t : CcType) (ho : t ≠ .other) (he : t ≠ .enumEnd) :
    view (parse s) t = ((items s).filter (fun it => itemType it = t)).findSome? (effective t) :=
  parse_view s t ho he

/-- The unknown directives are kept verbatim, in order, joined by ", ". -/
theorem parse_other_exact (s : Bytes) :
    (parse s).other = joinItems (((items s).filter (fun it => itemType it = .other)).map (fun it => it.1.take it.2)) :=
  parse_other s

/-- Every item the splitter delivers is a well-formed element: non-empty, not starting with a separator octet, not ending in
white space, without a comma outside quotes; and every item but the last ends outside quotes. -/
theorem items_wellformed (s : Bytes) :
    (∀ e ∈ itemTexts (items s), GoodItem e) ∧ InitClosed (itemTexts (items s)) :=
  ⟨(itemsAux_spec _ s).1, (itemsAux_spec _ s).2.1⟩

/-- Conversely a ", "-joined list of well-formed elements (all but the last ending outside quotes) is split into exactly these
elements. -/
theorem items_of_joined (es : List Bytes) (hg : ∀ e ∈ es, GoodItem e) (hc : InitClosed es) :
    itemTexts (items (joinItems es)) = es := by
  rw [items_join es hg hc]
  induction es with
  | nil => rfl
  | cons a r ih =>
    have := ih (fun e he => hg e (List.mem_cons_of_mem _ he)) (by
      cases r with
      | nil => trivial
      | cons b r' => exact hc.2)
    simp only [suffixItems, itemTexts, List.map_cons] at this ⊢
    rw [this]
    congr 1
    cases r with
    | nil => simp [joinItems]
    | cons b r' => simp [joinItems]

/-- The iteration is never cut short: when `strListGetItem` reports the end, only separator octets (white space, commas)
are left. (Before `delim[2]` was repaired an element consisting of VT/FF ended the list; the set is regenerated from
src/StrList.cc, so this theorem fails to check if the repair is undone.) -/
theorem items_complete (pos : Bytes) (h : getItem pos = none) : ∀ c ∈ pos, isLeadDelim c = true :=
  getItem_none pos h

/-- … hence after the last item of a value (or from the start, if there is none) nothing but separators follows. -/
theorem items_cover_value (s : Bytes) :
    ∃ tail, (∀ c ∈ tail, isLeadDelim c = true) ∧ (items s = [] → tail = s) ∧
      (∀ it ∈ (items s).getLast?, ∃ k, tail = it.1.drop k ∧ it.2 ≤ k) :=
  itemsAux_complete _ s (Nat.le_refl _)

/-- the numeric model transcribes the `strtol` + range-check version of `httpHeaderParseInt`; the translator confirms that this
is what src/HttpHeaderTools.cc contains -/
theorem parseInt_model_matches_source : Gen.CcDirectives.parseIntRangeChecked = true := by decide

/-- A known flag is recorded iff some item carries its name. -/
theorem flag_present_iff (s : Bytes) (t : CcType) (hf : isFlagType t = true) :
    (parse s).isSet t = true ↔ ∃ it ∈ items s, itemType it = t := by
  have ho : t ≠ .other := by intro h; subst h; simp [isFlagType] at hf
  have he : t ≠ .enumEnd := by intro h; subst h; simp [isFlagType] at hf
  have h := parse_exact s t ho he
  constructor
  · intro hs
    have : view (parse s) t ≠ none := by simp [view, hs]
    rw [h] at this
    cases hfs : ((items s).filter (fun it => itemType it = t)) with
    | nil => simp [hfs] at this
    | cons it r =>
      have : it ∈ (items s).filter (fun it => itemType it = t) := by rw [hfs]; exact List.mem_cons_self
      simp only [List.mem_filter, decide_eq_true_eq] at this
      exact ⟨it, this.1, this.2⟩
  · rintro ⟨it, hit, hty⟩
    have hm : it ∈ (items s).filter (fun it => itemType it = t) := by simp [List.mem_filter, hit, hty]
    cases hfs : ((items s).filter (fun it => itemType it = t)) with
    | nil => rw [hfs] at hm; simp at hm
    | cons a r =>
      rw [hfs] at h
      simp only [List.findSome?_cons, effective, hf, ↓reduceIte] at h
      cases hs : (parse s).isSet t with
      | true => rfl
      | false =>
        have : view (parse s) t = none := (view_none_iff _ _).mpr hs
        rw [this] at h
        simp at h

/-! ## 2. numeric values -/

/-- A numeric argument that is 1*DIGIT, fits `int` and is followed by the end of the value or a non-digit is parsed to its
decimal value (no sign, no rounding, no truncation). -/
theorem valid_numeric_exact (ds rest : Bytes) (hne : ds ≠ []) (hd : ∀ d ∈ ds, isDigitC d = true)
    (hr : ∀ c, rest.head? = some c → isDigitC c = false) (hfit : (decVal ds : Int) ≤ INT_MAX) :
    parseInt (ds ++ rest) = (true, (decVal ds : Int)) :=
  parseInt_digits ds rest hne hd hr hfit

/-- Whatever is recorded for a numeric directive is a non-negative `int` (so "not negative" and "fits" hold of the result). -/
theorem numeric_recorded_range (it : Bytes × Nat) (v : Int) (h : numOf it = some v) : 0 ≤ v ∧ v ≤ 2147483647 :=
  numOf_range it v h

/-- "max-age=10x" -/
def wGarbage : Bytes := [109,97,120,45,97,103,101,61,49,48,120]
/-- "max-age=+5" -/
def wSign : Bytes := [109,97,120,45,97,103,101,61,43,53]
/-- "max-age= 7" -/
def wSpace : Bytes := [109,97,120,45,97,103,101,61,32,55]
/-- "max-age=4294967297" -/
def wBig : Bytes := [109,97,120,45,97,103,101,61,52,50,57,52,57,54,55,50,57,55]

/- FULL STATEMENT (false of the code):
   theorem invalid_numeric_absent (it) (h : ¬ (the argument of `it` is 1*DIGIT with value ≤ INT_MAX)) : numOf it = none -/

/-- Counterexample 1: "10x" is not a number, yet max-age is recorded as 10 (`strtol` stops at the first non-digit and the end
pointer is not compared with the end of the item). -/
theorem invalid_numeric_absent_counterexample_garbage :
    view (parse wGarbage) .maxAge = some (.num 10) := by decide +kernel

/-- Counterexample 2: a sign is accepted: "+5" is recorded as 5. -/
theorem invalid_numeric_absent_counterexample_sign :
    view (parse wSign) .maxAge = some (.num 5) := by decide +kernel

/-- Counterexample 3: white space after `=` is accepted: " 7" is recorded as 7. -/
theorem invalid_numeric_absent_counterexample_space :
    view (parse wSpace) .maxAge = some (.num 7) := by decide +kernel

/-- (what used to be the wrap-around defect is gone: a value that does not fit is absent) -/
theorem big_numeric_absent_example : view (parse wBig) .maxAge = none := by decide +kernel

/-- PARTIAL: invalid numeric arguments are treated as absent OUTSIDE the excluded region.
Excluded region (explicit by omission from the hypotheses): arguments in which `strtol` finds a number although they are not
1*DIGIT (leading white space, a sign, trailing text).
Covered: (a) no argument, (b) text without a number (`NoNumber`), (c) 1*DIGIT of any length whose value exceeds INT_MAX. -/
theorem invalid_numeric_absent_partial (it : Bytes × Nat)
    (h : itemArg it = none ∨
         (∃ p, itemArg it = some p ∧ NoNumber p) ∨
         (∃ ds rest, itemArg it = some (ds ++ rest) ∧ ds ≠ [] ∧ (∀ d ∈ ds, isDigitC d = true) ∧
            (∀ c, rest.head? = some c → isDigitC c = false) ∧ INT_MAX < (decVal ds : Int))) :
    numOf it = none := by
  unfold numOf
  rcases h with h | ⟨p, hp, hn⟩ | ⟨ds, rest, hp, hne, hd, hr, hbig⟩
  · simp [h]
  · simp [hp, parseInt_noNumber p hn]
  · simp [hp, parseInt_digits_toobig ds rest hne hd hr hbig]

/-- … and an absent numeric value means: the directive is not recorded (max-age, s-maxage, min-fresh, stale-if-error),
or recorded without a value (max-stale: `MAX_STALE_ANY`). -/
theorem absent_numeric_effect (t : CcType) (it : Bytes × Nat) (hn : isNumType t = true) (h : numOf it = none) :
    effective t it = if t = .maxStale then some (.num Gen.CcDirectives.MAX_STALE_ANY) else none := by
  cases t <;> simp [isNumType] at hn <;> simp [effective, isFlagType, isNumType, h]

/-! ## 3. quoted field lists -/

/-- A quoted-string argument without quoted-pairs and without control octets yields exactly its content, whatever follows. -/
theorem quoted_list_exact (v rest : Bytes) (len : Nat) (hv : ∀ c ∈ v, isPlainQ c = true) (hlen : v.length + 1 ≤ len) :
    parseQuoted (34 :: (v ++ 34 :: rest)) len = some v :=
  parseQuoted_plain v rest len hv hlen

/- FULL STATEMENT (false of the code): for every quoted-string, `parseQuoted` yields the content with each quoted-pair `\x`
   replaced by `x`. -/

/-- PARTIAL (excluded region as hypothesis: no quoted-pair of DQUOTE or backslash, no HTAB / control / DEL anywhere):
a quoted-string whose content is any sequence of plain octets and quoted-pairs `\x` of plain octets yields the content with
every quoted-pair replaced by its octet, whatever follows the closing quote. -/
theorem quoted_pairs_exact_partial (atoms : QAtoms) (rest : Bytes) (len : Nat) (hv : ∀ a ∈ atoms, isPlainQ a.2 = true)
    (hlen : (encQ atoms).length + 1 ≤ len) :
    parseQuoted (34 :: (encQ atoms ++ 34 :: rest)) len = some (valsQ atoms) :=
  parseQuoted_atoms atoms rest len hv hlen

/-- Counterexample: `"a\"b"` (content a"b) yields `a`: the escaped quote ends the string. -/
theorem quoted_pair_counterexample : parseQuoted [34, 97, 92, 34, 98, 34] 6 = some [97] := by decide +kernel
/-- Counterexample: `"a\\b"` (content a\b) yields `ab`: the escaped backslash is dropped. -/
theorem quoted_pair_counterexample_backslash : parseQuoted [34, 97, 92, 92, 98, 34] 6 = some [97, 98] := by decide +kernel
/-- Counterexample: HTAB (legal in a quoted-string) makes the whole argument invalid. -/
theorem quoted_htab_counterexample : parseQuoted [34, 97, 9, 98, 34] 5 = none := by decide +kernel

/-! ## 4. "packing the parsed directives and parsing the result again yields the same directives" -/

/- FULL STATEMENT (false of the code): for every field value `s`, parse (pack (parse s)) shows the same directives as parse s. -/

/-- "foo" -/
def wOther : Bytes := [102, 111, 111]

/-- Counterexample: a value with unknown directives only. `parse` keeps `foo` in `other` but sets no mask bit (returns false),
`packInto` prints nothing, and the second parse has lost the directive. -/
theorem pack_parse_roundtrip_counterexample :
    (parse wOther).other = wOther ∧ (parse wOther).mask = 0 ∧ pack (parse wOther) = [] ∧
      (parse (pack (parse wOther))).other = [] := by decide +kernel

/-- PARTIAL (excluded region as hypothesis: `parse` recorded no known directive, i.e. returned false):
for EVERY field value on which `parse` succeeds, packing and parsing again shows exactly the same directives through the
accessors — every known directive (presence, numeric value, field list) and the unknown ones. -/
theorem pack_parse_roundtrip_partial (s : Bytes) (h : (parse s).mask ≠ 0) :
    (∀ t, t ≠ .other → t ≠ .enumEnd → view (parse (pack (parse s))) t = view (parse s) t) ∧
      (parse (pack (parse s))).other = (parse s).other :=
  roundtrip_of_canon (parse s) (parse_canon s).1 (parse_canon s).2 h

/-- … and the second parse succeeds as well (same return value). -/
theorem pack_parse_roundtrip_ok (s : Bytes) (h : (parse s).mask ≠ 0) : (parse (pack (parse s))).mask ≠ 0 :=
  roundtrip_ok s h

/-- `parse` returns true iff a known directive is recorded (the `CC_OTHER` bit is never set: that is the excluded region). -/
theorem parse_ok_iff (s : Bytes) :
    (parse s).mask ≠ 0 ↔ ∃ t : CcType, t ≠ .other ∧ t ≠ .enumEnd ∧ (parse s).isSet t = true :=
  mask_ne_zero_iff _ (parse_maskOk s)

/-- the invariants of every parse result that the round trip rests on: recorded numbers are non-negative `int`s, recorded
field lists contain no DQUOTE, backslash, control octet or DEL (so they can be printed between quotes unescaped), and `other`
is a ", "-join of well-formed unknown directives -/
theorem parse_result_invariants (s : Bytes) : CanonBase (parse s) ∧ OtherOk (parse s) [] := parse_canon s

/-- the packed text of a successful parse is the ", "-join of the printed known directives (in enumerator order) and the
unknown directives -/
theorem pack_shape (s : Bytes) (h : (parse s).mask ≠ 0) :
    ∃ L, (parse s).other = joinItems L ∧
      pack (parse s) = joinItems (packedDirs (parse s) Gen.CcDirectives.attrs ++ L) := by
  obtain ⟨L, hL, hg, _⟩ := (parse_canon s).2
  exact ⟨L, hL, pack_eq_join _ h L hL (fun e he => (hg e he).1.ne)⟩

/-! ## non-vacuity -/

/-- `public, max-age=5, x=1` -/
def wMixed : Bytes := [112,117,98,108,105,99,44,32,109,97,120,45,97,103,101,61,53,44,32,120,61,49]
example : view (parse wMixed) .public_ = some .flag := by decide +kernel
example : view (parse wMixed) .maxAge = some (.num 5) := by decide +kernel
example : (parse wMixed).other = [120, 61, 49] := by decide +kernel
example : (items wMixed).length = 3 := by decide +kernel
example : GoodItem [112,117,98,108,105,99] := ⟨by decide, by decide, by decide, ⟨(false, false), by decide⟩⟩
example : ¬ NoNumber [49, 48, 120] := by unfold NoNumber; decide
example : NoNumber [120, 49] := by unfold NoNumber; decide
example : isPlainQ 97 = true ∧ isPlainQ 44 = true ∧ isPlainQ 32 = true := by decide
/-- `"a\,b"`: atoms a, \, (quoted-pair of a comma), b -/
example : encQ [(false, 97), (true, 44), (false, 98)] = [97, 92, 44, 98] ∧ valsQ [(false, 97), (true, 44), (false, 98)] = [97, 44, 98] := by decide
example : parseQuoted [34, 97, 92, 44, 98, 34] 6 = some [97, 44, 98] := by decide +kernel
/-- `public, <VT>, no-store`: the VT element is skipped, both directives are seen -/
example : view (parse [112,117,98,108,105,99,44,32,11,44,32,110,111,45,115,116,111,114,101]) .noStore = some .flag := by decide +kernel
/-- the round-trip hypothesis is satisfiable, and the round trip is not trivially about empty states -/
example : (parse wMixed).mask ≠ 0 := by decide +kernel
example : pack (parse wMixed) = wMixed := by decide +kernel
/-- `private="a, b", no-cache, max-stale, max-age=0, foo="x,y"` packs in enumerator order -/
def wLists : Bytes := [112,114,105,118,97,116,101,61,34,97,44,32,98,34,44,32,110,111,45,99,97,99,104,101,44,32,109,97,120,45,115,116,97,108,101,44,32,109,97,120,45,97,103,101,61,48,44,32,102,111,111,61,34,120,44,121,34]
example : view (parse wLists) .private_ = some (.list [97, 44, 32, 98]) := by decide +kernel
example : view (parse wLists) .noCache = some (.list []) := by decide +kernel
example : view (parse wLists) .maxStale = some (.num 2147483647) := by decide +kernel
example : (parse wLists).other = [102,111,111,61,34,120,44,121,34] := by decide +kernel
example : parse (pack (parse wLists)) = parse wLists := by decide +kernel

end SquidModel.C29
