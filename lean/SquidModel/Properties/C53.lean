/-
C53 — Shared page allocator never double-allocates or loses pages.

Model: `SquidModel.Ipc.PageStack` (`PageStack::pop/push`, `IdSet::pop/push/innerPop/innerPush/leafPop/leafPush` as their
sequences of single atomic operations; any number of threads; any interleaving; any capacity `cap` and any tree with `H ≥ 1`
inner levels that is big enough for it, `cap ≤ 64·2^H` — `measure_fits` shows that the tree the constructor computes is).
All theorems quantify over every reachable configuration, i.e. every finite interleaving of every number of threads calling
`pop` and `push(page they hold)` in any order, from a stack created full or created empty (all pages in the threads' hands).
Sequentially consistent atomics are assumed. Ids are 0-based (`PageId::number = id + 1`).
-/
import SquidModel.Ipc.PageStackAux
import SquidModel.Gen.PageStack
import SquidModel.Ipc.PageStackSolo
import SquidModel.Ipc.PageStackCtor
import SquidModel.Ipc.PageStackBound
import SquidModel.Ipc.PageStackExecSound
import SquidModel.Ipc.PageStackExecStart

namespace SquidModel.C53
open SquidModel.Ipc.PageStack

variable {cap H : Nat} {s : Sh} {ts : List Th}

/-- No page is handed to two holders at the same time: two different threads never own the same id — whether they hold it
after `pop` returned, carry it out of the tree (`popDec`) or are about to put it back (`pushInc`, `pushLeaf`). -/
theorem no_double_alloc (hH : 1 ≤ H) (hfit : cap ≤ 64 * 2 ^ H) (hr : Reachable cap H (s, ts)) (i j : Nat)
    (hi : i < ts.length) (hj : j < ts.length) (hij : i ≠ j) (id : Nat)
    (oi : 1 ≤ owns ts[i] id) (oj : 1 ≤ owns ts[j] id) : False := by
  have inv := inv_reachable hH hfit hr
  have h2 := tsum_ge_two (fun t => owns t id) ts i j hi hj hij
  have := inv.own id
  dsimp only at this h2
  split at this <;> omega

/-- ... in particular for the API-level holders (threads whose `pop` returned the page and who have not called `push`). -/
theorem no_double_hold (hH : 1 ≤ H) (hfit : cap ≤ 64 * 2 ^ H) (hr : Reachable cap H (s, ts)) (i j : Nat)
    (hi : i < ts.length) (hj : j < ts.length) (hij : i ≠ j) (id : Nat)
    (mi : id ∈ ts[i].held) (mj : id ∈ ts[j].held) : False := by
  refine no_double_alloc hH hfit hr i j hi hj hij id ?_ ?_
  · have := List.count_pos_iff.mpr mi; unfold owns; omega
  · have := List.count_pos_iff.mpr mj; unfold owns; omega

/-- A thread never has the same page twice. -/
theorem no_duplicate_in_thread (hH : 1 ≤ H) (hfit : cap ≤ 64 * 2 ^ H) (hr : Reachable cap H (s, ts)) (i : Nat)
    (hi : i < ts.length) (id : Nat) : owns ts[i] id ≤ 1 := by
  have inv := inv_reachable hH hfit hr
  have h1 := tsum_ge (fun t => owns t id) ts i hi
  have := inv.own id
  dsimp only at this h1
  split at this <;> omega

/-- Every allocated page is a valid page of the pool (`pageIdIsValid`: `0 < number ≤ capacity`), and while somebody owns it
its bit in the tree is clear: it cannot be handed out again. -/
theorem allocated_pages_valid (hH : 1 ≤ H) (hfit : cap ≤ 64 * 2 ^ H) (hr : Reachable cap H (s, ts)) (i : Nat)
    (hi : i < ts.length) (id : Nat) (o : 1 ≤ owns ts[i] id) :
    id < cap ∧ (s.leaf (id / 64)).testBit (id % 64) = false :=
  carried_id_free (inv_reachable hH hfit hr) i hi id o

/-- No page is ever lost or duplicated: at every instant every page of the pool is in exactly one place — available in its
leaf, or owned by exactly one thread (held, or in flight between the tree and the holder). -/
theorem no_page_lost (hH : 1 ≤ H) (hfit : cap ≤ 64 * 2 ^ H) (hr : Reachable cap H (s, ts)) (id : Nat) (hid : id < cap) :
    bit s id + tsum (fun t => owns t id) ts = 1 := by
  have := (inv_reachable hH hfit hr).own id
  dsimp only at this
  rw [if_pos hid] at this
  exact this

/-- pages accounted to a thread: held, being released (`push` in flight), or already promised to its `pop` in flight
(it has taken a unit from the root counters) -/
def committed (t : Th) : Nat := outCount t + prePush t + postPop t

/-- The root counters are the number of pages that are free in the linearised history (a `push` takes effect when it
increments the root, a successful `pop` when it decrements it). -/
theorem root_counts_free (hH : 1 ≤ H) (hfit : cap ≤ 64 * 2 ^ H) (hr : Reachable cap H (s, ts)) :
    (s.inner 0 0).1 + (s.inner 0 0).2 + tsum committed ts = cap := by
  have inv := inv_reachable hH hfit hr
  have h1 := inv.sz
  have h2 := inv.szc
  dsimp only at h1 h2
  unfold total at h1
  rw [if_neg (by omega)] at h1
  have : ∀ us : List Th, tsum committed us = tsum outCount us + tsum prePush us + tsum postPop us := by
    intro us
    induction us with
    | nil => rfl
    | cons a as ih => simp only [tsum, committed, List.map_cons, List.sum_cons] at *; omega
  have := this ts
  omega

/-- An allocation fails only if, at some point during it, no page was free: the step at which `pop` gives up is a read of the
root (by the load or by a failed compare-exchange) that returns (0,0), and at that instant every one of the `cap` pages is
accounted to some thread — held, being released, or already promised to an in-flight `pop`. -/
theorem pop_fails_only_if_no_free (hH : 1 ≤ H) (hfit : cap ≤ 64 * 2 ^ H) (hr : Reachable cap H (s, ts)) (i : Nat)
    (hi : i < ts.length) (hfail : (act H s ts[i]).2.2.2 = some .popFail) :
    s.inner 0 0 = (0, 0) ∧ tsum committed ts = cap := by
  have inv := inv_reachable hH hfit hr
  have hroot : s.inner 0 0 = (0, 0) := by
    have hwf := inv.wf _ (List.getElem_mem hi)
    generalize ts[i] = t at hfail hwf
    obtain ⟨pc, held⟩ := t
    have key : ∀ l o, (l = 0 → o = 0) → (afterInnerRead l o (s.inner l o)).2 = some Res.popFail → s.inner 0 0 = (0, 0) := by
      intro l o hlo h
      unfold afterInnerRead at h
      split at h
      · rename_i hz
        split at h
        · rename_i hl; subst hl; rw [hlo rfl] at hz; exact Prod.ext hz.1 hz.2
        · cases h
      · cases h
    cases pc with
    | popLoad l o => simp only [WF] at hwf; simp only [act] at hfail; exact key l o hwf.2.2 hfail
    | popCas l o a b =>
      simp only [WF] at hwf
      simp only [act] at hfail
      split at hfail
      · cases hfail
      · exact key l o hwf.2.2.1 hfail
    | leafCas o old => simp only [act] at hfail; split at hfail <;> cases hfail
    | pushInner l o => simp only [act] at hfail; split at hfail <;> cases hfail
    | _ => simp [act] at hfail
  refine ⟨hroot, ?_⟩
  have := root_counts_free hH hfit hr
  rw [hroot] at this
  simpa using this

/-- No `assert` of PageStack.cc can fire: no thread ever reaches the `bad` state (`dirEnd` below the root in `descend`,
`oldValue > 0` in `leafPop`, `(oldValue & mask) == 0` in `leafPush`), ... -/
theorem no_bad (hH : 1 ≤ H) (hfit : cap ≤ 64 * 2 ^ H) (hr : Reachable cap H (s, ts)) (i : Nat) (hi : i < ts.length) :
    ts[i].pc ≠ .bad := by
  have := (inv_reachable hH hfit hr).wf _ (List.getElem_mem hi)
  intro h
  unfold WF at this
  rw [h] at this
  exact this

/-- ... `size_` never underflows or exceeds the capacity (`newSize < capacity` after `--size_`, `newSize <= capacity` after
`++size_`), pages passed to `push` are valid, and every node position a thread uses is inside the tree (`nodeAt`). -/
theorem asserts_hold (hH : 1 ≤ H) (hfit : cap ≤ 64 * 2 ^ H) (hr : Reachable cap H (s, ts)) (i : Nat) (hi : i < ts.length) :
    (∀ id, ts[i].pc = .popDec id → 1 ≤ s.size ∧ s.size - 1 < cap ∧ id < cap) ∧
    (∀ id, ts[i].pc = .pushInc id → s.size + 1 ≤ cap ∧ id < cap) ∧
    (∀ l o, ts[i].pc = .popLoad l o → l < H ∧ o < 2 ^ l) ∧
    (∀ l o a b, ts[i].pc = .popCas l o a b → l < H ∧ o < 2 ^ l) ∧
    (∀ o, ts[i].pc = .leafLoad o → o < 2 ^ H) ∧
    (∀ o old, ts[i].pc = .leafCas o old → o < 2 ^ H ∧ 0 < old) ∧
    (∀ id, ts[i].pc = .pushLeaf id → id < cap ∧ id / 64 < 2 ^ H) ∧
    (∀ l o, ts[i].pc = .pushInner l o → 1 ≤ l ∧ l ≤ H ∧ o < 2 ^ l) := by
  have inv := inv_reachable hH hfit hr
  have hwf := inv.wf _ (List.getElem_mem hi)
  have hsz := inv.sz
  have hszc := inv.szc
  dsimp only at hsz hszc
  have g1 := tsum_ge postPop ts i hi
  have g2 := tsum_ge outCount ts i hi
  have hown : ∀ id, 1 ≤ owns ts[i] id → id < cap := fun id h => (carried_id_free inv i hi id h).1
  have hlc : ∀ l, l ≤ H → liveCount cap H l ≤ 2 ^ l := fun l hl => liveCount_le cap H l hl hfit
  refine ⟨?_, ?_, ?_, ?_, ?_, ?_, ?_, ?_⟩
  · intro id h
    have hp : postPop ts[i] = 1 := by unfold postPop; rw [h]
    have := hown id (by unfold owns; rw [h]; simp)
    omega
  · intro id h
    have hp : 1 ≤ outCount ts[i] := by unfold outCount; rw [h]; simp
    have := hown id (by unfold owns; rw [h]; simp)
    omega
  · intro l o h; unfold WF at hwf; rw [h] at hwf; have := hlc l (by omega); omega
  · intro l o a b h; unfold WF at hwf; rw [h] at hwf; have := hlc l (by omega); omega
  · intro o h; unfold WF at hwf; rw [h] at hwf; have := hlc H (by omega); omega
  · intro o old h; unfold WF at hwf; rw [h] at hwf; have := hlc H (by omega); omega
  · intro id h
    have hc := hown id (by unfold owns; rw [h]; simp)
    have := hlc H (Nat.le_refl _)
    rw [liveCount_leaf] at this
    omega
  · intro l o h; unfold WF at hwf; rw [h] at hwf; have := hlc l (by omega); omega

/-- The counters never overflow their 32-bit halves: both counters of every live inner node together are at most the
capacity, so for a 32-bit capacity the stored word is exactly `(left << 32) | right`, `Unpack` recovers the pair, and the
`fetch_add` of `innerPush` neither carries between the halves nor wraps the word (`assert(previousValue <= max - increment)`:
the incremented value is the word of a reachable configuration again, `pack_add_left/right`). -/
theorem counters_never_overflow (hH : 1 ≤ H) (hfit : cap ≤ 64 * 2 ^ H) (hcap : cap < 2 ^ 32) (hr : Reachable cap H (s, ts))
    (l o : Nat) (hl : l < H) (hlive : o < liveCount cap H l) :
    (s.inner l o).1 + (s.inner l o).2 ≤ cap ∧
    pack (s.inner l o) = (s.inner l o).1 <<< 32 ||| (s.inner l o).2 ∧
    (pack (s.inner l o) >>> 32, pack (s.inner l o) % 2 ^ 32) = s.inner l o ∧
    pack (s.inner l o) < 2 ^ 64 := by
  have hle := counters_le_cap (inv_reachable hH hfit hr) l o hl hlive
  have hb : (s.inner l o).2 < 2 ^ 32 := by omega
  refine ⟨hle, pack_eq_shift_or _ _ hb, unpack_pack _ _ hb, ?_⟩
  unfold pack
  have : (2:Nat) ^ 32 = 4294967296 := by decide
  have : (2:Nat) ^ 64 = 18446744073709551616 := by decide
  omega

/-- Once activity stops (no thread in flight) the tree is exact: every live node's counters are the number of free ids in
the leaves below it, `size_` is the number of free pages, the free pages are exactly the pages nobody holds, and together
with the held ones they are all `cap` pages. -/
theorem quiescent_exact (hH : 1 ≤ H) (hfit : cap ≤ 64 * 2 ^ H) (hr : Reachable cap H (s, ts)) (hq : Quiescent ts) :
    (∀ l o, l < H → o < liveCount cap H l →
      (s.inner l o).1 = freeBelow cap s (H - l - 1) (2 * o) ∧ (s.inner l o).2 = freeBelow cap s (H - l - 1) (2 * o + 1)) ∧
    (∀ id, id < cap → ((s.leaf (id / 64)).testBit (id % 64) = true ↔ ∀ t ∈ ts, id ∉ t.held)) ∧
    s.size = freeBelow cap s H 0 ∧
    s.size + tsum (fun t => t.held.length) ts = cap := by
  have inv := inv_reachable hH hfit hr
  have hz : ∀ (f : Th → Nat), (∀ held, f ⟨.idle, held⟩ = 0) → tsum f ts = 0 := fun f hf => tsum_quiescent f ts hq hf
  refine ⟨?_, ?_, ?_, ?_⟩
  · intro l o hl hlive
    have c0 := inv.cnt l o 0 hl hlive (by omega)
    have c1 := inv.cnt l o 1 hl hlive (by omega)
    dsimp only at c0 c1
    rw [hz _ (fun h => by simp [resv]), hz _ (fun h => by simp [pend])] at c0 c1
    have hk : H - (l + 1) = H - l - 1 := by omega
    have hside0 : side (s.inner l o) 0 = (s.inner l o).1 := by simp [side]
    have hside1 : side (s.inner l o) 1 = (s.inner l o).2 := by simp [side]
    constructor
    · simp only [Nat.add_zero] at c0
      split at c0
      · rename_i hlv
        have := quiescent_total inv hq (H - l - 1) (l + 1) (2 * o) (by omega) hlv
        omega
      · rename_i hlv
        rw [← hside0, c0, freeBelow_dead]
        rw [liveCount_eq, hk] at hlv; omega
    · split at c1
      · rename_i hlv
        have := quiescent_total inv hq (H - l - 1) (l + 1) (2 * o + 1) (by omega) hlv
        omega
      · rename_i hlv
        rw [← hside1, c1, freeBelow_dead]
        rw [liveCount_eq, hk] at hlv; omega
  · intro id hid
    have hown := inv.own id
    dsimp only at hown
    rw [if_pos hid] at hown
    constructor
    · intro hb t ht hmem
      obtain ⟨i, hi, rfl⟩ := List.getElem_of_mem ht
      have := tsum_ge (fun t => owns t id) ts i hi
      have hc := List.count_pos_iff.mpr hmem
      unfold bit at hown
      rw [if_pos hb] at hown
      have : 1 ≤ owns ts[i] id := by unfold owns; omega
      omega
    · intro hnone
      have : tsum (fun t => owns t id) ts = 0 := by
        apply tsum_zero
        intro t ht
        have hpc := hq t ht
        have := hnone t ht
        unfold owns
        rw [hpc, List.count_eq_zero_of_not_mem this]; rfl
      unfold bit at hown
      cases hb : (s.leaf (id / 64)).testBit (id % 64)
      · rw [hb] at hown; simp at hown; omega
      · rfl
  · have := inv.sz
    dsimp only at this
    rw [hz prePush (fun h => by simp [prePush]), hz postPop (fun h => by simp [postPop])] at this
    by_cases hc : 0 < liveCount cap H 0
    · rw [this, quiescent_total inv hq H 0 0 (by omega) hc]; rfl
    · have hcap : cap = 0 := by
        by_cases h0 : cap = 0
        · exact h0
        · exact absurd (liveCount_pos cap H 0 (by omega)) hc
      have h1 := inv.szc
      dsimp only at h1
      rw [freeBelow_dead cap s H 0 (by rw [liveCount_eq] at hc; simpa using hc)]
      omega
  · have := inv.szc
    dsimp only at this
    have e : tsum outCount ts = tsum (fun t => t.held.length) ts := by
      unfold tsum
      congr 1
      apply List.map_congr_left
      intro t ht
      unfold outCount
      rw [hq t ht]; rfl
    omega

/-- Once activity stops, every released page can be allocated again: if no thread is in flight and some page is held by
nobody, then a `pop` by any thread, run alone, returns within `2·H + 3` atomic operations, successfully, with a page that
was free (its bit was set and nobody held it) — so repeating it hands out every released page. -/
theorem released_pages_allocatable (hH : 1 ≤ H) (hfit : cap ≤ 64 * 2 ^ H) (hr : Reachable cap H (s, ts)) (hq : Quiescent ts)
    (i : Nat) (hi : i < ts.length) (id0 : Nat) (hid0 : id0 < cap) (hfree : ∀ t ∈ ts, id0 ∉ t.held) :
    begin cap ts[i] .pop = some (⟨.popLoad 0 0, ts[i].held⟩, none) ∧
    ∃ id s', iterAct H (2 * H + 3) (s, ⟨.popLoad 0 0, ts[i].held⟩) = (s', ⟨.idle, id :: ts[i].held⟩) ∧
      id < cap ∧ (s.leaf (id / 64)).testBit (id % 64) = true ∧ (∀ t ∈ ts, id ∉ t.held) ∧
      Reachable cap H (s', ts.set i ⟨.idle, id :: ts[i].held⟩) := by
  have inv := inv_reachable hH hfit hr
  have hqe := quiescent_exact hH hfit hr hq
  have hidle : ts[i].pc = .idle := hq _ (List.getElem_mem hi)
  have hb : begin cap ts[i] .pop = some (⟨.popLoad 0 0, ts[i].held⟩, none) := by
    simp only [begin, hidle]; rw [if_neg (by omega)]
  refine ⟨hb, ?_⟩
  have r0 : Reachable cap H (s, ts.set i ⟨.popLoad 0 0, ts[i].held⟩) := Reachable.step hr (Step.begin s ts i hi .pop _ _ hb)
  -- the root counters are positive because the free page is counted all the way up
  have hbit0 : (s.leaf (id0 / 64)).testBit (id0 % 64) = true := (hqe.2.1 id0 hid0).mpr hfree
  have hleafpos : 0 < freeBelow cap s 0 (0 * 2 ^ H + id0 / 64) := by
    simp only [freeBelow, Nat.zero_mul, Nat.zero_add]
    rw [if_pos (by omega)]
    exact pop64_pos_of_testBit _ (id0 % 64) (by omega) hbit0
  have hrootpos : 0 < (s.inner 0 0).1 + (s.inner 0 0).2 := by
    have h1 := freeBelow_pos_of_leaf cap s H 0 (id0 / 64) (by omega) hleafpos
    have h2 := quiescent_total inv hq H 0 0 (by omega) (liveCount_pos cap H 0 (by omega))
    unfold total at h2
    rw [if_neg (by omega)] at h2
    omega
  obtain ⟨s1, oL, e1, r1, hl1⟩ := solo_descend hH hfit i hi ts[i].held s.leaf H 0 0 s (by omega) r0 (fun _ => hrootpos) rfl
  obtain ⟨s2, e2, r2, hcap2, hk64, hkbit⟩ := solo_leaf hH hfit i hi ts[i].held s1 oL r1
  rw [hl1] at e2 r2 hcap2 hk64 hkbit
  have hdiv : (oL * 64 + trailingZeros (s.leaf oL)) / 64 = oL := by omega
  have hmod : (oL * 64 + trailingZeros (s.leaf oL)) % 64 = trailingZeros (s.leaf oL) := by omega
  have hbit : (s.leaf ((oL * 64 + trailingZeros (s.leaf oL)) / 64)).testBit ((oL * 64 + trailingZeros (s.leaf oL)) % 64) = true := by
    rw [hdiv, hmod]; exact hkbit
  refine ⟨oL * 64 + trailingZeros (s.leaf oL), s2, ?_, hcap2, hbit, (hqe.2.1 _ hcap2).mp hbit, r2⟩
  rw [show 2 * H + 3 = 2 * H + 3 from rfl, iterAct_add, e1, e2]

/-- The tree the constructor computes (`IdSetMeasurements`) satisfies the size hypotheses of all theorems above, for every
capacity up to `2^32 - 64` (above that the constructor's 32-bit `capacity + 63` wraps, `measure_wraps`); its height passes
`assert(treeHeight < 32)`. -/
theorem measured_tree_fits (c : Nat) (hc : c + 63 < 2 ^ 32) :
    1 ≤ (measure c).innerLevelCount ∧ c ≤ 64 * 2 ^ (measure c).innerLevelCount ∧ (measure c).treeHeight < 32 := by
  have := measure_fits c hc
  exact ⟨this.1, this.2.2.1, this.2.2.2.1⟩

/-- The constants the model uses are those of the current source text, and `measure` agrees with what the real
`IdSetMeasurements` constructor computes on the dumped capacities (all 2^k and 2^k ± 1, a few others, and 2^32 - 1). -/
theorem gen_constants_match :
    Gen.PageStack.bitsPerLeaf = BitsPerLeaf ∧ 2 ^ Gen.PageStack.packShift = 4294967296 ∧ Gen.PageStack.unpackShift = 32 ∧
    Gen.PageStack.treeHeightLimit = 32 ∧ Gen.PageStack.sizeTypeBits = 32 ∧ Gen.PageStack.nodeBits = 64 ∧
    (Gen.PageStack.measurements.all fun (c, req, th, ln, il, nc) =>
      let m := measure c
      m.requestedLeafNodeCount == req && m.treeHeight == th && m.leafNodeCount == ln && m.innerLevelCount == il && m.nodeCount == nc)
      = true := by
  decide +kernel

/-- The constructor modelled statement by statement (`fillAllNodes`, `truncateExtras`, `leafTruncate` as repaired by commit
1ff5fc0, `innerTruncate`) is defined (no undefined shift) and produces exactly the initial tree the theorems start from
(`Sh.full`, including the stale words beyond the capacity) — checked for every capacity up to 520. -/
theorem constructor_agrees_small : (List.range 521).all ctorAgrees = true := ctor_agrees_small

/-- The repaired `leafTruncate` never executes a shift by 64 or more. -/
theorem leafTruncate_never_undefined (s : Sh) (o idsToKeep : Nat) : (leafTruncate s o idsToKeep).isSome = true :=
  leafTruncate_defined s o idsToKeep

/-- The runs of the executable scheduler that is compared with the real code stay inside the reachable configurations:
the start configuration of every scenario (created full, or created empty with the pages dealt to the threads), every
configuration after a prefix of its schedule, and its final configuration. -/
theorem scheduler_runs_are_reachable (c : Nat) (full : Bool) (opsPer : List (List Tok)) (schedule : List Nat)
    (hn : 0 < opsPer.length) :
    (∀ k, Reachable c (measure c).innerLevelCount
      (cfgOf ((schedule.take k).foldl (stepSys c (measure c).innerLevelCount) (startSys c full opsPer)))) ∧
    Reachable c (measure c).innerLevelCount (cfgOf (finalSys c full opsPer schedule)) :=
  scenario_reachable c full opsPer schedule hn

/-! ### non-vacuity -/

/-- a configuration with a holder and a failing concurrent pop is reachable: capacity 1, thread 0 has popped page 0,
thread 1 is about to read the empty root (so `pop_fails_only_if_no_free` and `no_double_hold` talk about something) -/
example : ∃ s, Reachable 1 1 (s, [⟨.idle, [0]⟩, ⟨.popLoad 0 0, []⟩]) ∧ s.inner 0 0 = (0, 0) ∧
    (act 1 s ⟨.popLoad 0 0, []⟩).2.2.2 = some .popFail := by
  have r0 : Reachable 1 1 (Sh.full 1 1, [⟨.idle, []⟩, ⟨.idle, []⟩]) := Reachable.initFull 2
  have r1 := Reachable.step r0 (Step.begin _ _ 0 (by decide) .pop ⟨.popLoad 0 0, []⟩ none rfl)
  have r2 := Reachable.step r1 (Step.act _ _ 0 (by decide) rfl)
  have r3 := Reachable.step r2 (Step.act _ _ 0 (by decide) rfl)
  have r4 := Reachable.step r3 (Step.act _ _ 0 (by decide) rfl)
  have r5 := Reachable.step r4 (Step.act _ _ 0 (by decide) rfl)
  have r6 := Reachable.step r5 (Step.act _ _ 0 (by decide) rfl)
  have r7 := Reachable.step r6 (Step.begin _ _ 1 (by decide) .pop ⟨.popLoad 0 0, []⟩ none rfl)
  exact ⟨_, r7, by decide, by decide⟩

/-- the hypotheses on the tree are satisfiable, e.g. by what the constructor computes for 130 pages: 2 inner levels, 4 leaves -/
example : (measure 130).innerLevelCount = 2 ∧ (measure 130).leafNodeCount = 4 ∧ 130 ≤ 64 * 2 ^ 2 := by decide

/-- PRE-FIX VARIANT ONLY (the code before commit 1ff5fc0, kept as a record of the repaired defect): there `createFull` with
a capacity that is a multiple of 64 but not 64·2^k executed `node >>= 64` (undefined behaviour): `leafTruncatePreFix` with
`idsToKeep = 0` is undefined, and that call happens exactly for the capacities `fullUB` names — witnesses 0, 64, 192 pages,
while e.g. 128, 65 and 1 were fine. The current `leafTruncate` is defined on the same arguments. -/
theorem createFull_shift64_counterexample :
    (leafTruncatePreFix (fillAllNodes 1) 1 0).isNone = true ∧ (leafTruncate (fillAllNodes 1) 1 0).isSome = true ∧
    fullUB 0 (measure 0).innerLevelCount = true ∧ fullUB 64 (measure 64).innerLevelCount = true ∧
    fullUB 192 (measure 192).innerLevelCount = true ∧ fullUB 128 (measure 128).innerLevelCount = false ∧
    fullUB 65 (measure 65).innerLevelCount = false ∧ fullUB 1 (measure 1).innerLevelCount = false := by
  refine ⟨by decide, by decide, ?_⟩
  decide

end SquidModel.C53
