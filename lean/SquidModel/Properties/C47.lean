/-
C47 — Helper replies reach the request that asked.

Full statement (from the property text): with concurrent helper channels, each helper reply is applied only to the request whose
channel ID it carries, however the reply bytes are split across reads and in whatever order replies arrive; with non-concurrent
helpers, replies are applied in request order; a reply for an unknown channel is never applied to any request.

The model (SquidModel/Helper/Read.lean) follows `helperHandleRead` & co. of src/helper.cc and describes, selected by `Cfg` flags,
both the pinned tree and the tree after the candidate repairs notes/fixes/C47-*.diff.  What is proved:

* the pinned behaviour violates the statement: `split_channel_id_counterexample`, `split_channel_id_drop_counterexample`,
  `unterminated_id_assert_counterexample`, `nul_assert_counterexample`, `channel_id_truncation_counterexample`;
* for the repaired behaviour (`popOnlyWhenComplete`, `dropUnterminated`) and protocol-conforming helper output
  (`<digits> SP <body> LF`, any channel numbers known or unknown, any order, any bodies without NUL/CR/LF), **for every
  fragmentation into reads**: `two_reads_or_one`, `any_fragmentation_same_result`, `reply_to_own_channel`
  (every callback goes to a request that was waiting on the channel named by the line whose body it receives),
  `unknown_channel_never_applied`;
* `repaired_never_aborts`: no helper output at all (conforming or not) trips an assertion of the repaired reader;
* `fifo_when_not_concurrent`: without concurrency the request list is a FIFO: dispatch appends, a reply takes the oldest.

`reply_to_own_channel` is `_partial` with respect to the full statement only in its hypotheses "conforming output" and "the helper
is not caught writing while nothing is pending" (then `helperHandleRead` kills the helper, in either tree): for arbitrary
(non-conforming) bytes the per-read lemma `pop_never_on_partial_id` still shows that the repaired reader never looks a request up
with an incomplete channel id.
-/
import SquidModel.Helper.Lemmas

namespace SquidModel.C47
open SquidModel.Helper

/-- the pinned tree -/
def pinned (conc : Nat) : Cfg :=
  { concurrency := conc, popOnlyWhenComplete := false, dropUnterminated := false, nulCloses := false, wideChannelId := false }
/-- the tree with notes/fixes/C47-*.diff applied -/
def repaired (conc : Nat) : Cfg :=
  { concurrency := conc, popOnlyWhenComplete := true, dropUnterminated := true, nulCloses := true, wideChannelId := true }

/-! ## the pinned behaviour violates the property -/

/-- Channels 1..12 are waiting, the helper answers channel 12 with `12 OK\n` and the bytes arrive as `1` | `2 OK\n`.
The reply is applied to the request on channel 1 (as the text `12 OK`); the request on channel 12 never gets it. -/
theorem split_channel_id_counterexample :
    let st := run (pinned 60) 0 12 [[49], [50, 32, 79, 75, 10]]
    deliveredTo st 1 = some [49, 50, 32, 79, 75] ∧ deliveredTo st 12 = none := by
  decide +kernel

/-- The same bytes when only channels 10..12 are waiting (no request on the partial id 1): the reply is dropped,
the request on channel 12 (the third one) never gets it, although the one-read delivery reaches it. -/
theorem split_channel_id_drop_counterexample :
    deliveredTo (run (pinned 60) 9 3 [[49], [50, 32, 79, 75, 10]]) 3 = none ∧
    deliveredTo (run (pinned 60) 9 3 [[49, 50, 32, 79, 75, 10]]) 3 = some [79, 75] := by
  decide +kernel

/-- With repair 1 the same bytes reach channel 12 and only channel 12. -/
theorem split_channel_id_repaired_witness :
    let st := run (repaired 60) 0 12 [[49], [50, 32, 79, 75, 10]]
    deliveredTo st 12 = some [79, 75] ∧ deliveredTo st 1 = none := by
  decide +kernel

/-- Pinned behaviour: a complete line that does not start with a terminated channel id (`OK\n` from a helper that
ignores the concurrency protocol) trips `assert(skip == 0 && eom == nullptr)`. -/
theorem unterminated_id_assert_counterexample :
    (run (pinned 60) 0 1 [[79, 75, 10]]).dead = true := by
  decide +kernel

/-- Pinned behaviour: a NUL octet right after a reply trips `assert(msg - rbuf == roffset)`. -/
theorem nul_assert_counterexample :
    (run (pinned 60) 0 1 [[49, 32, 79, 75, 10, 0]]).dead = true := by
  decide +kernel

/-- Pinned behaviour: the channel id is read with `strtol` and stored in an `int`; `4294967297 OK\n` (2^32 + 1) is applied
to the request waiting on channel 1.  With repair 3 it is not. -/
theorem channel_id_truncation_counterexample :
    deliveredTo (run (pinned 60) 0 1 [[52, 50, 57, 52, 57, 54, 55, 50, 57, 55, 32, 79, 75, 10]]) 1 = some [79, 75] ∧
    deliveredTo (run (repaired 60) 0 1 [[52, 50, 57, 52, 57, 54, 55, 50, 57, 55, 32, 79, 75, 10]]) 1 = none := by
  decide +kernel

/-! ## the repaired behaviour: fragmentation does not matter -/

/-- **Two reads or one.**  Concurrent helper, repairs 1 and 2, a session between two messages with a request waiting.
The helper writes conforming output (`ls` complete lines and an unfinished line `tl`); wherever the bytes `a ++ b` of that
output are cut into two reads — inside a channel number, right after it, inside a body, before or after a terminator — the
session ends in exactly the same state as after the single read of `a ++ b`: the same requests received the same replies,
the same requests still wait, the same bytes are kept. -/
theorem two_reads_or_one (cfg : Cfg) (hconc : cfg.concurrency > 0) (hfix : cfg.popOnlyWhenComplete = true)
    (hfix2 : cfg.dropUnterminated = true) (ls : List (Bytes × Bytes)) (tl : Tail) (st : St) (a b : Bytes)
    (hgl : GoodLines ls) (htl : tl.Good) (hs : LineStart st) (hcl : st.closed = false) (hdd : st.dead = false)
    (hp : st.pending ≠ 0) (hab : a ++ b = encode ls ++ tl.enc) (hp1 : (handleRead cfg st a).pending ≠ 0) :
    handleRead cfg (handleRead cfg st a) b = handleRead cfg st (a ++ b) :=
  handleRead_merge cfg hconc hfix hfix2 ls tl st a b hgl htl hs hcl hdd hp hab hp1

/-- **Any fragmentation.**  The same for any number of reads `c0, cs[0], cs[1], ...` whose concatenation is (a prefix of) the
conforming output. -/
theorem any_fragmentation_same_result (cfg : Cfg) (hconc : cfg.concurrency > 0) (hfix : cfg.popOnlyWhenComplete = true)
    (hfix2 : cfg.dropUnterminated = true) (ls : List (Bytes × Bytes)) (tl : Tail) (st : St)
    (hgl : GoodLines ls) (htl : tl.Good) (hs : LineStart st) (hcl : st.closed = false) (hdd : st.dead = false)
    (hp : st.pending ≠ 0) (cs : List Bytes) (c0 x : Bytes) (hx : (c0 ++ cs.flatten) ++ x = encode ls ++ tl.enc)
    (hpend : ∀ k, k < cs.length → (handleRead cfg st (c0 ++ (cs.take k).flatten)).pending ≠ 0) :
    feed cfg st (c0 :: cs) = handleRead cfg st (c0 ++ cs.flatten) :=
  feed_eq_single cfg hconc hfix hfix2 ls tl st hgl htl hs hcl hdd hp cs c0 x hx hpend

/-- **Replies reach the request that asked (partial: conforming output).**  Concurrent helper, repairs 1 and 2, a session
between two messages.  The helper writes the complete conforming lines `ls` (any channel numbers: waiting, unknown, duplicate,
in any order), delivered in ANY fragmentation `c0, cs...`.  Then every callback made is the callback of a request `r` that, when
line `p` was reached, was waiting on exactly the channel `p` names, and it receives exactly `p`'s body. -/
theorem reply_to_own_channel_partial (cfg : Cfg) (hconc : cfg.concurrency > 0) (hfix : cfg.popOnlyWhenComplete = true)
    (hfix2 : cfg.dropUnterminated = true) (ls : List (Bytes × Bytes)) (st : St)
    (hgl : GoodLines ls) (hs : LineStart st) (hcl : st.closed = false) (hdd : st.dead = false)
    (hp : st.pending ≠ 0) (cs : List Bytes) (c0 : Bytes) (hx : c0 ++ cs.flatten = encode ls)
    (hpend : ∀ k, k < cs.length → (handleRead cfg st (c0 ++ (cs.take k).flatten)).pending ≠ 0) :
    ∃ extra, (feed cfg st (c0 :: cs)).delivered = st.delivered ++ extra ∧
      ∀ d ∈ extra, ∃ pre p post, ls = pre ++ p :: post ∧ ∃ r ∈ (runLines cfg st pre).requests,
        (r.id : Int) = chanOf cfg p.1 ∧ d = (r.serial, r.acc ++ p.2) := by
  have h1 := feed_eq_single cfg hconc hfix hfix2 ls .none st hgl trivial hs hcl hdd hp cs c0 [] (by simpa [Tail.enc] using hx) hpend
  have h0 : ∀ c ∈ encode ls, c ≠ 0 := by
    have := stream_no_nul ls .none hgl trivial
    simpa [Tail.enc] using this
  have h2 : handleRead cfg st (encode ls) = runLines cfg st ls := by
    rw [handleRead_eq_loop cfg st _ hcl hdd h0 hp, st_rbuf_eta st hs.rbuf, hs.rbuf]
    exact loop_lines cfg hconc ls st _ hgl hs (by simp)
  rw [h1, hx, h2]
  exact runLines_delivered cfg hconc ls st

/-- A reply line naming a channel on which no request waits changes no request's fate. -/
theorem unknown_channel_never_applied (cfg : Cfg) (hconc : cfg.concurrency > 0) (st : St) (ds body : Bytes)
    (hun : ∀ r ∈ st.requests, (r.id : Int) ≠ chanOf cfg ds) :
    (lineStep cfg st ds body).delivered = st.delivered ∧ (popRequest cfg st.requests (chanOf cfg ds)) = (none, st.requests) := by
  refine ⟨lineStep_unknown_channel cfg hconc st ds body hun, ?_⟩
  rcases popRequest_conc cfg hconc st.requests (chanOf cfg ds) with ⟨h1, h2, _⟩ | ⟨r, _, hr, hid⟩
  · exact Prod.ext h1 h2
  · exact absurd hid (hun r hr)

/-- For arbitrary bytes (conforming or not): with repair 1, when the buffer holds no end of message and the text read so far
is only (part of) a channel number, the reader decides nothing — no request is looked up, the bytes wait in `rbuf`. -/
theorem pop_never_on_partial_id (cfg : Cfg) (hconc : cfg.concurrency > 0) (hfix : cfg.popOnlyWhenComplete = true) (st : St)
    (ds : Bytes) (hcur : st.cur = none) (hign : st.ignoreToEom = false) (hd : GoodDigits ds) :
    iter cfg st ds = .stop st ds :=
  iter_partial_digits cfg st ds hconc hfix hcur hign hd

/-- No helper output whatsoever — any bytes, any fragmentation — trips an assertion of the repaired reader. -/
theorem repaired_never_aborts (conc base n : Nat) (reads : List Bytes) : (run (repaired conc) base n reads).dead = false := by
  unfold run
  have h := submitAll_clean (repaired conc) ((List.range n).map (· + 1)) (initial base) rfl rfl
  exact feed_alive (repaired conc) rfl rfl reads _ h.1 (by simp [h.2])

/-! ## non-concurrent helpers: request order -/

/-- Without concurrency the session's request list is a FIFO: `helperDispatch` appends at the tail, and whatever a reply line
says, `popRequest` hands out the oldest dispatched request. -/
theorem fifo_when_not_concurrent (cfg : Cfg) (h0 : cfg.concurrency = 0) (st : St) (serial k : Nat) (r : Req) (rs : List Req) (i : Int) :
    (dispatch st serial k).requests = st.requests ++ [{ serial := serial, id := st.nextId + 1, retries := k, acc := [] }] ∧
    popRequest cfg (r :: rs) i = (some r, rs) ∧ popRequest cfg [] i = (none, []) := by
  simp [dispatch, popRequest, h0]

/-- Three requests on a non-concurrent helper, three replies in arbitrary fragmentation: request order (pinned and repaired). -/
theorem fifo_example :
    let reads : List Bytes := [[79, 75, 32, 97], [10, 69], [82, 82, 10, 79, 75, 32, 99, 10]]
    (run (pinned 0) 0 3 reads).delivered = [(1, [79, 75, 32, 97]), (2, [69, 82, 82]), (3, [79, 75, 32, 99])] ∧
    (run (repaired 0) 0 3 reads).delivered = [(1, [79, 75, 32, 97]), (2, [69, 82, 82]), (3, [79, 75, 32, 99])] := by
  decide +kernel

/-! ## the hypotheses are satisfiable, the recognisers are not vacuous -/

example : GoodDigits [49, 50] := ⟨by simp, by decide⟩
example : GoodBody [79, 75, 32, 120] := ⟨by decide, by decide⟩
example : GoodLines [([49, 50], [79, 75]), ([55], [])] := by
  intro p hp
  simp only [List.mem_cons, List.mem_nil_iff, or_false] at hp
  rcases hp with rfl | rfl
  · exact ⟨⟨by simp, by decide⟩, ⟨by decide, by decide⟩⟩
  · exact ⟨⟨by simp, by decide⟩, ⟨by simp, by simp⟩⟩
example : encode [([49, 50], [79, 75]), ([55], [])] = [49, 50, 32, 79, 75, 10, 55, 32, 10] := by decide
/-- a session between messages with waiting requests: the state right after submitting 12 requests -/
example : LineStart (submitAll (repaired 60) (initial 0) ((List.range 12).map (· + 1))) ∧
    (submitAll (repaired 60) (initial 0) ((List.range 12).map (· + 1))).pending = 12 := by
  refine ⟨⟨by decide +kernel, by decide +kernel, by decide +kernel⟩, by decide +kernel⟩
/-- the conclusion of `reply_to_own_channel_partial` is not vacuous: on the witness the callback list is non-empty -/
example : (feed (repaired 60) (submitAll (repaired 60) (initial 0) ((List.range 12).map (· + 1))) [[49], [50, 32, 79, 75, 10]]).delivered
    = [(12, [79, 75])] := by decide +kernel
/-- `GoodBody` rejects a body starting with a space, `GoodDigits` rejects a sign -/
example : ¬ GoodBody [32, 79] := fun h => by have := h.2 32 rfl; revert this; decide
example : ¬ GoodDigits [45, 49] := fun h => by have := h.2 45 (by simp); revert this; decide

end SquidModel.C47
