/-
C47 — Helper replies reach the request that asked.
-/
import SquidModel.Helper.Read

namespace SquidModel.C47
open SquidModel.Helper

/-- the pinned tree -/
def pinned (conc : Nat) : Cfg := { concurrency := conc, popOnlyWhenComplete := false, dropUnterminated := false, nulCloses := false }
/-- the tree with notes/fixes/C47-*.diff applied -/
def repaired (conc : Nat) : Cfg := { concurrency := conc, popOnlyWhenComplete := true, dropUnterminated := true, nulCloses := true }

/-- Pinned behaviour violates the property: channels 1..12 are waiting, the helper answers channel 12 with `12 OK\n`
and the bytes arrive as `1` | `2 OK\n`.  The reply is applied to the request on channel 1 (as the text `12 OK`);
the request on channel 12 never gets it. -/
theorem split_channel_id_counterexample :
    let st := run (pinned 60) 0 12 [[49], [50, 32, 79, 75, 10]]
    deliveredTo st 1 = some [49, 50, 32, 79, 75] ∧ deliveredTo st 12 = none := by
  decide +kernel

/-- With repair 1 the same bytes reach channel 12 and only channel 12. -/
theorem split_channel_id_repaired_witness :
    let st := run (repaired 60) 0 12 [[49], [50, 32, 79, 75, 10]]
    deliveredTo st 12 = some [79, 75] ∧ deliveredTo st 1 = none := by
  decide +kernel

/-- Pinned behaviour: a complete line that does not start with a terminated channel id (`OK\n` from a helper that
ignores the concurrency protocol) trips `assert(skip == 0 && eom == nullptr)`. -/
theorem unterminated_id_assert_counterexample :
    (run (pinned 60) 0 1 [[79, 75, 10]]).dead = true := by
  decide +kernel

/-- Pinned behaviour: a NUL octet right after a reply trips `assert(msg - rbuf == roffset)`. -/
theorem nul_assert_counterexample :
    (run (pinned 60) 0 1 [[49, 32, 79, 75, 10, 0]]).dead = true := by
  decide +kernel

/-- Pinned (and repaired) behaviour: the channel id is read with `strtol` and stored in an `int`;
`4294967297 OK\n` (2^32 + 1) is applied to the request waiting on channel 1. -/
theorem channel_id_truncation_counterexample :
    deliveredTo (run (pinned 60) 0 1 [[52, 50, 57, 52, 57, 54, 55, 50, 57, 55, 32, 79, 75, 10]]) 1 = some [79, 75] := by
  decide +kernel

end SquidModel.C47
