/-
C47 — Helper replies reach the request that asked.

Full statement (from the property text): with concurrent helper channels, each helper reply is applied only to the request whose
channel ID it carries, however the reply bytes are split across reads and in whatever order replies arrive; with non-concurrent
helpers, replies are applied in request order; a reply for an unknown channel is never applied to any request.

The model (SquidModel/Helper/Read.lean) follows `helperHandleRead` & co. of src/helper.cc.  `tree conc` is the model of the tree as
it is: its four behaviour flags are dumped from the staged code (SquidModel/Gen/HelperRead.lean); since the fix commits ad6fd97
(reply dispatch waits for the complete channel-ID), 42be5de (malformed replies are dropped instead of asserting) and e4eb057
(channel-ID not truncated to int) they are all `true`.  The headline theorems below are stated for `tree conc`; each uses the dumped
flags by `rfl`, so a regression of the code that flips a flag breaks the proof (and the correspondence).

Headline (tree as it is; protocol-conforming helper output `<digits> SP <body> LF` with any channel numbers — waiting, unknown,
duplicate — in any order, any bodies without NUL/CR/LF not starting with a blank; **every fragmentation into reads, unbounded**):
* `reply_to_own_channel` — every callback goes to a request that was waiting on exactly the channel named by the line whose body
  it receives;
* `any_fragmentation_same_result`, `two_reads_or_one` — splitting the output into reads anywhere changes nothing at all;
* `unknown_channel_never_applied`; `fifo_when_not_concurrent`;
* `never_aborts` — no bytes whatsoever, in any fragmentation, trip an assertion of the reader.
Hypotheses that remain (why the tie to the binary is still needed, and what "partial" means in the manifest): conforming output; the
helper is not caught writing while nothing is pending (then `helperHandleRead` kills the helper); one helper process; no timeouts.
For arbitrary bytes `pop_never_on_partial_id` shows that no request is looked up with an incomplete channel id.

Pre-fix behaviour (`preFix`, all flags `false`) is kept as labelled counterexamples `pre_fix_*`: they document the four defects the
check found in the pinned tree and are regression witnesses (corpus/C47).
-/
import SquidModel.Helper.Lemmas
import SquidModel.Gen.HelperRead

namespace SquidModel.C47
open SquidModel.Helper

/-- the reader as the staged tree has it (flags dumped by translate/helper_read.py) -/
def tree (conc : Nat) : Cfg :=
  { concurrency := conc, popOnlyWhenComplete := Gen.HelperRead.popOnlyWhenComplete, dropUnterminated := Gen.HelperRead.dropUnterminated,
    nulCloses := Gen.HelperRead.nulCloses, wideChannelId := Gen.HelperRead.wideChannelId }

/-- the reader before ad6fd97 / 42be5de / e4eb057 -/
def preFix (conc : Nat) : Cfg :=
  { concurrency := conc, popOnlyWhenComplete := false, dropUnterminated := false, nulCloses := false, wideChannelId := false }

/-! ## the tree as it is -/

/-- **Replies reach the request that asked.**  Concurrent helper, session between two messages with a request waiting.  The helper
writes the complete conforming lines `ls` (any channel numbers: waiting, unknown, duplicate, in any order), delivered in ANY
fragmentation `c0, cs[0], cs[1], ...`.  Every callback made is the callback of a request `r` that, when line `p` was reached, was
waiting on exactly the channel `p` names, and it receives exactly `p`'s body (appended to what `r` had accumulated: nothing, for a
request between messages). -/
theorem reply_to_own_channel (conc : Nat) (hconc : conc > 0) (ls : List (Bytes × Bytes)) (st : St)
    (hgl : GoodLines ls) (hs : LineStart st) (hcl : st.closed = false) (hdd : st.dead = false)
    (hp : st.pending ≠ 0) (cs : List Bytes) (c0 : Bytes) (hx : c0 ++ cs.flatten = encode ls)
    (hpend : ∀ k, k < cs.length → (handleRead (tree conc) st (c0 ++ (cs.take k).flatten)).pending ≠ 0) :
    ∃ extra, (feed (tree conc) st (c0 :: cs)).delivered = st.delivered ++ extra ∧
      ∀ d ∈ extra, ∃ pre p post, ls = pre ++ p :: post ∧ ∃ r ∈ (runLines (tree conc) st pre).requests,
        (r.id : Int) = chanOf (tree conc) p.1 ∧ d = (r.serial, r.acc ++ p.2) :=
  feed_delivered (tree conc) hconc rfl rfl ls st hgl hs hcl hdd hp cs c0 hx hpend

/-- **Any fragmentation.**  The reads `c0, cs[0], cs[1], ...` whose concatenation is (a prefix of) conforming output — complete
lines `ls` and an unfinished line `tl` — leave the session in exactly the state the single read of all the bytes leaves it in:
the same requests received the same replies, the same requests still wait, the same bytes are kept. -/
theorem any_fragmentation_same_result (conc : Nat) (hconc : conc > 0) (ls : List (Bytes × Bytes)) (tl : Tail) (st : St)
    (hgl : GoodLines ls) (htl : tl.Good) (hs : LineStart st) (hcl : st.closed = false) (hdd : st.dead = false)
    (hp : st.pending ≠ 0) (cs : List Bytes) (c0 x : Bytes) (hx : (c0 ++ cs.flatten) ++ x = encode ls ++ tl.enc)
    (hpend : ∀ k, k < cs.length → (handleRead (tree conc) st (c0 ++ (cs.take k).flatten)).pending ≠ 0) :
    feed (tree conc) st (c0 :: cs) = handleRead (tree conc) st (c0 ++ cs.flatten) :=
  feed_eq_single (tree conc) hconc rfl rfl ls tl st hgl htl hs hcl hdd hp cs c0 x hx hpend

/-- **Two reads or one.**  Wherever the bytes `a ++ b` of conforming output are cut — inside a channel number, right after it,
inside a body, before or after a terminator — the two reads end in the state of the single read. -/
theorem two_reads_or_one (conc : Nat) (hconc : conc > 0) (ls : List (Bytes × Bytes)) (tl : Tail) (st : St) (a b : Bytes)
    (hgl : GoodLines ls) (htl : tl.Good) (hs : LineStart st) (hcl : st.closed = false) (hdd : st.dead = false)
    (hp : st.pending ≠ 0) (hab : a ++ b = encode ls ++ tl.enc) (hp1 : (handleRead (tree conc) st a).pending ≠ 0) :
    handleRead (tree conc) (handleRead (tree conc) st a) b = handleRead (tree conc) st (a ++ b) :=
  handleRead_merge (tree conc) hconc rfl rfl ls tl st a b hgl htl hs hcl hdd hp hab hp1

/-- A reply line naming a channel on which no request waits changes no request's fate and removes no request. -/
theorem unknown_channel_never_applied (cfg : Cfg) (hconc : cfg.concurrency > 0) (st : St) (ds body : Bytes)
    (hun : ∀ r ∈ st.requests, (r.id : Int) ≠ chanOf cfg ds) :
    (lineStep cfg st ds body).delivered = st.delivered ∧ (popRequest cfg st.requests (chanOf cfg ds)) = (none, st.requests) := by
  refine ⟨lineStep_unknown_channel cfg hconc st ds body hun, ?_⟩
  rcases popRequest_conc cfg hconc st.requests (chanOf cfg ds) with ⟨h1, h2, _⟩ | ⟨r, _, hr, hid⟩
  · exact Prod.ext h1 h2
  · exact absurd hid (hun r hr)

/-- For arbitrary bytes (conforming or not): when the buffer holds no end of message and the text read so far is only (part of)
a channel number, the reader decides nothing — no request is looked up, the bytes wait in `rbuf`. -/
theorem pop_never_on_partial_id (conc : Nat) (hconc : conc > 0) (st : St)
    (ds : Bytes) (hcur : st.cur = none) (hign : st.ignoreToEom = false) (hd : GoodDigits ds) :
    iter (tree conc) st ds = .stop st ds :=
  iter_partial_digits (tree conc) st ds hconc rfl hcur hign hd

/-- No helper output whatsoever — any bytes, any fragmentation, any number of waiting requests — trips an assertion of the reader. -/
theorem never_aborts (conc base n : Nat) (reads : List Bytes) : (run (tree conc) base n reads).dead = false := by
  unfold run
  have h := submitAll_clean (tree conc) ((List.range n).map (· + 1)) (initial base) rfl rfl
  exact feed_alive (tree conc) rfl rfl reads _ h.1 (by simp [h.2])

/-- Without concurrency the session's request list is a FIFO: `helperDispatch` appends at the tail, and whatever a reply line
says, `popRequest` hands out the oldest dispatched request. -/
theorem fifo_when_not_concurrent (cfg : Cfg) (h0 : cfg.concurrency = 0) (st : St) (serial k : Nat) (r : Req) (rs : List Req) (i : Int) :
    (dispatch st serial k).requests = st.requests ++ [{ serial := serial, id := st.nextId + 1, retries := k, acc := [] }] ∧
    popRequest cfg (r :: rs) i = (some r, rs) ∧ popRequest cfg [] i = (none, []) := by
  simp [dispatch, popRequest, h0]

/-- Three requests on a non-concurrent helper, three replies in arbitrary fragmentation: request order. -/
theorem fifo_example :
    (run (tree 0) 0 3 [[79, 75, 32, 97], [10, 69], [82, 82, 10, 79, 75, 32, 99, 10]]).delivered
      = [(1, [79, 75, 32, 97]), (2, [69, 82, 82]), (3, [79, 75, 32, 99])] := by
  decide +kernel

/-- Regression witnesses on the tree as it is: `12 OK\n` arriving as `1` | `2 OK\n` with channels 1..12 waiting reaches channel 12
and only channel 12; `OK\n`, a NUL octet and `4294967297 OK\n` neither abort nor reach anybody. -/
theorem witnesses_pass :
    (let st := run (tree 60) 0 12 [[49], [50, 32, 79, 75, 10]]
     deliveredTo st 12 = some [79, 75] ∧ deliveredTo st 1 = none) ∧
    deliveredTo (run (tree 60) 9 3 [[49], [50, 32, 79, 75, 10]]) 3 = some [79, 75] ∧
    (run (tree 60) 0 1 [[79, 75, 10]]).dead = false ∧
    (run (tree 60) 0 1 [[49, 32, 79, 75, 10, 0]]).dead = false ∧
    deliveredTo (run (tree 60) 0 1 [[52, 50, 57, 52, 57, 54, 55, 50, 57, 55, 32, 79, 75, 10]]) 1 = none := by
  decide +kernel

/-! ## pre-fix behaviour (before ad6fd97 / 42be5de / e4eb057): the defects this check found, kept as labelled counterexamples -/

/-- PRE-FIX.  Channels 1..12 wait, the helper answers channel 12 with `12 OK\n` and the bytes arrive as `1` | `2 OK\n`: the reply
is applied to the request on channel 1 (as the text `12 OK`); the request on channel 12 never gets it. -/
theorem pre_fix_split_channel_id_counterexample :
    let st := run (preFix 60) 0 12 [[49], [50, 32, 79, 75, 10]]
    deliveredTo st 1 = some [49, 50, 32, 79, 75] ∧ deliveredTo st 12 = none := by
  decide +kernel

/-- PRE-FIX.  The same bytes when only channels 10..12 wait: the reply is dropped although one read delivers it. -/
theorem pre_fix_split_channel_id_drop_counterexample :
    deliveredTo (run (preFix 60) 9 3 [[49], [50, 32, 79, 75, 10]]) 3 = none ∧
    deliveredTo (run (preFix 60) 9 3 [[49, 50, 32, 79, 75, 10]]) 3 = some [79, 75] := by
  decide +kernel

/-- PRE-FIX.  `OK\n` from a helper that ignores the concurrency protocol trips `assert(skip == 0 && eom == nullptr)`. -/
theorem pre_fix_unterminated_id_assert_counterexample : (run (preFix 60) 0 1 [[79, 75, 10]]).dead = true := by
  decide +kernel

/-- PRE-FIX.  A NUL octet right after a reply trips `assert(msg - rbuf == roffset)`. -/
theorem pre_fix_nul_assert_counterexample : (run (preFix 60) 0 1 [[49, 32, 79, 75, 10, 0]]).dead = true := by
  decide +kernel

/-- PRE-FIX.  `4294967297 OK\n` (2^32 + 1) is applied to the request waiting on channel 1 (`strtol` stored in an `int`). -/
theorem pre_fix_channel_id_truncation_counterexample :
    deliveredTo (run (preFix 60) 0 1 [[52, 50, 57, 52, 57, 54, 55, 50, 57, 55, 32, 79, 75, 10]]) 1 = some [79, 75] := by
  decide +kernel

/-! ## the hypotheses are satisfiable, the recognisers are not vacuous -/

example : GoodDigits [49, 50] := ⟨by simp, by decide⟩
example : GoodBody [79, 75, 32, 120] := ⟨by decide, by decide⟩
example : GoodLines [([49, 50], [79, 75]), ([55], [])] := by
  intro p hp
  simp only [List.mem_cons, List.mem_nil_iff, or_false] at hp
  rcases hp with rfl | rfl
  · exact ⟨⟨by simp, by decide⟩, ⟨by decide, by decide⟩⟩
  · exact ⟨⟨by simp, by decide⟩, ⟨by simp, by simp⟩⟩
example : encode [([49, 50], [79, 75]), ([55], [])] = [49, 50, 32, 79, 75, 10, 55, 32, 10] := by decide
/-- a session between messages with waiting requests: the state right after submitting 12 requests -/
example : LineStart (submitAll (tree 60) (initial 0) ((List.range 12).map (· + 1))) ∧
    (submitAll (tree 60) (initial 0) ((List.range 12).map (· + 1))).pending = 12 := by
  refine ⟨⟨by decide +kernel, by decide +kernel, by decide +kernel⟩, by decide +kernel⟩
/-- the conclusion of `reply_to_own_channel` is not vacuous: on the witness the callback list is non-empty -/
example : (feed (tree 60) (submitAll (tree 60) (initial 0) ((List.range 12).map (· + 1))) [[49], [50, 32, 79, 75, 10]]).delivered
    = [(12, [79, 75])] := by decide +kernel
/-- `GoodBody` rejects a body starting with a space, `GoodDigits` rejects a sign -/
example : ¬ GoodBody [32, 79] := fun h => by have := h.2 32 rfl; revert this; decide
example : ¬ GoodDigits [45, 49] := fun h => by have := h.2 45 (by simp); revert this; decide

end SquidModel.C47
