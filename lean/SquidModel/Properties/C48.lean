/-
C48  Byte-string values behave as independent values.

Full statement: any sequence of operations on any set of SBufs (copies, appends, assignments from each other and
from their own substrings, consume, chop, trim, case changes, searches, comparisons) gives the same observable
contents and results as the same operations on independent std::string values; operations beyond size limits
throw instead of corrupting memory.

What is proved (`run_refines`): for EVERY history of the modelled operations over any number of objects, from the
initial state, under any allocation policy satisfying `AllocOk`, provided every operation is outside `Safe`'s
excluded regions, the heap model of SBuf.cc/MemBlob.cc never reaches undefined behaviour, keeps its invariant
(`Inv`: every object's area inside the used part of its blob, used part inside the capacity, lock counts = number of
referrers), and every object's bytes and every call's result (including `thrown`) equal those of `Spec.run` on
independent byte lists.  `_partial`: `Safe` excludes (1) four argument regions in which the real code violates the
property -- each proved below as a counterexample of the model, which the differential run confirms on the real
code --, (2) the printf family (appendf/Printf: no std::string counterpart; modelled, differentially tested, and the
source of the third counterexample), (3) foreign areas longer than maxSize handed to assign() (it throws after
clearing the object) and arguments that do not fit size_type.
-/
import SquidModel.SBuf.Counter

namespace SquidModel.C48
open SquidModel.SBuf

/-- the initial state (k default-constructed SBufs sharing the prototype store) satisfies the invariant and stands
    for k empty values -/
theorem init_refines (c : Cfg) (hc : AllocOk c) (k : Nat) :
    Inv (Heap.init c k) ∧ abs (Heap.init c k) = List.replicate k [] :=
  ⟨init_inv hc k, init_abs c k⟩

/-- one operation: the heap model does what independent values do (state, result, throw), keeps the invariant and
    never leaves the used part / capacity of a blob -/
theorem step_refines_partial (c : Cfg) (hc : AllocOk c) (h : Heap) (hI : Inv h) (op : Op)
    (hwf : op.wf h.views.length = true) (hs : Safe (abs h) op) :
    ∃ h' r, (step c h op = .ok (h', r) ∨ (step c h op = .thrown h' ∧ r = .thrown)) ∧
      Inv h' ∧ h'.views.length = h.views.length ∧ abs h' = (Spec.step (abs h) op).1 ∧
      sameRes op r (Spec.step (abs h) op).2 :=
  step_sim hc hI op hwf hs

/-- histories of any length over any number of objects, from the initial state -/
theorem run_refines_partial (c : Cfg) (hc : AllocOk c) (k : Nat) (ops : List Op)
    (hwf : ∀ op ∈ ops, op.wf k = true) (hs : SafeRun (List.replicate k []) ops) :
    ∃ hf rs, run c (Heap.init c k) ops = some (hf, rs) ∧ Inv hf ∧
      abs hf = (Spec.run (List.replicate k []) ops).1 ∧
      sameResults ops rs (Spec.run (List.replicate k []) ops).2 := by
  have h := run_sim hc ops (Heap.init c k) (init_inv hc k)
    (by rw [init_views]; exact hwf) (by rw [init_abs]; exact hs)
  rw [init_abs] at h
  obtain ⟨hf, rs, h1, h2, _, h3, h4⟩ := h
  exact ⟨hf, rs, h1, h2, h3, h4⟩

/-- under the invariant every object can be read, and what is read is its independent value -/
theorem contents_defined (h : Heap) (hI : Inv h) (i : Nat) (hi : i < h.views.length) :
    h.contents i = some (Spec.get (abs h) i) := by
  rw [hI.contents i hi, get_abs h i hi]

/-- both allocation policies of the differential run satisfy the assumption on memAllocBuf -/
theorem policies_ok : AllocOk exactAlloc ∧ AllocOk classAlloc := ⟨exactAlloc_ok, classAlloc_ok⟩

/-! ### the excluded regions are real: counterexamples (conditional on the code shape the translator found) -/

/-- chop(2, 2^32-2) on "abcdefgh": `pos+n` wraps to 0, n is not capped, the length field becomes 2^32-2 and the
    object no longer lies in its 8-byte blob; independent values give "cdefgh" -/
theorem chop_wrap_counterexample : Gen.SBufConsts.chopSumWraps = true →
    lengthAfter exactAlloc 1 [.assignBytes 0 [97,98,99,100,101,102,103,104], .chop 0 2 4294967294] 0 = some 4294967294 ∧
    observe exactAlloc 1 [.assignBytes 0 [97,98,99,100,101,102,103,104], .chop 0 2 4294967294] = some [none] ∧
    (Spec.run [[]] [.assignBytes 0 [97,98,99,100,101,102,103,104], .chop 0 2 4294967294]).1 = [[99,100,101,102,103,104]] :=
  fun hf => by first | exact absurd hf (by decide) | decide +kernel

/-- a = "abcdef"; b = a.substr(0,3); b.rawAppendFinish(b.rawAppendStart(0), 0); b.append("XYZ"):
    the blob's used size drops to 3 under `a`, then the append overwrites a's tail: a reads "abcXYZ" -/
theorem rawAppend_zero_counterexample : Gen.SBufConsts.finishAssignsSize = true →
    observe exactAlloc 2 [.assignBytes 0 [97,98,99,100,101,102], .substr 1 0 0 3, .rawAppend 1 0 [], .appendBytes 1 [88,89,90]]
      = some [some [97,98,99,88,89,90], some [97,98,99,88,89,90]] ∧
    (Spec.run [[], []] [.assignBytes 0 [97,98,99,100,101,102], .substr 1 0 0 3, .rawAppend 1 0 [], .appendBytes 1 [88,89,90]]).1
      = [[97,98,99,100,101,102], [97,98,99,88,89,90]] :=
  fun hf => by first | exact absurd hf (by decide) | decide +kernel

/-- a = "abcdef"; b = a.substr(0,3); b.appendf(""): vsnprintf's terminator lands on a[3] -/
theorem empty_format_counterexample : Gen.SBufConsts.vappendfExtra = 0 →
    observe roomyAlloc 2 [.assignBytes 0 [97,98,99,100,101,102], .substr 1 0 0 3, .appendf 1 0 []]
      = some [some [97,98,99,0,101,102], some [97,98,99]] ∧
    (Spec.run [[], []] [.assignBytes 0 [97,98,99,100,101,102], .substr 1 0 0 3, .appendf 1 0 []]).1
      = [[97,98,99,100,101,102], [97,98,99]] :=
  fun hf => by first | exact absurd hf (by decide) | decide +kernel

/-- rawAppendStart(2^32-16) on a 32-byte string does not throw: it answers an area with 0 bytes of room -/
theorem rawSpace_no_throw_counterexample : Gen.SBufConsts.rawSpaceDiffWraps = true →
    resultsOf exactAlloc 1 [.assignBytes 0 (List.replicate 32 97), .rawAppend 0 4294967280 []] = some [.unit, .short 0] ∧
    (Spec.run [[]] [.assignBytes 0 (List.replicate 32 97), .rawAppend 0 4294967280 []]).2 = [.unit, .thrown] :=
  fun hf => by first | exact absurd hf (by decide) | decide +kernel

/-! ### non-vacuity -/

/-- a history with aliasing, copy-on-write, an in-place append, a throw and queries satisfies the hypotheses -/
example : SafeRun (List.replicate 2 [])
    [.assignBytes 0 [72,105], .assign 1 0, .appendS 1 1, .chop 0 1 npos, .setAt 1 0 104, .reserveSpace 0 npos,
     .rawAppend 1 4 [33], .consume 0 1 2, .compare 0 1 false npos] :=
  ⟨by show ([72,105] : Bytes).length ≤ maxSize; decide, trivial, trivial, ⟨by decide, by decide, fun _ => Or.inl rfl⟩, trivial,
   by show npos < W; decide,
   ⟨by decide, by decide, fun _ => by decide, fun _ => by decide⟩, by show 2 < W; decide, trivial, trivial⟩

/-- ... and the model really runs it to the values independent strings give -/
example : observe classAlloc 2
    [.assignBytes 0 [72,105], .assign 1 0, .appendS 1 1, .chop 0 1 npos, .setAt 1 0 104, .reserveSpace 0 npos,
     .rawAppend 1 4 [33], .consume 0 1 2, .compare 0 1 false npos]
    = some [some [104,105], some [72,105,33]] := by decide +kernel

/-- the excluded chop region is not empty, and ordinary requests are outside it -/
example : ¬ Safe [[97,98,99]] (.chop 0 2 4294967294) ∨ Gen.SBufConsts.chopSumWraps = false := by
  first
  | exact Or.inr (by decide)
  | exact Or.inl (fun h => by
      have := h.2.2 (by decide)
      rcases this with h1 | h1
      · exact absurd h1 (by decide)
      · exact absurd h1 (by decide))

example : Safe [[97,98,99]] (.chop 0 1 1) := ⟨by decide, by decide, fun _ => Or.inr (by decide)⟩

end SquidModel.C48
