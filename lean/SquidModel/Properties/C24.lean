/-
C24 — Chunked decoding is exact and rejects malformed framing.

Property theorems only. Model: `SquidModel.Chunked.{Tok,Decoder,Feed}` (TeChunkedParser, the tokenizer functions it
uses, and the caller's feeding loop); grammar: `SquidModel.Chunked.Grammar`; lemmas: `SquidModel.Chunked.*`.
`feedAll relaxed capOf segs` is the run of the real calling pattern: the segments arrive one by one, every
`parse()` call gets a payload buffer with `capOf i` octets of space (`i` = number of calls so far), and space is
offered again while the parser asks for it. All statements hold for every input, segmentation and capacity
sequence — no bound on sizes.

Headline: `segmentation_independence` — for EVERY input (well-formed or not) every segmentation with every capacity
sequence ends with the verdict and the output of the unsegmented run. It holds for the tree as it is (since /repo
db563bd `parseChunkExtensions` no longer moves the parse checkpoint between extensions; the translator reads that
from the source as `extCommit = false`). The pre-fix variant violated it: `prefix_variant_counterexample`.
-/
import SquidModel.Chunked.Reject
import SquidModel.Chunked.PreFix

namespace SquidModel.C24
open SquidModel.Chunked SquidModel.Chunked.Grammar

/-- the run on the unsegmented input, with payload space that never runs out of the caller's patience -/
abbrev oneShot (relaxed : Bool) (capOf : Nat → Nat) (input : Bytes) : Run := feedAll relaxed capOf [input]

theorem oneShot_obs (relaxed : Bool) (capOf : Nat → Nat) (hpos : ∀ i, 0 < capOf i) (input : Bytes) :
    (oneShot relaxed capOf input).obs = obsOf [] (parseU relaxed St.init input) := by
  have := feed_obs relaxed capOf hpos Run.init rfl input
  simpa [oneShot, feedAll, Run.init] using this

/-- the tree as it is: no parse checkpoint between chunk extensions (read from the source by the translator) -/
theorem no_commit_between_extensions : Gen.ChunkedSets.extCommit = false := by decide

/-- the incremental run agrees with the unsegmented run (verdict, output, and — while more data is wanted — parser
state and unparsed rest; after "done" the unsegmented run holds the same rest plus what was never fed) -/
theorem agree_with_unsegmented (relaxed : Bool) (capOf : Nat → Nat) (hpos : ∀ i, 0 < capOf i) (segs : List Bytes) :
    Agree (feedAll relaxed capOf segs) (oneShot relaxed capOf segs.flatten) := by
  rcases feedAll_oneShot relaxed capOf hpos segs with hA | hQ
  · exact hA
  · have := hQ.1; rw [no_commit_between_extensions] at this; simp at this

/-- **Segmentation and capacity independence.** For *every* input, well-formed or not, every segmentation with every
sequence of positive payload capacities ends with the same verdict and the same decoded octets as the run on the
unsegmented input (with any other positive capacities). -/
theorem segmentation_independence (relaxed : Bool) (capOf capOf' : Nat → Nat) (hpos : ∀ i, 0 < capOf i)
    (hpos' : ∀ i, 0 < capOf' i) (segs : List Bytes) :
    (feedAll relaxed capOf segs).verdict = (oneShot relaxed capOf' segs.flatten).verdict ∧
    (feedAll relaxed capOf segs).out = (oneShot relaxed capOf' segs.flatten).out := by
  have hcaps : (oneShot relaxed capOf segs.flatten).obs = (oneShot relaxed capOf' segs.flatten).obs := by
    rw [oneShot_obs relaxed capOf hpos, oneShot_obs relaxed capOf' hpos']
  have hv : (oneShot relaxed capOf segs.flatten).verdict = (oneShot relaxed capOf' segs.flatten).verdict := by
    simp only [Run.obs, Obs.mk.injEq] at hcaps; exact hcaps.2.2
  have ho : (oneShot relaxed capOf segs.flatten).out = (oneShot relaxed capOf' segs.flatten).out := by
    simp only [Run.obs, Obs.mk.injEq] at hcaps; exact hcaps.2.1
  rw [← hv, ← ho]
  have hA := agree_with_unsegmented relaxed capOf hpos segs
  unfold Agree at hA
  generalize feedAll relaxed capOf segs = R at hA ⊢
  cases hR : R.verdict with
  | more =>
    rw [hR] at hA
    simp only [Run.obs, Obs.mk.injEq] at hA
    exact ⟨by rw [← hR]; exact hA.2.2, hA.2.1⟩
  | done => rw [hR] at hA; exact ⟨hA.1.symm, hA.2.1.symm⟩
  | tooLarge => rw [hR] at hA; exact ⟨hA.1.symm, hA.2.symm⟩
  | reject e => rw [hR] at hA; exact ⟨hA.1.symm, hA.2.symm⟩

/-- **Exactness.** For any body, any encoding of it in the grammar (any chunk sizes with any hex case and leading
zeros, any BWS the grammar allows, token and quoted-string extensions, trailers), any segmentation of the encoding
followed by arbitrary further octets, and any positive payload capacities: the decoder finishes, has output exactly
the body, and has consumed exactly the encoding (what it still holds is a prefix of the octets after the encoding). -/
theorem decode_exact (relaxed : Bool) (capOf : Nat → Nat) (hpos : ∀ i, 0 < capOf i)
    (body enc extra : Bytes) (henc : Encodes relaxed body enc) (segs : List Bytes) (hsegs : segs.flatten = enc ++ extra) :
    (feedAll relaxed capOf segs).verdict = .done ∧
    (feedAll relaxed capOf segs).out = body ∧
    ∃ m, extra = (feedAll relaxed capOf segs).inBuf ++ m := by
  have hO := oneShot_obs relaxed capOf hpos (enc ++ extra)
  rw [parseU_valid relaxed henc extra] at hO
  obtain ⟨o1, o2, o3, o4⟩ := obs_ret hO
  simp only [if_true, List.nil_append] at o3 o4
  rcases feedAll_oneShot relaxed capOf hpos segs with hA | hQ
  · rw [hsegs] at hA
    unfold Agree at hA
    generalize feedAll relaxed capOf segs = R at hA ⊢
    cases hR : R.verdict with
    | more =>
      rw [hR] at hA
      have : R.verdict = (oneShot relaxed capOf (enc ++ extra)).verdict := by
        simp only [Run.obs, Obs.mk.injEq] at hA; exact hA.2.2
      rw [hR, o4] at this; simp at this
    | done =>
      rw [hR] at hA
      obtain ⟨_, a2, _, m, a4⟩ := hA
      exact ⟨rfl, by rw [← a2]; exact o3, m, by rw [← a4]; exact o2.symm⟩
    | tooLarge => rw [hR] at hA; rw [show (feedAll relaxed capOf [enc ++ extra]).verdict = _ from o4] at hA; simp at hA
    | reject e => rw [hR] at hA; rw [show (feedAll relaxed capOf [enc ++ extra]).verdict = _ from o4] at hA; simp at hA
  · have hq := hQ.2; rw [hsegs, show (feedAll relaxed capOf [enc ++ extra]).verdict = _ from o4] at hq; simp at hq

/-- exactness without pipelined octets: everything is consumed -/
theorem decode_exact_all_consumed (relaxed : Bool) (capOf : Nat → Nat) (hpos : ∀ i, 0 < capOf i)
    (body enc : Bytes) (henc : Encodes relaxed body enc) (segs : List Bytes) (hsegs : segs.flatten = enc) :
    (feedAll relaxed capOf segs).verdict = .done ∧ (feedAll relaxed capOf segs).out = body ∧
    (feedAll relaxed capOf segs).inBuf = [] := by
  obtain ⟨h1, h2, m, h3⟩ := decode_exact relaxed capOf hpos body enc [] henc segs (by simpa using hsegs)
  refine ⟨h1, h2, ?_⟩
  have := (List.append_eq_nil_iff.mp h3.symm).1
  exact this

/-- **Truncation.** A proper prefix of a valid encoding, in any segmentation and with any capacities, only ever
makes the decoder ask for more data (never an error, never "done"), and what it has output is a prefix of the body. -/
theorem truncated_needs_more (relaxed : Bool) (capOf : Nat → Nat) (hpos : ∀ i, 0 < capOf i)
    (body enc p q : Bytes) (henc : Encodes relaxed body enc) (hpq : p ++ q = enc) (hq : q ≠ [])
    (segs : List Bytes) (hsegs : segs.flatten = p) :
    (feedAll relaxed capOf segs).verdict = .more ∧ ∃ rest, body = (feedAll relaxed capOf segs).out ++ rest := by
  have hfull := parseU_valid relaxed henc []
  rw [List.append_nil, ← hpq] at hfull
  have hx := parseU_ext relaxed St.init (by simp [St.init]) p q
  have hO := oneShot_obs relaxed capOf hpos p
  -- the one-shot run on the prefix
  have hone : (oneShot relaxed capOf p).verdict = .more ∧ ∃ rest, body = (oneShot relaxed capOf p).out ++ rest := by
    cases hX : parseU relaxed St.init p with
    | threw e o => rw [hX] at hx; simp only [CallSpec] at hx; rw [hx] at hfull; simp at hfull
    | ret d c' =>
      rw [hX] at hx hO
      obtain ⟨_, _, o3, o4⟩ := obs_ret hO
      cases d with
      | true =>
        simp only [CallSpec] at hx
        rw [hx] at hfull
        simp only [Outcome.ret.injEq, true_and] at hfull
        have : (c'.ext q).buf = [] := by rw [hfull]
        simp at this
        exact absurd this.2 hq
      | false =>
        simp only [CallSpec] at hx
        by_cases hd : c'.st.stage = .done
        · simp only [hd, if_true] at hx
          obtain ⟨c'', e1, _⟩ := hx
          rw [e1] at hfull; simp at hfull
        · simp only [hd, if_false] at hx
          simp only [Bool.false_eq_true, if_false, hd] at o4
          refine ⟨o4, ?_⟩
          rcases hx with heq | ⟨_, o, hbad⟩
          · rw [hfull] at heq
            cases hZ : parseU relaxed c'.st (c'.buf ++ q) with
            | threw e o => rw [hZ] at heq; simp [obsOf] at heq
            | ret d2 c2 =>
              rw [hZ] at heq
              simp only [obsOf, Obs.mk.injEq, List.nil_append] at heq
              exact ⟨c2.out, by rw [o3, List.nil_append]; exact heq.2.1⟩
          · rw [hbad] at hfull; simp at hfull
  rcases feedAll_oneShot relaxed capOf hpos segs with hA | hQ
  · rw [hsegs] at hA
    unfold Agree at hA
    generalize feedAll relaxed capOf segs = R at hA ⊢
    cases hR : R.verdict with
    | more =>
      rw [hR] at hA
      have : R.out = (oneShot relaxed capOf p).out := by
        simp only [Run.obs, Obs.mk.injEq] at hA; exact hA.2.1
      exact ⟨rfl, by rw [this]; exact hone.2⟩
    | done => rw [hR] at hA; rw [show (feedAll relaxed capOf [p]).verdict = _ from hone.1] at hA; simp at hA
    | tooLarge => rw [hR] at hA; rw [show (feedAll relaxed capOf [p]).verdict = _ from hone.1] at hA; simp at hA
    | reject e => rw [hR] at hA; rw [show (feedAll relaxed capOf [p]).verdict = _ from hone.1] at hA; simp at hA
  · have hq := hQ.2; rw [hsegs, show (feedAll relaxed capOf [p]).verdict = _ from hone.1] at hq; simp at hq

/-- A rejection of the unsegmented input is a rejection, with the same class, in every segmentation and with every
capacity sequence. -/
theorem reject_in_every_segmentation (relaxed : Bool) (capOf : Nat → Nat) (hpos : ∀ i, 0 < capOf i)
    (input : Bytes) (e : Rej) (o : Bytes) (hU : parseU relaxed St.init input = .threw e o)
    (segs : List Bytes) (hsegs : segs.flatten = input) :
    (feedAll relaxed capOf segs).verdict = .reject e := by
  have hO := oneShot_obs relaxed capOf hpos input
  rw [hU] at hO
  have := (segmentation_independence relaxed capOf capOf hpos hpos segs).1
  rw [hsegs, (obs_threw hO).2] at this
  exact this

/-- **0x prefixes are rejected**: after any number of complete chunks, a chunk-size starting with `0x` or `0X`
is rejected in every segmentation. -/
theorem reject_0x (relaxed : Bool) (capOf : Nat → Nat) (hpos : ∀ i, 0 < capOf i)
    (pre body rest : Bytes) (x : UInt8) (hpre : ChunkSeq relaxed pre body) (hx : x = 120 ∨ x = 88)
    (segs : List Bytes) (hsegs : segs.flatten = pre ++ 48 :: x :: rest) :
    (feedAll relaxed capOf segs).verdict = .reject .zeroX := by
  refine reject_in_every_segmentation relaxed capOf hpos _ .zeroX body ?_ segs hsegs
  rw [parseU_chunkseq relaxed hpre _ (by simp)]
  exact loop_bad_size relaxed (parseChunkSize_zeroX x hx rest) body _

/-- **Non-hex characters are rejected**: a chunk-size must start with a hex digit. -/
theorem reject_nonhex (relaxed : Bool) (capOf : Nat → Nat) (hpos : ∀ i, 0 < capOf i)
    (pre body rest : Bytes) (b : UInt8) (hpre : ChunkSeq relaxed pre body) (hb : isHex b = false)
    (segs : List Bytes) (hsegs : segs.flatten = pre ++ b :: rest) :
    (feedAll relaxed capOf segs).verdict = .reject .size := by
  refine reject_in_every_segmentation relaxed capOf hpos _ .size body ?_ segs hsegs
  rw [parseU_chunkseq relaxed hpre _ (by simp)]
  exact loop_bad_size relaxed (parseChunkSize_nonhex hb rest) body _

/-- **Sizes that do not fit in 63 bits are rejected**, whatever follows the digits (even nothing yet). -/
theorem reject_size_overflow (relaxed : Bool) (capOf : Nat → Nat) (hpos : ∀ i, 0 < capOf i)
    (pre body ds rest : Bytes) (hpre : ChunkSeq relaxed pre body) (hds : ∀ x ∈ ds, isHex x = true)
    (hbig : 2 ^ 63 ≤ hexValue ds 0) (segs : List Bytes) (hsegs : segs.flatten = pre ++ (ds ++ rest)) :
    (feedAll relaxed capOf segs).verdict = .reject .size := by
  refine reject_in_every_segmentation relaxed capOf hpos _ .size body ?_ segs hsegs
  have hne : ds ++ rest ≠ [] := by
    intro h
    have : ds = [] := (List.append_eq_nil_iff.mp h).1
    rw [this] at hbig; simp [hexValue] at hbig
  rw [parseU_chunkseq relaxed hpre _ hne]
  exact loop_bad_size relaxed (parseChunkSize_overflow hds hbig rest) body _

/-- accepted sizes fit in 63 bits (no signed overflow in `int64()`'s accumulator either: the model's accumulator is
a natural number and never exceeds INT64_MAX when a size is returned) -/
theorem accepted_size_fits (s rest : Bytes) (size : Nat) (h : parseChunkSize s = .ok size rest) : size < 2 ^ 63 := by
  have key : ∀ (t : Bytes) (any : Int) (acc : Nat), acc ≤ int64Max → 0 ≤ (int64Loop t any acc).1 → (int64Loop t any acc).2.1 ≤ int64Max := by
    intro t
    induction t with
    | nil => intro any acc h _; simpa [int64Loop] using h
    | cons b r ih =>
      intro any acc hacc hres
      simp only [int64Loop] at hres ⊢
      split
      · simpa using hacc
      · rename_i hb
        split
        · rename_i hov
          rw [if_neg hb, if_pos hov] at hres
          have := int64Loop_neg r (-1) acc (by omega)
          omega
        · rename_i hov
          rw [if_neg hb, if_neg hov] at hres
          exact ih 1 (acc * 16 + hexVal b) (by rw [int64Max_val]; rw [cutoff_val, cutlim_val] at hov; omega) hres
  match s with
  | [] => simp [parseChunkSize, int64, startsWith] at h
  | [b] => rw [parseChunkSize_one] at h; split at h <;> simp at h
  | b :: x :: r =>
    rw [parseChunkSize_two] at h
    by_cases hb : banned b x = true
    · simp [hb] at h
    · by_cases h0 : (int64Loop (b :: x :: r) 0 0).1 = 0
      · simp [hb, h0] at h
      · by_cases hneg : (int64Loop (b :: x :: r) 0 0).1 < 0
        · simp [hb, h0, hneg] at h
        · by_cases hne : (int64Loop (b :: x :: r) 0 0).2.2 = []
          · simp [hb, h0, hneg, hne] at h
          · simp only [hb, h0, hneg, hne, if_false, Bool.false_eq_true, SzRes.ok.injEq] at h
            have := key (b :: x :: r) 0 0 (by rw [int64Max_val]; omega) (by omega)
            rw [h.1, int64Max_val] at this
            omega

/-- **Missing CRLF after chunk data is rejected**: after any number of complete chunks, a chunk whose data is
followed by anything that cannot become CRLF is rejected, in every segmentation. -/
theorem reject_missing_crlf (relaxed : Bool) (capOf : Nat → Nat) (hpos : ∀ i, 0 < capOf i)
    (pre body ds h d bad : Bytes) (size : Nat) (hpre : ChunkSeq relaxed pre body) (hs : IsSize ds size) (hsz : 0 < size)
    (hlt : size < 2 ^ 63) (hh : IsHdrRest relaxed h) (hd : d.length = size) (hbad : NotCrlf bad)
    (segs : List Bytes) (hsegs : segs.flatten = pre ++ (ds ++ h ++ d ++ bad)) :
    (feedAll relaxed capOf segs).verdict = .reject .chunkCrlf := by
  refine reject_in_every_segmentation relaxed capOf hpos _ .chunkCrlf (body ++ d) ?_ segs hsegs
  have hne : ds ++ h ++ d ++ bad ≠ [] := by
    obtain ⟨hne, _⟩ := hs
    cases ds <;> simp_all
  rw [parseU_chunkseq relaxed hpre _ hne]
  have hlen : 1 ≤ (ds ++ h ++ d ++ bad).length := by
    cases hh' : ds ++ h ++ d ++ bad with
    | nil => exact absurd hh' hne
    | cons a t => simp
  obtain ⟨F, hF⟩ : ∃ F, (pre ++ (ds ++ h ++ d ++ bad)).length + 1 = F + 1 + 1 := ⟨(pre ++ (ds ++ h ++ d ++ bad)).length - 1, by simp at hlen ⊢; omega⟩
  rw [hF]
  exact loop_missing_crlf relaxed hs hsz hlt hh hd hbad body F

/-- **Malformed extensions are rejected**: after any number of complete chunks, a `;` that is not followed (after
optional BWS) by a chunk-ext-name is rejected in every segmentation. -/
theorem reject_bad_ext_name (relaxed : Bool) (capOf : Nat → Nat) (hpos : ∀ i, 0 < capOf i)
    (pre body ds w0 w2 rest : Bytes) (b : UInt8) (size : Nat) (hpre : ChunkSeq relaxed pre body) (hs : IsSize ds size)
    (hlt : size < 2 ^ 63) (h0 : IsWspRun w0) (h2 : IsBwsRun relaxed w2) (hb1 : isTchar b = false) (hb2 : isBws relaxed b = false)
    (segs : List Bytes) (hsegs : segs.flatten = pre ++ (ds ++ (w0 ++ 59 :: (w2 ++ b :: rest)))) :
    (feedAll relaxed capOf segs).verdict = .reject .extName := by
  refine reject_in_every_segmentation relaxed capOf hpos _ .extName body ?_ segs hsegs
  rw [parseU_chunkseq relaxed hpre _ (by simp)]
  obtain ⟨F, hF⟩ : ∃ F, (pre ++ (ds ++ (w0 ++ 59 :: (w2 ++ b :: rest)))).length + 1 = F + 1 + 1 :=
    ⟨(pre ++ (ds ++ (w0 ++ 59 :: (w2 ++ b :: rest)))).length - 1, by simp; omega⟩
  rw [hF]
  exact loop_bad_ext_name relaxed rest hs hlt h0 h2 hb1 hb2 body F

/-- Further malformed extensions (one instance per throw site, unsegmented header; by `reject_in_every_segmentation`
the same verdict in every segmentation). -/
example : (oneShot false (fun _ => 4096) [49, 59, 13, 10]).verdict = .reject .extName := by decide          -- `1;\r\n`
example : (oneShot false (fun _ => 4096) [49, 59, 97, 61, 13, 10]).verdict = .reject .token := by decide   -- `1;a=\r\n`
example : (oneShot false (fun _ => 4096) [49, 59, 97, 61, 34, 13, 10]).verdict = .reject .qdtext := by decide  -- `1;a="\r\n`
example : (oneShot false (fun _ => 4096) [49, 59, 97, 61, 34, 92, 127, 34]).verdict = .reject .qpair := by decide  -- `1;a="\<DEL>"`
example : (oneShot false (fun _ => 4096) [49, 59, 97, 32, 98, 13, 10]).verdict = .reject .extCrlf := by decide   -- `1;a b\r\n`
example : (oneShot true (fun _ => 4096) [49, 59, 97, 61, 120, 11, 13, 10]).verdict = .reject .extCrlf := by decide -- `1;a=x<VT>\r\n`

/-- `5;a=x \r\nhello\r\n0\r\n\r\n`: SP between a chunk-ext value and CRLF (regression witness of the fixed finding
C24-bws-before-crlf-split) -/
def witness : Bytes := [53, 59, 97, 61, 120, 32, 13, 10, 104, 101, 108, 108, 111, 13, 10, 48, 13, 10, 13, 10]

/-- the witness is now rejected whether or not a read ends between the value and the CR -/
theorem witness_rejected :
    (feedAll false (fun _ => 2 ^ 30) [witness]).verdict = .reject .extCrlf ∧
    (feedAll false (fun _ => 2 ^ 30) [witness.take 6, witness.drop 6]).verdict = .reject .extCrlf ∧
    (feedAll false (fun _ => 1) (witness.map fun b => [b])).verdict = .reject .extCrlf := by
  decide

/-- **Pre-fix variant only** (before /repo db563bd; `Chunked/PreFix.lean`): with the parse checkpoint moved after every
extension, the header line `;a=x \r\n` (what follows the chunk-size) was rejected when parsed in one go, but when the
buffer ended after the SP the call stopped at the commit point ` ` and the restart on ` \r\n` — which runs
`ParseStrictBws` first — accepted it. -/
theorem prefix_variant_counterexample :
    PreFix.metaSuffixPre false [59, 97, 61, 120, 32, 13, 10] = .bad .extCrlf ∧
    PreFix.metaSuffixPre false [59, 97, 61, 120, 32] = .need [32] ∧
    PreFix.metaSuffixPre false ([32] ++ [13, 10]) = .ok [] ∧
    -- the code as it is: the restart point stays after the chunk-size and the line is rejected again
    metaSuffix false [59, 97, 61, 120, 32] = .need [59, 97, 61, 120, 32] ∧
    metaSuffix false [59, 97, 61, 120, 32, 13, 10] = .bad .extCrlf := by
  decide

/-! ### the hypotheses are satisfiable, the recognisers are not vacuous -/

/-- `5\r\nhello\r\n0\r\n\r\n` is in the grammar (as an encoding of `hello`) -/
example : Encodes false [104, 101, 108, 108, 111] [53, 13, 10, 104, 101, 108, 108, 111, 13, 10, 48, 13, 10, 13, 10] := by
  refine ⟨[53], 5, [13, 10, 104, 101, 108, 108, 111, 13, 10, 48, 13, 10, 13, 10], ⟨by simp, by decide, by decide⟩, by decide, ?_, rfl⟩
  have hl : After false 0 [] ([13, 10] ++ [13, 10]) :=
    After.last [13, 10] [13, 10] (IsHdrRest.plain [] (by intro b hb; simp at hb))
      ⟨[], IsTrailerLines.nil, rfl, by decide⟩
  exact After.chunk 5 [13, 10] [104, 101, 108, 108, 111] [48] 0 [] _ (by decide) (by decide) rfl
    (IsHdrRest.plain [] (by intro b hb; simp at hb)) ⟨by simp, by decide, by decide⟩ (by decide) hl

/-- and the model decodes it, byte by byte and with one octet of space per call -/
example : (feedAll false (fun _ => 1) ([53, 13, 10, 104, 101, 108, 108, 111, 13, 10, 48, 13, 10, 13, 10].map fun b => [b])).out
    = [104, 101, 108, 108, 111] := by decide
/-- a truncated encoding asks for more -/
example : (oneShot false (fun _ => 7) [53, 13, 10, 104, 101]).verdict = .more := by decide
/-- the grammar is not everything: a bare LF after the size is not a header rest the decoder accepts -/
example : (oneShot false (fun _ => 7) [53, 10, 104]).verdict = .reject .extCrlf := by decide

end SquidModel.C24
