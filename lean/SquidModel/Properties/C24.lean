/-
C24 — Chunked decoding is exact and rejects malformed framing.
-/
import SquidModel.Chunked.Feed

namespace SquidModel.C24
open SquidModel.Chunked

def big : Nat → Nat := fun _ => 2 ^ 30

/-- `5;a=x \r\nhello\r\n0\r\n\r\n` -/
def witness : Bytes := [53, 59, 97, 61, 120, 32, 13, 10, 104, 101, 108, 108, 111, 13, 10, 48, 13, 10, 13, 10]

/-- Segmentation independence is false of the real code on malformed input: BWS between the last
chunk-ext value and CRLF is rejected when the header arrives in one read and accepted when a read
ends between the value and the CR. -/
theorem segmentation_independence_counterexample :
    (feedAll false big [witness]).verdict = .reject .extCrlf ∧
    (feedAll false big [witness.take 6, witness.drop 6]).verdict = .done ∧
    (feedAll false big [witness.take 6, witness.drop 6]).out = [104, 101, 108, 108, 111] := by
  decide

end SquidModel.C24
