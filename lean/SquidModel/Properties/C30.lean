/-
C30 — URI parsing is canonical and validates authority.

Statement: "Every absolute URI Squid accepts has a lower-case host with no empty labels and a port from 1 to 65535, equal to the
decimal port written in the URI or to the scheme default. Re-parsing Squid's canonical form of the URI yields the same scheme,
host, port and path. URIs with out-of-range or non-numeric ports are rejected."

Model: `SquidModel.Uri.parse` (Uri/Parse.lean: `AnyP::Uri::parse` with `uriParseScheme`, `parseUrn`, `parseHost`, `parsePort`,
the C string handling of the non-CONNECT branch, `urlAppendDomain`, the setters) and `SquidModel.Uri.canonical`
(Uri/Canon.lean: `authority`, `absolutePath`, `absolute`). All theorems hold for every input, every configuration
(`check_hostnames`, `allow_underscore`, `uri_whitespace`, `append_domain`) and every classification function `ip` standing for
`Ip::Address::fromHost` (libc `getaddrinfo`), unless a hypothesis says otherwise.

The full statement is FALSE of the code that exists; the `_counterexample` theorems prove it on the model (and the differential
run confirms each on the real parser), the `_partial` theorems state what does hold with the excluded region as a hypothesis.
-/
import SquidModel.Uri.Fixpoint

namespace SquidModel.C30
open SquidModel.Uri SquidModel.Gen.UriParse

/-- Every accepted target that has an authority (everything except `urn:`) has a port from 1 to 65535. -/
theorem accepted_port_range (cfg : Config) (ip : Bytes → IpClass) (m : Method) (url : Bytes) (r : Parsed)
    (h : parse cfg ip m url = .ok r) (hurn : r.proto ≠ PROTO_URN) :
    ∃ p, r.port = some p ∧ 1 ≤ p ∧ p ≤ 65535 := by
  rcases parse_ok_inv h with ⟨_, _, rfl⟩ | ⟨hu, _⟩ | ⟨proto, image, login, fh, port, path, hf⟩
  · exact (by decide : ∃ p, starResult.port = some p ∧ 1 ≤ p ∧ p ≤ 65535)
  · exact absurd hu hurn
  · rcases finish_ok hf with ⟨_, _, _, _, _, h1, h2, _, _, _, _, _, hp, _⟩
    exact ⟨port.toNat, hp, by omega, by omega⟩

/-- Every accepted target has a host without upper-case letters (no octet that `xtolower` changes), provided the address
formatter prints none (`inet_ntop` prints lower-case hex) and the configured `append_domain` has none. `urn:` is excluded:
its NID is stored as written. -/
theorem accepted_host_lowercase (cfg : Config) (ip : Bytes → IpClass) (m : Method) (url : Bytes) (r : Parsed)
    (h : parse cfg ip m url = .ok r) (hurn : r.proto ≠ PROTO_URN)
    (hip : ∀ s t, ip s = .addr t → NoUpper t) (had : NoUpper cfg.appendDomain) :
    NoUpper r.host := by
  rcases parse_ok_inv h with ⟨_, _, rfl⟩ | ⟨hu, _⟩ | ⟨proto, image, login, fh, port, path, hf⟩
  · intro c hc; simp [starResult] at hc
  · exact absurd hu hurn
  · rcases finish_ok hf with ⟨h4, _, harg, _, _, _, _, _, hset, _⟩
    exact setHost_noUpper hip (hostArg_noUpper had harg) hset

/-! ### host labels -/

/-- FULL STATEMENT (false, see the two counterexamples): every accepted host has no empty label.
PROVED: a host that is a name (not an address), is not empty and is shorter than the 255 octets `host_` can hold has no empty
label: no leading dot, no `..`, no trailing dot. Missing: hosts that become empty when the port / trailing dots are removed
(accepted), and hosts cut to 255 octets by `xstrncpy` in `AnyP::Uri::host()` after the checks. -/
theorem host_labels_partial (cfg : Config) (ip : Bytes → IpClass) (m : Method) (url : Bytes) (r : Parsed)
    (h : parse cfg ip m url = .ok r) (hurn : r.proto ≠ PROTO_URN) (hname : r.numeric = false)
    (hne : r.host ≠ []) (hlen : r.host.length < SQUIDHOSTNAMELEN - 1) :
    GoodLabels r.host := by
  rcases parse_ok_inv h with ⟨_, _, rfl⟩ | ⟨hu, _⟩ | ⟨proto, image, login, fh, port, path, hf⟩
  · exact absurd rfl hne
  · exact absurd hu hurn
  · rcases finish_ok hf with ⟨h4, _, harg, hdd, hhead, _, _, _, hset, _⟩
    rw [hname] at hset
    have hhost := setHost_name hset
    have hfull : r.host = h4 := by
      rw [hhost] at hlen ⊢
      rw [List.length_take] at hlen
      exact List.take_of_length_le (by omega)
    rw [hfull] at hne ⊢
    exact ⟨hne, hhead, hdd, hostArg_getLast harg⟩

/-- default configuration: check_hostnames off, uri_whitespace strip, no append_domain -/
def cfg0 : Config := { checkHostnames := false, allowUnderscore := false, uriWhitespace := 0, appendDomain := [] }

/-- what the model answers, tested by a predicate on the accepted fields -/
def accepts (o : Outcome) (p : Parsed → Bool) : Bool :=
  match o with
  | .ok r => p r
  | _ => false

/-- `http://./` is accepted with an EMPTY host (the "host present" check runs before trailing dots are removed) … -/
theorem empty_host_counterexample :
    accepts (parse cfg0 Ip.classify .other [104,116,116,112,58,47,47,46,47]) (fun r => r.host == [] && r.port == some 80) = true := by
  decide
/-- … so does `http://:80/` (the check runs before the port is cut off) and the CONNECT target `.:80`. -/
theorem empty_host_counterexample_port :
    accepts (parse cfg0 Ip.classify .other [104,116,116,112,58,47,47,58,56,48,47]) (fun r => r.host == [] && r.port == some 80) = true := by
  decide
theorem empty_host_counterexample_connect :
    accepts (parse cfg0 Ip.classify .connect [46,58,56,48]) (fun r => r.host == [] && r.port == some 80) = true := by
  decide

/-- `http://` + 254 × `a` + `.b/` is accepted and its host ends in a dot: `host()` keeps 255 octets. -/
theorem truncated_host_counterexample :
    accepts (parse cfg0 Ip.classify .other ([104,116,116,112,58,47,47] ++ List.replicate 254 97 ++ [46, 98, 47]))
      (fun r => r.host.length == 255 && r.host.getLast? == some 46) = true := by
  decide +kernel

/-! ### ports of CONNECT targets (`parseHost` / `parsePort`): full strength -/

/-- An accepted CONNECT target reads `<host text>:<digits>` where the digits are a decimal number without leading zero from 1 to
65535, nothing follows them, and the accepted port is exactly that number. -/
theorem connect_port_exact (cfg : Config) (ip : Bytes → IpClass) (url : Bytes) (r : Parsed)
    (h : parse cfg ip .connect url = .ok r) :
    ∃ hostText ds, url = hostText ++ 58 :: ds ∧ ds ≠ [] ∧ (∀ c ∈ ds, isDigit c = true) ∧ ds.head? ≠ some 48 ∧
      r.port = some (digitsValue ds) ∧ 1 ≤ digitsValue ds ∧ digitsValue ds ≤ 65535 := by
  rcases parseConnect_ok (parse_connect h) with ⟨rawHost, rest, r2, p, hh, hrest, hp, hf⟩
  rcases parsePortTok_ok hp with ⟨hne, hhead, hval, hle, hdrop⟩
  have hall : r2.takeWhile isDigit = r2 := by
    have := List.takeWhile_append_dropWhile (p := isDigit) (l := r2)
    rw [← hdrop, List.append_nil] at this
    exact this
  rw [hall] at hne hval
  rcases finish_ok hf with ⟨_, _, _, _, _, h1, _, _, _, _, _, _, hport, _⟩
  have hp1 : 1 ≤ p := by omega
  have hdig : ∀ c ∈ r2, isDigit c = true := by
    intro c hc
    rw [← hall] at hc
    exact all_takeWhile isDigit r2 c hc
  subst hrest
  have hportN : r.port = some p := by simpa using hport
  rcases (parseHostTok_ok hh).2 with hu | hu
  · exact ⟨rawHost, r2, hu, hne, hdig, hhead, by rw [hportN, hval], by omega, by omega⟩
  · refine ⟨91 :: (rawHost ++ [93]), r2, ?_, hne, hdig, hhead, by rw [hportN, hval], by omega, by omega⟩
    rw [hu]; simp

/-- "URIs with out-of-range or non-numeric ports are rejected", for CONNECT, at full strength: however an accepted target is read
as `<anything>:<text without colon>` (i.e. the text after its last colon), that text is a decimal number without leading zero in
1..65535 and the accepted port is its value. Contrapositive: a target whose last-colon text is empty, signed, zero-prefixed,
non-numeric or out of range is not accepted. -/
theorem bad_connect_port_rejected (cfg : Config) (ip : Bytes → IpClass) (hostText portText : Bytes) (r : Parsed)
    (hcolon : ∀ c ∈ portText, c ≠ 58)
    (h : parse cfg ip .connect (hostText ++ 58 :: portText) = .ok r) :
    portText ≠ [] ∧ (∀ c ∈ portText, isDigit c = true) ∧ portText.head? ≠ some 48 ∧
      1 ≤ digitsValue portText ∧ digitsValue portText ≤ 65535 ∧ r.port = some (digitsValue portText) := by
  rcases connect_port_exact cfg ip _ r h with ⟨ht, ds, hu, hne, hdig, hhead, hport, h1, h2⟩
  have : portText = ds := last_colon_unique hcolon (fun c hc => isDigit_ne_colon (hdig c hc)) hu
  subst this
  exact ⟨hne, hdig, hhead, h1, h2, hport⟩

/-- non-vacuity: `example.com:443` and `[::1]:8443` are accepted with those ports; `h:080`, `h:65536`, `h:+80`, `h:80x` are not -/
example : accepts (parse cfg0 Ip.classify .connect [101,120,97,109,112,108,101,46,99,111,109,58,52,52,51]) (fun r => r.port == some 443) = true := by decide
example : accepts (parse cfg0 Ip.classify .connect [91,58,58,49,93,58,56,52,52,51]) (fun r => r.port == some 8443 && r.numeric) = true := by decide
example : parse cfg0 Ip.classify .connect [104,58,48,56,48] = .reject "port-zero" := by decide
example : parse cfg0 Ip.classify .connect [104,58,54,53,53,51,54] = .reject "port-huge" := by decide
example : parse cfg0 Ip.classify .connect [104,58,43,56,48] = .reject "port-syntax" := by decide
example : parse cfg0 Ip.classify .connect [104,58,56,48,120] = .reject "connect-garbage" := by decide

/-! ### ports of the other request targets: `scheme "://" host ":" port tail`

The quantifier of the property is over *generated* URIs; the theorems below are about every URI composed of a scheme text
(`SchemeText`: 1–16 scheme characters starting with a letter, not `urn`), a host text of plain octets (`PlainHost`: no octet that
ends the host scan, no `@`, no `:`, not starting with `[`, not empty), a port text, and a tail that is empty or starts with an
octet that ends the host scan (`/`, `?`, `#`, white space, NUL). How the port text is converted depends on the tree
(`Gen.UriParse.portMode`, read from the staged source: 0 = `atoi`, 1 = `parsePort` + `atEnd`). -/

/-- FULL STATEMENT (false for the `atoi` tree, see the counterexamples): an accepted URI's port is the decimal port written in it,
and URIs with out-of-range or non-numeric port texts are rejected.
PROVED for the `atoi` tree: when the written port is a string of decimal digits whose value fits an `int` (< 2^31), an accepted
URI has exactly that port, and it is accepted only if the value is in 1..65535. Missing: port texts that are not pure digits
(sign, trailing garbage, leading white space) and digit strings ≥ 2^31 (they wrap). -/
theorem port_written_partial (cfg : Config) (ip : Bytes → IpClass) (m : Method) (scheme host pt tail : Bytes) (r : Parsed)
    (hmode : portMode = 0)
    (hm : m ≠ .connect) (hs : SchemeText scheme) (hnone : schemeProto scheme ≠ PROTO_NONE) (hurn : schemeProto scheme ≠ PROTO_URN)
    (hh : PlainHost host) (hd : ∀ c ∈ pt, isDigit c = true) (hv : digitsValue pt < 2147483648) (ht : TailOk tail)
    (hlen : (scheme ++ 58 :: 47 :: 47 :: (host ++ 58 :: pt ++ tail)).length + cfg.appendDomain.length ≤ MAX_URL - 1)
    (h : parse cfg ip m (scheme ++ 58 :: 47 :: 47 :: (host ++ 58 :: pt ++ tail)) = .ok r) :
    r.port = some (digitsValue pt) ∧ 1 ≤ digitsValue pt ∧ digitsValue pt ≤ 65535 := by
  rw [parse_composed_port cfg ip m scheme host pt tail hm hs hnone hurn hh (fun c hc => digit_plain (hd c hc)) ht hlen] at h
  have hconv : convertPort pt = .ok (digitsValue pt : Int) := by
    unfold convertPort; simp [hmode, atoi_digits pt hd hv]
  rw [hconv] at h
  rcases finish_ok h with ⟨_, _, _, _, _, h1, h2, _, _, _, _, _, hp, _⟩
  refine ⟨by simpa using hp, by omega, by omega⟩

/-- The same at full strength for a tree that converts the port with `parsePort` (the repair in notes/fixes/C30-atoi-port.diff):
whatever plain octets the port text consists of, an accepted URI has a port text that is a decimal number without leading zero in
1..65535, and the accepted port is its value — every other port text is rejected. -/
theorem bad_port_rejected_fixed (cfg : Config) (ip : Bytes → IpClass) (m : Method) (scheme host pt tail : Bytes) (r : Parsed)
    (hmode : portMode = 1)
    (hm : m ≠ .connect) (hs : SchemeText scheme) (hnone : schemeProto scheme ≠ PROTO_NONE) (hurn : schemeProto scheme ≠ PROTO_URN)
    (hh : PlainHost host) (hp : ∀ c ∈ pt, plainOctet c = true) (ht : TailOk tail)
    (hlen : (scheme ++ 58 :: 47 :: 47 :: (host ++ 58 :: pt ++ tail)).length + cfg.appendDomain.length ≤ MAX_URL - 1)
    (h : parse cfg ip m (scheme ++ 58 :: 47 :: 47 :: (host ++ 58 :: pt ++ tail)) = .ok r) :
    pt ≠ [] ∧ (∀ c ∈ pt, isDigit c = true) ∧ pt.head? ≠ some 48 ∧
      1 ≤ digitsValue pt ∧ digitsValue pt ≤ 65535 ∧ r.port = some (digitsValue pt) := by
  rw [parse_composed_port cfg ip m scheme host pt tail hm hs hnone hurn hh hp ht hlen] at h
  unfold convertPort at h
  simp only [hmode, Nat.one_ne_zero, ↓reduceIte] at h
  cases hpp : parsePortTok pt with
  | error e =>
    rw [hpp] at h
    simp only at h
    split at h <;> simp at h
  | ok v =>
    obtain ⟨p, rest⟩ := v
    rw [hpp] at h
    simp only at h
    by_cases hrest : rest.isEmpty = true
    · simp only [hrest, ↓reduceIte] at h
      have hr : rest = [] := by simpa using hrest
      subst hr
      rcases parsePortTok_ok hpp with ⟨hne, hhead, hval, hle, hdrop⟩
      have hall : pt.takeWhile isDigit = pt := by
        have := List.takeWhile_append_dropWhile (p := isDigit) (l := pt)
        rw [← hdrop, List.append_nil] at this
        exact this
      rw [hall] at hne hval
      rcases finish_ok h with ⟨_, _, _, _, _, h1, _, _, _, _, _, _, hport, _⟩
      have hdig : ∀ c ∈ pt, isDigit c = true := by
        intro c hc
        rw [← hall] at hc
        exact all_takeWhile isDigit pt c hc
      refine ⟨hne, hdig, hhead, by omega, by omega, ?_⟩
      rw [← hval]; simpa using hport
    · simp only [hrest, Bool.false_eq_true, ↓reduceIte] at h
      split at h <;> simp at h

/-- `http://h:4294967376/` is accepted with port 80 by the `atoi` tree (4294967376 = 2^32 + 80) … -/
theorem atoi_port_counterexample_wrap : portMode = 0 →
    accepts (parse cfg0 Ip.classify .other [104,116,116,112,58,47,47,104,58,52,50,57,52,57,54,55,51,55,54,47])
      (fun r => r.host == [104] && r.port == some 80) = true := by decide
/-- … `http://h:80abc/` too (trailing garbage) … -/
theorem atoi_port_counterexample_garbage : portMode = 0 →
    accepts (parse cfg0 Ip.classify .other [104,116,116,112,58,47,47,104,58,56,48,97,98,99,47])
      (fun r => r.host == [104] && r.port == some 80) = true := by decide
/-- … and `http://h:+80/` (sign). -/
theorem atoi_port_counterexample_sign : portMode = 0 →
    accepts (parse cfg0 Ip.classify .other [104,116,116,112,58,47,47,104,58,43,56,48,47])
      (fun r => r.host == [104] && r.port == some 80) = true := by decide

/-- non-vacuity of the hypotheses: `http` is a scheme text read as HTTP, `example.com` a plain host, `/x` a tail; and the composed
`http://example.com:8080/x` is accepted with port 8080, `http://example.com:65536/x` rejected -/
example : SchemeText [104,116,116,112] ∧ schemeProto [104,116,116,112] = PROTO_HTTP := by
  refine ⟨⟨by decide, by decide, by decide, by decide⟩, by decide⟩
example : PlainHost [101,120,97,109,112,108,101,46,99,111,109] := ⟨by decide, by decide, by decide⟩
example : TailOk [47, 120] := Or.inr (by decide)
example : accepts (parse cfg0 Ip.classify .other
    ([104,116,116,112] ++ 58 :: 47 :: 47 :: ([101,120,97,109,112,108,101,46,99,111,109] ++ 58 :: [56,48,56,48] ++ [47,120])))
    (fun r => r.port == some 8080 && r.host == [101,120,97,109,112,108,101,46,99,111,109]) = true := by decide
example : parse cfg0 Ip.classify .other
    ([104,116,116,112] ++ 58 :: 47 :: 47 :: ([101,120,97,109,112,108,101,46,99,111,109] ++ 58 :: [54,53,53,51,54] ++ [47,120]))
    = .reject "port-range" ∨ portMode ≠ 0 := by decide

/-! ### re-parsing the canonical form -/

/-- FULL STATEMENT (false, see the counterexamples below): parsing `absolute()` of an accepted URI again yields the same scheme,
host, port and path.
PROVED, for every configuration without `append_domain`, every address classifier and every non-CONNECT method: if the accepted
URI has a host that is a name (not an address) of fewer than 255 plain octets (nothing that ends the host scan, no `@`, no `:`,
not starting with `[`, not empty), a path made of `PathChars()` octets, and no user info that `absolute()` would print, then the
canonical form is accepted again and scheme (protocol and image), host, port and path are the same. The scheme part is derived:
what `uriParseScheme` accepted is read again as the same scheme from `image()`.
Missing (each with a machine-checked counterexample or a known finding): paths with octets outside `PathChars()` — `?` first of all —
which `absolutePath()` percent-encodes; bracketed or colon-carrying hosts; hosts cut at 255 octets; empty hosts; `append_domain`;
numeric hosts (their text goes through libc); ftp/unknown-scheme user info. -/
theorem reparse_canonical_partial (cfg : Config) (ip : Bytes → IpClass) (m : Method) (url : Bytes) (r : Parsed)
    (h : parse cfg ip m url = .ok r)
    (hm : m ≠ .connect) (hmode : portMode = 0 ∨ portMode = 1)
    (hurn : r.proto ≠ PROTO_URN)
    (hui : (r.proto = PROTO_FTP ∨ r.proto = PROTO_UNKNOWN) → r.userInfo = [])
    (hname : r.numeric = false) (hplain : PlainHost r.host) (hshort : r.host.length < SQUIDHOSTNAMELEN - 1)
    (hpath : ∀ c ∈ r.path, PATHCHARS.mem c = true) (hslash : r.path.head? = some 47)
    (had : cfg.appendDomain = [])
    (hlen : (absolute r).length ≤ MAX_URL - 1) :
    ∃ r', parse cfg ip m (absolute r) = .ok r' ∧ sameTarget r r' := by
  -- what the first parse established
  rcases parse_scheme_of_ok h hm hplain.1 hurn with ⟨⟨rest0, hps⟩, hnone⟩
  have hsch := parseScheme_roundtrip hps
  rcases parse_ok_inv h with ⟨_, _, rfl⟩ | ⟨hu, _⟩ | ⟨proto, image, login, fh, port, path0, hf⟩
  · exact absurd rfl hplain.1
  · exact absurd hu hurn
  rcases finish_ok hf with ⟨h4, p0, harg, hdd, hhead, hp1, hp2, hpw, hset, hproto, himage, hlogin, hport, hpath0⟩
  rw [hname] at hset
  have hhost : r.host = h4 := by
    have := setHost_name hset
    rw [this] at hshort ⊢
    rw [List.length_take] at hshort
    exact List.take_of_length_le (by omega)
  have hnoUp : NoUpper r.host := by
    rw [hhost]; exact hostArg_noUpper (by rw [had]; intro c hc; simp at hc) harg
  have hlast : r.host.getLast? ≠ some 46 := by rw [hhost]; exact hostArg_getLast harg
  have hchars : cfg.checkHostnames = true → r.host.all (hostnameSet cfg).mem = true := by
    intro hc
    have hall := finish_ok_chars hf hc
    have harg' : hostArg cfg fh = some (stripTrailingDots (lowerStrip cfg fh)) := by
      unfold hostArg appendDomain; simp [had]
    rw [harg'] at harg
    have h4eq : h4 = stripTrailingDots (lowerStrip cfg fh) := by simpa using harg.symm
    rw [hhost, h4eq, List.all_eq_true]
    intro c hc'
    exact (List.all_eq_true.mp hall) c (stripTrailingDots_subset hc')
  have hset' : setHost ip r.host = some (r.host, false) := by
    have h2 := hset
    rw [← hhost] at h2
    exact h2
  -- the port
  obtain ⟨p, hpN⟩ : ∃ p : Nat, port = (p : Int) := ⟨port.toNat, by omega⟩
  subst hpN
  have hrport : r.port = some p := by simpa using hport
  have hp1' : 1 ≤ p := by omega
  have hp2' : p ≤ 65535 := by omega
  have hdd' : hasDotDot r.host = false := by rw [hhost]; exact hdd
  have hhead' : r.host.head? ≠ some 46 := by rw [hhost]; exact hhead
  have htailok : TailOk r.path := by
    cases hx : r.path with
    | nil => trivial
    | cons c rest =>
      rw [hx] at hslash
      have : c = 47 := by simpa using hslash
      subst this
      exact Or.inr (by decide)
  have hfin := finish_again cfg ip r.proto r.image r.host r.path p hnoUp hplain.2.2 hchars had hlast hdd' hhead' hp1' hp2' hpath hset'
  have hscan : ∀ c ∈ r.host, c ≠ 0 ∧ isHostDelim c = false := fun c hc =>
    ⟨(plainOctet_spec (hplain.2.2 c hc)).1, (plainOctet_spec (hplain.2.2 c hc)).2.1⟩
  have hcanon := absolute_simple r hurn hui hpath hslash
  by_cases hdef : r.port = defaultPort r.proto
  · -- no port printed
    have hauth : authority r false = r.host := by
      unfold authority; simp [hdef]
    rw [hauth] at hcanon
    rw [hcanon] at hlen ⊢
    have hstar : r.image ++ 58 :: 47 :: 47 :: (r.host ++ r.path) ≠ [42] := by
      intro he
      have := congrArg List.length he
      simp at this
      omega
    rw [parse_hier cfg ip m _ _ _ _ (by rw [had]; simpa using hlen) hm hstar (hsch _) hnone hurn,
      parseHier_compose_noport cfg ip _ _ r.host r.path hplain htailok,
      urlPath_compose r.host r.path hscan hslash hpath]
    have hd : ((defaultPort r.proto).getD 0 : Nat) = p := by rw [← hdef, hrport]; rfl
    rw [hd, hfin]
    exact ⟨_, rfl, ⟨rfl, rfl, rfl, hrport, (pathOut_same r _ _ _ _).symm⟩⟩
  · -- ":port" printed
    have hauth : authority r false = r.host ++ 58 :: decimal p := by
      unfold authority
      have hdef' : ¬ (some p = defaultPort r.proto) := by rw [← hrport]; exact hdef
      simp [hrport, hdef']
    rw [hauth] at hcanon
    have hcanon' : absolute r = r.image ++ 58 :: 47 :: 47 :: (r.host ++ 58 :: decimal p ++ r.path) := by
      rw [hcanon]
    rw [hcanon'] at hlen ⊢
    have hstar : r.image ++ 58 :: 47 :: 47 :: (r.host ++ 58 :: decimal p ++ r.path) ≠ [42] := by
      intro he
      have := congrArg List.length he
      simp at this
      omega
    have hdplain : ∀ c ∈ decimal p, plainOctet c = true := fun c hc => digit_plain ((decimal_spec p).2.1 c hc)
    rw [parse_hier cfg ip m _ _ _ _ (by rw [had]; simpa using hlen) hm hstar (hsch _) hnone hurn,
      parseHier_compose_port cfg ip _ _ r.host (decimal p) r.path hplain hdplain htailok,
      convertPort_decimal p hp1' hp2' hmode]
    simp only
    have hup : urlPath (r.host ++ 58 :: decimal p ++ r.path) = r.path := by
      have hauthscan : ∀ c ∈ r.host ++ 58 :: decimal p, c ≠ 0 ∧ isHostDelim c = false := by
        intro c hc
        rcases List.mem_append.mp hc with h1 | h1
        · exact hscan c h1
        · rcases List.mem_cons.mp h1 with rfl | h2
          · exact ⟨by decide, by decide⟩
          · exact ⟨(plainOctet_spec (hdplain c h2)).1, (plainOctet_spec (hdplain c h2)).2.1⟩
      exact urlPath_compose _ r.path hauthscan hslash hpath
    rw [hup, hfin]
    exact ⟨_, rfl, ⟨rfl, rfl, rfl, hrport, (pathOut_same r _ _ _ _).symm⟩⟩


/-- `http://h/a?b`: the canonical form is `http://h/a%3Fb`, whose path is not the path of the original (stated for a tree whose
`PathChars()` lacks `?`, which is what the set dumped from the running code says today). -/
theorem query_encoded_counterexample : PATHCHARS.mem 63 = false →
    accepts (parse cfg0 Ip.classify .other [104,116,116,112,58,47,47,104,47,97,63,98])
      (fun r => absolute r == [104,116,116,112,58,47,47,104,47,97,37,51,70,98] &&
        accepts (parse cfg0 Ip.classify .other (absolute r)) (fun r' => pathOut r' != pathOut r)) = true := by decide

/-- `http://[::]:8080/`: the brackets are stripped, `::` is the any-address and is kept as a name, the canonical form is
`http://:::8080/`, which parses to host `:::8080`, port 80. -/
theorem bracket_stripped_counterexample :
    accepts (parse cfg0 Ip.classify .other [104,116,116,112,58,47,47,91,58,58,93,58,56,48,56,48,47])
      (fun r => r.host == [58,58] && r.port == some 8080 &&
        accepts (parse cfg0 Ip.classify .other (absolute r)) (fun r' => r'.host == [58,58,58,56,48,56,48] && r'.port == some 80)) = true := by
  decide

/-- non-vacuity: `HTTP://Example.COM:8080/p` is accepted, meets the hypotheses of `reparse_canonical_partial`, and its canonical
form `http://example.com:8080/p` parses to the same target -/
example : accepts (parse cfg0 Ip.classify .other [72,84,84,80,58,47,47,69,120,97,109,112,108,101,46,67,79,77,58,56,48,56,48,47,112])
    (fun r => absolute r == [104,116,116,112,58,47,47,101,120,97,109,112,108,101,46,99,111,109,58,56,48,56,48,47,112] &&
      !r.numeric && r.path.all PATHCHARS.mem && r.host.all plainOctet &&
      accepts (parse cfg0 Ip.classify .other (absolute r)) (fun r' => decide (sameTarget r r'))) = true := by decide

/-- The same for CONNECT targets, whose canonical form is `authority(true)` = `host:port`: if the accepted host is a name of fewer
than 255 octets from `parseHost`'s reg-name set that are also plain (this excludes `#`, which `TCHAR` contains), and no
`append_domain` is configured, then `host:port` is accepted again with the same host and port. Missing: bracketed any-address
(`[::]:80` → `:::80`, rejected), empty host (`.:80` → `:80`), truncation. -/
theorem reparse_connect_partial (cfg : Config) (ip : Bytes → IpClass) (url : Bytes) (r : Parsed)
    (h : parse cfg ip .connect url = .ok r)
    (hname : r.numeric = false) (hne : r.host ≠ []) (hshort : r.host.length < SQUIDHOSTNAMELEN - 1)
    (hplainhost : ∀ c ∈ r.host, REGNAME.mem c = true ∧ plainOctet c = true) (had : cfg.appendDomain = [])
    (hlen : (authority r true).length ≤ MAX_URL - 1) :
    ∃ r', parse cfg ip .connect (authority r true) = .ok r' ∧ sameTarget r r' := by
  rcases parseConnect_ok (parse_connect h) with ⟨rawHost, rest, r2, p0, hh, hrest, hp, hf⟩
  rcases finish_ok hf with ⟨_, _, _, _, _, _, _, hpw, _, hproto, himage, hlogin, _, hpath⟩
  rcases finish_name_facts hf hname hshort had with ⟨_, hnoUp, hlast, hchars, hdd, hhead, hset, p, hpp, hp1, hp2, hrport⟩
  have hrpath : r.path = [] := by
    rw [hpath]
    have : pathWhitespace cfg [] = some [] := by unfold pathWhitespace; simp
    rw [this] at hpw
    simpa using hpw.symm
  have hfacts : ∀ c ∈ r.host, plainOctet c = true ∧ c ≠ 91 := by
    intro c hc
    have := regname_facts c
    simp only [(hplainhost c hc).1, Bool.not_true, Bool.false_or, bne_iff_ne, ne_eq] at this
    exact ⟨(hplainhost c hc).2, this⟩
  have hauth : authority r true = r.host ++ 58 :: decimal p := by
    unfold authority; simp [hrport]
  rw [hauth] at hlen ⊢
  -- parseHost on the canonical text
  have hcolon : REGNAME.mem 58 = false := by decide
  have htok : parseHostTok ip (r.host ++ 58 :: decimal p) = .ok (r.host, 58 :: decimal p) := by
    unfold parseHostTok
    cases hx : r.host with
    | nil => exact absurd hx hne
    | cons c0 rest0 =>
      have hc0 : c0 ≠ 91 := (hfacts c0 (by rw [hx]; exact List.mem_cons_self)).2
      have hall : ∀ c ∈ c0 :: rest0, REGNAME.mem c = true := by rw [← hx]; exact fun c hc => (hplainhost c hc).1
      simp only [List.cons_append, hc0, ↓reduceIte]
      rw [show c0 :: (rest0 ++ 58 :: decimal p) = (c0 :: rest0) ++ 58 :: decimal p from rfl,
        takeWhile_append_stop _ _ _ _ hall hcolon, dropWhile_append_stop _ _ _ _ hall hcolon]
      simp
  have hfin := finish_again cfg ip PROTO_NONE [] r.host [] p hnoUp (fun c hc => (hfacts c hc).1) hchars had hlast hdd hhead
    hp1 hp2 (by intro c hc; simp at hc) hset
  have hparse : parse cfg ip .connect (r.host ++ 58 :: decimal p) = parseConnect cfg ip (r.host ++ 58 :: decimal p) := by
    unfold parse
    have h1 : ¬ ((r.host ++ 58 :: decimal p).length + cfg.appendDomain.length > MAX_URL - 1) := by
      rw [had]; simp only [List.length_nil, Nat.add_zero]; omega
    have h2 : ¬ (Method.connect = Method.star ∧ r.host ++ 58 :: decimal p = [42]) := by
      intro ⟨hc, _⟩; exact absurd hc (by decide)
    simp only [h1, ↓reduceIte, h2]
  rw [hparse]
  unfold parseConnect
  rw [htok]
  simp only [ne_eq, not_true_eq_false, ↓reduceIte, parsePortTok_decimal p hp1 hp2, List.isEmpty_nil, Bool.not_true,
    Bool.false_eq_true]
  rw [hfin]
  refine ⟨_, rfl, ⟨hproto, himage, rfl, hrport, ?_⟩⟩
  unfold pathOut
  simp [hrpath, hproto]


/-- non-vacuity: `Example.COM.:443` is accepted as host `example.com`, and `example.com:443` is accepted again as the same target -/
example : accepts (parse cfg0 Ip.classify .connect [69,120,97,109,112,108,101,46,67,79,77,46,58,52,52,51])
    (fun r => authority r true == [101,120,97,109,112,108,101,46,99,111,109,58,52,52,51] &&
      r.host.all (fun c => REGNAME.mem c && plainOctet c) &&
      accepts (parse cfg0 Ip.classify .connect (authority r true)) (fun r' => decide (sameTarget r r'))) = true := by decide

end SquidModel.C30
