/-
C33 — Error pages never reflect client input unescaped (partial: the macro-expansion logic; where the fields of the
ErrorState come from is covered by the end-to-end scenarios only, see props/C33.py).

Model: `SquidModel.ErrPage.Expand` interprets the `case 'X':` blocks of `ErrorState::compileLegacyCode` as regenerated
from src/errorpage.cc into `Gen.ErrorMacros` (AST), the epilogue (`html_quote` when do_quote, `rfc1738_escape_part` for
deny_info URLs) and the template walker `ErrorState::compile` with `%D` / `%S` nesting and the function-static `mb`.
The interpreter sees of every source that is not admin-controlled only whether it is null/empty (`Shape`); its output is a
skeleton of literal pieces and holes; the page is the skeleton rendered with the actual source bytes.

History: until /repo commit f565422 the scratch buffer `mb` of compileLegacyCode was function-static and shared with nested
compilations (`%D`, `%S`): the *unquoted* text the last nested macro left there was prepended to the nested result and emitted
with do_quote = 0. For that tree only the `_partial` theorems below held (hypothesis `cleanTail` on the nested templates) and
`prefix_static_buffer_counterexample` exhibited the leak. The buffer is local now (`Gen.ErrorMacros.staticMb = false`,
regenerated from the source on every run) and the statement holds at full strength: `no_raw_client_markup_in_page`.
-/
import SquidModel.ErrPage.Render

namespace SquidModel.C33
open SquidModel.ErrPage SquidModel.Html

/-- The statements after the switch are the ones the model's `finish` implements, and the flags start as modelled. -/
theorem epilogue_is_modelled :
    Gen.ErrorMacros.epilogue =
      ["if(!p)p=mb.buf", "if(do_quote)p=html_quote(p)", "if(building_deny_info_url&&!no_urlescape)p=rfc1738_escape_part(p)",
       "build.output.append(p,strlen(p))", "++build.input", "if(letter)++build.input"] := rfl

/-- Checker verdict on the regenerated table: in every `case` block and in `default`, on every path through the block and in
both modes, a hostile source reaches `p` or `mb` only while do_quote is (still) 1 at the end; no statement, source or condition
is unknown to the translator (unknown sources count as hostile); `mb` is emptied at the start of every invocation. -/
theorem client_controlled_macros_quoted : tableOk = true := by decide +kernel

/-- the tree as it is: the macro buffer is not shared by nested compilations (regenerated from src/errorpage.cc) -/
theorem macro_buffer_is_local : Gen.ErrorMacros.staticMb = false := rfl

/-- **Main theorem, full strength.** For every template, every shape of transaction, both modes (error page / deny_info URL),
every nesting budget, every detail text and signature template: each hole of a hostile source (request URI, host, method,
headers, user name, FTP/DNS texts, and every source the reviewed classification does not list as admin-controlled) in the compiled
text carries at least one transformation (`html_quote` or `rfc1738_escape_part`). -/
theorem no_raw_client_markup_in_page (sh : Shape) (ctx : Ctx) (tmpl : Bytes) (fuel : Nat) (mb : Pieces) :
    ∀ k xf, Piece.hole k xf ∈ (compile fuel sh ctx tmpl mb).1 → classOf k = .client → xf ≠ [] := by
  intro k xf hm hc
  exact (compile_safe_local client_controlled_macros_quoted macro_buffer_is_local sh fuel ctx tmpl mb).1 _ hm hc

/-- Consequence for the bytes sent, full strength: the page is its skeleton rendered with the transaction's values, and whatever
bytes a hostile source holds, its occurrences in the page contain no raw `<`, `>`, `"`, `'`, and `&` only as the start of an
entity reference. -/
theorem client_text_is_well_quoted (e : Env) (ctx : Ctx) (tmpl : Bytes) :
    page e ctx tmpl = render e.bytes (compile nestingFuel (shapeOf e) ctx tmpl []).1 ∧
    ∀ k xf, Piece.hole k xf ∈ (compile nestingFuel (shapeOf e) ctx tmpl []).1 → classOf k = .client →
      wellQuoted (renderPiece e.bytes (.hole k xf)) = true := by
  refine ⟨rfl, ?_⟩
  intro k xf hm hc
  exact wellQuoted_applyXfs xf (no_raw_client_markup_in_page (shapeOf e) ctx tmpl nestingFuel [] k xf hm hc) _

/-- the former leak is gone: detail text `%M`, page `%D` now yields only the html-quoted method -/
example : (compile 3 (Shape.example [.request, .detail] [37, 77] []) { deny := false, allowRec := true, inSig := false } [37, 68] []).1 =
    [.hole .method [.html]] := by decide +kernel

/-! ### pre-fix statements (tree before f565422: `mb` function-static); they remain true, the counterexample vacuously -/

/-- Pre-fix main theorem (`_partial`): holds for a static buffer too: if the detail text and the signature end in a clean macro, then for every
template, every shape of transaction, both modes and every nesting budget, each hole of a hostile source in the compiled
text carries at least one transformation (`html_quote` or `rfc1738_escape_part`). -/
theorem no_raw_client_markup_in_page_partial (sh : Shape) (ctx : Ctx) (tmpl : Bytes) (fuel : Nat) (mb : Pieces)
    (hd : cleanTail sh.detailTmpl = true) (hs : cleanTail sh.sigTmpl = true) :
    ∀ k xf, Piece.hole k xf ∈ (compile fuel sh ctx tmpl mb).1 → classOf k = .client → xf ≠ [] := by
  intro k xf hm hc
  exact (compile_safe client_controlled_macros_quoted sh hd hs fuel ctx tmpl mb).1 _ hm hc

/-- Consequence for the bytes sent: the page is its skeleton rendered with the transaction's values, and whatever bytes a
hostile source holds (request URI, host, method, headers, user name, FTP/DNS texts ...), its occurrences in the page contain no raw
`<`, `>`, `"`, `'`, and `&` only as the start of an entity reference. -/
theorem client_text_is_well_quoted_partial (e : Env) (ctx : Ctx) (tmpl : Bytes)
    (hd : cleanTail e.detailTmpl = true) (hs : cleanTail e.sigTmpl = true) :
    page e ctx tmpl = render e.bytes (compile nestingFuel (shapeOf e) ctx tmpl []).1 ∧
    ∀ k xf, Piece.hole k xf ∈ (compile nestingFuel (shapeOf e) ctx tmpl []).1 → classOf k = .client →
      wellQuoted (renderPiece e.bytes (.hole k xf)) = true := by
  refine ⟨rfl, ?_⟩
  intro k xf hm hc
  exact wellQuoted_applyXfs xf (no_raw_client_markup_in_page_partial (shapeOf e) ctx tmpl nestingFuel [] hd hs k xf hm hc) _

/-- Non-interference: two transactions that agree on the conditions, the templates, the admin-controlled sources and on
which sources are null / empty get the same skeleton — hostile bytes never influence anything but the content of their holes. -/
theorem skeleton_independent_of_client_bytes (e1 e2 : Env) (ctx : Ctx) (tmpl : Bytes) (fuel : Nat)
    (hatom : e1.atom = e2.atom) (hdt : e1.detailTmpl = e2.detailTmpl) (hst : e1.sigTmpl = e2.sigTmpl)
    (hcfg : ∀ k, classOf k = .config → e1.val k = e2.val k)
    (hnull : ∀ k, (e1.val k).isSome = (e2.val k).isSome)
    (hempty : ∀ k, (e1.bytes k).isEmpty = (e2.bytes k).isEmpty) :
    compile fuel (shapeOf e1) ctx tmpl [] = compile fuel (shapeOf e2) ctx tmpl [] := by
  have : shapeOf e1 = shapeOf e2 := by
    simp only [shapeOf, hatom, hdt, hst]
    congr 1
    · funext k
      by_cases hk : classOf k = .config
      · simp [hk, Env.bytes, hcfg k hk]
      · simp [hk]
    · funext k; exact hnull k
    · funext k; rw [hempty k]
  rw [this]

/-- Pre-fix counterexample (labelled; premise `staticMb = true` is false of the current tree): with the error detail text `%M`, the page template `%D` yields the request method
*without* any transformation (the nested `%M` leaves the raw method in the static `mb`, `%D` emits `mb` with do_quote = 0).
(Stated for the tree as it is: `mb` function-static; with a local buffer the premise is false.) -/
theorem prefix_static_buffer_counterexample : Gen.ErrorMacros.staticMb = true →
    (compile 3 (Shape.example [.request, .detail] [37, 77] []) { deny := false, allowRec := true, inSig := false } [37, 68] []).1 =
      [.hole .method [], .hole .method [.html]] := by decide +kernel

/-! ### the hypotheses are satisfiable, the recognisers are not vacuous -/

/-- the hard-coded signature of the pinned tree ends in `%s`, which leaves `mb` empty -/
example : cleanTail Gen.ErrorMacros.hardCodedSignature = true := by decide +kernel
/-- a detail text without macros (all ErrorDetail kinds of this build: errno texts, names) -/
example : cleanTail [69, 82, 82, 95, 88] = true := by decide +kernel
/-- ... while `%M`, `%u`, `%R` as the last macro are not clean -/
example : cleanTail [37, 77] = false := by decide +kernel
example : cleanTail [37, 82, 32, 120] = false := by decide +kernel

/-- the checker rejects a block that switches quoting off around a hostile source -/
example : stmtOk (.seq (.append (.expr .method)) (.seq (.setQuote false) .brk)) = false := by decide
/-- ... also when that happens on one path only -/
example : stmtOk (.seq (.ite (.atom .request) (.setQuote false) .skip) (.seq (.setP (.expr .urlField)) .brk)) = false := by decide
/-- ... and accepts the same for an admin-controlled source -/
example : stmtOk (.seq (.append (.expr .stylesheet)) (.seq (.setQuote false) .brk)) = true := by decide
/-- an unknown source is hostile -/
example : stmtOk (.seq (.append (.expr (.other 0))) (.seq (.setQuote false) .brk)) = false := by decide

/-- `<p>%U</p>` for a request: literal text around an html-quoted hole of the canonical URL -/
example :
    (compile 1 (Shape.example [.request] [] []) { deny := false, allowRec := true, inSig := false } [60, 37, 85, 62] []).1 =
      [.lit [60], .hole .canonicalUrl [.html], .lit [62]] := by decide +kernel

/-- and its rendering when the URL holds `<b>` -/
example : render (fun _ => [60, 98, 62]) [.lit [60], .hole .canonicalUrl [.html], .lit [62]] =
    [60, 38, 108, 116, 59, 98, 38, 103, 116, 59, 62] := by decide +kernel

end SquidModel.C33
