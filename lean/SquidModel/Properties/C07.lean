/-
C07 — Non-idempotent requests are not resent after reaching the origin.

Decision-logic theorems about the `Fwd.Retry` state machine (src/FwdState.cc, HappyConnOpener.cc, pconn.cc, http.cc,
HttpRequest.cc, http/RequestMethod.cc, http/StatusCode.cc); partial: the end-to-end behaviour of the binary is tied to
the model by fault-scripted scenario correspondence (props/C07.py).

Full statement (FALSE of the code, see `non_idempotent_at_most_once_counterexample`):
  for every configuration, pool, event history and every request whose method is neither safe nor idempotent,
  `dispatches (run cfg req (init pool) evs).2 ≤ 1`.
What holds: the `_partial` theorem (no reply with a re-forwardable status arrives) and the exact bound `resend_bound`
(at most one dispatch plus one per `complete()` that `reforward()` answers with yes — `reforward()` never looks at the method).
-/
import SquidModel.Fwd.RetryLemmas
import SquidModel.Fwd.RetryMethods
import SquidModel.Fwd.RetrySim
import SquidModel.Fwd.RetrySimLemmas

namespace SquidModel.C07
open SquidModel.Fwd.Retry SquidModel.Gen

/-- The retry gate: after the request was dispatched once (`connected_okay`), `checkRetry()` says yes only for
requests that `checkRetriable()` accepts: no request body and a safe or idempotent method. -/
theorem retry_gate_needs_retriable (c : Cfg) (r : Req) (s : St) (hc : s.connectedOkay = true)
    (h : checkRetry c r s = true) : r.hasBody = false ∧ (r.safe = true ∨ r.idem = true) := by
  have := checkRetry_connected c r s hc h
  unfold checkRetriable at this
  split at this <;> simp_all

/-- Exact bound, every history: a request that `checkRetriable()` rejects is dispatched at most once plus once per
`complete()` call that `reforward()` answered with yes. -/
theorem resend_bound (c : Cfg) (r : Req) (pool : List Nat) (evs : List Ev) (hnr : checkRetriable r = false) :
    dispatches (run c r (init pool) evs).2 ≤ 1 + reforwards c r (init pool) evs := by
  have h := run_good c r hnr evs (init pool) (by intro d b h; simp [init] at h)
  have hp : pending (init pool) = 1 := rfl
  omega

/-- PARTIAL (excluded region as hypothesis `hno`): if no reply with a re-forwardable status
(`Http::IsReforwardableStatus`) is received, a request that is not retriable — in particular any request whose method
is neither safe nor idempotent — is dispatched at most once, whatever else happens: connect failures, connections
closed before/after the head/after the whole request, resets mid-reply, zero-size replies on reused connections,
timeouts, more destinations arriving, store aborts. -/
theorem non_idempotent_at_most_once_partial (c : Cfg) (r : Req) (pool : List Nat) (evs : List Ev)
    (hm : r.safe = false ∧ r.idem = false)
    (hno : ∀ st, Ev.replyHeaders st ∈ evs → isReforwardableStatus c st = false) :
    dispatches (run c r (init pool) evs).2 ≤ 1 := by
  have hnr : checkRetriable r = false := by unfold checkRetriable; split <;> simp [hm.1, hm.2]
  have h := resend_bound c r pool evs hnr
  rw [reforwards_zero c r evs (init pool) rfl hno] at h
  exact h

/-- the same for any request with a body (PUT, GET with a body, ...) -/
theorem request_with_body_at_most_once_partial (c : Cfg) (r : Req) (pool : List Nat) (evs : List Ev)
    (hb : r.hasBody = true)
    (hno : ∀ st, Ev.replyHeaders st ∈ evs → isReforwardableStatus c st = false) :
    dispatches (run c r (init pool) evs).2 ≤ 1 := by
  have hnr : checkRetriable r = false := by unfold checkRetriable; simp [hb]
  have h := resend_bound c r pool evs hnr
  rw [reforwards_zero c r evs (init pool) rfl hno] at h
  exact h

/-- the bytes of "POST" -/
def post : List UInt8 := [80, 79, 83, 84]
/-- the bytes of "PATCH" -/
def patch : List UInt8 := [80, 65, 84, 67, 72]

/-- COUNTEREXAMPLE to the full statement (default configuration, bodyless POST, two addresses): the first address
answers 502 and the connection ends (whole reply or cut short — both reach `complete()`); `reforward()` checks
ENTRY_FWD_HDR_WAIT, tries, `bodyNibbled()`, remaining destinations and the status, never the method: the POST is
dispatched a second time. -/
theorem non_idempotent_at_most_once_counterexample :
    dispatches (run defaultCfg (reqOf true post false) (init [])
      [.noteDestination 1, .noteDestination 2, .noteDestinationsEnd, .connectDone true, .noteConnection true,
       .replyHeaders 502, .serverComplete false, .connectDone true, .noteConnection true]).2 = 2 := by
  decide

/-- POST and PATCH are neither safe nor idempotent in the generated table (PATCH is METHOD_OTHER in this build),
under both settings of relaxed_header_parser. -/
theorem post_patch_not_retriable (relaxed hasBody : Bool) :
    checkRetriable (reqOf relaxed post hasBody) = false ∧ checkRetriable (reqOf relaxed patch hasBody) = false := by
  cases relaxed <;> cases hasBody <;> decide

/-- An extension method — a token that matches no image of the method table — is never retriable. -/
theorem extension_method_not_retriable (relaxed hasBody : Bool) (tok : List UInt8)
    (h : findMethod relaxed tok MethodClasses.methods = none) : checkRetriable (reqOf relaxed tok hasBody) = false := by
  unfold reqOf classify checkRetriable
  by_cases he : tok.isEmpty <;> simp [he, h]

/-- the methods RFC 9110 / the IANA registry call idempotent that this Squid knows -/
def idempotentNames : List (List UInt8) := [
  [71, 69, 84],
  [80, 85, 84],
  [72, 69, 65, 68],
  [84, 82, 65, 67, 69],
  [79, 80, 84, 73, 79, 78, 83],
  [68, 69, 76, 69, 84, 69],
  [82, 69, 80, 79, 82, 84],
  [80, 82, 79, 80, 70, 73, 78, 68],
  [80, 82, 79, 80, 80, 65, 84, 67, 72],
  [77, 75, 67, 79, 76],
  [67, 79, 80, 89],
  [77, 79, 86, 69],
  [85, 78, 76, 79, 67, 75],
  [83, 69, 65, 82, 67, 72],
  [80, 82, 73]]

/-- Obligation on the generated table: every method the code classifies as safe or idempotent is one of these
registered idempotent methods; in particular POST, PATCH, LOCK, CONNECT are not among them. -/
theorem retriable_methods_are_registered_idempotent :
    ∀ row ∈ MethodClasses.methods, (row.2.2.1 || row.2.2.2) = true → row.2.1 ∈ idempotentNames := by
  decide

/-- Obligation on the generated status lists: only 4xx/5xx replies can be discarded in favour of another attempt. -/
theorem reforwardable_statuses_are_errors (maxTries : Nat) (onerr pc : Bool) (st : Nat) (h : st < 400) :
    isReforwardableStatus (cfgOf maxTries onerr pc) st = false := by
  have hall : ∀ x ∈ MethodClasses.reforwardAlways ++ MethodClasses.reforwardOnError, 400 ≤ x := by decide
  have n1 : st ∉ MethodClasses.reforwardAlways := fun hc => by
    have := hall st (List.mem_append_left _ hc); omega
  have n2 : st ∉ MethodClasses.reforwardOnError := fun hc => by
    have := hall st (List.mem_append_right _ hc); omega
  unfold isReforwardableStatus cfgOf
  simp [n1, n2]

/-- forward_max_tries bounds the number of dispatches of every request in every history (a pinned connection is used
once even when forward_max_tries is 0). -/
theorem dispatches_le_max_tries (c : Cfg) (r : Req) (pool : List Nat) (evs : List Ev) :
    dispatches (run c r (init pool) evs).2 ≤ max c.maxTries 1 :=
  dispatches_le_maxTries c r pool evs

/-- pconn reuse policy: unless server_pconn_for_nonretriable allows it (and apart from pinned connections), a request
that is not retriable is never dispatched on a reused persistent connection — it never meets the pconn race. -/
theorem nonretriable_never_reuses_pconn (c : Cfg) (r : Req) (pool : List Nat) (evs : List Ev)
    (hnr : checkRetriable r = false) (hcfg : c.pconnForNonretriable = false)
    (hp : ∀ e ∈ evs, e ≠ Ev.notePinned true) (d : Nat) :
    Out.dispatch d true ∉ (run c r (init pool) evs).2 := by
  apply run_noReuse c r (by simp [hnr, hcfg]) evs (init pool) _ hp d
  exact NoReuse.of_phase (by simp [init]) (by simp [init])

/-- pconn race: when the request was dispatched on a reused connection to `d` and that attempt ends with a zero-size
reply, Squid either gives up or retries the same destination `d` on a fresh connection (persistent connections are
disallowed for that retry). -/
theorem race_retry_uses_fresh_connection (c : Cfg) (r : Req) (s : St) (d : Nat) (dr : Bool)
    (hph : s.phase = .sent d true) (hrace : s.race = .possible) (hrec : s.receipt = some d) :
    (step c r s (.serverFailed .zero dr)).1.phase = .stopped ∨
    ((step c r s (.serverFailed .zero dr)).1.phase = .opening (some d) ∧
      Out.connect d ∈ (step c r s (.serverFailed .zero dr)).2 ∧
      (step c r s (.serverFailed .zero dr)).1.allowPconn = false) :=
  race_retry_fresh c r s d dr hph hrace hrec

/-- The scenario simulation the model driver runs for the end-to-end tie is a `run` over the event list
`scenarioTrace`: the history theorems speak about exactly what the driver predicts. -/
theorem scenario_is_a_history (c : Cfg) (r : Req) (bodySent headReq : Bool) (addrs : List Nat) (prime : Bool) (faults : List Fault) :
    scenario c r bodySent headReq addrs prime faults =
      run c r (init (if prime then (addrs.filter alive).take 1 else [])) (scenarioTrace c r bodySent headReq addrs prime faults) :=
  scenario_eq_run c r bodySent headReq addrs prime faults

/-- Scenario-level form of the partial theorem (every configuration with the generated status lists, address list, primed
pconn, body mode and fault script of any length): a request whose method is neither safe nor idempotent arrives at most
once unless one of the scripted replies (whole or truncated) carries a re-forwardable status. -/
theorem scenario_non_idempotent_at_most_once_partial (maxTries : Nat) (onerr pc : Bool) (r : Req) (bodySent headReq : Bool)
    (addrs : List Nat) (prime : Bool) (faults : List Fault) (hm : r.safe = false ∧ r.idem = false)
    (hno : ∀ f ∈ faults, ∀ st, f.replyStatus = some st → isReforwardableStatus (cfgOf maxTries onerr pc) st = false) :
    dispatches (scenario (cfgOf maxTries onerr pc) r bodySent headReq addrs prime faults).2 ≤ 1 :=
  scenario_at_most_once _ r bodySent headReq addrs prime faults hm
    (reforwardable_statuses_are_errors maxTries onerr pc 200 (by omega)) hno

/-! ### non-vacuity -/

/-- the bytes of "GET" -/
def get : List UInt8 := [71, 69, 84]

/-- "Safe and idempotent requests may be retried": a GET whose connections are closed after the whole request was read
is dispatched three times (three addresses), the last one succeeding. -/
example :
    dispatches (run defaultCfg (reqOf true get false) (init [])
      [.noteDestination 1, .noteDestination 2, .noteDestination 3, .noteDestinationsEnd,
       .connectDone true, .noteConnection true, .serverFailed .zero false,
       .connectDone true, .noteConnection true, .serverFailed .other false,
       .connectDone true, .noteConnection true, .replyHeaders 200, .serverComplete true]).2 = 3 := by decide

/-- the same history with POST: one dispatch (the hypotheses of the partial theorem are satisfiable and the bound is tight) -/
example :
    dispatches (run defaultCfg (reqOf true post false) (init [])
      [.noteDestination 1, .noteDestination 2, .noteDestination 3, .noteDestinationsEnd,
       .connectDone true, .noteConnection true, .serverFailed .zero false,
       .connectDone true, .noteConnection true, .serverFailed .other false]).2 = 1 := by decide

/-- a GET on a primed pconn that loses the race is retried on a fresh connection to the same address -/
example :
    (run defaultCfg (reqOf true get false) (init [1])
      [.noteDestination 1, .noteDestinationsEnd, .noteConnection true, .serverFailed .zero false]).2
      = [.dispatch 1 true, .connect 1] := by decide

/-- a POST meeting an idle pconn closes it and opens a fresh connection -/
example :
    (run defaultCfg (reqOf true post false) (init [1]) [.noteDestination 1, .noteDestinationsEnd]).2
      = [.closeIdle 1, .connect 1] := by decide

/-- the scenario semantics agrees with the counterexample: POST, addresses 1 and 2, first reply a truncated 502 -/
example :
    dispatches (scenario defaultCfg (reqOf true post false) false false [1, 2] false [.partBody 502 false]).2 = 2 := by decide

/-- "get" is GET under the relaxed parser and an extension method under the strict one -/
example : (classify true [103, 101, 116]).safe = true ∧ (classify false [103, 101, 116]).safe = false := by decide

end SquidModel.C07
