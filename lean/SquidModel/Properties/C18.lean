/-
C18 — Collapsed forwarding: one upstream fetch, identical copies (partial: the theorems are about the model of one worker's Store
entries and client transactions for one cache key, `SquidModel/Cache/Collapse.lean`; the rebuilt binary is tied to the model by
scenario correspondence, see props/C18.py).

Full statement: "With collapsed_forwarding on, concurrent requests for the same cacheable URL that arrive while a fetch is in
progress cause at most one origin request between them.  Every collapsed client receives the complete response that fetch produced,
byte-identical, or an error, and never a truncated body presented as complete."

What is proved, for every interleaving (`run O s as` over any list of actions: requests, origin events, store-client callbacks,
client departures, evictions, purges), any number of clients, any origin behaviour `O`:
  * `one_fetch_when_cacheable`: in a calm run (plain requests, cacheable fresh replies, a fetch that is not failed, aborted,
    evicted or purged) the model creates at most one entry = starts at most one fetch;
  * `served_bytes_from_one_fetch`, `complete_means_whole_response_or_error_page`, `identical_copies`: in ANY run every client is sent
    the header of one entry and a prefix of that entry's bytes, which are a prefix of what the origin sent for that entry's fetch;
    `STREAM_COMPLETE` is signalled only after the whole response of that fetch (or a locally generated error page);
  * `unshareable_never_served_to_collapsed_partial`: a reply that must not be shared reaches a transaction that did not fetch it only
    through the `RELEASE_REQUEST`-before-header path, which `released_entry_shares_private_reply_counterexample` shows to be real.
Missing for the full statement: the event loop, sockets and parsers of the binary (sampled end to end, not proved); SMP (C19).
-/
import SquidModel.Cache.CollapseOne
import SquidModel.Cache.CollapseShare
import SquidModel.Gen.CollapseFlags

namespace SquidModel.C18
open SquidModel.Cache.Collapse

/-- One upstream fetch: with `collapsed_forwarding on`, if every request is a plain GET, the origin's replies are cacheable and
fresh, and the run is calm (no fetch failure, abort, eviction or purge; client departures that do not abort the fetch), then after
any number of requests, in any interleaving with the origin's header, body and end events and the store-client callbacks, at most
one entry was ever created, i.e. at most one fetch was started, and every transaction is attached to that entry. -/
theorem one_fetch_when_cacheable (O : Nat → Resp) (rf : Bool) (hO : Cacheable O) (as : List Action)
    (hc : CalmRun O (State.init true rf) as) :
    (run O (State.init true rf) as).nextE ≤ 1 ∧
    ∀ c cl, (run O (State.init true rf) as).clients c = some cl → cl.entry = 0 := by
  rcases zero_run hO (zero_init rf) as hc with hz | ho
  · refine ⟨by rw [hz.nextE]; omega, ?_⟩
    intro c cl hcl
    rw [hz.cli c] at hcl
    cases hcl
  · refine ⟨by rw [ho.nextE]; omega, ?_⟩
    intro c cl hcl
    exact ho.cli c cl hcl

/-- Bytes from one fetch: in any run, a client that was sent a reply header was sent the header stored in its entry, and the body
bytes it was sent so far are a prefix of that entry's bytes; unless the entry is a local error page, the header is the one the
origin sent for that entry's fetch and the bytes are a prefix of what the origin sent for it. -/
theorem served_bytes_from_one_fetch (O : Nat → Resp) (cf rf : Bool) (as : List Action) (c : Nat) (cl : Client) (h : Hdr)
    (hcl : (run O (State.init cf rf) as).clients c = some cl) (hg : cl.gotHdr = some h) :
    ∃ ent, (run O (State.init cf rf) as).entries cl.entry = some ent ∧ ent.hdr = some h ∧ cl.out = ent.body.take cl.out.length ∧
      (ent.isErr = false → h = (O cl.entry).hdr ∧ cl.out = (O cl.entry).sent.take cl.out.length) := by
  have hi := inv_run (inv_init O cf rf) as
  obtain ⟨ent, he, hh, hp⟩ := (hi.cli c cl hcl).g1 h hg
  refine ⟨ent, he, hh, hp, ?_⟩
  intro hne
  have ok := hi.ent cl.entry ent he
  refine ⟨ok.hdrO hne h hh, ?_⟩
  have hl : cl.out.length ≤ ent.body.length := by
    have := congrArg List.length hp
    simp at this
    omega
  have h2 : cl.out = ((O cl.entry).sent.take ent.body.length).take cl.out.length := by
    rw [← ok.pre]
    exact hp
  rw [List.take_take, Nat.min_eq_left hl] at h2
  exact h2

/-- Never truncated-as-complete: in any run, a client whose stream ended with `STREAM_COMPLETE` was sent either a locally generated
error page or exactly the complete body of the origin's response to its entry's fetch, and that response was complete. -/
theorem complete_means_whole_response_or_error_page (O : Nat → Resp) (cf rf : Bool) (as : List Action) (c : Nat) (cl : Client)
    (hcl : (run O (State.init cf rf) as).clients c = some cl) (hv : cl.verdict = some .complete) :
    ∃ ent, (run O (State.init cf rf) as).entries cl.entry = some ent ∧
      (ent.isErr = true ∨ (cl.out = (O cl.entry).wholeBody ∧ (O cl.entry).proper = true)) :=
  ((inv_run (inv_init O cf rf) as).cli c cl hcl).cp hv

/-- Identical copies: two clients served completely from the same (non-error) entry were sent the same bytes and the same header. -/
theorem identical_copies (O : Nat → Resp) (cf rf : Bool) (as : List Action) (c1 c2 : Nat) (cl1 cl2 : Client)
    (h1 : (run O (State.init cf rf) as).clients c1 = some cl1) (h2 : (run O (State.init cf rf) as).clients c2 = some cl2)
    (he : cl1.entry = cl2.entry) (hv1 : cl1.verdict = some .complete) (hv2 : cl2.verdict = some .complete)
    (hne : ∀ ent, (run O (State.init cf rf) as).entries cl1.entry = some ent → ent.isErr = false) :
    cl1.out = cl2.out ∧ ∀ x y, cl1.gotHdr = some x → cl2.gotHdr = some y → x = y := by
  have hi := inv_run (inv_init O cf rf) as
  obtain ⟨e1, he1, hp1⟩ := (hi.cli c1 cl1 h1).cp hv1
  obtain ⟨e2, he2, hp2⟩ := (hi.cli c2 cl2 h2).cp hv2
  have hn1 := hne e1 he1
  rw [← he] at he2
  rw [he1] at he2
  cases he2
  constructor
  · rcases hp1 with hp1 | hp1
    · rw [hn1] at hp1; cases hp1
    · rcases hp2 with hp2 | hp2
      · rw [hn1] at hp2; cases hp2
      · rw [hp1.1, hp2.1, he]
  · intro x y hx hy
    obtain ⟨a, ha, hah, _⟩ := (hi.cli c1 cl1 h1).g1 x hx
    obtain ⟨b, hb, hbh, _⟩ := (hi.cli c2 cl2 h2).g1 y hy
    rw [← he, ha] at hb
    cases hb
    rw [hah] at hbh
    cases hbh
    rfl

/-
Full statement wanted: a reply that `HttpStateData::reusableReply` classifies as `reuseNot` (Cache-Control: private / no-store,
authenticated, ...) or a local error page is never sent to a transaction that found the entry by a Store lookup (a collapsed or
hitting client).  False of the real code: see the counterexample below.  Proved: it can only happen when the entry already carried
RELEASE_REQUEST at the time its reply header arrived (`relAtHdr`), and never for error pages.
-/
theorem unshareable_never_served_to_collapsed_partial (O : Nat → Resp) (cf rf : Bool) (as : List Action) (c : Nat) (cl : Client) (ent : Entry)
    (hcl : (run O (State.init cf rf) as).clients c = some cl) (hh : cl.isHit = true) (hg : cl.gotHdr ≠ none)
    (he : (run O (State.init cf rf) as).entries cl.entry = some ent) :
    ent.isErr = false ∧ ((O cl.entry).hdr.reuse = .reuseNot → ent.relAtHdr = true) := by
  have hs := shareInv_run (inv_init O cf rf) (shareInv_init O cf rf) as
  have hi := inv_run (inv_init O cf rf) as
  have hnu := hs.hit c cl hcl hh hg ent he
  have hhdr : ent.hdr ≠ none := by
    cases hgh : cl.gotHdr with
    | none => exact absurd hgh hg
    | some g =>
      obtain ⟨z, hz, hzh, _⟩ := (hi.cli c cl hcl).g1 g hgh
      rw [he] at hz
      cases hz
      rw [hzh]
      simp
  constructor
  · cases hx : ent.isErr with
    | false => rfl
    | true => exact absurd ⟨hhdr, Or.inl hx⟩ hnu
  · intro hr
    cases hx : ent.relAtHdr with
    | true => rfl
    | false => exact absurd ⟨hhdr, Or.inr ⟨hr, hx⟩⟩ hnu

/-- In the source variant that looks at the reply before `RELEASE_REQUEST` (`relFirst = false`, notes/fixes/C18-*.diff) the full
statement holds: a `reuseNot` reply or an error page never reaches a transaction that did not fetch it. -/
theorem unshareable_never_served_to_collapsed_fixed (O : Nat → Resp) (cf : Bool) (as : List Action) (c : Nat) (cl : Client) (ent : Entry)
    (hcl : (run O (State.init cf false) as).clients c = some cl) (hh : cl.isHit = true) (hg : cl.gotHdr ≠ none)
    (he : (run O (State.init cf false) as).entries cl.entry = some ent) :
    ent.isErr = false ∧ (O cl.entry).hdr.reuse ≠ .reuseNot := by
  obtain ⟨h1, h2⟩ := unshareable_never_served_to_collapsed_partial O cf false as c cl ent hcl hh hg he
  refine ⟨h1, ?_⟩
  intro hr
  have hs := shareInv_run (inv_init O cf false) (shareInv_init O cf false) as
  have hfl : (run O (State.init cf false) as).relFirst = false := run_relFirst O _ as
  have := hs.flag hfl cl.entry ent he
  rw [h2 hr] at this
  cases this

/-- the origin of the counterexample: every reply is `reuseNot` (e.g. `Cache-Control: private`) -/
def privateOrigin : Nat → Resp :=
  fun _ => { hdr := { reuse := .reuseNot, clen := some 1, removes := true, stale := false }, sent := [7], properEnd := true }

/-- The witness run: a first request starts the fetch; a second request collapses on it; a PURGE (or a `no-cache` request, or a
reply to another fetch that calls `httpMaybeRemovePublic`) releases the entry with `release(true)`; the private reply arrives:
`reusableReply` answers "the entry has been released" = share; the collapsed client is sent the private reply, completely. -/
def privateWitness : List Action :=
  [.request false, .request false, .purge, .replyHeaders 0, .replyData 0 1, .replyEnd 0, .wake 1 0, .wake 1 9]

/-- In the current source (`Gen.CollapseFlags.releasedFirst`) the full statement is false: the collapsed client of the witness run is
a hit, collapsed, and is sent the complete `reuseNot` reply of the other client's fetch. -/
theorem released_entry_shares_private_reply_counterexample :
    SquidModel.Gen.CollapseFlags.releasedFirst = true →
    (match (run privateOrigin (State.init true SquidModel.Gen.CollapseFlags.releasedFirst) privateWitness).clients 1 with
     | some cl => cl.isHit && cl.didCollapse && (cl.gotHdr == some (privateOrigin 0).hdr) && (cl.out == [7]) &&
                  (cl.verdict == some Verdict.complete)
     | none => false) = true ∧ (privateOrigin 0).hdr.reuse = Reuse.reuseNot := by
  decide

/-- the staged source is one of the two variants the model knows -/
theorem current_variant :
    SquidModel.Gen.CollapseFlags.releasedFirst = true ∨ SquidModel.Gen.CollapseFlags.releasedFirst = false := by
  decide

-- non-vacuity -----------------------------------------------------------------------------------------------------------------

/-- a cacheable origin: 200 with Content-Length 3 -/
def okOrigin : Nat → Resp :=
  fun _ => { hdr := { reuse := .cachePositively, clen := some 3, removes := true, stale := false }, sent := [1, 2, 3], properEnd := true }

/-- a burst: leader, two requests before the header, one after the header, one after the first byte, one after the end -/
def burst : List Action :=
  [.request false, .request false, .request false, .replyHeaders 0, .wake 1 0, .request false, .replyData 0 1, .wake 1 1, .request false,
   .replyData 0 2, .replyEnd 0, .request false, .wake 0 0, .wake 0 9, .wake 1 9, .wake 2 0, .wake 2 9, .wake 3 0, .wake 3 9,
   .wake 4 0, .wake 4 9, .wake 5 0, .wake 5 9]

example : Cacheable okOrigin := fun _ => ⟨Or.inl rfl, rfl⟩
example : CalmRun okOrigin (State.init true) burst := calmRun_of_calmRunB (by decide)
example : (run okOrigin (State.init true) burst).nextE = 1 := by decide
-- all six clients got the whole body, five of them as hits, two of them collapsed
example : (List.range 6).map (fun c => ((run okOrigin (State.init true) burst).clients c).map
    (fun cl => (cl.isHit, cl.didCollapse, cl.out, cl.verdict))) =
    [some (false, false, [1, 2, 3], some .complete), some (true, true, [1, 2, 3], some .complete), some (true, true, [1, 2, 3], some .complete),
     some (true, false, [1, 2, 3], some .complete), some (true, false, [1, 2, 3], some .complete), some (true, false, [1, 2, 3], some .complete)] := by
  decide
-- without collapsed forwarding the same burst starts three fetches
example : (run okOrigin (State.init false) burst).nextE = 3 := by decide
-- an origin that is cut off after 1 of 3 bytes: the collapsed client is told "unplanned", not "complete"
example : ((run (fun _ => { hdr := { reuse := .cachePositively, clen := some 3, removes := true, stale := false }, sent := [1], properEnd := false })
    (State.init true) [.request false, .request false, .replyHeaders 0, .wake 1 0, .replyData 0 5, .replyEnd 0, .wake 1 9]).clients 1).map
    (fun cl => (cl.out, cl.verdict)) = some ([1], some .unplanned) := by
  decide

end SquidModel.C18
