/-
C44 — Access lists decide by first match, even when checks go asynchronous.

Property theorems only.  Model: `SquidModel.Acl.Tree` (ACLChecklist, the node classes, Acl::Tree), `TreeSys`
(several checklists over one list, configuration -> tree); reference semantics and resumption specification:
`TreeRef`; proofs: `TreeLemmas`, `TreeTop`, `TreeSysLemmas`.

Everything is for ALL rule lists (any nesting of not/and/or/all-of nodes), all leaf scripts (truth value or
exception, any number of lookups, each completing later or inside goAsync), all sets of banned actions, any number
of checklists and ALL interleavings.  The one hypothesis, `CheckOk`, says that no leaf needs a 7th goAsync() call
within one evaluation (and that a fast check has no leaf that needs a lookup); `loop_limit_counterexample` shows
that it cannot be dropped: squid's async-loop protection refuses the 7th call and the leaf then counts as a
mismatch.
-/
import SquidModel.Acl.TreeSysLemmas
import SquidModel.Acl.TreeCfgLemmas

namespace SquidModel.C44
open SquidModel.Acl.Tree

/-! ### the reference: first match, implicit rule -/

/-- The decision for boolean leaves, written as in the property text: the action of the first rule (that is not
banned) whose ACL expression is true. -/
def firstMatch (truth : Nat → Bool) (banned : Answer → Bool) : Rules → Option Answer
  | [] => none
  | (a, n) :: rest =>
    if banned a then firstMatch truth banned rest
    else if evalB truth n then some a
    else firstMatch truth banned rest

/-- For leaves that only match or mismatch, the reference decision is the action of the first non-banned rule whose
ACLs all match (`evalB`: negation = `!`, all-of/and = conjunction, any-of/or = disjunction), and when no rule
matches it is the implicit answer. -/
theorem reference_is_first_match (ctx : Ctx) (h : BoolLeaves ctx) (rules : Rules) :
    reference ctx rules =
      match firstMatch ctx.truth ctx.isBanned rules with
      | some a => a
      | none => implicitAnswer rules := by
  have key : ∀ rs : Rules, refRules ctx rs = firstMatch ctx.truth ctx.isBanned rs := by
    intro rs
    induction rs with
    | nil => rfl
    | cons r rest ih =>
      obtain ⟨a, n⟩ := r
      simp only [refRules, firstMatch, ref_bool ctx h n, ih]
      split
      · rfl
      · cases evalB ctx.truth n <;> simp [ofBool]
  unfold reference
  rw [key]
  cases firstMatch ctx.truth ctx.isBanned rules <;> rfl

/-- implicit_answer: when no rule matches, the answer is the opposite of the last rule's action, marked implicit;
neither allow nor deny for an empty list. -/
theorem implicit_answer (rules : Rules) :
    (rules = [] → implicitAnswer rules = { code := .dunno, implicit := true }) ∧
    (∀ a n, rules.getLast? = some (a, n) → a.code = .allowed →
      implicitAnswer rules = { code := .denied, implicit := true }) ∧
    (∀ a n, rules.getLast? = some (a, n) → a.code = .denied →
      implicitAnswer rules = { code := .allowed, implicit := true }) := by
  refine ⟨?_, ?_, ?_⟩
  · intro h; subst h; rfl
  · intro a n h hc; simp [implicitAnswer, h, hc]
  · intro a n h hc; simp [implicitAnswer, h, hc]

/-! ### from the configuration text to the decision -/

/-- first match over the configuration lines: a line matches when all its (possibly negated) names are true -/
def cfgFirstMatch (v : Nat → Bool) (gv : List Bool) (banned : Answer → Bool) : List (Answer × List Item) → Option Answer
  | [] => none
  | (a, l) :: rest =>
    if banned a then cfgFirstMatch v gv banned rest
    else if lineAll v gv l then some a
    else cfgFirstMatch v gv banned rest

/-- the opposite of the last configured action -/
def cfgImplicit (rs : List (Answer × List Item)) : Answer :=
  match rs.getLast? with
  | none => { code := .dunno, implicit := true }
  | some (a, _) =>
    if a.code = .denied then { code := .allowed, implicit := true }
    else if a.code = .allowed then { code := .denied, implicit := true }
    else { code := .dunno, implicit := true }

theorem firstMatch_of_rulesMatch (v : Nat → Bool) (gv : List Bool) (banned : Answer → Bool) (tree : Rules)
    (rs : List (Answer × List Item)) (h : RulesMatch v gv tree rs) :
    firstMatch v banned tree = cfgFirstMatch v gv banned rs ∧ implicitAnswer tree = cfgImplicit rs := by
  induction h with
  | nil => exact ⟨rfl, rfl⟩
  | @cons t r ts rs' h1 h2 _ ih =>
    obtain ⟨a, n⟩ := t
    obtain ⟨a', l⟩ := r
    simp only at h1 h2
    subst h1
    refine ⟨by simp only [firstMatch, cfgFirstMatch, h2, ih.1], ?_⟩
    have ih2 := ih.2
    unfold implicitAnswer cfgImplicit at ih2 ⊢
    cases ts with
    | nil => cases ‹RulesMatch v gv [] rs'›; rfl
    | cons t2 ts2 =>
      cases ‹RulesMatch v gv (t2 :: ts2) rs'› with
      | cons _ _ _ =>
        simp only [List.getLast?_cons_cons]
        exact ih2

/-- config_decides_by_first_match: for leaves that only match or mismatch, the tree that the parsers build from
the `acl ... all-of|any-of` directives and the allow/deny lines decides exactly as the configuration text reads:
the action of the first (non-banned, non-skipped) line all of whose possibly negated names are true, where an
all-of name is true when one of its lines is all true and an any-of name when one of its names is true; otherwise
the opposite of the last line's action; DUNNO without lines. -/
theorem config_decides_by_first_match (ctx : Ctx) (hb : BoolLeaves ctx) (nleaves : Nat) (gs : List GroupSpec)
    (hne : ∀ g ∈ gs, g.lines ≠ []) (groups : List Node) (hg : parseGroups nleaves [] gs = some groups)
    (via : Bool) (rs : List (Answer × List Item)) (tree : Rules) (ht : parseRules nleaves groups via rs = some tree) :
    reference ctx tree =
      match cfgFirstMatch ctx.truth (groupVals ctx.truth [] gs) ctx.isBanned (keptRules via rs) with
      | some a => a
      | none => cfgImplicit (keptRules via rs) := by
  have hgs := parseGroups_sem ctx.truth nleaves [] [] ⟨rfl, by simp⟩ gs hne groups hg
  have hm := parseRules_sem ctx.truth nleaves groups _ hgs via rs tree ht
  obtain ⟨h1, h2⟩ := firstMatch_of_rulesMatch ctx.truth _ ctx.isBanned tree _ hm
  rw [reference_is_first_match ctx hb tree, h1, h2]

/-! ### the theorems about the checklist code -/

/-- interleaved_checklists_independent (which contains answer_eq_reference and async_eq_sync): any number of
checklists share one access list (and its `lastMatch_`); `is` is ANY sequence of steps, each starting one checklist
or completing its pending lookup.  Whenever a checklist has answered, its answer is the reference decision for ITS
leaf values and banned actions, and no modelled assertion has failed in it.  The initial value of the shared
`lastMatch_` is arbitrary. -/
theorem interleaved_checklists_independent (rules : Option Rules) (checks : List Check)
    (hok : ∀ c ∈ checks, CheckOk c) (lm : Option Nat) (is : List Nat) (i : Nat) (a : Answer) (s : CL)
    (h : (runSteps rules checks is { initSys checks with lastMatch := lm }).sts[i]? = some (.done a s)) :
    ∃ c, checks[i]? = some c ∧ a = expected rules c ∧ s.fault = none := by
  have hinv0 : SysInv rules checks { initSys checks with lastMatch := lm } :=
    ⟨(initSys_inv rules checks).len, (initSys_inv rules checks).each⟩
  have hinv := runSteps_inv rules checks hok is _ hinv0
  have hlt : i < checks.length := by
    rcases List.getElem?_eq_some_iff.mp h with ⟨hl, _⟩; rw [← hinv.len]; exact hl
  exact ⟨checks[i], List.getElem?_eq_getElem hlt, hinv.each i _ _ (List.getElem?_eq_getElem hlt) h⟩

/-- A suspended checklist never holds a failed assertion either, and it still has a lookup outstanding. -/
theorem suspended_is_sound (rules : Option Rules) (checks : List Check)
    (hok : ∀ c ∈ checks, CheckOk c) (is : List Nat) (i : Nat) (s : CL)
    (h : (runSteps rules checks is (initSys checks)).sts[i]? = some (.paused s)) :
    s.fault = none ∧ s.stage = .running ∧ s.path ≠ [] ∧ PendingOk s := by
  have hinv := runSteps_inv rules checks hok is _ (initSys_inv rules checks)
  have hlt : i < checks.length := by
    rcases List.getElem?_eq_some_iff.mp h with ⟨hl, _⟩; rw [← hinv.len]; exact hl
  obtain ⟨rs, _, hp⟩ := hinv.each i _ _ (List.getElem?_eq_getElem hlt) h
  exact ⟨hp.fault, hp.stage, hp.nonempty, hp.pending⟩

/-- schedule_terminates: the schedule loop of the harness (every entry picks one of the checklists that have not
answered) ends within `fuelFor checks` steps for EVERY schedule, and then every checklist has answered with its
reference decision. -/
theorem schedule_terminates (rules : Option Rules) (checks : List Check) (hok : ∀ c ∈ checks, CheckOk c)
    (sched : List Nat) (i : Nat) (c : Check) (hc : checks[i]? = some c) :
    ∃ s, (runSched rules checks (fuelFor checks) sched (initSys checks)).sts[i]? = some (.done (expected rules c) s) ∧
      s.fault = none := by
  have hinv := runSched_inv rules checks hok (fuelFor checks) sched _ (initSys_inv rules checks)
  have hdone := runSched_done rules checks hok (fuelFor checks) sched _ (initSys_inv rules checks)
    (by have := sysMeasure_init checks; omega)
  have hlt : i < (runSched rules checks (fuelFor checks) sched (initSys checks)).sts.length := by
    rcases List.getElem?_eq_some_iff.mp hc with ⟨hl, _⟩; rw [hinv.len]; exact hl
  have hst := List.getElem?_eq_getElem hlt
  have hd := hdone _ (List.getElem_mem hlt)
  cases hx : (runSched rules checks (fuelFor checks) sched (initSys checks)).sts[i] with
  | idle => rw [hx] at hd; cases hd
  | paused s => rw [hx] at hd; cases hd
  | done a s =>
    rw [hx] at hst
    have := hinv.each i c _ hc hst
    exact ⟨s, by rw [hst, this.1], this.2⟩

/-- async_eq_sync: the decision does not depend on which ACLs need lookups, how many, or whether the lookups
complete later or at once: a check and the same check with every lookup removed end with the same answer, for every
schedule (position 0 = the only checklist of each system). -/
theorem async_eq_sync (rules : Option Rules) (c : Check) (hok : CheckOk c) (sched sched' : List Nat) :
    let sync : Check := { c with rounds := [] }
    ∃ s s', (runSched rules [c] (fuelFor [c]) sched (initSys [c])).sts[0]? = some (.done (expected rules c) s) ∧
      (runSched rules [sync] (fuelFor [sync]) sched' (initSys [sync])).sts[0]? = some (.done (expected rules c) s') := by
  intro sync
  have hoks : CheckOk sync := by
    intro l; simp [sync, roundsOf_nil, okRounds]
  obtain ⟨s, hs, _⟩ := schedule_terminates rules [c] (by simpa using hok) sched 0 c rfl
  obtain ⟨s', hs', _⟩ := schedule_terminates rules [sync] (by simpa using hoks) sched' 0 sync rfl
  exact ⟨s, s', hs, hs'⟩

/-- fast_eq_reference: fastCheck() over leaves that need no lookup gives the reference decision (also covered by
`schedule_terminates`; stated for the entry point itself). -/
theorem fast_eq_reference (ctx : Ctx) (rules : Rules) (lm : Option Nat) (hfast : ctx.asyncCaller = false) :
    ∃ s, (fastCheck ctx (some rules) lm {}).2 = .answered (reference ctx rules) s ∧ s.fault = none :=
  fastCheck_spec ctx rules lm {} hfast rfl rfl rfl (by intro l; simp [roundsOf_nil, okRounds])

/-- The hypothesis `CheckOk` is needed: a leaf that is true but needs 7 lookups that all complete inside goAsync()
is refused its 7th goAsync() call (asyncLoopDepth_ > 5) and counts as a mismatch: `allow L0` answers DENIED. -/
theorem loop_limit_counterexample :
    let c : Check := { kind := .nonBlocking, script := [{ val := .t }], banned := [],
                       rounds := [List.replicate 7 .immediate] }
    let rules : Rules := [({ code := .allowed }, .and [.leaf 0])]
    checkOkB c = false ∧
    expected (some rules) c = { code := .allowed } ∧
    ((runSched (some rules) [c] (fuelFor [c]) [] (initSys [c])).sts.map
      (fun st => match st with | .done a _ => some a | _ => none)) = [some { code := .denied, implicit := true }] := by
  decide

/-- ... and 6 such lookups are fine (boundary). -/
example :
    let c : Check := { kind := .nonBlocking, script := [{ val := .t }], banned := [],
                       rounds := [List.replicate 6 .immediate] }
    let rules : Rules := [({ code := .allowed }, .and [.leaf 0])]
    checkOkB c = true ∧
    ((runSched (some rules) [c] (fuelFor [c]) [] (initSys [c])).sts.map
      (fun st => match st with | .done a _ => some a | _ => none)) = [some { code := .allowed }] := by
  decide

/-! ### non-vacuity -/

/-- `CheckOk` is satisfiable by checks that really suspend: lookups of both kinds, several per leaf. -/
example : CheckOk { kind := .nonBlocking, script := [{ val := .t }, { val := .f }], banned := [],
                    rounds := [[.deferred, .immediate, .deferred], [.immediate, .immediate]] } :=
  checkOk_of_B _ (by decide)

/-- Two checklists with different truth values over one list `deny L0 / allow !L1`, interleaved so that the second
finishes while the first is suspended: each gets its own answer (DENIED by rule 1, ALLOWED by rule 2). -/
example :
    let rules : Rules := [({ code := .denied }, .and [.leaf 0]), ({ code := .allowed }, .and [.not (.leaf 1)])]
    let c0 : Check := { kind := .nonBlocking, script := [{ val := .t }, { val := .t }], banned := [],
                        rounds := [[.deferred, .deferred], []] }
    let c1 : Check := { kind := .nonBlocking, script := [{ val := .f }, { val := .f }], banned := [],
                        rounds := [[.deferred], [.deferred]] }
    ((runSteps (some rules) [c0, c1] [0, 1, 1, 1, 0, 0] (initSys [c0, c1])).sts.map
      (fun st => match st with | .done a _ => some a | _ => none)) = [some { code := .denied }, some { code := .allowed }] ∧
    ((runSteps (some rules) [c0, c1] [0, 1, 1] (initSys [c0, c1])).sts.map Status.isDone) = [false, false] := by
  decide

/-- The reference distinguishes the cases of the property text: first match wins, the implicit rule reverses the
last action, the empty list gives DUNNO, an exception leaf ends the check, a banned action is skipped. -/
example : reference { script := [{ val := .f }, { val := .t }], asyncCaller := true, banned := [] }
    [({ code := .denied }, .and [.leaf 0]), ({ code := .allowed }, .and [.leaf 1]), ({ code := .denied }, .and [])] =
    { code := .allowed } := by decide
example : reference { script := [{ val := .f }], asyncCaller := true, banned := [] }
    [({ code := .denied }, .and [.leaf 0])] = { code := .allowed, implicit := true } := by decide
example : reference { script := [], asyncCaller := true, banned := [] } [] = { code := .dunno, implicit := true } := by
  decide
example : reference { script := [{ val := .stop .authRequired }], asyncCaller := true, banned := [] }
    [({ code := .denied }, .and [.not (.leaf 0)])] = { code := .authRequired } := by decide
example : reference { script := [{ val := .t }], asyncCaller := true, banned := [{ code := .denied }] }
    [({ code := .denied }, .and [.leaf 0]), ({ code := .allowed }, .and [.leaf 0])] = { code := .allowed } := by decide

end SquidModel.C44
