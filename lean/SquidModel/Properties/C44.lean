/-
C44 — Access lists decide by first match, even when checks go asynchronous.  (placeholder while the proofs are written)
-/
import SquidModel.Acl.TreeSys

namespace SquidModel.C44
open SquidModel.Acl.Tree

theorem lastAction_nil : lastAction [] = { code := .dunno } := rfl

end SquidModel.C44
