/-
C01 — Response bodies are relayed byte-exactly with correct framing.

Full statement (property text): for every origin response, whatever its status, headers, body size, framing and however the
origin splits its writes, the client receives exactly the origin's body octets in order inside a correctly framed HTTP/1.1
message; when Squid cannot deliver the whole body the client can tell (the connection closes before the declared length or the
last-chunk); a shortened or altered body is never presented as complete.

What is proved here is about the relay model `SquidModel.Relay.Response` (HttpStateData body intake → store → store client →
handleReply/packChunk → writeComplete; see that file for the function-by-function correspondence), for EVERY history: any
sequence of origin reads of any sizes, EOF or read error at any point, interleaved in any order with client-side store answers of
any sizes, the client starting at any time (a late start on a completed entry is a cache hit). No bound on sizes or lengths.
`P : Params` carries the source constants and the two source variants the translator reads from the tree.

Two parts of the full statement are false of the code as it is (confirmed end to end, see `*_counterexample`), so the
corresponding theorems are `_partial` with the excluded region as an explicit hypothesis:
  * octets that follow the header of a bodyless reply (204/304) are relayed to the client (`P.dropExtras = false`);
  * the Content-Range end test of Http::Stream::socketState() ends chunked / Content-Length replies early and keeps the
    connection open (`crOff` excludes it: no Content-Range in play, or the fixed variant).
The ambiguity of close-delimited replies to HTTP/1.0 clients is inherent (`Cli.msgComplete` for `.close` is "the connection closed").
-/
import SquidModel.Relay.ResponseGrammar
import SquidModel.Properties.C24

namespace SquidModel.C01
open SquidModel SquidModel.Relay.Response SquidModel.Chunked SquidModel.Chunked.Grammar

/-- the body the origin's message defines, as far as the origin has sent it -/
def originBody (P : Params) (s : Srv) : Bytes :=
  if s.te then (decOf P s.input).out
  else match s.fr with
    | .cl n => (payload s).take n
    | .none => if P.dropExtras then [] else payload s
    | _ => payload s

/-- the origin's message is complete by its own framing -/
def originWhole (P : Params) (s : Srv) : Prop :=
  if s.te then (decOf P s.input).verdict = .done
  else match s.fr with
    | .cl n => n ≤ (payload s).length
    | .close => s.eof = true
    | _ => True

/-- an exchange from its start: the reply header was parsed with framing verdict `fr` / decoder flag `te`; the client side is a
GET (`Cli.init`) or a HEAD (`Cli.initHead`) transaction whose framing was derived from the same reply -/
structure Start (x : Sys) : Prop where
  srv : ∃ fr te, x.s = Srv.init fr te
  cli : (∃ fr ka cr, x.c = Cli.init fr ka cr) ∨ (∃ ka, x.c = Cli.initHead ka)
  wf : WF x

theorem good_of_start {P : Params} {x : Sys} (h : Start x) : Good P x := by
  obtain ⟨fr, te, hs⟩ := h.srv
  refine ⟨h.wf, ?_, ?_⟩
  · rw [hs]; exact sinv_init P fr te
  · rcases h.cli with ⟨cfr, ka, cr, hc⟩ | ⟨ka, hc⟩
    · have := cinv_init P x.s cfr ka cr
      rw [← hc] at this; exact this
    · have := cinv_initHead P x.s ka
      rw [← hc] at this; exact this

/-- the framing decisions of the real code produce well-formed starts -/
theorem start_of_headers (P : Params) (isHead : Bool) (status : Nat) (chunkedHdr : Bool) (cl : Option Nat) (http11 persistent : Bool)
    (cr : Option Nat) :
    let fr := originFraming isHead status chunkedHdr cl
    Start ⟨Srv.init fr (serverTe P isHead status chunkedHdr),
           if isHead then Cli.initHead (clientKeepalive persistent http11 fr)
           else Cli.init (clientFraming http11 fr) (clientKeepalive persistent http11 fr) cr⟩ := by
  intro fr
  refine ⟨⟨_, _, rfl⟩, ?_, ?_⟩
  · cases isHead
    · exact Or.inl ⟨_, _, _, rfl⟩
    · exact Or.inr ⟨_, rfl⟩
  · cases isHead
    · refine ⟨?_, ?_, ?_⟩
      · intro n hn
        simp only [Bool.false_eq_true, ↓reduceIte, Cli.init] at hn
        have hfr : fr = .cl n := by
          cases hf : fr <;> simp [clientFraming, hf] at hn
          · cases http11 <;> simp at hn
          · exact congrArg _ hn
          · cases http11 <;> simp at hn
        refine ⟨hfr, ?_⟩
        show serverTe P false status chunkedHdr = false
        have : originFraming false status chunkedHdr cl = .cl n := hfr
        unfold originFraming at this
        cases hc : chunkedHdr
        · simp [serverTe]
        · simp [hc] at this
          split at this <;> simp at this
      · intro hn
        simp only [Bool.false_eq_true, ↓reduceIte, Cli.init] at hn ⊢
        cases hf : fr <;> simp [clientFraming, hf] at hn
        · cases h11 : http11 <;> simp [h11] at hn
          simp [clientKeepalive]
        · cases h11 : http11 <;> simp [h11] at hn
          simp [clientKeepalive]
      · intro hn
        simp [Cli.init] at hn
    · refine ⟨?_, ?_, ?_⟩
      · intro n hn; simp [Cli.initHead] at hn
      · intro hn; simp [Cli.initHead] at hn
      · intro _; simp [Cli.initHead]

/-! ## nothing is altered, inserted or reordered -/

/-- **Prefix.** At every point of every history the body octets handed to the client are exactly the first `offset` octets of the
store, and the store holds a prefix of the body the origin's message defines (for Content-Length: the first n octets of what
followed the header, the rest is dropped; for chunked: what the verified decoder outputs; for close-delimited: everything). -/
theorem body_is_prefix_of_origin_body (P : Params) (x : Sys) (h : Start x) (evs : List Ev) :
    (run P x evs).c.body = (run P x evs).s.stored.take (run P x evs).c.offset ∧
    (run P x evs).s.stored <+: originBody P (run P x evs).s := by
  have g := good_run (good_of_start (P := P) h) evs
  refine ⟨g.cli.body_eq, ?_⟩
  unfold originBody
  cases hte : (run P x evs).s.te
  · simp only [Bool.false_eq_true, ↓reduceIte]
    cases hfr : (run P x evs).s.fr with
    | cl n => simp only; rw [(g.srv.cl_inv n hte hfr).1]; exact List.prefix_refl _
    | close => simp only; rw [g.srv.close_inv hte hfr]; exact List.prefix_refl _
    | none => simp only; rw [g.srv.none_inv hte hfr]; exact List.prefix_refl _
    | chunked =>
      -- a chunked reply always runs through the decoder (te); without it nothing is ever stored
      simp only
      have := body_stored_of_chunked_no_te g.srv hte hfr
      rw [this]; exact List.nil_prefix
  · simp only [↓reduceIte]
    rw [← g.srv.te_dec hte]
    exact g.srv.te_pre hte

/-- the same for the octets the client holds -/
theorem client_body_is_prefix (P : Params) (x : Sys) (h : Start x) (evs : List Ev) :
    (run P x evs).c.body <+: originBody P (run P x evs).s := by
  obtain ⟨h1, h2⟩ := body_is_prefix_of_origin_body P x h evs
  rw [h1]
  exact List.IsPrefix.trans (List.take_prefix _ _) h2

/-! ## a complete client message is the origin's whole message -/

/-- **The last-chunk is written only after the whole reply**: it is sent only when the entry was completed successfully
(the origin's message was whole) and every stored octet has been handed to the client. -/
theorem last_chunk_only_after_whole_reply (P : Params) (x : Sys) (h : Start x) (evs : List Ev)
    (hl : (run P x evs).c.lastChunk = true) :
    (run P x evs).s.fin = some .ok ∧ (run P x evs).s.whole = true ∧ (run P x evs).c.offset = (run P x evs).s.stored.length := by
  have g := good_run (good_of_start (P := P) h) evs
  obtain ⟨h1, h2, _⟩ := g.cli.last_ok hl
  exact ⟨h1, g.srv.fin_ok h1, h2⟩

/-- a reply marked whole is whole by the origin's own framing, and then the store holds exactly the origin's body -/
theorem whole_mark_is_sound (P : Params) (x : Sys) (h : Start x) (evs : List Ev) (hw : (run P x evs).s.whole = true) :
    originWhole P (run P x evs).s ∧ ((run P x evs).s.fr ≠ .chunked ∨ (run P x evs).s.te = true → (run P x evs).s.stored = originBody P (run P x evs).s) := by
  have g := good_run (good_of_start (P := P) h) evs
  unfold originWhole originBody
  cases hte : (run P x evs).s.te
  · simp only [Bool.false_eq_true, ↓reduceIte]
    cases hfr : (run P x evs).s.fr with
    | cl n => exact ⟨g.srv.cl_whole n hte hfr hw, fun _ => (g.srv.cl_inv n hte hfr).1⟩
    | close => exact ⟨g.srv.close_whole hte hfr hw, fun _ => g.srv.close_inv hte hfr⟩
    | none => exact ⟨trivial, fun _ => g.srv.none_inv hte hfr⟩
    | chunked => exact ⟨trivial, fun hc => by simp at hc⟩
  · simp only [↓reduceIte]
    obtain ⟨h1, h2⟩ := g.srv.te_whole hte hw
    rw [← g.srv.te_dec hte]
    exact ⟨h1, fun _ => h2⟩

/-- **Complete ⇒ equal (chunked client framing).** If the client was sent the last-chunk, the origin's message was whole by its
own framing and the body the client holds is exactly the origin's body. -/
theorem complete_implies_equal_chunked (P : Params) (x : Sys) (h : Start x) (evs : List Ev)
    (hwf : (run P x evs).s.fr = .chunked → (run P x evs).s.te = true)
    (hl : (run P x evs).c.lastChunk = true) :
    originWhole P (run P x evs).s ∧ (run P x evs).c.body = originBody P (run P x evs).s := by
  obtain ⟨_, hw, hoff⟩ := last_chunk_only_after_whole_reply P x h evs hl
  obtain ⟨h1, h2⟩ := whole_mark_is_sound P x h evs hw
  refine ⟨h1, ?_⟩
  have hb := (body_is_prefix_of_origin_body P x h evs).1
  rw [hb, hoff, List.take_length]
  apply h2
  by_cases hc : (run P x evs).s.fr = .chunked
  · exact Or.inr (hwf hc)
  · exact Or.inl hc

/-- **Complete ⇒ equal (Content-Length client framing).** If the client holds as many octets as the Content-Length it was given,
the origin sent at least that many and the client's body is exactly the first n of them. -/
theorem complete_implies_equal_cl (P : Params) (x : Sys) (h : Start x) (evs : List Ev) (n : Nat)
    (hfr : (run P x evs).c.fr = .cl n) (hn : (run P x evs).c.offset = n) :
    n ≤ (payload (run P x evs).s).length ∧ (run P x evs).c.body = (payload (run P x evs).s).take n := by
  have g := good_run (good_of_start (P := P) h) evs
  obtain ⟨hsfr, hste⟩ := g.wf.cl_cl n hfr
  obtain ⟨h1, _, _⟩ := g.srv.cl_inv n hste hsfr
  have hoff := g.cli.off_le
  have hb := g.cli.body_eq
  rw [hn] at hoff hb
  rw [h1, List.length_take] at hoff
  refine ⟨by omega, ?_⟩
  show (run P x evs).c.pieces.flatten = _
  rw [hb, h1, List.take_take]
  simp

/-- composed with the C24 exactness theorem: whatever valid chunked encoding `enc` of `body` the origin sends (any chunk sizes, hex
case, extensions, trailers), in whatever segmentation, followed by whatever — if the client gets the last-chunk, it holds exactly `body` -/
theorem chunked_origin_complete_is_exact (P : Params) (hcap : 0 < P.cap) (x : Sys) (h : Start x) (evs : List Ev)
    (hte : (run P x evs).s.te = true) (body enc extra : Bytes) (henc : Encodes P.relaxed body enc)
    (hin : (run P x evs).s.input.flatten = enc ++ extra)
    (hl : (run P x evs).c.lastChunk = true) :
    (run P x evs).c.body = body := by
  obtain ⟨_, hb⟩ := complete_implies_equal_chunked P x h evs (fun _ => hte) hl
  rw [hb]
  unfold originBody
  simp only [hte, ↓reduceIte]
  exact (C24.decode_exact P.relaxed (fun _ => P.cap) (fun _ => hcap) body enc extra henc _ hin).2.1

/-- **A truncated chunked origin message is never presented as complete**: while the origin has sent only a proper prefix of a
valid encoding, the client is never sent the last-chunk, the entry is never completed successfully, and what the client holds is a
prefix of the body. -/
theorem truncated_chunked_never_complete (P : Params) (hcap : 0 < P.cap) (x : Sys) (h : Start x) (evs : List Ev)
    (hte : (run P x evs).s.te = true) (body enc p q : Bytes) (henc : Encodes P.relaxed body enc) (hpq : p ++ q = enc) (hq : q ≠ [])
    (hin : (run P x evs).s.input.flatten = p) :
    (run P x evs).c.lastChunk = false ∧ (run P x evs).s.fin ≠ some .ok ∧ (run P x evs).c.body <+: body := by
  have g := good_run (good_of_start (P := P) h) evs
  obtain ⟨hv, rest, hrest⟩ := C24.truncated_needs_more P.relaxed (fun _ => P.cap) (fun _ => hcap) body enc p q henc hpq hq _ hin
  have hnw : (run P x evs).s.whole = false := by
    cases hw : (run P x evs).s.whole
    · rfl
    · have := (g.srv.te_whole hte hw).1
      rw [g.srv.te_dec hte] at this
      rw [this] at hv; simp at hv
  have hnok : (run P x evs).s.fin ≠ some .ok := by
    intro hf; rw [g.srv.fin_ok hf] at hnw; simp at hnw
  refine ⟨?_, hnok, ?_⟩
  · cases hl : (run P x evs).c.lastChunk
    · rfl
    · exact absurd (g.cli.last_ok hl).1 hnok
  · have hp := client_body_is_prefix P x h evs
    unfold originBody at hp
    simp only [hte, ↓reduceIte] at hp
    exact List.IsPrefix.trans hp ⟨rest, hrest.symm⟩

/-! ## incompleteness is visible -/

/-- **Visible truncation (partial).** Full statement: whenever the exchange ends with the client-side message incomplete, the
connection is closed. Proved for histories in which the Content-Range end test is out of play (`crOff`: the reply has no
Content-Range Squid would consult, or the variant that consults it only for close-delimited replies); see
`content_range_counterexample` for the excluded region. -/
theorem truncation_is_visible_partial (P : Params) (x : Sys) (h : Start x) (evs : List Ev) (hcr : crOff P (run P x evs).c)
    (e : CEnd) (he : (run P x evs).c.ended = some e) (hinc : (run P x evs).c.msgComplete = false) : e = .close := by
  have g := good_run (good_of_start (P := P) h) evs
  cases e with
  | close => rfl
  | keep => rw [g.cli.keep_ok he hcr] at hinc; simp at hinc

/-- the same, positively: a connection that is kept alive carries a complete message -/
theorem keepalive_implies_complete_partial (P : Params) (x : Sys) (h : Start x) (evs : List Ev) (hcr : crOff P (run P x evs).c)
    (he : (run P x evs).c.ended = some .keep) : (run P x evs).c.msgComplete = true :=
  (good_run (good_of_start (P := P) h) evs).cli.keep_ok he hcr

/-- **A whole reply is delivered whole (partial, same exclusion).** When the client side has finished and the entry was completed
successfully, the client's message is complete (and by the theorems above equal to the origin's). -/
theorem whole_reply_is_delivered_partial (P : Params) (x : Sys) (h : Start x) (evs : List Ev) (hcr : crOff P (run P x evs).c)
    (he : (run P x evs).c.ended.isSome = true) (hok : (run P x evs).s.fin = some .ok) :
    (run P x evs).c.msgComplete = true := by
  have g := good_run (good_of_start (P := P) h) evs
  rcases g.cli.ended_ok he hcr with h1 | h1
  · exact h1
  · rw [hok] at h1; simp at h1

/-- an entry is completed successfully exactly when the reply was marked whole, i.e. (by `whole_mark_is_sound`) when the origin's
message was whole by its own framing: premature EOF, a decoding error and a read error all end in ENTRY_BAD_LENGTH -/
theorem completion_status_is_whole_mark (P : Params) (x : Sys) (h : Start x) (evs : List Ev) (v : StoreEnd)
    (hf : (run P x evs).s.fin = some v) : (v = .ok ↔ (run P x evs).s.whole = true) := by
  have g := good_run (good_of_start (P := P) h) evs
  cases v with
  | ok => simp [g.srv.fin_ok hf]
  | badLength => simp [g.srv.fin_bad hf]

/-! ## the client-side framing itself -/

/-- what is on the wire after the header is (by definition of `Cli.wire`) the framing of the delivered buffers: for a chunked reply one
`%X CRLF data CRLF` per store answer followed by `0 CRLF CRLF` iff the last-chunk was sent, otherwise the octets themselves; every
buffer is non-empty and at most HTTP_REQBUF_SZ octets (so no chunk is mistaken for the last-chunk), and only chunked replies get a last-chunk -/
theorem wire_is_framing_of_body (P : Params) (x : Sys) (h : Start x) (evs : List Ev) :
    (run P x evs).c.wire = wireOf (run P x evs).c.fr (run P x evs).c.pieces (run P x evs).c.lastChunk ∧
    (run P x evs).c.body = (run P x evs).c.pieces.flatten ∧
    (∀ p ∈ (run P x evs).c.pieces, p ≠ [] ∧ p.length ≤ max P.reqBuf 1) ∧
    ((run P x evs).c.lastChunk = true → (run P x evs).c.fr = .chunked) := by
  have g := good_run (good_of_start (P := P) h) evs
  exact ⟨rfl, rfl, g.cli.pieces_ok, fun hl => (g.cli.last_ok hl).2.2⟩

/-- **Squid's chunked output is in the grammar**: once the last-chunk was sent, the octets on the wire are a chunked encoding (in the
sense of the C24 grammar, strict BWS) of exactly the body the client was given. -/
theorem chunked_wire_is_in_grammar (P : Params) (hbuf : P.reqBuf < 2 ^ 63) (x : Sys) (h : Start x) (evs : List Ev)
    (hl : (run P x evs).c.lastChunk = true) :
    Encodes false (run P x evs).c.body (run P x evs).c.wire := by
  obtain ⟨hw, _, hp, hfr⟩ := wire_is_framing_of_body P x h evs
  rw [hw, hfr hl, hl]
  exact wireOf_encodes _ (fun p hp' => ⟨(hp p hp').1, by have := (hp p hp').2; omega⟩)

/-- … so the verified decoder (any segmentation, any positive capacities), fed Squid's own output, returns that body and
consumes everything -/
theorem chunked_wire_decodes (P : Params) (hbuf : P.reqBuf < 2 ^ 63) (x : Sys) (h : Start x) (evs : List Ev)
    (hl : (run P x evs).c.lastChunk = true) (capOf : Nat → Nat) (hpos : ∀ i, 0 < capOf i) (segs : List Bytes)
    (hsegs : segs.flatten = (run P x evs).c.wire) :
    (feedAll false capOf segs).verdict = .done ∧ (feedAll false capOf segs).out = (run P x evs).c.body ∧
    (feedAll false capOf segs).inBuf = [] :=
  C24.decode_exact_all_consumed false capOf hpos _ _ (chunked_wire_is_in_grammar P hbuf x h evs hl) segs hsegs

/-! ## bodyless replies -/

/-- **No octets after a bodyless reply (partial).** Full statement: a reply that cannot have a body (HEAD, 204, 304) puts nothing
on the client connection after its header. Proved for HEAD unconditionally, and for 204/304 replies that do not go through the
decoder when either nothing followed the origin's header or the tree drops such octets (`P.dropExtras`). -/
theorem bodyless_reply_has_no_octets_partial (P : Params) (x : Sys) (h : Start x) (evs : List Ev)
    (hfr : (run P x evs).s.fr = .none) (hcfr : (run P x evs).c.fr = .none) (hte : (run P x evs).s.te = false)
    (hex : P.dropExtras = true ∨ payload (run P x evs).s = []) :
    (run P x evs).c.wire = [] := by
  have g := good_run (good_of_start (P := P) h) evs
  have hst : (run P x evs).s.stored = [] := by
    rw [g.srv.none_inv hte hfr]
    rcases hex with h1 | h1
    · simp [h1]
    · simp [h1]
  have hb := g.cli.body_eq
  rw [hst] at hb
  have hpieces : (run P x evs).c.pieces = [] := by
    cases hp : (run P x evs).c.pieces with
    | nil => rfl
    | cons p ps =>
      have hne := (g.cli.pieces_ok p (by rw [hp]; simp)).1
      rw [hp] at hb
      simp at hb
      exact absurd hb.1 hne
  show wireOf _ _ _ = []
  rw [hcfr, hpieces]
  simp [wireOf]

theorem head_reply_has_no_octets (P : Params) (x : Sys) (h : Start x) (evs : List Ev) (hh : (run P x evs).c.headOnly = true) :
    (run P x evs).c.wire = [] := by
  have g := good_run (good_of_start (P := P) h) evs
  obtain ⟨h1, _, h3, _⟩ := g.cli.head_ok hh
  show wireOf _ _ _ = []
  rw [h1, h3, g.wf.head_none hh]
  simp [wireOf]

/-! ## counterexamples (the code as it is; confirmed end to end, corpus/C01/known.txt) -/

/-- the tree's parameters with the two variants as found by the design-time reading: octets after a bodyless reply are stored,
the Content-Range end test applies to every framing -/
def asFound : Params := ⟨true, 2097152000, 4096, false, true⟩

/-- `204 No Content` followed in the same read by `X`: the octet is stored, handed to the client after the 204 header, and the
connection is kept alive — the client will read it as the beginning of the next response. -/
theorem bodyless_trailing_octets_counterexample :
    let x := run asFound ⟨Srv.init .none false, Cli.init .none true none⟩ [.srv (.data [88]), .pull 4096, .pull 4096]
    x.c.wire = [88] ∧ x.c.ended = some .keep ∧ x.c.fr = .none := by decide

/-- a chunked 206 reply whose Content-Range covers 5 octets (as when a Range request was forwarded): after the first 5 body octets
socketState() reports STREAM_COMPLETE; the transaction ends without the last-chunk and the connection is kept alive — the client
can not tell that the message is over. -/
theorem content_range_counterexample :
    let x := run asFound ⟨Srv.init .close false, Cli.init .chunked true (some 5)⟩ [.srv (.data [104, 101, 108, 108, 111]), .pull 4096, .srv .eof, .pull 4096]
    x.c.body = [104, 101, 108, 108, 111] ∧ x.c.lastChunk = false ∧ x.c.ended = some .keep ∧ x.c.msgComplete = false := by decide

/-- with the variants of the candidate fixes neither happens on the same histories -/
example :
    let x := run { asFound with dropExtras := true } ⟨Srv.init .none false, Cli.init .none true none⟩ [.srv (.data [88]), .pull 4096, .pull 4096]
    x.c.wire = [] ∧ x.c.ended = some .keep := by decide
example :
    let x := run { asFound with crFramed := false } ⟨Srv.init .close false, Cli.init .chunked true (some 5)⟩ [.srv (.data [104, 101, 108, 108, 111]), .pull 4096, .srv .eof, .pull 4096]
    x.c.body = [104, 101, 108, 108, 111] ∧ x.c.lastChunk = true ∧ x.c.ended = some .keep ∧ x.c.wire = [53, 13, 10, 104, 101, 108, 108, 111, 13, 10, 48, 13, 10, 13, 10] := by decide

/-! ## non-vacuity -/

/-- Content-Length 3, origin writes `ab`, `cd` (one octet too many), client reads in between: it gets `abc`, complete, keep-alive -/
example :
    let x := run asFound ⟨Srv.init (.cl 3) false, Cli.init (.cl 3) true none⟩ [.srv (.data [97, 98]), .pull 1, .srv (.data [99, 100]), .pull 4096]
    x.c.body = [97, 98, 99] ∧ x.c.msgComplete = true ∧ x.c.ended = some .keep ∧ x.s.truncated = 1 ∧ x.s.fin = some .ok := by decide
/-- Content-Length 3, origin closes after `ab`: the client gets `ab` and the connection is closed -/
example :
    let x := run asFound ⟨Srv.init (.cl 3) false, Cli.init (.cl 3) true none⟩ [.srv (.data [97, 98]), .srv .eof, .pull 4096, .pull 4096]
    x.c.body = [97, 98] ∧ x.c.msgComplete = false ∧ x.c.ended = some .close ∧ x.s.fin = some .badLength ∧ x.s.failed = true := by decide
/-- close-delimited origin, HTTP/1.1 client: chunked with the last-chunk after EOF; read error instead of EOF: no last-chunk, closed -/
example :
    let x := run asFound ⟨Srv.init .close false, Cli.init .chunked true none⟩ [.srv (.data [97, 98]), .pull 4096, .srv .eof, .pull 4096]
    x.c.wire = [50, 13, 10, 97, 98, 13, 10, 48, 13, 10, 13, 10] ∧ x.c.ended = some .keep := by decide
example :
    let x := run asFound ⟨Srv.init .close false, Cli.init .chunked true none⟩ [.srv (.data [97, 98]), .pull 4096, .srv .error, .pull 4096]
    x.c.wire = [50, 13, 10, 97, 98, 13, 10] ∧ x.c.ended = some .close ∧ x.c.lastChunk = false := by decide
/-- a chunked origin reply `2 CRLF ab CRLF 0 CRLF CRLF` split inside the size line, through the decoder model -/
example :
    let x := run asFound ⟨Srv.init .chunked true, Cli.init .chunked true none⟩
      [.srv (.data [50, 13]), .srv (.data [10, 97, 98, 13, 10, 48, 13, 10, 13, 10]), .pull 4096, .pull 4096]
    x.c.body = [97, 98] ∧ x.c.lastChunk = true ∧ x.s.fin = some .ok := by decide
/-- the framing functions: HTTP/1.1 client and unknown length ⇒ chunked, HTTP/1.0 ⇒ close-delimited without keep-alive -/
example : clientFraming true .close = .chunked ∧ clientFraming false .chunked = .close ∧ clientKeepalive true false .close = false ∧
    originFraming false 200 true (some 5) = .chunked ∧ originFraming false 204 false (some 5) = .none ∧ originFraming true 200 false none = .none := by decide
example : packChunk [97] = [49, 13, 10, 97, 13, 10] ∧ hexDigits 4096 = [49, 48, 48, 48] ∧ hexDigits 255 = [70, 70] := by decide

end SquidModel.C01
