/-
C39 — ICP, HTCP and SNMP listeners tolerate arbitrary datagrams.

"No datagram received on an enabled ICP, HTCP or SNMP port makes Squid perform an out-of-bounds access, use freed memory,
abort, or stop serving HTTP."

Property theorems only.  Models: `SquidModel.Udp.Icp` (icpHandleUdp, icpHandleIcpV2/V3, icpGetUrl), `SquidModel.Udp.Htcp`
(htcpHandleMsg, htcpHandleTst*/Clr up to and including htcpUnpackSpecifier/Detail), `SquidModel.Udp.Asn1` + `Snmp`
(asn_parse_*, snmp_msg_Decode, snmp_pdu_decode, snmp_var_DecodeVarBind = everything snmpDecodePacket runs before the
ACL check).  Every model function reports the highest buffer offset it touches; the theorems bound it for *every*
datagram and every content of the memory around it.  Not covered by theorems (harness / end-to-end run only): what the
handlers do after decoding (URL parsing, ACLs, store lookups, replies), heap lifetime (use after free).

The statement is FALSE for SNMP in the tree as found: `snmp_no_oob_counterexample_4095 / _4093`.  What holds:
`snmp_no_oob_partial` (datagrams of at most snmpRequestSize - 4 octets), and the full statement for the tree with
notes/fixes/C39-asn-parse-overread.diff (`snmp_no_oob_fixed`).  `Gen.UdpLimits.asnChecksRoomFirst` says which tree is staged.
-/
import SquidModel.Udp.SnmpLemmas
import SquidModel.Udp.IcpHtcpLemmas

namespace SquidModel.C39
open SquidModel.Udp Gen.UdpLimits

/-! ## SNMP -/

/-- Tree as found, any memory content behind the datagram: the decoder never looks further than 6 octets
(`2 + sizeof(int)`: identifier, count octet, four length octets) beyond the end of the datagram. -/
theorem snmp_reads_at_most_six_beyond (m : Mem) (len : Nat) : (msgDecode false m len).hi ≤ len + 2 + sizeofInt :=
  (msgDecode_spec (hdrOK_general m len)).1

/-- Tree as found, the two octets behind the datagram are zero: at most 4 octets beyond the end
(the long-form length octets announced by the last octet of the datagram). -/
theorem snmp_reads_at_most_four_beyond_zeros (m : Mem) (len : Nat) (z0 : rd m len = 0) (z1 : rd m (len + 1) = 0) :
    (msgDecode false m len).hi ≤ len + sizeofInt :=
  (msgDecode_spec (hdrOK_zero m len z0 z1)).1

/-- Fixed tree: nothing beyond the datagram is touched, whatever the memory holds. -/
theorem snmp_reads_nothing_beyond_fixed (m : Mem) (len : Nat) : (msgDecode true m len).hi ≤ len :=
  (msgDecode_spec (hdrOK_fixed m len)).1

/-- FULL STATEMENT (false for the tree as found, see the counterexamples):
  `∀ dg tail, (msgDecode false (snmpMem dg tail).1 (snmpMem dg tail).2).hi ≤ snmpRequestSize`.
Proved part: datagrams that leave at least four octets of snmpHandleUdp's zeroed buffer unused are decoded without any
access outside the buffer, whatever lies behind the buffer. -/
theorem snmp_no_oob_partial (dg tail : Bytes) (h : dg.length + sizeofInt ≤ snmpRequestSize) :
    (msgDecode false (snmpMem dg tail).1 (snmpMem dg tail).2).hi ≤ snmpRequestSize := by
  have s4 := sizeofInt_eq
  have hN := snmpRequestSize_eq
  have hl := snmpMem_len dg tail
  have hlen : (snmpMem dg tail).2 = dg.length := by rw [hl]; omega
  have z0 := rd_snmpMem_slack dg tail (snmpMem dg tail).2 (Nat.le_refl _) (by omega)
  have z1 := rd_snmpMem_slack dg tail ((snmpMem dg tail).2 + 1) (by omega) (by omega)
  have := snmp_reads_at_most_four_beyond_zeros _ _ z0 z1
  omega

/-- the datagram of the 4095-octet witness: GetRequest, community "public", a variable binding with a 4029-octet string and a
last variable binding that ends after its name -/
def witness4095 : Bytes :=
  [0x30, 0x82, 0x0f, 0xfb, 0x02, 0x01, 0x00, 0x04, 0x06, 0x70, 0x75, 0x62, 0x6c, 0x69, 0x63, 0xa0, 0x82, 0x0f, 0xec, 0x02, 0x01, 0x01,
   0x02, 0x01, 0x00, 0x02, 0x01, 0x00, 0x30, 0x82, 0x0f, 0xdf, 0x30, 0x82, 0x0f, 0xcd, 0x06, 0x0a, 0x2b, 0x06, 0x01, 0x04, 0x01, 0x9b,
   0x27, 0x01, 0x01, 0x00, 0x04, 0x82, 0x0f, 0xbd]
  ++ List.replicate 4029 0x41 ++
  [0x30, 0x0c, 0x06, 0x0a, 0x2b, 0x06, 0x01, 0x04, 0x01, 0x9b, 0x27, 0x01, 0x01, 0x00]

/-- a 4093-octet datagram of the same shape whose last variable binding consists of the two octets `30 84`: the second
announces four length octets -/
def witness4093 : Bytes :=
  [0x30, 0x82, 0x0f, 0xf9, 0x02, 0x01, 0x00, 0x04, 0x06, 0x70, 0x75, 0x62, 0x6c, 0x69, 0x63, 0xa0, 0x82, 0x0f, 0xea, 0x02, 0x01, 0x01,
   0x02, 0x01, 0x00, 0x02, 0x01, 0x00, 0x30, 0x82, 0x0f, 0xdd, 0x30, 0x82, 0x0f, 0xd7, 0x06, 0x0a, 0x2b, 0x06, 0x01, 0x04, 0x01, 0x9b,
   0x27, 0x01, 0x01, 0x00, 0x04, 0x82, 0x0f, 0xc7]
  ++ List.replicate 4039 0x41 ++ [0x30, 0x84]

/-- COUNTEREXAMPLE (tree as found): a 4095-octet datagram makes the decoder read the octet behind snmpHandleUdp's buffer. -/
theorem snmp_no_oob_counterexample_4095 :
    witness4095.length = 4095 ∧
    (msgDecode false (snmpMem witness4095 []).1 (snmpMem witness4095 []).2).hi = snmpRequestSize + 1 := by
  decide +kernel

/-- COUNTEREXAMPLE (tree as found): with a non-zero octet behind the buffer the same datagram makes it read five octets
behind the buffer. -/
theorem snmp_no_oob_counterexample_4095_deep :
    (msgDecode false (snmpMem witness4095 [0x84]).1 (snmpMem witness4095 [0x84]).2).hi = snmpRequestSize + 5 := by
  decide +kernel

/-- COUNTEREXAMPLE (tree as found): 4093 octets suffice (the octets read behind the buffer are length octets). -/
theorem snmp_no_oob_counterexample_4093 :
    witness4093.length = 4093 ∧
    (msgDecode false (snmpMem witness4093 []).1 (snmpMem witness4093 []).2).hi = snmpRequestSize + 1 := by
  decide +kernel

/-- FULL STATEMENT for the fixed tree: no datagram, of any length (recvfrom cuts it to snmpRequestSize - 1), makes the
decoder touch anything outside the datagram, let alone outside the buffer. -/
theorem snmp_no_oob_fixed (dg tail : Bytes) :
    (msgDecode true (snmpMem dg tail).1 (snmpMem dg tail).2).hi ≤ (snmpMem dg tail).2 ∧ (snmpMem dg tail).2 < snmpRequestSize := by
  refine ⟨snmp_reads_nothing_beyond_fixed _ _, ?_⟩
  have hN := snmpRequestSize_eq
  rw [snmpMem_len]
  omega

/-- the staged tree is one of the two variants the theorems speak about -/
theorem snmp_variant_known : asnChecksRoomFirst = 0 ∨ asnChecksRoomFirst = 1 := by decide

/-- Totality: decoding ends, for every datagram, in a decoded message or in one of squid's own failure classes; the
iteration budget of the model's variable-binding loop (`AllVarLen`) is never exhausted (class 98 never occurs). -/
theorem snmp_decode_total (fx : Bool) (m : Mem) (len : Nat) :
    (∃ msg, (msgDecode fx m len).res = .ok msg) ∨ (∃ e d, (msgDecode fx m len).res = .fail e d ∧ d ≤ 8) := by
  have H : HdrOK fx m len (len + 2 + sizeofInt) := by
    cases fx
    · exact hdrOK_general m len
    · have h := hdrOK_fixed m len
      exact ⟨fun p dl hp => Nat.le_trans (h.tl p dl hp) (by omega), fun p dl hp => Nat.le_trans (h.hdr p dl hp) (by omega), by simp; omega⟩
  cases h : (msgDecode fx m len).res with
  | ok msg => exact Or.inl ⟨msg, rfl⟩
  | fail e d => exact Or.inr ⟨e, d, rfl, (msgDecode_spec H).2.1 e d h⟩

/-- Destination buffers: whatever is decoded fits the fixed-size buffers it is decoded into — the community is shorter
than `Community[128]` (room for the terminator `snmp_msg_Decode` appends), every name and every OBJECT IDENTIFIER value has
between 1 and MAX_NAME_LEN sub-identifiers (`Var->name`, `TmpBuf`). -/
theorem snmp_decoded_fits_buffers (fx : Bool) (m : Mem) (len : Nat) (msg : Msg) (h : (msgDecode fx m len).res = .ok msg) :
    msg.community.length < communityBuf ∧
    ∀ v ∈ msg.pdu.vars, 1 ≤ v.name.length ∧ v.name.length ≤ maxNameLen ∧ ∀ o, v.val = .oid o → o.length ≤ maxNameLen := by
  have H : HdrOK fx m len (len + 2 + sizeofInt) := by
    cases fx
    · exact hdrOK_general m len
    · have h := hdrOK_fixed m len
      exact ⟨fun p dl hp => Nat.le_trans (h.tl p dl hp) (by omega), fun p dl hp => Nat.le_trans (h.hdr p dl hp) (by omega), by simp; omega⟩
  exact (msgDecode_spec H).2.2 msg h

/-! ## ICP -/

/-- Every read of icpHandleUdp / icpHandleIcpV2 / icpHandleIcpV3 / icpGetUrl stays inside the datagram, the only store is
the terminator right behind it, and that octet belongs to the buffer (recvfrom was given one octet less): no access
outside the receive buffer, for every datagram and every stale buffer content. -/
theorem icp_no_oob (dg stale : Bytes) :
    let r := Icp.handle (Icp.icpMem dg stale).1 (Icp.icpMem dg stale).2
    r.rdHi ≤ (Icp.icpMem dg stale).2 ∧ r.wrHi ≤ (Icp.icpMem dg stale).2 + 1 ∧ (Icp.icpMem dg stale).2 + 1 ≤ icpBufSize := by
  intro r
  have b := Icp.handle_bounds (Icp.icpMem dg stale).1 (Icp.icpMem dg stale).2
  have l := Icp.icpMem_len dg stale
  exact ⟨b.1, b.2.1, by omega⟩

/-- The buffer is changed by nothing but that terminator. -/
theorem icp_writes_only_terminator (m : Mem) (len : Nat) :
    (Icp.handle m len).mem = m ∨ (Icp.handle m len).mem = m.set len 0 :=
  (Icp.handle_bounds m len).2.2

/-- A URL handed on (to icpGetRequest or neighborsUdpAck) is exactly the rest of the datagram behind the header (and the
requester address of a query) up to its last octet, which is NUL, and contains no NUL itself: the C string the callee
walks ends inside the datagram. -/
theorem icp_url_is_the_payload (m : Mem) (len : Nat) (u : Bytes)
    (h : (Icp.handle m len).outcome = .query u ∨ (Icp.handle m len).outcome = .reply u) :
    ∃ off, (off = icpHeaderSize ∨ off = icpHeaderSize + 4) ∧ off + u.length + 1 = len ∧
      ∀ k, k < u.length → rd (m.set len 0) (off + k) ≠ 0 :=
  Icp.handle_url h

/-- The reply built for such a URL — even with every octet escaped to three by rfc1738_escape — has a length that fits
the 16-bit length field `CreateMessage` stores it in. -/
theorem icp_reply_length_fits (m : Mem) (len : Nat) (u : Bytes) (hl : len < icpBufSize)
    (h : (Icp.handle m len).outcome = .query u ∨ (Icp.handle m len).outcome = .reply u) :
    Icp.replyLength true (3 * u.length) < 65536 := by
  obtain ⟨off, ho, hlen, _⟩ := Icp.handle_url h
  have : icpBufSize = 16384 := by decide
  have : icpHeaderSize = 20 := by decide
  unfold Icp.replyLength
  simp only [↓reduceIte]
  omega

/-! ## HTCP -/

/-- Every read of htcpHandleMsg, the TST/CLR handlers and htcpUnpackSpecifier / htcpUnpackDetail stays inside the
datagram; stores reach at most the octet right behind it, which belongs to the buffer: no access outside the receive
buffer, for every datagram, every stale buffer content and either state of the query table. -/
theorem htcp_no_oob (dg stale : Bytes) (matchQuery : Bool) :
    let s := (Htcp.handleMsg (Htcp.htcpMem dg stale).1 (Htcp.htcpMem dg stale).2 matchQuery).1
    s.rdHi ≤ (Htcp.htcpMem dg stale).2 ∧ s.wrHi ≤ (Htcp.htcpMem dg stale).2 + 1 ∧ (Htcp.htcpMem dg stale).2 + 1 ≤ htcpBufSize := by
  intro s
  have b := (Htcp.handleMsg_spec (Htcp.htcpMem dg stale).1 (Htcp.htcpMem dg stale).2 matchQuery).1
  have l := Htcp.htcpMem_len dg stale
  exact ⟨b.rd, b.wr, by omega⟩

/-- The in-place unpacking only ever writes zeros (string terminators): every octet of the buffer afterwards is what it
was or zero, and the buffer keeps its size. -/
theorem htcp_writes_only_terminators (m : Mem) (len : Nat) (matchQuery : Bool) :
    (Htcp.handleMsg m len matchQuery).1.mem.length = m.length ∧
    ∀ i, (Htcp.handleMsg m len matchQuery).1.mem.getD i 0 = m.getD i 0 ∨ (Htcp.handleMsg m len matchQuery).1.mem.getD i 0 = 0 :=
  (Htcp.handleMsg_spec m len matchQuery).2

/-! ## the models are not vacuous -/

/-- GetRequest for 1.3.6.1.4.1.3495.1.1.1.0, community "public", request-id 0x1234567 -/
def sampleGet : Bytes :=
  [0x30, 0x2b, 0x02, 0x01, 0x00, 0x04, 0x06, 0x70, 0x75, 0x62, 0x6c, 0x69, 0x63, 0xa0, 0x1e, 0x02, 0x04, 0x01, 0x23, 0x45, 0x67,
   0x02, 0x01, 0x00, 0x02, 0x01, 0x00, 0x30, 0x10, 0x30, 0x0e, 0x06, 0x0a, 0x2b, 0x06, 0x01, 0x04, 0x01, 0x9b, 0x27, 0x01, 0x01, 0x00, 0x05, 0x00]

example : (msgDecode false sampleGet sampleGet.length).hi = sampleGet.length := by decide +kernel
example : (msgDecode false sampleGet sampleGet.length).val?.map (fun msg => msg.pdu.reqid) = some 19088743 := by decide +kernel
example : (msgDecode false sampleGet sampleGet.length).val?.map (fun msg => msg.community) = some [0x70, 0x75, 0x62, 0x6c, 0x69, 0x63] := by
  decide +kernel
example : (msgDecode false sampleGet sampleGet.length).val?.map (fun msg => msg.pdu.vars.map (·.name)) = some [[1, 3, 6, 1, 4, 1, 3495, 1, 1, 0]] := by
  decide +kernel
example : (msgDecode false sampleGet sampleGet.length).val?.map (fun msg => (msg.pdu.command, msg.pdu.vars.map (·.type))) = some (0xa0, [5]) := by
  decide +kernel
-- the same datagram cut after the name of the binding: decoding fails and looks two octets beyond the datagram (zeros there)
example : (msgDecode false (sampleGet.take 43 |>.set 1 0x29 |>.set 14 0x1c |>.set 28 0x0e |>.set 30 0x0c) 43).hi = 45 := by decide +kernel
-- ... and with the fix it stays inside
example : (msgDecode true (sampleGet.take 43 |>.set 1 0x29 |>.set 14 0x1c |>.set 28 0x0e |>.set 30 0x0c) 43).hi ≤ 43 := by decide +kernel
-- a too long OBJECT IDENTIFIER is cut at MAX_NAME_LEN sub-identifiers, not rejected
example : (parseObjid false ([6, 100] ++ List.replicate 100 1) 0 102 maxNameLen).val?.map (fun r => r.1.length) = some 64 := by
  decide +kernel

/-- ICP_QUERY (v2) for "http://a/" -/
def sampleIcp : Bytes :=
  [1, 2, 0, 34, 0, 0, 0, 7, 0, 0, 0, 0, 0, 0, 0, 0, 0, 0, 0, 0, 0, 0, 0, 0, 0x68, 0x74, 0x74, 0x70, 0x3a, 0x2f, 0x2f, 0x61, 0x2f, 0]

example : (Icp.handle (Icp.icpMem sampleIcp []).1 34).outcome = .query [0x68, 0x74, 0x74, 0x70, 0x3a, 0x2f, 0x2f, 0x61, 0x2f] := by decide +kernel
example : (Icp.handle (Icp.icpMem (sampleIcp.set 33 0x41) []).1 34).outcome = .queryBadUrl .unterminated := by decide +kernel
example : (Icp.handle (Icp.icpMem (sampleIcp.set 28 0) []).1 34).outcome = .queryBadUrl .embedded := by decide +kernel
example : (Icp.handle (Icp.icpMem (sampleIcp.set 1 9) []).1 34).outcome = .ignoreVersion := by decide +kernel

/-- HTCP TST request (minor 1, F1 set): GET http://a/ 1.1, no headers, no AUTH -/
def sampleHtcp : Bytes :=
  [0, 35, 0, 1, 0, 31, 16, 2, 0, 0, 0, 5, 0, 3, 71, 69, 84, 0, 9, 104, 116, 116, 112, 58, 47, 47, 97, 47, 0, 3, 49, 46, 49, 0, 0]

-- the last terminator lands on the octet behind the datagram (stale 0xff there), the others on the high octets of length fields
example : (Htcp.handleMsg (Htcp.htcpMem sampleHtcp [0xff]).1 35 false).1.wrHi = 36 := by decide +kernel
example : Htcp.changed (Htcp.htcpMem sampleHtcp [0xff]).1 (Htcp.handleMsg (Htcp.htcpMem sampleHtcp [0xff]).1 35 false).1.mem 0 = [35] := by
  decide +kernel
example : (Htcp.handleMsg (Htcp.htcpMem sampleHtcp [0xff]).1 35 false).1.toks.reverse
    = ["dlen=31", "op=1", "resp=0", "f1=1", "rr=0", "id=5", "left=0"] := by decide +kernel

end SquidModel.C39
