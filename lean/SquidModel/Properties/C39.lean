/-
C39 — ICP, HTCP and SNMP listeners tolerate arbitrary datagrams (under construction: first theorem only).
-/
import SquidModel.Udp.Snmp
import SquidModel.Udp.Icp
import SquidModel.Udp.Htcp

namespace SquidModel.C39
open SquidModel.Udp

/-- `asn_parse_length` never looks further than the count octet and the `sizeof(int)` octets behind it. -/
theorem parseLength_hi_le (fx : Bool) (m : Mem) (p room : Nat) :
    (parseLength fx m p room).hi ≤ p + 1 + Gen.UdpLimits.sizeofInt := by
  unfold parseLength
  split
  · simp [T.fail]
  · simp only []
    split
    · split
      · simp [T.fail]
      · split
        · simp [T.fail]
        · split
          · simp [T.fail]
          · simp [T.ok]
    · simp [T.ok]

end SquidModel.C39
