/-
C45 — http_access decisions are enforced end to end (decision logic; partial: the behaviour of the binary is tied to
this model by scenario correspondence, see props/C45.py; socket I/O, DNS timing and the forwarding path after the
decision are not modelled).

Statement: for any http_access configuration built from src, dst, dstdomain, port and method ACLs and any request, Squid
forwards the request exactly when the reference first-match evaluation allows it; denied requests never reach the
origin and receive an access-denied error.

The model: `parseConf` (squid.conf text → named ACLs + rule list, as cache_cf.cc / Acl.cc / Gadgets.cc / InnerNode.cc and
the five ACL types' parse() build them, built-in ACLs and defaults_if_none() included), `allowed` (Tree/AndNode/NotNode
evaluation + calcImplicitAnswer over the five match() functions), `observe` (clientAccessCheckDone: 403 or forward).
The reference: `RefAllows` — first applicable rule wins, else the reverse of the last action — over `AclHolds`, which
speaks about sets only (address intervals, C41's `Domain.Matches`, C43's `Range.has`, method equality).
-/
import SquidModel.Acl.HttpLemmas
import SquidModel.Acl.HttpText
import SquidModel.Acl.HttpAsync

namespace SquidModel.C45
open SquidModel SquidModel.Acl SquidModel.Acl.Http

/-- **forward_iff_reference_allows.**  For every configuration text the parser accepts (any lines: definitions appended
to, negations, rules that are skipped, built-in ACLs, comments) and every request (any client address, method, host,
port, any DNS outcome): the request is not refused exactly when the reference first-match evaluation allows it. -/
theorem forward_iff_reference_allows (lines : List Bytes) (c : Conf) (h : parseConf lines = .ok c) (r : Req) :
    observe c r ≠ .deny ↔ RefAllows c r := by
  rw [← allowed_iff_ref c (parseConf_wf lines c h) r]
  unfold observe
  cases allowed c r <;> simp
  split <;> simp

/-- **denied_never_reaches_origin.**  A request the reference evaluation does not allow is answered with the
access-denied error and is not forwarded; a forwarded request was allowed and its host has an address. -/
theorem denied_never_reaches_origin (lines : List Bytes) (c : Conf) (h : parseConf lines = .ok c) (r : Req) :
    (¬ RefAllows c r → observe c r = .deny) ∧ (observe c r = .fwd → RefAllows c r ∧ r.ips ≠ []) := by
  have hiff := forward_iff_reference_allows lines c h r
  constructor
  · intro hn
    by_cases hd : observe c r = .deny
    · exact hd
    · exact absurd (hiff.mp hd) hn
  · intro hf
    refine ⟨hiff.mp (by rw [hf]; simp), ?_⟩
    unfold observe at hf
    split at hf
    · split at hf
      · cases hf
      · rename_i hne; intro h0; apply hne; simp [h0]
    · cases hf

/-- The observation of a whole scenario is the per-request decision under the one parsed configuration. -/
theorem scenario_is_per_request_decision (lines : List Bytes) (reqs : List Req) (obs : List Obs)
    (h : scenario lines reqs = .run obs) : ∃ c, parseConf lines = .ok c ∧ obs = reqs.map (observe c) := by
  unfold scenario at h
  split at h
  · rename_i c hc; injection h with h; exact ⟨c, hc, h.symm⟩
  · cases h
  · cases h

/-- Every ACL name a rule of an accepted configuration mentions is defined, and every stored value is well-formed
(masked addresses, ascending ranges, non-empty domain values): the evaluation never meets an undefined name. -/
theorem accepted_configuration_is_closed (lines : List Bytes) (c : Conf) (h : parseConf lines = .ok c) :
    ∀ rule ∈ c.rules, ∀ l ∈ rule.lits, ∃ a, findAcl c.acls l.2 = some a ∧ a.WF := by
  intro rule hr l hl
  have hw := parseConf_wf lines c h
  have := hw.2 rule hr l hl
  cases hf : findAcl c.acls l.2 with
  | none => rw [hf] at this; cases this
  | some a => exact ⟨a, rfl, hw.1 a (findAcl_mem hf).1⟩

/-- An http_access line that names an undefined ACL makes squid refuse the configuration (no silent skip):
whatever precedes it in the rule, whatever the action. -/
theorem undefined_acl_is_refused (c : Conf) (act : Bytes) (pre : List Bytes) (name : Bytes) (post : List Bytes)
    (hact : act = bytes! "allow" ∨ act = bytes! "deny")
    (hdef : ∀ t ∈ pre, ∃ a, findAcl c.acls (litOf t).2 = some a ∧ a.type ≠ .other)
    (hundef : findAcl c.acls (litOf name).2 = none) :
    parseAccessLine c (act :: (pre ++ name :: post)) = .reject .aclNotFound := by
  have key : ∀ pre : List Bytes,
      (∀ t ∈ pre, ∃ a, findAcl c.acls (litOf t).2 = some a ∧ a.type ≠ .other) →
      lineParse c.acls (pre ++ name :: post) = .reject .aclNotFound := by
    intro pre
    induction pre with
    | nil =>
      intro _
      simp only [List.nil_append]
      unfold lineParse
      simp only [hundef]
    | cons t ts ih =>
      intro hd
      obtain ⟨a, hfa, hty⟩ := hd t (by simp)
      have ihr := ih (fun t' ht' => hd t' (by simp [ht']))
      simp only [List.cons_append]
      unfold lineParse
      simp only [hfa, hty, ↓reduceIte, ihr]
  unfold parseAccessLine
  have hne : ¬ (act ≠ bytes! "allow" ∧ act ≠ bytes! "deny") := by
    rcases hact with h | h <;> simp [h]
  simp only [hne, ↓reduceIte, key pre hdef]

/-- A section in which no http_access line yields a rule (none written, or all of them skipped for a bad action word or
an empty ACL list) denies every request: defaults_if_none() adds `http_access deny all`, and nothing a configuration can
say about the built-in `all` stops it from matching. -/
theorem no_usable_rule_denies_everything (lines : List Bytes) (c1 c : Conf) (h1 : parseLines builtins lines = .ok c1)
    (hnone : c1.rules = []) (h : parseConf lines = .ok c) (r : Req) : observe c r = .deny :=
  no_rule_denies_all lines c1 c h1 hnone h r

/-- The `dst` verdict does not depend on whether the ipcache already had the answer: a cached answer is used at once;
otherwise `goAsync()` pauses the checklist, the lookup sets `destinationIpLookedUp`, `match()` runs again and sees the
answer (or, after a failed lookup, answers "mismatch").  Both ways the verdict is the decision model's `dstIpMatch`. -/
theorem dst_verdict_independent_of_cache (a : Acl) (r : Req) (cached : Option (List Nat)) (hn : a.noLookup = false)
    (h : CacheAgrees cached r.ips) : dstVerdict a cached r.ips = dstIpMatch a r :=
  (dstIpMatch_is_async_verdict a r cached hn h).symm

/-- The same for the reverse lookup of `dstdomain` on a numeric host: the PTR name, or the word `none`. -/
theorem dstdomain_verdict_independent_of_cache (a : Acl) (cached answer : Option Bytes)
    (h : ∀ n, cached = some n → answer = some n) :
    dstDomainVerdict a cached answer =
      (match answer with
       | some name => domainsMatch a.domains name
       | none => domainsMatch a.domains (bytes! "none")) :=
  dstdomain_async_same_verdict a cached answer h

/-- **Text level: method names.**  Every registered method name, written as squid prints it, is read as that method in an
`acl ... method` line and in a request line, so `acl m method NAME` matches exactly the requests whose method is NAME. -/
theorem registered_method_names_are_themselves (i : Nat) (h1 : 1 ≤ i) (h2 : i < methodOther) :
    parseMethod (imageOf i) = { id := i } ∧ requestMethod (imageOf i) = { id := i } :=
  registered_methods_parse i h1 h2

/-- A method value that is not a (case-insensitive) prefix of any registered method name is an extension method with that
very name — the region outside the prefix finding. -/
theorem extension_method_is_itself (tok : Bytes)
    (h : ∀ j, 1 ≤ j → j ≤ methodOther → imageCaseCmpToken (imageOf j) tok = false) :
    parseMethod tok = { id := methodOther, image := tok } :=
  extension_method_parse tok h

/-- **Text level: a configuration line.**  A line written as words (non-empty, free of white space, not starting with `#`)
separated by single spaces is read back by the tokenizer as exactly these words. -/
theorem config_line_words (ws : List Bytes) (h : ∀ t ∈ ws, Word t) : tokens (joinSp ws) = ws :=
  tokens_joinSp ws h

/-- **Text level: `A`.**  For every dotted-quad text `q` of an address `a` (any canonical decimal octets): the src/dst
value `q` is accepted and covers exactly the address `a`. -/
theorem ip_text_single (q : Bytes) (a : Nat) (hq : IsQuadText q a) (ha : a ≠ 4294967295) :
    ∃ item, parseIpToken Gen.HttpAccessCfg.v6Literals q = .item item ∧ ∀ ip, item.Covers ip ↔ ip = a :=
  ip_value_single q a hq ha

/-- **Text level: `A/len`.**  The value `q/len` (1 ≤ len ≤ 32, `A` need not be aligned) is accepted and covers exactly
the block of `2^(32-len)` addresses that contains `A`. -/
theorem ip_text_cidr (q l : Bytes) (a len : Nat) (hq : IsQuadText q a) (hl : canonDec? l = some len)
    (h1 : 1 ≤ len) (h32 : len ≤ 32) (ha : a ≠ 4294967295) :
    ∃ item, parseIpToken Gen.HttpAccessCfg.v6Literals (q ++ 47 :: l) = .item item ∧
      ∀ ip, item.Covers ip ↔ clearLow (32 - len) a ≤ ip ∧ ip < clearLow (32 - len) a + 2 ^ (32 - len) :=
  ip_value_cidr q l a len hq hl h1 h32 ha

/-- **Text level: `A-B`.**  The value `q1-q2` with `0 < A ≤ B < 255.255.255.255` is accepted and covers exactly the
addresses from `A` to `B`. -/
theorem ip_text_range (q1 q2 : Bytes) (a b : Nat) (hq1 : IsQuadText q1 a) (hq2 : IsQuadText q2 b)
    (ha : 0 < a) (hab : a ≤ b) (hb : b < 4294967295) :
    ∃ item, parseIpToken Gen.HttpAccessCfg.v6Literals (q1 ++ 45 :: q2) = .item item ∧ ∀ ip, item.Covers ip ↔ a ≤ ip ∧ ip ≤ b :=
  ip_value_range q1 q2 a b hq1 hq2 ha hab hb

/-- The prefix quirk of `HttpRequestMethodXXX(char const *)` (SBuf::caseCmp with the token's length): the ACL value
`PO` is read as POST, so `acl m method PO` matches POST requests and does not match a request whose method is `PO`
(stated for a tree whose HttpRequestMethodXXX does not compare lengths; the flag is read from the staged source). -/
theorem method_prefix_counterexample : Gen.HttpAccessCfg.methodTokenExact = false →
    parseMethod (bytes! "PO") = requestMethod (bytes! "POST") ∧
    (parseMethod (bytes! "PO")).same (requestMethod (bytes! "PO")) = false := by
  decide

-- non-vacuity: a concrete section and requests (client 127.45.10.1 = 2133658113, 127.45.11.1 = 2133658369;
-- a.example.com resolves to 127.45.0.1 = 2133655553)
example :
    scenario [bytes! "acl n1 src 127.45.10.0/24", bytes! "acl d1 dstdomain .example.com",
              bytes! "http_access allow n1 d1", bytes! "http_access deny all"]
      [mkReq 2133658113 (bytes! "GET") (bytes! "a.example.com") (some 8080) [2133655553] none,
       mkReq 2133658369 (bytes! "GET") (bytes! "a.example.com") (some 8080) [2133655553] none,
       mkReq 2133658113 (bytes! "GET") (bytes! "other.test") none [2133656073] none]
      = .run [.fwd, .deny, .deny] := by decide +kernel

-- no http_access line at all: defaults_if_none() adds `deny all`
example : scenario [] [mkReq 2133658113 (bytes! "GET") (bytes! "a.example.com") none [2133655553] none] = .run [.deny] := by
  decide +kernel

-- the implicit answer reverses the last rule; an allowed request for a host without an address is a DNS failure
example :
    scenario [bytes! "acl p port 8080", bytes! "http_access deny p"]
      [mkReq 2133658113 (bytes! "GET") (bytes! "a.example.com") (some 8080) [2133655553] none,
       mkReq 2133658113 (bytes! "GET") (bytes! "a.example.com") none [2133655553] none,
       mkReq 2133658113 (bytes! "GET") (bytes! "nx.example.net") none [] none]
      = .run [.deny, .fwd, .dnsfail] := by decide +kernel

-- the text 127.45.10.0 is a quad text of 2133658112, so the text theorems apply to it
example : IsQuadText (bytes! "127.45.10.0") 2133658112 :=
  ⟨bytes! "127", bytes! "45", bytes! "10", bytes! "0", 127, 45, 10, 0, by decide, by decide, by decide, by decide, by decide,
    by decide, by decide, by decide, by decide, by decide⟩
example : Word (bytes! "http_access") := by unfold Word; decide

-- refused configurations
example : (match scenario [bytes! "http_access allow nosuch"] [] with | .reject .aclNotFound => true | _ => false) = true := by
  decide +kernel
example : (match scenario [bytes! "acl x src 127.45.10.1", bytes! "acl x dst 127.45.0.1"] [] with
    | .reject .aclTypeMismatch => true | _ => false) = true := by decide +kernel

-- the hypotheses of the theorems are satisfiable: this section parses
example : ∃ c, parseConf [bytes! "acl n1 src 127.45.10.0/24", bytes! "http_access allow !n1 CONNECT"] = .ok c := by
  have h : (parseConf [bytes! "acl n1 src 127.45.10.0/24", bytes! "http_access allow !n1 CONNECT"]).isOk = true := by
    decide +kernel
  cases hc : parseConf [bytes! "acl n1 src 127.45.10.0/24", bytes! "http_access allow !n1 CONNECT"] with
  | ok c => exact ⟨c, rfl⟩
  | reject r => rw [hc] at h; cases h
  | unmodelled => rw [hc] at h; cases h

end SquidModel.C45
