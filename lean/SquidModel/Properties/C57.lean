/-
C57  Rock rebuild indexes only intact entries from any disk image.

Statement (fixed): "For any rock database contents, including arbitrary, corrupted, duplicated, or partially written
slots, rebuilding the index terminates without crashing.  Every entry it makes readable has a complete, acyclic slot
chain that no other entry uses, whose payload sizes add up to the entry size."

The model (`SquidModel.Rock.rebuild`) follows src/fs/rock/RockRebuild.cc function by function; an image is ANY list of
raw slots (any header fields, any metadata parser results), of any length; all eight combinations of the three
source-shape flags (`Variant`) are covered, the staged tree's own shape is `currentVariant`.

Proved for every image and every variant (`hk : 0 < entryLimitAbsolute` is the compile-time fact SwapFilenMax+1 > 0,
`current_consts_ok`):
* `rebuild_terminates`            the three link-following loops never exhaust their fuel (= number of slots + 1);
* `rebuild_crash_classes`         if the rebuild dies, it dies in one of exactly four ways, each of which has a witness
                                  below: the two all-ones size assertions, a slot pushed on the free stack twice, an
                                  unprocessed slot under squid -S.  Every other assert / uncaught Must the rebuild can
                                  reach (13 sites in RockRebuild.cc, StoreMap.cc, PageStack.cc) is unreachable;
* `no_stolen_slot_crash_partial`  EXCLUDED REGION as hypothesis `Own`: then neither the double push nor the -S crash;
* `no_all_ones_crash_fixed`       the variant that refuses all-ones sizes never trips the two size assertions;
* `repaired_rebuild_never_crashes`, `repaired_source_satisfies_property`
                                  with the three candidate repairs (notes/fixes/C57-*.diff) the statement holds at full
                                  strength for every image: the rebuild completes, every readable entry is intact;
* `readable_entries_intact`       every readable entry has a non-empty, duplicate-free (acyclic) slice chain inside
                                  the db that ends with -1, and its sizes add up to swap_file_sz -- or to less, which
                                  only the variant without the size check in finalizeOrThrow permits;
* `readable_chains_disjoint`      no slot is in the chains of two readable entries;
* `readable_size_exact`           with the size check (`finalizeChecksKnownSize`) the sum always equals swap_file_sz;
* `readable_chain_matches_disk`   every slice of a readable chain carries the payload size and link of the db cell at
                                  that position (a usable, sane, non-empty cell);
* `readable_chain_own_slots_partial`  EXCLUDED REGION as hypothesis `Own`: when finalizeOrThrow checks slot owners
                                  (`finalizeChecksOwner`) or no nextSlot of the image leaves its entry position
                                  (`LinksClosed`), every slot of a readable chain is a cell of that very entry, was not
                                  freed and is not on the free-slot stack; `readable_chain_own_slots_fixed` is the
                                  unconditional form for the owner-checking variant.
The full statement is false of the pinned source; the counterexample theorems below exhibit the witnesses
(all replayed on the real code, see corpus/C57):
* `short_entry_counterexample`    sizes add up to 1, swap_file_sz is 2 (readable_size_exact fails without the check);
* `stolen_slot_counterexample`    a readable chain contains a slot of another entry that is on the free-slot stack;
* `all_ones_entry_size_crash`, `all_ones_swap_file_sz_crash`, `double_free_crash`, `unprocessed_slot_crash`
                                  images on which the rebuild dies on an assertion / uncaught exception.
-/
import SquidModel.Rock.Final
import SquidModel.Rock.Config

namespace SquidModel.C57
open SquidModel.Rock

/-- the constants of the staged build satisfy the side condition of the theorems -/
theorem current_consts_ok : 0 < currentConsts.entryLimitAbsolute := by decide

/-- rebuilding terminates: no loop of the model runs out of its fuel, whatever the image and the variant -/
theorem rebuild_terminates (cfg : Cfg) (hk : 0 < cfg.k.entryLimitAbsolute) (img : List RawSlot) :
    rebuild cfg img ≠ .error .outOfFuel :=
  (rebuild_sat (A := Allow.all) cfg hk img (Or.inl rfl) (Or.inl rfl) (Or.inl rfl)).ne_fuel

/-- full statement (false of the pinned source): "rebuilding never crashes".  What holds for every image and variant:
    a crash is one of the four classes exhibited by the counterexample theorems below; all other assertions and
    uncaught exceptions of the modelled code are unreachable. -/
theorem rebuild_crash_classes (cfg : Cfg) (hk : 0 < cfg.k.entryLimitAbsolute) (img : List RawSlot) (e : Crash)
    (h : rebuild cfg img = .error e) :
    e = .entrySizeAllOnes ∨ e = .sfsAllOnes ∨ e = .pushedTwice ∨ e = .unprocessedSlot := by
  have ha := (rebuild_sat (A := Allow.all) cfg hk img (Or.inl rfl) (Or.inl rfl) (Or.inl rfl)).of_error h
  cases e <;> simp [allowed, Allow.all] at ha ⊢

/-- full statement of the crash part for the stolen slot (false of the pinned source: `double_free_crash`,
    `unprocessed_slot_crash`): under `Own` no slot is pushed on the free-slot stack twice and, with squid -S, no slot is
    left unprocessed -/
theorem no_stolen_slot_crash_partial (cfg : Cfg) (hk : 0 < cfg.k.entryLimitAbsolute) (img : List RawSlot) (ho : Own cfg img) :
    rebuild cfg img ≠ .error .pushedTwice ∧ rebuild cfg img ≠ .error .unprocessedSlot := by
  have hs := rebuild_sat (A := { allOnes := true, pushed := false, unprocessed := false }) cfg hk img (Or.inr ho)
    (Or.inl rfl) (Or.inr (Or.inr ho))
  constructor <;> intro h <;> have ha := hs.of_error h <;> simp [allowed] at ha

/-- the variant that refuses all-ones sizes never trips the two size assertions -/
theorem no_all_ones_crash_fixed (cfg : Cfg) (hk : 0 < cfg.k.entryLimitAbsolute) (hv : cfg.v.rejectsAllOnesSizes = true)
    (img : List RawSlot) : rebuild cfg img ≠ .error .entrySizeAllOnes ∧ rebuild cfg img ≠ .error .sfsAllOnes := by
  have hs := rebuild_sat (A := { allOnes := false, pushed := true, unprocessed := true }) cfg hk img (Or.inl rfl)
    (Or.inr hv) (Or.inl rfl)
  constructor <;> intro h <;> have ha := hs.of_error h <;> simp [allowed] at ha

/-- FULL STRENGTH for the repaired source: with the three candidate repairs (notes/fixes/C57-*.diff) the rebuild
    survives every db image, with or without squid -S -/
theorem repaired_rebuild_never_crashes (cfg : Cfg) (hk : 0 < cfg.k.entryLimitAbsolute) (hv : cfg.v = fixedVariant)
    (img : List RawSlot) : ∃ st, rebuild cfg img = .ok st := by
  have ho : Own cfg img := Or.inl (by rw [hv]; rfl)
  have h := rebuild_sat (A := { allOnes := false, pushed := false, unprocessed := false }) cfg hk img
    (Or.inr ho) (Or.inr (by rw [hv]; rfl)) (Or.inr (Or.inr ho))
  cases hr : rebuild cfg img with
  | ok st => exact ⟨st, rfl⟩
  | error e =>
    have ha := h.of_error hr
    cases e <;> simp [allowed] at ha

/-- every entry a completed rebuild leaves readable has a complete, acyclic chain inside the db whose sizes add up
    to the entry size (or, without the size check in finalizeOrThrow, to less than the declared entry size) -/
theorem readable_entries_intact (cfg : Cfg) (hk : 0 < cfg.k.entryLimitAbsolute) (img : List RawSlot) (st : St) (h : rebuild cfg img = .ok st)
    (f : Nat) (hr : Readable st f) :
    ∃ C : List Int, Chain st.next (st.an f).start C ∧ C ≠ [] ∧ C.Nodup ∧ (∀ x ∈ C, 0 ≤ x ∧ x < (img.length : Int)) ∧
      (sumOn st.ssize C = (st.an f).sfs ∨
        (cfg.v.finalizeChecksKnownSize = false ∧ sumOn st.ssize C < (st.an f).sfs)) := by
  have hinv := ((rebuild_sat (A := Allow.all) cfg hk img (Or.inl rfl) (Or.inl rfl) (Or.inl rfl)).of_ok h).core
  obtain ⟨C, hC⟩ := Inv.intact (n := img.length) hinv hr
  exact ⟨C, hC.chain, hC.nonempty, hC.nodup, hC.range, hC.size⟩

/-- with the size check the sizes always add up to swap_file_sz -/
theorem readable_size_exact (cfg : Cfg) (hk : 0 < cfg.k.entryLimitAbsolute) (hv : cfg.v.finalizeChecksKnownSize = true) (img : List RawSlot) (st : St)
    (h : rebuild cfg img = .ok st) (f : Nat) (hr : Readable st f) :
    ∃ C : List Int, Chain st.next (st.an f).start C ∧ sumOn st.ssize C = (st.an f).sfs := by
  obtain ⟨C, hc, _, _, _, hs⟩ := readable_entries_intact cfg hk img st h f hr
  refine ⟨C, hc, ?_⟩
  cases hs with
  | inl e => exact e
  | inr e => rw [hv] at e; cases e.1

/-- no slot is used by two readable entries -/
theorem readable_chains_disjoint (cfg : Cfg) (hk : 0 < cfg.k.entryLimitAbsolute) (img : List RawSlot) (st : St) (h : rebuild cfg img = .ok st)
    (f g : Nat) (hf : Readable st f) (hg : Readable st g) (hfg : f ≠ g) (Cf Cg : List Int)
    (hcf : Chain st.next (st.an f).start Cf) (hcg : Chain st.next (st.an g).start Cg) : ∀ x ∈ Cf, x ∉ Cg :=
  Inv.disjoint (n := img.length) ((rebuild_sat (A := Allow.all) cfg hk img (Or.inl rfl) (Or.inl rfl) (Or.inl rfl)).of_ok h).core hf hg hfg hcf hcg

/-- every slice of a readable chain is what the db cell at that position says -/
theorem readable_chain_matches_disk (cfg : Cfg) (hk : 0 < cfg.k.entryLimitAbsolute) (img : List RawSlot) (st : St) (h : rebuild cfg img = .ok st)
    (f : Nat) (hr : Readable st f) (C : List Int) (hc : Chain st.next (st.an f).start C) :
    ∀ x ∈ C, ∃ hd, usableAt cfg img x = some hd ∧ (st.sl x).size = hd.payloadSize ∧ (st.sl x).next = hd.nextSlot :=
  Inv.matches_disk (n := img.length) ((rebuild_sat (A := Allow.all) cfg hk img (Or.inl rfl) (Or.inl rfl) (Or.inl rfl)).of_ok h).core hr hc

/-- full statement (false of the pinned source, see `stolen_slot_counterexample`): "no slot of a readable chain belongs
    to another entry or is on the free-slot stack".  Proved under `Own cfg img`: finalizeOrThrow checks slot owners, or
    no nextSlot link of the image leaves the entry position of the cell that carries it. -/
theorem readable_chain_own_slots_partial (cfg : Cfg) (hk : 0 < cfg.k.entryLimitAbsolute) (img : List RawSlot) (ho : Own cfg img) (st : St)
    (h : rebuild cfg img = .ok st) (f : Nat) (hr : Readable st f) (C : List Int) (hc : Chain st.next (st.an f).start C) :
    ∀ x ∈ C, x ∉ st.free ∧ (st.ls x).freed = false ∧ ∃ hd, usableAt cfg img x = some hd ∧ fileOf cfg img hd = f :=
  Inv.own_slots (n := img.length) ((rebuild_sat (A := Allow.all) cfg hk img (Or.inl rfl) (Or.inl rfl) (Or.inl rfl)).of_ok h).core ho hr hc

/-- the owner-checking variant satisfies it for every image -/
theorem readable_chain_own_slots_fixed (cfg : Cfg) (hk : 0 < cfg.k.entryLimitAbsolute) (hv : cfg.v.finalizeChecksOwner = true) (img : List RawSlot) (st : St)
    (h : rebuild cfg img = .ok st) (f : Nat) (hr : Readable st f) (C : List Int) (hc : Chain st.next (st.an f).start C) :
    ∀ x ∈ C, x ∉ st.free ∧ (st.ls x).freed = false ∧ ∃ hd, usableAt cfg img x = some hd ∧ fileOf cfg img hd = f :=
  readable_chain_own_slots_partial cfg hk img (Or.inl hv) st h f hr C hc

/-- HEADLINE: the property at full strength for the repaired source (all three candidate repairs), for every db image:
    the rebuild completes, and every entry it makes readable has a non-empty, acyclic chain inside the db that ends
    with -1, whose slices are exactly the db cells of that very entry, none of them freed or on the free-slot stack,
    with sizes adding up to the entry size; chains of different readable entries are disjoint. -/
theorem repaired_source_satisfies_property (cfg : Cfg) (hk : 0 < cfg.k.entryLimitAbsolute) (hv : cfg.v = fixedVariant)
    (img : List RawSlot) :
    ∃ st, rebuild cfg img = .ok st ∧
      (∀ f, Readable st f → ∃ C : List Int, Chain st.next (st.an f).start C ∧ C ≠ [] ∧ C.Nodup ∧
        (∀ x ∈ C, 0 ≤ x ∧ x < (img.length : Int)) ∧ sumOn st.ssize C = (st.an f).sfs ∧
        (∀ x ∈ C, x ∉ st.free ∧ (st.ls x).freed = false ∧
          ∃ hd, usableAt cfg img x = some hd ∧ fileOf cfg img hd = f ∧
            (st.sl x).size = hd.payloadSize ∧ (st.sl x).next = hd.nextSlot)) ∧
      (∀ f g, Readable st f → Readable st g → f ≠ g → ∀ Cf Cg, Chain st.next (st.an f).start Cf →
        Chain st.next (st.an g).start Cg → ∀ x ∈ Cf, x ∉ Cg) := by
  obtain ⟨st, hst⟩ := repaired_rebuild_never_crashes cfg hk hv img
  refine ⟨st, hst, ?_, ?_⟩
  · intro f hr
    obtain ⟨C, hc, hne, hnd, hrng, hsz⟩ := readable_entries_intact cfg hk img st hst f hr
    refine ⟨C, hc, hne, hnd, hrng, ?_, ?_⟩
    · cases hsz with
      | inl e => exact e
      | inr e => rw [hv] at e; cases e.1
    · intro x hx
      obtain ⟨a, b, hd, hu, hfile⟩ := readable_chain_own_slots_fixed cfg hk (by rw [hv]; rfl) img st hst f hr C hc x hx
      obtain ⟨hd', hu', hs1, hs2⟩ := readable_chain_matches_disk cfg hk img st hst f hr C hc x hx
      rw [hu] at hu'
      simp only [Option.some.injEq] at hu'
      subst hu'
      exact ⟨a, b, hd, hu, hfile, hs1, hs2⟩
  · intro f g hf hg hfg Cf Cg hcf hcg
    exact readable_chains_disjoint cfg hk img st hst f g hf hg hfg Cf Cg hcf hcg

/-! ### witnesses -/

def consts : Consts := { cellHeaderSize := 40, entryLimitAbsolute := 16777216, keyPrivateBit := 7 }

def legacyCfg (doubleCheck : Bool) : Cfg := { v := legacyVariant, k := consts, slotSize := 128, doubleCheck := doubleCheck }

def fixedCfg (doubleCheck : Bool) : Cfg := { v := fixedVariant, k := consts, slotSize := 128, doubleCheck := doubleCheck }

def zeroSlot : RawSlot :=
  .cell { key := (0, 0), entrySize := 0, payloadSize := 0, version := 0, firstSlot := 0, nextSlot := 0 } .zeroed

/-- an inode cell with parsable metadata that repeats the key and leaves swap_file_sz unknown -/
def inode (k : Key) (entrySize payload : Nat) (self next : Int) (metaSfs : Nat := 0) : RawSlot :=
  .cell { key := k, entrySize := entrySize, payloadSize := payload, version := 1, firstSlot := self, nextSlot := next }
    (.ok (some k) metaSfs 0 75)

def tailSlot (k : Key) (payload : Nat) (first next : Int) : RawSlot :=
  .cell { key := k, entrySize := 0, payloadSize := payload, version := 1, firstSlot := first, nextSlot := next } .unparsable

/-- a lone inode that declares 2 bytes and carries 1 -/
def shortImage : List RawSlot := [zeroSlot, inode (1, 0) 2 1 1 (-1), zeroSlot]

/-- entry B = key (1,0): inode in slot 0 links to slot 1, which belongs to entry A = key (5,0); B's own second slot 3 is
    not linked; A = inode 1 + slot 4 -/
def stealImage : List RawSlot :=
  [inode (1, 0) 3 2 0 1, inode (5, 0) 2 1 1 (-1), zeroSlot, tailSlot (1, 0) 1 0 (-1), tailSlot (5, 0) 1 1 (-1)]

/-- the same, followed by another slot with B's key (which makes the rebuild drop the readable B) -/
def doubleFreeImage : List RawSlot :=
  [inode (1, 0) 3 2 0 1, inode (6, 0) 2 1 1 (-1), zeroSlot, tailSlot (1, 0) 1 0 (-1), tailSlot (1, 0) 1 0 (-1), tailSlot (6, 0) 1 1 (-1)]

/-- well-formed: two entries of two slots each, stored out of order -/
def goodImage : List RawSlot :=
  [tailSlot (1, 0) 1 1 (-1), inode (1, 0) 3 2 1 0, tailSlot (7, 0) 2 3 (-1), inode (7, 0) 3 1 3 2, zeroSlot]

/-- non-vacuity: the well-formed image yields two readable entries with the chains [1,0] and [3,2] -/
example : ∃ st, rebuild (legacyCfg true) goodImage = .ok st ∧
    (decide (Readable st 1) && decide (Readable st 2) && chainList st 9 (st.an 1).start == [1, 0] &&
     chainList st 9 (st.an 2).start == [3, 2] && (st.an 1).sfs == 3 && (st.an 2).sfs == 3) = true :=
  okAnd_spec (by decide)

example : ∃ st, rebuild (fixedCfg true) goodImage = .ok st ∧
    (decide (Readable st 1) && decide (Readable st 2) && (st.an 1).sfs == 3 && st.free == [4]) = true :=
  okAnd_spec (by decide)

/-- non-vacuity of the hypothesis of `readable_chain_own_slots_partial`: the well-formed image has closed links, the
    stealing image has not (and the pinned source does not check owners) -/
example : Own (legacyCfg true) goodImage := Or.inr (linksClosed_of_check (by decide))
example : linksClosedCheck (legacyCfg false) stealImage = false := by decide

/-- pinned source: the lone inode becomes readable with swap_file_sz = 2 although its only slice holds 1 byte -/
theorem short_entry_counterexample : ∃ st, rebuild (legacyCfg false) shortImage = .ok st ∧
    (decide (Readable st 1) && chainList st 9 (st.an 1).start == [1] && (st.sl 1).size == 1 && (st.an 1).sfs == 2) = true :=
  okAnd_spec (by decide)

/-- with the size check in finalizeOrThrow the same image leaves nothing readable -/
theorem short_entry_fixed : ∃ st, rebuild (fixedCfg false) shortImage = .ok st ∧
    (!decide (Readable st 1) && st.free.length == 3) = true :=
  okAnd_spec (by decide)

/-- pinned source: B is readable with the chain [0, 1]; slot 1 is A's and is on the free-slot stack -/
theorem stolen_slot_counterexample : ∃ st, rebuild (legacyCfg false) stealImage = .ok st ∧
    (decide (Readable st 1) && chainList st 9 (st.an 1).start == [0, 1] && st.free.contains 1) = true :=
  okAnd_spec (by decide)

/-- with the owner check nothing readable links a freed slot (both entries are dropped) -/
theorem stolen_slot_fixed : ∃ st, rebuild (fixedCfg true) stealImage = .ok st ∧
    (!decide (Readable st 1) && !decide (Readable st 0) && st.free.length == 5) = true :=
  okAnd_spec (by decide)

/-- pinned source with squid -S: the same image kills the rebuild in validateOneSlot (slot 3 stays mapped, unfinalized) -/
theorem unprocessed_slot_crash : rebuild (legacyCfg true) stealImage = .error .unprocessedSlot :=
  crashesWith_spec (by decide)

/-- pinned source: the stolen slot is pushed on the free-slot stack twice (IdSet::leafPush asserts) -/
theorem double_free_crash : rebuild (legacyCfg false) doubleFreeImage = .error .pushedTwice :=
  crashesWith_spec (by decide)

/-- pinned source: an inode whose entrySize is all-ones trips `assert(totalSize != static_cast<uint64_t>(-1))` -/
theorem all_ones_entry_size_crash :
    rebuild (legacyCfg false) [inode (1, 0) allOnes 1 0 (-1), zeroSlot] = .error .entrySizeAllOnes :=
  crashesWith_spec (by decide)

/-- pinned source: swap metadata whose swap_file_sz is all-ones trips the assertion at the end of startNewEntry -/
theorem all_ones_swap_file_sz_crash :
    rebuild (legacyCfg false) [inode (1, 0) 0 1 0 (-1) allOnes, zeroSlot] = .error .sfsAllOnes :=
  crashesWith_spec (by decide)

/-- the variant that frees such entries instead of asserting survives both images -/
theorem all_ones_fixed :
    (∃ st, rebuild (fixedCfg true) [inode (1, 0) allOnes 1 0 (-1), zeroSlot] = .ok st ∧ (st.free.length == 2) = true) ∧
    (∃ st, rebuild (fixedCfg true) [inode (1, 0) 0 1 0 (-1) allOnes, zeroSlot] = .ok st ∧ (st.free.length == 2) = true) :=
  ⟨okAnd_spec (by decide), okAnd_spec (by decide)⟩

end SquidModel.C57
