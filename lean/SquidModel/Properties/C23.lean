/-
C23 — Status-line parsing is correct and segmentation-independent.

Property theorems only. Model: `SquidModel.Http1Resp.Parser` (Http::One::ResponseParser with the base-class and
tokenizer pieces it runs); specification: `SquidModel.Http1Resp.Grammar` (literal RFC 9112 status-line grammar with the
documented tolerances); lemmas: `TokLemmas`, `ParserLemmas`, `Segments`, `GrammarLemmas`.
All statements are for every byte string, every segmentation (any number of segments, empty ones included), both values of
`relaxed_header_parser` and every value of `reply_header_max_size`; nothing is bounded.
-/
import SquidModel.Http1Resp.GrammarLemmas

namespace SquidModel.C23
open SquidModel.Http1Resp SquidModel.Http1Resp.Grammar SquidModel.Gen.Http1Resp

/-! ## Segmentation independence -/

/-- Feeding the bytes in any segmentation (the parser is called after every read on "unparsed rest ++ new bytes", as
`HttpStateData::processReplyHeader` does) reports the same outcome as one parse of the concatenation: stage, protocol
version, status, reason phrase, header block, parser error code, result of the last `parse()` and the unparsed rest.
(`report` drops the unparsed rest only after the fatal header-too-large error, see the counterexample below.) -/
theorem segmentation_independent (cfg : Cfg) (segs : List Bytes) :
    (feed cfg Feed.init segs).report = (oneShot cfg segs.flatten).report := by
  have := feed_report_eq cfg segs []
  rwa [oneShot_nil, List.nil_append] at this

/-- Exact form: unless the one-shot parse ends with header-too-large, the complete parser state and the unparsed rest
are identical. -/
theorem segmentation_independent_exact (cfg : Cfg) (segs : List Bytes)
    (h : (oneShot cfg segs.flatten).st.parseStatus ≠ scHeaderTooLarge) :
    feed cfg Feed.init segs = oneShot cfg segs.flatten := by
  have := feed_eq cfg segs [] (by simpa using h)
  rwa [oneShot_nil, List.nil_append] at this

/-- The same with the hypothesis on the incremental side. -/
theorem segmentation_independent_exact_incremental (cfg : Cfg) (segs : List Bytes)
    (h : (feed cfg Feed.init segs).st.parseStatus ≠ scHeaderTooLarge) :
    feed cfg Feed.init segs = oneShot cfg segs.flatten := by
  apply segmentation_independent_exact
  intro h1
  have hr := segmentation_independent cfg segs
  have e1 : (feed cfg Feed.init segs).report = feed cfg Feed.init segs := by simp [Feed.report, h]
  have e2 : (oneShot cfg segs.flatten).report.st.parseStatus = scHeaderTooLarge := by simp [Feed.report, h1]
  rw [← hr, e1] at e2
  exact h e2

/-- Every split point (the quantifier of the property): two segments. -/
theorem every_split_point (cfg : Cfg) (a b : Bytes) :
    (feed cfg Feed.init [a, b]).report = (oneShot cfg (a ++ b)).report := by
  have := segmentation_independent cfg [a, b]
  simpa using this

/-- The excluded region is real: when the buffered, still unterminated header block alone reaches the size limit, the
incremental parser stops with header-too-large without consuming it, whereas the one-shot parser sees the terminator and
consumes the block before reporting the same error. Limit 30, `HTTP/1.1 200 OK\r\nAAAAAAAAAAAAA` then `\r\n\r\nbody`. -/
theorem remaining_after_too_large_counterexample :
    feed ⟨false, 30⟩ Feed.init [[72, 84, 84, 80, 47, 49, 46, 49, 32, 50, 48, 48, 32, 79, 75, 13, 10, 65, 65, 65, 65, 65, 65, 65, 65, 65, 65, 65, 65, 65], [13, 10, 13, 10, 98, 111, 100, 121]] ≠ oneShot ⟨false, 30⟩ ([72, 84, 84, 80, 47, 49, 46, 49, 32, 50, 48, 48, 32, 79, 75, 13, 10, 65, 65, 65, 65, 65, 65, 65, 65, 65, 65, 65, 65, 65] ++ [13, 10, 13, 10, 98, 111, 100, 121]) ∧
    (feed ⟨false, 30⟩ Feed.init [[72, 84, 84, 80, 47, 49, 46, 49, 32, 50, 48, 48, 32, 79, 75, 13, 10, 65, 65, 65, 65, 65, 65, 65, 65, 65, 65, 65, 65, 65], [13, 10, 13, 10, 98, 111, 100, 121]]).st.parseStatus = scHeaderTooLarge := by
  decide +kernel

/-! ## Accepted status lines are exactly the grammar's, with the grammar's fields -/

/-- Completeness: a word of the status-line grammar at the start of the input, followed by anything, is accepted; the
parser holds exactly the grammar's version, status and reason and moves on to the header block. -/
theorem status_line_fields_extracted (cfg : Cfg) {line : Bytes} {f : Fields} (h : StatusLine cfg.relaxed line f) (rest : Bytes) :
    let F := oneShot cfg (line ++ rest)
    F.st.ver = verOf f.label ∧ F.st.status = f.status ∧ F.st.reason = f.reason ∧ F.st.completedStatus = true ∧
    (F.st.stage = .mime ∨ F.st.stage = .done) ∧ (F.st.parseStatus = scNone ∨ F.st.parseStatus = scHeaderTooLarge) := by
  intro F
  have hF : F = _ := oneShot_status_line h rest
  have hf := parseMime_fields cfg { accepted f rest with stage := .mime }
  have hs := parseMime_stage_cases cfg { accepted f rest with stage := .mime } rfl
  rw [hF]
  exact ⟨hf.1, hf.2.1, hf.2.2, hs.2.2, hs.1, hs.2.1⟩

/-- Soundness: whenever a parse gets past the first line without a syntax error, either the input had no HTTP/ICY
magic prefix (HTTP/0.9, nothing consumed), or it starts with a word of the grammar and version, status and reason are
that word's fields. -/
theorem accepted_is_status_line (cfg : Cfg) {x : Bytes} (hx : x ≠ [])
    (h : (oneShot cfg x).st.stage = .mime ∨ ((oneShot cfg x).st.stage = .done ∧ (oneShot cfg x).st.parseStatus ≠ scInvalidHeader)) :
    (NoMagic x ∧ oneShot cfg x = ⟨gatewayed x, true⟩) ∨
    ∃ line rest f, x = line ++ rest ∧ StatusLine cfg.relaxed line f ∧
      (oneShot cfg x).st.ver = verOf f.label ∧ (oneShot cfg x).st.status = f.status ∧ (oneShot cfg x).st.reason = f.reason := by
  rcases oneShot_accepted hx h with h1 | ⟨line, rest, f, hx', hsl, hF⟩
  · exact Or.inl h1
  · refine Or.inr ⟨line, rest, f, hx', hsl, ?_⟩
    have hf := parseMime_fields cfg { accepted f rest with stage := .mime }
    rw [hF]
    exact hf

/-- An accepted status line has a status from 100 to 599 (and, by the grammar, exactly three status digits). -/
theorem accepted_status_range (cfg : Cfg) {x : Bytes} (hx : x ≠ [])
    (h : (oneShot cfg x).st.stage = .mime ∨ ((oneShot cfg x).st.stage = .done ∧ (oneShot cfg x).st.parseStatus ≠ scInvalidHeader)) :
    100 ≤ (oneShot cfg x).st.status ∧ (oneShot cfg x).st.status ≤ 599 := by
  rcases accepted_is_status_line cfg hx h with ⟨_, h1⟩ | ⟨line, rest, f, _, hsl, _, hst, _⟩
  · rw [h1]; simp [gatewayed, scOkay]
  · rw [hst]; exact SquidModel.Http1Resp.StatusLine.status_range hsl

/-- No false rejects: as long as what has been received can still be completed to an input starting with a status line,
the parser never reports a syntax error (it waits or has already accepted). -/
theorem viable_prefix_never_rejected (cfg : Cfg) {line : Bytes} {f : Fields} (h : StatusLine cfg.relaxed line f)
    (x b rest : Bytes) (hxb : x ++ b = line ++ rest) : (oneShot cfg x).st.parseStatus ≠ scInvalidHeader :=
  viable_prefix_not_rejected h x b rest hxb

/-- `ParseResponseStatus` alone: success means one to three digits with a value in 100..599 — hence exactly three —
followed by one delimiter; the value is returned and exactly these four octets are consumed. -/
theorem parse_response_status_ok (cfg : Cfg) {tok rest : Bytes} {c code : Nat}
    (h : parseResponseStatus cfg tok c = (.ok rest, code)) :
    ∃ d1 d2 d3 dl, tok = d1 :: d2 :: d3 :: dl :: rest ∧ IsDigit d1 ∧ IsDigit d2 ∧ IsDigit d3 ∧ IsDelim cfg.relaxed dl ∧
      code = val3 d1 d2 d3 ∧ 100 ≤ code ∧ code ≤ 599 := by
  unfold parseResponseStatus at h
  generalize hi : int64 statusDigits tok = i at h
  cases i with
  | none => simp only at h; split at h <;> cases h
  | some vr =>
    obtain ⟨v, t1⟩ := vr
    simp only at h
    generalize hso : skipOne (delims cfg) t1 = so at h
    cases so with
    | none => simp only at h; split at h <;> cases h
    | some t2 =>
      simp only at h
      split at h
      · cases h
      · rename_i hlo
        split at h
        · cases h
        · rename_i hhi
          injection h with h1 h2
          injection h1 with h1
          subst h1 h2
          simp only [tooShortMax, Nat.not_le] at hlo
          simp only [invalidMin, ge_iff_le, Nat.not_le] at hhi
          obtain ⟨d1, d2, d3, hd1, hd2, hd3, hx, hv⟩ := int64_three_some (show int64 3 tok = some (v, t1) from hi) (by omega)
          obtain ⟨dl, hdl, ht1⟩ := skipOne_some hso
          exact ⟨d1, d2, d3, dl, by rw [hx, ht1], (isDigit_iff d1).mp hd1, (isDigit_iff d2).mp hd2, (isDigit_iff d3).mp hd3,
            (mem_delims_iff cfg dl).mp hdl, hv, by omega, by omega⟩

/-! ## HTTP/0.9 -/

/-- Anything (non-empty) that neither starts with `HTTP/1.` or `ICY ` nor is a proper prefix of one of them is treated as
an HTTP/0.9 body: version 1.1, status 200, the synthetic header block, parse complete, nothing consumed. -/
theorem non_magic_is_http09 (cfg : Cfg) {x : Bytes} (hx : x ≠ []) (h : NoMagic x) :
    oneShot cfg x = ⟨gatewayed x, true⟩ ∧
    (gatewayed x).stage = .done ∧ (gatewayed x).ver = ⟨.http, 1, 1⟩ ∧ (gatewayed x).status = 200 ∧
    (gatewayed x).reason = [71, 97, 116, 101, 119, 97, 121, 105, 110, 103] ∧ (gatewayed x).mime = fakeMimeBlock ∧
    (gatewayed x).parseStatus = 0 ∧ (gatewayed x).buf = x := by
  refine ⟨?_, rfl, rfl, rfl, rfl, rfl, rfl, rfl⟩
  rw [oneShot_ne hx]
  unfold parseFirst
  have hst : (fresh x).stage = .first := rfl
  simp only [hst, ↓reduceIte]
  rw [firstLine_http09_iff.mpr h]
  unfold parseMime
  simp [gatewayed]

/-- and the first-line parser takes that decision only on such inputs -/
theorem http09_only_without_magic (cfg : Cfg) (x : Bytes) :
    firstLine cfg (fresh x) = (gatewayed x, 1) ↔ NoMagic x := firstLine_http09_iff

/-- in particular the decision is itself segmentation independent: it is never taken on a proper prefix of a magic -/
theorem magic_prefix_waits (cfg : Cfg) {x : Bytes} (hx : x ≠ []) (h : (x.length < 7 ∧ x <+: httpMagic) ∨ (x.length < 4 ∧ x <+: Grammar.icyMagic)) :
    ¬ NoMagic x := by
  intro hn
  rcases h with h | h
  · exact hn.2.2.1 h
  · exact hn.2.2.2 h

/-! ## Non-vacuity -/

/-- the grammar is inhabited: `HTTP/1.1 404 Not Found CRLF` -/
example : StatusLine false (httpMagic ++ 49 :: 32 :: 52 :: 48 :: 52 :: 32 :: ([78, 111, 116, 32, 70, 111, 117, 110, 100] ++ [13, 10]))
    ⟨.http 1, 404, [78, 111, 116, 32, 70, 111, 117, 110, 100]⟩ :=
  StatusLine.http 49 32 52 48 52 32 _ _ (by decide) (Or.inl rfl) (by decide) (by decide) (by decide) (Or.inl rfl)
    (by decide) (by decide) (by decide) (Or.inl rfl)

/-- an accepted response head, delivered in three segments (one of them empty) and at once -/
example : (feed ⟨false, 65536⟩ Feed.init [[72, 84, 84, 80, 47, 49, 46, 49, 32, 52], [], [48, 52, 32, 78, 111, 116, 32, 70, 111, 117, 110, 100, 13, 10, 65, 58, 32, 98, 13, 10, 13, 10, 98, 111, 100, 121]]).st.status = 404 ∧
          (oneShot ⟨false, 65536⟩ [72, 84, 84, 80, 47, 49, 46, 49, 32, 52, 48, 52, 32, 78, 111, 116, 32, 70, 111, 117, 110, 100, 13, 10, 65, 58, 32, 98, 13, 10, 13, 10, 98, 111, 100, 121]).st.stage = .done ∧
          (oneShot ⟨false, 65536⟩ [72, 84, 84, 80, 47, 49, 46, 49, 32, 52, 48, 52, 32, 78, 111, 116, 32, 70, 111, 117, 110, 100, 13, 10, 65, 58, 32, 98, 13, 10, 13, 10, 98, 111, 100, 121]).st.buf = [98, 111, 100, 121] := by decide +kernel
/-- needs more data; rejected (status 600; status 099; bare LF in strict mode); HTTP/0.9 -/
example : (oneShot ⟨false, 65536⟩ [72, 84, 84, 80, 47, 49, 46, 49, 32, 50, 48]).st.stage = .first := by decide +kernel
example : (oneShot ⟨false, 65536⟩ [72, 84, 84, 80, 47, 49, 46, 49, 32, 54, 48, 48, 32, 88, 13, 10]).st.parseStatus = scInvalidHeader := by decide +kernel
example : (oneShot ⟨false, 65536⟩ [72, 84, 84, 80, 47, 49, 46, 49, 32, 48, 57, 57, 32, 88, 13, 10]).st.parseStatus = scInvalidHeader := by decide +kernel
example : (oneShot ⟨false, 65536⟩ [72, 84, 84, 80, 47, 49, 46, 49, 32, 50, 48, 48, 32, 79, 75, 10]).st.parseStatus = scInvalidHeader := by decide +kernel
example : (oneShot ⟨true, 65536⟩ [72, 84, 84, 80, 47, 49, 46, 49, 9, 50, 48, 48, 11, 79, 75, 10, 65, 58, 32, 98]).st.stage = .mime := by decide +kernel
example : (oneShot ⟨true, 65536⟩ [72, 84, 84, 80, 47, 50, 46, 48, 32, 50, 48, 48, 32, 79, 75, 13, 10]).st.reason = gatewayPhrase := by decide +kernel
/-- the hypotheses of `non_magic_is_http09` are satisfiable, those of the accepted-theorems too -/
example : NoMagic [72, 84, 84, 80, 47, 50] := by
  refine ⟨?_, ?_, ?_, ?_⟩ <;> simp [httpMagic, Grammar.icyMagic]
example : ¬ NoMagic [72, 84, 84] := by
  intro h; exact h.2.2.1 ⟨by decide, by simp [httpMagic]⟩

end SquidModel.C23
