/-
C16  Disk cache crash consistency.

Statement (fixed): "If Squid is killed at any point while writing to a rock or ufs-family cache_dir, including at any
individual disk write or after a partial write, and is then restarted, it starts successfully.  Every cache hit it
serves afterwards is byte-identical to a complete response it had received before the crash."

partial: the statement is about the running binary; it is proved here for the models `SquidModel.Rock.Crash`
(writer `txnCells`, disk images, per-position `Rock::Rebuild`, hit validation) and `SquidModel.Ufs.Crash` (event protocol
of the run time, `rebuildFromSwapLog`, hit validation), which are tied to the rebuilt squid by props/C16.py.

The full statement is FALSE of the real code for rock, in two regions (each confirmed end to end with the LD_PRELOAD
crash injector, witnesses in corpus/C16):
  * `rock_stale_slot_splice_counterexample`: squid dies between the slot writes of a swap-out that re-uses the freed
    slots of an older response for the same URL; the new first slot names, as its successor, a slot that still holds
    the old response's second piece (same key, `Rock::Rebuild` never compares versions); the rebuild accepts the mixed
    chain and the hit is the new head followed by the old tail;
  * `rock_torn_last_slot_counterexample`: the write of the last slot is torn after its header: the chain is complete,
    the sizes add up, nothing checks the payload, the hit ends with bytes that belong to no response.
What is proved instead, for ALL disk images, ALL writer histories and BOTH source variants of the rebuild:
  * `rock_post_crash_hit_was_complete_pre_crash_partial`: if the cells at the entry's position are intact writes of
    swap-outs and no cell links to a cell of another swap-out (the excluded regions above, as explicit hypotheses), a
    hit is exactly the piece sequence of ONE swap-out of that key, all of whose writes are on the disk (it completed
    before the crash);
  * `rock_crash_image_hit_partial`: the same for the image left by any sequence of completed slot writes;
  * `rock_fresh_position_hit_complete`: when only one swap-out ever wrote cells that hash to the position, no
    hypothesis about links is needed: crash at ANY write boundary of that swap-out is safe;
  * `rock_rebuild_survives`: the rebuild of a position never dies on cells whose size fields are not all-ones
    ("it starts successfully"; the whole-image statement for arbitrary images is C57's);
and, for ufs/aufs, without any exclusion:
  * `ufs_post_crash_hit_was_complete_pre_crash`: after ANY prefix of ANY event history the run time can produce (torn
    file writes are shorter appends, a torn log record is no event), a hit after the dirty-log rebuild delivers all
    bytes of one completely written, logged and not yet released object of that key;
  * `ufs_post_crash_hit_from_consistent_state`: the same from any consistent (ghost, disk) starting point;
  * `ufs_crash_prefix_allowed`, `ufs_torn_append_allowed`: prefixes and torn appends of allowed histories are allowed.
-/
import SquidModel.Rock.CrashTxn
import SquidModel.Rock.CrashSurvive
import SquidModel.Ufs.CrashLemmas

namespace SquidModel.C16
open SquidModel.Rock SquidModel.Rock.Crash

/-! ### rock -/

/-- Full statement for rock: `∀ img k ls, serve cfg slots foreign img k = some ls → ∃ t, ls = (txnCells t).map .own`
    for every image a crash can leave -- false (see the counterexamples).  Proved with the two excluded regions as
    hypotheses `hprov` (every cell at the position is an intact write: no torn cell) and `hlink` (no cell names a cell
    of another swap-out as its successor: no stale slot is spliced in). -/
theorem rock_post_crash_hit_was_complete_pre_crash_partial (cfg : Cfg) (slots : Nat) (foreign : Int → Option (Nat × Int))
    (hnf : NoForeign cfg foreign) (txns : List Txn) (hwf : ∀ t ∈ txns, t.Wf) (img : List (Cell Piece)) (k : Key)
    (hslots : (img.map (·.slot)).Nodup)
    (hprov : ∀ c ∈ cellsAt cfg slots (fileNo (cfg.geo slots) k) img, ∃ t ∈ txns, c ∈ txnCells t)
    (hlink : ∀ c ∈ cellsAt cfg slots (fileNo (cfg.geo slots) k) img, ∀ d ∈ cellsAt cfg slots (fileNo (cfg.geo slots) k) img,
      c.hdr.nextSlot = d.slot → ∀ t ∈ txns, c ∈ txnCells t → d ∈ txnCells t)
    (ls : List (Link Piece)) (hs : serve cfg slots foreign img k = some ls) :
    ∃ t ∈ txns, t.key = k ∧ ls = (txnCells t).map Link.own ∧ ∀ c ∈ txnCells t, c ∈ img :=
  serve_is_complete_txn hnf txns hwf img k hslots hprov hlink ls hs

/-- The image left by any sequence `ws` of completed slot writes (the writes of any number of swap-outs, interleaved in
    any way, cut at any point): a hit is one complete swap-out, provided no write on the disk names a cell of another
    swap-out as its successor. -/
theorem rock_crash_image_hit_partial (cfg : Cfg) (slots : Nat) (foreign : Int → Option (Nat × Int))
    (hnf : NoForeign cfg foreign) (txns : List Txn) (hwf : ∀ t ∈ txns, t.Wf) (ws : List (Cell Piece))
    (hws : ∀ w ∈ ws, ∃ t ∈ txns, w ∈ txnCells t) (k : Key)
    (hlink : ∀ c ∈ applyWrites [] ws, ∀ d ∈ applyWrites [] ws, c.hdr.nextSlot = d.slot → ∀ t ∈ txns, c ∈ txnCells t → d ∈ txnCells t)
    (ls : List (Link Piece)) (hs : serve cfg slots foreign (applyWrites [] ws) k = some ls) :
    ∃ t ∈ txns, t.key = k ∧ ls = (txnCells t).map Link.own ∧ ∀ c ∈ txnCells t, c ∈ applyWrites [] ws := by
  refine serve_is_complete_txn hnf txns hwf _ k ?_ ?_ ?_ ls hs
  · exact sorted_nodup (applyWrites_sorted ws [] (by simp [SlotsSorted]))
  · intro c hc
    rcases mem_applyWrites ws [] c (mem_cellsAt hc).1 with h | h
    · exact hws c h
    · cases h
  · intro c hc d hd
    exact hlink c (mem_cellsAt hc).1 d (mem_cellsAt hd).1

/-- A position only one swap-out `t` ever wrote to (the first store of a URL into free slots): whatever prefix of its
    writes is on the disk, a hit is the complete `t` -- no crash point of `t` can produce anything else. -/
theorem rock_fresh_position_hit_complete (cfg : Cfg) (slots : Nat) (foreign : Int → Option (Nat × Int))
    (hnf : NoForeign cfg foreign) (t : Txn) (hwf : t.Wf) (img : List (Cell Piece)) (k : Key)
    (hslots : (img.map (·.slot)).Nodup)
    (honly : ∀ c ∈ cellsAt cfg slots (fileNo (cfg.geo slots) k) img, c ∈ txnCells t)
    (ls : List (Link Piece)) (hs : serve cfg slots foreign img k = some ls) :
    t.key = k ∧ ls = (txnCells t).map Link.own ∧ ∀ c ∈ txnCells t, c ∈ img := by
  obtain ⟨t', ht', hk, hl, hall⟩ := serve_is_complete_txn hnf [t] (by intro x hx; simp at hx; subst hx; exact hwf) img k hslots
    (by intro c hc; exact ⟨t, by simp, honly c hc⟩)
    (by intro c _ d hd _ t' ht' _; simp at ht'; subst ht'; exact honly d hd) ls hs
  simp at ht'
  subst ht'
  exact ⟨hk, hl, hall⟩

/-- "It starts successfully": the rebuild of a position can only die on one of the two all-ones size `assert`s of
    `addSlotToEntry` / `startNewEntry`; on cells whose size fields are below 2^64-1 (everything squid writes, torn or not: the
    payload size is a 32-bit field, entry sizes are bounded by max-size) it never does, whatever else the cells contain. -/
theorem rock_rebuild_survives {τ : Type} (cfg : Cfg) (slots : Nat) (foreign : Int → Option (Nat × Int)) (cells : List (Cell τ))
    (h : ∀ c ∈ cells, c.Tame) : ∀ why, (posRebuild cfg slots foreign cells).state ≠ .crashed why :=
  posRebuild_alive cfg slots foreign cells h

/-! #### witnesses -/

def consts : Consts := { cellHeaderSize := 40, entryLimitAbsolute := 16777216, keyPrivateBit := 7 }

/-- the pinned source / the source with the three candidate repairs of C57 -/
def cfgOf (v : Variant) : Cfg := { v := v, k := consts, slotSize := 4096, doubleCheck := false }

def theKey : Key := (5, 0)

/-- the first response: three pieces in slots 1, 0, 2 (the order in which a fresh rock db hands out slots) -/
def v1 : Txn := { id := 1, key := theKey, version := 7, parts := [(1, 4056), (0, 4056), (2, 1203)], metaHdr := 118 }

/-- its replacement one second later: the same URL, the freed slots are handed out again in the same order -/
def v2 : Txn := { id := 2, key := theKey, version := 8, parts := [(1, 4056), (0, 4056), (2, 1203)], metaHdr := 118 }

def pieces (ls : Option (List (Link Piece))) : Option (List (Option Piece)) :=
  ls.map (fun l => l.map (fun | .own c => some c.data | .foreign _ => none))

/-- non-vacuity: the complete first response alone is a hit with its three pieces in order ... -/
example : pieces (serve (cfgOf legacyVariant) 8 (fun _ => none) (applyWrites [] (txnCells v1)) theKey)
    = some [some ⟨1, 0⟩, some ⟨1, 1⟩, some ⟨1, 2⟩] := by decide

/-- ... the completely written replacement is a hit with its own three pieces ... -/
example : pieces (serve (cfgOf legacyVariant) 8 (fun _ => none) (applyWrites [] (txnCells v1 ++ txnCells v2)) theKey)
    = some [some ⟨2, 0⟩, some ⟨2, 1⟩, some ⟨2, 2⟩] := by decide

/-- ... and a crash after the first write of a response into fresh slots leaves nothing readable -/
example : pieces (serve (cfgOf legacyVariant) 8 (fun _ => none) (applyWrites [] ((txnCells v1).take 1)) theKey) = none := by decide

/-- The full statement is false: squid dies after the first slot write of the replacement.  Slot 1 holds the new first
    piece and names slot 0, which still holds the second piece of the old response (same key, its own successor is slot
    2 with the old tail).  The rebuild accepts the chain 1 -> 0 -> 2: the hit is new head + old body.  The candidate
    repairs of C57 (`fixedVariant`) do not change that. -/
theorem rock_stale_slot_splice_counterexample :
    pieces (serve (cfgOf legacyVariant) 8 (fun _ => none) (applyWrites [] (txnCells v1 ++ (txnCells v2).take 1)) theKey)
      = some [some ⟨2, 0⟩, some ⟨1, 1⟩, some ⟨1, 2⟩] ∧
    pieces (serve (cfgOf fixedVariant) 8 (fun _ => none) (applyWrites [] (txnCells v1 ++ (txnCells v2).take 1)) theKey)
      = some [some ⟨2, 0⟩, some ⟨1, 1⟩, some ⟨1, 2⟩] := by decide

/-- the same two writes later: also the second piece is new, the tail is still the old one -/
theorem rock_stale_slot_splice_counterexample_2 :
    pieces (serve (cfgOf legacyVariant) 8 (fun _ => none) (applyWrites [] (txnCells v1 ++ (txnCells v2).take 2)) theKey)
      = some [some ⟨2, 0⟩, some ⟨2, 1⟩, some ⟨1, 2⟩] := by decide

/-- a torn write: the header of the cell reached the disk, its payload only in part (identity `none`) -/
def tornPayload (c : Cell Piece) : Cell (Option Piece) := { slot := c.slot, hdr := c.hdr, md := c.md, url := c.url, data := none }

def intact (c : Cell Piece) : Cell (Option Piece) := { slot := c.slot, hdr := c.hdr, md := c.md, url := c.url, data := some c.data }

def datas (ls : Option (List (Link (Option Piece)))) : Option (List (Option Piece)) :=
  ls.map (fun l => l.map (fun | .own c => c.data | .foreign _ => none))

/-- The full statement is false: the first response is being stored into an empty db; the write of its last slot is torn
    after the 40 header bytes.  The chain is complete and the sizes add up, so the entry is readable; its last piece is
    whatever the slot held before. -/
theorem rock_torn_last_slot_counterexample :
    datas (serve (cfgOf legacyVariant) 8 (fun _ => none)
      (applyWrites [] (((txnCells v1).take 2).map intact ++ ((txnCells v1).drop 2).map tornPayload)) theKey)
      = some [some ⟨1, 0⟩, some ⟨1, 1⟩, none] ∧
    datas (serve (cfgOf fixedVariant) 8 (fun _ => none)
      (applyWrites [] (((txnCells v1).take 2).map intact ++ ((txnCells v1).drop 2).map tornPayload)) theKey)
      = some [some ⟨1, 0⟩, some ⟨1, 1⟩, none] := by decide

/-- the hypotheses of the partial theorem are satisfiable by an image with a readable entry (and its conclusion is the
    non-trivial one) -/
example : ∃ t ∈ [v1], t.key = theKey ∧
    serve (cfgOf legacyVariant) 8 (fun _ => none) (applyWrites [] (txnCells v1)) theKey = some ((txnCells t).map Link.own) := by
  have hs : (serve (cfgOf legacyVariant) 8 (fun _ => none) (applyWrites [] (txnCells v1)) theKey).isSome = true := by decide
  obtain ⟨ls, hls⟩ := Option.isSome_iff_exists.mp hs
  obtain ⟨hk, hl, _⟩ := rock_fresh_position_hit_complete (cfgOf legacyVariant) 8 (fun _ => none) (Or.inr fun _ => rfl) v1
    (by refine ⟨by decide, by decide, by decide⟩) (applyWrites [] (txnCells v1)) theKey
    (sorted_nodup (applyWrites_sorted _ [] (by simp [SlotsSorted])))
    (by intro c hc
        rcases mem_applyWrites (txnCells v1) [] c (mem_cellsAt hc).1 with h | h
        · exact h
        · cases h) ls hls
  exact ⟨v1, by simp, hk, by rw [hls, hl]⟩

/-! ### ufs / aufs -/
open SquidModel.Ufs.Crash in
/-- After any history of disk-changing events the run time can produce -- in particular after any prefix of one: the
    protocol is prefix closed (`ufs_crash_prefix_allowed`) -- what the restarted squid serves for key `k` is the whole
    object of a swap-out of `k` that was completely written and logged (`isAdded`) before the crash: all `total` bytes,
    and exactly as many as the index promises. -/
theorem ufs_post_crash_hit_was_complete_pre_crash (evs : List Ev) (g : Ghost) (hw : wfRun [] evs = some g) (k : Ufs.Crash.Key)
    (sv : Served) (hs : Ufs.Crash.serve (applyAll Disk.empty evs) k = some sv) :
    ∃ o ∈ g, o.id = sv.store ∧ o.key = k ∧ o.isAdded = true ∧ sv.served = o.total ∧ sv.promised = o.total :=
  serve_complete (uinv_run uinv_empty hw) k sv hs

open SquidModel.Ufs.Crash in
/-- The same from ANY consistent starting point (ghost state `g0` describing disk `d0`, e.g. what a restart leaves): the
    statement is not tied to an empty cache_dir. -/
theorem ufs_post_crash_hit_from_consistent_state (g0 : Ghost) (d0 : Disk) (h0 : UInv g0 d0) (evs : List Ev) (g : Ghost)
    (hw : wfRun g0 evs = some g) (k : Ufs.Crash.Key) (sv : Served) (hs : Ufs.Crash.serve (applyAll d0 evs) k = some sv) :
    ∃ o ∈ g, o.id = sv.store ∧ o.key = k ∧ o.isAdded = true ∧ sv.served = o.total ∧ sv.promised = o.total :=
  serve_complete (uinv_run h0 hw) k sv hs

open SquidModel.Ufs.Crash in
/-- a crash keeps a prefix of the history: still an allowed history -/
theorem ufs_crash_prefix_allowed (pre suf : List Ev) (h : Wf (pre ++ suf)) : Wf pre := wfRun_prefix h

open SquidModel.Ufs.Crash in
/-- a torn file write is a shorter append: still an allowed history -/
theorem ufs_torn_append_allowed (pre : List Ev) (f : Int) (n n' : Nat) (hn : n' ≤ n) (h : Wf (pre ++ [.append f n])) :
    Wf (pre ++ [.append f n']) := by
  unfold Wf at h ⊢
  rw [wfRun_snoc] at h ⊢
  cases hp : wfRun [] pre with
  | none => rw [hp] at h; simp at h
  | some g =>
    rw [hp] at h
    cases hs : wfStep g (.append f n) with
    | none => simp [Option.bind, hs] at h
    | some g1 => exact wfStep_shorter_append g g1 f n n' hn hs

/-- the hypotheses are satisfiable: store, overwrite (DEL before the new file is made, late unlink), crash in the middle of
    the second file: the first object is gone from the index, the second one is not yet in it -/
example : Ufs.Crash.Wf [.create 0 1 7 9315 118, .append 0 118, .append 0 9197,
      .log { op := 1, fileno := 0, size := 9315, key := 7, lastref := 10, flags := 1088, csumOk := true, timesOk := true, store := 1 },
      .log { op := 2, fileno := 0, size := 9315, key := 7, lastref := 11, flags := 1088, csumOk := true, timesOk := true, store := 1 },
      .create 2 2 7 9315 118, .append 2 118, .unlink 0, .append 2 4096] := by
  show (Ufs.Crash.wfRun [] _).isSome = true
  decide

open SquidModel.Ufs.Crash in
example : Ufs.Crash.serve (applyAll Disk.empty [.create 0 1 7 9315 118, .append 0 118, .append 0 9197,
      .log { op := 1, fileno := 0, size := 9315, key := 7, lastref := 10, flags := 1088, csumOk := true, timesOk := true, store := 1 }]) 7
    = some { store := 1, served := 9315, promised := 9315 } := by decide

end SquidModel.C16
