/-
C15 — Range responses contain exactly the requested bytes.

"When Squid answers a Range request with 206, each part's Content-Range and body bytes match the stated slice of the full
representation. The parts cover the requested satisfiable ranges. Otherwise Squid sends the complete representation with 200,
or 416 when nothing is satisfiable."

Partial: the theorems are about the model of the response side (SquidModel/RangePack: `buildRangeHeader` guards,
`canonize`/`isComplex`, the `range_iter` machine `canPackMoreRanges`/`getNextRangeOffset`/`lengthToSend`/`packRange`
under an adversarial store, `clientPackRangeHdr`/`clientPackTermBound`/`mRangeCLen`); the rebuilt binary is tied to that model
by end-to-end scenario correspondence (props/C15.py). Squid never generates 416 itself (it ignores an unsatisfiable Range and
sends 200, which the statement allows); 416 only occurs relayed from an origin.

The last sentence was FALSE of the tree before fix commit f9db419 in one region (objects swapped in from disk, positive lowest
range offset: the 200 started at that offset and repeated bytes). The model follows the repaired code and `ignored_wire_full`
holds at full strength; `prefix_variant_ignored_wire_counterexample` records, for the pre-fix variant of the first-buffer
computation only, what used to be sent (the former witnesses are regression cases in corpus/C15/).
-/
import SquidModel.RangePack.RespondLemmas

namespace SquidModel.C15
open SquidModel SquidModel.RangePack SquidModel.Gen

/-! ### 206: the parts are the requested satisfiable ranges -/

/-- The specs Squid serves are, in request order, exactly the satisfiable parts (RFC 9110 §14.1.2, `rfcPart`, defined without
reference to the canonisation code) of the byte-range-specs of the request; unsatisfiable ones are dropped, nothing is added,
merged or reordered. Holds for every parsed Range header and every object length. -/
theorem parts_are_requested_satisfiable (v : Bytes) (raw : List RSpec) (n : Nat) (hp : parseRange v = some raw) :
    (canonize raw n).map RSpec.toC = raw.filterMap (rfcPart n) :=
  canonize_eq_rfc raw n (parseRange_valid v raw hp)

/-- Coverage: a byte position lies in some part of the 206 iff it lies in the satisfiable part of some requested spec. -/
theorem parts_cover_requested (v : Bytes) (raw : List RSpec) (n i : Nat) (hp : parseRange v = some raw) :
    (∃ c ∈ (canonize raw n).map RSpec.toC, c.off ≤ i ∧ i < c.off + c.len) ↔
    (∃ s ∈ raw, ∃ p, rfcPart n s = some p ∧ p.off ≤ i ∧ i < p.off + p.len) := by
  rw [parts_are_requested_satisfiable v raw n hp]
  constructor
  · rintro ⟨c, hc, h1, h2⟩
    obtain ⟨s, hs, hsc⟩ := List.mem_filterMap.1 hc
    exact ⟨s, hs, c, hsc, h1, h2⟩
  · rintro ⟨s, hs, p, hp', h1, h2⟩
    exact ⟨p, List.mem_filterMap.2 ⟨s, hs, hp'⟩, h1, h2⟩

/-- Every part that is served is non-empty and lies inside the object. -/
theorem parts_inside_object (ctx : Ctx) (raw cs : List RSpec) (n : Nat) (hn : ctx.contentLength = n)
    (h : buildRangeHeader ctx raw = .ok cs) : ∀ c ∈ cs.map RSpec.toC, 0 < c.len ∧ c.off + c.len ≤ n := by
  obtain ⟨_, _, hcs, _, _, _⟩ := buildRangeHeader_ok ctx raw cs h
  intro c hc
  obtain ⟨r, hr, rfl⟩ := List.mem_map.1 hc
  rw [hcs, hn] at hr
  have := canonize_all_canonical raw n r hr
  unfold RSpec.Canonical at this
  simp only [RSpec.toC]
  omega

/-! ### 206: the body is exactly the slices, for every store delivery schedule -/

/-- **Main theorem.** Whenever `buildRangeHeader` decides to serve ranges (for any reply context, any parsed Range header, any
object), the packing machine — run against ANY first store answer (`m` body bytes arriving with the headers) and ANY schedule of
later store deliveries (1..HTTP_REQBUF_SZ bytes each) — hits no assertion, terminates, and writes exactly: the slice itself for
one part; for several parts, each part header followed by exactly that part's bytes of the object, in order, then the
terminating boundary. Nothing else, nothing missing. -/
theorem honoured_wire_exact (ctx : Ctx) (v : Bytes) (raw cs : List RSpec) (body : Bytes) (hdrOf : CSpec → Bytes) (term : Bytes)
    (m : Nat) (sched : Nat → Nat)
    (hp : parseRange v = some raw) (hlen : ctx.contentLength = body.length) (h : buildRangeHeader ctx raw = .ok cs) :
    runHonoured hdrOf term body (cs.map RSpec.toC) m sched
      = .ok (expectedWire hdrOf term body (cs.map RSpec.toC)) := by
  obtain ⟨_, _, hcs, hne, hcx, _⟩ := buildRangeHeader_ok ctx raw cs h
  apply runHonoured_exact
  · intro he
    exact hne (List.map_eq_nil_iff.1 he)
  · have hall : ∀ c ∈ cs, c.Canonical body.length := by
      rw [hcs, hlen]; exact canonize_all_canonical raw body.length
    exact chain_of_not_complex body.length cs 0 hall hcx

/-- Content-Length of the 206 (`prepPartialResponseGeneration`/`mRangeCLen`) is exactly the number of body bytes written. -/
theorem content_length_exact (ctx : Ctx) (raw cs : List RSpec) (body key : Bytes) (ctype : Option Bytes)
    (hlen : ctx.contentLength = body.length) (h : buildRangeHeader ctx raw = .ok cs) :
    actualCLen (boundary key) ctype body.length (cs.map RSpec.toC) =
      (expectedWire (partHdr (boundary key) ctype body.length) (termBound (boundary key)) body (cs.map RSpec.toC)).length := by
  obtain ⟨_, _, hcs, hne, hcx, _⟩ := buildRangeHeader_ok ctx raw cs h
  have hall : ∀ c ∈ cs, c.Canonical body.length := by
    rw [hcs, hlen]; exact canonize_all_canonical raw body.length
  have hch := chain_of_not_complex body.length cs 0 hall hcx
  generalize cs.map RSpec.toC = specs at hch
  match specs, hch with
  | [], _ => simp [actualCLen, expectedWire, mRangeCLen, partsWire]
  | [c], hch =>
    simp only [Chain] at hch
    simp [actualCLen, expectedWire, slice_length body c.off c.len hch.2.2.1]
  | c :: c' :: rest, hch =>
    simp only [actualCLen, expectedWire, List.length_append, mRangeCLen_eq, partsWire_length _ body _ 0 hch]

/-! ### otherwise: 200 with the complete representation (and never a 416 of Squid's own) -/

/-- **Otherwise: the complete representation.** When `buildRangeHeader` drops the ranges (complex or unsatisfiable specs,
If-Range mismatch, unknown length, …) the 200 body is the complete object, for EVERY first store answer (`m` body bytes arriving
with the headers: memory, in-transit and swapped-in objects alike) and every store delivery schedule. -/
theorem ignored_wire_full (body : Bytes) (m : Nat) (sched : Nat → Nat) : runIgnored body m sched = .ok body :=
  runIgnored_full body m sched

/-- PRE-FIX VARIANT ONLY (the tree before commit f9db419; not the current code): with the old first-buffer computation the body
was `firstBufferPreFix ++ body.drop …`, complete only when `L = 0 ∨ m ≤ L`; e.g. a 10-byte object swapped in from disk (all 10
bytes with the headers) and `Range: bytes=2-5,4-6` (complex, so ignored; lowest offset 2) gave bytes 2..9 followed by 8..9. -/
theorem prefix_variant_ignored_wire_counterexample :
    runIgnoredPreFix [0, 1, 2, 3, 4, 5, 6, 7, 8, 9] 2 10 (fun _ => 4096) = .ok [2, 3, 4, 5, 6, 7, 8, 9, 8, 9] ∧
    lowestOffset [⟨2, 4⟩, ⟨4, 3⟩] 0 = 2 ∧
    buildRangeHeader ⟨true, none, none, -1, 200, false, 10, 10⟩ [⟨2, 4⟩, ⟨4, 3⟩] = .error .tooComplexRange ∧
    runIgnored [0, 1, 2, 3, 4, 5, 6, 7, 8, 9] 10 (fun _ => 4096) = .ok [0, 1, 2, 3, 4, 5, 6, 7, 8, 9] := by
  decide

/-- Squid's own decision is binary: serve the canonical ranges (206) or ignore the header (200). With the default
`range_offset_limit` (0) a miss is never packed by Squid, and a reply that is not a 200 is never re-packed: such replies
(the origin's own 206 or 416) are relayed. -/
theorem decision_never_packs_non200_or_limited_miss (ctx : Ctx) (raw cs : List RSpec) (h : buildRangeHeader ctx raw = .ok cs) :
    ctx.status = 200 ∧ ¬ (ctx.isHit = false ∧ ctx.roffLimit = 0) := by
  obtain ⟨h200, _, _, _, _, hlim⟩ := buildRangeHeader_ok ctx raw cs h
  refine ⟨h200, ?_⟩
  rintro ⟨hmiss, h0⟩
  have := hlim hmiss
  simp [offsetLimitExceeded, h0] at this

/-- `mergeWith` is compiled out (MERGING_BREAKS_NOTHING is not defined): canonisation keeps the surviving specs as they are. -/
theorem merging_disabled : RangePackConsts.mergingEnabled = false := by decide

/-! ### the scenario-level model used for the end-to-end correspondence -/

/-- For every scenario of the rig that Squid answers from a stored 200 (miss with `range_offset_limit none`, memory hit, disk
hit), any first store answer and delivery schedule: the model does not fail (no assertion of the C++ fires), and the reply is
a 200 or a 206; a 200 carries the complete object; a 206 has the requested satisfiable parts, a body that is exactly their framed slices, and an exact
Content-Length. -/
theorem serveStored_sound (sc : Scenario) (key : Bytes) (m : Nat) (sched : Nat → Nat) (saw : Option (Option Bytes)) :
    ∃ r, serveStored sc key m sched saw = .ok r ∧ (r.status = 200 ∨ r.status = 206) ∧
      (r.status = 200 → sc.isHead = false → r.body = objBody sc.n sc.seed) ∧
      (r.status = 206 → ∃ raw, sc.range.bind parseRange = some raw ∧ r.parts = raw.filterMap (rfcPart sc.n) ∧ r.parts ≠ [] ∧
        (sc.isHead = false →
          r.body = expectedWire (partHdr (boundary key) sc.ctype sc.n) (termBound (boundary key)) (objBody sc.n sc.seed) r.parts ∧
          r.contentLength = some r.body.length)) := by
  simp only [serveStored]
  cases hr : sc.range.bind parseRange with
  | none => exact ⟨_, rfl, Or.inl rfl, fun _ hh => by simp [plainReply, hh], fun h => by simp [plainReply] at h⟩
  | some raw =>
    simp only
    split
    · exact ⟨_, rfl, Or.inl rfl, fun _ hh => by simp [plainReply, hh], fun h => by simp [plainReply] at h⟩
    · obtain ⟨v, hv, hpv⟩ : ∃ v, sc.range = some v ∧ parseRange v = some raw := by
        cases hsr : sc.range with
        | none => simp [hsr] at hr
        | some v => exact ⟨v, rfl, by simpa [hsr] using hr⟩
      cases hb : buildRangeHeader _ raw with
      | error e =>
        simp only
        rw [ignored_wire_full]
        exact ⟨_, rfl, Or.inl rfl, fun _ hh => by simp [hh], fun h => by simp [plainReply] at h⟩
      | ok cs =>
        simp only
        have hlk : sc.lenKnown = true := by
          have := (buildRangeHeader_ok _ raw cs hb).2.1
          simp only at this
          by_cases hk : sc.lenKnown = true
          · exact hk
          · simp [hk] at this
        have hcl : ((if sc.lenKnown = true then ((objBody sc.n sc.seed).length : Int) else -1)) = ((objBody sc.n sc.seed).length : Int) := by
          simp [hlk]
        have hb' := hb
        simp only [hcl] at hb'
        have hwire := honoured_wire_exact _ v raw cs (objBody sc.n sc.seed)
          (partHdr (boundary key) sc.ctype (objBody sc.n sc.seed).length) (termBound (boundary key))
          (if sc.isHead = true then 0 else m) sched hpv rfl hb'
        have hparts : cs.map RSpec.toC = raw.filterMap (rfcPart sc.n) := by
          have h1 := (buildRangeHeader_ok _ raw cs hb').2.2.1
          simp only at h1
          rw [h1, objBody_length]
          exact parts_are_requested_satisfiable v raw sc.n hpv
        have hne : cs.map RSpec.toC ≠ [] := by
          intro he
          exact (buildRangeHeader_ok _ raw cs hb').2.2.2.1 (List.map_eq_nil_iff.1 he)
        have hclen := content_length_exact _ raw cs (objBody sc.n sc.seed) key sc.ctype rfl hb'
        cases hh : sc.isHead with
        | true =>
          simp only [hh, if_true]
          exact ⟨_, rfl, Or.inr rfl, fun h => by simp at h, fun _ => ⟨raw, rfl, hparts, hne, fun h => by cases h⟩⟩
        | false =>
          simp only [hh, Bool.false_eq_true, if_false] at hwire ⊢
          rw [hwire]
          simp only
          refine ⟨_, rfl, Or.inr rfl, fun h => by simp at h, fun _ => ⟨raw, rfl, hparts, hne, fun _ => ⟨?_, ?_⟩⟩⟩
          · simp only [objBody_length]
          · simp only [hclen]

/-- The last sentence of the property, for the scenario-level model of all four store states of the rig (any first store answer,
any delivery schedule): the exchange never fails, the status is 200, 206 or 416, and a 416 (only ever relayed from the origin)
means the single requested range is unsatisfiable. -/
theorem respond_status (sc : Scenario) (key : Bytes) (m : Nat) (sched : Nat → Nat) :
    ∃ r, respond sc key m sched = .ok r ∧ (r.status = 200 ∨ r.status = 206 ∨ r.status = 416) ∧
      (r.status = 416 → ∃ s, sc.range.bind parseRange = some [s] ∧ rfcPart sc.n s = none) := by
  have hst : ∀ key m sched saw, ∃ r, serveStored sc key m sched saw = .ok r ∧ (r.status = 200 ∨ r.status = 206 ∨ r.status = 416) ∧
      (r.status = 416 → ∃ s, sc.range.bind parseRange = some [s] ∧ rfcPart sc.n s = none) := by
    intro key m sched saw
    obtain ⟨r, hr, hs, _, _⟩ := serveStored_sound sc key m sched saw
    refine ⟨r, hr, ?_, ?_⟩
    · rcases hs with h | h
      · exact Or.inl h
      · exact Or.inr (Or.inl h)
    · intro h; rcases hs with h' | h' <;> omega
  unfold respond
  cases hmode : sc.mode with
  | miss => exact hst _ _ _ _
  | mem => exact hst _ _ _ _
  | disk => exact hst _ _ _ _
  | fwd =>
    simp only [originAnswer]
    split
    · rename_i s hs
      split
      · exact ⟨_, rfl, Or.inr (Or.inl rfl), fun h => by simp at h⟩
      · rename_i hnone
        refine ⟨_, rfl, Or.inr (Or.inr rfl), fun _ => ⟨s, ?_, hnone⟩⟩
        exact ite_none_eq_some _ _ _ hs
    · exact hst _ _ _ _

/-! ### non-vacuity -/

-- the RFC semantics used as reference: last 5 of 100; from 95 of 100; 10-19 of 15; beyond the end; suffix of nothing
example : rfcPart 100 ⟨-1, 5⟩ = some ⟨95, 5⟩ := by decide
example : rfcPart 100 ⟨95, -1⟩ = some ⟨95, 5⟩ := by decide
example : rfcPart 15 ⟨10, 10⟩ = some ⟨10, 5⟩ := by decide
example : rfcPart 100 ⟨100, 1⟩ = none := by decide
example : rfcPart 100 ⟨-1, 0⟩ = none := by decide
-- "bytes=0-1,5-" parses; "bytes=5-3" does not
example : parseRange [98, 121, 116, 101, 115, 61, 48, 45, 49, 44, 53, 45] = some [⟨0, 2⟩, ⟨5, -1⟩] := by decide
example : parseRange [98, 121, 116, 101, 115, 61, 53, 45, 51] = none := by decide
-- a request that is served: 0-1 and 5- of a 10-byte object on a hit; the machine writes header, bytes, header, bytes, terminator
example : buildRangeHeader ⟨true, none, none, -1, 200, false, 10, 10⟩ [⟨0, 2⟩, ⟨5, -1⟩] = .ok [⟨0, 2⟩, ⟨5, 5⟩] := by decide
example : runHonoured (fun c => [255, UInt8.ofNat c.off]) [254] [10, 11, 12, 13, 14, 15, 16, 17, 18, 19] [⟨0, 2⟩, ⟨5, 5⟩] 0 (fun _ => 3)
    = .ok [255, 0, 10, 11, 255, 5, 15, 16, 17, 18, 19, 254] := by decide
-- the same through a disk-style first answer (7 body bytes with the headers) and 1-byte deliveries
example : runHonoured (fun c => [255, UInt8.ofNat c.off]) [254] [10, 11, 12, 13, 14, 15, 16, 17, 18, 19] [⟨0, 2⟩, ⟨5, 5⟩] 7 (fun _ => 1)
    = .ok [255, 0, 10, 11, 255, 5, 15, 16, 17, 18, 19, 254] := by decide
-- the guards: out-of-order specs are refused, unsatisfiable ones too, a 206 from upstream is not re-packed
example : buildRangeHeader ⟨true, none, none, -1, 200, false, 10, 10⟩ [⟨5, 2⟩, ⟨0, 2⟩] = .error .tooComplexRange := by decide
example : buildRangeHeader ⟨true, none, none, -1, 200, false, 10, 10⟩ [⟨10, -1⟩] = .error .canonFailed := by decide
example : buildRangeHeader ⟨false, none, none, 0, 206, true, 10, 10⟩ [⟨0, 2⟩] = .error .tooComplexResponse := by decide

end SquidModel.C15
