/-
C15 — Range responses contain exactly the requested bytes (work in progress: first obligations).
-/
import SquidModel.RangePack.Respond

namespace SquidModel.C15
open SquidModel.RangePack

/-- `mergeWith` is compiled out: canonisation keeps the surviving specs as they are, in request order. -/
theorem merging_disabled : SquidModel.Gen.RangePackConsts.mergingEnabled = false := by decide

end SquidModel.C15
