/-
C38 — PROXY protocol headers are parsed faithfully and incrementally.

Property theorems only. Model: `SquidModel.Proxyp` (Parser.lean = src/proxyp/Parser.cc + Header.cc, BinTok.lean =
src/parser/BinaryTokenizer.cc, shared Base/Tok*.lean = src/parser/Tokenizer.cc); lemmas in Proxyp/{Stable,Size,Port,V1,
V1Line,V2,Shape}.lean; constants in Gen/Proxyp.lean (regenerated from the staged tree).
Every statement is for all byte strings (no length bound) and for EVERY text-to-address resolver `ipOf` (libc
`getaddrinfo` behind `Ip::Address::GetHostByName`), unless it names the reference resolver `IpText.numeric`.

The property has three parts. (1) Incremental: proved in full (`definite_answer_stable`, `prefix_answers_like_full`,
`prefix_monotone`, `prefix_of_rejected`, `every_segmentation_same_answer`, `waiting_is_bounded`). (2) Faithful on well-formed headers: proved against a reference encoder for v1
(`v1_tcp_roundtrip`, `v1_unknown_roundtrip`) and v2 (`v2_inet_roundtrip`, `v2_inet6_roundtrip`, `v2_unspec_roundtrip`,
`v2_local_roundtrip`), with the exact consumed length (`consumed_exactly_the_header`); two classes of well-formed headers
are NOT parsed faithfully by the real code: `v1_tcp6_mapped_counterexample`, `v2_unix_counterexample`,
`v2_local_short_block_counterexample`. (3) Malformed headers are rejected: proved for oversized lines, out-of-range ports,
family mismatches, wrong v2 version/command/family/transport, short v2 address blocks, missing magic; FALSE in general — the counterexamples
`v1_trailing_garbage_counterexample`, `v1_lax_address_counterexample`, `v1_port_leading_zeros_counterexample`,
`v1_name_lookup_counterexample` are proved, and `v1_accepted_shape_partial` states exactly what acceptance does guarantee.
-/
import SquidModel.Proxyp.Shape
import SquidModel.Proxyp.Short
import SquidModel.Proxyp.Bounded
import SquidModel.Proxyp.IpText

namespace SquidModel.C38
open SquidModel.Proxyp SquidModel.Gen.Proxyp

/-! ## 1. incremental parsing -/

/-- A definite answer (a header or a rejection) never changes when more bytes arrive. -/
theorem definite_answer_stable (ipOf : IpOf) (p s : Bytes) (h : parse ipOf p ≠ .more) :
    parse ipOf (p ++ s) = parse ipOf p :=
  parse_stable ipOf p s h

/-- For any byte prefix, parsing either asks for more bytes or answers exactly like parsing the complete input
(the same header and size, or the same rejection). -/
theorem prefix_answers_like_full (ipOf : IpOf) (full p : Bytes) (hp : p <+: full) :
    parse ipOf p = .more ∨ parse ipOf p = parse ipOf full := by
  obtain ⟨s, rfl⟩ := hp
  by_cases h : parse ipOf p = .more
  · exact Or.inl h
  · exact Or.inr (parse_stable ipOf p s h).symm

/-- A rejected prefix means a rejected input (with the same error). -/
theorem prefix_of_rejected (ipOf : IpOf) (full p : Bytes) (hp : p <+: full) (e : Err) (h : parse ipOf p = .reject e) :
    parse ipOf full = .reject e := by
  obtain ⟨s, rfl⟩ := hp
  rw [parse_stable ipOf p s (by rw [h]; simp), h]

/-- The consumed size never exceeds the buffer. -/
theorem parsed_size_le (ipOf : IpOf) (buf : Bytes) (h : Header) (n : Nat) (hp : parse ipOf buf = .ok h n) :
    n ≤ buf.length :=
  (parse_ok_take hp).1

/-- Prefix monotonicity: if the complete input parses to header `h` of size `n`, every prefix shorter than `n` asks
for more bytes and every prefix of at least `n` bytes returns the same `h` and `n`. -/
theorem prefix_monotone (ipOf : IpOf) (full : Bytes) (h : Header) (n : Nat) (hfull : parse ipOf full = .ok h n)
    (p : Bytes) (hp : p <+: full) :
    (p.length < n → parse ipOf p = .more) ∧ (n ≤ p.length → parse ipOf p = .ok h n) := by
  constructor
  · intro hlt
    rcases prefix_answers_like_full ipOf full p hp with hm | he
    · exact hm
    · rw [hfull] at he
      have := parsed_size_le ipOf p h n he
      omega
  · intro hle
    obtain ⟨s, rfl⟩ := hp
    have htk := (parse_ok_take hfull).2
    have hpre : List.take n (p ++ s) = List.take n p := by
      rw [List.take_append_of_le_length hle]
    rw [hpre] at htk
    have := parse_stable ipOf (List.take n p) (List.drop n p) (by rw [htk]; simp)
    rw [List.take_append_drop] at this
    rw [this, htk]

/-- Every segmentation: however the input is cut into reads (the caller re-parses the accumulated buffer after every
read until the answer is definite, then consumes `size` octets), the connection leaves the PROXY phase with the answer
and the left-over bytes that one parse of the whole input gives. -/
theorem every_segmentation_same_answer (ipOf : IpOf) (segs : List Bytes) :
    feed ipOf [] segs = attempt ipOf segs.flatten := by
  have := feed_eq ipOf [] segs
  simpa using this

/-- "Need more" is bounded: the parser waits only while fewer than 12 octets without a signature, fewer than 107 octets
of a v1 line, or fewer than 12 + 4 + 65536 octets of a v2 frame are buffered; beyond that every answer is definite. -/
theorem waiting_is_bounded (ipOf : IpOf) (buf : Bytes) (h : parse ipOf buf = .more) :
    buf.length < magic2.length + 4 + 65536 ∧
    (magic1.isPrefixOf buf = true → buf.length < maxHeaderLength) ∧
    (magic1.isPrefixOf buf = false → magic2.isPrefixOf buf = false → buf.length < magic2.length) :=
  more_bounded h

/-- The parser has no undefined outcome (the port conversion `Tokenizer::int64` cannot overflow here). -/
theorem parse_never_undefined (ipOf : IpOf) (buf : Bytes) : parse ipOf buf ≠ .ub :=
  parse_ne_ub ipOf buf

/-! ## 2. the consumed length is exactly the header -/

/-- Every accepted buffer is a v2 frame (signature, version/command, family/transport, 16-bit length `L`, `L` octets;
size `16 + L`) or a v1 line (`PROXY`, 1..100 octets without CR, CRLF; size = line length ≤ 107). -/
theorem consumed_exactly_the_header (ipOf : IpOf) (buf : Bytes) (h : Header) (n : Nat) (hp : parse ipOf buf = .ok h n) :
    (h.version = 2 ∧ ∃ vc fp l1 l2 r3, buf = magic2 ++ vc :: fp :: l1 :: l2 :: r3 ∧ n = 16 + Two.len16 l1 l2 ∧
        Two.len16 l1 l2 ≤ r3.length ∧ h.command = vc.toNat &&& 0x0F ∧ h.command ≤ 1) ∨
    (h.version = 1 ∧ h.command = cmdProxy ∧ h.tlvs = [] ∧ ∃ inter rest, buf = magic1 ++ inter ++ 13 :: 10 :: rest ∧
        n = magic1.length + inter.length + 2 ∧ n ≤ maxHeaderLength ∧ inter ≠ [] ∧ (∀ b ∈ inter, b ≠ 13) ∧
        One.interior ipOf inter = .ok h) :=
  parse_ok_shape hp

/-! ## 3. well-formed headers are decoded faithfully (reference encoder round trips) -/

/-- PROXY/1.0 `PROXY TCP<f> <src> <dst> <sport> <dport>\r\n` followed by anything: for every spelling of the two
addresses that the resolver accepts (tokens over `[0-9A-Fa-f.:]`), both of the declared family, and every decimal
spelling of two ports ≤ 65535, the parsed addresses and ports are the encoded ones and the size is the line length. -/
theorem v1_tcp_roundtrip (ipOf : IpOf) (fam : UInt8) (s d sp dp sa da rest : Bytes)
    (hfam : addressFamilies.mem fam = true)
    (hsne : s ≠ []) (hsall : ∀ b ∈ s, ipChars.mem b = true) (hsip : ipOf s = some sa)
    (hdne : d ≠ []) (hdall : ∀ b ∈ d, ipChars.mem b = true) (hdip : ipOf d = some da)
    (hfamily : One.familyOf sa da = [fam])
    (hspne : sp ≠ []) (hspall : ∀ c ∈ sp, Tok.validDigit 10 c = true) (hspv : Tok.digitsValue 10 sp ≤ 65535)
    (hdpne : dp ≠ []) (hdpall : ∀ c ∈ dp, Tok.validDigit 10 c = true) (hdpv : Tok.digitsValue 10 dp ≤ 65535)
    (hlen : s.length + d.length + sp.length + dp.length + 9 ≤ maxInteriorLength) :
    parse ipOf (magic1 ++ One.tcpInterior fam s d sp dp ++ 13 :: 10 :: rest) =
      .ok { version := 1, command := cmdProxy, src := ⟨sa, Tok.digitsValue 10 sp⟩, dst := ⟨da, Tok.digitsValue 10 dp⟩ }
        (magic1.length + (s.length + d.length + sp.length + dp.length + 9) + 2) := by
  have hl := One.tcpInterior_length fam s d sp dp
  rw [parse_v1_line ipOf _ rest (by simp [One.tcpInterior])
    (One.tcpInterior_all fam s d sp dp hfam hsall hdall hspall hdpall) (by omega)]
  rw [One.interior_tcp ipOf fam s d sp dp sa da hfam hsne hsall hsip hdne hdall hdip hfamily hspne hspall hspv hdpne hdpall hdpv]
  simp only [hl]

/-- `PROXY UNKNOWN<anything without CR>\r\n`: accepted, addresses ignored, size = line length. -/
theorem v1_unknown_roundtrip (ipOf : IpOf) (tail rest : Bytes) (hall : ∀ b ∈ tail, interiorChars.mem b = true)
    (hlen : 1 + protoUnknown.length + tail.length ≤ maxInteriorLength) :
    parse ipOf (magic1 ++ (32 :: (protoUnknown ++ tail)) ++ 13 :: 10 :: rest) =
      .ok { version := 1, command := cmdProxy, ignoreAddresses := true }
        (magic1.length + (1 + protoUnknown.length + tail.length) + 2) := by
  have hint : One.interior ipOf (32 :: (protoUnknown ++ tail)) = .ok { version := 1, command := cmdProxy, ignoreAddresses := true } := by
    unfold One.interior
    simp only [Tok.skipChar_eq, Tok.ofBytes, if_true, skip_eq _ _ (show protoTcp ≠ [] by decide),
      skip_eq _ _ (show protoUnknown ≠ [] by decide)]
    have h1 : protoTcp.isPrefixOf (protoUnknown ++ tail) = false := by
      simp [protoTcp, protoUnknown, List.isPrefixOf]
    have h2 : protoUnknown.isPrefixOf (protoUnknown ++ tail) = true := List.isPrefixOf_iff_prefix.mpr ⟨tail, rfl⟩
    simp [h1, h2]
  have hall' : ∀ b ∈ (32 :: (protoUnknown ++ tail)), interiorChars.mem b = true := by
    intro b hb
    simp only [List.mem_cons, List.mem_append] at hb
    rcases hb with rfl | hb | hb
    · decide
    · revert b; decide
    · exact hall b hb
  rw [parse_v1_line ipOf _ rest (by simp) hall' (by simp only [List.length_cons, List.length_append]; omega), hint]
  simp only [List.length_cons, List.length_append]
  congr 1
  omega

/-- PROXY/2.0, command PROXY, family INET, transport STREAM or DGRAM, any TLV vector: addresses (as IPv4-mapped
`Ip::Address`es), ports and TLVs are the encoded ones; the size is 16 + address block + TLVs; trailing bytes are left. -/
theorem v2_inet_roundtrip (ipOf : IpOf) (proto : Nat) (hproto : proto = tpStream ∨ proto = tpDgram) (s d : Bytes) (sp dp : Nat)
    (tlvs : List Tlv) (rest : Bytes)
    (hs : s.length = 4) (hd : d.length = 4) (hsp : sp < 65536) (hdp : dp < 65536) (hwf : ∀ t ∈ tlvs, Two.Tlv.wf t)
    (hlen : (Two.block s d sp dp ++ Two.encTlvs tlvs).length < 65536) :
    parse ipOf (Two.encV2 cmdProxy afInet proto (Two.block s d sp dp ++ Two.encTlvs tlvs) ++ rest) =
      .ok { version := 2, command := cmdProxy, src := ⟨map4to6 s, sp⟩, dst := ⟨map4to6 d, dp⟩, tlvs := tlvs }
        (16 + (Two.block s d sp dp ++ Two.encTlvs tlvs).length) := by
  have hp : proto ≤ 2 ∧ proto ≠ tpUnspecified := by rcases hproto with rfl | rfl <;> decide
  rw [Two.parse_encV2 ipOf _ _ _ _ rest (by decide) (by decide) hp.1 hlen,
    Two.body_proxy_inet proto hp.2 s d sp dp tlvs hs hd hsp hdp hwf]

/-- The same for family INET6 (addresses stored as the 16 encoded octets). -/
theorem v2_inet6_roundtrip (ipOf : IpOf) (proto : Nat) (hproto : proto = tpStream ∨ proto = tpDgram) (s d : Bytes) (sp dp : Nat)
    (tlvs : List Tlv) (rest : Bytes)
    (hs : s.length = 16) (hd : d.length = 16) (hsp : sp < 65536) (hdp : dp < 65536) (hwf : ∀ t ∈ tlvs, Two.Tlv.wf t)
    (hlen : (Two.block s d sp dp ++ Two.encTlvs tlvs).length < 65536) :
    parse ipOf (Two.encV2 cmdProxy afInet6 proto (Two.block s d sp dp ++ Two.encTlvs tlvs) ++ rest) =
      .ok { version := 2, command := cmdProxy, src := ⟨s, sp⟩, dst := ⟨d, dp⟩, tlvs := tlvs }
        (16 + (Two.block s d sp dp ++ Two.encTlvs tlvs).length) := by
  have hp : proto ≤ 2 ∧ proto ≠ tpUnspecified := by rcases hproto with rfl | rfl <;> decide
  rw [Two.parse_encV2 ipOf _ _ _ _ rest (by decide) (by decide) hp.1 hlen,
    Two.body_proxy_inet6 proto hp.2 s d sp dp tlvs hs hd hsp hdp hwf]

/-- Unspecified family or transport (either command): accepted, the whole block is skipped, addresses ignored. -/
theorem v2_unspec_roundtrip (ipOf : IpOf) (cmd fam proto : Nat) (hc : cmd ≤ 1) (hf : fam ≤ 3) (hp : proto ≤ 2)
    (hu : proto = tpUnspecified ∨ fam = afUnspecified) (payload rest : Bytes) (hlen : payload.length < 65536) :
    parse ipOf (Two.encV2 cmd fam proto payload ++ rest) =
      .ok { version := 2, command := cmd, ignoreAddresses := true } (16 + payload.length) := by
  rw [Two.parse_encV2 ipOf _ _ _ _ rest hc hf hp hlen, Two.body_unspec cmd fam proto hu payload]

/-- Command LOCAL with a complete INET block: accepted with the exact size, nothing is forwarded
(`hasForwardedAddresses` is false) and whatever follows the addresses inside the header is skipped. -/
theorem v2_local_roundtrip (ipOf : IpOf) (proto : Nat) (hproto : proto = tpStream ∨ proto = tpDgram) (s d : Bytes) (sp dp : Nat)
    (tail rest : Bytes) (hs : s.length = 4) (hd : d.length = 4) (hsp : sp < 65536) (hdp : dp < 65536)
    (hlen : (Two.block s d sp dp ++ tail).length < 65536) :
    ∃ h, parse ipOf (Two.encV2 cmdLocal afInet proto (Two.block s d sp dp ++ tail) ++ rest) =
        .ok h (16 + (Two.block s d sp dp ++ tail).length) ∧
      h.command = cmdLocal ∧ h.hasForwardedAddresses = false ∧ h.tlvs = [] := by
  have hp : proto ≤ 2 ∧ proto ≠ tpUnspecified := by rcases hproto with rfl | rfl <;> decide
  refine ⟨{ version := 2, command := cmdLocal, src := ⟨map4to6 s, sp⟩, dst := ⟨map4to6 d, dp⟩ }, ?_, rfl, rfl, rfl⟩
  rw [Two.parse_encV2 ipOf _ _ _ _ rest (by decide) (by decide) hp.1 hlen,
    Two.body_local_inet proto hp.2 s d sp dp tail hs hd hsp hdp]

/-! ## 4. malformed headers that ARE rejected -/

/-- Oversized v1 line: more than 100 octets without CR after `PROXY` is rejected, whatever follows. -/
theorem v1_oversized_rejected (ipOf : IpOf) (junk : Bytes) (hlen : maxInteriorLength < junk.length)
    (hall : ∀ b ∈ junk.take (maxInteriorLength + 1), interiorChars.mem b = true) :
    parse ipOf (magic1 ++ junk) = .reject .v1MalformedHeader :=
  v1_oversized ipOf junk hlen hall

/-- Bad port: a digit run denoting more than 65535 is never accepted by `ExtractPort`. -/
theorem v1_port_out_of_range_rejected (t : Tok) (ts : Bool) (hbig : 65535 < Tok.digitsValue 10 (decRun t.buf)) :
    ∃ e, One.extractPort t ts = .error (.reject e) ∧
      (e = .v1InvalidPort ∨ e = .v1MalformedPort ∨ e = .v1GarbageAfterPort) := by
  rw [One.extractPort_eq]
  have hp : ((Tok.digitsValue 10 (decRun t.buf) : Nat) : Int) > portMax := by unfold portMax; omega
  repeat' split
  all_goals first
    | exact ⟨_, rfl, Or.inl rfl⟩
    | exact ⟨_, rfl, Or.inr (Or.inl rfl)⟩
    | exact ⟨_, rfl, Or.inr (Or.inr rfl)⟩
    | (exfalso; omega)

/-- Family mismatch: a TCP line whose two addresses are not both of the declared family is rejected. -/
theorem v1_family_mismatch_rejected (ipOf : IpOf) (fam : UInt8) (s d tail sa da : Bytes) (par : Nat) (h0 : Header)
    (hfam : addressFamilies.mem fam = true)
    (hsne : s ≠ []) (hsall : ∀ b ∈ s, ipChars.mem b = true) (hsip : ipOf s = some sa)
    (hdne : d ≠ []) (hdall : ∀ b ∈ d, ipChars.mem b = true) (hdip : ipOf d = some da)
    (hfamily : One.familyOf sa da ≠ [fam]) :
    One.parseAddresses ipOf ⟨fam :: 32 :: (s ++ 32 :: (d ++ 32 :: tail)), par⟩ h0 = .error (.reject .v1FamilyMismatch) :=
  One.parseAddresses_mismatch ipOf fam s d tail sa da par h0 hfam hsne hsall hsip hdne hdall hdip hfamily

/-- v2: a version nibble other than 2 is rejected as soon as the octet after the signature is there. -/
theorem v2_bad_version_rejected (ipOf : IpOf) (vc : UInt8) (r : Bytes) (hv : (vc.toNat &&& 0xF0) >>> 4 ≠ 2) :
    parse ipOf (magic2 ++ vc :: r) = .reject (.v2Version ((vc.toNat &&& 0xF0) >>> 4)) := by
  rw [parse_eq]
  have : magic2.isPrefixOf (magic2 ++ vc :: r) = true := List.isPrefixOf_iff_prefix.mpr ⟨_, rfl⟩
  simp only [this, if_true, List.drop_left, Two.parse_eq, hv, ne_eq, not_false_eq_true, toRes]

/-- v2: commands other than LOCAL and PROXY are rejected. -/
theorem v2_bad_command_rejected (ipOf : IpOf) (vc : UInt8) (r : Bytes) (hv : (vc.toNat &&& 0xF0) >>> 4 = 2)
    (hc : vc.toNat &&& 0x0F > cmdProxy) :
    parse ipOf (magic2 ++ vc :: r) = .reject (.v2Command (vc.toNat &&& 0x0F)) := by
  rw [parse_eq]
  have : magic2.isPrefixOf (magic2 ++ vc :: r) = true := List.isPrefixOf_iff_prefix.mpr ⟨_, rfl⟩
  simp only [this, if_true, List.drop_left, Two.parse_eq, hv, ne_eq, not_true_eq_false, if_false, hc, toRes]

/-- v2: unknown address families and transports are rejected. -/
theorem v2_bad_family_or_transport_rejected (ipOf : IpOf) (vc fp : UInt8) (r : Bytes) (hv : (vc.toNat &&& 0xF0) >>> 4 = 2)
    (hc : ¬ vc.toNat &&& 0x0F > cmdProxy) (hf : (fp.toNat &&& 0xF0) >>> 4 > afUnix ∨ fp.toNat &&& 0x0F > tpDgram) :
    ∃ e, parse ipOf (magic2 ++ vc :: fp :: r) = .reject e ∧
      (e = .v2Family ((fp.toNat &&& 0xF0) >>> 4) ∨ e = .v2Proto (fp.toNat &&& 0x0F)) := by
  rw [parse_eq]
  have : magic2.isPrefixOf (magic2 ++ vc :: fp :: r) = true := List.isPrefixOf_iff_prefix.mpr ⟨_, rfl⟩
  simp only [this, if_true, List.drop_left, Two.parse_eq, hv, ne_eq, not_true_eq_false, if_false, hc]
  by_cases h3 : (fp.toNat &&& 0xF0) >>> 4 > afUnix
  · exact ⟨_, by simp only [h3, if_true, toRes], Or.inl rfl⟩
  · have h4 : fp.toNat &&& 0x0F > tpDgram := by rcases hf with h | h; exact absurd h h3; exact h
    exact ⟨_, by simp only [h3, if_false, h4, if_true, toRes], Or.inr rfl⟩

/-- v2: a header block shorter than the address block of its family (12, 36, 216 octets) is rejected, for both commands
and whatever follows the header. -/
theorem v2_short_address_block_rejected (ipOf : IpOf) (cmd fam proto : Nat) (hc : cmd ≤ 1)
    (hf : fam = afInet ∨ fam = afInet6 ∨ fam = afUnix) (hp : proto = tpStream ∨ proto = tpDgram)
    (payload rest : Bytes) (hl : payload.length < Two.addrBlockLen fam) :
    parse ipOf (Two.encV2 cmd fam proto payload ++ rest) = .reject .truncated := by
  have hp' : proto ≤ 2 ∧ proto ≠ tpUnspecified := by rcases hp with rfl | rfl <;> decide
  have hf' : fam ≤ 3 := by rcases hf with rfl | rfl | rfl <;> decide
  have hlen : payload.length < 65536 := by
    have : Two.addrBlockLen fam ≤ 216 := by rcases hf with rfl | rfl | rfl <;> decide
    omega
  rw [Two.parse_encV2 ipOf cmd fam proto payload rest hc hf' hp'.1 hlen, Two.body_short cmd fam proto hf hp'.2 payload hl]

/-- Neither signature: 12 or more octets are rejected, fewer are "need more". -/
theorem no_magic_rejected (ipOf : IpOf) (buf : Bytes) (h2 : magic2.isPrefixOf buf = false) (h1 : magic1.isPrefixOf buf = false) :
    parse ipOf buf = if magic2.length ≤ buf.length then .reject .badMagic else .more :=
  no_magic ipOf buf h2 h1

/-! ## 5. what acceptance guarantees, and where the real code deviates from the protocol

FULL STATEMENT (false of the real code): "a v1 line is accepted iff it is `PROXY TCP4|TCP6 SP addr SP addr SP port SP port
CRLF` with canonical addresses of the declared family and ports in the shortest decimal form, or `PROXY UNKNOWN ... CRLF`".
What IS guaranteed is `v1_accepted_shape_partial`; the excluded regions are exactly the `rest`, the resolver's
acceptance of non-canonical tokens, and leading zeros — each with a proved counterexample below. -/

/-- An accepted v1 TCP interior has the shape `SP TCP <f> SP s SP d SP sp SP dp rest` where `<f>` is 4 or 6 and equals
the actual family of both resolved addresses, `s`/`d` are non-empty tokens over `[0-9A-Fa-f.:]` accepted by the
resolver, `sp`/`dp` are non-empty digit runs whose exact values (≤ 65535) are the parsed ports; `rest` (not starting
with a digit) is ignored unless the tree checks the line end. -/
theorem v1_accepted_shape_partial (ipOf : IpOf) (t : Tok) (h0 h : Header) (hp : One.parseAddresses ipOf t h0 = .ok h) :
    ∃ fam s d sp dp rest sa da,
      t.buf = fam :: 32 :: (s ++ 32 :: (d ++ 32 :: (sp ++ 32 :: (dp ++ rest)))) ∧
      addressFamilies.mem fam = true ∧
      s ≠ [] ∧ (∀ b ∈ s, ipChars.mem b = true) ∧ ipOf s = some sa ∧
      d ≠ [] ∧ (∀ b ∈ d, ipChars.mem b = true) ∧ ipOf d = some da ∧
      One.familyOf sa da = [fam] ∧
      sp ≠ [] ∧ (∀ c ∈ sp, Tok.validDigit 10 c = true) ∧ Tok.digitsValue 10 sp ≤ 65535 ∧
      dp ≠ [] ∧ (∀ c ∈ dp, Tok.validDigit 10 c = true) ∧ Tok.digitsValue 10 dp ≤ 65535 ∧
      stops (Tok.validDigit 10) rest ∧ (v1ChecksLineEnd = true → rest = []) ∧
      h = { h0 with src := ⟨sa, Tok.digitsValue 10 sp⟩, dst := ⟨da, Tok.digitsValue 10 dp⟩ } :=
  One.parseAddresses_ok hp

/-- the bytes of an ASCII string literal, for the witnesses below -/
def ascii (s : String) : Bytes := s.toList.map (fun c => UInt8.ofNat c.toNat)

/-- Finding C38-v1-trailing-garbage: `PROXY TCP4 1.2.3.4 5.6.7.8 10 20x\r\n` is accepted as port 20
(holds as long as the tree does not check the end of the line). -/
theorem v1_trailing_garbage_counterexample (hflag : v1ChecksLineEnd = false) :
    parse IpText.numeric (ascii "PROXY TCP4 1.2.3.4 5.6.7.8 10 20x\r\n") =
      .ok { version := 1, command := 1, src := ⟨[0,0,0,0,0,0,0,0,0,0,255,255,1,2,3,4], 10⟩,
            dst := ⟨[0,0,0,0,0,0,0,0,0,0,255,255,5,6,7,8], 20⟩ } 35 := by
  revert hflag; decide +kernel

/-- Finding C38-v1-lax-address: `PROXY TCP4 1 2 3 4\r\n` is accepted as 0.0.0.1 → 0.0.0.2 with the reference
(libc-like) resolver; `010.1.1.1` is read as 8.1.1.1 (octal). -/
theorem v1_lax_address_counterexample :
    parse IpText.numeric (ascii "PROXY TCP4 1 2 3 4\r\n") =
      .ok { version := 1, command := 1, src := ⟨[0,0,0,0,0,0,0,0,0,0,255,255,0,0,0,1], 3⟩,
            dst := ⟨[0,0,0,0,0,0,0,0,0,0,255,255,0,0,0,2], 4⟩ } 20 ∧
    IpText.numeric (ascii "010.1.1.1") = some [0,0,0,0,0,0,0,0,0,0,255,255,8,1,1,1] := by
  decide +kernel

/-- Finding C38-v1-port-leading-zeros: `080` and `00` are accepted as 80 and 0. -/
theorem v1_port_leading_zeros_counterexample :
    parse IpText.numeric (ascii "PROXY TCP4 1.2.3.4 5.6.7.8 080 00\r\n") =
      .ok { version := 1, command := 1, src := ⟨[0,0,0,0,0,0,0,0,0,0,255,255,1,2,3,4], 80⟩,
            dst := ⟨[0,0,0,0,0,0,0,0,0,0,255,255,5,6,7,8], 0⟩ } 35 := by
  decide +kernel

/-- Finding C38-v1-dns-lookup: the token `abc.de` is not numeric, the parser hands it to the resolver (here the
numeric one, which refuses it); `Gen.resolvesNames` records that the staged tree's resolver is allowed to consult name
services for it. The rejection carries the token that was looked up. -/
theorem v1_name_lookup_counterexample (hflag : resolvesNames = true) :
    parse IpText.numeric (ascii "PROXY TCP4 abc.de 1.2.3.4 1 2\r\n") = .reject (.v1InvalidIp (ascii "abc.de")) ∧
    resolvesNames = true := by
  refine ⟨by decide +kernel, hflag⟩

/-- Finding C38-v1-tcp6-mapped-rejected: a well-formed TCP6 line with IPv4-mapped addresses (as `inet_ntop` prints
them) is rejected, because a mapped `Ip::Address` counts as IPv4. -/
theorem v1_tcp6_mapped_counterexample :
    parse IpText.numeric (ascii "PROXY TCP6 ::ffff:192.0.2.1 ::ffff:192.0.2.2 1 2\r\n") = .reject .v1FamilyMismatch := by
  decide +kernel

/-- Finding C38-v2-unix-forwarded: for every AF_UNIX PROXY header the result claims forwarded addresses although both
are the empty `Ip::Address` (`::`, port 0) — as long as the tree does not mark AF_UNIX headers address-less. -/
theorem v2_unix_counterexample (hflag : unixIgnoresAddresses = false) (ipOf : IpOf) (proto : Nat) (hproto : proto = tpStream ∨ proto = tpDgram) (u : Bytes)
    (tlvs : List Tlv) (rest : Bytes) (hu : u.length = unixAddrLen) (hwf : ∀ t ∈ tlvs, Two.Tlv.wf t)
    (hlen : (u ++ Two.encTlvs tlvs).length < 65536) :
    ∃ h, parse ipOf (Two.encV2 cmdProxy afUnix proto (u ++ Two.encTlvs tlvs) ++ rest) = .ok h (16 + (u ++ Two.encTlvs tlvs).length) ∧
      h.hasForwardedAddresses = true ∧ h.src = IpAddr.empty ∧ h.dst = IpAddr.empty ∧ h.tlvs = tlvs := by
  have hp : proto ≤ 2 ∧ proto ≠ tpUnspecified := by rcases hproto with rfl | rfl <;> decide
  refine ⟨{ version := 2, command := cmdProxy, tlvs := tlvs }, ?_, rfl, rfl, rfl, rfl⟩
  rw [Two.parse_encV2 ipOf _ _ _ _ rest (by decide) (by decide) hp.1 hlen, Two.body_proxy_unix hflag proto hp.2 u tlvs hu hwf]

/-- Finding C38-v2-local-block-parsed: a LOCAL header with family INET and an empty block (the receiver must ignore
family and block of a LOCAL header) is rejected. -/
theorem v2_local_short_block_counterexample :
    parse IpText.numeric (Two.encV2 cmdLocal afInet tpStream []) = .reject .truncated := by
  decide +kernel

/-! ## non-vacuity -/

/-- a v1 header followed by request bytes -/
example :
    parse IpText.numeric (ascii "PROXY TCP6 2001:db8::1 ::1 65535 0\r\nGET") =
      .ok { version := 1, command := 1, src := ⟨[0x20,1,0xd,0xb8,0,0,0,0,0,0,0,0,0,0,0,1], 65535⟩,
            dst := ⟨[0,0,0,0,0,0,0,0,0,0,0,0,0,0,0,1], 0⟩ } 36 := by decide +kernel

/-- the hypotheses of `v1_tcp_roundtrip` are satisfiable with the reference resolver -/
example : IpText.numeric (ascii "192.168.0.1") = some [0,0,0,0,0,0,0,0,0,0,255,255,192,168,0,1] ∧
    One.familyOf [0,0,0,0,0,0,0,0,0,0,255,255,192,168,0,1] [0,0,0,0,0,0,0,0,0,0,255,255,10,0,0,1] = [52] ∧
    Tok.digitsValue 10 (ascii "443") = 443 := by decide +kernel

/-- a v2 header with two TLVs followed by payload, through the encoder -/
example :
    parse IpText.numeric (Two.encV2 1 1 1 (Two.block [1,2,3,4] [5,6,7,8] 10 20 ++ Two.encTlvs [⟨1, [104, 50]⟩, ⟨4, []⟩]) ++ [71]) =
      .ok { version := 2, command := 1, src := ⟨[0,0,0,0,0,0,0,0,0,0,255,255,1,2,3,4], 10⟩,
            dst := ⟨[0,0,0,0,0,0,0,0,0,0,255,255,5,6,7,8], 20⟩, tlvs := [⟨1, [104, 50]⟩, ⟨4, []⟩] } 36 := by decide +kernel

/-- the retry loop over three reads (cut inside the signature and inside the address block) -/
example :
    feed IpText.numeric [] [[13,10,13,10,0,13,10], [81,85,73,84,10,0x21,0x11,0,12,1,2], [3,4,5,6,7,8,0,10,0,20,71,69,84]] =
      ⟨.ok { version := 2, command := 1, src := ⟨[0,0,0,0,0,0,0,0,0,0,255,255,1,2,3,4], 10⟩,
             dst := ⟨[0,0,0,0,0,0,0,0,0,0,255,255,5,6,7,8], 20⟩ } 28, [71,69,84]⟩ := by decide +kernel

/-- rejections and "need more" are reachable -/
example : parse IpText.numeric (ascii "PROXY TCP4 1.2.3.4 ::1 1 2\r\n") = .reject .v1FamilyMismatch := by decide +kernel
example : parse IpText.numeric (ascii "PROXY TCP4 1.2.3.4 5.6.7.8 65536 2\r\n") = .reject .v1InvalidPort := by decide +kernel
example : parse IpText.numeric (ascii "PROXY TCP4 1.2.3.4 5.6.7.8 1") = .more := by decide +kernel
example : parse IpText.numeric (magic2 ++ [0x21, 0x11, 0, 12, 1, 2, 3]) = .more := by decide +kernel
example : parse IpText.numeric (magic2 ++ [0x21, 0x11, 0, 11, 1, 2, 3, 4, 5, 6, 7, 8, 0, 1, 0]) = .reject .truncated := by decide +kernel

end SquidModel.C38
