/-
C26 — Content-Length is accepted only when unambiguous. (first version; theorems follow)
-/
import SquidModel.Header.Parse

namespace SquidModel.C26
open SquidModel.Header

/-- `Content-Length: 5,<VT>,7` with the relaxed parser: the framing length 5 is used although the field also carries 7. -/
theorem list_truncated_counterexample :
    parseHeader ⟨true, .request, false⟩
      [67,111,110,116,101,110,116,45,76,101,110,103,116,104,58,32,53,44,11,44,55,13,10]
    = .ok ⟨[⟨idContentLength, nameOf idContentLength, [53]⟩], false, false⟩ := by decide +kernel

end SquidModel.C26
