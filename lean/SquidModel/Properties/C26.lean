/-
C26 — Content-Length is accepted only when unambiguous.

  "A message's framing length is taken from Content-Length only when every Content-Length value is a valid
   non-negative decimal and all values are equal. Duplicates of an equal value are accepted only with relaxed
   parsing. Otherwise the message is treated as having bad framing, and a value that differs from the one-token
   decimal in the field is never used."

Model: `SquidModel.Header.parseHeader` (= `HttpHeader::parse` with `Http::ContentLengthInterpreter`, `strListGetItem`,
`httpHeaderParseOffset`/`strtoll`). Specification: `SquidModel.Header.ClSpec` (`fieldValues`, `decimalValue`).
`rawEntries cfg block` are the fields of the block as `HttpHeaderEntry::parse` produces them (C25 ties them to the
text of the block); `clValues raw` are the values of its Content-Length fields in order.

Two defects found while building this check were repaired in squid: 43aac5c (`strListGetItem` skips VT/FF between items like
the other `isspace` bytes) and 95b4622 (`checkList`: a list without any member, or one that ends on a member that is empty after
trimming, is bad framing). The model follows the repaired code, and the statements below hold at full strength. What the code
did before is recorded in the `prefix_…` theorems at the end (about the pre-fix definitions in `Header/PostFix.lean`).
All theorems are for every block and every configuration, without size bounds.
-/
import SquidModel.Header.PostFix

namespace SquidModel.C26
open SquidModel SquidModel.Header

/-- **Soundness.** Whenever `parse` succeeds and the header then carries a Content-Length `n` (`getInt64(CONTENT_LENGTH)`), the message
has no Transfer-Encoding field, Content-Length is not prohibited for it, it is not flagged `conflictingContentLength`,
with the strict parser it has exactly one Content-Length field and that field is not a list, `n ≥ 0`, there is at least one
Content-Length field, every such field carries at least one value, and *every* value of *every* Content-Length field is a decimal
that fits int64 and denotes `n`. -/
theorem framing_length_sound (cfg : Cfg) (block : Bytes) (r : HdrResult) (n : Int)
    (h : parseHeader cfg block = .ok r) (hn : contentLength r.entries = some n) :
    ∃ raw, rawEntries cfg block = some raw ∧ cfg.prohibited = false ∧ hasTe raw = false ∧
      r.conflictingContentLength = false ∧
      (cfg.relaxed = false → ∃ v, clValues raw = [v] ∧ v.contains 44 = false) ∧
      0 ≤ n ∧ clValues raw ≠ [] ∧ AllDenote cfg.relaxed (clValues raw) n.toNat := by
  rw [parseHeader_eq] at h
  cases hraw : rawEntries cfg block with
  | none => simp [hraw] at h
  | some raw =>
    simp only [hraw] at h
    cases hfold : clFold cfg.relaxed [] {} raw with
    | none => simp [hfold] at h
    | some p =>
      obtain ⟨es, cl⟩ := p
      simp only [hfold] at h
      obtain ⟨hrun, hshape, hstrict, hgood⟩ := run_facts cfg raw es cl hfold
      obtain ⟨_, _, hnon, _, _⟩ := clFold_spec cfg.relaxed raw [] {} [] es cl (shape_init cfg.relaxed) hfold
      have hte_eq : es.any (fun e => e.id == idTransferEncoding) = hasTe raw := by
        unfold hasTe
        rw [any_te_filter es, any_te_filter raw]
        simp only [List.filter_nil, List.nil_append] at hnon
        rw [hnon]
      -- Content-Length survives only in the plain case
      by_cases hc : cfg.prohibited = true ∨ es.any (fun e => e.id == idTransferEncoding) = true
      · have := (finish_ignored cfg es cl r hc h).1
        rw [contentLength_none_of_noCl _ this] at hn
        exact absurd hn (by simp)
      · have hp : cfg.prohibited = false := by
          cases hpp : cfg.prohibited with
          | false => rfl
          | true => exact absurd (Or.inl hpp) hc
        have hte : hasTe raw = false := by
          rw [← hte_eq]
          cases ht : es.any (fun e => e.id == idTransferEncoding) with
          | false => rfl
          | true => exact absurd (Or.inr ht) hc
        obtain ⟨r', hr', hcl, hconf, _, _, _, _⟩ := finish_plain cfg raw es cl hfold hp hte
        rw [hr'] at h
        have hrr : r' = r := by simpa using h
        subst hrr
        rw [hn] at hcl
        -- the decision is `some n`: not bad, good, value n
        have hdec : cl.sawBad = false ∧ cl.sawGood = true ∧ cl.value = n := by
          unfold clDecision at hcl
          cases hb : cl.sawBad with
          | true => simp [hb] at hcl
          | false =>
            cases hg : cl.sawGood with
            | false => simp [hb, hg] at hcl
            | true => simp [hb, hg] at hcl; exact ⟨rfl, rfl, hcl.symm⟩
        refine ⟨raw, rfl, hp, hte, by rw [hconf]; exact hdec.1, ?_, ?_⟩
        · intro hr
          have := hshape.2 hdec.1 (hstrict hr).2
          obtain ⟨v, hv, hc, _⟩ := this.2 hdec.2.1
          exact ⟨v, hv, hc⟩
        · have hb : ∀ v ∈ clValues raw, BlankOk v := fun v _ => blankOk_all v
          have hg := (hgood hb hdec.1).1 hdec.2.1
          rw [hdec.2.2] at hg
          have hvne := runFields_values_ne cfg.relaxed (clValues raw) {} rfl (by rw [← hrun]; exact hdec.1)
          refine ⟨hg.1, ?_, ?_⟩
          · intro hnil
            rw [hnil] at hrun
            simp only [runFields, List.foldl_nil] at hrun
            rw [hrun] at hdec; simp at hdec
          · intro v hv
            exact ⟨hvne v hv, fun x hx => hg.2 x (List.mem_flatMap.mpr ⟨v, hv, hx⟩)⟩

/-- **"Otherwise the message is treated as having bad framing".** For a syntactically acceptable block with at least one Content-Length
field, no Transfer-Encoding and no prohibition: if it is NOT the case that all Content-Length fields carry a value and all their
values denote one number (and, strict parser, that there is exactly one such field), then `parse` fails (strict) or succeeds with
`conflictingContentLength()` set and no Content-Length left in the header (relaxed). -/
theorem otherwise_bad (cfg : Cfg) (block : Bytes) (raw : List Entry)
    (hraw : rawEntries cfg block = some raw) (hp : cfg.prohibited = false) (hte : hasTe raw = false)
    (hne : clValues raw ≠ [])
    (hamb : ¬ ∃ n, AllDenote cfg.relaxed (clValues raw) n ∧ (cfg.relaxed = false → (clValues raw).length = 1)) :
    parseHeader cfg block = .reject ∨
    (cfg.relaxed = true ∧ ∃ r, parseHeader cfg block = .ok r ∧ r.conflictingContentLength = true ∧
      contentLength r.entries = none ∧ r.entries.filter isCl = []) := by
  rw [parseHeader_eq]
  simp only [hraw]
  cases hfold : clFold cfg.relaxed [] {} raw with
  | none => exact Or.inl rfl
  | some p =>
    obtain ⟨es, cl⟩ := p
    simp only []
    obtain ⟨hrun, hshape, hstrict, hgood⟩ := run_facts cfg raw es cl hfold
    obtain ⟨r, hr, hcl, hconf, _, _, hlen, hents⟩ := finish_plain cfg raw es cl hfold hp hte
    by_cases hbad : cl.sawBad = true
    · right
      have hrel : cfg.relaxed = true := by
        cases hrx : cfg.relaxed with
        | true => rfl
        | false => have := (hstrict hrx).1; rw [hbad] at this; exact absurd this (by simp)
      refine ⟨hrel, r, hr, by rw [hconf]; exact hbad, by rw [hcl]; simp [clDecision, hbad], ?_⟩
      cases hf : r.entries.filter isCl with
      | nil => rfl
      | cons e t =>
        obtain ⟨k, hk, _⟩ := hents e (by rw [hf]; simp)
        simp [clDecision, hbad] at hk
    · exfalso
      have hbad' : cl.sawBad = false := by simpa using hbad
      have hblank : ∀ v ∈ clValues raw, BlankOk v := fun v _ => blankOk_all v
      have hvalues := runFields_values_ne cfg.relaxed (clValues raw) {} rfl (by rw [← hrun]; exact hbad')
      have hg := hgood hblank hbad'
      apply hamb
      by_cases hsg : cl.sawGood = true
      · refine ⟨cl.value.toNat, ?_, ?_⟩
        · intro v hv
          exact ⟨hvalues v hv, fun x hx => (hg.1 hsg).2 x (List.mem_flatMap.mpr ⟨v, hv, hx⟩)⟩
        · intro hr
          obtain ⟨v, hv, _, _⟩ := (hshape.2 hbad' (hstrict hr).2).2 hsg
          rw [hv]; rfl
      · have hsg' : cl.sawGood = false := by simpa using hsg
        have hnil := hg.2 hsg'
        cases hcv : clValues raw with
        | nil => exact absurd hcv hne
        | cons v vs =>
          have := hvalues v (by rw [hcv]; simp)
          rw [hcv] at hnil
          simp only [List.flatMap_cons, List.append_eq_nil_iff] at hnil
          exact absurd hnil.1 this

/-- "A value that differs from the one-token decimal in the field is never used": after a successful `parse` the header holds at
most one Content-Length entry, and the text of that entry is a decimal (surrounding whitespace aside) that denotes exactly the
number `getInt64(CONTENT_LENGTH)` returns — both when the original field was kept and when the value was re-written by the sanitiser. -/
theorem never_uses_other_value (cfg : Cfg) (block : Bytes) (r : HdrResult) (h : parseHeader cfg block = .ok r) :
    (r.entries.filter isCl).length ≤ 1 ∧
    ∀ e ∈ r.entries, e.id = idContentLength →
      ∃ n : Nat, contentLength r.entries = some (n : Int) ∧ decimalValue (strip e.value) = some n := by
  rw [parseHeader_eq] at h
  cases hraw : rawEntries cfg block with
  | none => simp [hraw] at h
  | some raw =>
    simp only [hraw] at h
    cases hfold : clFold cfg.relaxed [] {} raw with
    | none => simp [hfold] at h
    | some p =>
      obtain ⟨es, cl⟩ := p
      simp only [hfold] at h
      obtain ⟨_, _, hnon, _, _⟩ := clFold_spec cfg.relaxed raw [] {} [] es cl (shape_init cfg.relaxed) hfold
      by_cases hc : cfg.prohibited = true ∨ es.any (fun e => e.id == idTransferEncoding) = true
      · have hnil := (finish_ignored cfg es cl r hc h).1
        refine ⟨by rw [hnil]; simp, ?_⟩
        intro e he hid
        have : e ∈ r.entries.filter isCl := List.mem_filter.mpr ⟨he, by simp [isCl, hid]⟩
        rw [hnil] at this; simp at this
      · have hp : cfg.prohibited = false := by
          cases hpp : cfg.prohibited with
          | false => rfl
          | true => exact absurd (Or.inl hpp) hc
        have hte : hasTe raw = false := by
          unfold hasTe
          rw [any_te_filter raw]
          simp only [List.filter_nil, List.nil_append] at hnon
          rw [← hnon, ← any_te_filter es]
          cases ht : es.any (fun e => e.id == idTransferEncoding) with
          | false => rfl
          | true => exact absurd (Or.inr ht) hc
        obtain ⟨r', hr', hcl, _, _, _, hlen, hents⟩ := finish_plain cfg raw es cl hfold hp hte
        rw [hr'] at h
        have hrr : r' = r := by simpa using h
        subst hrr
        refine ⟨hlen, ?_⟩
        intro e he hid
        obtain ⟨k, hk, hd⟩ := hents e (List.mem_filter.mpr ⟨he, by simp [isCl, hid]⟩)
        exact ⟨k, by rw [hcl]; exact hk, hd⟩

/-- Transfer-Encoding wins and prohibited Content-Length is ignored: in both cases no Content-Length is left for the callers. -/
theorem content_length_ignored (cfg : Cfg) (block : Bytes) (r : HdrResult) (raw : List Entry)
    (h : parseHeader cfg block = .ok r) (hraw : rawEntries cfg block = some raw)
    (hc : cfg.prohibited = true ∨ hasTe raw = true) :
    contentLength r.entries = none ∧ r.conflictingContentLength = false := by
  rw [parseHeader_eq] at h
  simp only [hraw] at h
  cases hfold : clFold cfg.relaxed [] {} raw with
  | none => simp [hfold] at h
  | some p =>
    obtain ⟨es, cl⟩ := p
    simp only [hfold] at h
    obtain ⟨_, _, hnon, _, _⟩ := clFold_spec cfg.relaxed raw [] {} [] es cl (shape_init cfg.relaxed) hfold
    have hte_eq : es.any (fun e => e.id == idTransferEncoding) = hasTe raw := by
      unfold hasTe
      rw [any_te_filter es, any_te_filter raw]
      simp only [List.filter_nil, List.nil_append] at hnon
      rw [hnon]
    have := finish_ignored cfg es cl r (by rw [hte_eq]; exact hc) h
    exact ⟨contentLength_none_of_noCl _ this.1, this.2⟩

/-- Completeness. A syntactically acceptable block without Transfer-Encoding and without prohibition, whose Content-Length fields
(at least one; exactly one with the strict parser) all carry at least one value and only values denoting `n`, is accepted, is not
flagged, and `getInt64(CONTENT_LENGTH)` is `n`. -/
theorem unambiguous_accepted (cfg : Cfg) (block : Bytes) (raw : List Entry) (n : Nat)
    (hraw : rawEntries cfg block = some raw) (hp : cfg.prohibited = false) (hte : hasTe raw = false)
    (hne : clValues raw ≠ [])
    (hall : AllDenote cfg.relaxed (clValues raw) n) (hstrict : cfg.relaxed = false → (clValues raw).length = 1) :
    ∃ r, parseHeader cfg block = .ok r ∧ contentLength r.entries = some (n : Int) ∧ r.conflictingContentLength = false := by
  have hblank : ∀ v ∈ clValues raw, BlankOk v := fun v hv =>
    blankOk_of_decimal cfg.relaxed v (fun x hx => ⟨n, (hall v hv).2 x hx⟩)
  have hvals := rawEntries_values cfg block raw hraw
  have hcl : ∀ v ∈ clValues raw, BlankOk v ∧ (10 : UInt8) ∉ v ∧ strip v = v ∧ fieldValues cfg.relaxed v ≠ [] ∧
      ∀ x ∈ fieldValues cfg.relaxed v, decimalValue x = some ((n : Int)).toNat := by
    intro v hv
    have hv' := hv
    simp only [clValues, List.mem_map, List.mem_filter] at hv'
    obtain ⟨e, ⟨he, hid⟩, rfl⟩ := hv'
    have := hvals e he
    have hfr : isFraming e.id = true := by simp [isFraming, hid]
    exact ⟨hblank _ hv, this.2 hfr, this.1, (hall _ hv).1, by simpa using (hall _ hv).2⟩
  obtain ⟨es, cl, hfold, hbad, hgood, hval⟩ := clFold_complete cfg.relaxed (n : Int) (Int.natCast_nonneg n) raw [] {} hcl rfl
    (by intro h; simp at h) (by intro hr; right; exact ⟨rfl, by rw [hstrict hr]; exact Nat.le_refl 1⟩)
  have hg : cl.sawGood = true := by
    rw [hgood]
    cases hcv : clValues raw with
    | nil => exact absurd hcv hne
    | cons a b => rfl
  obtain ⟨r, hr, hclr, hconf, _⟩ := finish_plain cfg raw es cl hfold hp hte
  refine ⟨r, ?_, ?_, by rw [hconf]; exact hbad⟩
  · rw [parseHeader_eq]; simp only [hraw, hfold]; exact hr
  · rw [hclr]; simp [clDecision, hbad, hg, hval hg]

/-- the values of a list field are its non-blank members, trimmed (a reading of `elements` that does not mention the code's
separator set `isListLead`) -/
theorem list_values_are_nonblank_members (v : Bytes) :
    elements v = ((splitComma v).map strip).filter (fun x => !x.isEmpty) := elements_spec v

/-! ### the former findings, as regression cases of the repaired code -/

/-- `Content-Length: 5,<VT>,7`: the VT-only member is skipped like other whitespace, 5 and 7 conflict: bad framing -/
theorem list_with_vt_member_conflict :
    parseHeader ⟨true, .request, false⟩
      [67,111,110,116,101,110,116,45,76,101,110,103,116,104,58,32, 53,44,11,44,55, 13,10] = .ok ⟨[], true, false⟩ ∧
    fieldValues true [53,44,11,44,55] = [[53], [55]] := by
  refine ⟨by decide +kernel, by decide +kernel⟩

/-- `Content-Length: ,<VT>,7`: one value, 7 -/
theorem list_with_leading_vt_member :
    parseHeader ⟨true, .request, false⟩
      [67,111,110,116,101,110,116,45,76,101,110,103,116,104,58,32, 44,11,44,55, 13,10]
      = .ok ⟨[⟨idContentLength, nameOf idContentLength, [55]⟩], false, false⟩ := by decide +kernel

/-- `Content-Length: ,`: a list without any member is bad framing -/
theorem empty_list_is_bad :
    parseHeader ⟨true, .request, false⟩ [67,111,110,116,101,110,116,45,76,101,110,103,116,104,58,32, 44, 13,10]
      = .ok ⟨[], true, false⟩ ∧ fieldValues true [44] = [] := by
  refine ⟨by decide +kernel, by decide +kernel⟩

/-! ### what the code did before 43aac5c / 95b4622 (pre-fix definitions; for the record) -/

/-- PRE-FIX: `5,<VT>,7` — the scan stopped at the VT-only member: value 5, no conflict seen, `sawBad` clear -/
theorem prefix_list_truncated_counterexample :
    (checkListPreFix {} [53,44,11,44,55]).sawBad = false ∧ (checkListPreFix {} [53,44,11,44,55]).sawGood = true ∧
    (checkListPreFix {} [53,44,11,44,55]).value = 5 := by
  refine ⟨by decide +kernel, by decide +kernel, by decide +kernel⟩

/-- PRE-FIX: `,` — no member at all, yet neither bad nor good: the field was sanitised away as if absent -/
theorem prefix_empty_list_counterexample :
    (checkListPreFix {} [44]).sawBad = false ∧ (checkListPreFix {} [44]).sawGood = false := by
  refine ⟨by decide +kernel, by decide +kernel⟩

/-! ### non-vacuity -/

/-- the hypotheses of `otherwise_bad` are satisfiable and its conclusion is the relaxed branch: `Content-Length: 5, 7` -/
example : parseHeader ⟨true, .request, false⟩ [67,111,110,116,101,110,116,45,76,101,110,103,116,104,58,32, 53,44,32,55, 13,10]
    = .ok ⟨[], true, false⟩ := by decide +kernel
/-- … and the strict branch: the same block is rejected -/
example : parseHeader ⟨false, .request, false⟩ [67,111,110,116,101,110,116,45,76,101,110,103,116,104,58,32, 53,44,32,55, 13,10]
    = .reject := by decide +kernel
/-- duplicates of an equal value are accepted only with relaxed parsing, and are re-written to one value -/
example : parseHeader ⟨true, .reply, false⟩
    [67,111,110,116,101,110,116,45,76,101,110,103,116,104,58,32, 48,53,44,32,53, 13,10]
    = .ok ⟨[⟨idContentLength, nameOf idContentLength, [53]⟩], false, false⟩ := by decide +kernel
example : fieldValues true [48,53,44,32,53] = [[48,53],[53]] := by decide +kernel
example : decimalValue [48,53] = some 5 := by decide +kernel
/-- the specification rejects what it should -/
example : decimalValue [43,53] = none := by decide +kernel
example : decimalValue [57,50,50,51,51,55,50,48,51,54,56,53,52,55,55,53,56,48,56] = none := by decide +kernel
example : decimalValue [57,50,50,51,51,55,50,48,51,54,56,53,52,55,55,53,56,48,55] = some 9223372036854775807 := by decide +kernel

end SquidModel.C26
