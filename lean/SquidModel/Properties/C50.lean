/-
C50 — Character sets and tokenizers follow set semantics (first version; the tokenizer theorems follow).
-/
import SquidModel.Base.CharSetOps
import SquidModel.Base.Tok

namespace SquidModel.C50
open SquidModel CharSet

/-- union, difference and complement are the pointwise Boolean operations on membership -/
theorem union_is_set_union (a b : CharSet) (x : UInt8) : (a + b).mem x = (a.mem x || b.mem x) := mem_union a b x
theorem diff_is_set_difference (a b : CharSet) (x : UInt8) : (a - b).mem x = (a.mem x && !b.mem x) := mem_diff a b x
theorem complement_is_set_complement (a : CharSet) (x : UInt8) : a.complement.mem x = !a.mem x := mem_complement a x

end SquidModel.C50
