/-
C50 — Character sets and tokenizers follow set semantics.

Property theorems only. Models: `Base/CharSet.lean` + `Base/CharSetOps.lean` (CharacterSet as a 256-bit mask, used by every
parser model), `CharacterSet/Slots.lean` (the C++ loops over the 256-cell vector), `Base/Tok.lean` (Parser::Tokenizer).
A set of byte values is identified with its membership predicate `UInt8 → Bool`; "behaves as the set operation" is
pointwise equality of membership, and sets with the same members are equal (`operator==`).
All statements hold for every set, every buffer and every limit (including 0 and npos); the trailing tokenizer
operations assume `buffer length < npos`, which SBuf guarantees (`maxSize < npos`, `sbuf_bound`).
-/
import SquidModel.Base.CharSetOps
import SquidModel.Base.TokLemmas
import SquidModel.CharacterSet.SlotsLemmas
import SquidModel.Gen.CharSets
import SquidModel.Gen.TokConsts

namespace SquidModel.C50
open SquidModel CharSet Tok CharacterSet

/-! ### A. character sets (mask model) -/

/-- `operator+` is union -/
theorem union_is_set_union (a b : CharSet) (x : UInt8) : (a + b).mem x = (a.mem x || b.mem x) := mem_union a b x
/-- `operator-` is difference -/
theorem diff_is_set_difference (a b : CharSet) (x : UInt8) : (a - b).mem x = (a.mem x && !b.mem x) := mem_diff a b x
/-- `complement()` is complement with respect to all 256 octets -/
theorem complement_is_set_complement (a : CharSet) (x : UInt8) : a.complement.mem x = !a.mem x := mem_complement a x
/-- `add(c)` inserts one octet -/
theorem add_is_insert (a : CharSet) (c x : UInt8) : (a.add c).mem x = (a.mem x || x == c) := mem_add a c x
/-- `remove(c)` deletes one octet -/
theorem remove_is_erase (a : CharSet) (c x : UInt8) : (a.remove c).mem x = (a.mem x && x != c) := mem_remove a c x
/-- `addRange(low, high)` with `low ≤ high` adds the closed interval -/
theorem addRange_is_interval (a : CharSet) {lo hi : UInt8} (h : lo ≤ hi) (x : UInt8) :
    (a.addRange lo hi).mem x = (a.mem x || (decide (lo ≤ x) && decide (x ≤ hi))) := mem_addRange_of_le a h x
/-- … and for any arguments it adds `[low, high)` and `high` (so a reversed range adds just `high`) -/
theorem addRange_general (a : CharSet) (lo hi x : UInt8) :
    (a.addRange lo hi).mem x = (a.mem x || (decide (lo ≤ x) && decide (x < hi)) || x == hi) := mem_addRange a lo hi x
/-- the C-string constructor collects the bytes before the first NUL -/
theorem cstring_ctor_members (l : Bytes) (x : UInt8) : (ofCString l).mem x = (l.takeWhile (· != 0)).contains x :=
  mem_ofCString l x
/-- the member list printed by the line protocol is the member set -/
theorem members_iff (c : CharSet) (x : UInt8) : x ∈ c.members ↔ c.mem x = true := mem_members c x

/-- a set is determined by its members … -/
theorem set_extensionality {a b : CharSet} (ha : WF a) (hb : WF b) (h : ∀ x, a.mem x = b.mem x) : a = b := ext ha hb h
/-- … so `operator==` is equality of member sets -/
theorem eq_operator_is_set_equality {a b : CharSet} (ha : WF a) (hb : WF b) :
    a.beq b = true ↔ ∀ x, a.mem x = b.mem x := beq_iff ha hb
/-- every constructor and operation yields a well-formed set (only the 256 low bits) -/
theorem operations_well_formed {a b : CharSet} (ha : WF a) (hb : WF b) (c lo hi : UInt8) (l : Bytes) (rs : List (UInt8 × UInt8)) :
    WF (a + b) ∧ WF (a - b) ∧ WF a.complement ∧ WF (a.add c) ∧ WF (a.remove c) ∧ WF (a.addRange lo hi) ∧
    WF (ofCString l) ∧ WF (ofRanges rs) ∧ WF CharSet.empty :=
  ⟨WF_union ha hb, WF_diff b ha, WF_complement ha, WF_add c ha, WF_remove c ha, WF_addRange lo hi ha,
   WF_ofCString l, WF_ofRanges rs, WF_empty⟩

/-- the dumped public constants are well formed (regenerated every run) -/
theorem constants_well_formed :
    WF Gen.CharSets.ALPHA ∧ WF Gen.CharSets.DIGIT ∧ WF Gen.CharSets.HEXDIG ∧ WF Gen.CharSets.TCHAR ∧ WF Gen.CharSets.WSP ∧
    WF Gen.CharSets.VCHAR ∧ WF Gen.CharSets.OBSTEXT ∧ WF Gen.CharSets.QDTEXT ∧ WF Gen.CharSets.CTEXT ∧ WF Gen.CharSets.CTL := by
  unfold WF; decide

/-! ### B. character sets (the C++ loops over 256 cells) -/

/-- the `+=` loop is union, the `-=` loop is difference, `std::transform(logical_not)` is complement -/
theorem slots_union (d s : Slots) (hd : d.length = 256) (hs : s.length = 256) (c : UInt8) :
    memS (addAssign d s) c = (memS d c || memS s c) := memS_addAssign d s hd hs c
theorem slots_difference (d s : Slots) (hd : d.length = 256) (hs : s.length = 256) (c : UInt8) :
    memS (subAssign d s) c = (memS d c && !memS s c) := memS_subAssign d s hd hs c
theorem slots_complement (s : Slots) (h : s.length = 256) (c : UInt8) : memS (complementS s) c = !memS s c :=
  memS_complementS s h c
theorem slots_addRange (s : Slots) (h : s.length = 256) (lo hi c : UInt8) :
    memS (addRangeS s lo hi) c = (memS s c || (decide (lo ≤ c) && decide (c < hi)) || c == hi) := memS_addRangeS s h lo hi c
/-- `chars_ == cs.chars_` on cells that are 0 or 1 is equality of member sets -/
theorem slots_eq_operator {a b : Slots} (ha : Canon a) (hb : Canon b) : eqS a b = true ↔ ∀ c, memS a c = memS b c :=
  eqS_iff ha hb
/-- the 0/1 invariant is established by the constructors and preserved by every operation -/
theorem slots_invariant {d s : Slots} (hd : Canon d) (hs : Canon s) (b : UInt8) :
    Canon blank ∧ Canon (addS d b) ∧ Canon (removeS d b) ∧ Canon (addAssign d s) ∧ Canon (subAssign d s) ∧ Canon (complementS d) :=
  ⟨Canon_blank, Canon_addS hd b, Canon_removeS hd b, Canon_addAssign hd hs, Canon_subAssign hd hs, Canon_complementS hd.1⟩

/-- **Refinement**: the abstraction `abs` (cell ≠ 0 ↦ bit) maps the slot-level operations to the mask operations
that all parser models use. -/
theorem slots_refine_mask (d s : Slots) (hd : d.length = 256) (hs : s.length = 256) (b lo hi : UInt8) (l : Bytes)
    (rs : List (UInt8 × UInt8)) :
    abs (addAssign d s) = abs d + abs s ∧ abs (subAssign d s) = abs d - abs s ∧
    abs (complementS d) = (abs d).complement ∧ abs (addS d b) = (abs d).add b ∧ abs (removeS d b) = (abs d).remove b ∧
    abs (addRangeS d lo hi) = (abs d).addRange lo hi ∧ abs (ofCStringS l) = ofCString l ∧ abs (ofRangesS rs) = ofRanges rs ∧
    abs blank = CharSet.empty ∧ (∀ c, (abs d).mem c = memS d c) :=
  ⟨abs_addAssign d s hd hs, abs_subAssign d s hd hs, abs_complementS d hd, abs_addS d hd b, abs_removeS d hd b,
   abs_addRangeS d hd lo hi, abs_ofCStringS l, abs_ofRangesS rs, abs_blank, mem_abs d⟩

/-! ### C. tokenizer -/

/-- SBuf keeps every buffer below `npos` (`maxSize < npos`), with the constants of the staged tree -/
theorem sbuf_bound : Tok.npos = Gen.TokConsts.npos ∧ Tok.maxSize = Gen.TokConsts.maxSize ∧ Tok.maxSize < Tok.npos := by decide

/-- **prefix**: on success `token ++ remaining = buffer`, the token is non-empty, consists of members, is no longer than
the limited region (`takeLim limit buffer`: the whole buffer for `npos`, else the first `min limit length` bytes) and is maximal:
it fills the region or is followed by a non-member; `parsedSize` grows by its length. -/
theorem prefix_consumes_maximal_run {t : Tok} {cs : CharSet} {limit : Nat} {r : Bytes} {t' : Tok}
    (h : prefixOf t cs limit = some (r, t')) :
    r ++ t'.buf = t.buf ∧ r ≠ [] ∧ (∀ b ∈ r, cs.mem b = true) ∧ t'.parsed = t.parsed + r.length ∧
    r.length ≤ (takeLim limit t.buf).length ∧
    (r.length = (takeLim limit t.buf).length ∨ ∃ b rest, t'.buf = b :: rest ∧ cs.mem b = false) := prefixOf_some h

/-- **prefix** fails (tokenizer unchanged) exactly when the limited region is empty — empty buffer or limit 0 — or starts
with a non-member -/
theorem prefix_fails_iff (t : Tok) (cs : CharSet) (limit : Nat) :
    prefixOf t cs limit = none ↔
      (takeLim limit t.buf = [] ∨ ∃ b rest, takeLim limit t.buf = b :: rest ∧ cs.mem b = false) := prefixOf_none_iff t cs limit

/-- the limited region has the length the limit says: everything for npos, `min limit length` otherwise -/
theorem limit_region_length (n : Nat) (l : Bytes) :
    (takeLim n l).length = if n = npos then l.length else min n l.length := takeLim_length n l

/-- a limit not smaller than the buffer is no limit -/
theorem prefix_large_limit {t : Tok} {limit : Nat} (cs : CharSet) (h : t.buf.length ≤ limit) :
    prefixOf t cs limit = prefixOf t cs npos := prefixOf_of_le cs h

/-- **suffix**: on success `remaining ++ token = buffer`, non-empty, members only, at most `min limit length` long,
maximal (fills that region or is preceded by a non-member); `parsedSize` grows by its length -/
theorem suffix_consumes_maximal_run {t : Tok} {cs : CharSet} {limit : Nat} {r : Bytes} {t' : Tok} (hlen : t.buf.length < npos)
    (h : suffixOf t cs limit = some (r, t')) :
    t'.buf ++ r = t.buf ∧ r ≠ [] ∧ (∀ b ∈ r, cs.mem b = true) ∧ t'.parsed = t.parsed + r.length ∧
    r.length ≤ min limit t.buf.length ∧
    (r.length = min limit t.buf.length ∨ ∃ pre b, t'.buf = pre ++ [b] ∧ cs.mem b = false) := suffixOf_some hlen h

/-- **suffix** fails exactly when the region (the last `min limit length` bytes, here reversed) is empty or ends with a non-member -/
theorem suffix_fails_iff (t : Tok) (cs : CharSet) (limit : Nat) (hlen : t.buf.length < npos) :
    suffixOf t cs limit = none ↔
      (revRegion limit t.buf = [] ∨ ∃ b rest, revRegion limit t.buf = b :: rest ∧ cs.mem b = false) :=
  suffixOf_none_iff t cs limit hlen

/-- **skipAll** removes exactly the maximal leading run of members, returns its length and adds it to `parsedSize` -/
theorem skipAll_consumes_maximal_run (t : Tok) (cs : CharSet) :
    ∃ skipped, skipped ++ (skipAll t cs).2.buf = t.buf ∧ (∀ b ∈ skipped, cs.mem b = true) ∧
      (skipAll t cs).1 = skipped.length ∧ (skipAll t cs).2.parsed = t.parsed + skipped.length ∧
      ((skipAll t cs).2.buf = [] ∨ ∃ b rest, (skipAll t cs).2.buf = b :: rest ∧ cs.mem b = false) := skipAll_span t cs

/-- **skipAllTrailing** removes exactly the maximal trailing run of members -/
theorem skipAllTrailing_consumes_maximal_run (t : Tok) (cs : CharSet) (hlen : t.buf.length < npos) :
    ∃ removed, (skipAllTrailing t cs).2.buf ++ removed = t.buf ∧ (∀ b ∈ removed, cs.mem b = true) ∧
      (skipAllTrailing t cs).1 = removed.length ∧ (skipAllTrailing t cs).2.parsed = t.parsed + removed.length ∧
      ((skipAllTrailing t cs).2.buf = [] ∨ ∃ pre b, (skipAllTrailing t cs).2.buf = pre ++ [b] ∧ cs.mem b = false) :=
  skipAllTrailing_span t cs hlen

/-- **token**: on success the buffer is `delimiters ++ token ++ delimiters ++ remaining` with a non-empty delimiter-free token,
at least one trailing delimiter, all trailing delimiters consumed, and `parsedSize` advanced by all three parts -/
theorem token_consumes_delimited_token {t : Tok} {d : CharSet} {tok : Bytes} {t' : Tok} (h : token t d = some (tok, t')) :
    ∃ d1 d2, d1 ++ tok ++ d2 ++ t'.buf = t.buf ∧ (∀ b ∈ d1, d.mem b = true) ∧ tok ≠ [] ∧ (∀ b ∈ tok, d.mem b = false) ∧
      d2 ≠ [] ∧ (∀ b ∈ d2, d.mem b = true) ∧ (t'.buf = [] ∨ ∃ b rest, t'.buf = b :: rest ∧ d.mem b = false) ∧
      t'.parsed = t.parsed + d1.length + tok.length + d2.length := token_some h

/-- **token** fails (and restores the tokenizer) exactly when no delimiter follows the leading delimiters -/
theorem token_fails_iff (t : Tok) (d : CharSet) :
    token t d = none ↔ ∀ b ∈ t.buf.dropWhile d.mem, d.mem b = false := token_none_iff t d

/-- **skipOne / skip(char)** remove exactly the first byte when it qualifies -/
theorem skipOne_spec (t : Tok) (cs : CharSet) :
    skipOne t cs = match t.buf with
      | b :: rest => if cs.mem b then some ⟨rest, t.parsed + 1⟩ else none
      | [] => none := skipOne_eq t cs
theorem skipChar_spec (t : Tok) (c : UInt8) :
    skipChar t c = match t.buf with
      | b :: rest => if b = c then some ⟨rest, t.parsed + 1⟩ else none
      | [] => none := skipChar_eq t c
/-- **skipOneTrailing** removes exactly the last byte when it is a member -/
theorem skipOneTrailing_spec (t : Tok) (cs : CharSet) (hlen : t.buf.length < npos) :
    skipOneTrailing t cs = match t.buf.getLast? with
      | some b => if cs.mem b then some ⟨t.buf.dropLast, t.parsed + 1⟩ else none
      | none => none := skipOneTrailing_eq t cs hlen

/-- **skip(SBuf)** succeeds exactly on a non-empty literal prefix and removes exactly it -/
theorem skip_literal_iff (t : Tok) (tok : Bytes) (t' : Tok) :
    skip t tok = some t' ↔ tok ≠ [] ∧ tok ++ t'.buf = t.buf ∧ t'.parsed = t.parsed + tok.length := skip_some_iff t tok t'
/-- **skipSuffix** succeeds exactly on a non-empty literal suffix and removes exactly it -/
theorem skipSuffix_literal_iff (t : Tok) (tok : Bytes) (t' : Tok) (hlen : t.buf.length < npos) :
    skipSuffix t tok = some t' ↔ tok ≠ [] ∧ t'.buf ++ tok = t.buf ∧ t'.parsed = t.parsed + tok.length :=
  skipSuffix_some_iff t tok t' hlen
/-- **skipRequired** returns exactly when the literal (possibly empty) is a prefix, having removed it; it reports
InsufficientInput exactly when the buffer is a proper prefix of the literal -/
theorem skipRequired_ok (t : Tok) (tok : Bytes) (t' : Tok) :
    skipRequired t tok = .ok t' ↔ tok ++ t'.buf = t.buf ∧ t'.parsed = t.parsed + tok.length := skipRequired_ok_iff t tok t'
theorem skipRequired_insufficient (t : Tok) (tok : Bytes) :
    skipRequired t tok = .error .insufficient ↔ (tok ≠ [] ∧ ¬ tok <+: t.buf ∧ t.buf <+: tok) :=
  skipRequired_insufficient_iff t tok
/-- the throwing **prefix** returns exactly when `prefix` succeeds and input remains after the token -/
theorem prefixThrow_ok (t : Tok) (cs : CharSet) (limit : Nat) (r : Bytes) (t' : Tok) :
    prefixThrow t cs limit = .ok (r, t') ↔ prefixOf t cs limit = some (r, t') ∧ t'.buf ≠ [] := prefixThrow_ok_iff t cs limit r t'

/-! ### non-vacuity -/

-- "  ab c": skip blanks, take two letters with limit 2 while three would match, token up to the blank
example : skipAll ⟨[32,32,97,98,99,32,100], 0⟩ (CharSet.ofBytes [32]) = (2, ⟨[97,98,99,32,100], 2⟩) := by decide
example : prefixOf ⟨[97,98,99,32,100], 2⟩ Gen.CharSets.ALPHA 2 = some ([97,98], ⟨[99,32,100], 4⟩) := by decide
example : prefixOf ⟨[97,98,99,32,100], 2⟩ Gen.CharSets.ALPHA 0 = none := by decide
example : prefixOf ⟨[97,98,99,32,100], 2⟩ Gen.CharSets.ALPHA npos = some ([97,98,99], ⟨[32,100], 5⟩) := by decide
example : prefixOf ⟨[32,100], 5⟩ Gen.CharSets.ALPHA npos = none := by decide
example : token ⟨[32,97,98,32,32,99], 0⟩ Gen.CharSets.SP = some ([97,98], ⟨[99], 5⟩) := by decide
example : token ⟨[32,97,98], 0⟩ Gen.CharSets.SP = none := by decide
example : suffixOf ⟨[97,32,49,50,51], 0⟩ Gen.CharSets.DIGIT 2 = some ([50,51], ⟨[97,32,49], 2⟩) := by decide
example : skipAllTrailing ⟨[97,13,10,13,10], 0⟩ (CharSet.ofBytes [13,10]) = (4, ⟨[97], 4⟩) := by decide
example : (Gen.CharSets.ALPHA + Gen.CharSets.DIGIT).mem 55 = true ∧ (Gen.CharSets.ALPHA - Gen.CharSets.HEXDIG).mem 97 = false ∧
    Gen.CharSets.ALPHA.complement.mem 97 = false ∧ Gen.CharSets.ALPHA.complement.mem 0 = true := by decide
example : (CharSet.empty.addRange 57 48).members = [48] := by decide
example : memS (addAssign (addS blank 65) (addS blank 66)) 66 = true ∧ memS (subAssign (addS blank 65) (addS blank 65)) 65 = false := by
  decide

end SquidModel.C50
